-- Root of the library: every model, spec, proof and property module.
import GoSQLXModel.Model.Val
import GoSQLXModel.Model.Walk
import GoSQLXModel.Model.Tables
import GoSQLXModel.Model.Pool
import GoSQLXModel.Gen.AstTables
import GoSQLXModel.Gen.Produced
import GoSQLXModel.Gen.Known
import GoSQLXModel.Model.CallGraph
import GoSQLXModel.Gen.ParserGraph
import GoSQLXModel.Gen.TokenizerGraph
import GoSQLXModel.Gen.Limits
import GoSQLXModel.Props.C02
import GoSQLXModel.Props.C09
import GoSQLXModel.Props.C14
import GoSQLXModel.Driver.Ops
