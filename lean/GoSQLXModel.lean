-- Root of the library: every model, spec, proof and property module.
import GoSQLXModel.Model.Val
import GoSQLXModel.Model.Walk
import GoSQLXModel.Model.Tables
import GoSQLXModel.Model.Pool
import GoSQLXModel.Gen.AstTables
import GoSQLXModel.Gen.Produced
import GoSQLXModel.Gen.Known
import GoSQLXModel.Props.C09
import GoSQLXModel.Props.C14
import GoSQLXModel.Driver.Ops
