import GoSQLXModel.Driver.Ops
/-! Line-protocol driver: one request per stdin line (`op<TAB>payload`), one response per line.
    Imports only `Model/` (never `Props/`, never Mathlib), so it links as a plain executable. -/
open GoSQLXModel

partial def loop (h : IO.FS.Stream) (out : IO.FS.Stream) : IO Unit := do
  let line ← h.getLine
  if line.isEmpty then return ()
  let line := if line.endsWith "\n" then (line.dropEnd 1).toString else line
  let (op, payload) := match line.splitOn "\t" with
    | [] => ("", "")
    | [o] => (o, "")
    | o :: rest => (o, "\t".intercalate rest)
  out.putStrLn (Driver.dispatch op payload)
  out.flush
  loop h out

def main : IO Unit := do loop (← IO.getStdin) (← IO.getStdout)
