/-! Hand-written expectation: the shared-memory program of `metrics.RecordTokenization`, as the
    protocol the `Metrics` model proves exact (atomic adds, compare-and-swap loops for min/max, mutex-guarded map). -/
namespace GoSQLXModel.Spec

def recordTokenizationProgram : List (String × String × String) := [
  ("RecordTokenization", "load", "enabled"),
  ("RecordTokenization", "add", "tokenizeOperations"),
  ("RecordTokenization", "add", "tokenizeDuration"),
  ("RecordTokenization", "store", "lastTokenizeTime"),
  ("RecordTokenization", "add", "totalQueryBytes"),
  ("RecordTokenization", "casloop", "minQuerySize"),
  ("RecordTokenization", "casloop", "maxQuerySize"),
  ("RecordTokenization", "add", "tokenizeErrors"),
  ("RecordTokenization", "locked-map", "errorsByType")]

def recordParseProgram : List (String × String × String) := [
  ("RecordParse", "load", "enabled"),
  ("RecordParse", "add", "parseOperations"),
  ("RecordParse", "add", "parseDuration"),
  ("RecordParse", "store", "lastParseTime"),
  ("RecordParse", "add", "statementsCreated"),
  ("RecordParse", "add", "parseErrors"),
  ("RecordParse", "locked-map", "errorsByType")]

end GoSQLXModel.Spec
