/-!
# Hand-written expectations about error construction sites

`unreachableSites`: sites that construct an error outside the structured/right-family discipline but
that no input can reach; each entry is (package, function, message prefix) with the reason.
A new offending site anywhere else — or a change that makes one of these reachable under a
different identity — fails the obligation in Props/C13.
-/
namespace GoSQLXModel.Spec

def unreachableSites : List (String × String × String) := [
  -- `var ErrUnexpectedStatement = errors.New(...)`: only wrapped at dml.go in the branch
  -- `stmt.(ast.QueryExpression)` failing after parseSelectWithSetOperations, which returns only
  -- *SelectStatement / *SetOperation, both QueryExpressions
  ("pkg/sql/parser", "ErrUnexpectedStatement", "unexpected statement type"),
  -- readPunctuation's `pos >= len(input)` guard: both main loops leave before calling nextToken
  -- when the position is at the end of the input
  ("pkg/sql/tokenizer", "Tokenizer.readPunctuation", "")
]

/-- documented error codes (pkg/errors/errors.go) -/
def documentedCodes : List String := [
  "E1001", "E1002", "E1003", "E1004", "E1005", "E1006", "E1007", "E1008",
  "E2001", "E2002", "E2003", "E2004", "E2005", "E2006", "E2007", "E2008", "E2009", "E2010", "E2011", "E2012",
  "E3001", "E3002", "E3003", "E3004", "E4001", "E4002"]

end GoSQLXModel.Spec
