import GoSQLXModel.Model.Lint
/-! Lemmas about the lint rewriters: split/join round trips, idempotence of the line transducers. -/
namespace GoSQLXModel.Lint

theorem splitLines_ne_nil (t : List Char) : splitLines t ≠ [] := by
  cases t with
  | nil => simp [splitLines]
  | cons c cs =>
    simp only [splitLines]
    split
    · simp
    · split <;> simp

/-- no line produced by `splitLines` contains a line feed -/
theorem splitLines_no_nl (t : List Char) : ∀ l ∈ splitLines t, '\n' ∉ l := by
  induction t with
  | nil => simp [splitLines]
  | cons c cs ih =>
    simp only [splitLines]
    split
    · rename_i hc
      intro l hl
      simp at hl
      rcases hl with rfl | hl
      · simp
      · exact ih l hl
    · rename_i hc
      cases hs : splitLines cs with
      | nil => exact absurd hs (splitLines_ne_nil cs)
      | cons l0 ls =>
        rw [hs] at ih
        intro l hl
        simp at hl
        rcases hl with rfl | hl
        · have := ih l0 (by simp)
          simp only [List.mem_cons, not_or]
          exact ⟨fun h => hc h.symm, this⟩
        · exact ih l (by simp [hl])

theorem joinLines_cons (l : List Char) (ls : List (List Char)) (h : ls ≠ []) :
    joinLines (l :: ls) = l ++ '\n' :: joinLines ls := by
  cases ls with
  | nil => exact absurd rfl h
  | cons a as => rfl

/-- `strings.Join(strings.Split(s, "\n"), "\n") = s` -/
theorem join_split (t : List Char) : joinLines (splitLines t) = t := by
  induction t with
  | nil => rfl
  | cons c cs ih =>
    simp only [splitLines]
    split
    · rename_i hc
      rw [joinLines_cons _ _ (splitLines_ne_nil cs), ih, hc]; rfl
    · cases hs : splitLines cs with
      | nil => exact absurd hs (splitLines_ne_nil cs)
      | cons l0 ls =>
        rw [hs] at ih
        cases ls with
        | nil => simp [joinLines] at ih ⊢; exact ih
        | cons a as =>
          simp only [joinLines] at ih ⊢
          rw [← ih]; rfl

/-- splitting a line-feed-free line gives that line -/
theorem splitLines_of_no_nl (l : List Char) (h : '\n' ∉ l) : splitLines l = [l] := by
  induction l with
  | nil => rfl
  | cons c cs ih =>
    have hc : c ≠ '\n' := fun e => h (by simp [e])
    have := ih (fun e => h (by simp [e]))
    simp [splitLines, hc, this]

theorem splitLines_append_nl (l : List Char) (rest : List Char) (h : '\n' ∉ l) :
    splitLines (l ++ '\n' :: rest) = l :: splitLines rest := by
  induction l with
  | nil => simp [splitLines]
  | cons c cs ih =>
    have hc : c ≠ '\n' := fun e => h (by simp [e])
    have := ih (fun e => h (by simp [e]))
    simp [splitLines, hc, this]

/-- `strings.Split(strings.Join(lines, "\n"), "\n") = lines` for line-feed-free lines -/
theorem split_join (ls : List (List Char)) (hne : ls ≠ []) (h : ∀ l ∈ ls, '\n' ∉ l) : splitLines (joinLines ls) = ls := by
  induction ls with
  | nil => exact absurd rfl hne
  | cons l ls ih =>
    cases ls with
    | nil => simpa [joinLines] using splitLines_of_no_nl l (h l (by simp))
    | cons a as =>
      rw [joinLines_cons _ _ (by simp), splitLines_append_nl _ _ (h l (by simp))]
      rw [ih (by simp) (fun x hx => h x (by simp [hx]))]

/-- a per-line rewriter that never introduces a line feed commutes with split/join, hence the whole fixer is
    idempotent as soon as the line rewriter is -/
theorem map_fix_idempotent (f : List Char → List Char) (hnl : ∀ l, '\n' ∉ l → '\n' ∉ f l) (hid : ∀ l, f (f l) = f l)
    (s : List Char) :
    joinLines ((splitLines (joinLines ((splitLines s).map f))).map f) = joinLines ((splitLines s).map f) := by
  have hno : ∀ l ∈ (splitLines s).map f, '\n' ∉ l := by
    intro l hl
    obtain ⟨l0, hl0, rfl⟩ := List.mem_map.mp hl
    exact hnl l0 (splitLines_no_nl s l0 hl0)
  rw [split_join _ (by simp [splitLines_ne_nil]) hno, List.map_map]
  congr 1
  apply List.map_congr_left
  intro l _
  exact hid l

theorem head_dropWhile_false {α} (p : α → Bool) : ∀ (l : List α) (c : α), (l.dropWhile p).head? = some c → p c = false := by
  intro l
  induction l with
  | nil => intro c h; simp at h
  | cons a l ih =>
    intro c h
    by_cases ha : p a = true
    · simp [List.dropWhile, ha] at h; exact ih c h
    · have ha' : p a = false := by simpa using ha
      simp [List.dropWhile, ha'] at h; subst h; exact ha'

theorem mem_takeWhile_true {α} (p : α → Bool) : ∀ (l : List α) (c : α), c ∈ l.takeWhile p → p c = true := by
  intro l
  induction l with
  | nil => intro c h; simp at h
  | cons a l ih =>
    intro c h
    by_cases ha : p a = true
    · simp [List.takeWhile, ha] at h
      rcases h with rfl | h
      · exact ha
      · exact ih c h
    · have ha' : p a = false := by simpa using ha
      simp [List.takeWhile, ha'] at h

theorem all_of_dropWhile_nil {α} (p : α → Bool) : ∀ (l : List α), l.dropWhile p = [] → ∀ x ∈ l, p x = true := by
  intro l
  induction l with
  | nil => intro _ x hx; simp at hx
  | cons a l ih =>
    intro h x hx
    by_cases ha : p a = true
    · simp [List.dropWhile, ha] at h
      simp at hx
      rcases hx with rfl | hx
      · exact ha
      · exact ih h x hx
    · have ha' : p a = false := by simpa using ha
      simp [List.dropWhile, ha'] at h

/-! ### L001 -/
theorem dropWhile_idem {α} (p : α → Bool) (l : List α) : (l.dropWhile p).dropWhile p = l.dropWhile p := by
  induction l with
  | nil => rfl
  | cons a l ih =>
    by_cases h : p a = true
    · simp [List.dropWhile, h, ih]
    · have h' : p a = false := by simpa using h
      simp [List.dropWhile, h']

theorem trimRight_idem (l : List Char) : trimRight (trimRight l) = trimRight l := by
  simp [trimRight, dropWhile_idem]

theorem mem_of_mem_dropWhile {α} (p : α → Bool) (l : List α) (a : α) (h : a ∈ l.dropWhile p) : a ∈ l :=
  (List.dropWhile_sublist p).subset h

theorem trimRight_no_nl (l : List Char) (h : '\n' ∉ l) : '\n' ∉ trimRight l := by
  intro hm
  simp only [trimRight, List.mem_reverse] at hm
  exact h (by simpa using mem_of_mem_dropWhile _ _ _ hm)

/-- after L001 no line ends in a blank -/
theorem trimRight_last (l : List Char) : ∀ c, (trimRight l).getLast? = some c → isBlankChar c = false := by
  intro c hc
  simp only [trimRight, List.getLast?_reverse] at hc
  cases hd : l.reverse.dropWhile isBlankChar with
  | nil => rw [hd] at hc; simp at hc
  | cons a as =>
    rw [hd] at hc
    simp at hc; subst hc
    exact head_dropWhile_false isBlankChar l.reverse a (by rw [hd]; rfl)

/-! ### L002 -/
theorem takeWhile_append_dropWhile' (l : List Char) : leadingWs l ++ trimLeft l = l :=
  List.takeWhile_append_dropWhile

theorem expandTabs_blank (ws : List Char) (h : ∀ c ∈ ws, isBlankChar c = true) : ∀ c ∈ expandTabs ws, c = ' ' := by
  intro c hc
  simp only [expandTabs, List.mem_flatMap] at hc
  obtain ⟨d, hd, hcd⟩ := hc
  split at hcd
  · simp at hcd; exact hcd
  · rename_i hnt
    simp at hcd; subst hcd
    have := h c hd
    simp [isBlankChar, hnt] at this
    exact this

theorem expandTabs_spaces (ws : List Char) (h : ∀ c ∈ ws, c = ' ') : expandTabs ws = ws := by
  induction ws with
  | nil => rfl
  | cons a as ih =>
    have ha : a = ' ' := h a (by simp)
    have := ih (fun c hc => h c (by simp [hc]))
    subst ha
    simp only [expandTabs, List.flatMap_cons] at this ⊢
    simp [this]

theorem trimLeft_head (l : List Char) : ∀ c, (trimLeft l).head? = some c → isBlankChar c = false := by
  intro c hc
  exact head_dropWhile_false isBlankChar l c hc

theorem takeWhile_append_stop (p : Char → Bool) (a b : List Char) (ha : ∀ c ∈ a, p c = true)
    (hb : ∀ c, b.head? = some c → p c = false) : (a ++ b).takeWhile p = a ∧ (a ++ b).dropWhile p = b := by
  constructor
  · rw [List.takeWhile_append_of_pos ha]
    cases b with
    | nil => simp
    | cons c cs => have := hb c rfl; simp [List.takeWhile, this]
  · rw [List.dropWhile_append_of_pos ha]
    cases b with
    | nil => simp
    | cons c cs => have := hb c rfl; simp [List.dropWhile, this]

theorem fixLineL002_idem (l : List Char) : fixLineL002 (fixLineL002 l) = fixLineL002 l := by
  unfold fixLineL002
  by_cases he : (leadingWs l).isEmpty = true
  · simp [he]
  · simp only [he, if_false, Bool.false_eq_true]
    have hblank : ∀ c ∈ leadingWs l, isBlankChar c = true := by
      intro c hc; exact mem_takeWhile_true isBlankChar l c hc
    have hsp := expandTabs_blank (leadingWs l) hblank
    have hsp' : ∀ c ∈ expandTabs (leadingWs l), isBlankChar c = true := by
      intro c hc; rw [hsp c hc]; rfl
    obtain ⟨h1, h2⟩ := takeWhile_append_stop isBlankChar (expandTabs (leadingWs l)) (trimLeft l) hsp' (trimLeft_head l)
    have hne : (expandTabs (leadingWs l)).isEmpty = false := by
      cases hl : leadingWs l with
      | nil => simp [hl] at he
      | cons a as => simp only [expandTabs, List.flatMap_cons]; split <;> simp
    have e1 : leadingWs (expandTabs (leadingWs l) ++ trimLeft l) = expandTabs (leadingWs l) := h1
    have e2 : trimLeft (expandTabs (leadingWs l) ++ trimLeft l) = trimLeft l := h2
    simp only [e1, e2, hne, Bool.false_eq_true, if_false]
    rw [expandTabs_spaces _ hsp]

theorem fixLineL002_no_nl (l : List Char) (h : '\n' ∉ l) : '\n' ∉ fixLineL002 l := by
  unfold fixLineL002
  split
  · exact h
  · intro hm
    simp only [List.mem_append] at hm
    rcases hm with hm | hm
    · have := expandTabs_blank (leadingWs l) (fun c hc => mem_takeWhile_true isBlankChar l c hc) _ hm
      simp at this
    · exact h (mem_of_mem_dropWhile _ _ _ hm)

/-! ### L010: the collapse transducer is idempotent from every state -/
theorem collapseGo_idem : ∀ (l : List Char) (inS : Bool) (q : Char) (prev : Bool),
    collapseGo inS q prev (collapseGo inS q prev l) = collapseGo inS q prev l := by
  intro l
  induction l with
  | nil => intro inS q prev; cases inS <;> simp [collapseGo]
  | cons c cs ih =>
    intro inS q prev
    cases inS with
    | false =>
      simp only [collapseGo]
      by_cases hq : c = '\'' ∨ c = '"'
      · simp only [hq, if_true, collapseGo, ih]
      · simp only [hq, if_false]
        by_cases hsp : c = ' '
        · simp only [hsp, if_true]
          cases prev with
          | true => simp only [if_true]; exact ih false q true
          | false =>
            have hq' : ¬ ((' ' : Char) = '\'' ∨ (' ' : Char) = '"') := by decide
            simp only [Bool.false_eq_true, if_false, collapseGo, hq', if_true, ih]
        · simp only [hsp, if_false, collapseGo, hq, ih]
    | true =>
      simp only [collapseGo]
      by_cases hc : c = q
      · simp only [hc, if_true, collapseGo, ih]
      · simp only [hc, if_false, collapseGo, ih]

theorem collapseGo_mem (l : List Char) (inS : Bool) (q : Char) (prev : Bool) : ∀ c ∈ collapseGo inS q prev l, c ∈ l := by
  induction l generalizing inS q prev with
  | nil => cases inS <;> simp [collapseGo]
  | cons d ds ih =>
    intro c hc
    cases inS with
    | false =>
      simp only [collapseGo] at hc
      split at hc
      · simp at hc; rcases hc with rfl | hc
        · simp
        · simp [ih _ _ _ c hc]
      · split at hc
        · split at hc
          · simp [ih _ _ _ c hc]
          · simp at hc; rcases hc with rfl | hc
            · simp
            · simp [ih _ _ _ c hc]
        · simp at hc; rcases hc with rfl | hc
          · simp
          · simp [ih _ _ _ c hc]
    | true =>
      simp only [collapseGo] at hc
      split at hc <;>
      · simp at hc; rcases hc with rfl | hc
        · simp
        · simp [ih _ _ _ c hc]

/-- the first character of a non-blank-initial input is emitted unchanged -/
theorem collapseGo_head (c : Char) (cs : List Char) (h : isBlankChar c = false) :
    ∃ rest, collapseGo false '\x00' false (c :: cs) = c :: rest := by
  simp only [collapseGo]
  have hsp : c ≠ ' ' := by intro e; subst e; simp [isBlankChar] at h
  by_cases hq : c = '\'' ∨ c = '"'
  · simp [hq]
  · simp [hq, hsp]

theorem all_blank_collapse (l : List Char) (h : l.all isBlankChar = true) (prev : Bool) :
    (collapseGo false '\x00' prev l).all isBlankChar = true := by
  simp only [List.all_eq_true] at h ⊢
  intro c hc
  exact h c (collapseGo_mem _ _ _ _ c hc)

theorem fixLineL010_idem (l : List Char) : fixLineL010 (fixLineL010 l) = fixLineL010 l := by
  unfold fixLineL010
  by_cases hb : l.all isBlankChar = true
  · simp only [hb, if_true, all_blank_collapse l hb false, collapseGo_idem]
  · simp only [hb, if_false, Bool.false_eq_true]
    -- the trimmed part is non-empty and starts with a non-blank character, which is emitted as is
    have hne : trimLeft l ≠ [] := by
      intro he
      apply hb
      simp only [List.all_eq_true]
      exact all_of_dropWhile_nil isBlankChar l he
    obtain ⟨c, cs, hcs⟩ := List.exists_cons_of_ne_nil hne
    have hcb : isBlankChar c = false := trimLeft_head l c (by simp [hcs])
    obtain ⟨rest, hrest⟩ := collapseGo_head c cs hcb
    have hlead : ∀ d ∈ leadingWs l, isBlankChar d = true := fun d hd => mem_takeWhile_true isBlankChar l d hd
    have hstop : ∀ d, (collapseGo false '\x00' false (trimLeft l)).head? = some d → isBlankChar d = false := by
      intro d hd; rw [hcs, hrest] at hd; simp at hd; subst hd; exact hcb
    obtain ⟨h1, h2⟩ := takeWhile_append_stop isBlankChar (leadingWs l) _ hlead hstop
    have hnb : (leadingWs l ++ collapseGo false '\x00' false (trimLeft l)).all isBlankChar = false := by
      rw [hcs, hrest]
      simp [List.all_append, hcb]
    have e1 : leadingWs (leadingWs l ++ collapseGo false '\x00' false (trimLeft l)) = leadingWs l := h1
    have e2 : trimLeft (leadingWs l ++ collapseGo false '\x00' false (trimLeft l)) = collapseGo false '\x00' false (trimLeft l) := h2
    simp only [hnb, Bool.false_eq_true, if_false, e1, e2, collapseGo_idem]

theorem fixLineL010_no_nl (l : List Char) (h : '\n' ∉ l) : '\n' ∉ fixLineL010 l := by
  unfold fixLineL010
  split
  · intro hm; exact h (collapseGo_mem _ _ _ _ _ hm)
  · intro hm
    simp only [List.mem_append] at hm
    rcases hm with hm | hm
    · exact h ((List.takeWhile_sublist _).subset hm)
    · exact h (mem_of_mem_dropWhile _ _ _ (collapseGo_mem _ _ _ _ _ hm))

/-- characters consumed while the scan is inside a quoted stretch (including the closing quote) -/
def quotedOf : Bool → Char → List Char → List Char
  | _, _, [] => []
  | false, q, c :: cs => if c = '\'' ∨ c = '"' then quotedOf true c cs else quotedOf false q cs
  | true, q, c :: cs => if c = q then c :: quotedOf false '\x00' cs else c :: quotedOf true q cs

/-- **fix_local (L010)**: the rewriter leaves every stretch it regards as quoted byte-identical -/
theorem collapseGo_quoted : ∀ (l : List Char) (inS : Bool) (q : Char) (prev : Bool),
    quotedOf inS q (collapseGo inS q prev l) = quotedOf inS q l := by
  intro l
  induction l with
  | nil => intro inS q prev; cases inS <;> simp [collapseGo, quotedOf]
  | cons c cs ih =>
    intro inS q prev
    cases inS with
    | false =>
      simp only [collapseGo, quotedOf]
      by_cases hq : c = '\'' ∨ c = '"'
      · simp only [hq, if_true, quotedOf, ih]
      · simp only [hq, if_false]
        by_cases hsp : c = ' '
        · simp only [hsp, if_true]
          have hq' : ¬ ((' ' : Char) = '\'' ∨ (' ' : Char) = '"') := by decide
          cases prev with
          | true => simp only [if_true]; exact ih false q true
          | false => simp only [Bool.false_eq_true, if_false, quotedOf, hq', ih]
        · simp only [hsp, if_false, quotedOf, hq, ih]
    | true =>
      simp only [collapseGo, quotedOf]
      by_cases hc : c = q
      · simp only [hc, if_true, quotedOf, ih]
      · simp only [hc, if_false, quotedOf, ih]

end GoSQLXModel.Lint
