import GoSQLXModel.Proofs.LexProgress
/-!
# Token spans: ordered, inside the input, starting at a non-blank byte; `locOf` is monotone and 1-based
-/
namespace GoSQLXModel.Lex

/-- spans in stream order: each starts at or after the end of the previous one and does not end before it starts -/
def SpansFrom : Nat → List Tok → Prop
  | _, [] => True
  | lo, t :: ts => lo ≤ t.startOff ∧ t.startOff ≤ t.endOff ∧ SpansFrom t.endOff ts

def lastEnd (lo : Nat) : List Tok → Nat
  | [] => lo
  | t :: ts => lastEnd t.endOff ts

theorem spansFrom_append (lo : Nat) (xs : List Tok) (t : Tok) :
    SpansFrom lo (xs ++ [t]) ↔ SpansFrom lo xs ∧ lastEnd lo xs ≤ t.startOff ∧ t.startOff ≤ t.endOff := by
  induction xs generalizing lo with
  | nil => simp [SpansFrom, lastEnd]
  | cons x xs ih =>
    simp only [List.cons_append, SpansFrom, lastEnd, ih]
    constructor
    · rintro ⟨a, b, c, d, e⟩; exact ⟨⟨a, b, c⟩, d, e⟩
    · rintro ⟨⟨a, b, c⟩, d, e⟩; exact ⟨a, b, c, d, e⟩

theorem lastEnd_append (lo : Nat) (xs : List Tok) (t : Tok) : lastEnd lo (xs ++ [t]) = t.endOff := by
  induction xs generalizing lo with
  | nil => simp [lastEnd]
  | cons x xs ih => simp only [List.cons_append, lastEnd, ih]

/-- invariant of the main loop -/
theorem lexLoop_spans (cls : CharClass) (tb : Tables) (inp : Bytes) : ∀ (fuel : Nat) (rest : Bytes) (acc : List Tok)
    (cs : List Comment) (toks : List Tok) (cms : List Comment),
    rest.length ≤ inp.length → SpansFrom 0 acc.reverse → lastEnd 0 acc.reverse ≤ inp.length - rest.length →
    lexLoop cls tb inp fuel rest acc cs = .ok toks cms →
    SpansFrom 0 toks ∧ lastEnd 0 toks = inp.length
  | 0, _, _, _, _, _, _, _, _, h => by simp [lexLoop] at h
  | fuel+1, rest, acc, cs, toks, cms, hr, hs, hl, h => by
    simp only [lexLoop] at h
    have hsuf := (skipTriviaF_suffix inp (rest.length + 1) rest cs).length_le
    generalize skipTriviaF inp (rest.length + 1) rest cs = st at hsuf h
    obtain ⟨r1, cs1⟩ := st
    simp only at hsuf h
    split at h
    · -- end of input: EOF token at inp.length
      injection h with h1 h2; subst h1
      rw [spansFrom_append, lastEnd_append]
      refine ⟨⟨hs, ?_, Nat.le_refl _⟩, rfl⟩
      simp only
      omega
    · split at h
      · simp at h
      · cases hn : nextToken cls tb inp r1 with
        | error e => simp [hn] at h
        | ok x =>
          obtain ⟨t, r2⟩ := x
          simp only [hn] at h
          rename_i hne _
          have hlt := nextToken_progress cls tb inp (by intro e; exact hne e) hn
          refine lexLoop_spans cls tb inp fuel r2 _ cs1 toks cms (by omega) ?_ ?_ h
          · simp only [List.reverse_cons]
            rw [spansFrom_append]
            refine ⟨hs, ?_, ?_⟩ <;> simp only <;> omega
          · simp only [List.reverse_cons, lastEnd_append]; omega

/-- **C05 (ordering, containment)**: the token spans of every accepted input are in stream order, never overlap,
    and the end-of-input marker sits at the end of the input -/
theorem tokenize_spans (cls : CharClass) (tb : Tables) (inp : Bytes) (toks : List Tok) (cms : List Comment)
    (h : tokenize cls tb inp = .ok toks cms) : SpansFrom 0 toks ∧ lastEnd 0 toks = inp.length := by
  unfold tokenize at h
  split at h
  · simp at h
  · exact lexLoop_spans cls tb inp _ inp [] [] toks cms (Nat.le_refl _) (by simp [SpansFrom]) (by simp [lastEnd]) h

/-! ## the meaning of line and column -/

theorem locOf_one_based (inp : Bytes) (off : Nat) : 1 ≤ (locOf inp off).1 ∧ 1 ≤ (locOf inp off).2 := by
  unfold locOf; constructor <;> simp only <;> omega

/-- on a tab-free line the column is the byte distance from the line start plus one -/
theorem locOf_col_tabfree (inp : Bytes) (off : Nat)
    (h : ∀ b ∈ (inp.take off).reverse.takeWhile (· != 10), b ≠ 9) :
    (locOf inp off).2 = 1 + ((inp.take off).reverse.takeWhile (· != 10)).length := by
  unfold locOf
  simp only
  congr 1
  generalize (inp.take off).reverse.takeWhile (· != 10) = l at h
  induction l with
  | nil => rfl
  | cons b bs ih =>
    have hb : b ≠ 9 := h b (by simp)
    have : (b == 9) = false := by simpa using hb
    simp only [List.map_cons, List.sum_cons, List.length_cons, this]
    rw [ih (fun x hx => h x (List.mem_cons_of_mem _ hx))]
    simp; omega

/-- the line number never decreases along the input -/
theorem locOf_line_mono (inp : Bytes) {i j : Nat} (h : i ≤ j) : (locOf inp i).1 ≤ (locOf inp j).1 := by
  unfold locOf
  simp only
  have : inp.take i = (inp.take j).take i := by rw [List.take_take]; congr 1; omega
  rw [this]
  have hsub : ((inp.take j).take i).Sublist (inp.take j) := List.take_sublist _ _
  have := (hsub.filter (· == 10)).length_le
  omega

theorem takeWhile_append_of_all {α} (p : α → Bool) (a b : List α) (h : ∀ x ∈ a, p x = true) :
    (a ++ b).takeWhile p = a ++ b.takeWhile p := by
  induction a with
  | nil => rfl
  | cons x xs ih =>
    have hx : p x = true := h x (by simp)
    simp only [List.cons_append, List.takeWhile_cons, hx, if_true]
    rw [ih (fun y hy => h y (List.mem_cons_of_mem _ hy))]

/-- within one line the column never decreases -/
theorem locOf_col_mono (inp : Bytes) {i j : Nat} (h : i ≤ j) (hsame : (locOf inp i).1 = (locOf inp j).1) :
    (locOf inp i).2 ≤ (locOf inp j).2 := by
  unfold locOf at hsame ⊢
  simp only at hsame ⊢
  -- take j = take i ++ mid
  have hsplit : inp.take j = inp.take i ++ (inp.drop i).take (j - i) := by
    have : j = i + (j - i) := by omega
    conv => lhs; rw [this]
    exact List.take_add
  rw [hsplit] at hsame ⊢
  simp only [List.filter_append, List.length_append] at hsame
  have hmid : ∀ b ∈ (inp.drop i).take (j - i), (b != 10) = true := by
    intro b hb
    have hz : ((List.take (j - i) (List.drop i inp)).filter (· == 10)).length = 0 := by omega
    have hnil := List.eq_nil_of_length_eq_zero hz
    by_cases hb10 : b = 10
    · have : b ∈ (List.take (j - i) (List.drop i inp)).filter (· == 10) := by
        simp only [List.mem_filter]; exact ⟨hb, by simp [hb10]⟩
      rw [hnil] at this; simp at this
    · simpa using hb10
  rw [List.reverse_append, takeWhile_append_of_all _ _ _ (by
    intro x hx; exact hmid x (List.mem_reverse.1 hx))]
  simp only [List.map_append, List.sum_append]
  omega

end GoSQLXModel.Lex
