import GoSQLXModel.Proofs.LexSpell2
/-!
# A tokenizer error after a reference text is located at the offending element

`lexLoop_prefix_err`: a text of the reference grammar (`Proofs/LexSpell2.lean`) followed by bytes on which `nextToken`
fails is rejected with exactly that error (the tokens read before do not matter, and no other error comes first).
`unterminated_literal_located`: when those bytes are a single-quoted literal that never closes (plain body), the error is
`E1002`, located at the byte offset of the literal's opening quote — whatever comments, blank lines and multi-line
literals precede it.
-/
namespace GoSQLXModel.Lex

/-- `seqOK` for items that are followed by `tail` -/
def seqOKT (cls : CharClass) (tb : Tables) (tail : Bytes) : List Item2 → Bool
  | [] => true
  | it :: rest =>
    it.1.ok cls tb && it.2.all Piece.ok && it.1.follow cls tb (sepBytes it.2 ++ (flat2 rest ++ tail)) &&
    stopB (it.1.bytes ++ (sepBytes it.2 ++ (flat2 rest ++ tail))) && seqOKT cls tb tail rest

theorem lexLoop_prefix_err (cls : CharClass) (tb : Tables) (inp : Bytes) (hA : AsciiOK cls) (tail : Bytes) (e : LexErr)
    (htail : stopB tail = true) (hne : tail ≠ []) (herr : nextToken cls tb inp tail = .error e) :
    ∀ (items : List Item2) (fuel : Nat) (lead : List Piece) (acc : List Tok) (cs : List Comment) (pre : Bytes),
      inp = pre ++ (sepBytes lead ++ (flat2 items ++ tail)) →
      lead.all Piece.ok = true → seqOKT cls tb tail items = true → items.length < fuel →
      acc.length + items.length < tb.maxTokens →
      lexLoop cls tb inp fuel (sepBytes lead ++ (flat2 items ++ tail)) acc cs = .err e := by
  intro items
  induction items with
  | nil =>
    intro fuel lead acc cs pre hinp hlead _ hf hmax
    cases fuel with
    | zero => simp at hf
    | succ f =>
      obtain ⟨cs', h1, _, _⟩ := skipTriviaF_sep inp lead ((sepBytes lead ++ ([] ++ tail)).length + 1) tail cs pre
        (by simpa [flat2] using hinp) hlead htail (by have := ncom_le lead; simp only [List.length_append]; omega)
      obtain ⟨b, tl, rfl⟩ : ∃ b tl, tail = b :: tl := by
        cases tail with
        | nil => exact absurd rfl hne
        | cons b tl => exact ⟨b, tl, rfl⟩
      have hlim : ¬ (acc.length ≥ tb.maxTokens) := by simp at hmax; omega
      simp only [flat2, List.nil_append] at h1 ⊢
      simp only [lexLoop, h1, hlim, if_false, herr]
  | cons it items ih =>
    intro fuel lead acc cs pre hinp hlead hok hf hmax
    cases fuel with
    | zero => simp at hf
    | succ f =>
      simp only [seqOKT, Bool.and_eq_true] at hok
      obtain ⟨⟨⟨⟨hlok, hsepok⟩, hfollow⟩, hstop⟩, hrest⟩ := hok
      obtain ⟨t, hnt, _, hne'⟩ := nextToken_item2 cls tb inp hA it.1 (sepBytes it.2 ++ (flat2 items ++ tail)) hlok hfollow
      have hflat : flat2 (it :: items) ++ tail = it.1.bytes ++ (sepBytes it.2 ++ (flat2 items ++ tail)) := by
        simp [flat2]
      obtain ⟨cs1, hsk, _, _⟩ := skipTriviaF_sep inp lead ((sepBytes lead ++ (flat2 (it :: items) ++ tail)).length + 1)
        (flat2 (it :: items) ++ tail) cs pre hinp hlead (by rw [hflat]; exact hstop) (by
        have := ncom_le lead; simp only [List.length_append]; omega)
      obtain ⟨b, tl, hbt⟩ : ∃ b tl, flat2 (it :: items) ++ tail = b :: tl := by
        rw [hflat]
        cases hb : it.1.bytes with
        | nil => exact absurd hb hne'
        | cons b tl => exact ⟨b, tl ++ (sepBytes it.2 ++ (flat2 items ++ tail)), by simp⟩
      have hnt' : nextToken cls tb inp (b :: tl) = .ok (t, sepBytes it.2 ++ (flat2 items ++ tail)) := by
        rw [← hbt, hflat]; exact hnt
      have hsk' : skipTriviaF inp ((sepBytes lead ++ (flat2 (it :: items) ++ tail)).length + 1)
          (sepBytes lead ++ (flat2 (it :: items) ++ tail)) cs = (b :: tl, cs1) := by rw [hsk, hbt]
      have hlim : ¬ (acc.length ≥ tb.maxTokens) := by simp only [List.length_cons] at hmax; omega
      have hinp' : inp = (pre ++ sepBytes lead ++ it.1.bytes) ++ (sepBytes it.2 ++ (flat2 items ++ tail)) := by
        rw [hinp, hflat]; simp
      have := ih f it.2
        ({ t with startOff := inp.length - (b :: tl).length, endOff := inp.length - (sepBytes it.2 ++ (flat2 items ++ tail)).length } :: acc) cs1
        (pre ++ sepBytes lead ++ it.1.bytes) hinp' hsepok hrest (by simp only [List.length_cons] at hf; omega)
        (by simp only [List.length_cons] at hmax ⊢; omega)
      simp only [lexLoop, hsk', hlim, if_false, hnt']
      exact this

def plainBody (body : Bytes) : Bool := body.all fun b => decide (b.toNat < 128) && b != 39 && b != 92

theorem stringBody_unterminated (inp : Bytes) : ∀ (body acc : Bytes) (fuel : Nat), plainBody body = true →
    stringBodyF inp 39 fuel body acc = .ok none := by
  intro body
  induction body with
  | nil => intro acc fuel _; cases fuel <;> simp [stringBodyF, nextRune]
  | cons b rest ih =>
    intro acc fuel h
    simp only [plainBody, List.all_cons, Bool.and_eq_true, decide_eq_true_eq, bne_iff_ne, ne_eq] at h
    obtain ⟨⟨⟨h128, h39⟩, h92⟩, hrest⟩ := h
    cases fuel with
    | zero => simp [stringBodyF]
    | succ f =>
      have e1 : (b.toNat == 39) = false := toNat_ne b 39 (by omega) h39
      have e2 : (b.toNat == 92) = false := toNat_ne b 92 (by omega) h92
      simp only [stringBodyF, nextRune_ascii b _ h128, normalizeQuote_ascii b.toNat h128, e1, e2, Bool.false_eq_true, if_false]
      exact ih _ f (by simpa [plainBody] using hrest)

theorem nextToken_unterminated (cls : CharClass) (tb : Tables) (inp body : Bytes) (h39 : isIdentStart cls 39 = false)
    (hb : plainBody body = true) :
    nextToken cls tb inp (39 :: body) = .error ⟨"E1002", .at (inp.length - (39 :: body).length)⟩ := by
  have hd : decodeRune (39 :: body) = (39, 1) := decodeRune_ascii 39 _ (by decide)
  have hnr : nextRune (39 :: body) = some (39, body) := nextRune_ascii 39 _ (by decide)
  have htriple : isTriple 39 (39 :: body) = false := by
    cases body with
    | nil => simp [isTriple]
    | cons b rest =>
      simp only [plainBody, List.all_cons, Bool.and_eq_true, decide_eq_true_eq, bne_iff_ne, ne_eq] at hb
      have e1 : (b.toNat == 39) = false := toNat_ne b 39 (by omega) hb.1.1.2
      simp [isTriple, decodeRune_ascii b _ hb.1.1.1, e1]
  have hq : normalizeQuote 39 = 39 := by decide
  have hs : isStringQuoteStart 39 = true := by decide
  simp only [nextToken, hd, h39, Bool.false_eq_true, if_false,
    show isDigitR 39 = false by decide, show ((39 : Nat) == 34 || (39 : Nat) == 0x201C || (39 : Nat) == 0x201D) = false by decide,
    show ((39 : Nat) == 96) = false by decide, hs, if_true]
  simp only [readQuotedString, hnr, htriple, Bool.false_eq_true, if_false, hq, stringBody_unterminated inp body [] _ hb]

/-- **C05 (error location)**: a reference text followed by a single-quoted literal that never closes is rejected with
    `E1002` located at the byte offset of the literal's opening quote -/
theorem unterminated_literal_located (cls : CharClass) (tb : Tables) (hA : AsciiOK cls) (h39 : isIdentStart cls 39 = false)
    (lead : List Piece) (items : List Item2) (body : Bytes)
    (hlead : lead.all Piece.ok = true) (hb : plainBody body = true)
    (hok : seqOKT cls tb (39 :: body) items = true)
    (hsize : (sepBytes lead ++ (flat2 items ++ 39 :: body)).length ≤ tb.maxInput) (hcount : items.length < tb.maxTokens) :
    tokenize cls tb (sepBytes lead ++ (flat2 items ++ 39 :: body)) =
      .err ⟨"E1002", .at (sepBytes lead ++ flat2 items).length⟩ := by
  have hnot : ¬ ((sepBytes lead ++ (flat2 items ++ 39 :: body)).length > tb.maxInput) := by omega
  have herr := nextToken_unterminated cls tb (sepBytes lead ++ (flat2 items ++ 39 :: body)) body h39 hb
  have hoff : (sepBytes lead ++ (flat2 items ++ 39 :: body)).length - (39 :: body).length = (sepBytes lead ++ flat2 items).length := by
    simp only [List.length_append, List.length_cons]; omega
  rw [hoff] at herr
  have hlen : items.length < (sepBytes lead ++ (flat2 items ++ 39 :: body)).length + 1 := by
    have : ∀ its : List Item2, seqOKT cls tb (39 :: body) its = true → its.length ≤ (flat2 its).length := by
      intro its
      induction its with
      | nil => intro _; simp [flat2]
      | cons it rest ih =>
        intro h
        simp only [seqOKT, Bool.and_eq_true] at h
        have ih' := ih h.2
        have hne : it.1.bytes ≠ [] := by
          obtain ⟨t, _, _, hne⟩ := nextToken_item2 cls tb [] hA it.1 _ h.1.1.1.1 h.1.1.2
          exact hne
        have : 1 ≤ it.1.bytes.length := by
          cases hbts : it.1.bytes with
          | nil => exact absurd hbts hne
          | cons a b => simp
        simp only [flat2, List.length_append, List.length_cons]
        omega
    have := this items hok
    simp only [List.length_append, List.length_cons]
    omega
  have := lexLoop_prefix_err cls tb (sepBytes lead ++ (flat2 items ++ 39 :: body)) hA (39 :: body) _ (by cases body <;> simp [stopB, isWS]) (by simp) herr
    items ((sepBytes lead ++ (flat2 items ++ 39 :: body)).length + 1) lead [] [] [] (by simp) hlead hok hlen (by simpa using hcount)
  simp only [tokenize, hnot, if_false]
  exact this

end GoSQLXModel.Lex
