import GoSQLXModel.Proofs.LintLemmas
import GoSQLXModel.Proofs.LexSpell2
/-!
# The trailing-whitespace fixer keeps the tokens (L001 against the tokenizer model)

`Lint.fixL001` (split on line feeds, `strings.TrimRight(line, " \t")`, join) is first characterised without lines:
a blank is dropped exactly when what remains after it, once trimmed, is empty or begins with a line feed
(`trimC`, `fixL001_eq_trimC`).  The same function over bytes (`trimB`) is then pushed through a text of the reference
grammar of `Proofs/LexSpell2.lean` (`seq_trim`): lexemes that contain no line feed and do not end in a blank are copied,
blank runs lose only blanks that stand before a line feed or the end of the text, comments are copied — so the fixed
text is again a text of the reference grammar with the *same lexemes and the same comments*, its junctions still pass
`seqOK`, and `tokenize_spell2` gives both texts the same tokens (`fixL001_keeps_tokens`).
-/
namespace GoSQLXModel.Lint

/-- trailing-blank removal without lines: drop a blank when the trimmed remainder is empty or starts a new line -/
def trimC : List Char → List Char
  | [] => []
  | c :: cs =>
    let r := trimC cs
    if isBlankChar c && (r.isEmpty || r.head? == some '\n') then r else c :: r

theorem trimRight_cons (c : Char) (l : List Char) :
    trimRight (c :: l) = if isBlankChar c && (trimRight l).isEmpty then [] else c :: trimRight l := by
  unfold trimRight
  simp only [List.reverse_cons]
  -- (l.reverse ++ [c]).dropWhile
  cases h : (l.reverse.dropWhile isBlankChar) with
  | nil =>
    have hall : ∀ x ∈ l.reverse, isBlankChar x = true := all_of_dropWhile_nil _ _ h
    have : (l.reverse ++ [c]).dropWhile isBlankChar = [c].dropWhile isBlankChar := by
      rw [List.dropWhile_append_of_pos hall]
    rw [this]
    by_cases hc : isBlankChar c = true
    · simp [List.dropWhile, hc]
    · simp [List.dropWhile, hc]
  | cons a as =>
    have : (l.reverse ++ [c]).dropWhile isBlankChar = (a :: as) ++ [c] := by
      rw [List.dropWhile_append, h]; simp
    rw [this]
    simp

theorem joinLines_cons_cons (c : Char) (x : List Char) (rest : List (List Char)) :
    joinLines ((c :: x) :: rest) = c :: joinLines (x :: rest) := by
  cases rest with
  | nil => rfl
  | cons a as => rfl

theorem joinLines_nil_head (rest : List (List Char)) :
    (joinLines ([] :: rest)).isEmpty = true ∨ (joinLines ([] :: rest)).head? = some '\n' := by
  cases rest with
  | nil => left; rfl
  | cons a as => right; rfl

theorem joinLines_head_of_ne (x : List Char) (rest : List (List Char)) (hx : x ≠ []) :
    (joinLines (x :: rest)).head? = x.head? := by
  cases x with
  | nil => exact absurd rfl hx
  | cons c x' => rw [joinLines_cons_cons]; rfl

/-- **L001 without lines** -/
theorem fixL001_eq_trimC (s : List Char) : fixL001 s = trimC s := by
  induction s with
  | nil => rfl
  | cons c cs ih =>
    unfold fixL001 at ih ⊢
    by_cases hc : c = '\n'
    · subst hc
      have hs : splitLines ('\n' :: cs) = [] :: splitLines cs := by simp [splitLines]
      rw [hs, List.map_cons]
      have hne : (splitLines cs).map trimRight ≠ [] := by simp [splitLines_ne_nil]
      rw [joinLines_cons _ _ hne, ih]
      have : trimRight [] = [] := rfl
      simp [this, trimC, isBlankChar]
    · cases hsp : splitLines cs with
      | nil => exact absurd hsp (splitLines_ne_nil cs)
      | cons l ls =>
        have hs : splitLines (c :: cs) = (c :: l) :: ls := by simp [splitLines, hc, hsp]
        rw [hsp] at ih
        simp only [List.map_cons] at ih
        rw [hs]
        simp only [List.map_cons]
        have hl : '\n' ∉ l := splitLines_no_nl cs l (by rw [hsp]; simp)
        rw [trimRight_cons]
        simp only [trimC]
        rw [← ih]
        by_cases hcond : (isBlankChar c && (trimRight l).isEmpty) = true
        · rw [if_pos hcond]
          simp only [Bool.and_eq_true] at hcond
          have hte : trimRight l = [] := List.isEmpty_iff.1 hcond.2
          rw [hte]
          rcases joinLines_nil_head (ls.map trimRight) with h | h
          · simp [hcond.1, h]
          · simp [hcond.1, h]
        · rw [if_neg hcond, joinLines_cons_cons]
          have hc2 : (isBlankChar c && ((joinLines (trimRight l :: ls.map trimRight)).isEmpty ||
              (joinLines (trimRight l :: ls.map trimRight)).head? == some '\n')) = false := by
            cases hb : isBlankChar c with
            | false => rfl
            | true =>
              have hne : trimRight l ≠ [] := by
                intro h; apply hcond; simp [hb, h]
              have hh := joinLines_head_of_ne (trimRight l) (ls.map trimRight) hne
              have hnl : '\n' ∉ trimRight l := trimRight_no_nl l hl
              cases htl : trimRight l with
              | nil => exact absurd htl hne
              | cons a as =>
                rw [htl] at hh hnl
                have ha : a ≠ '\n' := fun e => hnl (by simp [e])
                rw [joinLines_cons_cons]
                simp [ha]
          rw [hc2]; simp

end GoSQLXModel.Lint

namespace GoSQLXModel.Lex
open GoSQLXModel

/-! ## the same function over bytes -/
def isBlankB (b : UInt8) : Bool := b == 32 || b == 9

def trimB : Bytes → Bytes
  | [] => []
  | b :: bs =>
    let r := trimB bs
    if isBlankB b && (r.isEmpty || r.head? == some 10) then r else b :: r

/-- an ASCII text as the characters the linter sees, and back -/
def asChars (bs : Bytes) : List Char := bs.map fun b => Char.ofNat b.toNat
def asBytes (cs : List Char) : Bytes := cs.map fun c => UInt8.ofNat c.toNat

theorem asBytes_asChars (bs : Bytes) : asBytes (asChars bs) = bs := by
  induction bs with
  | nil => rfl
  | cons b bs ih =>
    have hb : UInt8.ofNat (Char.ofNat b.toNat).toNat = b := by
      revert b; apply forall_uint8; decide +kernel
    simp only [asChars, asBytes, List.map_cons] at ih ⊢
    rw [hb, ih]

theorem blank_char_byte : ∀ b : UInt8, Lint.isBlankChar (Char.ofNat b.toNat) = isBlankB b := by
  apply forall_uint8; decide +kernel

theorem nl_char_byte : ∀ b : UInt8, (Char.ofNat b.toNat == '\n') = (b == 10) := by
  apply forall_uint8; decide +kernel

theorem trimC_asChars (bs : Bytes) : Lint.trimC (asChars bs) = asChars (trimB bs) := by
  induction bs with
  | nil => rfl
  | cons b bs ih =>
    simp only [asChars, List.map_cons] at ih ⊢
    simp only [Lint.trimC, trimB, ih, blank_char_byte]
    have he : ((trimB bs).map fun b => Char.ofNat b.toNat).isEmpty = (trimB bs).isEmpty := by
      cases trimB bs <;> rfl
    have hh : (((trimB bs).map fun b => Char.ofNat b.toNat).head? == some '\n') = ((trimB bs).head? == some 10) := by
      cases h : trimB bs with
      | nil => rfl
      | cons x xs =>
        have := nl_char_byte x
        simp only [List.map_cons, List.head?_cons]
        simpa using this
    rw [he, hh]
    split <;> simp

/-- **the L001 fixer on an ASCII text is `trimB`** -/
theorem fixL001_bytes (bs : Bytes) : asBytes (Lint.fixL001 (asChars bs)) = trimB bs := by
  rw [Lint.fixL001_eq_trimC, trimC_asChars, asBytes_asChars]

theorem trimB_length (bs : Bytes) : (trimB bs).length ≤ bs.length := by
  induction bs with
  | nil => simp [trimB]
  | cons b bs ih =>
    simp only [trimB]
    split <;> simp only [List.length_cons] <;> omega

/-! ## pushing `trimB` through the pieces of a text -/
theorem trimB_cons (b : UInt8) (rest : Bytes) :
    trimB (b :: rest) = if isBlankB b && ((trimB rest).isEmpty || (trimB rest).head? == some 10) then trimB rest else b :: trimB rest := rfl

theorem trimB_cons_nonblank (b : UInt8) (rest : Bytes) (h : isBlankB b = false) : trimB (b :: rest) = b :: trimB rest := by
  simp [trimB, h]

/-- no line feed inside, not empty, last byte no blank -/
def solidB (L : Bytes) : Bool :=
  L.all (· != 10) && (match L.getLast? with | some b => !isBlankB b | none => false)

theorem solidB_cons (b c : UInt8) (L : Bytes) (h : solidB (b :: c :: L) = true) : solidB (c :: L) = true ∧ (b != 10) = true := by
  simp only [solidB, List.all_cons, Bool.and_eq_true] at h ⊢
  refine ⟨⟨h.1.2, ?_⟩, h.1.1⟩
  have : (b :: c :: L).getLast? = (c :: L).getLast? := by simp [List.getLast?_cons_cons]
  rw [this] at h
  exact h.2

/-- a solid stretch is copied -/
theorem trimB_solid : ∀ (L R : Bytes), solidB L = true → trimB (L ++ R) = L ++ trimB R := by
  intro L
  induction L with
  | nil => intro R h; simp [solidB] at h
  | cons b L' ih =>
    intro R h
    cases L' with
    | nil =>
      simp only [solidB, List.all_cons, List.all_nil, Bool.and_true, List.getLast?_singleton, Bool.and_eq_true,
        Bool.not_eq_true'] at h
      simpa using trimB_cons_nonblank b R h.2
    | cons c L'' =>
      obtain ⟨h1, h2⟩ := solidB_cons b c L'' h
      have hr := ih R h1
      simp only [List.cons_append] at hr ⊢
      -- the trimmed remainder begins with c, which is no line feed
      have hc : (c != 10) = true := by
        simp only [solidB, List.all_cons, Bool.and_eq_true] at h1
        exact h1.1.1
      rw [trimB_cons b, hr]
      have : ((c :: (L'' ++ trimB R)).isEmpty || (c :: (L'' ++ trimB R)).head? == some 10) = false := by
        simp only [List.isEmpty_cons, List.head?_cons, Bool.false_or]
        simp only [bne_iff_ne, ne_eq] at hc
        simp [hc]
      rw [this]; simp

def headWS : Bytes → Bool
  | b :: _ => isWS b
  | [] => false

/-- the bytes that follow a separator piece: nothing, or something that is no blank -/
def stopX (X : Bytes) : Bool := X.isEmpty || !headWS X

theorem blank_ws (b : UInt8) (h : isBlankB b = true) : isWS b = true := by
  simp only [isBlankB, Bool.or_eq_true, beq_iff_eq] at h
  rcases h with h | h <;> (subst h; decide)

theorem trimB_head (X : Bytes) (h : stopX X = true) : (trimB X).head? = X.head? ∧ (X ≠ [] → trimB X ≠ []) := by
  cases X with
  | nil => simp [trimB]
  | cons b rest =>
    simp only [stopX, List.isEmpty_cons, Bool.false_or, Bool.not_eq_true', headWS] at h
    have hb : isBlankB b = false := by
      cases hbb : isBlankB b with
      | false => rfl
      | true => rw [blank_ws b hbb] at h; exact absurd h (by simp)
    rw [trimB_cons_nonblank b rest hb]; simp

/-- a run of blanks and line ends loses only blanks, and loses all of itself only at the end of the text -/
theorem trimB_ws : ∀ (ws X : Bytes), ws.all isWS = true → stopX X = true →
    ∃ ws', trimB (ws ++ X) = ws' ++ trimB X ∧ ws'.all isWS = true ∧ (ws = [] → ws' = []) ∧ (ws' = [] → ws = [] ∨ X = []) := by
  intro ws
  induction ws with
  | nil => intro X _ _; exact ⟨[], by simp, rfl, fun _ => rfl, fun _ => Or.inl rfl⟩
  | cons w ws1 ih =>
    intro X hws hX
    simp only [List.all_cons, Bool.and_eq_true] at hws
    obtain ⟨ws1', h1, h2, _, h4⟩ := ih X hws.2 hX
    simp only [List.cons_append]
    rw [trimB_cons w, h1]
    by_cases hc : (isBlankB w && ((ws1' ++ trimB X).isEmpty || (ws1' ++ trimB X).head? == some 10)) = true
    · rw [if_pos hc]
      refine ⟨ws1', rfl, h2, fun h => by simp at h, ?_⟩
      intro he
      right
      -- all of the run is gone: what remains begins a line or is nothing, but X begins with no blank
      subst he
      simp only [List.nil_append, Bool.and_eq_true, Bool.or_eq_true] at hc
      cases X with
      | nil => rfl
      | cons x xs =>
        exfalso
        obtain ⟨hh, hne⟩ := trimB_head (x :: xs) hX
        rcases hc.2 with hc2 | hc2
        · exact hne (by simp) (List.isEmpty_iff.1 hc2)
        · rw [hh] at hc2
          simp only [List.head?_cons, beq_iff_eq, Option.some.injEq] at hc2
          subst hc2
          simp [stopX, headWS] at hX
          exact absurd hX (by decide)
    · rw [if_neg hc]
      exact ⟨w :: ws1', rfl, by simp [hws.1, h2], fun h => by simp at h, fun h => by simp at h⟩

/-! ## tame texts of the reference grammar -/
def Piece.tame : Piece → Bool
  | .blanks _ => true
  | .line body => solidB (45 :: 45 :: body)           -- the comment text does not end in a blank
  | .block body => body.all (· != 10)                 -- one-line block comments

/-- no two blank-run pieces in a row (a blank run is written as one piece) -/
def blanksTwice : Piece → List Piece → Bool
  | .blanks _, .blanks _ :: _ => true
  | _, _ => false
def sepNorm : List Piece → Bool
  | [] => true
  | p :: ps => !blanksTwice p ps && sepNorm ps

/-- how the first bytes of two continuations compare: the same first byte, or a blank / line end replaced by another
    one or by the end of the text -/
def HeadRel (Y Y' : Bytes) : Prop := Y.head? = Y'.head? ∨ (headWS Y = true ∧ (Y' = [] ∨ headWS Y' = true))

theorem headRel_refl_of_head (Y Y' : Bytes) (h : Y.head? = Y'.head?) : HeadRel Y Y' := Or.inl h

theorem block_solid (body : Bytes) (h : body.all (· != 10) = true) : solidB (47 :: 42 :: (body ++ [42, 47])) = true := by
  simp only [solidB, Bool.and_eq_true]
  constructor
  · simp only [List.all_cons, List.all_append, Bool.and_eq_true, h]
    decide
  · have : (47 :: 42 :: (body ++ [42, 47]) : Bytes) = (47 :: 42 :: body ++ [42]) ++ [47] := by simp
    rw [this, List.getLast?_append]; simp [isBlankB]

theorem sepNorm_tail (p : Piece) (ps : List Piece) (h : sepNorm (p :: ps) = true) : sepNorm ps = true := by
  simp only [sepNorm, Bool.and_eq_true] at h
  exact h.2

/-- what follows a blank-run piece inside a normalised separator is no blank -/
theorem stopX_after_blanks (ws : Bytes) (ps : List Piece) (X : Bytes) (hn : sepNorm (.blanks ws :: ps) = true) (hX : stopX X = true) :
    stopX (sepBytes ps ++ X) = true := by
  cases ps with
  | nil => simpa [sepBytes] using hX
  | cons q qs =>
    cases q with
    | blanks w2 => simp [sepNorm, blanksTwice] at hn
    | line body => simp [sepBytes, Piece.bytes, stopX, headWS]; decide
    | block body => simp [sepBytes, Piece.bytes, stopX, headWS]; decide

/-- two separators that differ only in the content of their blank runs -/
def sameShape : List Piece → List Piece → Bool
  | [], [] => true
  | .blanks _ :: a, .blanks _ :: b => sameShape a b
  | .line x :: a, .line y :: b => x == y && sameShape a b
  | .block x :: a, .block y :: b => x == y && sameShape a b
  | _, _ => false

theorem sameShape_cons (p q : Piece) (ps qs : List Piece) (h : sameShape (p :: ps) (q :: qs) = true) :
    sameShape ps qs = true ∧
    ((∃ a b, p = .blanks a ∧ q = .blanks b) ∨ (∃ x, p = .line x ∧ q = .line x) ∨ (∃ x, p = .block x ∧ q = .block x)) := by
  cases p with
  | blanks a =>
    cases q with
    | blanks b => exact ⟨by simpa [sameShape] using h, Or.inl ⟨a, b, rfl, rfl⟩⟩
    | line y => simp [sameShape] at h
    | block y => simp [sameShape] at h
  | line x =>
    cases q with
    | blanks b => simp [sameShape] at h
    | line y =>
      simp only [sameShape, Bool.and_eq_true, beq_iff_eq] at h
      obtain ⟨e, h2⟩ := h
      subst e
      exact ⟨h2, Or.inr (Or.inl ⟨x, rfl, rfl⟩)⟩
    | block y => simp [sameShape] at h
  | block x =>
    cases q with
    | blanks b => simp [sameShape] at h
    | line y => simp [sameShape] at h
    | block y =>
      simp only [sameShape, Bool.and_eq_true, beq_iff_eq] at h
      obtain ⟨e, h2⟩ := h
      subst e
      exact ⟨h2, Or.inr (Or.inr ⟨x, rfl, rfl⟩)⟩

theorem sameShape_nil_left (ps' : List Piece) (h : sameShape [] ps' = true) : ps' = [] := by
  cases ps' with
  | nil => rfl
  | cons q qs => simp [sameShape] at h

theorem sameShape_cons_left (p : Piece) (ps ps' : List Piece) (h : sameShape (p :: ps) ps' = true) : ∃ q qs, ps' = q :: qs := by
  cases ps' with
  | nil => cases p <;> simp [sameShape] at h
  | cons q qs => exact ⟨q, qs, rfl⟩

theorem sameShape_tame : ∀ (ps ps' : List Piece), sameShape ps ps' = true → ps.all Piece.tame = true → ps'.all Piece.tame = true := by
  intro ps
  induction ps with
  | nil => intro ps' h _; rw [sameShape_nil_left ps' h]; rfl
  | cons p ps ih =>
    intro ps' h ht
    obtain ⟨q, qs, rfl⟩ := sameShape_cons_left p ps ps' h
    obtain ⟨h2, hk⟩ := sameShape_cons p q ps qs h
    simp only [List.all_cons, Bool.and_eq_true] at ht ⊢
    refine ⟨?_, ih qs h2 ht.2⟩
    rcases hk with ⟨a, b, rfl, rfl⟩ | ⟨x, rfl, rfl⟩ | ⟨x, rfl, rfl⟩
    · rfl
    · exact ht.1
    · exact ht.1

theorem blanksTwice_shape (p q : Piece) (ps qs : List Piece) (h : sameShape (p :: ps) (q :: qs) = true) :
    blanksTwice q qs = blanksTwice p ps := by
  obtain ⟨h2, hk⟩ := sameShape_cons p q ps qs h
  rcases hk with ⟨a, b, rfl, rfl⟩ | ⟨x, rfl, rfl⟩ | ⟨x, rfl, rfl⟩
  · cases ps with
    | nil => rw [sameShape_nil_left qs h2]; rfl
    | cons p2 ps2 =>
      obtain ⟨q2, qs2, rfl⟩ := sameShape_cons_left p2 ps2 qs h2
      obtain ⟨_, hk2⟩ := sameShape_cons p2 q2 ps2 qs2 h2
      rcases hk2 with ⟨a2, b2, rfl, rfl⟩ | ⟨x, rfl, rfl⟩ | ⟨x, rfl, rfl⟩ <;> rfl
  · rfl
  · rfl

theorem sameShape_norm : ∀ (ps ps' : List Piece), sameShape ps ps' = true → sepNorm ps' = sepNorm ps := by
  intro ps
  induction ps with
  | nil => intro ps' h; rw [sameShape_nil_left ps' h]
  | cons p ps ih =>
    intro ps' h
    obtain ⟨q, qs, rfl⟩ := sameShape_cons_left p ps ps' h
    have hb := blanksTwice_shape p q ps qs h
    have ht := (sameShape_cons p q ps qs h).1
    simp only [sepNorm, hb, ih qs ht]

/-- a separator is rewritten into a separator with the same comments -/
theorem sep_trim : ∀ (ps : List Piece) (X : Bytes), ps.all Piece.ok = true → ps.all Piece.tame = true → sepNorm ps = true →
    stopX X = true →
    ∃ ps', trimB (sepBytes ps ++ X) = sepBytes ps' ++ trimB X ∧ ps'.all Piece.ok = true ∧ sepComments ps' = sepComments ps ∧
      HeadRel (sepBytes ps ++ X) (sepBytes ps' ++ trimB X) ∧ sameShape ps ps' = true := by
  intro ps
  induction ps with
  | nil =>
    intro X _ _ _ hX
    exact ⟨[], by simp [sepBytes], rfl, rfl, Or.inl (by simpa [sepBytes] using (trimB_head X hX).1.symm), rfl⟩
  | cons p ps ih =>
    intro X hok htame hnorm hX
    simp only [List.all_cons, Bool.and_eq_true] at hok htame
    obtain ⟨ps', e1, o1, c1, r1, sh1⟩ := ih X hok.2 htame.2 (sepNorm_tail p ps hnorm) hX
    cases p with
    | blanks ws =>
      have hF := stopX_after_blanks ws ps X hnorm hX
      obtain ⟨ws', t1, t2, t3, t4⟩ := trimB_ws ws (sepBytes ps ++ X) (by simpa [Piece.ok] using hok.1) hF
      refine ⟨.blanks ws' :: ps', ?_, ?_, ?_, ?_, by simpa [sameShape] using sh1⟩
      · simp only [sepBytes, Piece.bytes, List.append_assoc]
        rw [t1, e1]
      · simp [Piece.ok, t2, o1]
      · simp [sepComments, Piece.comments, c1]
      · simp only [sepBytes, Piece.bytes, List.append_assoc]
        cases ws with
        | nil =>
          rw [t3 rfl]
          simpa using r1
        | cons w ws1 =>
          right
          simp only [List.all_cons, Piece.ok, Bool.and_eq_true] at hok
          refine ⟨by simpa [headWS] using hok.1.1, ?_⟩
          cases ws' with
          | nil =>
            left
            rcases t4 rfl with h | h
            · simp at h
            · -- nothing follows: the trimmed remainder is empty too
              have : trimB (sepBytes ps ++ X) = [] := by rw [h]; rfl
              rw [e1] at this
              simpa using this
          | cons w' ws1' =>
            right
            simp only [List.all_cons, Bool.and_eq_true] at t2
            simpa [headWS] using t2.1
    | line body =>
      have hsolid : solidB (45 :: 45 :: body) = true := by simpa [Piece.tame] using htame.1
      refine ⟨.line body :: ps', ?_, ?_, ?_, ?_, by simpa [sameShape] using sh1⟩
      · have : sepBytes (Piece.line body :: ps) ++ X = (45 :: 45 :: body) ++ (10 :: (sepBytes ps ++ X)) := by
          simp [sepBytes, Piece.bytes]
        rw [this, trimB_solid _ _ hsolid, trimB_cons_nonblank 10 _ (by decide), e1]
        simp [sepBytes, Piece.bytes]
      · simp [hok.1, o1]
      · simp [sepComments, c1]
      · left; simp [sepBytes, Piece.bytes]
    | block body =>
      have hsolid := block_solid body (by simpa [Piece.tame] using htame.1)
      refine ⟨.block body :: ps', ?_, ?_, ?_, ?_, by simpa [sameShape] using sh1⟩
      · have : sepBytes (Piece.block body :: ps) ++ X = (47 :: 42 :: (body ++ [42, 47])) ++ (sepBytes ps ++ X) := by
          simp [sepBytes, Piece.bytes]
        rw [this, trimB_solid _ _ hsolid, e1]
        simp [sepBytes, Piece.bytes]
      · simp [hok.1, o1]
      · simp [sepComments, c1]
      · left; simp [sepBytes, Piece.bytes]

/-- no operator of the table contains a blank or a line end -/
def opsNoWS (tb : Tables) : Bool := tb.operators.all fun o => o.1.all fun b => !isWS b

/-- a lexeme the line-based fixers see as the tokenizer does: on one line, not ending in a blank; a word that is not
    the first word of a two-word keyword (those are written as `.compound`) -/
def Lx.tame (cls : CharClass) (tb : Tables) (l : Lx) : Bool :=
  solidB l.bytes && (match l with | .word w => !tb.compoundStarts.contains (upper cls w) | _ => true)

def tameSeq (cls : CharClass) (tb : Tables) : List Item2 → Bool
  | [] => true
  | it :: rest => it.1.tame cls tb && it.2.all Piece.tame && sepNorm it.2 && tameSeq cls tb rest

theorem follow_head_only (cls : CharClass) (tb : Tables) (l : Lx) (Z Z' : Bytes) (ht : l.tame cls tb = true)
    (h : Z.head? = Z'.head?) : l.follow cls tb Z = l.follow cls tb Z' := by
  cases l with
  | word w =>
    simp only [Lx.tame, Bool.and_eq_true, Bool.not_eq_true'] at ht
    simp only [Lx.follow, ht.2, Bool.not_false, Bool.true_or, Bool.and_true]
    cases Z <;> cases Z' <;> simp_all [followWord]
  | compound w1 ws w2 => cases Z <;> cases Z' <;> simp_all [Lx.follow, followWord]
  | int ds => cases Z <;> cases Z' <;> simp_all [Lx.follow, followInt]
  | num ip fp ex =>
    simp only [Lx.follow]
    split <;> (cases Z <;> cases Z' <;> simp_all [followFrac, followExp])
  | op o => cases Z <;> cases Z' <;> simp_all [Lx.follow, followOp]
  | str ps => cases Z <;> cases Z' <;> simp_all [Lx.follow, followQuote]
  | qid qs => cases Z <;> cases Z' <;> simp_all [Lx.follow, followQuote]
  | bq bs => simp only [Lx.follow, h]

theorem follow_nil (cls : CharClass) (tb : Tables) (l : Lx) (ht : l.tame cls tb = true) : l.follow cls tb [] = true := by
  cases l with
  | word w =>
    simp only [Lx.tame, Bool.and_eq_true, Bool.not_eq_true'] at ht
    simp only [Lx.follow, followWord, ht.2, Bool.not_false, Bool.true_or, Bool.and_true]
  | compound w1 ws w2 => simp [Lx.follow, followWord]
  | int ds => simp [Lx.follow, followInt]
  | num ip fp ex => simp only [Lx.follow]; split <;> simp [followFrac, followExp]
  | op o => simp [Lx.follow, followOp]
  | str ps => simp [Lx.follow, followQuote]
  | qid qs => simp [Lx.follow, followQuote]
  | bq bs => simp [Lx.follow]

theorem ws_cases (b : UInt8) (h : isWS b = true) : b = 32 ∨ b = 9 ∨ b = 13 ∨ b = 10 := by
  simp only [isWS, Bool.or_eq_true, beq_iff_eq] at h
  rcases h with ((h | h) | h) | h <;> simp [h]

theorem follow_ws (cls : CharClass) (tb : Tables) (hA : AsciiOK cls) (hops : opsNoWS tb = true) (l : Lx)
    (ht : l.tame cls tb = true) (b : UInt8) (Z : Bytes) (hb : isWS b = true) : l.follow cls tb (b :: Z) = true := by
  have h128 := ws_lt b hb
  have hid := hA.blank b hb
  cases l with
  | word w =>
    simp only [Lx.tame, Bool.and_eq_true, Bool.not_eq_true'] at ht
    simp only [Lx.follow, followWord, ht.2, Bool.not_false, Bool.true_or, Bool.and_true]
    simp [h128, hid]
  | compound w1 ws w2 => simp [Lx.follow, followWord, h128, hid]
  | int ds =>
    rcases ws_cases b hb with h | h | h | h <;> (subst h; simp [Lx.follow, followInt]; decide)
  | num ip fp ex =>
    simp only [Lx.follow]
    split <;> (rcases ws_cases b hb with h | h | h | h <;> (subst h; simp [followFrac, followExp]; decide))
  | op o =>
    simp only [Lx.follow, followOp, List.all_eq_true, Bool.not_eq_true']
    intro x hx
    cases hp : (o ++ [b]).isPrefixOf x.1 with
    | false => rfl
    | true =>
      exfalso
      have hpre : o ++ [b] <+: x.1 := List.isPrefixOf_iff_prefix.1 hp
      have hmem : b ∈ x.1 := by
        obtain ⟨t, ht'⟩ := hpre
        rw [← ht']; simp
      have := List.all_eq_true.1 (List.all_eq_true.1 hops x hx) b hmem
      simp [hb] at this
  | str ps =>
    rcases ws_cases b hb with h | h | h | h <;> (subst h; simp [Lx.follow, followQuote])
  | qid qs =>
    rcases ws_cases b hb with h | h | h | h <;> (subst h; simp [Lx.follow, followQuote])
  | bq bs =>
    rcases ws_cases b hb with h | h | h | h <;> (subst h; simp [Lx.follow])

theorem follow_transfer (cls : CharClass) (tb : Tables) (hA : AsciiOK cls) (hops : opsNoWS tb = true) (l : Lx)
    (ht : l.tame cls tb = true) (Z Z' : Bytes) (hr : HeadRel Z Z') (h : l.follow cls tb Z = true) : l.follow cls tb Z' = true := by
  rcases hr with hr | ⟨_, hr⟩
  · rw [← follow_head_only cls tb l Z Z' ht hr]; exact h
  · rcases hr with hr | hr
    · subst hr; exact follow_nil cls tb l ht
    · cases Z' with
      | nil => simp [headWS] at hr
      | cons b Z'' => exact follow_ws cls tb hA hops l ht b Z'' (by simpa [headWS] using hr)

theorem stop_transfer (L Z Z' : Bytes) (hL : L ≠ []) (hr : HeadRel Z Z') (h : stopB (L ++ Z) = true) : stopB (L ++ Z') = true := by
  cases L with
  | nil => exact absurd rfl hL
  | cons b L1 =>
    cases L1 with
    | cons c L2 => simpa [stopB] using h
    | nil =>
      simp only [List.cons_append, List.nil_append, stopB, Bool.and_eq_true, Bool.not_eq_true'] at h ⊢
      obtain ⟨⟨h1, h2⟩, h3⟩ := h
      rcases hr with hr | ⟨_, hr⟩
      · rw [← hr]; exact ⟨⟨h1, h2⟩, h3⟩
      · rcases hr with hr | hr
        · subst hr; simp [h1]
        · cases Z' with
          | nil => simp [headWS] at hr
          | cons w Z'' =>
            have hw : isWS w = true := by simpa [headWS] using hr
            refine ⟨⟨h1, ?_⟩, ?_⟩
            · rcases ws_cases w hw with e | e | e | e <;> (subst e; simp)
            · rcases ws_cases w hw with e | e | e | e <;> (subst e; simp)

theorem stopX_of_seqOK (cls : CharClass) (tb : Tables) (items : List Item2) (h : seqOK cls tb items = true) :
    stopX (flat2 items) = true := by
  cases items with
  | nil => rfl
  | cons it rest =>
    simp only [seqOK, Bool.and_eq_true] at h
    have hs := h.1.2
    simp only [flat2]
    cases hb : it.1.bytes ++ (sepBytes it.2 ++ flat2 rest) with
    | nil => rfl
    | cons b tl =>
      rw [hb] at hs
      simp only [stopB, Bool.and_eq_true, Bool.not_eq_true'] at hs
      simp [stopX, headWS, hs.1.1]

theorem solidB_ne_nil (L : Bytes) (h : solidB L = true) : L ≠ [] := by
  intro e; subst e; simp [solidB] at h

/-- **a tame text of the reference grammar is rewritten into one with the same lexemes and the same comments** -/
theorem seq_trim (cls : CharClass) (tb : Tables) (hA : AsciiOK cls) (hops : opsNoWS tb = true) :
    ∀ items : List Item2, seqOK cls tb items = true → tameSeq cls tb items = true →
    ∃ items', trimB (flat2 items) = flat2 items' ∧ seqOK cls tb items' = true ∧
      items'.map (·.1) = items.map (·.1) ∧ itemsComments items' = itemsComments items ∧ tameSeq cls tb items' = true := by
  intro items
  induction items with
  | nil => intro _ _; exact ⟨[], rfl, rfl, rfl, rfl, rfl⟩
  | cons it rest ih =>
    intro hok htame
    simp only [seqOK, Bool.and_eq_true] at hok
    simp only [tameSeq, Bool.and_eq_true] at htame
    obtain ⟨⟨⟨⟨hlok, hsepok⟩, hfollow⟩, hstop⟩, hrestok⟩ := hok
    obtain ⟨⟨⟨hlt, hst⟩, hnorm⟩, hresttame⟩ := htame
    obtain ⟨rest', e1, o1, m1, c1, tm1⟩ := ih hrestok hresttame
    have hX := stopX_of_seqOK cls tb rest hrestok
    obtain ⟨ps', e2, o2, c2, r2, sh2⟩ := sep_trim it.2 (flat2 rest) hsepok hst hnorm hX
    have hsolid : solidB it.1.bytes = true := by
      simp only [Lx.tame, Bool.and_eq_true] at hlt; exact hlt.1
    rw [e1] at e2 r2
    refine ⟨(it.1, ps') :: rest', ?_, ?_, ?_, ?_, ?_⟩
    rotate_right
    · simp only [tameSeq, Bool.and_eq_true]
      exact ⟨⟨⟨hlt, sameShape_tame _ _ sh2 hst⟩, by rw [sameShape_norm _ _ sh2]; exact hnorm⟩, tm1⟩
    · simp only [flat2]
      rw [trimB_solid _ _ hsolid, e2]
    · simp only [seqOK, Bool.and_eq_true]
      exact ⟨⟨⟨⟨hlok, o2⟩, follow_transfer cls tb hA hops it.1 hlt _ _ r2 hfollow⟩,
        stop_transfer _ _ _ (solidB_ne_nil _ hsolid) r2 hstop⟩, o1⟩
    · simp [m1]
    · simp [itemsComments, c1, c2]

/-- **L001 keeps the tokens**: for every tame text of the reference grammar (lexemes on one line; comments on one line,
    a line comment not ending in a blank; a blank run written as one piece), the text after the trailing-whitespace
    fixer is read as the same sequence of (kind, value) pairs and the same comments -/
theorem fixL001_keeps_tokens (cls : CharClass) (tb : Tables) (hA : AsciiOK cls) (hops : opsNoWS tb = true)
    (lead : List Piece) (items : List Item2)
    (hlead : lead.all Piece.ok = true) (hleadT : lead.all Piece.tame = true) (hleadN : sepNorm lead = true)
    (hok : seqOK cls tb items = true) (htame : tameSeq cls tb items = true)
    (hsize : (sepBytes lead ++ flat2 items).length ≤ tb.maxInput) (hcount : items.length ≤ tb.maxTokens) :
    ∃ toks cs toks' cs', tokenize cls tb (sepBytes lead ++ flat2 items) = .ok toks cs ∧
      tokenize cls tb (asBytes (Lint.fixL001 (asChars (sepBytes lead ++ flat2 items)))) = .ok toks' cs' ∧
      toks'.map Tok.key = toks.map Tok.key ∧ cs'.map Comment.key = cs.map Comment.key := by
  obtain ⟨items', e1, o1, m1, c1, _⟩ := seq_trim cls tb hA hops items hok htame
  obtain ⟨lead', e2, o2, c2, _, _⟩ := sep_trim lead (flat2 items) hlead hleadT hleadN (stopX_of_seqOK cls tb items hok)
  rw [e1] at e2
  have hlen : items'.length = items.length := by
    have := congrArg List.length m1
    simpa using this
  have hsize' : (sepBytes lead' ++ flat2 items').length ≤ tb.maxInput := by
    rw [← e2]
    exact Nat.le_trans (trimB_length _) hsize
  obtain ⟨toks, cs, t1, t2, t3, _, _⟩ := tokenize_spell2 cls tb hA lead items hlead hok hsize hcount
  obtain ⟨toks', cs', u1, u2, u3, _, _⟩ := tokenize_spell2 cls tb hA lead' items' o2 o1 hsize' (by rw [hlen]; exact hcount)
  refine ⟨toks, cs, toks', cs', t1, ?_, ?_, ?_⟩
  · rw [fixL001_bytes, e2]; exact u1
  · rw [t2, u2]
    have : (items'.map fun it => it.1.key cls tb) = (items'.map (·.1)).map (Lx.key cls tb) := by simp
    rw [this, m1]; simp
  · rw [t3, u3, c1, c2]

end GoSQLXModel.Lex
