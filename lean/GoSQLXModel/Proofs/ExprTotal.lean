import GoSQLXModel.Proofs.ExprProgress
/-!
# The expression ladder returns: fuel linear in the number of tokens always suffices

The model parser carries fuel so that Lean accepts the mutual recursion; `oof` (out of fuel) is the one answer that has
no counterpart in the real parser.  This file shows it is never the answer once the fuel exceeds `10 · n + 10` for a
token list of length `n`: on **every** token list every level of the ladder returns a tree, an error or `unsupported`.
With `Proofs/ExprProgress.lean` (each call consumes tokens) this is the termination of the modelled `parseExpression`,
with a bound on its recursion depth that is linear in the input.

The proof is a strong induction on the length bound `n`; at one `n` the functions are taken in the order in which
they call each other on the *same* token list (`rank`), every other call being on a strictly shorter list by the
progress theorem.
-/
namespace GoSQLXModel.ExprParse

theorem bind_ne_oof {r1 : Res} (h1 : r1 ≠ .oof) (k : Ex → List PTok → Res) (hk : ∀ l rest, r1 = .ok l rest → k l rest ≠ .oof) :
    (match r1 with
     | .ok l rest => k l rest
     | r => r) ≠ .oof := by
  cases r1 with
  | ok l rest => exact hk l rest rfl
  | err c => simp
  | unsupported => simp
  | oof => exact absurd rfl h1

/-- what is known at one length bound: with fuel at least `10 n + rank` no function answers `oof` -/
structure Tot (n : Nat) : Prop where
  prim : ∀ d ts f, ts.length ≤ n → 10 * n + 1 ≤ f → pPrim f d ts ≠ .oof
  mul : ∀ d ts f, ts.length ≤ n → 10 * n + 2 ≤ f → pMul f d ts ≠ .oof
  add : ∀ d ts f, ts.length ≤ n → 10 * n + 3 ≤ f → pAdd f d ts ≠ .oof
  cat : ∀ d ts f, ts.length ≤ n → 10 * n + 4 ≤ f → pCat f d ts ≠ .oof
  cmp : ∀ d ts f, ts.length ≤ n → 10 * n + 5 ≤ f → pCmp f d ts ≠ .oof
  and_ : ∀ d ts f, ts.length ≤ n → 10 * n + 6 ≤ f → pAnd f d ts ≠ .oof
  or_ : ∀ d ts f, ts.length ≤ n → 10 * n + 7 ≤ f → pOr f d ts ≠ .oof
  expr : ∀ d ts f, ts.length ≤ n → 10 * n + 8 ≤ f → pExpr f d ts ≠ .oof
  inList : ∀ d ts f, ts.length ≤ n → 10 * n + 9 ≤ f → pInList f d ts ≠ .oof
  args : ∀ d ts f, ts.length ≤ n → 10 * n + 9 ≤ f → pArgs f d ts ≠ .oof
  like : ∀ d neg op l ts f, ts.length ≤ n → 10 * n + 2 ≤ f → pLike f d neg op l ts ≠ .oof
  between : ∀ d neg l ts f, ts.length ≤ n → 10 * n + 5 ≤ f → pBetween f d neg l ts ≠ .oof
  in_ : ∀ d neg l ts f, ts.length ≤ n → 10 * n + 1 ≤ f → pIn f d neg l ts ≠ .oof
  pred : ∀ d neg l ts f, ts.length ≤ n → 10 * n + 1 ≤ f → pPred f d neg l ts ≠ .oof
  tail : ∀ d l ts f, ts.length ≤ n → 10 * n + 2 ≤ f → pTail f d l ts ≠ .oof
  mulStep : ∀ d l op ts f, ts.length ≤ n → 10 * n + 2 ≤ f → mulStep f d l op ts ≠ .oof
  lmul : ∀ d l ts f, ts.length ≤ n → 10 * n + 1 ≤ f → lMul f d l ts ≠ .oof
  ladd : ∀ d l ts f, ts.length ≤ n → 10 * n + 1 ≤ f → lAdd f d l ts ≠ .oof
  lcat : ∀ d l ts f, ts.length ≤ n → 10 * n + 1 ≤ f → lCat f d l ts ≠ .oof
  land : ∀ d l ts f, ts.length ≤ n → 10 * n + 1 ≤ f → lAnd f d l ts ≠ .oof
  lor : ∀ d l ts f, ts.length ≤ n → 10 * n + 1 ≤ f → lOr f d l ts ≠ .oof

/-- a call on a strictly shorter list: covered by the induction hypothesis at `n - 1` -/
theorem shorter {n : Nat} (hm : ∀ m, m < n → Tot m) {k : Nat} (hk : k < n) : Tot (n - 1) ∧ k ≤ n - 1 ∧ 10 * (n - 1) + 10 ≤ 10 * n :=
  ⟨hm (n - 1) (by omega), by omega, by omega⟩

theorem afterPrimary_ne_oof (e : Ex) (rest : List PTok) : afterPrimary e rest ≠ .oof := by
  unfold afterPrimary; split <;> simp
theorem afterCall_ne_oof (nm : String) (args : ExL) (rest : List PTok) : afterCall nm args rest ≠ .oof := by
  unfold afterCall
  split
  · split
    · simp
    · exact afterPrimary_ne_oof _ _
  · simp
theorem pIs_ne_oof (l : Ex) (ts : List PTok) : pIs l ts ≠ .oof := by
  unfold pIs; split <;> simp

theorem tot_step (n : Nat) (hm : ∀ m, m < n → Tot m) : Tot n := by
  -- loops first: their calls are all on shorter lists
  have lmulP : ∀ d l ts f, ts.length ≤ n → 10 * n + 1 ≤ f → lMul f d l ts ≠ .oof := by
    intro d l ts f hl hf
    cases f with
    | zero => omega
    | succ f' =>
      unfold lMul
      split
      all_goals first
        | (rename_i op ts'
           simp only [List.length_cons] at hl
           obtain ⟨T, h1, h2⟩ := shorter hm (k := ts'.length) (by omega)
           exact T.mulStep d l op ts' f' h1 (by omega))
        | simp
  have laddP : ∀ d l ts f, ts.length ≤ n → 10 * n + 1 ≤ f → lAdd f d l ts ≠ .oof := by
    intro d l ts f hl hf
    cases f with
    | zero => omega
    | succ f' =>
      unfold lAdd
      split
      all_goals first
        | (rename_i op ts'
           simp only [List.length_cons] at hl
           obtain ⟨T, h1, h2⟩ := shorter hm (k := ts'.length) (by omega)
           apply bind_ne_oof (T.mul d ts' f' h1 (by omega))
           intro r rest hr
           have hp := (prog f').mul d ts'
           rw [hr] at hp
           simp only [Res.lt] at hp
           exact T.ladd d _ rest f' (by omega) (by omega))
        | simp
  have lcatP : ∀ d l ts f, ts.length ≤ n → 10 * n + 1 ≤ f → lCat f d l ts ≠ .oof := by
    intro d l ts f hl hf
    cases f with
    | zero => omega
    | succ f' =>
      unfold lCat
      split
      all_goals first
        | (rename_i op ts'
           simp only [List.length_cons] at hl
           obtain ⟨T, h1, h2⟩ := shorter hm (k := ts'.length) (by omega)
           apply bind_ne_oof (T.add d ts' f' h1 (by omega))
           intro r rest hr
           have hp := (prog f').add d ts'
           rw [hr] at hp
           simp only [Res.lt] at hp
           exact T.lcat d _ rest f' (by omega) (by omega))
        | simp
  have landP : ∀ d l ts f, ts.length ≤ n → 10 * n + 1 ≤ f → lAnd f d l ts ≠ .oof := by
    intro d l ts f hl hf
    cases f with
    | zero => omega
    | succ f' =>
      unfold lAnd
      split
      all_goals first
        | (rename_i op ts'
           simp only [List.length_cons] at hl
           obtain ⟨T, h1, h2⟩ := shorter hm (k := ts'.length) (by omega)
           apply bind_ne_oof (T.cmp d ts' f' h1 (by omega))
           intro r rest hr
           have hp := (prog f').cmp d ts'
           rw [hr] at hp
           simp only [Res.lt] at hp
           exact T.land d _ rest f' (by omega) (by omega))
        | simp
  have lorP : ∀ d l ts f, ts.length ≤ n → 10 * n + 1 ≤ f → lOr f d l ts ≠ .oof := by
    intro d l ts f hl hf
    cases f with
    | zero => omega
    | succ f' =>
      unfold lOr
      split
      all_goals first
        | (rename_i op ts'
           simp only [List.length_cons] at hl
           obtain ⟨T, h1, h2⟩ := shorter hm (k := ts'.length) (by omega)
           apply bind_ne_oof (T.and_ d ts' f' h1 (by omega))
           intro r rest hr
           have hp := (prog f').and_ d ts'
           rw [hr] at hp
           simp only [Res.lt] at hp
           exact T.lor d _ rest f' (by omega) (by omega))
        | simp
  have primP : ∀ d ts f, ts.length ≤ n → 10 * n + 1 ≤ f → pPrim f d ts ≠ .oof := by
    intro d ts f hl hf
    cases f with
    | zero => omega
    | succ f' =>
      unfold pPrim
      split
      · rename_i nm rest
        split
        · exact afterCall_ne_oof _ _ _
        · rename_i r1 _
          simp only [List.length_cons] at hl
          obtain ⟨T, h1, h2⟩ := shorter hm (k := r1.length) (by omega)
          have ha := T.args d r1 f' h1 (by omega)
          cases hpa : pArgs f' d r1 with
          | ok args r2 => exact afterCall_ne_oof _ _ _
          | err c => simp
          | unsupported => simp
          | oof => exact absurd hpa ha
        · exact afterPrimary_ne_oof _ _
      · exact afterPrimary_ne_oof _ _
      · exact afterPrimary_ne_oof _ _
      · exact afterPrimary_ne_oof _ _
      · exact afterPrimary_ne_oof _ _
      · exact afterPrimary_ne_oof _ _
      · rename_i rest
        split
        · simp
        · simp only [List.length_cons] at hl
          obtain ⟨T, h1, h2⟩ := shorter hm (k := rest.length) (by omega)
          have he := T.expr d rest f' h1 (by omega)
          cases hpe : pExpr f' d rest with
          | ok e r2 =>
            split <;> first | exact afterPrimary_ne_oof _ _ | simp
          | err c => simp
          | unsupported => simp
          | oof => exact absurd hpe he
      · rename_i rest
        split
        · simp
        · split
          · simp
          · simp only [List.length_cons] at hl
            obtain ⟨T, h1, h2⟩ := shorter hm (k := rest.length) (by omega)
            have hc := T.cmp (d + 1) rest f' h1 (by omega)
            cases hpc : pCmp f' (d + 1) rest with
            | ok e r2 => simp
            | err c => simp
            | unsupported => simp
            | oof => exact absurd hpc hc
      · simp
      · simp
  have inP : ∀ d neg l ts f, ts.length ≤ n → 10 * n + 1 ≤ f → pIn f d neg l ts ≠ .oof := by
    intro d neg l ts f hl hf
    cases f with
    | zero => omega
    | succ f' =>
      unfold pIn
      split
      · simp
      · rename_i r1 _
        simp only [List.length_cons] at hl
        obtain ⟨T, h1, h2⟩ := shorter hm (k := r1.length) (by omega)
        have hi := T.inList d r1 f' h1 (by omega)
        cases hpi : pInList f' d r1 with
        | ok items rest => simp
        | err c => simp
        | unsupported => simp
        | oof => exact absurd hpi hi
      · simp
  have likeP : ∀ d neg op l ts f, ts.length ≤ n → 10 * n + 2 ≤ f → pLike f d neg op l ts ≠ .oof := by
    intro d neg op l ts f hl hf
    cases f with
    | zero => omega
    | succ f' =>
      unfold pLike
      have hp := primP d ts f' hl (by omega)
      cases hpp : pPrim f' d ts with
      | ok pat rest => simp
      | err c => simp
      | unsupported => simp
      | oof => exact absurd hpp hp
  have mulStepP : ∀ d l op ts f, ts.length ≤ n → 10 * n + 2 ≤ f → mulStep f d l op ts ≠ .oof := by
    intro d l op ts f hl hf
    cases f with
    | zero => omega
    | succ f' =>
      unfold mulStep
      split
      · simp
      · apply bind_ne_oof (primP d ts f' hl (by omega))
        intro r rest hr
        have hp := (prog f').prim d ts
        rw [hr] at hp
        simp only [Res.lt] at hp
        obtain ⟨T, h1, h2⟩ := shorter hm (k := rest.length) (by omega)
        exact T.lmul d _ rest f' h1 (by omega)
  have mulP : ∀ d ts f, ts.length ≤ n → 10 * n + 2 ≤ f → pMul f d ts ≠ .oof := by
    intro d ts f hl hf
    cases f with
    | zero => omega
    | succ f' =>
      simp only [pMul]
      apply bind_ne_oof (primP d ts f' hl (by omega))
      intro r rest hr
      have hp := (prog f').prim d ts
      rw [hr] at hp
      simp only [Res.lt] at hp
      obtain ⟨T, h1, h2⟩ := shorter hm (k := rest.length) (by omega)
      exact T.lmul d _ rest f' h1 (by omega)
  have addP : ∀ d ts f, ts.length ≤ n → 10 * n + 3 ≤ f → pAdd f d ts ≠ .oof := by
    intro d ts f hl hf
    cases f with
    | zero => omega
    | succ f' =>
      simp only [pAdd]
      apply bind_ne_oof (mulP d ts f' hl (by omega))
      intro r rest hr
      have hp := (prog f').mul d ts
      rw [hr] at hp
      simp only [Res.lt] at hp
      obtain ⟨T, h1, h2⟩ := shorter hm (k := rest.length) (by omega)
      exact T.ladd d _ rest f' h1 (by omega)
  have catP : ∀ d ts f, ts.length ≤ n → 10 * n + 4 ≤ f → pCat f d ts ≠ .oof := by
    intro d ts f hl hf
    cases f with
    | zero => omega
    | succ f' =>
      simp only [pCat]
      apply bind_ne_oof (addP d ts f' hl (by omega))
      intro r rest hr
      have hp := (prog f').add d ts
      rw [hr] at hp
      simp only [Res.lt] at hp
      obtain ⟨T, h1, h2⟩ := shorter hm (k := rest.length) (by omega)
      exact T.lcat d _ rest f' h1 (by omega)
  have betweenP : ∀ d neg l ts f, ts.length ≤ n → 10 * n + 5 ≤ f → pBetween f d neg l ts ≠ .oof := by
    intro d neg l ts f hl hf
    cases f with
    | zero => omega
    | succ f' =>
      unfold pBetween
      have hc := catP d ts f' hl (by omega)
      have hp := (prog f').cat d ts
      cases hpc : pCat f' d ts with
      | ok lo r1 =>
        rw [hpc] at hp
        simp only [Res.lt] at hp
        split
        · rename_i lo' lit r2 heq
          injection heq with _ hr1
          have hlen : r2.length < r1.length := by rw [hr1]; simp
          obtain ⟨T, h1, h2⟩ := shorter hm (k := r2.length) (by omega)
          have hc2 := T.cat d r2 f' h1 (by omega)
          cases hpc2 : pCat f' d r2 with
          | ok hi rest => simp
          | err c => simp
          | unsupported => simp
          | oof => exact absurd hpc2 hc2
        · simp
        · simp
        · rename_i r hn1 hn2 hn3
          exact absurd rfl (hn2 _ _)
      | err c => simp
      | unsupported => simp
      | oof => exact absurd hpc hc
  have predP : ∀ d neg l ts f, ts.length ≤ n → 10 * n + 1 ≤ f → pPred f d neg l ts ≠ .oof := by
    intro d neg l ts f hl hf
    cases f with
    | zero => omega
    | succ f' =>
      cases ts with
      | nil => simp [pPred]
      | cons t r1 =>
        simp only [List.length_cons] at hl
        obtain ⟨T, h1, h2⟩ := shorter hm (k := r1.length) (by omega)
        simp only [pPred]
        split
        · exact T.between d neg l r1 f' h1 (by omega)
        · split
          · exact T.like d neg _ l r1 f' h1 (by omega)
          · split
            · exact T.like d neg _ l r1 f' h1 (by omega)
            · split
              · exact T.in_ d neg l r1 f' h1 (by omega)
              · split
                · simp
                · split
                  · exact pIs_ne_oof _ _
                  · split
                    · have hc := T.cat d r1 f' h1 (by omega)
                      cases hpc : pCat f' d r1 with
                      | ok r rest => simp
                      | err c => simp
                      | unsupported => simp
                      | oof => exact absurd hpc hc
                    · split <;> simp
  have tailP : ∀ d l ts f, ts.length ≤ n → 10 * n + 2 ≤ f → pTail f d l ts ≠ .oof := by
    intro d l ts f hl hf
    cases f with
    | zero => omega
    | succ f' =>
      simp only [pTail]
      split
      · exact predP d _ l ts.tail f' (by simp; omega) (by omega)
      · exact predP d _ l ts f' hl (by omega)
  have cmpP : ∀ d ts f, ts.length ≤ n → 10 * n + 5 ≤ f → pCmp f d ts ≠ .oof := by
    intro d ts f hl hf
    cases f with
    | zero => omega
    | succ f' =>
      simp only [pCmp]
      apply bind_ne_oof (catP d ts f' hl (by omega))
      intro r rest hr
      have hp := (prog f').cat d ts
      rw [hr] at hp
      simp only [Res.lt] at hp
      obtain ⟨T, h1, h2⟩ := shorter hm (k := rest.length) (by omega)
      exact T.tail d _ rest f' h1 (by omega)
  have andP : ∀ d ts f, ts.length ≤ n → 10 * n + 6 ≤ f → pAnd f d ts ≠ .oof := by
    intro d ts f hl hf
    cases f with
    | zero => omega
    | succ f' =>
      simp only [pAnd]
      apply bind_ne_oof (cmpP d ts f' hl (by omega))
      intro r rest hr
      have hp := (prog f').cmp d ts
      rw [hr] at hp
      simp only [Res.lt] at hp
      obtain ⟨T, h1, h2⟩ := shorter hm (k := rest.length) (by omega)
      exact T.land d _ rest f' h1 (by omega)
  have orP : ∀ d ts f, ts.length ≤ n → 10 * n + 7 ≤ f → pOr f d ts ≠ .oof := by
    intro d ts f hl hf
    cases f with
    | zero => omega
    | succ f' =>
      simp only [pOr]
      apply bind_ne_oof (andP d ts f' hl (by omega))
      intro r rest hr
      have hp := (prog f').and_ d ts
      rw [hr] at hp
      simp only [Res.lt] at hp
      obtain ⟨T, h1, h2⟩ := shorter hm (k := rest.length) (by omega)
      exact T.lor d _ rest f' h1 (by omega)
  have exprP : ∀ d ts f, ts.length ≤ n → 10 * n + 8 ≤ f → pExpr f d ts ≠ .oof := by
    intro d ts f hl hf
    cases f with
    | zero => omega
    | succ f' =>
      simp only [pExpr]
      split
      · simp
      · exact orP _ ts f' hl (by omega)
  have inListP : ∀ d ts f, ts.length ≤ n → 10 * n + 9 ≤ f → pInList f d ts ≠ .oof := by
    intro d ts f hl hf
    cases f with
    | zero => omega
    | succ f' =>
      unfold pInList
      have he := exprP d ts f' hl (by omega)
      have hp := (prog f').expr d ts
      cases hpe : pExpr f' d ts with
      | ok v r1 =>
        rw [hpe] at hp
        simp only [Res.lt] at hp
        split
        · rename_i v' lit r heq
          injection heq with _ hr1
          have hlen : r.length < r1.length := by rw [hr1]; simp
          obtain ⟨T, h1, h2⟩ := shorter hm (k := r.length) (by omega)
          have hi := T.inList d r f' h1 (by omega)
          cases hpi : pInList f' d r with
          | ok vs rest => simp
          | err c => simp
          | unsupported => simp
          | oof => exact absurd hpi hi
        · simp
        · simp
        · simp
        · rename_i r hn1 hn2 hn3 hn4
          exact absurd rfl (hn3 _ _)
      | err c => simp [Res.toL]
      | unsupported => simp [Res.toL]
      | oof => exact absurd hpe he
  have argsP : ∀ d ts f, ts.length ≤ n → 10 * n + 9 ≤ f → pArgs f d ts ≠ .oof := by
    intro d ts f hl hf
    cases f with
    | zero => omega
    | succ f' =>
      unfold pArgs
      split
      · omega
      · simp
      · rename_i d' ts' _ _ _ f'' heq _
        injection heq with heq
        subst heq
        have he := exprP d' ts' f' hl (by omega)
        have hp := (prog f').expr d' ts'
        cases hpe : pExpr f' d' ts' with
        | ok v r1 =>
          rw [hpe] at hp
          simp only [Res.lt] at hp
          split
          · rename_i v' lit r heq
            injection heq with _ hr1
            have hlen : r.length < r1.length := by rw [hr1]; simp
            obtain ⟨T, h1, h2⟩ := shorter hm (k := r.length) (by omega)
            have hi := T.args d' r f' h1 (by omega)
            cases hpi : pArgs f' d' r with
            | ok vs rest => simp
            | err c => simp
            | unsupported => simp
            | oof => exact absurd hpi hi
          · simp
          · split <;> simp
          · simp
          · rename_i r hn1 hn2 hn3 hn4
            cases r1 with
            | nil => exact absurd rfl (hn4 _)
            | cons t tl => exact absurd rfl (hn3 _ _ _)
        | err c => simp [Res.toL]
        | unsupported => simp [Res.toL]
        | oof => exact absurd hpe he
  exact ⟨primP, mulP, addP, catP, cmpP, andP, orP, exprP, inListP, argsP, likeP, betweenP, inP, predP, tailP, mulStepP, lmulP, laddP,
    lcatP, landP, lorP⟩

theorem tot : ∀ n, Tot n := fun n => Nat.strongRecOn n (fun n ih => tot_step n ih)

/-- **the expression ladder returns**: with fuel `10 · |ts| + 8` (or more) `parseExpression` answers a tree, an error or
    `unsupported` on every token list, at every depth -/
theorem pExpr_returns (d : Nat) (ts : List PTok) (f : Nat) (hf : 10 * ts.length + 8 ≤ f) : pExpr f d ts ≠ .oof :=
  (tot ts.length).expr d ts f (Nat.le_refl _) hf

end GoSQLXModel.ExprParse
