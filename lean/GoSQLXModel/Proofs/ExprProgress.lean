import GoSQLXModel.Model.ExprParse
/-!
# The expression ladder makes progress on every token list

For **every** token list (not only rendered trees) and every fuel and depth: when a level of the ladder succeeds, the
tokens it hands back are a strictly shorter list than the one it was given (the `p…` functions consume at least one
token), and the loop bodies (`l…`, the predicate tail) never hand back more than they were given.  So each iteration of
the `for p.isType(…)` loops of the real parser consumes at least two tokens, and the statement loops built on
`parseExpression` cannot spin on an expression (C01: the parser returns).
-/
namespace GoSQLXModel.ExprParse

def Res.lt (r : Res) (n : Nat) : Prop :=
  match r with
  | .ok _ rest => rest.length < n
  | _ => True
def Res.le (r : Res) (n : Nat) : Prop :=
  match r with
  | .ok _ rest => rest.length ≤ n
  | _ => True
def ResL.lt (r : ResL) (n : Nat) : Prop :=
  match r with
  | .ok _ rest => rest.length < n
  | _ => True

theorem Res.le_trans_lt {r : Res} {a b : Nat} (h : r.le a) (hab : a < b) : r.lt b := by
  cases r <;> simp only [Res.le, Res.lt] at * <;> omega
theorem Res.le_trans_le {r : Res} {a b : Nat} (h : r.le a) (hab : a ≤ b) : r.le b := by
  cases r <;> simp only [Res.le] at * <;> omega
theorem Res.lt_trans_le {r : Res} {a b : Nat} (h : r.lt a) (hab : a ≤ b) : r.lt b := by
  cases r <;> simp only [Res.lt] at * <;> omega
theorem Res.lt_le {r : Res} {a : Nat} (h : r.lt a) : r.le a := by
  cases r <;> simp only [Res.le, Res.lt] at * <;> omega
theorem ResL.lt_trans_le {r : ResL} {a b : Nat} (h : r.lt a) (hab : a ≤ b) : r.lt b := by
  cases r <;> simp only [ResL.lt] at * <;> omega

theorem afterPrimary_le (e : Ex) (rest : List PTok) : (afterPrimary e rest).le rest.length := by
  unfold afterPrimary
  split <;> simp [Res.le]

theorem afterCall_le (n : String) (args : ExL) (rest : List PTok) : (afterCall n args rest).le rest.length := by
  unfold afterCall
  split
  · split
    · simp [Res.le]
    · exact afterPrimary_le _ _
  · simp [Res.le]

theorem pIs_lt (l : Ex) (ts : List PTok) : (pIs l ts).lt ts.length := by
  unfold pIs
  split <;> simp [Res.lt] <;> omega

theorem toL_lt (r : Res) (n : Nat) : r.toL.lt n := by
  cases r <;> simp [Res.toL, ResL.lt]

/-- what is known of every function of the ladder at one fuel -/
structure Prog (f : Nat) : Prop where
  expr : ∀ d ts, (pExpr f d ts).lt ts.length
  or_ : ∀ d ts, (pOr f d ts).lt ts.length
  lor : ∀ d l ts, (lOr f d l ts).le ts.length
  and_ : ∀ d ts, (pAnd f d ts).lt ts.length
  land : ∀ d l ts, (lAnd f d l ts).le ts.length
  cmp : ∀ d ts, (pCmp f d ts).lt ts.length
  tail : ∀ d l ts, (pTail f d l ts).le ts.length
  pred : ∀ d neg l ts, (pPred f d neg l ts).le ts.length
  between : ∀ d neg l ts, (pBetween f d neg l ts).le ts.length
  like : ∀ d neg op l ts, (pLike f d neg op l ts).le ts.length
  in_ : ∀ d neg l ts, (pIn f d neg l ts).le ts.length
  inList : ∀ d ts, (pInList f d ts).lt ts.length
  cat : ∀ d ts, (pCat f d ts).lt ts.length
  lcat : ∀ d l ts, (lCat f d l ts).le ts.length
  add : ∀ d ts, (pAdd f d ts).lt ts.length
  ladd : ∀ d l ts, (lAdd f d l ts).le ts.length
  mul : ∀ d ts, (pMul f d ts).lt ts.length
  lmul : ∀ d l ts, (lMul f d l ts).le ts.length
  mulStep : ∀ d l op ts, (mulStep f d l op ts).le ts.length
  args : ∀ d ts, (pArgs f d ts).lt ts.length
  prim : ∀ d ts, (pPrim f d ts).lt ts.length

theorem prog_zero : Prog 0 := by
  constructor <;> intros <;> simp [pExpr, pOr, lOr, pAnd, lAnd, pCmp, pTail, pPred, pBetween, pLike, pIn, pInList, pCat, lCat,
    pAdd, lAdd, pMul, lMul, mulStep, pArgs, pPrim, Res.lt, Res.le, ResL.lt]

/-- a left-associative loop level: first operand by `p`, then the loop `l` -/
theorem level_lt {r1 : Res} {n : Nat} (h1 : r1.lt n) (k : Ex → List PTok → Res) (hk : ∀ l rest, (k l rest).le rest.length) :
    (match r1 with
     | .ok l rest => k l rest
     | r => r).lt n := by
  cases r1 with
  | ok l rest => exact Res.le_trans_lt (hk l rest) h1
  | err c => simp [Res.lt]
  | unsupported => simp [Res.lt]
  | oof => simp [Res.lt]

theorem step_le {r1 : Res} {n : Nat} (h1 : r1.lt n) (k : Ex → List PTok → Res) (hk : ∀ l rest, (k l rest).le rest.length) :
    (match r1 with
     | .ok l rest => k l rest
     | r => r).le (n + 1) := by
  cases r1 with
  | ok l rest =>
    have := hk l rest
    simp only [Res.lt] at h1
    exact Res.le_trans_le this (by omega)
  | err c => simp [Res.le]
  | unsupported => simp [Res.le]
  | oof => simp [Res.le]

theorem prog_succ (f : Nat) (ih : Prog f) : Prog (f + 1) where
  expr := by
    intro d ts
    simp only [pExpr]
    split
    · simp [Res.lt]
    · exact ih.or_ _ ts
  or_ := by
    intro d ts
    simp only [pOr]
    exact level_lt (ih.and_ d ts) _ (ih.lor d)
  lor := by
    intro d l ts
    unfold lOr
    split
    · rename_i op ts'
      have := step_le (ih.and_ d ts') (fun r rest => lOr f d (.bin op l r) rest) (fun r rest => ih.lor d _ rest)
      exact this
    · simp [Res.le]
  and_ := by
    intro d ts
    simp only [pAnd]
    exact level_lt (ih.cmp d ts) _ (ih.land d)
  land := by
    intro d l ts
    unfold lAnd
    split
    · rename_i op ts'
      have := step_le (ih.cmp d ts') (fun r rest => lAnd f d (.bin op l r) rest) (fun r rest => ih.land d _ rest)
      exact this
    · simp [Res.le]
  cmp := by
    intro d ts
    simp only [pCmp]
    exact level_lt (ih.cat d ts) _ (ih.tail d)
  tail := by
    intro d l ts
    simp only [pTail]
    cases hn : notPrefix ts with
    | true =>
      simp only [if_true]
      exact Res.le_trans_le (ih.pred d true l ts.tail) (by simp)
    | false =>
      simp only [Bool.false_eq_true, if_false]
      exact ih.pred d false l ts
  pred := by
    intro d neg l ts
    cases ts with
    | nil => simp [pPred, Res.le]
    | cons t r1 =>
      simp only [pPred, List.length_cons]
      split
      · exact Res.le_trans_le (ih.between d neg l r1) (by omega)
      · split
        · exact Res.le_trans_le (ih.like d neg _ l r1) (by omega)
        · split
          · exact Res.le_trans_le (ih.like d neg _ l r1) (by omega)
          · split
            · exact Res.le_trans_le (ih.in_ d neg l r1) (by omega)
            · split
              · simp [Res.le]
              · split
                · exact Res.le_trans_le (Res.lt_le (pIs_lt l r1)) (by omega)
                · split
                  · have := step_le (ih.cat d r1) (fun r rest => .ok (.bin t.lit l r) rest) (fun r rest => by simp [Res.le])
                    exact this
                  · split
                    · simp [Res.le]
                    · simp [Res.le]
  between := by
    intro d neg l ts
    unfold pBetween
    have h1 := ih.cat d ts
    split
    · rename_i lo r2 heq
      rw [heq] at h1
      simp only [Res.lt, List.length_cons] at h1
      have h2 := ih.cat d r2
      split
      · rename_i hi rest heq2
        rw [heq2] at h2
        simp only [Res.lt] at h2
        simp only [Res.le]; omega
      · simp [Res.le]
      · rename_i r hr1 hr2
        cases r <;> simp [Res.le] at *
    · simp [Res.le]
    · simp [Res.le]
    · rename_i r hr1 hr2 hr3
      cases r <;> simp [Res.le] at *
  like := by
    intro d neg op l ts
    unfold pLike
    have h1 := ih.prim d ts
    split
    · rename_i pat rest heq
      rw [heq] at h1
      simp only [Res.lt] at h1
      simp only [Res.le]; omega
    · simp [Res.le]
    · rename_i r hr1 hr2
      cases r <;> simp [Res.le] at *
  in_ := by
    intro d neg l ts
    unfold pIn
    split
    · simp [Res.le]
    · rename_i r1 _
      have h1 := ih.inList d r1
      split
      · rename_i items rest heq
        rw [heq] at h1
        simp only [ResL.lt] at h1
        simp only [Res.le, List.length_cons]; omega
      · simp [Res.le]
      · simp [Res.le]
      · simp [Res.le]
    · simp [Res.le]
  inList := by
    intro d ts
    unfold pInList
    have h1 := ih.expr d ts
    split
    · rename_i v r heq
      rw [heq] at h1
      simp only [Res.lt, List.length_cons] at h1
      have h2 := ih.inList d r
      split
      · rename_i vs rest heq2
        rw [heq2] at h2
        simp only [ResL.lt] at h2 ⊢; omega
      · rename_i r' hr
        cases r' <;> simp [ResL.lt] at *
    · rename_i v r heq
      rw [heq] at h1
      simp only [Res.lt, List.length_cons] at h1
      simp only [ResL.lt]; omega
    · simp [ResL.lt]
    · simp [ResL.lt]
    · exact toL_lt _ _
  cat := by
    intro d ts
    simp only [pCat]
    exact level_lt (ih.add d ts) _ (ih.lcat d)
  lcat := by
    intro d l ts
    unfold lCat
    split
    · rename_i op ts'
      have := step_le (ih.add d ts') (fun r rest => lCat f d (.bin op l r) rest) (fun r rest => ih.lcat d _ rest)
      exact this
    · simp [Res.le]
  add := by
    intro d ts
    simp only [pAdd]
    exact level_lt (ih.mul d ts) _ (ih.ladd d)
  ladd := by
    intro d l ts
    unfold lAdd
    split
    · rename_i op ts'
      have := step_le (ih.mul d ts') (fun r rest => lAdd f d (.bin op l r) rest) (fun r rest => ih.ladd d _ rest)
      exact this
    · rename_i op ts'
      have := step_le (ih.mul d ts') (fun r rest => lAdd f d (.bin op l r) rest) (fun r rest => ih.ladd d _ rest)
      exact this
    · simp [Res.le]
  mul := by
    intro d ts
    simp only [pMul]
    exact level_lt (ih.prim d ts) _ (ih.lmul d)
  lmul := by
    intro d l ts
    unfold lMul
    split
    · rename_i op ts'
      exact Res.le_trans_le (ih.mulStep d l op ts') (by simp)
    · rename_i op ts'
      exact Res.le_trans_le (ih.mulStep d l op ts') (by simp)
    · rename_i op ts'
      exact Res.le_trans_le (ih.mulStep d l op ts') (by simp)
    · simp [Res.le]
  mulStep := by
    intro d l op ts
    unfold mulStep
    split
    · simp [Res.le]
    · have := level_lt (ih.prim d ts) (fun r rest => lMul f d (.bin op l r) rest) (fun r rest => ih.lmul d _ rest)
      exact Res.lt_le this
  args := by
    intro d ts
    unfold pArgs
    split
    · simp [ResL.lt]
    · simp [ResL.lt]
    · rename_i d' ts' _ _ _ f' heq _
      injection heq with heq
      subst heq
      have h1 := ih.expr d' ts'
      split
      · rename_i v lit r heq
        rw [heq] at h1
        simp only [Res.lt, List.length_cons] at h1
        have h2 := ih.args d' r
        split
        · rename_i vs rest heq2
          rw [heq2] at h2
          simp only [ResL.lt] at h2 ⊢; omega
        · rename_i r' hr
          cases r' <;> simp [ResL.lt] at *
      · rename_i v lit r heq
        rw [heq] at h1
        simp only [Res.lt, List.length_cons] at h1
        simp only [ResL.lt]; omega
      · split <;> simp [ResL.lt]
      · simp [ResL.lt]
      · exact toL_lt _ _
  prim := by
    intro d ts
    unfold pPrim
    split
    · rename_i n rest
      split
      · rename_i r2
        exact Res.le_trans_lt (afterCall_le n .nil r2) (by simp; omega)
      · rename_i r1 _
        have h1 := ih.args d r1
        split
        · rename_i args r2 heq
          rw [heq] at h1
          simp only [ResL.lt] at h1
          exact Res.le_trans_lt (afterCall_le n args r2) (by simp only [List.length_cons]; omega)
        · simp [Res.lt]
        · simp [Res.lt]
        · simp [Res.lt]
      · exact Res.le_trans_lt (afterPrimary_le _ rest) (by simp)
    · exact Res.le_trans_lt (afterPrimary_le _ _) (by simp)
    · exact Res.le_trans_lt (afterPrimary_le _ _) (by simp)
    · exact Res.le_trans_lt (afterPrimary_le _ _) (by simp)
    · exact Res.le_trans_lt (afterPrimary_le _ _) (by simp)
    · exact Res.le_trans_lt (afterPrimary_le _ _) (by simp)
    · rename_i rest
      split
      · simp [Res.lt]
      · have h1 := ih.expr d rest
        split
        · rename_i e lit rest' heq
          rw [heq] at h1
          simp only [Res.lt, List.length_cons] at h1
          exact Res.le_trans_lt (afterPrimary_le e rest') (by simp only [List.length_cons]; omega)
        · simp [Res.lt]
        · simp [Res.lt]
        · rename_i r hr1 hr2 hr3
          cases r <;> simp [Res.lt] at *
    · rename_i rest
      split
      · simp [Res.lt]
      · split
        · simp [Res.lt]
        · have h1 := ih.cmp (d + 1) rest
          split
          · rename_i e rest' heq
            rw [heq] at h1
            simp only [Res.lt] at h1 ⊢
            simp only [List.length_cons]; omega
          · rename_i r hr
            cases r <;> simp [Res.lt] at *
    · simp [Res.lt]
    · simp [Res.lt]

theorem prog : ∀ f, Prog f
  | 0 => prog_zero
  | f + 1 => prog_succ f (prog f)

/-- **progress of `parseExpression`**: on every token list, for every fuel and depth, a successful parse hands back
    strictly fewer tokens than it was given -/
theorem pExpr_progress (f d : Nat) (ts : List PTok) (e : Ex) (rest : List PTok) (h : pExpr f d ts = .ok e rest) :
    rest.length < ts.length := by
  have := (prog f).expr d ts
  rw [h] at this
  exact this

end GoSQLXModel.ExprParse
