import GoSQLXModel.Model.LspServer
/-!
# The document store as a map; documents do not interfere

`Docs` is the association list the model of `DocumentManager` keeps.  Proved here, for every store, URI and history:
* the four map laws (`get_set_same`, `get_set_other`, `get_del_same`, `get_del_other`);
* `step_other` — an operation on one URI leaves the copy of every other URI as it was;
* `run_get_eq_docAfter` — after any history the copy of a document is `docAfter` of what the store held for it at
  the start and of *that document's own* operations, in order: the simplest specification there is (an `Option`
  of a text, folded over the operations that name the URI).  In particular (`run_independent`) deleting every
  operation on other documents from the history changes nothing for this one;
* `keys_nodup` — the store never holds two copies of one document.
-/
namespace GoSQLXModel.Lsp

def DocOp.uri : DocOp → String
  | .open_ u _ => u
  | .change u _ => u
  | .close u => u

/-! ## map laws -/

theorem Docs.get_set_same (d : Docs) (u : String) (t : List Char) : (d.set u t).get u = some t := by
  simp [Docs.get, Docs.set]

theorem Docs.get_filter_other (d : Docs) (u v : String) (h : u ≠ v) :
    Docs.get (d.filter (fun e => !(e.1 == u))) v = d.get v := by
  unfold Docs.get
  rw [List.find?_filter]
  congr 2
  funext a
  by_cases hv : a.1 = v
  · have hu : ¬ a.1 = u := fun hu => h (hu ▸ hv)
    simp [hv]
    intro hvu; exact h hvu.symm
  · simp [hv]

theorem Docs.get_set_other (d : Docs) (u v : String) (t : List Char) (h : u ≠ v) : (d.set u t).get v = d.get v := by
  have := Docs.get_filter_other d u v h
  unfold Docs.get Docs.set at *
  rw [List.find?_cons]
  have hb : ((u, t).1 == v) = false := by simpa using h
  rw [hb]; exact this

theorem Docs.get_del_same (d : Docs) (u : String) : (d.del u).get u = none := by
  simp [Docs.get, Docs.del, List.find?_eq_none]

theorem Docs.get_del_other (d : Docs) (u v : String) (h : u ≠ v) : (d.del u).get v = d.get v :=
  Docs.get_filter_other d u v h

/-! ## one document at a time -/

/-- what one operation does to the copy of the document it names -/
def docStep (cur : Option (List Char)) : DocOp → Option (List Char)
  | .open_ _ t => some t
  | .close _ => none
  | .change _ cs => cur.map (fun c => Spec.update c cs)

/-- the copy of one document after its own operations, in order -/
def docAfter (cur : Option (List Char)) (ops : List DocOp) : Option (List Char) := ops.foldl docStep cur

theorem step_same (d : Docs) (op : DocOp) : (Spec.step d op).get op.uri = docStep (d.get op.uri) op := by
  cases op with
  | open_ u t => exact Docs.get_set_same d u t
  | close u => exact Docs.get_del_same d u
  | change u cs =>
    simp only [Spec.step, DocOp.uri, docStep]
    cases h : d.get u with
    | none => simp [h]
    | some c => simp [Docs.get_set_same]

theorem step_other (d : Docs) (op : DocOp) (v : String) (h : op.uri ≠ v) : (Spec.step d op).get v = d.get v := by
  cases op with
  | open_ u t => exact Docs.get_set_other d u v t h
  | close u => exact Docs.get_del_other d u v h
  | change u cs =>
    simp only [Spec.step]
    cases d.get u with
    | none => rfl
    | some c => exact Docs.get_set_other d u v _ h

/-- **the copy of a document is a function of its own history** -/
theorem run_get_eq_docAfter (d : Docs) (ops : List DocOp) (v : String) :
    (Spec.run d ops).get v = docAfter (d.get v) (ops.filter (fun op => op.uri == v)) := by
  induction ops generalizing d with
  | nil => rfl
  | cons op ops ih =>
    simp only [Spec.run, List.foldl_cons] at ih ⊢
    rw [ih]
    by_cases h : op.uri = v
    · subst h
      simp [docAfter, step_same]
    · simp [h, step_other d op v h]

/-- operations on other documents are invisible to this one -/
theorem run_independent (d : Docs) (ops : List DocOp) (v : String) :
    (Spec.run d ops).get v = (Spec.run d (ops.filter (fun op => op.uri == v))).get v := by
  rw [run_get_eq_docAfter, run_get_eq_docAfter, List.filter_filter]
  simp

/-- the same through the code-shaped model: it does not panic and serves the per-document specification -/
theorem code_run_get (d : Docs) (ops : List DocOp) (v : String) :
    (Code.run d ops).map (fun s => s.get v) = some (docAfter (d.get v) (ops.filter (fun op => op.uri == v))) := by
  rw [mirror_refines_spec, Option.map_some, run_get_eq_docAfter]

/-! ## never two copies of one document -/

def Docs.Uniq (d : Docs) : Prop := (d.map (·.1)).Nodup

theorem Docs.uniq_filter (d : Docs) (p : String × List Char → Bool) (h : d.Uniq) : Docs.Uniq (d.filter p) := by
  unfold Docs.Uniq at *
  exact List.Nodup.sublist (List.Sublist.map _ List.filter_sublist) h

theorem Docs.uniq_set (d : Docs) (u : String) (t : List Char) (h : d.Uniq) : (d.set u t).Uniq := by
  have hf := Docs.uniq_filter d (fun e => !(e.1 == u)) h
  unfold Docs.Uniq Docs.set at *
  simp only [List.map_cons, List.nodup_cons]
  refine ⟨?_, hf⟩
  simp [List.mem_map, List.mem_filter]

theorem step_uniq (d : Docs) (op : DocOp) (h : d.Uniq) : (Spec.step d op).Uniq := by
  cases op with
  | open_ u t => exact Docs.uniq_set d u t h
  | close u => exact Docs.uniq_filter d _ h
  | change u cs =>
    simp only [Spec.step]
    cases d.get u with
    | none => exact h
    | some c => exact Docs.uniq_set d u _ h

theorem keys_nodup (ops : List DocOp) : (Spec.run [] ops).Uniq := by
  suffices ∀ d : Docs, d.Uniq → (Spec.run d ops).Uniq from this [] (by simp [Docs.Uniq])
  induction ops with
  | nil => exact fun d h => h
  | cons op ops ih => exact fun d h => ih _ (step_uniq d op h)

end GoSQLXModel.Lsp
