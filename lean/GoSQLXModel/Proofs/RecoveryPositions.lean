import GoSQLXModel.Model.Loops
/-!
# Recovery: every reported position is a real token, reported once, in source order

For every token stream and every statement oracle satisfying the frame assumptions, whatever the fuel: what the
recovery loop adds to its two result lists from position `pos` on are positions `pos ≤ x < n` (real tokens, not
before the point reached), each list strictly increasing (source order, no statement or error reported twice), and
no position is both a returned statement and a reported error.
-/
namespace GoSQLXModel.Loops
variable (I : Input)

def NewEntries (pos : Nat) (st er : List Nat) (r : List Nat × List Nat) : Prop :=
  ∃ ds de, r = (st ++ ds, er ++ de) ∧ (∀ x ∈ ds, pos ≤ x ∧ x < I.n) ∧ (∀ x ∈ de, pos ≤ x ∧ x < I.n) ∧
    ds.Pairwise (· < ·) ∧ de.Pairwise (· < ·) ∧ ∀ x ∈ ds, x ∉ de

theorem NewEntries.weaken {pos pos' : Nat} {st er : List Nat} {r} (h : NewEntries I pos' st er r) (hp : pos ≤ pos') :
    NewEntries I pos st er r := by
  obtain ⟨ds, de, h1, h2, h3, h4, h5, h6⟩ := h
  exact ⟨ds, de, h1, fun x hx => ⟨by have := (h2 x hx).1; omega, (h2 x hx).2⟩,
    fun x hx => ⟨by have := (h3 x hx).1; omega, (h3 x hx).2⟩, h4, h5, h6⟩

theorem rec_new_entries (hF : Frame I) : ∀ (f pos : Nat) (st er : List Nat) (r : List Nat × List Nat),
    recLoop I f pos st er = some r → NewEntries I pos st er r := by
  intro f
  induction f with
  | zero => intro pos st er r h; simp [recLoop] at h
  | succ f ih =>
    intro pos st er r h
    simp only [recLoop] at h
    split at h
    · rename_i hm
      have hlt := lt_n_of_more I hm
      split at h
      · exact (ih _ _ _ _ h).weaken I (by omega)
      · split at h
        · rename_i _ hok
          have hstop := hF.fa3 pos hok
          obtain ⟨ds, de, h1, h2, h3, h4, h5, h6⟩ := ih _ _ _ _ h
          have hge : ∀ x, (if I.kind (I.stmt pos).stop = .semi then (I.stmt pos).stop + 1 else (I.stmt pos).stop) ≤ x → pos < x := by
            intro x hx; split at hx <;> omega
          refine ⟨pos :: ds, de, by simp [h1], ?_, ?_, ?_, h5, ?_⟩
          · intro x hx
            rcases List.mem_cons.1 hx with rfl | hx
            · exact ⟨Nat.le_refl _, hlt⟩
            · exact ⟨Nat.le_of_lt (hge x (h2 x hx).1), (h2 x hx).2⟩
          · intro x hx; exact ⟨Nat.le_of_lt (hge x (h3 x hx).1), (h3 x hx).2⟩
          · exact List.pairwise_cons.2 ⟨fun x hx => hge x (h2 x hx).1, h4⟩
          · intro x hx
            rcases List.mem_cons.1 hx with rfl | hx
            · intro hmem; have := hge _ (h3 _ hmem).1; omega
            · exact h6 x hx
        · split at h
          · simp at h
          · rename_i p2 hsync
            have hfa := hF.fa2 pos
            have hp2 := sync_ge I _ _ _ hsync
            have hge : ∀ x, p2 ≤ x → pos < x := by
              intro x hx; split at hp2 <;> omega
            obtain ⟨ds, de, h1, h2, h3, h4, h5, h6⟩ := ih _ _ _ _ h
            refine ⟨ds, pos :: de, by simp [h1], ?_, ?_, h4, ?_, ?_⟩
            · intro x hx; exact ⟨Nat.le_of_lt (hge x (h2 x hx).1), (h2 x hx).2⟩
            · intro x hx
              rcases List.mem_cons.1 hx with rfl | hx
              · exact ⟨Nat.le_refl _, hlt⟩
              · exact ⟨Nat.le_of_lt (hge x (h3 x hx).1), (h3 x hx).2⟩
            · exact List.pairwise_cons.2 ⟨fun x hx => hge x (h3 x hx).1, h5⟩
            · intro x hx hmem
              rcases List.mem_cons.1 hmem with rfl | hmem
              · have := hge _ (h2 _ hx).1; omega
              · exact h6 x hx hmem
    · simp only [Option.some.injEq] at h
      subst h
      exact ⟨[], [], by simp, by simp, by simp, List.Pairwise.nil, List.Pairwise.nil, by simp⟩

/-- from the start of the input: both result lists are strictly increasing token positions below `n`, disjoint -/
theorem recovery_positions (hF : Frame I) (f : Nat) (r : List Nat × List Nat) (h : recLoop I f 0 [] [] = some r) :
    r.1.Pairwise (· < ·) ∧ r.2.Pairwise (· < ·) ∧ (∀ x ∈ r.1, x < I.n) ∧ (∀ x ∈ r.2, x < I.n) ∧ ∀ x ∈ r.1, x ∉ r.2 := by
  obtain ⟨ds, de, h1, h2, h3, h4, h5, h6⟩ := rec_new_entries I hF f 0 [] [] r h
  subst h1
  simp only [List.nil_append]
  exact ⟨h4, h5, fun x hx => (h2 x hx).2, fun x hx => (h3 x hx).2, h6⟩

end GoSQLXModel.Loops
