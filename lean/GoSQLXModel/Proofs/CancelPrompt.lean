import GoSQLXModel.Model.Loops
/-!
# ParseContext: cancellation is reported at the first poll that sees it, and not before

For every token stream, statement oracle, poll count per statement and every way the context may fire:
* `cancelled_at_first_firing_poll` — when the loop reports `cancelled j`, poll `j` observed a done context and
  no earlier poll of this call did: the loop makes no further poll, parses no further statement and returns no tree
  after the first observation (the "bounded amount of further work" of the model: zero polls);
* `done_means_parse` — when the loop returns a result instead, it is exactly the result of `Parse` on the same
  input: a context that fires only after the call's last poll — or between polls — is invisible;
* `monotone_context` — for a context that, once done, stays done (`fires` monotone), a call whose first poll already
  sees it done is refused at that poll whatever the input.
-/
namespace GoSQLXModel.Loops
variable (I : Input)

theorem cancelled_at_first_firing_poll (strict : Bool) (fires : Nat → Bool) (polls : Nat → Nat) :
    ∀ (f k pos : Nat) (acc : List Nat) (j : Nat),
      parseContextLoop I strict fires polls f k pos acc = some (.cancelled j) →
      k ≤ j ∧ fires j = true ∧ ∀ i, k ≤ i → i < j → fires i = false := by
  intro f
  induction f with
  | zero => intro k pos acc j h; simp [parseContextLoop] at h
  | succ f ih =>
    intro k pos acc j h
    simp only [parseContextLoop] at h
    split at h
    · split at h
      · rename_i hk
        injection h with h; injection h with h; subst h
        exact ⟨Nat.le_refl _, hk, fun i h1 h2 => by omega⟩
      · rename_i hk
        have hk' : fires k = false := by simpa using hk
        split at h
        · split at h
          · simp at h
          · obtain ⟨h1, h2, h3⟩ := ih _ _ _ _ h
            refine ⟨by omega, h2, fun i hi hj => ?_⟩
            by_cases hik : i = k
            · subst hik; exact hk'
            · exact h3 i (by omega) hj
        · split at h
          · rename_i j' hfind
            injection h with h; injection h with h; subst h
            obtain ⟨p1, p2, p3⟩ := List.find?_range_eq_some.1 hfind
            refine ⟨by omega, p1, fun i hi hj => ?_⟩
            by_cases hik : i = k
            · subst hik; exact hk'
            · have := p3 (i - (k + 1)) (by omega)
              have e : k + 1 + (i - (k + 1)) = i := by omega
              simpa [e] using this
          · rename_i hfind
            split at h
            · obtain ⟨h1, h2, h3⟩ := ih _ _ _ _ h
              refine ⟨by omega, h2, fun i hi hj => ?_⟩
              by_cases hik : i = k
              · subst hik; exact hk'
              · by_cases hlt : i < k + 1 + polls pos
                · have := List.find?_eq_none.1 hfind (i - (k + 1)) (by simp; omega)
                  have e : k + 1 + (i - (k + 1)) = i := by omega
                  simpa [e] using this
                · exact h3 i (by omega) hj
            · simp at h
    · split at h <;> simp at h

theorem done_means_parse (strict : Bool) (fires : Nat → Bool) (polls : Nat → Nat) :
    ∀ (f k pos : Nat) (acc : List Nat) (r : Res),
      parseContextLoop I strict fires polls f k pos acc = some (.done r) → parseLoop I strict f pos acc = some r := by
  intro f
  induction f with
  | zero => intro k pos acc r h; simp [parseContextLoop] at h
  | succ f ih =>
    intro k pos acc r h
    simp only [parseContextLoop] at h
    simp only [parseLoop]
    split at h
    · rename_i hm
      simp only [hm, if_true]
      split at h
      · simp at h
      · split at h
        · rename_i hs
          simp only [hs, if_true]
          split at h
          · rename_i hst; simp only [hst, if_true]; simpa using h
          · rename_i hst; have := ih _ _ _ _ h; simpa [hst] using this
        · rename_i hs
          simp only [hs, if_false]
          split at h
          · simp at h
          · split at h
            · rename_i ho
              simp only [ho, if_true]
              exact ih _ _ _ _ h
            · rename_i ho
              simp only [ho]
              simpa using h
    · rename_i hm
      simp only [hm]
      split at h <;> rename_i he <;> simp only [he] <;> simpa using h

/-- a context that stays done once done, already done at the call's first poll: refused there, whatever follows -/
theorem monotone_context (strict : Bool) (fires : Nat → Bool) (polls : Nat → Nat) (f k pos : Nat) (acc : List Nat)
    (hm : more I pos = true) (hk : fires k = true) :
    parseContextLoop I strict fires polls (f + 1) k pos acc = some (.cancelled k) :=
  parseContext_cancel_at_head I strict fires polls f k pos acc hm hk

end GoSQLXModel.Loops
