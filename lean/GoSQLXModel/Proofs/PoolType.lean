import GoSQLXModel.Model.Pool
/-!
# Node pools: what `get` hands out, besides being clean

For every schema, site table, pool content and history:
* `takeTy_ty`, `takeTy_perm` — the node taken for a type has that type, and taking it removes exactly that one entry
  from the pool (the rest is the pool without it, as a permutation): one entry is never handed to two callers;
* `run_types` — the nodes handed out over a history are, in order, one per `get`, each of the type that `get` asked
  for, whatever was released before and through whichever site (no type confusion on reuse);
* `run_length_le` — the pool grows by at most one entry per `put` and only shrinks on `get`.
-/
namespace GoSQLXModel.Pool

theorem takeTy_ty {ty : String} : ∀ {st : State} {n : PNode} {rest : State}, takeTy ty st = some (n, rest) → n.ty = ty
  | [], _, _, h => by simp [takeTy] at h
  | m :: st, n, rest, h => by
    unfold takeTy at h
    by_cases hm : (m.ty == ty) = true
    · simp only [hm, if_true, Option.some.injEq, Prod.mk.injEq] at h
      obtain ⟨rfl, _⟩ := h
      simpa using hm
    · simp only [hm] at h
      cases hr : takeTy ty st with
      | none => simp [hr] at h
      | some pr =>
        obtain ⟨k, rest'⟩ := pr
        simp only [hr, Bool.false_eq_true, if_false, Option.some.injEq, Prod.mk.injEq] at h
        obtain ⟨rfl, _⟩ := h
        exact takeTy_ty hr

theorem takeTy_perm {ty : String} : ∀ {st : State} {n : PNode} {rest : State},
    takeTy ty st = some (n, rest) → (n :: rest).Perm st
  | [], _, _, h => by simp [takeTy] at h
  | m :: st, n, rest, h => by
    unfold takeTy at h
    by_cases hm : (m.ty == ty) = true
    · simp only [hm, if_true, Option.some.injEq, Prod.mk.injEq] at h
      obtain ⟨rfl, rfl⟩ := h
      exact List.Perm.refl _
    · simp only [hm] at h
      cases hr : takeTy ty st with
      | none => simp [hr] at h
      | some pr =>
        obtain ⟨k, rest'⟩ := pr
        simp only [hr, Bool.false_eq_true, if_false, Option.some.injEq, Prod.mk.injEq] at h
        obtain ⟨rfl, rfl⟩ := h
        exact (List.Perm.swap m k rest').trans ((takeTy_perm hr).cons m)

/-- the types the history asks for, in order -/
def askedTypes : List Op → List String
  | [] => []
  | .get ty :: ops => ty :: askedTypes ops
  | .put _ _ :: ops => askedTypes ops

theorem step_out_ty (s : Schema) (sites : PoolSites) (st : State) (op : Op) :
    ((step s sites st op).2.map (·.ty)).toList = askedTypes [op] := by
  cases op with
  | put site n =>
    simp only [step, askedTypes]
    cases sites.find? (fun e => e.1 == site && e.2.1 == n.ty) <;> rfl
  | get ty =>
    simp only [step, askedTypes]
    cases h : takeTy ty st with
    | none => simp [fresh]
    | some pr => obtain ⟨n, rest⟩ := pr; simp [takeTy_ty h]

/-- **one node per `get`, of the type asked for** — for every history and every starting pool -/
theorem run_types (s : Schema) (sites : PoolSites) : ∀ (ops : List Op) (st : State),
    (run s sites st ops).2.map (·.ty) = askedTypes ops
  | [], _ => rfl
  | op :: ops, st => by
    have h1 := step_out_ty s sites st op
    have h2 := run_types s sites ops (step s sites st op).1
    simp only [run]
    cases op with
    | put site n =>
      cases ho : (step s sites st (.put site n)).2 with
      | none => simpa [askedTypes] using h2
      | some m => simp [ho, askedTypes] at h1
    | get ty =>
      cases ho : (step s sites st (.get ty)).2 with
      | none => simp [ho, askedTypes] at h1
      | some m =>
        simp only [ho, Option.map_some, Option.toList_some, askedTypes, List.cons.injEq, and_true] at h1
        simp [askedTypes, h1, h2]

def puts : List Op → Nat
  | [] => 0
  | .put _ _ :: ops => puts ops + 1
  | .get _ :: ops => puts ops

theorem step_length_le (s : Schema) (sites : PoolSites) (st : State) (op : Op) :
    (step s sites st op).1.length ≤ st.length + puts [op] := by
  cases op with
  | put site n =>
    simp only [step, puts]
    cases sites.find? (fun e => e.1 == site && e.2.1 == n.ty) <;> simp
  | get ty =>
    simp only [step, puts]
    cases h : takeTy ty st with
    | none => simp
    | some pr => obtain ⟨n, rest⟩ := pr; have := (takeTy_perm h).length_eq; simp at this ⊢; omega

theorem run_length_le (s : Schema) (sites : PoolSites) : ∀ (ops : List Op) (st : State),
    (run s sites st ops).1.length ≤ st.length + puts ops
  | [], _ => by simp [run, puts]
  | op :: ops, st => by
    have h1 := step_length_le s sites st op
    have h2 := run_length_le s sites ops (step s sites st op).1
    simp only [run]
    cases op <;> simp [puts] at h1 ⊢ <;> omega

end GoSQLXModel.Pool
