import GoSQLXModel.Proofs.LintLemmas
/-!
# The whitespace fixers touch nothing but blanks — for every text

For **every** text (not only tame reference-grammar texts; whatever its quotes, comments and line structure):
* `fixL001_keeps_nonblanks`, `fixL010_keeps_nonblanks` — the sequence of non-blank characters (everything except
  space and tab; line feeds included) of the output is that of the input: no character of a word, number, operator,
  quote or comment marker is added, removed or reordered, and the line structure is unchanged;
* `fixL001_sublist`, `fixL010_sublist` — the output is a subsequence of the input: these fixers only delete;
* `fixL002_keeps_nonblanks` — L002 (tabs of the indentation → four spaces) likewise leaves the non-blank sequence alone.
What such a deletion can still do — join two tokens? never, a blank remains; change a *literal*: only inside a
string spanning several lines (the recorded counterexamples) — is the token-level statement of `l001_keeps_tokens`.
-/
namespace GoSQLXModel.Lint

def nonBlank (c : Char) : Bool := !isBlankChar c

theorem filter_joinLines_map (p : Char → Bool) (f : List Char → List Char) (hf : ∀ l, (f l).filter p = l.filter p) :
    ∀ ls : List (List Char), (joinLines (ls.map f)).filter p = (joinLines ls).filter p
  | [] => rfl
  | [l] => by simp [joinLines, hf]
  | l :: m :: ls => by
    have ih := filter_joinLines_map p f hf (m :: ls)
    simp only [List.map_cons] at ih ⊢
    simp only [joinLines, List.filter_append, List.filter_cons, hf]
    rw [ih]

theorem sublist_joinLines_map (f : List Char → List Char) (hf : ∀ l, (f l).Sublist l) :
    ∀ ls : List (List Char), (joinLines (ls.map f)).Sublist (joinLines ls)
  | [] => List.Sublist.refl _
  | [l] => by simpa [joinLines] using hf l
  | l :: m :: ls => by
    have ih := sublist_joinLines_map f hf (m :: ls)
    simp only [List.map_cons] at ih ⊢
    simp only [joinLines]
    exact List.Sublist.append (hf l) (List.Sublist.cons_cons _ ih)

theorem filter_dropWhile_not {α} (p : α → Bool) : ∀ l : List α, (l.dropWhile p).filter (fun c => !p c) = l.filter (fun c => !p c)
  | [] => rfl
  | a :: l => by
    by_cases h : p a = true
    · simp [List.dropWhile_cons, h, filter_dropWhile_not p l]
    · simp [List.dropWhile_cons, h]

theorem trimRight_nonblank (l : List Char) : (trimRight l).filter nonBlank = l.filter nonBlank := by
  unfold trimRight nonBlank
  rw [List.filter_reverse, filter_dropWhile_not, ← List.filter_reverse, List.reverse_reverse]

theorem trimRight_sublist (l : List Char) : (trimRight l).Sublist l := by
  unfold trimRight
  have := (List.dropWhile_sublist isBlankChar (l := l.reverse)).reverse
  simpa using this

theorem fixL001_keeps_nonblanks (s : List Char) : (fixL001 s).filter nonBlank = s.filter nonBlank := by
  unfold fixL001
  rw [filter_joinLines_map nonBlank trimRight trimRight_nonblank, join_split]

theorem fixL001_sublist (s : List Char) : (fixL001 s).Sublist s := by
  have := sublist_joinLines_map trimRight trimRight_sublist (splitLines s)
  rwa [join_split] at this

/-! L010 -/
theorem collapseGo_sublist : ∀ (l : List Char) (inS : Bool) (q : Char) (prev : Bool), (collapseGo inS q prev l).Sublist l
  | [], inS, q, prev => by cases inS <;> simp [collapseGo]
  | c :: cs, false, q, prev => by
    simp only [collapseGo]
    split
    · exact List.Sublist.cons_cons _ (collapseGo_sublist cs _ _ _)
    · split
      · split
        · exact List.Sublist.cons _ (collapseGo_sublist cs _ _ _)
        · exact List.Sublist.cons_cons _ (collapseGo_sublist cs _ _ _)
      · exact List.Sublist.cons_cons _ (collapseGo_sublist cs _ _ _)
  | c :: cs, true, q, prev => by
    simp only [collapseGo]
    split <;> exact List.Sublist.cons_cons _ (collapseGo_sublist cs _ _ _)

theorem collapseGo_nonblank : ∀ (l : List Char) (inS : Bool) (q : Char) (prev : Bool),
    (collapseGo inS q prev l).filter nonBlank = l.filter nonBlank
  | [], inS, q, prev => by cases inS <;> simp [collapseGo]
  | c :: cs, false, q, prev => by
    simp only [collapseGo]
    split
    · simp [List.filter_cons, collapseGo_nonblank cs]
    · split
      · rename_i hsp
        have hb : nonBlank c = false := by subst hsp; decide
        split
        · simp [List.filter_cons, hb, collapseGo_nonblank cs]
        · simp [List.filter_cons, hb, collapseGo_nonblank cs]
      · simp [List.filter_cons, collapseGo_nonblank cs]
  | c :: cs, true, q, prev => by
    simp only [collapseGo]
    split <;> simp [List.filter_cons, collapseGo_nonblank cs]

theorem fixLineL010_nonblank (l : List Char) : (fixLineL010 l).filter nonBlank = l.filter nonBlank := by
  unfold fixLineL010
  split
  · exact collapseGo_nonblank l _ _ _
  · rw [List.filter_append, collapseGo_nonblank, ← List.filter_append, takeWhile_append_dropWhile']

theorem fixLineL010_sublist (l : List Char) : (fixLineL010 l).Sublist l := by
  unfold fixLineL010
  split
  · exact collapseGo_sublist l _ _ _
  · have := List.Sublist.append (List.Sublist.refl (leadingWs l)) (collapseGo_sublist (trimLeft l) false '\x00' false)
    rwa [takeWhile_append_dropWhile'] at this

theorem fixL010_keeps_nonblanks (s : List Char) : (fixL010 s).filter nonBlank = s.filter nonBlank := by
  unfold fixL010
  rw [filter_joinLines_map nonBlank fixLineL010 fixLineL010_nonblank, join_split]

theorem fixL010_sublist (s : List Char) : (fixL010 s).Sublist s := by
  have := sublist_joinLines_map fixLineL010 fixLineL010_sublist (splitLines s)
  rwa [join_split] at this

/-! L002 -/
theorem expandTabs_nonblank (ws : List Char) (h : ∀ c ∈ ws, isBlankChar c = true) : (expandTabs ws).filter nonBlank = [] := by
  rw [List.filter_eq_nil_iff]
  intro c hc
  have := expandTabs_blank ws h c hc
  subst this; decide

theorem fixLineL002_nonblank (l : List Char) : (fixLineL002 l).filter nonBlank = l.filter nonBlank := by
  unfold fixLineL002
  split
  · rfl
  · have hl : ∀ c ∈ leadingWs l, isBlankChar c = true := fun c hc => mem_takeWhile_true isBlankChar l c hc
    have h0 : (leadingWs l).filter nonBlank = [] := by
      rw [List.filter_eq_nil_iff]; intro c hc; simp [nonBlank, hl c hc]
    conv => rhs; rw [← takeWhile_append_dropWhile' l]
    rw [List.filter_append, List.filter_append, expandTabs_nonblank _ hl, h0]

theorem fixL002_keeps_nonblanks (s : List Char) : (fixL002 s).filter nonBlank = s.filter nonBlank := by
  unfold fixL002
  rw [filter_joinLines_map nonBlank fixLineL002 fixLineL002_nonblank, join_split]

end GoSQLXModel.Lint
