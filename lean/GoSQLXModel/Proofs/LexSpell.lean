import GoSQLXModel.Proofs.LexMunch
/-!
# A sequence of reference lexemes, whatever the blank runs between them, is read as exactly that sequence

Reference lexemes of the core surface: ASCII words (`[A-Za-z_][A-Za-z0-9_]*`; a keyword when the keyword table says so,
else an identifier; not the first word of a compound keyword), unsigned integers (`[0-9]+`) and the punctuation
`( ) , ;`.  Each lexeme is followed by a non-empty run of blanks (space, tab, CR, LF) — *any* run.  `tokenize_spell`: the
token list is the lexeme list (type and text of each), then the end marker, with no comments — for every such sequence of
any length within the token limit.  Since the statement does not mention the blank runs, it is also layout independence
for this surface.

Hypotheses on the parameters are decidable facts, discharged for the regenerated tables and the dumped Go classifier
in Props/C04: `AsciiOK` (ASCII letters are letters, ASCII digits digits, blanks and the four punctuation bytes are
neither) and `PunctOK` (no operator of the table other than the byte itself starts with one of the four bytes).
-/
namespace GoSQLXModel.Lex

def isLetterB (b : UInt8) : Bool := (65 ≤ b.toNat && b.toNat ≤ 90) || (97 ≤ b.toNat && b.toNat ≤ 122)
def isDigitB (b : UInt8) : Bool := 48 ≤ b.toNat && b.toNat ≤ 57
def isWordStartB (b : UInt8) : Bool := isLetterB b || b == 95
def isWordCharB (b : UInt8) : Bool := isLetterB b || isDigitB b || b == 95
def isPunctB (b : UInt8) : Bool := b == 40 || b == 41 || b == 44 || b == 59

structure AsciiOK (cls : CharClass) : Prop where
  letter : ∀ b : UInt8, isLetterB b = true → cls.isLetter (Char.ofNat b.toNat) = true
  digit : ∀ b : UInt8, isDigitB b = true → cls.isDigit (Char.ofNat b.toNat) = true
  digitNotLetter : ∀ b : UInt8, isDigitB b = true → cls.isLetter (Char.ofNat b.toNat) = false
  blank : ∀ b : UInt8, isWS b = true → isIdentChar cls b.toNat = false
  punct : ∀ b : UInt8, isPunctB b = true → isIdentStart cls b.toNat = false

/-- the only operator of the table that starts with the byte `p` is `p` itself, with type `ty` -/
def PunctOK (tb : Tables) (p : UInt8) (ty : Nat) : Prop :=
  ([p], ty) ∈ tb.operators ∧ ∀ o ∈ tb.operators, o.1.head? = some p → o = ([p], ty)

inductive Lexeme where
  | word (w : Bytes)
  | int (ds : Bytes)
  | punct (p : UInt8)

def Lexeme.bytes : Lexeme → Bytes
  | .word w => w
  | .int ds => ds
  | .punct p => [p]

/-- the lexeme is spelled as its class requires -/
def Lexeme.ok (cls : CharClass) (tb : Tables) : Lexeme → Prop
  | .word w => ∃ c cs, w = c :: cs ∧ isWordStartB c = true ∧ (∀ x ∈ cs, isWordCharB x = true) ∧
      tb.compoundStarts.contains (upper cls w) = false
  | .int ds => ds ≠ [] ∧ ∀ x ∈ ds, isDigitB x = true
  | .punct p => isPunctB p = true ∧ ∃ ty, PunctOK tb p ty

/-- type and text of the token a lexeme must be read as -/
def Lexeme.key (cls : CharClass) (tb : Tables) : Lexeme → Nat × Bytes
  | .word w => ((lookup tb.keywords (upper cls w)).getD tb.ttIdentifier, w)
  | .int ds => (tb.ttNumber, ds)
  | .punct p => ((lookup tb.operators [p]).getD 0, [p])

def Tok.key (t : Tok) : Nat × Bytes := (t.ty, t.value)

/-! ## bytes below 0x80 are their own runes -/
theorem decodeRune_ascii (b : UInt8) (tl : Bytes) (h : b.toNat < 128) : decodeRune (b :: tl) = (b.toNat, 1) := by
  simp [decodeRune, h]

theorem nextRune_ascii (b : UInt8) (tl : Bytes) (h : b.toNat < 128) : nextRune (b :: tl) = some (b.toNat, tl) := by
  simp [nextRune, decodeRune_ascii b tl h]

theorem dropRunesF_run (p : Nat → Bool) (cs : Bytes) (s : UInt8) (rest : Bytes)
    (hcs : ∀ x ∈ cs, x.toNat < 128 ∧ p x.toNat = true) (hs : s.toNat < 128 ∧ p s.toNat = false) :
    ∀ fuel, cs.length < fuel → dropRunesF p fuel (cs ++ s :: rest) = s :: rest := by
  induction cs with
  | nil =>
    intro fuel hf
    cases fuel with
    | zero => simp at hf
    | succ f => simp [dropRunesF, nextRune_ascii s rest hs.1, hs.2]
  | cons c cs ih =>
    intro fuel hf
    cases fuel with
    | zero => simp at hf
    | succ f =>
      have hc := hcs c (by simp)
      simp only [List.cons_append, dropRunesF, nextRune_ascii c _ hc.1, hc.2, if_true]
      exact ih (fun x hx => hcs x (by simp [hx])) f (by simp only [List.length_cons] at hf; omega)

theorem dropRunes_run (p : Nat → Bool) (cs : Bytes) (s : UInt8) (rest : Bytes)
    (hcs : ∀ x ∈ cs, x.toNat < 128 ∧ p x.toNat = true) (hs : s.toNat < 128 ∧ p s.toNat = false) :
    dropRunes p (cs ++ s :: rest) = s :: rest := by
  unfold dropRunes
  exact dropRunesF_run p cs s rest hcs hs _ (by simp)

theorem consumed_append (a b : Bytes) : consumed (a ++ b) b = a := by
  simp [consumed]

theorem ws_lt (s : UInt8) (h : isWS s = true) : s.toNat < 128 := by
  simp only [isWS, Bool.or_eq_true, beq_iff_eq] at h
  rcases h with ((h | h) | h) | h <;> (subst h; decide)

theorem letter_lt (b : UInt8) (h : isWordCharB b = true) : b.toNat < 128 := by
  simp only [isWordCharB, isLetterB, isDigitB, Bool.or_eq_true, Bool.and_eq_true, decide_eq_true_eq, beq_iff_eq] at h
  rcases h with (((h | h) | h) | h)
  · omega
  · omega
  · omega
  · subst h; decide

theorem digit_lt (b : UInt8) (h : isDigitB b = true) : b.toNat < 128 := by
  simp only [isDigitB, Bool.and_eq_true, decide_eq_true_eq] at h; omega

theorem punct_lt (b : UInt8) (h : isPunctB b = true) : b.toNat < 128 := by
  simp only [isPunctB, Bool.or_eq_true, beq_iff_eq] at h
  rcases h with ((h | h) | h) | h <;> (subst h; decide)

theorem wordChar_ident (cls : CharClass) (hA : AsciiOK cls) (x : UInt8) (h : isWordCharB x = true) :
    isIdentChar cls x.toNat = true := by
  simp only [isWordCharB, Bool.or_eq_true, beq_iff_eq] at h
  rcases h with (h | h) | h
  · simp [isIdentChar, hA.letter x h]
  · simp [isIdentChar, hA.digit x h]
  · subst h; simp [isIdentChar]

theorem wordStart_identStart (cls : CharClass) (hA : AsciiOK cls) (x : UInt8) (h : isWordStartB x = true) :
    isIdentStart cls x.toNat = true := by
  simp only [isWordStartB, Bool.or_eq_true, beq_iff_eq] at h
  rcases h with h | h
  · simp [isIdentStart, isLetterR, hA.letter x h]
  · subst h; simp [isIdentStart]

theorem wordStart_char (x : UInt8) (h : isWordStartB x = true) : isWordCharB x = true := by
  simp only [isWordStartB, Bool.or_eq_true, beq_iff_eq] at h
  rcases h with h | h
  · simp [isWordCharB, h]
  · subst h; simp [isWordCharB]

/-- a word followed by a blank is read as that word -/
theorem nextToken_word (cls : CharClass) (tb : Tables) (inp : Bytes) (hA : AsciiOK cls) (c : UInt8) (cs : Bytes) (s : UInt8)
    (rest : Bytes) (hc : isWordStartB c = true) (hcs : ∀ x ∈ cs, isWordCharB x = true) (hs : isWS s = true)
    (hcomp : tb.compoundStarts.contains (upper cls (c :: cs)) = false) :
    nextToken cls tb inp ((c :: cs) ++ s :: rest) =
      .ok ({ ty := (lookup tb.keywords (upper cls (c :: cs))).getD tb.ttIdentifier, value := c :: cs }, s :: rest) := by
  have hc128 := letter_lt c (wordStart_char c hc)
  have hdrop : dropRunes (isIdentChar cls) (cs ++ s :: rest) = s :: rest :=
    dropRunes_run _ cs s rest (fun x hx => ⟨letter_lt x (hcs x hx), wordChar_ident cls hA x (hcs x hx)⟩)
      ⟨ws_lt s hs, hA.blank s hs⟩
  have hcons : consumed (c :: (cs ++ s :: rest)) (s :: rest) = c :: cs := by
    have := consumed_append (c :: cs) (s :: rest)
    simpa using this
  simp only [nextToken, List.cons_append, decodeRune_ascii c _ hc128, wordStart_identStart cls hA c hc, if_true]
  simp only [readIdentifier, nextRune_ascii c _ hc128, hdrop, hcons, hcomp, Bool.false_eq_true, if_false]

/-- digits followed by a blank are read as that number -/
theorem nextToken_int (cls : CharClass) (tb : Tables) (inp : Bytes) (hA : AsciiOK cls) (d : UInt8) (ds : Bytes) (s : UInt8)
    (rest : Bytes) (hd : isDigitB d = true) (hds : ∀ x ∈ ds, isDigitB x = true) (hs : isWS s = true) :
    nextToken cls tb inp ((d :: ds) ++ s :: rest) = .ok ({ ty := tb.ttNumber, value := d :: ds }, s :: rest) := by
  have hd128 := digit_lt d hd
  have hdig : ∀ x : UInt8, isDigitB x = true → isDigitR x.toNat = true := by
    intro x hx; simpa [isDigitB, isDigitR] using hx
  have hsnd : isDigitR s.toNat = false := by
    simp only [isWS, Bool.or_eq_true, beq_iff_eq] at hs
    rcases hs with ((h | h) | h) | h <;> (subst h; decide)
  have hdrop : dropRunes isDigitR ((d :: ds) ++ s :: rest) = s :: rest :=
    dropRunes_run _ (d :: ds) s rest (fun x hx => by
      rcases List.mem_cons.1 hx with h | h
      · subst h; exact ⟨hd128, hdig _ hd⟩
      · exact ⟨digit_lt x (hds x h), hdig x (hds x h)⟩) ⟨ws_lt s hs, hsnd⟩
  have hnotstart : isIdentStart cls d.toNat = false := by
    have h95 : (d.toNat == 95) = false := by
      simp only [isDigitB, Bool.and_eq_true, decide_eq_true_eq] at hd
      simp; omega
    simp [isIdentStart, isLetterR, hA.digitNotLetter d hd, h95]
  have hs46 : s ≠ 46 := by
    simp only [isWS, Bool.or_eq_true, beq_iff_eq] at hs
    rcases hs with ((h | h) | h) | h <;> (subst h; decide)
  have hse : (s == 101 || s == 69) = false := by
    simp only [isWS, Bool.or_eq_true, beq_iff_eq] at hs
    rcases hs with ((h | h) | h) | h <;> (subst h; decide)
  have hfrac : numFrac inp (s :: rest) = .ok (s :: rest) := by
    unfold numFrac
    split
    · rename_i r2 heq
      injection heq with h1 _
      exact absurd h1 hs46
    · rfl
  have hexp : numExp inp (s :: rest) = .ok (s :: rest) := by
    simp [numExp, hse]
  have hcons : consumed ((d :: ds) ++ s :: rest) (s :: rest) = d :: ds := consumed_append (d :: ds) (s :: rest)
  simp only [nextToken, List.cons_append, decodeRune_ascii d _ hd128, hnotstart, Bool.false_eq_true, if_false, hdig d hd, if_true]
  have hdrop' : dropRunes isDigitR (d :: (ds ++ s :: rest)) = s :: rest := by simpa using hdrop
  have hcons' : consumed (d :: (ds ++ s :: rest)) (s :: rest) = d :: ds := by simpa using hcons
  simp [readNumber, hdrop', hfrac, hexp, hcons']

theorem lookup_punct (tb : Tables) (p : UInt8) (ty : Nat) (h : PunctOK tb p ty) : lookup tb.operators [p] = some ty := by
  unfold lookup
  cases hf : tb.operators.find? (·.1 == [p]) with
  | none =>
    have := List.find?_eq_none.1 hf ([p], ty) h.1
    simp at this
  | some e =>
    have hm := List.mem_of_find?_eq_some hf
    have he := List.find?_some hf
    have he1 : e.1 = [p] := by simpa using he
    have := h.2 e hm (by rw [he1]; rfl)
    rw [this]; rfl

theorem longestOp_punct (tb : Tables) (p : UInt8) (ty : Nat) (h : PunctOK tb p ty) (rest : Bytes) :
    longestOp tb.operators (p :: rest) = some ([p], ty) := by
  have sp := longestOp_spec tb.operators (p :: rest)
  cases hl : longestOp tb.operators (p :: rest) with
  | none =>
    rw [hl] at sp
    have := sp ([p], ty) h.1 (by simp [List.isPrefixOf])
    simp at this
  | some o =>
    rw [hl] at sp
    obtain ⟨hm, hp, hne, _⟩ := sp
    have hh : o.1.head? = some p := by
      cases ho : o.1 with
      | nil => exact absurd ho hne
      | cons a tl =>
        rw [ho] at hp
        simp only [List.isPrefixOf, Bool.and_eq_true, beq_iff_eq] at hp
        simp [hp.1]
    rw [h.2 o hm hh]

/-- one of `( ) , ;` is read as itself, whatever follows -/
theorem nextToken_punct (cls : CharClass) (tb : Tables) (inp : Bytes) (hA : AsciiOK cls) (p : UInt8) (ty : Nat) (rest : Bytes)
    (hp : isPunctB p = true) (hT : PunctOK tb p ty) :
    nextToken cls tb inp (p :: rest) = .ok ({ ty := ty, value := [p] }, rest) := by
  have h128 := punct_lt p hp
  have hcases : p = 40 ∨ p = 41 ∨ p = 44 ∨ p = 59 := by
    simp only [isPunctB, Bool.or_eq_true, beq_iff_eq] at hp
    rcases hp with ((h | h) | h) | h <;> simp [h]
  have hdig : isDigitR p.toNat = false := by rcases hcases with h | h | h | h <;> (subst h; decide)
  have hq1 : (p.toNat == 34 || p.toNat == 0x201C || p.toNat == 0x201D) = false := by
    rcases hcases with h | h | h | h <;> (subst h; decide)
  have hq2 : (p.toNat == 96) = false := by rcases hcases with h | h | h | h <;> (subst h; decide)
  have hq3 : isStringQuoteStart p.toNat = false := by rcases hcases with h | h | h | h <;> (subst h; decide)
  have h36 : (p == 36) = false := by rcases hcases with h | h | h | h <;> (subst h; decide)
  have h64 : (p == 64) = false := by rcases hcases with h | h | h | h <;> (subst h; decide)
  simp only [nextToken, decodeRune_ascii p _ h128, hA.punct p hp, Bool.false_eq_true, if_false, hdig, hq1, hq2, hq3]
  simp [readPunctuation, h36, h64, longestOp_punct tb p ty hT rest]

/-! ## blanks -/
theorem dropWhile_ws (ws : Bytes) (hws : ∀ x ∈ ws, isWS x = true) (b : UInt8) (rest : Bytes) (hb : isWS b = false) :
    (ws ++ b :: rest).dropWhile isWS = b :: rest := by
  induction ws with
  | nil => simp [List.dropWhile, hb]
  | cons w ws ih =>
    simp only [List.cons_append, List.dropWhile, hws w (by simp)]
    exact ih (fun x hx => hws x (by simp [hx]))

theorem dropWhile_ws_all (ws : Bytes) (hws : ∀ x ∈ ws, isWS x = true) : ws.dropWhile isWS = [] := by
  induction ws with
  | nil => rfl
  | cons w ws ih =>
    simp only [List.dropWhile, hws w (by simp)]
    exact ih (fun x hx => hws x (by simp [hx]))

/-- blanks before a byte that is neither blank nor the start of a comment are skipped, and nothing else -/
theorem skipTriviaF_blanks (inp : Bytes) (fuel : Nat) (ws : Bytes) (hws : ∀ x ∈ ws, isWS x = true) (b : UInt8) (rest : Bytes)
    (hb : isWS b = false) (h45 : (b == 45) = false) (h47 : (b == 47) = false) (cs : List Comment) :
    skipTriviaF inp fuel (ws ++ b :: rest) cs = (b :: rest, cs) := by
  cases fuel with
  | zero => simp [skipTriviaF, dropWhile_ws ws hws b rest hb]
  | succ f =>
    simp only [skipTriviaF, dropWhile_ws ws hws b rest hb]
    cases rest with
    | nil => rfl
    | cons c rest' => simp [h45, h47]

theorem skipTriviaF_end (inp : Bytes) (fuel : Nat) (ws : Bytes) (hws : ∀ x ∈ ws, isWS x = true) (cs : List Comment) :
    skipTriviaF inp fuel ws cs = ([], cs) := by
  cases fuel with
  | zero => simp [skipTriviaF, dropWhile_ws_all ws hws]
  | succ f => simp [skipTriviaF, dropWhile_ws_all ws hws]

/-! ## the sequence -/
/-- an item: a lexeme and the blank run after it -/
abbrev Item := Lexeme × Bytes

def flat : List Item → Bytes
  | [] => []
  | it :: rest => it.1.bytes ++ (it.2 ++ flat rest)

def ItemOK (cls : CharClass) (tb : Tables) (it : Item) : Prop :=
  it.1.ok cls tb ∧ it.2 ≠ [] ∧ ∀ x ∈ it.2, isWS x = true

theorem wordStart_notWS (b : UInt8) (h : isWordStartB b = true) : isWS b = false ∧ (b == 45) = false ∧ (b == 47) = false := by
  simp only [isWordStartB, isLetterB, Bool.or_eq_true, Bool.and_eq_true, decide_eq_true_eq, beq_iff_eq] at h
  have key : ∀ n : UInt8, (n = 32 ∨ n = 9 ∨ n = 13 ∨ n = 10 ∨ n = 45 ∨ n = 47) → ¬ ((65 ≤ n.toNat ∧ n.toNat ≤ 90) ∨ (97 ≤ n.toNat ∧ n.toNat ≤ 122) ∨ n = 95) := by
    intro n hn; rcases hn with h | h | h | h | h | h <;> (subst h; decide)
  have hb : ¬ (b = 32 ∨ b = 9 ∨ b = 13 ∨ b = 10 ∨ b = 45 ∨ b = 47) := by
    intro hn; apply key b hn
    rcases h with (h | h) | h
    · exact Or.inl h
    · exact Or.inr (Or.inl h)
    · exact Or.inr (Or.inr h)
  simp only [isWS, Bool.or_eq_false_iff, beq_eq_false_iff_ne]
  refine ⟨⟨⟨⟨?_, ?_⟩, ?_⟩, ?_⟩, ?_, ?_⟩ <;> (intro e; exact hb (by simp [e]))

theorem digit_notWS (b : UInt8) (h : isDigitB b = true) : isWS b = false ∧ (b == 45) = false ∧ (b == 47) = false := by
  simp only [isDigitB, Bool.and_eq_true, decide_eq_true_eq] at h
  have key : ∀ n : UInt8, (n = 32 ∨ n = 9 ∨ n = 13 ∨ n = 10 ∨ n = 45 ∨ n = 47) → ¬ (48 ≤ n.toNat ∧ n.toNat ≤ 57) := by
    intro n hn; rcases hn with h | h | h | h | h | h <;> (subst h; decide)
  have hb : ¬ (b = 32 ∨ b = 9 ∨ b = 13 ∨ b = 10 ∨ b = 45 ∨ b = 47) := fun hn => key b hn h
  simp only [isWS, Bool.or_eq_false_iff, beq_eq_false_iff_ne]
  refine ⟨⟨⟨⟨?_, ?_⟩, ?_⟩, ?_⟩, ?_, ?_⟩ <;> (intro e; exact hb (by simp [e]))

theorem punct_notWS (b : UInt8) (h : isPunctB b = true) : isWS b = false ∧ (b == 45) = false ∧ (b == 47) = false := by
  simp only [isPunctB, Bool.or_eq_true, beq_iff_eq] at h
  rcases h with ((h | h) | h) | h <;> (subst h; decide)

/-- what reading one item does: the lexeme's token, and the blank run left in front of the rest -/
theorem nextToken_item (cls : CharClass) (tb : Tables) (inp : Bytes) (hA : AsciiOK cls) (it : Item) (hok : ItemOK cls tb it)
    (rest : Bytes) :
    ∃ b tl t, it.1.bytes ++ (it.2 ++ rest) = b :: tl ∧ isWS b = false ∧ (b == 45) = false ∧ (b == 47) = false ∧
      nextToken cls tb inp (b :: tl) = .ok (t, it.2 ++ rest) ∧ t.key = it.1.key cls tb := by
  obtain ⟨l, sep⟩ := it
  obtain ⟨hl, hne, hws⟩ := hok
  cases sep with
  | nil => exact absurd rfl hne
  | cons s sep' =>
    have hs : isWS s = true := hws s (by simp)
    cases l with
    | word w =>
      obtain ⟨c, cs, rfl, hc, hcs, hcomp⟩ := hl
      obtain ⟨n1, n2, n3⟩ := wordStart_notWS c hc
      refine ⟨c, cs ++ (s :: sep' ++ rest), { ty := (lookup tb.keywords (upper cls (c :: cs))).getD tb.ttIdentifier, value := c :: cs }, by simp [Lexeme.bytes], n1, n2, n3, ?_, ?_⟩
      · have := nextToken_word cls tb inp hA c cs s (sep' ++ rest) hc hcs hs hcomp
        simpa [List.append_assoc] using this
      · rfl
    | int ds =>
      obtain ⟨hne', hds⟩ := hl
      cases ds with
      | nil => exact absurd rfl hne'
      | cons d ds' =>
        have hd := hds d (by simp)
        obtain ⟨n1, n2, n3⟩ := digit_notWS d hd
        refine ⟨d, ds' ++ (s :: sep' ++ rest), { ty := tb.ttNumber, value := d :: ds' }, by simp [Lexeme.bytes], n1, n2, n3, ?_, ?_⟩
        · have := nextToken_int cls tb inp hA d ds' s (sep' ++ rest) hd (fun x hx => hds x (by simp [hx])) hs
          simpa [List.append_assoc] using this
        · rfl
    | punct p =>
      obtain ⟨hp, ty, hT⟩ := hl
      obtain ⟨n1, n2, n3⟩ := punct_notWS p hp
      refine ⟨p, s :: sep' ++ rest, { ty := ty, value := [p] }, by simp [Lexeme.bytes], n1, n2, n3, nextToken_punct cls tb inp hA p ty _ hp hT, ?_⟩
      simp [Tok.key, Lexeme.key, lookup_punct tb p ty hT]

theorem lexLoop_spell (cls : CharClass) (tb : Tables) (inp : Bytes) (hA : AsciiOK cls) :
    ∀ (items : List Item) (fuel : Nat) (lead : Bytes) (acc : List Tok) (cs : List Comment),
      (∀ x ∈ lead, isWS x = true) → (∀ it ∈ items, ItemOK cls tb it) → items.length < fuel →
      acc.length + items.length ≤ tb.maxTokens →
      ∃ toks, lexLoop cls tb inp fuel (lead ++ flat items) acc cs = .ok toks cs ∧
        toks.map Tok.key = acc.reverse.map Tok.key ++ (items.map fun it => it.1.key cls tb) ++ [(0, [])] := by
  intro items
  induction items with
  | nil =>
    intro fuel lead acc cs hlead _ hf _
    cases fuel with
    | zero => simp at hf
    | succ f =>
      refine ⟨acc.reverse ++ [{ ty := 0, value := [], startOff := inp.length, endOff := inp.length }], ?_, ?_⟩
      · simp only [flat, List.append_nil, lexLoop, skipTriviaF_end inp _ lead hlead cs]
      · simp [Tok.key]
  | cons it items ih =>
    intro fuel lead acc cs hlead hok hf hmax
    cases fuel with
    | zero => simp at hf
    | succ f =>
      obtain ⟨b, tl, t, hbytes, n1, n2, n3, hnt, hkey⟩ := nextToken_item cls tb inp hA it (hok it (by simp)) (flat items)
      have hsk : skipTriviaF inp ((lead ++ flat (it :: items)).length + 1) (lead ++ flat (it :: items)) cs = (b :: tl, cs) := by
        have : lead ++ flat (it :: items) = lead ++ b :: tl := by simp only [flat]; rw [hbytes]
        rw [this]
        exact skipTriviaF_blanks inp _ lead hlead b tl n1 n2 n3 cs
      have hlim : ¬ (acc.length ≥ tb.maxTokens) := by simp only [List.length_cons] at hmax; omega
      obtain ⟨hitok, hsepne, hsepws⟩ := hok it (by simp)
      have := ih f it.2 ({ t with startOff := inp.length - (b :: tl).length, endOff := inp.length - (it.2 ++ flat items).length } :: acc) cs
        hsepws (fun x hx => hok x (by simp [hx])) (by simp only [List.length_cons] at hf; omega)
        (by simp only [List.length_cons] at hmax ⊢; omega)
      obtain ⟨toks, h1, h2⟩ := this
      refine ⟨toks, ?_, ?_⟩
      · simp only [lexLoop, hsk, hlim, if_false, hnt]
        exact h1
      · rw [h2]
        simp [Tok.key, ← hkey]

theorem flat_length (cls : CharClass) (tb : Tables) : ∀ items : List Item, (∀ it ∈ items, ItemOK cls tb it) → items.length ≤ (flat items).length
  | [], _ => by simp [flat]
  | it :: rest, h => by
    have ih := flat_length cls tb rest (fun x hx => h x (by simp [hx]))
    obtain ⟨_, hne, _⟩ := h it (by simp)
    have : 1 ≤ it.2.length := by
      cases hs : it.2 with
      | nil => exact absurd hs hne
      | cons a b => simp
    simp only [flat, List.length_append, List.length_cons]
    omega

/-- **C04 (reference surface)**: lexemes separated by any non-empty blank runs are read as exactly those lexemes, then
    the end marker; no comments; whatever the blank runs are -/
theorem tokenize_spell (cls : CharClass) (tb : Tables) (hA : AsciiOK cls) (lead : Bytes) (items : List Item)
    (hlead : ∀ x ∈ lead, isWS x = true) (hok : ∀ it ∈ items, ItemOK cls tb it)
    (hsize : (lead ++ flat items).length ≤ tb.maxInput) (hcount : items.length ≤ tb.maxTokens) :
    ∃ toks, tokenize cls tb (lead ++ flat items) = .ok toks [] ∧
      toks.map Tok.key = (items.map fun it => it.1.key cls tb) ++ [(0, [])] := by
  have hnot : ¬ ((lead ++ flat items).length > tb.maxInput) := by omega
  have hlen := flat_length cls tb items hok
  obtain ⟨toks, h1, h2⟩ := lexLoop_spell cls tb (lead ++ flat items) hA items ((lead ++ flat items).length + 1) lead [] []
    hlead hok (by simp only [List.length_append]; omega) (by simpa using hcount)
  exact ⟨toks, by simp only [tokenize, hnot, if_false]; exact h1, by simpa using h2⟩

/-- layout independence on this surface: two inputs with the same lexemes and different blank runs give the same tokens -/
theorem tokenize_layout_independent (cls : CharClass) (tb : Tables) (hA : AsciiOK cls) (lead1 lead2 : Bytes) (items1 items2 : List Item)
    (hsame : items1.map (·.1.key cls tb) = items2.map (·.1.key cls tb))
    (hl1 : ∀ x ∈ lead1, isWS x = true) (hl2 : ∀ x ∈ lead2, isWS x = true)
    (hok1 : ∀ it ∈ items1, ItemOK cls tb it) (hok2 : ∀ it ∈ items2, ItemOK cls tb it)
    (hs1 : (lead1 ++ flat items1).length ≤ tb.maxInput) (hs2 : (lead2 ++ flat items2).length ≤ tb.maxInput)
    (hc1 : items1.length ≤ tb.maxTokens) (hc2 : items2.length ≤ tb.maxTokens) :
    ∃ t1 t2, tokenize cls tb (lead1 ++ flat items1) = .ok t1 [] ∧ tokenize cls tb (lead2 ++ flat items2) = .ok t2 [] ∧
      t1.map Tok.key = t2.map Tok.key := by
  obtain ⟨t1, a1, b1⟩ := tokenize_spell cls tb hA lead1 items1 hl1 hok1 hs1 hc1
  obtain ⟨t2, a2, b2⟩ := tokenize_spell cls tb hA lead2 items2 hl2 hok2 hs2 hc2
  exact ⟨t1, t2, a1, a2, by rw [b1, b2, hsame]⟩

end GoSQLXModel.Lex

namespace GoSQLXModel.Lex
/-! ## discharging the hypotheses by evaluation -/
theorem forall_uint8 {P : UInt8 → Prop} (h : ∀ n, n < 256 → P (UInt8.ofNat n)) : ∀ b, P b := by
  intro b
  have := h b.toNat b.toNat_lt
  simpa using this

/-- `AsciiOK` as a computation over the 256 byte values -/
def asciiOKb (cls : CharClass) : Bool :=
  (List.range 256).all fun n =>
    let b := UInt8.ofNat n
    (!isLetterB b || cls.isLetter (Char.ofNat b.toNat)) &&
    (!isDigitB b || (cls.isDigit (Char.ofNat b.toNat) && !cls.isLetter (Char.ofNat b.toNat))) &&
    (!isWS b || !isIdentChar cls b.toNat) &&
    (!isPunctB b || !isIdentStart cls b.toNat)

theorem asciiOK_of_bool (cls : CharClass) (h : asciiOKb cls = true) : AsciiOK cls := by
  have key : ∀ n, n < 256 →
      let b := UInt8.ofNat n
      ((!isLetterB b || cls.isLetter (Char.ofNat b.toNat)) &&
      (!isDigitB b || (cls.isDigit (Char.ofNat b.toNat) && !cls.isLetter (Char.ofNat b.toNat))) &&
      (!isWS b || !isIdentChar cls b.toNat) &&
      (!isPunctB b || !isIdentStart cls b.toNat)) = true := by
    intro n hn
    exact List.all_eq_true.1 h n (List.mem_range.2 hn)
  have all : ∀ b : UInt8,
      ((!isLetterB b || cls.isLetter (Char.ofNat b.toNat)) &&
      (!isDigitB b || (cls.isDigit (Char.ofNat b.toNat) && !cls.isLetter (Char.ofNat b.toNat))) &&
      (!isWS b || !isIdentChar cls b.toNat) &&
      (!isPunctB b || !isIdentStart cls b.toNat)) = true := forall_uint8 key
  refine ⟨?_, ?_, ?_, ?_, ?_⟩
  · intro b hb; have := all b; simp [hb] at this; exact this.1.1.1
  · intro b hb; have := all b; simp [hb] at this; exact this.1.1.2.1
  · intro b hb; have := all b; simp [hb] at this; exact this.1.1.2.2
  · intro b hb; have := all b; simp [hb] at this; exact this.1.2
  · intro b hb; have := all b; simp [hb] at this; exact this.2

/-- `∃ ty, PunctOK tb p ty` as a computation over the operator table -/
def punctOKb (tb : Tables) (p : UInt8) : Bool :=
  match lookup tb.operators [p] with
  | some ty => tb.operators.contains ([p], ty) && tb.operators.all fun o => o.1.head? != some p || o == ([p], ty)
  | none => false

theorem punctOK_of_bool (tb : Tables) (p : UInt8) (h : punctOKb tb p = true) : ∃ ty, PunctOK tb p ty := by
  unfold punctOKb at h
  cases hl : lookup tb.operators [p] with
  | none => simp [hl] at h
  | some ty =>
    simp only [hl, Bool.and_eq_true] at h
    refine ⟨ty, by simpa using h.1, ?_⟩
    intro o ho hh
    have := List.all_eq_true.1 h.2 o ho
    simpa [hh] using this

end GoSQLXModel.Lex
