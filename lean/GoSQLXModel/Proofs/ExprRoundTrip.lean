import GoSQLXModel.Model.ExprParse
/-!
# Every model expression, written with the parentheses precedence requires, parses back to itself

Reference grammar `G` (atoms, binary operators at their levels, NOT), `render k g` = the token list of `g` as an
operand of level `k` (parenthesised exactly when its own level is lower), `need k g` = the parser depth that reading it
costs.  `parse_render`: for every `g`, every continuation `X` that starts no operator, and enough room under the depth
limit, `pExpr (render 1 g ++ X) = ok g X` — precedence, left associativity, parentheses overriding, every written
operator and atom in the tree with its written spelling, nothing else.

Proof shape (one lemma per level in continuation-passing form, generic lifting between levels): DESIGN Appendix D.
-/
namespace GoSQLXModel.ExprParse

/-! ## "eventually": fuel-free statements -/
def Ev (P : Nat → Res) (r : Res) : Prop := ∃ f0, ∀ f, f0 ≤ f → P f = r

/-! ## reference grammar -/
inductive Op where | or | and | cmp | cat | plus | minus | star | div | mod
  deriving DecidableEq, Repr

def Op.tk : Op → TK
  | .or => .or | .and => .and | .cmp => .cmp | .cat => .cat | .plus => .plus | .minus => .minus
  | .star => .star | .div => .div | .mod => .mod

def Op.prec : Op → Nat
  | .or => 1 | .and => 2 | .cmp => 4 | .cat => 5 | .plus => 6 | .minus => 6 | .star => 7 | .div => 7 | .mod => 7

inductive Atom where | ident (n : String) | num (v : String) | str (v : String) | bool (v : String) | null (lit : String)
  deriving DecidableEq, Repr

def Atom.tok : Atom → PTok
  | .ident n => ⟨.ident, n⟩ | .num v => ⟨.num, v⟩ | .str v => ⟨.str, v⟩ | .bool v => ⟨.bool, v⟩ | .null l => ⟨.null, l⟩
def Atom.ex : Atom → Ex
  | .ident n => .ident n | .num v => .num v | .str v => .str v | .bool v => .bool v | .null _ => .null

inductive G where
  | atom (a : Atom)
  | bin (op : Op) (lit : String) (l r : G)
  | not (lit : String) (e : G)

def G.toEx : G → Ex
  | .atom a => a.ex
  | .bin _ lit l r => .bin lit l.toEx r.toEx
  | .not _ e => .not e.toEx

def G.prec : G → Nat
  | .atom _ => 8
  | .bin op _ _ _ => op.prec
  | .not _ _ => 3

/-- operand levels of a binary operator: (left, right) -/
def Op.sides : Op → Nat × Nat
  | .or => (1, 2) | .and => (2, 3) | .cmp => (5, 5) | .cat => (5, 6)
  | .plus => (6, 7) | .minus => (6, 7) | .star => (7, 8) | .div => (7, 8) | .mod => (7, 8)

def lp : PTok := ⟨.lparen, "("⟩
def rp : PTok := ⟨.rparen, ")"⟩

def render : Nat → G → List PTok
  | _, .atom a => [a.tok]
  | k, .bin op lit l r =>
    let b := render op.sides.1 l ++ ⟨op.tk, lit⟩ :: render op.sides.2 r
    if op.prec < k then lp :: (b ++ [rp]) else b
  | k, .not lit e =>
    let b := ⟨.not, lit⟩ :: render 3 e
    if 3 < k then lp :: (b ++ [rp]) else b

/-- parser depth consumed by reading `render k g` -/
def need : Nat → G → Nat
  | _, .atom _ => 0
  | k, .bin op _ l r =>
    let b := max (need op.sides.1 l) (need op.sides.2 r)
    if op.prec < k then b + 1 else b
  | k, .not _ e =>
    let b := need 3 e + 1
    if 3 < k then b + 1 else b

/-! ## one unfolding lemma per branch -/
theorem ev_pExpr {d ts R} (hd : d + 1 ≤ maxDepth) (h : Ev (fun f => pOr f (d + 1) ts) R) : Ev (fun f => pExpr f d ts) R := by
  obtain ⟨a, ha⟩ := h
  refine ⟨a + 1, fun f hf => ?_⟩
  obtain ⟨g, rfl⟩ : ∃ g, f = g + 1 := ⟨f - 1, by omega⟩
  have : ¬ (d + 1 > maxDepth) := by omega
  simp only [pExpr, this, if_false, ha g (by omega)]

theorem ev_pOr {d ts l r R} (h1 : Ev (fun f => pAnd f d ts) (.ok l r)) (h2 : Ev (fun f => lOr f d l r) R) :
    Ev (fun f => pOr f d ts) R := by
  obtain ⟨a, ha⟩ := h1; obtain ⟨b, hb⟩ := h2
  refine ⟨max a b + 1, fun f hf => ?_⟩
  obtain ⟨g, rfl⟩ : ∃ g, f = g + 1 := ⟨f - 1, by omega⟩
  simp only [pOr, ha g (by omega), hb g (by omega)]
theorem ev_lOr_step {d l lit ts r rest R} (h1 : Ev (fun f => pAnd f d ts) (.ok r rest))
    (h2 : Ev (fun f => lOr f d (.bin lit l r) rest) R) : Ev (fun f => lOr f d l (⟨.or, lit⟩ :: ts)) R := by
  obtain ⟨a, ha⟩ := h1; obtain ⟨b, hb⟩ := h2
  refine ⟨max a b + 1, fun f hf => ?_⟩
  obtain ⟨g, rfl⟩ : ∃ g, f = g + 1 := ⟨f - 1, by omega⟩
  simp only [lOr, ha g (by omega), hb g (by omega)]

/-- the head of `X` is not of class `k` -/
def HeadNot (X : List PTok) (k : TK) : Prop := ∀ t rest, X = t :: rest → t.k ≠ k

theorem ev_lOr_stop {d l ts} (h : HeadNot ts .or) : Ev (fun f => lOr f d l ts) (.ok l ts) := by
  refine ⟨1, fun f hf => ?_⟩
  obtain ⟨g, rfl⟩ : ∃ g, f = g + 1 := ⟨f - 1, by omega⟩
  cases ts with
  | nil => simp [lOr]
  | cons t ts' =>
    obtain ⟨k, lit⟩ := t
    have hk : k ≠ .or := h _ _ rfl
    cases k <;> simp_all [lOr]

theorem ev_pAnd {d ts l r R} (h1 : Ev (fun f => pCmp f d ts) (.ok l r)) (h2 : Ev (fun f => lAnd f d l r) R) :
    Ev (fun f => pAnd f d ts) R := by
  obtain ⟨a, ha⟩ := h1; obtain ⟨b, hb⟩ := h2
  refine ⟨max a b + 1, fun f hf => ?_⟩
  obtain ⟨g, rfl⟩ : ∃ g, f = g + 1 := ⟨f - 1, by omega⟩
  simp only [pAnd, ha g (by omega), hb g (by omega)]
theorem ev_lAnd_step {d l lit ts r rest R} (h1 : Ev (fun f => pCmp f d ts) (.ok r rest))
    (h2 : Ev (fun f => lAnd f d (.bin lit l r) rest) R) : Ev (fun f => lAnd f d l (⟨.and, lit⟩ :: ts)) R := by
  obtain ⟨a, ha⟩ := h1; obtain ⟨b, hb⟩ := h2
  refine ⟨max a b + 1, fun f hf => ?_⟩
  obtain ⟨g, rfl⟩ : ∃ g, f = g + 1 := ⟨f - 1, by omega⟩
  simp only [lAnd, ha g (by omega), hb g (by omega)]
theorem ev_lAnd_stop {d l ts} (h : HeadNot ts .and) : Ev (fun f => lAnd f d l ts) (.ok l ts) := by
  refine ⟨1, fun f hf => ?_⟩
  obtain ⟨g, rfl⟩ : ∃ g, f = g + 1 := ⟨f - 1, by omega⟩
  cases ts with
  | nil => simp [lAnd]
  | cons t ts' =>
    obtain ⟨k, lit⟩ := t
    have hk : k ≠ .and := h _ _ rfl
    cases k <;> simp_all [lAnd]

theorem ev_pCmp_cmp {d ts l lit ts' r rest} (h1 : Ev (fun f => pCat f d ts) (.ok l (⟨.cmp, lit⟩ :: ts')))
    (h2 : Ev (fun f => pCat f d ts') (.ok r rest)) : Ev (fun f => pCmp f d ts) (.ok (.bin lit l r) rest) := by
  obtain ⟨a, ha⟩ := h1; obtain ⟨b, hb⟩ := h2
  refine ⟨max a b + 1, fun f hf => ?_⟩
  obtain ⟨g, rfl⟩ : ∃ g, f = g + 1 := ⟨f - 1, by omega⟩
  simp only [pCmp, ha g (by omega), hb g (by omega)]

/-- the continuation neither is a comparison nor makes the real parser continue in an unmodelled way -/
def CmpStop (X : List PTok) : Prop :=
  HeadNot X .cmp ∧ HeadNot X .other ∧ HeadNot X .not ∧ HeadNot X .cont

theorem ev_pCmp_plain {d ts l rest} (h1 : Ev (fun f => pCat f d ts) (.ok l rest)) (h : CmpStop rest) :
    Ev (fun f => pCmp f d ts) (.ok l rest) := by
  obtain ⟨a, ha⟩ := h1
  refine ⟨a + 1, fun f hf => ?_⟩
  obtain ⟨g, rfl⟩ : ∃ g, f = g + 1 := ⟨f - 1, by omega⟩
  simp only [pCmp, ha g (by omega)]
  cases rest with
  | nil => rfl
  | cons t rest' =>
    obtain ⟨k, lit⟩ := t
    have hk1 : k ≠ .cmp := h.1 _ _ rfl
    have hk2 : k ≠ .other := h.2.1 _ _ rfl
    have hk3 : k ≠ .not := h.2.2.1 _ _ rfl
    have hk4 : k ≠ .cont := h.2.2.2 _ _ rfl
    cases k <;> simp_all [continuesUnmodelled]

theorem ev_pCat {d ts l r R} (h1 : Ev (fun f => pAdd f d ts) (.ok l r)) (h2 : Ev (fun f => lCat f d l r) R) :
    Ev (fun f => pCat f d ts) R := by
  obtain ⟨a, ha⟩ := h1; obtain ⟨b, hb⟩ := h2
  refine ⟨max a b + 1, fun f hf => ?_⟩
  obtain ⟨g, rfl⟩ : ∃ g, f = g + 1 := ⟨f - 1, by omega⟩
  simp only [pCat, ha g (by omega), hb g (by omega)]
theorem ev_lCat_step {d l lit ts r rest R} (h1 : Ev (fun f => pAdd f d ts) (.ok r rest))
    (h2 : Ev (fun f => lCat f d (.bin lit l r) rest) R) : Ev (fun f => lCat f d l (⟨.cat, lit⟩ :: ts)) R := by
  obtain ⟨a, ha⟩ := h1; obtain ⟨b, hb⟩ := h2
  refine ⟨max a b + 1, fun f hf => ?_⟩
  obtain ⟨g, rfl⟩ : ∃ g, f = g + 1 := ⟨f - 1, by omega⟩
  simp only [lCat, ha g (by omega), hb g (by omega)]
theorem ev_lCat_stop {d l ts} (h : HeadNot ts .cat) : Ev (fun f => lCat f d l ts) (.ok l ts) := by
  refine ⟨1, fun f hf => ?_⟩
  obtain ⟨g, rfl⟩ : ∃ g, f = g + 1 := ⟨f - 1, by omega⟩
  cases ts with
  | nil => simp [lCat]
  | cons t ts' =>
    obtain ⟨k, lit⟩ := t
    have hk : k ≠ .cat := h _ _ rfl
    cases k <;> simp_all [lCat]

theorem ev_pAdd {d ts l r R} (h1 : Ev (fun f => pMul f d ts) (.ok l r)) (h2 : Ev (fun f => lAdd f d l r) R) :
    Ev (fun f => pAdd f d ts) R := by
  obtain ⟨a, ha⟩ := h1; obtain ⟨b, hb⟩ := h2
  refine ⟨max a b + 1, fun f hf => ?_⟩
  obtain ⟨g, rfl⟩ : ∃ g, f = g + 1 := ⟨f - 1, by omega⟩
  simp only [pAdd, ha g (by omega), hb g (by omega)]
theorem ev_lAdd_plus {d l lit ts r rest R} (h1 : Ev (fun f => pMul f d ts) (.ok r rest))
    (h2 : Ev (fun f => lAdd f d (.bin lit l r) rest) R) : Ev (fun f => lAdd f d l (⟨.plus, lit⟩ :: ts)) R := by
  obtain ⟨a, ha⟩ := h1; obtain ⟨b, hb⟩ := h2
  refine ⟨max a b + 1, fun f hf => ?_⟩
  obtain ⟨g, rfl⟩ : ∃ g, f = g + 1 := ⟨f - 1, by omega⟩
  simp only [lAdd, ha g (by omega), hb g (by omega)]
theorem ev_lAdd_minus {d l lit ts r rest R} (h1 : Ev (fun f => pMul f d ts) (.ok r rest))
    (h2 : Ev (fun f => lAdd f d (.bin lit l r) rest) R) : Ev (fun f => lAdd f d l (⟨.minus, lit⟩ :: ts)) R := by
  obtain ⟨a, ha⟩ := h1; obtain ⟨b, hb⟩ := h2
  refine ⟨max a b + 1, fun f hf => ?_⟩
  obtain ⟨g, rfl⟩ : ∃ g, f = g + 1 := ⟨f - 1, by omega⟩
  simp only [lAdd, ha g (by omega), hb g (by omega)]
theorem ev_lAdd_stop {d l ts} (h1 : HeadNot ts .plus) (h2 : HeadNot ts .minus) : Ev (fun f => lAdd f d l ts) (.ok l ts) := by
  refine ⟨1, fun f hf => ?_⟩
  obtain ⟨g, rfl⟩ : ∃ g, f = g + 1 := ⟨f - 1, by omega⟩
  cases ts with
  | nil => simp [lAdd]
  | cons t ts' =>
    obtain ⟨k, lit⟩ := t
    have hk1 : k ≠ .plus := h1 _ _ rfl
    have hk2 : k ≠ .minus := h2 _ _ rfl
    cases k <;> simp_all [lAdd]

theorem ev_pMul {d ts l r R} (h1 : Ev (fun f => pPrim f d ts) (.ok l r)) (h2 : Ev (fun f => lMul f d l r) R) :
    Ev (fun f => pMul f d ts) R := by
  obtain ⟨a, ha⟩ := h1; obtain ⟨b, hb⟩ := h2
  refine ⟨max a b + 1, fun f hf => ?_⟩
  obtain ⟨g, rfl⟩ : ∃ g, f = g + 1 := ⟨f - 1, by omega⟩
  simp only [pMul, ha g (by omega), hb g (by omega)]

theorem ev_mulStep {d l lit ts r rest R} (hne : ts ≠ []) (h1 : Ev (fun f => pPrim f d ts) (.ok r rest))
    (h2 : Ev (fun f => lMul f d (.bin lit l r) rest) R) : Ev (fun f => mulStep f d l lit ts) R := by
  obtain ⟨a, ha⟩ := h1; obtain ⟨b, hb⟩ := h2
  refine ⟨max a b + 1, fun f hf => ?_⟩
  obtain ⟨g, rfl⟩ : ∃ g, f = g + 1 := ⟨f - 1, by omega⟩
  cases ts with
  | nil => exact absurd rfl hne
  | cons t ts' => simp only [mulStep, ha g (by omega), hb g (by omega)]

theorem ev_lMul_op {d l lit ts R} {k : TK} (hk : k = .star ∨ k = .div ∨ k = .mod)
    (h : Ev (fun f => mulStep f d l lit ts) R) : Ev (fun f => lMul f d l (⟨k, lit⟩ :: ts)) R := by
  obtain ⟨a, ha⟩ := h
  refine ⟨a + 1, fun f hf => ?_⟩
  obtain ⟨g, rfl⟩ : ∃ g, f = g + 1 := ⟨f - 1, by omega⟩
  rcases hk with rfl | rfl | rfl <;> simp only [lMul, ha g (by omega)]

theorem ev_lMul_stop {d l ts} (h1 : HeadNot ts .star) (h2 : HeadNot ts .div) (h3 : HeadNot ts .mod) :
    Ev (fun f => lMul f d l ts) (.ok l ts) := by
  refine ⟨1, fun f hf => ?_⟩
  obtain ⟨g, rfl⟩ : ∃ g, f = g + 1 := ⟨f - 1, by omega⟩
  cases ts with
  | nil => simp [lMul]
  | cons t ts' =>
    obtain ⟨k, lit⟩ := t
    have hk1 : k ≠ .star := h1 _ _ rfl
    have hk2 : k ≠ .div := h2 _ _ rfl
    have hk3 : k ≠ .mod := h3 _ _ rfl
    cases k <;> simp_all [lMul]

/-- the continuation does not extend a primary -/
def PrimStop (X : List PTok) : Prop := HeadNot X .cont ∧ HeadNot X .lparen

theorem afterPrimary_ok {e : Ex} {X : List PTok} (h : HeadNot X .cont) : afterPrimary e X = .ok e X := by
  cases X with
  | nil => rfl
  | cons t X' =>
    obtain ⟨k, lit⟩ := t
    have hk : k ≠ .cont := h _ _ rfl
    cases k <;> simp_all [afterPrimary]

theorem ev_pPrim_atom {d : Nat} {a : Atom} {X : List PTok} (h : PrimStop X) :
    Ev (fun f => pPrim f d (a.tok :: X)) (.ok a.ex X) := by
  refine ⟨1, fun f hf => ?_⟩
  obtain ⟨g, rfl⟩ : ∃ g, f = g + 1 := ⟨f - 1, by omega⟩
  cases a with
  | ident n =>
    simp only [Atom.tok, Atom.ex]
    cases X with
    | nil => simp [pPrim, afterPrimary]
    | cons t X' =>
      obtain ⟨k, lit⟩ := t
      have hk1 : k ≠ .cont := h.1 _ _ rfl
      have hk2 : k ≠ .lparen := h.2 _ _ rfl
      cases k <;> simp_all [pPrim, afterPrimary]
  | num v => simp only [pPrim, Atom.tok, Atom.ex]; exact afterPrimary_ok h.1
  | str v => simp only [pPrim, Atom.tok, Atom.ex]; exact afterPrimary_ok h.1
  | bool v => simp only [pPrim, Atom.tok, Atom.ex]; exact afterPrimary_ok h.1
  | null l => simp only [pPrim, Atom.tok, Atom.ex]; exact afterPrimary_ok h.1

theorem ev_pPrim_paren {d ts e rest} (hh : HeadNot ts .other) (h1 : Ev (fun f => pExpr f d ts) (.ok e (rp :: rest)))
    (hs : HeadNot rest .cont) : Ev (fun f => pPrim f d (lp :: ts)) (.ok e rest) := by
  obtain ⟨a, ha⟩ := h1
  refine ⟨a + 1, fun f hf => ?_⟩
  obtain ⟨g, rfl⟩ : ∃ g, f = g + 1 := ⟨f - 1, by omega⟩
  have hp := ha g (by omega)
  cases ts with
  | nil => simp only [pPrim, lp, hp, rp]; exact afterPrimary_ok hs
  | cons t ts' =>
    obtain ⟨k, lit⟩ := t
    have hk : k ≠ .other := hh _ _ rfl
    cases k <;> first | exact absurd rfl hk | (simp only [pPrim, lp, hp, rp]; exact afterPrimary_ok hs)

theorem ev_pPrim_not {d lit ts e rest} (hh : HeadNot ts .other) (hd : d + 1 ≤ maxDepth)
    (h1 : Ev (fun f => pCmp f (d + 1) ts) (.ok e rest)) : Ev (fun f => pPrim f d (⟨.not, lit⟩ :: ts)) (.ok (.not e) rest) := by
  obtain ⟨a, ha⟩ := h1
  refine ⟨a + 1, fun f hf => ?_⟩
  obtain ⟨g, rfl⟩ : ∃ g, f = g + 1 := ⟨f - 1, by omega⟩
  have hp := ha g (by omega)
  have hd' : ¬ (d + 1 > maxDepth) := by omega
  cases ts with
  | nil => simp only [pPrim, hd', if_false, hp]
  | cons t ts' =>
    obtain ⟨k, lit⟩ := t
    have hk : k ≠ .other := hh _ _ rfl
    cases k <;> first | exact absurd rfl hk | simp only [pPrim, hd', if_false, hp]

/-! ## continuation predicates -/
theorem headNot_cons {t : PTok} {rest : List PTok} {k : TK} (h : t.k ≠ k) : HeadNot (t :: rest) k := by
  intro t' rest' e; injection e with e1 _; subst e1; exact h
theorem headNot_nil {k : TK} : HeadNot [] k := by intro t rest e; cases e

def N7 (X : List PTok) : Prop := HeadNot X .star ∧ HeadNot X .div ∧ HeadNot X .mod
def N6 (X : List PTok) : Prop := N7 X ∧ HeadNot X .plus ∧ HeadNot X .minus
def N5 (X : List PTok) : Prop := N6 X ∧ HeadNot X .cat
def N4 (X : List PTok) : Prop := N5 X ∧ CmpStop X
def N2 (X : List PTok) : Prop := N4 X ∧ HeadNot X .and
def N1 (X : List PTok) : Prop := N2 X ∧ HeadNot X .or

/-- every class-test on a continuation that starts with a token of known class -/
theorem classes_of_cons (t : PTok) (rest : List PTok) :
    (t.k ≠ .cont → t.k ≠ .lparen → PrimStop (t :: rest)) ∧
    (t.k ≠ .star → t.k ≠ .div → t.k ≠ .mod → N7 (t :: rest)) :=
  ⟨fun a b => ⟨headNot_cons a, headNot_cons b⟩, fun a b c => ⟨headNot_cons a, headNot_cons b, headNot_cons c⟩⟩

/-! ## render and need at the levels below / above the tree's own level -/
theorem render_low (g : G) {k : Nat} (h : k ≤ g.prec) : render k g = render 1 g := by
  cases g with
  | atom a => simp [render]
  | bin op lit l r =>
    have h1 : ¬ (op.prec < k) := by simp only [G.prec] at h; omega
    have h2 : ¬ (op.prec < 1) := by cases op <;> simp [Op.prec]
    simp only [render, h1, h2, if_false]
  | not lit e =>
    have h1 : ¬ (3 < k) := by simp only [G.prec] at h; omega
    simp only [render, h1, if_false]; simp
theorem render_high (g : G) {k : Nat} (h : g.prec < k) (hk : k ≤ 8) : render k g = lp :: (render 1 g ++ [rp]) := by
  cases g with
  | atom a => simp only [G.prec] at h; omega
  | bin op lit l r =>
    have h1 : op.prec < k := by simpa only [G.prec] using h
    have h2 : ¬ (op.prec < 1) := by cases op <;> simp [Op.prec]
    simp only [render, h1, h2, if_true, if_false]
  | not lit e =>
    have h1 : 3 < k := by simpa only [G.prec] using h
    simp only [render, h1, if_true]; simp

theorem need_low (g : G) {k : Nat} (h : k ≤ g.prec) : need k g = need 1 g := by
  cases g with
  | atom a => simp [need]
  | bin op lit l r =>
    have h1 : ¬ (op.prec < k) := by simp only [G.prec] at h; omega
    have h2 : ¬ (op.prec < 1) := by cases op <;> simp [Op.prec]
    simp only [need, h1, h2, if_false]
  | not lit e =>
    have h1 : ¬ (3 < k) := by simp only [G.prec] at h; omega
    simp only [need, h1, if_false]; simp
theorem need_high (g : G) {k : Nat} (h : g.prec < k) (hk : k ≤ 8) : need k g = need 1 g + 1 := by
  cases g with
  | atom a => simp only [G.prec] at h; omega
  | bin op lit l r =>
    have h1 : op.prec < k := by simpa only [G.prec] using h
    have h2 : ¬ (op.prec < 1) := by cases op <;> simp [Op.prec]
    simp only [need, h1, h2, if_true, if_false]
  | not lit e =>
    have h1 : 3 < k := by simpa only [G.prec] using h
    simp only [need, h1, if_true]; simp

/-- two levels on the same side of the tree's own level render (and cost) alike -/
theorem req {g : G} {a b : Nat} (ha : a ≤ 8) (hb : b ≤ 8)
    (h : (a ≤ g.prec ∧ b ≤ g.prec) ∨ (g.prec < a ∧ g.prec < b)) : render a g = render b g ∧ need a g = need b g := by
  rcases h with ⟨h1, h2⟩ | ⟨h1, h2⟩
  · rw [render_low g h1, render_low g h2, need_low g h1, need_low g h2]; exact ⟨rfl, rfl⟩
  · rw [render_high g h1 ha, render_high g h2 hb, need_high g h1 ha, need_high g h2 hb]; exact ⟨rfl, rfl⟩

/-- a rendered tree never starts with a token of class `other`, `cont` … (it starts with an atom, `(` or NOT) -/
theorem render_head (k : Nat) (g : G) (X : List PTok) :
    ∃ t rest, render k g ++ X = t :: rest ∧ (t.k = .ident ∨ t.k = .num ∨ t.k = .str ∨ t.k = .bool ∨ t.k = .null ∨ t.k = .lparen ∨ t.k = .not) := by
  induction g generalizing k X with
  | atom a => exact ⟨a.tok, X, by simp [render], by cases a <;> simp [Atom.tok]⟩
  | bin op lit l r ihl ihr =>
    simp only [render]
    split
    · exact ⟨lp, _, rfl, by simp [lp]⟩
    · obtain ⟨t, rest, e, ht⟩ := ihl op.sides.1 (⟨op.tk, lit⟩ :: render op.sides.2 r ++ X)
      exact ⟨t, rest, by simpa [List.append_assoc] using e, ht⟩
  | not lit e ih =>
    simp only [render]
    split
    · exact ⟨lp, _, rfl, by simp [lp]⟩
    · exact ⟨⟨.not, lit⟩, _, rfl, by simp⟩

theorem render_head_not_other (k : Nat) (g : G) (X : List PTok) : HeadNot (render k g ++ X) .other := by
  obtain ⟨t, rest, e, ht⟩ := render_head k g X
  intro t' rest' e'
  rw [e] at e'; injection e' with e1 _; subst e1
  rcases ht with h | h | h | h | h | h | h <;> simp [h]

theorem render_ne_nil (k : Nat) (g : G) (X : List PTok) : render k g ++ X ≠ [] := by
  obtain ⟨t, rest, e, _⟩ := render_head k g X
  rw [e]; simp

/-! ## the level lemmas, in continuation-passing form -/
structure Lem (g : G) : Prop where
  P8 : ∀ d X, need 8 g + d ≤ maxDepth → PrimStop X → Ev (fun f => pPrim f d (render 8 g ++ X)) (.ok g.toEx X)
  M7 : ∀ d X R, need 7 g + d ≤ maxDepth → PrimStop X → Ev (fun f => lMul f d g.toEx X) R →
        Ev (fun f => pMul f d (render 7 g ++ X)) R
  A6 : ∀ d X R, need 6 g + d ≤ maxDepth → PrimStop X → N7 X → Ev (fun f => lAdd f d g.toEx X) R →
        Ev (fun f => pAdd f d (render 6 g ++ X)) R
  K5 : ∀ d X R, need 5 g + d ≤ maxDepth → PrimStop X → N6 X → Ev (fun f => lCat f d g.toEx X) R →
        Ev (fun f => pCat f d (render 5 g ++ X)) R
  C4 : ∀ d X, need 4 g + d ≤ maxDepth → PrimStop X → N4 X → Ev (fun f => pCmp f d (render 4 g ++ X)) (.ok g.toEx X)
  C3 : ∀ d X, need 3 g + d ≤ maxDepth → PrimStop X → N4 X → Ev (fun f => pCmp f d (render 3 g ++ X)) (.ok g.toEx X)
  A2 : ∀ d X R, need 2 g + d ≤ maxDepth → PrimStop X → N4 X → Ev (fun f => lAnd f d g.toEx X) R →
        Ev (fun f => pAnd f d (render 2 g ++ X)) R
  A1 : ∀ d X R, need 1 g + d ≤ maxDepth → PrimStop X → N2 X → Ev (fun f => lOr f d g.toEx X) R →
        Ev (fun f => pOr f d (render 1 g ++ X)) R

abbrev P8T (g : G) := ∀ d X, need 8 g + d ≤ maxDepth → PrimStop X → Ev (fun f => pPrim f d (render 8 g ++ X)) (.ok g.toEx X)
abbrev M7T (g : G) := ∀ d X R, need 7 g + d ≤ maxDepth → PrimStop X → Ev (fun f => lMul f d g.toEx X) R →
        Ev (fun f => pMul f d (render 7 g ++ X)) R
abbrev A6T (g : G) := ∀ d X R, need 6 g + d ≤ maxDepth → PrimStop X → N7 X → Ev (fun f => lAdd f d g.toEx X) R →
        Ev (fun f => pAdd f d (render 6 g ++ X)) R
abbrev K5T (g : G) := ∀ d X R, need 5 g + d ≤ maxDepth → PrimStop X → N6 X → Ev (fun f => lCat f d g.toEx X) R →
        Ev (fun f => pCat f d (render 5 g ++ X)) R
abbrev CT (k : Nat) (g : G) := ∀ d X, need k g + d ≤ maxDepth → PrimStop X → N4 X →
        Ev (fun f => pCmp f d (render k g ++ X)) (.ok g.toEx X)
abbrev A2T (g : G) := ∀ d X R, need 2 g + d ≤ maxDepth → PrimStop X → N4 X → Ev (fun f => lAnd f d g.toEx X) R →
        Ev (fun f => pAnd f d (render 2 g ++ X)) R
abbrev A1T (g : G) := ∀ d X R, need 1 g + d ≤ maxDepth → PrimStop X → N2 X → Ev (fun f => lOr f d g.toEx X) R →
        Ev (fun f => pOr f d (render 1 g ++ X)) R

/-! ### generic lifting between adjacent levels -/
theorem lift_M7 {g : G} (hr : render 7 g = render 8 g ∧ need 7 g = need 8 g) (P8 : P8T g) : M7T g := by
  intro d X R hd hp h
  rw [hr.1]; exact ev_pMul (P8 d X (by rw [← hr.2]; exact hd) hp) h

theorem lift_A6 {g : G} (hr : render 6 g = render 7 g ∧ need 6 g = need 7 g) (M7 : M7T g) : A6T g := by
  intro d X R hd hp hn h
  rw [hr.1]; exact ev_pAdd (M7 d X _ (by rw [← hr.2]; exact hd) hp (ev_lMul_stop hn.1 hn.2.1 hn.2.2)) h

theorem lift_K5 {g : G} (hr : render 5 g = render 6 g ∧ need 5 g = need 6 g) (A6 : A6T g) : K5T g := by
  intro d X R hd hp hn h
  rw [hr.1]; exact ev_pCat (A6 d X _ (by rw [← hr.2]; exact hd) hp hn.1 (ev_lAdd_stop hn.2.1 hn.2.2)) h

theorem lift_C {g : G} {k : Nat} (hr : render k g = render 5 g ∧ need k g = need 5 g) (K5 : K5T g) : CT k g := by
  intro d X hd hp hn
  rw [hr.1]
  exact ev_pCmp_plain (K5 d X _ (by rw [← hr.2]; exact hd) hp hn.1.1 (ev_lCat_stop hn.1.2)) hn.2

theorem lift_A2 {g : G} (hr : render 2 g = render 3 g ∧ need 2 g = need 3 g) (C3 : CT 3 g) : A2T g := by
  intro d X R hd hp hn h
  rw [hr.1]; exact ev_pAnd (C3 d X (by rw [← hr.2]; exact hd) hp hn) h

theorem lift_A1 {g : G} (hr : render 1 g = render 2 g ∧ need 1 g = need 2 g) (A2 : A2T g) : A1T g := by
  intro d X R hd hp hn h
  rw [hr.1]; exact ev_pOr (A2 d X _ (by rw [← hr.2]; exact hd) hp hn.1 (ev_lAnd_stop hn.2)) h

theorem rp_stops (X : List PTok) : PrimStop (rp :: X) ∧ N2 (rp :: X) ∧ HeadNot (rp :: X) .or := by
  have h : ∀ k : TK, k ≠ .rparen → HeadNot (rp :: X) k := fun k hk => headNot_cons (by simpa [rp] using fun e => hk e.symm)
  refine ⟨⟨h _ (by decide), h _ (by decide)⟩, ⟨⟨⟨⟨⟨h _ (by decide), h _ (by decide), h _ (by decide)⟩, h _ (by decide), h _ (by decide)⟩,
    h _ (by decide)⟩, ⟨h _ (by decide), h _ (by decide), h _ (by decide), h _ (by decide)⟩⟩, h _ (by decide)⟩, h _ (by decide)⟩

theorem paren_P8 {g : G} (hp : g.prec < 8) (A1 : A1T g) : P8T g := by
  intro d X hd hX
  rw [render_high g hp (Nat.le_refl _)]
  rw [need_high g hp (Nat.le_refl _)] at hd
  obtain ⟨s1, s2, s3⟩ := rp_stops X
  have h1 : Ev (fun f => pOr f (d + 1) (render 1 g ++ (rp :: X))) (.ok g.toEx (rp :: X)) :=
    A1 (d + 1) (rp :: X) _ (by omega) s1 s2 (ev_lOr_stop s3)
  have h2 : Ev (fun f => pExpr f d (render 1 g ++ (rp :: X))) (.ok g.toEx (rp :: X)) := ev_pExpr (by omega) h1
  have h3 := ev_pPrim_paren (render_head_not_other 1 g (rp :: X)) h2 hX.1
  simpa [List.append_assoc] using h3

/-! ### assembling all levels from the native one -/
theorem up_from_A1 {g : G} (hp : g.prec < 8) (A1 : A1T g) :
    P8T g ∧ (g.prec < 7 → M7T g) ∧ (g.prec < 6 → A6T g) ∧ (g.prec < 5 → K5T g) ∧ (g.prec < 4 → CT 4 g) ∧
    (g.prec < 3 → CT 3 g) ∧ (g.prec < 2 → A2T g) := by
  have P8 := paren_P8 hp A1
  have M7 : g.prec < 7 → M7T g := fun h => lift_M7 (req (by omega) (by omega) (Or.inr ⟨h, by omega⟩)) P8
  have A6 : g.prec < 6 → A6T g := fun h => lift_A6 (req (by omega) (by omega) (Or.inr ⟨h, by omega⟩)) (M7 (by omega))
  have K5 : g.prec < 5 → K5T g := fun h => lift_K5 (req (by omega) (by omega) (Or.inr ⟨h, by omega⟩)) (A6 (by omega))
  have C4 : g.prec < 4 → CT 4 g := fun h => lift_C (req (by omega) (by omega) (Or.inr ⟨h, by omega⟩)) (K5 (by omega))
  have C3 : g.prec < 3 → CT 3 g := fun h => lift_C (req (by omega) (by omega) (Or.inr ⟨h, by omega⟩)) (K5 (by omega))
  have A2 : g.prec < 2 → A2T g := fun h => lift_A2 (req (by omega) (by omega) (Or.inr ⟨h, by omega⟩)) (C3 (by omega))
  exact ⟨P8, M7, A6, K5, C4, C3, A2⟩

theorem down_A6 {g : G} (hp : 7 ≤ g.prec) (M7 : M7T g) : A6T g :=
  lift_A6 (req (by omega) (by omega) (Or.inl ⟨by omega, hp⟩)) M7
theorem down_K5 {g : G} (hp : 6 ≤ g.prec) (A6 : A6T g) : K5T g :=
  lift_K5 (req (by omega) (by omega) (Or.inl ⟨by omega, hp⟩)) A6
theorem down_C {g : G} (k : Nat) (hk : k ≤ 5) (hp : 5 ≤ g.prec) (K5 : K5T g) : CT k g :=
  lift_C (req (by omega) (by omega) (Or.inl ⟨by omega, hp⟩)) K5
theorem down_A2 {g : G} (hp : 3 ≤ g.prec) (C3 : CT 3 g) : A2T g :=
  lift_A2 (req (by omega) (by omega) (Or.inl ⟨by omega, hp⟩)) C3
theorem down_A1 {g : G} (hp : 2 ≤ g.prec) (A2 : A2T g) : A1T g :=
  lift_A1 (req (by omega) (by omega) (Or.inl ⟨by omega, hp⟩)) A2

macro "hnc" : tactic => `(tactic| exact headNot_cons (by simp))

theorem max_le_of {a b c d : Nat} (h : max a b + d ≤ c) : a + d ≤ c ∧ b + d ≤ c := by
  have := Nat.le_max_left a b; have := Nat.le_max_right a b; omega

theorem op_tk_ne (op : Op) : op.tk ≠ .cont ∧ op.tk ≠ .lparen ∧ op.tk ≠ .other ∧ op.tk ≠ .not := by
  cases op <;> simp [Op.tk]

theorem lem_mul (op : Op) (hop : op = .star ∨ op = .div ∨ op = .mod) (lit : String) (l r : G) (ihl : Lem l) (ihr : Lem r) :
    Lem (G.bin op lit l r) := by
  have hprec : op.prec = 7 := by rcases hop with rfl | rfl | rfl <;> rfl
  have hsides : op.sides = (7, 8) := by rcases hop with rfl | rfl | rfl <;> rfl
  have htk : op.tk = .star ∨ op.tk = .div ∨ op.tk = .mod := by rcases hop with rfl | rfl | rfl <;> simp [Op.tk]
  have hp7 : (G.bin op lit l r).prec = 7 := hprec
  have M7 : M7T (G.bin op lit l r) := by
    intro d X R hd hp h
    simp only [need, hsides, hprec, Nat.lt_irrefl, if_false] at hd
    obtain ⟨hdl, hdr⟩ := max_le_of hd
    have hr := ihr.P8 d X hdr hp
    have hstep : Ev (fun f => lMul f d l.toEx (⟨op.tk, lit⟩ :: (render 8 r ++ X))) R :=
      ev_lMul_op htk (ev_mulStep (render_ne_nil 8 r X) hr h)
    have := ihl.M7 d (⟨op.tk, lit⟩ :: (render 8 r ++ X)) R hdl
      ⟨headNot_cons (op_tk_ne op).1, headNot_cons (op_tk_ne op).2.1⟩ hstep
    simpa [render, hsides, hprec, G.toEx, List.append_assoc] using this
  have A6 := down_A6 (by omega) M7
  have K5 := down_K5 (by omega) A6
  have C4 := down_C 4 (by omega) (by omega) K5
  have C3 := down_C 3 (by omega) (by omega) K5
  have A2 := down_A2 (by omega) C3
  have A1 := down_A1 (by omega) A2
  obtain ⟨P8, _, _, _, _, _, _⟩ := up_from_A1 (by omega) A1
  exact ⟨P8, M7, A6, K5, C4, C3, A2, A1⟩

theorem lem_add (op : Op) (hop : op = .plus ∨ op = .minus) (lit : String) (l r : G) (ihl : Lem l) (ihr : Lem r) :
    Lem (G.bin op lit l r) := by
  have hprec : op.prec = 6 := by rcases hop with rfl | rfl <;> rfl
  have hsides : op.sides = (6, 7) := by rcases hop with rfl | rfl <;> rfl
  have htk : op.tk = .plus ∨ op.tk = .minus := by rcases hop with rfl | rfl <;> simp [Op.tk]
  have hp6 : (G.bin op lit l r).prec = 6 := hprec
  have hn7 : ∀ rest, N7 (⟨op.tk, lit⟩ :: rest) := by
    intro rest
    rcases htk with e | e <;> exact ⟨headNot_cons (by simp [e]), headNot_cons (by simp [e]), headNot_cons (by simp [e])⟩
  have A6 : A6T (G.bin op lit l r) := by
    intro d X R hd hp hn h
    simp only [need, hsides, hprec, Nat.lt_irrefl, if_false] at hd
    obtain ⟨hdl, hdr⟩ := max_le_of hd
    have hr := ihr.M7 d X _ hdr hp (ev_lMul_stop hn.1 hn.2.1 hn.2.2)
    have hstep : Ev (fun f => lAdd f d l.toEx (⟨op.tk, lit⟩ :: (render 7 r ++ X))) R := by
      rcases htk with e | e
      · rw [e]; exact ev_lAdd_plus hr h
      · rw [e]; exact ev_lAdd_minus hr h
    have := ihl.A6 d (⟨op.tk, lit⟩ :: (render 7 r ++ X)) R hdl
      ⟨headNot_cons (op_tk_ne op).1, headNot_cons (op_tk_ne op).2.1⟩ (hn7 _) hstep
    simpa [render, hsides, hprec, G.toEx, List.append_assoc] using this
  have K5 := down_K5 (by omega) A6
  have C4 := down_C 4 (by omega) (by omega) K5
  have C3 := down_C 3 (by omega) (by omega) K5
  have A2 := down_A2 (by omega) C3
  have A1 := down_A1 (by omega) A2
  obtain ⟨P8, M7, _, _, _, _, _⟩ := up_from_A1 (by omega) A1
  exact ⟨P8, M7 (by omega), A6, K5, C4, C3, A2, A1⟩

theorem lem (g : G) : Lem g := by
  induction g with
  | atom a =>
    have P8 : P8T (G.atom a) := by
      intro d X _ hp
      simpa [render, G.toEx] using (ev_pPrim_atom (d := d) (a := a) hp)
    have hp8 : (G.atom a).prec = 8 := rfl
    have M7 := lift_M7 (g := G.atom a) (req (by omega) (by omega) (Or.inl ⟨by omega, by omega⟩)) P8
    have A6 := down_A6 (by omega) M7
    have K5 := down_K5 (by omega) A6
    have C4 := down_C 4 (by omega) (by omega) K5
    have C3 := down_C 3 (by omega) (by omega) K5
    have A2 := down_A2 (by omega) C3
    have A1 := down_A1 (by omega) A2
    exact ⟨P8, M7, A6, K5, C4, C3, A2, A1⟩
  | not lit e ih =>
    have hp3 : (G.not lit e).prec = 3 := rfl
    have C3 : CT 3 (G.not lit e) := by
      intro d X hd hp hn
      have hrender : render 3 (G.not lit e) = ⟨.not, lit⟩ :: render 3 e := by simp [render]
      have hneed : need 3 (G.not lit e) = need 3 e + 1 := by simp [need]
      rw [hneed] at hd
      have hin := ih.C3 (d + 1) X (by omega) hp hn
      have hprim := ev_pPrim_not (lit := lit) (render_head_not_other 3 e X) (by unfold maxDepth at *; omega) hin
      have hmul := ev_pMul hprim (ev_lMul_stop hn.1.1.1.1 hn.1.1.1.2.1 hn.1.1.1.2.2)
      have hadd := ev_pAdd hmul (ev_lAdd_stop hn.1.1.2.1 hn.1.1.2.2)
      have hcat := ev_pCat hadd (ev_lCat_stop hn.1.2)
      have := ev_pCmp_plain hcat hn.2
      simpa [hrender, G.toEx] using this
    have A2 := down_A2 (by omega) C3
    have A1 := down_A1 (by omega) A2
    obtain ⟨P8, M7, A6, K5, C4, _, _⟩ := up_from_A1 (by omega) A1
    exact ⟨P8, M7 (by omega), A6 (by omega), K5 (by omega), C4 (by omega), C3, A2, A1⟩
  | bin op lit l r ihl ihr =>
    cases op with
    | star => exact lem_mul .star (by simp) lit l r ihl ihr
    | div => exact lem_mul .div (by simp) lit l r ihl ihr
    | mod => exact lem_mul .mod (by simp) lit l r ihl ihr
    | plus => exact lem_add .plus (by simp) lit l r ihl ihr
    | minus => exact lem_add .minus (by simp) lit l r ihl ihr
    | cat =>
      have hp5 : (G.bin .cat lit l r).prec = 5 := rfl
      have K5 : K5T (G.bin .cat lit l r) := by
        intro d X R hd hp hn h
        simp only [need, Op.sides, Op.prec, Nat.lt_irrefl, if_false] at hd
        obtain ⟨hdl, hdr⟩ := max_le_of hd
        have hr := ihr.A6 d X _ hdr hp hn.1 (ev_lAdd_stop hn.2.1 hn.2.2)
        have hstep := ev_lCat_step hr h
        have := ihl.K5 d (_ :: (render 6 r ++ X)) R hdl ⟨by hnc, by hnc⟩ ⟨⟨by hnc, by hnc, by hnc⟩, by hnc, by hnc⟩ hstep
        simpa [render, Op.sides, Op.tk, Op.prec, G.toEx, List.append_assoc] using this
      have C4 := down_C 4 (by omega) (by omega) K5
      have C3 := down_C 3 (by omega) (by omega) K5
      have A2 := down_A2 (by omega) C3
      have A1 := down_A1 (by omega) A2
      obtain ⟨P8, M7, A6, _, _, _, _⟩ := up_from_A1 (by omega) A1
      exact ⟨P8, M7 (by omega), A6 (by omega), K5, C4, C3, A2, A1⟩
    | cmp =>
      have hp4 : (G.bin .cmp lit l r).prec = 4 := rfl
      have C : ∀ k, k = 3 ∨ k = 4 → CT k (G.bin .cmp lit l r) := by
        intro k hk d X hd hp hn
        have hneed : need k (G.bin .cmp lit l r) = max (need 5 l) (need 5 r) := by
          rcases hk with rfl | rfl <;> simp [need, Op.sides, Op.prec]
        rw [hneed] at hd
        obtain ⟨hdl, hdr⟩ := max_le_of hd
        have h1 := ihl.K5 d (⟨.cmp, lit⟩ :: (render 5 r ++ X)) _ hdl ⟨by hnc, by hnc⟩
          ⟨⟨by hnc, by hnc, by hnc⟩, by hnc, by hnc⟩ (ev_lCat_stop (by hnc))
        have h2 := ihr.K5 d X _ hdr hp hn.1.1 (ev_lCat_stop hn.1.2)
        have := ev_pCmp_cmp h1 h2
        rcases hk with rfl | rfl <;> simpa [render, Op.sides, Op.tk, Op.prec, G.toEx, List.append_assoc] using this
      have C3 := C 3 (Or.inl rfl)
      have C4 := C 4 (Or.inr rfl)
      have A2 := down_A2 (by omega) C3
      have A1 := down_A1 (by omega) A2
      obtain ⟨P8, M7, A6, K5, _, _, _⟩ := up_from_A1 (by omega) A1
      exact ⟨P8, M7 (by omega), A6 (by omega), K5 (by omega), C4, C3, A2, A1⟩
    | and =>
      have hp2 : (G.bin .and lit l r).prec = 2 := rfl
      have A2 : A2T (G.bin .and lit l r) := by
        intro d X R hd hp hn h
        simp only [need, Op.sides, Op.prec, Nat.lt_irrefl, if_false] at hd
        obtain ⟨hdl, hdr⟩ := max_le_of hd
        have hr := ihr.C3 d X hdr hp hn
        have hstep := ev_lAnd_step hr h
        have := ihl.A2 d (_ :: (render 3 r ++ X)) R hdl ⟨by hnc, by hnc⟩
          ⟨⟨⟨⟨by hnc, by hnc, by hnc⟩, by hnc, by hnc⟩, by hnc⟩, ⟨by hnc, by hnc, by hnc, by hnc⟩⟩ hstep
        simpa [render, Op.sides, Op.tk, Op.prec, G.toEx, List.append_assoc] using this
      have A1 := down_A1 (by omega) A2
      obtain ⟨P8, M7, A6, K5, C4, C3, _⟩ := up_from_A1 (by omega) A1
      exact ⟨P8, M7 (by omega), A6 (by omega), K5 (by omega), C4 (by omega), C3 (by omega), A2, A1⟩
    | or =>
      have hp1 : (G.bin .or lit l r).prec = 1 := rfl
      have A1 : A1T (G.bin .or lit l r) := by
        intro d X R hd hp hn h
        simp only [need, Op.sides, Op.prec, Nat.lt_irrefl, if_false] at hd
        obtain ⟨hdl, hdr⟩ := max_le_of hd
        have hr := ihr.A2 d X _ hdr hp hn.1 (ev_lAnd_stop hn.2)
        have hstep := ev_lOr_step hr h
        have := ihl.A1 d (_ :: (render 2 r ++ X)) R hdl ⟨by hnc, by hnc⟩
          ⟨⟨⟨⟨⟨by hnc, by hnc, by hnc⟩, by hnc, by hnc⟩, by hnc⟩, ⟨by hnc, by hnc, by hnc, by hnc⟩⟩, by hnc⟩ hstep
        simpa [render, Op.sides, Op.tk, Op.prec, G.toEx, List.append_assoc] using this
      obtain ⟨P8, M7, A6, K5, C4, C3, A2⟩ := up_from_A1 (by omega) A1
      exact ⟨P8, M7 (by omega), A6 (by omega), K5 (by omega), C4 (by omega), C3 (by omega), A2 (by omega), A1⟩

/-- **C03 (expression ladder)**: every model expression, written with the parentheses precedence requires, parses back
    to itself — for every continuation that starts no operator and enough room under the depth limit -/
theorem parse_render (g : G) (X : List PTok) (hp : PrimStop X) (hn : N1 X) (hd : need 1 g + 1 ≤ maxDepth) :
    ∃ f0, ∀ f, f0 ≤ f → pExpr f 0 (render 1 g ++ X) = .ok g.toEx X :=
  ev_pExpr (by unfold maxDepth at *; omega) ((lem g).A1 1 X _ (by omega) hp hn.1 (ev_lOr_stop hn.2))

end GoSQLXModel.ExprParse
