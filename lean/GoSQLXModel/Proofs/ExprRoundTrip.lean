import GoSQLXModel.Model.ExprGrammar
/-!
# Every model expression, written with the parentheses precedence requires, parses back to itself

`parse_render`: for every well-formed `g` of the reference grammar (Model/ExprGrammar.lean), every continuation `X`
that starts no operator, and enough room under the depth limit, `pExpr (render 1 g ++ X) = ok g X` — precedence, left
associativity, parentheses overriding, predicates, calls, every written operator and atom in the tree with its written
spelling, nothing else.

Proof shape: one unfolding lemma per branch of the parser ("eventually": for all sufficient fuel), one lemma per
level of the ladder in continuation-passing form (`Lem`), generic lifting between levels, one case lemma per
constructor of the grammar, assembled by structural recursion over the (mutual) grammar.
-/
namespace GoSQLXModel.ExprParse

/-! ## "eventually": fuel-free statements -/
def Ev (P : Nat → Res) (r : Res) : Prop := ∃ f0, ∀ f, f0 ≤ f → P f = r
def EvL (P : Nat → ResL) (r : ResL) : Prop := ∃ f0, ∀ f, f0 ≤ f → P f = r

theorem ev_const (r : Res) : Ev (fun _ => r) r := ⟨0, fun _ _ => rfl⟩

/-! ## one unfolding lemma per branch -/
theorem ev_pExpr {d ts R} (hd : d + 1 ≤ maxDepth) (h : Ev (fun f => pOr f (d + 1) ts) R) : Ev (fun f => pExpr f d ts) R := by
  obtain ⟨a, ha⟩ := h
  refine ⟨a + 1, fun f hf => ?_⟩
  obtain ⟨g, rfl⟩ : ∃ g, f = g + 1 := ⟨f - 1, by omega⟩
  have : ¬ (d + 1 > maxDepth) := by omega
  simp only [pExpr, this, if_false, ha g (by omega)]

theorem ev_pOr {d ts l r R} (h1 : Ev (fun f => pAnd f d ts) (.ok l r)) (h2 : Ev (fun f => lOr f d l r) R) :
    Ev (fun f => pOr f d ts) R := by
  obtain ⟨a, ha⟩ := h1; obtain ⟨b, hb⟩ := h2
  refine ⟨max a b + 1, fun f hf => ?_⟩
  obtain ⟨g, rfl⟩ : ∃ g, f = g + 1 := ⟨f - 1, by omega⟩
  simp only [pOr, ha g (by omega), hb g (by omega)]
theorem ev_lOr_step {d l lit ts r rest R} (h1 : Ev (fun f => pAnd f d ts) (.ok r rest))
    (h2 : Ev (fun f => lOr f d (.bin lit l r) rest) R) : Ev (fun f => lOr f d l (⟨.or, lit⟩ :: ts)) R := by
  obtain ⟨a, ha⟩ := h1; obtain ⟨b, hb⟩ := h2
  refine ⟨max a b + 1, fun f hf => ?_⟩
  obtain ⟨g, rfl⟩ : ∃ g, f = g + 1 := ⟨f - 1, by omega⟩
  simp only [lOr, ha g (by omega), hb g (by omega)]

/-- the head of `X` is not of class `k` -/
def HeadNot (X : List PTok) (k : TK) : Prop := ∀ t rest, X = t :: rest → t.k ≠ k
/-- the head of `X` is spelled like none of the operator words recognised by literal -/
def HeadPlain (X : List PTok) : Prop := ∀ t rest, X = t :: rest → plainLit t.lit = true

theorem ev_lOr_stop {d l ts} (h : HeadNot ts .or) : Ev (fun f => lOr f d l ts) (.ok l ts) := by
  refine ⟨1, fun f hf => ?_⟩
  obtain ⟨g, rfl⟩ : ∃ g, f = g + 1 := ⟨f - 1, by omega⟩
  cases ts with
  | nil => simp [lOr]
  | cons t ts' =>
    obtain ⟨k, lit⟩ := t
    have hk : k ≠ .or := h _ _ rfl
    cases k <;> simp_all [lOr]

theorem ev_pAnd {d ts l r R} (h1 : Ev (fun f => pCmp f d ts) (.ok l r)) (h2 : Ev (fun f => lAnd f d l r) R) :
    Ev (fun f => pAnd f d ts) R := by
  obtain ⟨a, ha⟩ := h1; obtain ⟨b, hb⟩ := h2
  refine ⟨max a b + 1, fun f hf => ?_⟩
  obtain ⟨g, rfl⟩ : ∃ g, f = g + 1 := ⟨f - 1, by omega⟩
  simp only [pAnd, ha g (by omega), hb g (by omega)]
theorem ev_lAnd_step {d l lit ts r rest R} (h1 : Ev (fun f => pCmp f d ts) (.ok r rest))
    (h2 : Ev (fun f => lAnd f d (.bin lit l r) rest) R) : Ev (fun f => lAnd f d l (⟨.and, lit⟩ :: ts)) R := by
  obtain ⟨a, ha⟩ := h1; obtain ⟨b, hb⟩ := h2
  refine ⟨max a b + 1, fun f hf => ?_⟩
  obtain ⟨g, rfl⟩ : ∃ g, f = g + 1 := ⟨f - 1, by omega⟩
  simp only [lAnd, ha g (by omega), hb g (by omega)]
theorem ev_lAnd_stop {d l ts} (h : HeadNot ts .and) : Ev (fun f => lAnd f d l ts) (.ok l ts) := by
  refine ⟨1, fun f hf => ?_⟩
  obtain ⟨g, rfl⟩ : ∃ g, f = g + 1 := ⟨f - 1, by omega⟩
  cases ts with
  | nil => simp [lAnd]
  | cons t ts' =>
    obtain ⟨k, lit⟩ := t
    have hk : k ≠ .and := h _ _ rfl
    cases k <;> simp_all [lAnd]

/-! ### the comparison level -/
theorem ev_pCmp {d ts l rest R} (h1 : Ev (fun f => pCat f d ts) (.ok l rest)) (h2 : Ev (fun f => pTail f d l rest) R) :
    Ev (fun f => pCmp f d ts) R := by
  obtain ⟨a, ha⟩ := h1; obtain ⟨b, hb⟩ := h2
  refine ⟨max a b + 1, fun f hf => ?_⟩
  obtain ⟨g, rfl⟩ : ∃ g, f = g + 1 := ⟨f - 1, by omega⟩
  simp only [pCmp, ha g (by omega), hb g (by omega)]

theorem notPrefix_head {t : PTok} {rest : List PTok} (h : t.k ≠ .not) : notPrefix (t :: rest) = false := by
  obtain ⟨k, lit⟩ := t
  cases k <;> simp_all [notPrefix]

theorem ev_pTail_plainhead {d l t rest R} (h : t.k ≠ .not) (h2 : Ev (fun f => pPred f d false l (t :: rest)) R) :
    Ev (fun f => pTail f d l (t :: rest)) R := by
  obtain ⟨a, ha⟩ := h2
  refine ⟨a + 1, fun f hf => ?_⟩
  obtain ⟨g, rfl⟩ : ∃ g, f = g + 1 := ⟨f - 1, by omega⟩
  simp only [pTail, notPrefix_head h, Bool.false_eq_true, if_false, ha g (by omega)]

theorem ev_pTail_nil {d l} : Ev (fun f => pTail f d l []) (.ok l []) := by
  refine ⟨2, fun f hf => ?_⟩
  obtain ⟨g, rfl⟩ : ∃ g, f = g + 2 := ⟨f - 2, by omega⟩
  simp [pTail, notPrefix, pPred]

theorem ev_pTail_neg {d l nl t2 rest R} (h : notLookahead t2 = true) (h2 : Ev (fun f => pPred f d true l (t2 :: rest)) R) :
    Ev (fun f => pTail f d l (⟨.not, nl⟩ :: t2 :: rest)) R := by
  obtain ⟨a, ha⟩ := h2
  refine ⟨a + 1, fun f hf => ?_⟩
  obtain ⟨g, rfl⟩ : ∃ g, f = g + 1 := ⟨f - 1, by omega⟩
  simp only [pTail, notPrefix, h, if_true, List.tail_cons, ha g (by omega)]

theorem plain_parts {s : String} (h : plainLit s = true) :
    isWord s "ILIKE" = false ∧ isWord s "REGEXP" = false ∧ isWord s "RLIKE" = false := by
  simp only [plainLit, Bool.not_eq_true', Bool.or_eq_false_iff] at h
  exact ⟨h.1.1, h.1.2, h.2⟩

theorem isLikeOp_false {t : PTok} (hk : t.k ≠ .like) (hp : plainLit t.lit = true) : isLikeOp t = false := by
  simp [isLikeOp, hk, (plain_parts hp).1]
theorem isRegexpOp_false {t : PTok} (hp : plainLit t.lit = true) : isRegexpOp t = false := by
  simp [isRegexpOp, (plain_parts hp).2.1, (plain_parts hp).2.2]

/-- the continuation is none of the things parseComparisonExpression acts on, nor makes the real parser continue in an
    unmodelled way -/
def CmpStop (X : List PTok) : Prop :=
  HeadNot X .cmp ∧ HeadNot X .other ∧ HeadNot X .not ∧ HeadNot X .cont ∧
  HeadNot X .between ∧ HeadNot X .like ∧ HeadNot X .in_ ∧ HeadNot X .is ∧ HeadPlain X

theorem ev_pTail_stop {d l rest} (h : CmpStop rest) : Ev (fun f => pTail f d l rest) (.ok l rest) := by
  cases rest with
  | nil => exact ev_pTail_nil
  | cons t rest' =>
    obtain ⟨h1, h2, h3, h4, h5, h6, h7, h8, h9⟩ := h
    have hp := h9 _ _ rfl
    refine ev_pTail_plainhead (h3 _ _ rfl) ⟨1, fun f hf => ?_⟩
    obtain ⟨g, rfl⟩ : ∃ g, f = g + 1 := ⟨f - 1, by omega⟩
    have k1 := h1 _ _ rfl; have k2 := h2 _ _ rfl; have k4 := h4 _ _ rfl
    have k5 := h5 _ _ rfl; have k6 := h6 _ _ rfl; have k7 := h7 _ _ rfl; have k8 := h8 _ _ rfl
    simp [pPred, k1, k2, k4, k5, k7, k8, isLikeOp_false k6 hp, isRegexpOp_false hp, continuesUnmodelled]

theorem ev_pTail_cmp {d l lit ts' r rest} (hp : plainLit lit = true) (h : Ev (fun f => pCat f d ts') (.ok r rest)) :
    Ev (fun f => pTail f d l (⟨.cmp, lit⟩ :: ts')) (.ok (.bin lit l r) rest) := by
  obtain ⟨a, ha⟩ := h
  refine ev_pTail_plainhead (by simp) ⟨a + 1, fun f hf => ?_⟩
  obtain ⟨g, rfl⟩ : ∃ g, f = g + 1 := ⟨f - 1, by omega⟩
  have h1 : isLikeOp ⟨.cmp, lit⟩ = false := isLikeOp_false (by simp) hp
  have h2 : isRegexpOp ⟨.cmp, lit⟩ = false := isRegexpOp_false hp
  simp [pPred, h1, h2, ha g (by omega)]

theorem ev_pTail_is {d l lit ts} (hp : plainLit lit = true) :
    Ev (fun f => pTail f d l (⟨.is, lit⟩ :: ts)) (pIs l ts) := by
  refine ev_pTail_plainhead (by simp) ⟨1, fun f hf => ?_⟩
  obtain ⟨g, rfl⟩ : ∃ g, f = g + 1 := ⟨f - 1, by omega⟩
  have h1 : isLikeOp ⟨.is, lit⟩ = false := isLikeOp_false (by simp) hp
  have h2 : isRegexpOp ⟨.is, lit⟩ = false := isRegexpOp_false hp
  simp [pPred, h1, h2]

/-- what a (possibly negated) predicate keyword must satisfy for NOT to be taken as its prefix -/
def NegOK (neg : Option String) (kw : PTok) : Prop := neg = none ∨ notLookahead kw = true

/-- the tail after the left operand when a predicate keyword `kw` follows, possibly after NOT -/
theorem ev_pTail_pred {d l neg kw rest R} (hk : kw.k ≠ .not) (hn : NegOK neg kw)
    (h : Ev (fun f => pPred f d neg.isSome l (kw :: rest)) R) :
    Ev (fun f => pTail f d l (negToks neg ++ kw :: rest)) R := by
  cases neg with
  | none => simpa [negToks] using ev_pTail_plainhead hk (by simpa using h)
  | some nl =>
    have hl : notLookahead kw = true := by
      rcases hn with h0 | h0
      · cases h0
      · exact h0
    simpa [negToks] using ev_pTail_neg (nl := nl) hl (by simpa using h)

theorem ev_pPred_between {d neg l lit ts R} (h : Ev (fun f => pBetween f d neg l ts) R) :
    Ev (fun f => pPred f d neg l (⟨.between, lit⟩ :: ts)) R := by
  obtain ⟨a, ha⟩ := h
  refine ⟨a + 1, fun f hf => ?_⟩
  obtain ⟨g, rfl⟩ : ∃ g, f = g + 1 := ⟨f - 1, by omega⟩
  simp [pPred, ha g (by omega)]

theorem ev_pPred_like {d neg l} {t : PTok} {ts R} (hk : t.k ≠ .between) (hl : isLikeOp t = true)
    (h : Ev (fun f => pLike f d neg t.lit l ts) R) : Ev (fun f => pPred f d neg l (t :: ts)) R := by
  obtain ⟨a, ha⟩ := h
  refine ⟨a + 1, fun f hf => ?_⟩
  obtain ⟨g, rfl⟩ : ∃ g, f = g + 1 := ⟨f - 1, by omega⟩
  simp [pPred, hk, hl, ha g (by omega)]

theorem ev_pPred_in {d neg l lit ts R} (hp : plainLit lit = true) (h : Ev (fun f => pIn f d neg l ts) R) :
    Ev (fun f => pPred f d neg l (⟨.in_, lit⟩ :: ts)) R := by
  obtain ⟨a, ha⟩ := h
  refine ⟨a + 1, fun f hf => ?_⟩
  obtain ⟨g, rfl⟩ : ∃ g, f = g + 1 := ⟨f - 1, by omega⟩
  have h1 : isLikeOp ⟨.in_, lit⟩ = false := isLikeOp_false (by simp) hp
  have h2 : isRegexpOp ⟨.in_, lit⟩ = false := isRegexpOp_false hp
  simp [pPred, h1, h2, ha g (by omega)]

theorem ev_pBetween {d neg l ts lo alit r2 hi rest} (h1 : Ev (fun f => pCat f d ts) (.ok lo (⟨.and, alit⟩ :: r2)))
    (h2 : Ev (fun f => pCat f d r2) (.ok hi rest)) :
    Ev (fun f => pBetween f d neg l ts) (.ok (.between neg l lo hi) rest) := by
  obtain ⟨a, ha⟩ := h1; obtain ⟨b, hb⟩ := h2
  refine ⟨max a b + 1, fun f hf => ?_⟩
  obtain ⟨g, rfl⟩ : ∃ g, f = g + 1 := ⟨f - 1, by omega⟩
  simp only [pBetween, ha g (by omega), hb g (by omega)]

theorem ev_pLike {d neg op l ts pat rest} (h : Ev (fun f => pPrim f d ts) (.ok pat rest)) :
    Ev (fun f => pLike f d neg op l ts) (.ok (.like neg op l pat) rest) := by
  obtain ⟨a, ha⟩ := h
  refine ⟨a + 1, fun f hf => ?_⟩
  obtain ⟨g, rfl⟩ : ∃ g, f = g + 1 := ⟨f - 1, by omega⟩
  simp only [pLike, ha g (by omega)]

theorem ev_pIn {d neg l plit r1 items rest} (hh : HeadNot r1 .other)
    (h : EvL (fun f => pInList f d r1) (.ok items rest)) :
    Ev (fun f => pIn f d neg l (⟨.lparen, plit⟩ :: r1)) (.ok (.inlist neg l items) rest) := by
  obtain ⟨a, ha⟩ := h
  refine ⟨a + 1, fun f hf => ?_⟩
  obtain ⟨g, rfl⟩ : ∃ g, f = g + 1 := ⟨f - 1, by omega⟩
  cases r1 with
  | nil => simp only [pIn, ha g (by omega)]
  | cons t r1' =>
    obtain ⟨k, lit⟩ := t
    have hk : k ≠ .other := hh _ _ rfl
    cases k <;> first | exact absurd rfl hk | simp only [pIn, ha g (by omega)]

theorem evL_pInList_last {d ts v clit rest} (h : Ev (fun f => pExpr f d ts) (.ok v (⟨.rparen, clit⟩ :: rest))) :
    EvL (fun f => pInList f d ts) (.ok (.cons v .nil) rest) := by
  obtain ⟨a, ha⟩ := h
  refine ⟨a + 1, fun f hf => ?_⟩
  obtain ⟨g, rfl⟩ : ∃ g, f = g + 1 := ⟨f - 1, by omega⟩
  simp only [pInList, ha g (by omega)]

theorem evL_pInList_cons {d ts v clit r vs rest} (h1 : Ev (fun f => pExpr f d ts) (.ok v (⟨.comma, clit⟩ :: r)))
    (h2 : EvL (fun f => pInList f d r) (.ok vs rest)) :
    EvL (fun f => pInList f d ts) (.ok (.cons v vs) rest) := by
  obtain ⟨a, ha⟩ := h1; obtain ⟨b, hb⟩ := h2
  refine ⟨max a b + 1, fun f hf => ?_⟩
  obtain ⟨g, rfl⟩ : ∃ g, f = g + 1 := ⟨f - 1, by omega⟩
  simp only [pInList, ha g (by omega), hb g (by omega)]

/-! ### below the comparison level -/
theorem ev_pCat {d ts l r R} (h1 : Ev (fun f => pAdd f d ts) (.ok l r)) (h2 : Ev (fun f => lCat f d l r) R) :
    Ev (fun f => pCat f d ts) R := by
  obtain ⟨a, ha⟩ := h1; obtain ⟨b, hb⟩ := h2
  refine ⟨max a b + 1, fun f hf => ?_⟩
  obtain ⟨g, rfl⟩ : ∃ g, f = g + 1 := ⟨f - 1, by omega⟩
  simp only [pCat, ha g (by omega), hb g (by omega)]
theorem ev_lCat_step {d l lit ts r rest R} (h1 : Ev (fun f => pAdd f d ts) (.ok r rest))
    (h2 : Ev (fun f => lCat f d (.bin lit l r) rest) R) : Ev (fun f => lCat f d l (⟨.cat, lit⟩ :: ts)) R := by
  obtain ⟨a, ha⟩ := h1; obtain ⟨b, hb⟩ := h2
  refine ⟨max a b + 1, fun f hf => ?_⟩
  obtain ⟨g, rfl⟩ : ∃ g, f = g + 1 := ⟨f - 1, by omega⟩
  simp only [lCat, ha g (by omega), hb g (by omega)]
theorem ev_lCat_stop {d l ts} (h : HeadNot ts .cat) : Ev (fun f => lCat f d l ts) (.ok l ts) := by
  refine ⟨1, fun f hf => ?_⟩
  obtain ⟨g, rfl⟩ : ∃ g, f = g + 1 := ⟨f - 1, by omega⟩
  cases ts with
  | nil => simp [lCat]
  | cons t ts' =>
    obtain ⟨k, lit⟩ := t
    have hk : k ≠ .cat := h _ _ rfl
    cases k <;> simp_all [lCat]

theorem ev_pAdd {d ts l r R} (h1 : Ev (fun f => pMul f d ts) (.ok l r)) (h2 : Ev (fun f => lAdd f d l r) R) :
    Ev (fun f => pAdd f d ts) R := by
  obtain ⟨a, ha⟩ := h1; obtain ⟨b, hb⟩ := h2
  refine ⟨max a b + 1, fun f hf => ?_⟩
  obtain ⟨g, rfl⟩ : ∃ g, f = g + 1 := ⟨f - 1, by omega⟩
  simp only [pAdd, ha g (by omega), hb g (by omega)]
theorem ev_lAdd_plus {d l lit ts r rest R} (h1 : Ev (fun f => pMul f d ts) (.ok r rest))
    (h2 : Ev (fun f => lAdd f d (.bin lit l r) rest) R) : Ev (fun f => lAdd f d l (⟨.plus, lit⟩ :: ts)) R := by
  obtain ⟨a, ha⟩ := h1; obtain ⟨b, hb⟩ := h2
  refine ⟨max a b + 1, fun f hf => ?_⟩
  obtain ⟨g, rfl⟩ : ∃ g, f = g + 1 := ⟨f - 1, by omega⟩
  simp only [lAdd, ha g (by omega), hb g (by omega)]
theorem ev_lAdd_minus {d l lit ts r rest R} (h1 : Ev (fun f => pMul f d ts) (.ok r rest))
    (h2 : Ev (fun f => lAdd f d (.bin lit l r) rest) R) : Ev (fun f => lAdd f d l (⟨.minus, lit⟩ :: ts)) R := by
  obtain ⟨a, ha⟩ := h1; obtain ⟨b, hb⟩ := h2
  refine ⟨max a b + 1, fun f hf => ?_⟩
  obtain ⟨g, rfl⟩ : ∃ g, f = g + 1 := ⟨f - 1, by omega⟩
  simp only [lAdd, ha g (by omega), hb g (by omega)]
theorem ev_lAdd_stop {d l ts} (h1 : HeadNot ts .plus) (h2 : HeadNot ts .minus) : Ev (fun f => lAdd f d l ts) (.ok l ts) := by
  refine ⟨1, fun f hf => ?_⟩
  obtain ⟨g, rfl⟩ : ∃ g, f = g + 1 := ⟨f - 1, by omega⟩
  cases ts with
  | nil => simp [lAdd]
  | cons t ts' =>
    obtain ⟨k, lit⟩ := t
    have hk1 : k ≠ .plus := h1 _ _ rfl
    have hk2 : k ≠ .minus := h2 _ _ rfl
    cases k <;> simp_all [lAdd]

theorem ev_pMul {d ts l r R} (h1 : Ev (fun f => pPrim f d ts) (.ok l r)) (h2 : Ev (fun f => lMul f d l r) R) :
    Ev (fun f => pMul f d ts) R := by
  obtain ⟨a, ha⟩ := h1; obtain ⟨b, hb⟩ := h2
  refine ⟨max a b + 1, fun f hf => ?_⟩
  obtain ⟨g, rfl⟩ : ∃ g, f = g + 1 := ⟨f - 1, by omega⟩
  simp only [pMul, ha g (by omega), hb g (by omega)]

theorem ev_mulStep {d l lit ts r rest R} (hne : ts ≠ []) (h1 : Ev (fun f => pPrim f d ts) (.ok r rest))
    (h2 : Ev (fun f => lMul f d (.bin lit l r) rest) R) : Ev (fun f => mulStep f d l lit ts) R := by
  obtain ⟨a, ha⟩ := h1; obtain ⟨b, hb⟩ := h2
  refine ⟨max a b + 1, fun f hf => ?_⟩
  obtain ⟨g, rfl⟩ : ∃ g, f = g + 1 := ⟨f - 1, by omega⟩
  cases ts with
  | nil => exact absurd rfl hne
  | cons t ts' => simp only [mulStep, ha g (by omega), hb g (by omega)]

theorem ev_lMul_op {d l lit ts R} {k : TK} (hk : k = .star ∨ k = .div ∨ k = .mod)
    (h : Ev (fun f => mulStep f d l lit ts) R) : Ev (fun f => lMul f d l (⟨k, lit⟩ :: ts)) R := by
  obtain ⟨a, ha⟩ := h
  refine ⟨a + 1, fun f hf => ?_⟩
  obtain ⟨g, rfl⟩ : ∃ g, f = g + 1 := ⟨f - 1, by omega⟩
  rcases hk with rfl | rfl | rfl <;> simp only [lMul, ha g (by omega)]

theorem ev_lMul_stop {d l ts} (h1 : HeadNot ts .star) (h2 : HeadNot ts .div) (h3 : HeadNot ts .mod) :
    Ev (fun f => lMul f d l ts) (.ok l ts) := by
  refine ⟨1, fun f hf => ?_⟩
  obtain ⟨g, rfl⟩ : ∃ g, f = g + 1 := ⟨f - 1, by omega⟩
  cases ts with
  | nil => simp [lMul]
  | cons t ts' =>
    obtain ⟨k, lit⟩ := t
    have hk1 : k ≠ .star := h1 _ _ rfl
    have hk2 : k ≠ .div := h2 _ _ rfl
    have hk3 : k ≠ .mod := h3 _ _ rfl
    cases k <;> simp_all [lMul]

/-! ### primaries -/
/-- the continuation does not extend a primary (nor a call) -/
def PrimStop (X : List PTok) : Prop := HeadNot X .cont ∧ HeadNot X .lparen ∧ HeadNot X .other

theorem afterPrimary_ok {e : Ex} {X : List PTok} (h : HeadNot X .cont) : afterPrimary e X = .ok e X := by
  cases X with
  | nil => rfl
  | cons t X' =>
    obtain ⟨k, lit⟩ := t
    have hk : k ≠ .cont := h _ _ rfl
    cases k <;> simp_all [afterPrimary]

theorem afterCall_ok {n : String} {args : ExL} {X : List PTok} (hn : isWord n "MATCH" = false) (h : PrimStop X) :
    afterCall n args X = .ok (.call n args) X := by
  cases X with
  | nil => rfl
  | cons t X' =>
    have hk : t.k ≠ .other := h.2.2 _ _ rfl
    simp [afterCall, hk, hn, afterPrimary_ok h.1]

theorem ev_pPrim_atom {d : Nat} {a : Atom} {X : List PTok} (h : PrimStop X) :
    Ev (fun f => pPrim f d (a.tok :: X)) (.ok a.ex X) := by
  refine ⟨1, fun f hf => ?_⟩
  obtain ⟨g, rfl⟩ : ∃ g, f = g + 1 := ⟨f - 1, by omega⟩
  cases a with
  | ident n =>
    simp only [Atom.tok, Atom.ex]
    cases X with
    | nil => simp [pPrim, afterPrimary]
    | cons t X' =>
      obtain ⟨k, lit⟩ := t
      have hk1 : k ≠ .cont := h.1 _ _ rfl
      have hk2 : k ≠ .lparen := h.2.1 _ _ rfl
      cases k <;> simp_all [pPrim, afterPrimary]
  | num v => simp only [pPrim, Atom.tok, Atom.ex]; exact afterPrimary_ok h.1
  | str v => simp only [pPrim, Atom.tok, Atom.ex]; exact afterPrimary_ok h.1
  | bool v => simp only [pPrim, Atom.tok, Atom.ex]; exact afterPrimary_ok h.1
  | null l => simp only [pPrim, Atom.tok, Atom.ex]; exact afterPrimary_ok h.1

theorem ev_pPrim_paren {d ts e rest} (hh : HeadNot ts .other) (h1 : Ev (fun f => pExpr f d ts) (.ok e (rp :: rest)))
    (hs : HeadNot rest .cont) : Ev (fun f => pPrim f d (lp :: ts)) (.ok e rest) := by
  obtain ⟨a, ha⟩ := h1
  refine ⟨a + 1, fun f hf => ?_⟩
  obtain ⟨g, rfl⟩ : ∃ g, f = g + 1 := ⟨f - 1, by omega⟩
  have hp := ha g (by omega)
  cases ts with
  | nil => simp only [pPrim, lp, hp, rp]; exact afterPrimary_ok hs
  | cons t ts' =>
    obtain ⟨k, lit⟩ := t
    have hk : k ≠ .other := hh _ _ rfl
    cases k <;> first | exact absurd rfl hk | (simp only [pPrim, lp, hp, rp]; exact afterPrimary_ok hs)

theorem ev_pPrim_not {d lit ts e rest} (hh : HeadNot ts .other) (hd : d + 1 ≤ maxDepth)
    (h1 : Ev (fun f => pCmp f (d + 1) ts) (.ok e rest)) : Ev (fun f => pPrim f d (⟨.not, lit⟩ :: ts)) (.ok (.not e) rest) := by
  obtain ⟨a, ha⟩ := h1
  refine ⟨a + 1, fun f hf => ?_⟩
  obtain ⟨g, rfl⟩ : ∃ g, f = g + 1 := ⟨f - 1, by omega⟩
  have hp := ha g (by omega)
  have hd' : ¬ (d + 1 > maxDepth) := by omega
  cases ts with
  | nil => simp only [pPrim, hd', if_false, hp]
  | cons t ts' =>
    obtain ⟨k, lit⟩ := t
    have hk : k ≠ .other := hh _ _ rfl
    cases k <;> first | exact absurd rfl hk | simp only [pPrim, hd', if_false, hp]

theorem ev_pPrim_call0 {d n l1 l2 X} : Ev (fun f => pPrim f d (⟨.ident, n⟩ :: ⟨.lparen, l1⟩ :: ⟨.rparen, l2⟩ :: X)) (afterCall n .nil X) := by
  refine ⟨1, fun f hf => ?_⟩
  obtain ⟨g, rfl⟩ : ∃ g, f = g + 1 := ⟨f - 1, by omega⟩
  simp only [pPrim]

theorem ev_pPrim_call {d n l1 r1 args r2} (hh : HeadNot r1 .rparen) (h : EvL (fun f => pArgs f d r1) (.ok args r2)) :
    Ev (fun f => pPrim f d (⟨.ident, n⟩ :: ⟨.lparen, l1⟩ :: r1)) (afterCall n args r2) := by
  obtain ⟨a, ha⟩ := h
  refine ⟨a + 1, fun f hf => ?_⟩
  obtain ⟨g, rfl⟩ : ∃ g, f = g + 1 := ⟨f - 1, by omega⟩
  cases r1 with
  | nil => simp only [pPrim, ha g (by omega)]
  | cons t r1' =>
    obtain ⟨k, lit⟩ := t
    have hk : k ≠ .rparen := hh _ _ rfl
    cases k <;> first | exact absurd rfl hk | simp only [pPrim, ha g (by omega)]

theorem evL_pArgs_last {d ts v clit rest} (hh : HeadNot ts .other) (h : Ev (fun f => pExpr f d ts) (.ok v (⟨.rparen, clit⟩ :: rest))) :
    EvL (fun f => pArgs f d ts) (.ok (.cons v .nil) rest) := by
  obtain ⟨a, ha⟩ := h
  refine ⟨a + 1, fun f hf => ?_⟩
  obtain ⟨g, rfl⟩ : ∃ g, f = g + 1 := ⟨f - 1, by omega⟩
  cases ts with
  | nil => simp only [pArgs, ha g (by omega)]
  | cons t ts' =>
    obtain ⟨k, lit⟩ := t
    have hk : k ≠ .other := hh _ _ rfl
    cases k <;> first | exact absurd rfl hk | simp only [pArgs, ha g (by omega)]

theorem evL_pArgs_cons {d ts v clit r vs rest} (hh : HeadNot ts .other) (h1 : Ev (fun f => pExpr f d ts) (.ok v (⟨.comma, clit⟩ :: r)))
    (h2 : EvL (fun f => pArgs f d r) (.ok vs rest)) :
    EvL (fun f => pArgs f d ts) (.ok (.cons v vs) rest) := by
  obtain ⟨a, ha⟩ := h1; obtain ⟨b, hb⟩ := h2
  refine ⟨max a b + 1, fun f hf => ?_⟩
  obtain ⟨g, rfl⟩ : ∃ g, f = g + 1 := ⟨f - 1, by omega⟩
  cases ts with
  | nil => simp only [pArgs, ha g (by omega), hb g (by omega)]
  | cons t ts' =>
    obtain ⟨k, lit⟩ := t
    have hk : k ≠ .other := hh _ _ rfl
    cases k <;> first | exact absurd rfl hk | simp only [pArgs, ha g (by omega), hb g (by omega)]

/-! ## continuation predicates -/
theorem headNot_cons {t : PTok} {rest : List PTok} {k : TK} (h : t.k ≠ k) : HeadNot (t :: rest) k := by
  intro t' rest' e; injection e with e1 _; subst e1; exact h
theorem headNot_nil {k : TK} : HeadNot [] k := by intro t rest e; cases e
theorem headPlain_cons {t : PTok} {rest : List PTok} (h : plainLit t.lit = true) : HeadPlain (t :: rest) := by
  intro t' rest' e; injection e with e1 _; subst e1; exact h

def N7 (X : List PTok) : Prop := HeadNot X .star ∧ HeadNot X .div ∧ HeadNot X .mod
def N6 (X : List PTok) : Prop := N7 X ∧ HeadNot X .plus ∧ HeadNot X .minus
def N5 (X : List PTok) : Prop := N6 X ∧ HeadNot X .cat
def N4 (X : List PTok) : Prop := N5 X ∧ CmpStop X
def N2 (X : List PTok) : Prop := N4 X ∧ HeadNot X .and
def N1 (X : List PTok) : Prop := N2 X ∧ HeadNot X .or

/-- a token that is no operand-level operator and extends no primary stops every level below the comparison -/
theorem stops_of_class {t : PTok} (rest : List PTok)
    (h : t.k ≠ .cont ∧ t.k ≠ .lparen ∧ t.k ≠ .other ∧ t.k ≠ .star ∧ t.k ≠ .div ∧ t.k ≠ .mod ∧ t.k ≠ .plus ∧ t.k ≠ .minus ∧ t.k ≠ .cat) :
    PrimStop (t :: rest) ∧ N5 (t :: rest) := by
  obtain ⟨a, b, c, d, e, f, g, i, j⟩ := h
  exact ⟨⟨headNot_cons a, headNot_cons b, headNot_cons c⟩,
    ⟨⟨⟨headNot_cons d, headNot_cons e, headNot_cons f⟩, headNot_cons g, headNot_cons i⟩, headNot_cons j⟩⟩

/-- … and, when it is none of the comparison-level keywords either and plainly spelled, the comparison level too -/
theorem cmpStop_of_class {t : PTok} (rest : List PTok)
    (h : t.k ≠ .cmp ∧ t.k ≠ .other ∧ t.k ≠ .not ∧ t.k ≠ .cont ∧ t.k ≠ .between ∧ t.k ≠ .like ∧ t.k ≠ .in_ ∧ t.k ≠ .is)
    (hp : plainLit t.lit = true) : CmpStop (t :: rest) := by
  obtain ⟨a, b, c, d, e, f, g, i⟩ := h
  exact ⟨headNot_cons a, headNot_cons b, headNot_cons c, headNot_cons d, headNot_cons e, headNot_cons f, headNot_cons g,
    headNot_cons i, headPlain_cons hp⟩

/-! ## render and need at the levels below / above the tree's own level -/
theorem prec_le (g : G) : 1 ≤ g.prec ∧ g.prec ≤ 8 := by
  cases g with
  | bin op lit l r => cases op <;> simp [G.prec, Op.prec]
  | _ => simp [G.prec]

theorem render_low (g : G) {k : Nat} (h : k ≤ g.prec) : render k g = render 1 g := by
  cases g with
  | atom a => simp [render]
  | call n args => simp [render]
  | bin op lit l r =>
    have h1 : ¬ (op.prec < k) := by simp only [G.prec] at h; omega
    have h2 : ¬ (op.prec < 1) := by cases op <;> simp [Op.prec]
    simp only [render, h1, h2, if_false]
  | not lit e =>
    have h1 : ¬ (3 < k) := by simp only [G.prec] at h; omega
    simp only [render, h1, if_false]; simp
  | isnull a b c e =>
    have h1 : ¬ (4 < k) := by simp only [G.prec] at h; omega
    simp only [render, h1, if_false]; simp
  | between a b c e lo hi =>
    have h1 : ¬ (4 < k) := by simp only [G.prec] at h; omega
    simp only [render, h1, if_false]; simp
  | like a b e p =>
    have h1 : ¬ (4 < k) := by simp only [G.prec] at h; omega
    simp only [render, h1, if_false]; simp
  | inlist a b e f r =>
    have h1 : ¬ (4 < k) := by simp only [G.prec] at h; omega
    simp only [render, h1, if_false]; simp

theorem render_high (g : G) {k : Nat} (h : g.prec < k) (hk : k ≤ 8) : render k g = lp :: (render 1 g ++ [rp]) := by
  cases g with
  | atom a => simp only [G.prec] at h; omega
  | call n args => simp only [G.prec] at h; omega
  | bin op lit l r =>
    have h1 : op.prec < k := by simpa only [G.prec] using h
    have h2 : ¬ (op.prec < 1) := by cases op <;> simp [Op.prec]
    simp only [render, h1, h2, if_true, if_false]
  | not lit e =>
    have h1 : 3 < k := by simpa only [G.prec] using h
    simp only [render, h1, if_true]; simp
  | isnull a b c e =>
    have h1 : 4 < k := by simpa only [G.prec] using h
    simp only [render, h1, if_true]; simp
  | between a b c e lo hi =>
    have h1 : 4 < k := by simpa only [G.prec] using h
    simp only [render, h1, if_true]; simp
  | like a b e p =>
    have h1 : 4 < k := by simpa only [G.prec] using h
    simp only [render, h1, if_true]; simp
  | inlist a b e f r =>
    have h1 : 4 < k := by simpa only [G.prec] using h
    simp only [render, h1, if_true]; simp

theorem need_low (g : G) {k : Nat} (h : k ≤ g.prec) : need k g = need 1 g := by
  cases g with
  | atom a => simp [need]
  | call n args => simp [need]
  | bin op lit l r =>
    have h1 : ¬ (op.prec < k) := by simp only [G.prec] at h; omega
    have h2 : ¬ (op.prec < 1) := by cases op <;> simp [Op.prec]
    simp only [need, h1, h2, if_false]
  | not lit e =>
    have h1 : ¬ (3 < k) := by simp only [G.prec] at h; omega
    simp only [need, h1, if_false]; simp
  | isnull a b c e =>
    have h1 : ¬ (4 < k) := by simp only [G.prec] at h; omega
    simp only [need, h1, if_false]; simp
  | between a b c e lo hi =>
    have h1 : ¬ (4 < k) := by simp only [G.prec] at h; omega
    simp only [need, h1, if_false]; simp
  | like a b e p =>
    have h1 : ¬ (4 < k) := by simp only [G.prec] at h; omega
    simp only [need, h1, if_false]; simp
  | inlist a b e f r =>
    have h1 : ¬ (4 < k) := by simp only [G.prec] at h; omega
    simp only [need, h1, if_false]; simp

theorem need_high (g : G) {k : Nat} (h : g.prec < k) (hk : k ≤ 8) : need k g = need 1 g + 1 := by
  cases g with
  | atom a => simp only [G.prec] at h; omega
  | call n args => simp only [G.prec] at h; omega
  | bin op lit l r =>
    have h1 : op.prec < k := by simpa only [G.prec] using h
    have h2 : ¬ (op.prec < 1) := by cases op <;> simp [Op.prec]
    simp only [need, h1, h2, if_true, if_false]
  | not lit e =>
    have h1 : 3 < k := by simpa only [G.prec] using h
    simp only [need, h1, if_true]; simp
  | isnull a b c e =>
    have h1 : 4 < k := by simpa only [G.prec] using h
    simp only [need, h1, if_true]; simp
  | between a b c e lo hi =>
    have h1 : 4 < k := by simpa only [G.prec] using h
    simp only [need, h1, if_true]; simp
  | like a b e p =>
    have h1 : 4 < k := by simpa only [G.prec] using h
    simp only [need, h1, if_true]; simp
  | inlist a b e f r =>
    have h1 : 4 < k := by simpa only [G.prec] using h
    simp only [need, h1, if_true]; simp

/-- two levels on the same side of the tree's own level render (and cost) alike -/
theorem req {g : G} {a b : Nat} (ha : a ≤ 8) (hb : b ≤ 8)
    (h : (a ≤ g.prec ∧ b ≤ g.prec) ∨ (g.prec < a ∧ g.prec < b)) : render a g = render b g ∧ need a g = need b g := by
  rcases h with ⟨h1, h2⟩ | ⟨h1, h2⟩
  · rw [render_low g h1, render_low g h2, need_low g h1, need_low g h2]; exact ⟨rfl, rfl⟩
  · rw [render_high g h1 ha, render_high g h2 hb, need_high g h1 ha, need_high g h2 hb]; exact ⟨rfl, rfl⟩

/-- a rendered tree starts with an atom, `(` or NOT -/
def StartTok (t : PTok) : Prop :=
  t.k = .ident ∨ t.k = .num ∨ t.k = .str ∨ t.k = .bool ∨ t.k = .null ∨ t.k = .lparen ∨ t.k = .not

theorem render_head : (g : G) → (k : Nat) → (X : List PTok) → ∃ t rest, render k g ++ X = t :: rest ∧ StartTok t
  | .atom a, k, X => ⟨a.tok, X, by simp [render], by cases a <;> simp [Atom.tok, StartTok]⟩
  | .call n args, k, X => ⟨⟨.ident, n⟩, lp :: (renderArgs args ++ [rp]) ++ X, by simp [render], by simp [StartTok]⟩
  | .bin op lit l r, k, X => by
    simp only [render]
    split
    · exact ⟨lp, _, rfl, by simp [lp, StartTok]⟩
    · obtain ⟨t, rest, e, ht⟩ := render_head l op.sides.1 (⟨op.tk, lit⟩ :: render op.sides.2 r ++ X)
      exact ⟨t, rest, by simpa [List.append_assoc] using e, ht⟩
  | .not lit e, k, X => by
    simp only [render]
    split
    · exact ⟨lp, _, rfl, by simp [lp, StartTok]⟩
    · exact ⟨⟨.not, lit⟩, _, rfl, by simp [StartTok]⟩
  | .isnull a b c e, k, X => by
    simp only [render]
    split
    · exact ⟨lp, _, rfl, by simp [lp, StartTok]⟩
    · obtain ⟨t, rest, e', ht⟩ := render_head e 5 (⟨.is, a⟩ :: (negToks b ++ [⟨.null, c⟩]) ++ X)
      exact ⟨t, rest, by simpa [List.append_assoc] using e', ht⟩
  | .between a b c e lo hi, k, X => by
    simp only [render]
    split
    · exact ⟨lp, _, rfl, by simp [lp, StartTok]⟩
    · obtain ⟨t, rest, e', ht⟩ := render_head e 5 ((negToks a ++ ⟨.between, b⟩ :: (render 5 lo ++ ⟨.and, c⟩ :: render 5 hi)) ++ X)
      exact ⟨t, rest, by simpa [List.append_assoc] using e', ht⟩
  | .like a b e p, k, X => by
    simp only [render]
    split
    · exact ⟨lp, _, rfl, by simp [lp, StartTok]⟩
    · obtain ⟨t, rest, e', ht⟩ := render_head e 5 ((negToks a ++ b :: render 8 p) ++ X)
      exact ⟨t, rest, by simpa [List.append_assoc] using e', ht⟩
  | .inlist a b e f r, k, X => by
    simp only [render]
    split
    · exact ⟨lp, _, rfl, by simp [lp, StartTok]⟩
    · obtain ⟨t, rest, e', ht⟩ := render_head e 5 ((negToks a ++ ⟨.in_, b⟩ :: lp :: (render 1 f ++ (renderMore r ++ [rp]))) ++ X)
      exact ⟨t, rest, by simpa [List.append_assoc] using e', ht⟩

theorem render_head_not {c : TK} (hc : c ≠ .ident ∧ c ≠ .num ∧ c ≠ .str ∧ c ≠ .bool ∧ c ≠ .null ∧ c ≠ .lparen ∧ c ≠ .not)
    (k : Nat) (g : G) (X : List PTok) : HeadNot (render k g ++ X) c := by
  obtain ⟨t, rest, e, ht⟩ := render_head g k X
  intro t' rest' e'
  rw [e] at e'; injection e' with e1 _; subst e1
  obtain ⟨c1, c2, c3, c4, c5, c6, c7⟩ := hc
  rcases ht with h | h | h | h | h | h | h <;> (rw [h]; first | exact c1.symm | exact c2.symm | exact c3.symm | exact c4.symm | exact c5.symm | exact c6.symm | exact c7.symm)

theorem render_head_not_other (k : Nat) (g : G) (X : List PTok) : HeadNot (render k g ++ X) .other :=
  render_head_not (by decide) k g X
theorem render_head_not_rparen (k : Nat) (g : G) (X : List PTok) : HeadNot (render k g ++ X) .rparen :=
  render_head_not (by decide) k g X

theorem render_ne_nil (k : Nat) (g : G) (X : List PTok) : render k g ++ X ≠ [] := by
  obtain ⟨t, rest, e, _⟩ := render_head g k X
  rw [e]; simp

/-! ## the level lemmas, in continuation-passing form -/
abbrev P8T (g : G) := ∀ d X, need 8 g + d ≤ maxDepth → PrimStop X → Ev (fun f => pPrim f d (render 8 g ++ X)) (.ok g.toEx X)
abbrev M7T (g : G) := ∀ d X R, need 7 g + d ≤ maxDepth → PrimStop X → Ev (fun f => lMul f d g.toEx X) R →
        Ev (fun f => pMul f d (render 7 g ++ X)) R
abbrev A6T (g : G) := ∀ d X R, need 6 g + d ≤ maxDepth → PrimStop X → N7 X → Ev (fun f => lAdd f d g.toEx X) R →
        Ev (fun f => pAdd f d (render 6 g ++ X)) R
abbrev K5T (g : G) := ∀ d X R, need 5 g + d ≤ maxDepth → PrimStop X → N6 X → Ev (fun f => lCat f d g.toEx X) R →
        Ev (fun f => pCat f d (render 5 g ++ X)) R
abbrev CT (k : Nat) (g : G) := ∀ d X, need k g + d ≤ maxDepth → PrimStop X → N4 X →
        Ev (fun f => pCmp f d (render k g ++ X)) (.ok g.toEx X)
abbrev A2T (g : G) := ∀ d X R, need 2 g + d ≤ maxDepth → PrimStop X → N4 X → Ev (fun f => lAnd f d g.toEx X) R →
        Ev (fun f => pAnd f d (render 2 g ++ X)) R
abbrev A1T (g : G) := ∀ d X R, need 1 g + d ≤ maxDepth → PrimStop X → N2 X → Ev (fun f => lOr f d g.toEx X) R →
        Ev (fun f => pOr f d (render 1 g ++ X)) R

structure Lem (g : G) : Prop where
  P8 : P8T g
  M7 : M7T g
  A6 : A6T g
  K5 : K5T g
  C4 : CT 4 g
  C3 : CT 3 g
  A2 : A2T g
  A1 : A1T g

def LemL : GL → Prop
  | .nil => True
  | .cons g rest => Lem g ∧ LemL rest

/-! ### generic lifting between adjacent levels -/
theorem lift_M7 {g : G} (hr : render 7 g = render 8 g ∧ need 7 g = need 8 g) (P8 : P8T g) : M7T g := by
  intro d X R hd hp h
  rw [hr.1]; exact ev_pMul (P8 d X (by rw [← hr.2]; exact hd) hp) h

theorem lift_A6 {g : G} (hr : render 6 g = render 7 g ∧ need 6 g = need 7 g) (M7 : M7T g) : A6T g := by
  intro d X R hd hp hn h
  rw [hr.1]; exact ev_pAdd (M7 d X _ (by rw [← hr.2]; exact hd) hp (ev_lMul_stop hn.1 hn.2.1 hn.2.2)) h

theorem lift_K5 {g : G} (hr : render 5 g = render 6 g ∧ need 5 g = need 6 g) (A6 : A6T g) : K5T g := by
  intro d X R hd hp hn h
  rw [hr.1]; exact ev_pCat (A6 d X _ (by rw [← hr.2]; exact hd) hp hn.1 (ev_lAdd_stop hn.2.1 hn.2.2)) h

theorem lift_C {g : G} {k : Nat} (hr : render k g = render 5 g ∧ need k g = need 5 g) (K5 : K5T g) : CT k g := by
  intro d X hd hp hn
  rw [hr.1]
  exact ev_pCmp (K5 d X _ (by rw [← hr.2]; exact hd) hp hn.1.1 (ev_lCat_stop hn.1.2)) (ev_pTail_stop hn.2)

theorem lift_A2 {g : G} (hr : render 2 g = render 3 g ∧ need 2 g = need 3 g) (C3 : CT 3 g) : A2T g := by
  intro d X R hd hp hn h
  rw [hr.1]; exact ev_pAnd (C3 d X (by rw [← hr.2]; exact hd) hp hn) h

theorem lift_A1 {g : G} (hr : render 1 g = render 2 g ∧ need 1 g = need 2 g) (A2 : A2T g) : A1T g := by
  intro d X R hd hp hn h
  rw [hr.1]; exact ev_pOr (A2 d X _ (by rw [← hr.2]; exact hd) hp hn.1 (ev_lAnd_stop hn.2)) h

/-- a closing parenthesis or a comma ends every level -/
theorem closer_stops (t : PTok) (hk : t.k = .rparen ∨ t.k = .comma) (hp : plainLit t.lit = true) (X : List PTok) :
    PrimStop (t :: X) ∧ N2 (t :: X) ∧ HeadNot (t :: X) .or := by
  have h : ∀ k : TK, k ≠ .rparen → k ≠ .comma → t.k ≠ k := by
    intro k h1 h2 e; rcases hk with h | h <;> rw [h] at e <;> first | exact h1 e.symm | exact h2 e.symm
  have s := stops_of_class (t := t) X ⟨h _ (by decide) (by decide), h _ (by decide) (by decide), h _ (by decide) (by decide),
    h _ (by decide) (by decide), h _ (by decide) (by decide), h _ (by decide) (by decide), h _ (by decide) (by decide),
    h _ (by decide) (by decide), h _ (by decide) (by decide)⟩
  have c := cmpStop_of_class (t := t) X ⟨h _ (by decide) (by decide), h _ (by decide) (by decide), h _ (by decide) (by decide),
    h _ (by decide) (by decide), h _ (by decide) (by decide), h _ (by decide) (by decide), h _ (by decide) (by decide),
    h _ (by decide) (by decide)⟩ hp
  exact ⟨s.1, ⟨⟨s.2, c⟩, headNot_cons (h _ (by decide) (by decide))⟩, headNot_cons (h _ (by decide) (by decide))⟩

theorem rp_plain : plainLit rp.lit = true := by decide +kernel
theorem comma_plain : plainLit comma.lit = true := by decide +kernel

theorem rp_stops (X : List PTok) : PrimStop (rp :: X) ∧ N2 (rp :: X) ∧ HeadNot (rp :: X) .or :=
  closer_stops rp (Or.inl rfl) rp_plain X
theorem comma_stops (X : List PTok) : PrimStop (comma :: X) ∧ N2 (comma :: X) ∧ HeadNot (comma :: X) .or :=
  closer_stops comma (Or.inr rfl) comma_plain X

/-- an item of a parenthesised list (or the inside of a parenthesis): read by parseExpression up to the closer -/
theorem item_expr {g : G} (A1 : A1T g) (d : Nat) (t : PTok) (hk : t.k = .rparen ∨ t.k = .comma) (hp : plainLit t.lit = true)
    (X : List PTok) (hd : need 1 g + 1 + d ≤ maxDepth) :
    Ev (fun f => pExpr f d (render 1 g ++ (t :: X))) (.ok g.toEx (t :: X)) := by
  obtain ⟨s1, s2, s3⟩ := closer_stops t hk hp X
  exact ev_pExpr (by omega) (A1 (d + 1) (t :: X) _ (by omega) s1 s2 (ev_lOr_stop s3))

theorem paren_P8 {g : G} (hp : g.prec < 8) (A1 : A1T g) : P8T g := by
  intro d X hd hX
  rw [render_high g hp (Nat.le_refl _)]
  rw [need_high g hp (Nat.le_refl _)] at hd
  have h2 := item_expr A1 d rp (Or.inl rfl) rp_plain X (by omega)
  have h3 := ev_pPrim_paren (render_head_not_other 1 g (rp :: X)) h2 hX.1
  simpa [List.append_assoc] using h3

/-! ### assembling all levels from the native one -/
theorem up_from_A1 {g : G} (hp : g.prec < 8) (A1 : A1T g) :
    P8T g ∧ (g.prec < 7 → M7T g) ∧ (g.prec < 6 → A6T g) ∧ (g.prec < 5 → K5T g) ∧ (g.prec < 4 → CT 4 g) ∧
    (g.prec < 3 → CT 3 g) ∧ (g.prec < 2 → A2T g) := by
  have P8 := paren_P8 hp A1
  have M7 : g.prec < 7 → M7T g := fun h => lift_M7 (req (by omega) (by omega) (Or.inr ⟨h, by omega⟩)) P8
  have A6 : g.prec < 6 → A6T g := fun h => lift_A6 (req (by omega) (by omega) (Or.inr ⟨h, by omega⟩)) (M7 (by omega))
  have K5 : g.prec < 5 → K5T g := fun h => lift_K5 (req (by omega) (by omega) (Or.inr ⟨h, by omega⟩)) (A6 (by omega))
  have C4 : g.prec < 4 → CT 4 g := fun h => lift_C (req (by omega) (by omega) (Or.inr ⟨h, by omega⟩)) (K5 (by omega))
  have C3 : g.prec < 3 → CT 3 g := fun h => lift_C (req (by omega) (by omega) (Or.inr ⟨h, by omega⟩)) (K5 (by omega))
  have A2 : g.prec < 2 → A2T g := fun h => lift_A2 (req (by omega) (by omega) (Or.inr ⟨h, by omega⟩)) (C3 (by omega))
  exact ⟨P8, M7, A6, K5, C4, C3, A2⟩

theorem down_A6 {g : G} (hp : 7 ≤ g.prec) (M7 : M7T g) : A6T g :=
  lift_A6 (req (by omega) (by omega) (Or.inl ⟨by omega, hp⟩)) M7
theorem down_K5 {g : G} (hp : 6 ≤ g.prec) (A6 : A6T g) : K5T g :=
  lift_K5 (req (by omega) (by omega) (Or.inl ⟨by omega, hp⟩)) A6
theorem down_C {g : G} (k : Nat) (hk : k ≤ 5) (hp : 5 ≤ g.prec) (K5 : K5T g) : CT k g :=
  lift_C (req (by omega) (by omega) (Or.inl ⟨by omega, hp⟩)) K5
theorem down_A2 {g : G} (hp : 3 ≤ g.prec) (C3 : CT 3 g) : A2T g :=
  lift_A2 (req (by omega) (by omega) (Or.inl ⟨by omega, hp⟩)) C3
theorem down_A1 {g : G} (hp : 2 ≤ g.prec) (A2 : A2T g) : A1T g :=
  lift_A1 (req (by omega) (by omega) (Or.inl ⟨by omega, hp⟩)) A2

/-- a tree whose own level is the primary level: everything follows from `P8` -/
theorem lem_of_P8 {g : G} (hp : g.prec = 8) (P8 : P8T g) : Lem g := by
  have M7 := lift_M7 (g := g) (req (by omega) (by omega) (Or.inl ⟨by omega, by omega⟩)) P8
  have A6 := down_A6 (by omega) M7
  have K5 := down_K5 (by omega) A6
  have C4 := down_C 4 (by omega) (by omega) K5
  have C3 := down_C 3 (by omega) (by omega) K5
  have A2 := down_A2 (by omega) C3
  have A1 := down_A1 (by omega) A2
  exact ⟨P8, M7, A6, K5, C4, C3, A2, A1⟩

/-- a tree whose own level is the comparison level: everything follows from `C3` and `C4` -/
theorem lem_of_C {g : G} (hp : g.prec = 4) (C3 : CT 3 g) (C4 : CT 4 g) : Lem g := by
  have A2 := down_A2 (by omega) C3
  have A1 := down_A1 (by omega) A2
  obtain ⟨P8, M7, A6, K5, _, _, _⟩ := up_from_A1 (by omega) A1
  exact ⟨P8, M7 (by omega), A6 (by omega), K5 (by omega), C4, C3, A2, A1⟩

/-! ## one case lemma per constructor -/
macro "hnc" : tactic => `(tactic| exact headNot_cons (by simp))

theorem max_le_of {a b c d : Nat} (h : max a b + d ≤ c) : a + d ≤ c ∧ b + d ≤ c := by
  have := Nat.le_max_left a b; have := Nat.le_max_right a b; omega

theorem op_tk_ne (op : Op) : op.tk ≠ .cont ∧ op.tk ≠ .lparen ∧ op.tk ≠ .other ∧ op.tk ≠ .not := by
  cases op <;> simp [Op.tk]

theorem op_primStop (op : Op) (lit : String) (rest : List PTok) : PrimStop (⟨op.tk, lit⟩ :: rest) :=
  ⟨headNot_cons (op_tk_ne op).1, headNot_cons (op_tk_ne op).2.1, headNot_cons (op_tk_ne op).2.2.1⟩

theorem lem_atom (a : Atom) : Lem (G.atom a) :=
  lem_of_P8 rfl (fun d X _ hp => by simpa [render, G.toEx] using (ev_pPrim_atom (d := d) (a := a) hp))

theorem lem_mul (op : Op) (hop : op = .star ∨ op = .div ∨ op = .mod) (lit : String) (l r : G) (ihl : Lem l) (ihr : Lem r) :
    Lem (G.bin op lit l r) := by
  have hprec : op.prec = 7 := by rcases hop with rfl | rfl | rfl <;> rfl
  have hsides : op.sides = (7, 8) := by rcases hop with rfl | rfl | rfl <;> rfl
  have htk : op.tk = .star ∨ op.tk = .div ∨ op.tk = .mod := by rcases hop with rfl | rfl | rfl <;> simp [Op.tk]
  have hp7 : (G.bin op lit l r).prec = 7 := hprec
  have M7 : M7T (G.bin op lit l r) := by
    intro d X R hd hp h
    simp only [need, hsides, hprec, Nat.lt_irrefl, if_false] at hd
    obtain ⟨hdl, hdr⟩ := max_le_of hd
    have hr := ihr.P8 d X hdr hp
    have hstep : Ev (fun f => lMul f d l.toEx (⟨op.tk, lit⟩ :: (render 8 r ++ X))) R :=
      ev_lMul_op htk (ev_mulStep (render_ne_nil 8 r X) hr h)
    have := ihl.M7 d (⟨op.tk, lit⟩ :: (render 8 r ++ X)) R hdl (op_primStop op lit _) hstep
    simpa [render, hsides, hprec, G.toEx, List.append_assoc] using this
  have A6 := down_A6 (by omega) M7
  have K5 := down_K5 (by omega) A6
  have C4 := down_C 4 (by omega) (by omega) K5
  have C3 := down_C 3 (by omega) (by omega) K5
  have A2 := down_A2 (by omega) C3
  have A1 := down_A1 (by omega) A2
  obtain ⟨P8, _, _, _, _, _, _⟩ := up_from_A1 (by omega) A1
  exact ⟨P8, M7, A6, K5, C4, C3, A2, A1⟩

theorem lem_add (op : Op) (hop : op = .plus ∨ op = .minus) (lit : String) (l r : G) (ihl : Lem l) (ihr : Lem r) :
    Lem (G.bin op lit l r) := by
  have hprec : op.prec = 6 := by rcases hop with rfl | rfl <;> rfl
  have hsides : op.sides = (6, 7) := by rcases hop with rfl | rfl <;> rfl
  have htk : op.tk = .plus ∨ op.tk = .minus := by rcases hop with rfl | rfl <;> simp [Op.tk]
  have hp6 : (G.bin op lit l r).prec = 6 := hprec
  have hn7 : ∀ rest, N7 (⟨op.tk, lit⟩ :: rest) := by
    intro rest
    rcases htk with e | e <;> exact ⟨headNot_cons (by simp [e]), headNot_cons (by simp [e]), headNot_cons (by simp [e])⟩
  have A6 : A6T (G.bin op lit l r) := by
    intro d X R hd hp hn h
    simp only [need, hsides, hprec, Nat.lt_irrefl, if_false] at hd
    obtain ⟨hdl, hdr⟩ := max_le_of hd
    have hr := ihr.M7 d X _ hdr hp (ev_lMul_stop hn.1 hn.2.1 hn.2.2)
    have hstep : Ev (fun f => lAdd f d l.toEx (⟨op.tk, lit⟩ :: (render 7 r ++ X))) R := by
      rcases htk with e | e
      · rw [e]; exact ev_lAdd_plus hr h
      · rw [e]; exact ev_lAdd_minus hr h
    have := ihl.A6 d (⟨op.tk, lit⟩ :: (render 7 r ++ X)) R hdl (op_primStop op lit _) (hn7 _) hstep
    simpa [render, hsides, hprec, G.toEx, List.append_assoc] using this
  have K5 := down_K5 (by omega) A6
  have C4 := down_C 4 (by omega) (by omega) K5
  have C3 := down_C 3 (by omega) (by omega) K5
  have A2 := down_A2 (by omega) C3
  have A1 := down_A1 (by omega) A2
  obtain ⟨P8, M7, _, _, _, _, _⟩ := up_from_A1 (by omega) A1
  exact ⟨P8, M7 (by omega), A6, K5, C4, C3, A2, A1⟩

theorem lem_cat (lit : String) (l r : G) (ihl : Lem l) (ihr : Lem r) : Lem (G.bin .cat lit l r) := by
  have hp5 : (G.bin .cat lit l r).prec = 5 := rfl
  have K5 : K5T (G.bin .cat lit l r) := by
    intro d X R hd hp hn h
    simp only [need, Op.sides, Op.prec, Nat.lt_irrefl, if_false] at hd
    obtain ⟨hdl, hdr⟩ := max_le_of hd
    have hr := ihr.A6 d X _ hdr hp hn.1 (ev_lAdd_stop hn.2.1 hn.2.2)
    have hstep := ev_lCat_step hr h
    have := ihl.K5 d (_ :: (render 6 r ++ X)) R hdl ⟨by hnc, by hnc, by hnc⟩ ⟨⟨by hnc, by hnc, by hnc⟩, by hnc, by hnc⟩ hstep
    simpa [render, Op.sides, Op.tk, Op.prec, G.toEx, List.append_assoc] using this
  have C4 := down_C 4 (by omega) (by omega) K5
  have C3 := down_C 3 (by omega) (by omega) K5
  have A2 := down_A2 (by omega) C3
  have A1 := down_A1 (by omega) A2
  obtain ⟨P8, M7, A6, _, _, _, _⟩ := up_from_A1 (by omega) A1
  exact ⟨P8, M7 (by omega), A6 (by omega), K5, C4, C3, A2, A1⟩

/-- the class facts of a comparison-level keyword (or the NOT before it) as the head of a continuation -/
theorem kw_stops (t : PTok) (hk : t.k = .cmp ∨ t.k = .is ∨ t.k = .between ∨ t.k = .like ∨ t.k = .ilike ∨ t.k = .in_ ∨ t.k = .not ∨ t.k = .and)
    (rest : List PTok) : PrimStop (t :: rest) ∧ N5 (t :: rest) := by
  apply stops_of_class
  rcases hk with h | h | h | h | h | h | h | h <;> simp [h]

theorem negkw_stops (neg : Option String) (kw : PTok) (hk : kw.k = .between ∨ kw.k = .like ∨ kw.k = .ilike ∨ kw.k = .in_)
    (rest : List PTok) : PrimStop (negToks neg ++ kw :: rest) ∧ N5 (negToks neg ++ kw :: rest) := by
  cases neg with
  | none =>
    simp only [negToks, List.nil_append]
    exact kw_stops kw (by rcases hk with h | h | h | h <;> simp [h]) rest
  | some nl =>
    simp only [negToks, List.cons_append, List.nil_append]
    exact kw_stops ⟨.not, nl⟩ (by simp) _

theorem lem_cmp (lit : String) (hpl : plainLit lit = true) (l r : G) (ihl : Lem l) (ihr : Lem r) : Lem (G.bin .cmp lit l r) := by
  have C : ∀ k, k = 3 ∨ k = 4 → CT k (G.bin .cmp lit l r) := by
    intro k hk d X hd hp hn
    have hneed : need k (G.bin .cmp lit l r) = max (need 5 l) (need 5 r) := by
      rcases hk with rfl | rfl <;> simp [need, Op.sides, Op.prec]
    rw [hneed] at hd
    obtain ⟨hdl, hdr⟩ := max_le_of hd
    have s := kw_stops ⟨.cmp, lit⟩ (Or.inl rfl) (render 5 r ++ X)
    have h1 := ihl.K5 d (⟨.cmp, lit⟩ :: (render 5 r ++ X)) _ hdl s.1 s.2.1 (ev_lCat_stop s.2.2)
    have h2 := ihr.K5 d X _ hdr hp hn.1.1 (ev_lCat_stop hn.1.2)
    have := ev_pCmp h1 (ev_pTail_cmp hpl h2)
    rcases hk with rfl | rfl <;> simpa [render, Op.sides, Op.tk, Op.prec, G.toEx, List.append_assoc] using this
  exact lem_of_C rfl (C 3 (Or.inl rfl)) (C 4 (Or.inr rfl))

theorem and_stops (lit : String) (hpl : plainLit lit = true) (rest : List PTok) :
    PrimStop (⟨.and, lit⟩ :: rest) ∧ N4 (⟨.and, lit⟩ :: rest) := by
  have s := kw_stops ⟨.and, lit⟩ (by simp) rest
  exact ⟨s.1, s.2, cmpStop_of_class rest (by simp) hpl⟩

theorem lem_and (lit : String) (hpl : plainLit lit = true) (l r : G) (ihl : Lem l) (ihr : Lem r) : Lem (G.bin .and lit l r) := by
  have hp2 : (G.bin .and lit l r).prec = 2 := rfl
  have A2 : A2T (G.bin .and lit l r) := by
    intro d X R hd hp hn h
    simp only [need, Op.sides, Op.prec, Nat.lt_irrefl, if_false] at hd
    obtain ⟨hdl, hdr⟩ := max_le_of hd
    have hr := ihr.C3 d X hdr hp hn
    have hstep := ev_lAnd_step hr h
    have s := and_stops lit hpl (render 3 r ++ X)
    have := ihl.A2 d (_ :: (render 3 r ++ X)) R hdl s.1 s.2 hstep
    simpa [render, Op.sides, Op.tk, Op.prec, G.toEx, List.append_assoc] using this
  have A1 := down_A1 (by omega) A2
  obtain ⟨P8, M7, A6, K5, C4, C3, _⟩ := up_from_A1 (by omega) A1
  exact ⟨P8, M7 (by omega), A6 (by omega), K5 (by omega), C4 (by omega), C3 (by omega), A2, A1⟩

theorem lem_or (lit : String) (hpl : plainLit lit = true) (l r : G) (ihl : Lem l) (ihr : Lem r) : Lem (G.bin .or lit l r) := by
  have hp1 : (G.bin .or lit l r).prec = 1 := rfl
  have A1 : A1T (G.bin .or lit l r) := by
    intro d X R hd hp hn h
    simp only [need, Op.sides, Op.prec, Nat.lt_irrefl, if_false] at hd
    obtain ⟨hdl, hdr⟩ := max_le_of hd
    have hr := ihr.A2 d X _ hdr hp hn.1 (ev_lAnd_stop hn.2)
    have hstep := ev_lOr_step hr h
    have s := stops_of_class (t := ⟨.or, lit⟩) (render 2 r ++ X) (by simp)
    have c := cmpStop_of_class (t := ⟨.or, lit⟩) (render 2 r ++ X) (by simp) hpl
    have := ihl.A1 d (_ :: (render 2 r ++ X)) R hdl s.1 ⟨⟨s.2, c⟩, by hnc⟩ hstep
    simpa [render, Op.sides, Op.tk, Op.prec, G.toEx, List.append_assoc] using this
  obtain ⟨P8, M7, A6, K5, C4, C3, A2⟩ := up_from_A1 (by omega) A1
  exact ⟨P8, M7 (by omega), A6 (by omega), K5 (by omega), C4 (by omega), C3 (by omega), A2 (by omega), A1⟩

theorem lem_not (lit : String) (e : G) (ih : Lem e) : Lem (G.not lit e) := by
  have hp3 : (G.not lit e).prec = 3 := rfl
  have C3 : CT 3 (G.not lit e) := by
    intro d X hd hp hn
    have hrender : render 3 (G.not lit e) = ⟨.not, lit⟩ :: render 3 e := by simp [render]
    have hneed : need 3 (G.not lit e) = need 3 e + 1 := by simp [need]
    rw [hneed] at hd
    have hin := ih.C3 (d + 1) X (by omega) hp hn
    have hprim := ev_pPrim_not (lit := lit) (render_head_not_other 3 e X) (by unfold maxDepth at *; omega) hin
    have hmul := ev_pMul hprim (ev_lMul_stop hn.1.1.1.1 hn.1.1.1.2.1 hn.1.1.1.2.2)
    have hadd := ev_pAdd hmul (ev_lAdd_stop hn.1.1.2.1 hn.1.1.2.2)
    have hcat := ev_pCat hadd (ev_lCat_stop hn.1.2)
    have := ev_pCmp hcat (ev_pTail_stop hn.2)
    simpa [hrender, G.toEx] using this
  have A2 := down_A2 (by omega) C3
  have A1 := down_A1 (by omega) A2
  obtain ⟨P8, M7, A6, K5, C4, _, _⟩ := up_from_A1 (by omega) A1
  exact ⟨P8, M7 (by omega), A6 (by omega), K5 (by omega), C4 (by omega), C3, A2, A1⟩

/-! ### predicates -/
theorem pIs_ok (l : Ex) (neg : Option String) (nl : String) (X : List PTok) :
    pIs l (negToks neg ++ ⟨.null, nl⟩ :: X) = .ok (.isnull neg.isSome l) X := by
  cases neg <;> simp [negToks, pIs]

theorem lem_isnull (isLit : String) (neg : Option String) (nullLit : String) (e : G) (hpl : plainLit isLit = true) (ih : Lem e) :
    Lem (G.isnull isLit neg nullLit e) := by
  have C : ∀ k, k = 3 ∨ k = 4 → CT k (G.isnull isLit neg nullLit e) := by
    intro k hk d X hd hp hn
    have hneed : need k (G.isnull isLit neg nullLit e) = need 5 e := by rcases hk with rfl | rfl <;> simp [need]
    rw [hneed] at hd
    have s := kw_stops ⟨.is, isLit⟩ (by simp) (negToks neg ++ ⟨.null, nullLit⟩ :: X)
    have h1 := ih.K5 d (⟨.is, isLit⟩ :: (negToks neg ++ ⟨.null, nullLit⟩ :: X)) _ hd s.1 s.2.1 (ev_lCat_stop s.2.2)
    have h2 : Ev (fun f => pTail f d e.toEx (⟨.is, isLit⟩ :: (negToks neg ++ ⟨.null, nullLit⟩ :: X))) (.ok (.isnull neg.isSome e.toEx) X) := by
      have := ev_pTail_is (d := d) (l := e.toEx) (ts := negToks neg ++ ⟨.null, nullLit⟩ :: X) hpl
      rwa [pIs_ok] at this
    have := ev_pCmp h1 h2
    rcases hk with rfl | rfl <;> simpa [render, G.toEx, List.append_assoc] using this
  exact lem_of_C rfl (C 3 (Or.inl rfl)) (C 4 (Or.inr rfl))

theorem lem_between (neg : Option String) (bLit andLit : String) (e lo hi : G)
    (hneg : neg = none ∨ isWord bLit "BETWEEN" = true) (ihe : Lem e) (ihlo : Lem lo) (ihhi : Lem hi) :
    Lem (G.between neg bLit andLit e lo hi) := by
  have C : ∀ k, k = 3 ∨ k = 4 → CT k (G.between neg bLit andLit e lo hi) := by
    intro k hk d X hd hp hn
    have hneed : need k (G.between neg bLit andLit e lo hi) = max (need 5 e) (max (need 5 lo) (need 5 hi)) := by
      rcases hk with rfl | rfl <;> simp [need]
    rw [hneed] at hd
    obtain ⟨hde, hd2⟩ := max_le_of hd
    obtain ⟨hdlo, hdhi⟩ := max_le_of hd2
    have hhi := ihhi.K5 d X _ hdhi hp hn.1.1 (ev_lCat_stop hn.1.2)
    have sa := kw_stops ⟨.and, andLit⟩ (by simp) (render 5 hi ++ X)
    have hlo := ihlo.K5 d (⟨.and, andLit⟩ :: (render 5 hi ++ X)) _ hdlo sa.1 sa.2.1 (ev_lCat_stop sa.2.2)
    have hb := ev_pBetween (neg := neg.isSome) (l := e.toEx) hlo hhi
    have hnok : NegOK neg ⟨.between, bLit⟩ := by
      rcases hneg with h | h
      · exact Or.inl h
      · exact Or.inr (by simp [notLookahead, h])
    have ht := ev_pTail_pred (d := d) (l := e.toEx) (kw := ⟨.between, bLit⟩) (by simp) hnok (ev_pPred_between hb)
    have s := negkw_stops neg ⟨.between, bLit⟩ (Or.inl rfl) (render 5 lo ++ ⟨.and, andLit⟩ :: (render 5 hi ++ X))
    have h1 := ihe.K5 d _ _ hde s.1 s.2.1 (ev_lCat_stop s.2.2)
    have := ev_pCmp h1 ht
    rcases hk with rfl | rfl <;> simpa [render, G.toEx, List.append_assoc] using this
  exact lem_of_C rfl (C 3 (Or.inl rfl)) (C 4 (Or.inr rfl))

theorem lem_like (neg : Option String) (op : PTok) (e pat : G)
    (hop : op.k = .like ∨ (op.k = .ilike ∧ isWord op.lit "ILIKE" = true))
    (hneg : neg = none ∨ isWord op.lit "LIKE" = true ∨ isWord op.lit "ILIKE" = true) (ihe : Lem e) (ihp : Lem pat) :
    Lem (G.like neg op e pat) := by
  have hk1 : op.k ≠ .not := by rcases hop with h | ⟨h, _⟩ <;> simp [h]
  have hk2 : op.k ≠ .between := by rcases hop with h | ⟨h, _⟩ <;> simp [h]
  have hl : isLikeOp op = true := by rcases hop with h | ⟨_, h⟩ <;> simp [isLikeOp, h]
  have C : ∀ k, k = 3 ∨ k = 4 → CT k (G.like neg op e pat) := by
    intro k hk d X hd hp hn
    have hneed : need k (G.like neg op e pat) = max (need 5 e) (need 8 pat) := by rcases hk with rfl | rfl <;> simp [need]
    rw [hneed] at hd
    obtain ⟨hde, hdp⟩ := max_le_of hd
    have hpat := ihp.P8 d X hdp hp
    have hnok : NegOK neg op := by
      rcases hneg with h | h | h
      · exact Or.inl h
      · exact Or.inr (by simp [notLookahead, h])
      · exact Or.inr (by simp [notLookahead, h])
    have ht := ev_pTail_pred (d := d) (l := e.toEx) (kw := op) hk1 hnok (ev_pPred_like hk2 hl (ev_pLike hpat))
    have s := negkw_stops neg op (by rcases hop with h | ⟨h, _⟩ <;> simp [h]) (render 8 pat ++ X)
    have h1 := ihe.K5 d _ _ hde s.1 s.2.1 (ev_lCat_stop s.2.2)
    have := ev_pCmp h1 ht
    rcases hk with rfl | rfl <;> simpa [render, G.toEx, List.append_assoc] using this
  exact lem_of_C rfl (C 3 (Or.inl rfl)) (C 4 (Or.inr rfl))

/-- the items of a parenthesised IN list after the first -/
theorem inlist_items : (rest : GL) → (g : G) → Lem g → LemL rest → ∀ d X, max (need 1 g + 1) (needL rest) + d ≤ maxDepth →
    EvL (fun f => pInList f d (render 1 g ++ (renderMore rest ++ rp :: X))) (.ok (.cons g.toEx rest.toExL) X)
  | .nil, g, hg, _, d, X, hd => by
    have := evL_pInList_last (item_expr hg.A1 d rp (Or.inl rfl) rp_plain X (by simp only [needL] at hd; omega))
    simpa [renderMore, GL.toExL, rp] using this
  | .cons g' rest', g, hg, hr, d, X, hd => by
    simp only [needL] at hd
    obtain ⟨h1, h2⟩ := max_le_of hd
    have ih := inlist_items rest' g' hr.1 hr.2 d X h2
    have hi := item_expr hg.A1 d comma (Or.inr rfl) comma_plain (render 1 g' ++ (renderMore rest' ++ rp :: X)) (by omega)
    have := evL_pInList_cons hi ih
    simpa [renderMore, GL.toExL, comma, List.append_assoc] using this

theorem lem_inlist (neg : Option String) (inLit : String) (e first : G) (rest : GL)
    (hpl : plainLit inLit = true) (hneg : neg = none ∨ isWord inLit "IN" = true)
    (ihe : Lem e) (ihf : Lem first) (ihr : LemL rest) : Lem (G.inlist neg inLit e first rest) := by
  have C : ∀ k, k = 3 ∨ k = 4 → CT k (G.inlist neg inLit e first rest) := by
    intro k hk d X hd hp hn
    have hneed : need k (G.inlist neg inLit e first rest) = max (need 5 e) (max (need 1 first + 1) (needL rest)) := by
      rcases hk with rfl | rfl <;> simp [need]
    rw [hneed] at hd
    obtain ⟨hde, hdi⟩ := max_le_of hd
    have hitems := inlist_items rest first ihf ihr d X hdi
    have hin := ev_pIn (neg := neg.isSome) (l := e.toEx) (plit := "(")
      (render_head_not_other 1 first (renderMore rest ++ rp :: X)) hitems
    have hnok : NegOK neg ⟨.in_, inLit⟩ := by
      rcases hneg with h | h
      · exact Or.inl h
      · exact Or.inr (by simp [notLookahead, h])
    have ht := ev_pTail_pred (d := d) (l := e.toEx) (kw := ⟨.in_, inLit⟩) (by simp) hnok (ev_pPred_in hpl hin)
    have s := negkw_stops neg ⟨.in_, inLit⟩ (by simp) (lp :: (render 1 first ++ (renderMore rest ++ rp :: X)))
    have h1 := ihe.K5 d _ _ hde s.1 s.2.1 (ev_lCat_stop s.2.2)
    have := ev_pCmp h1 ht
    rcases hk with rfl | rfl <;> simpa [render, G.toEx, GL.toExL, lp, List.append_assoc] using this
  exact lem_of_C rfl (C 3 (Or.inl rfl)) (C 4 (Or.inr rfl))

/-! ### calls -/
theorem args_items : (rest : GL) → (g : G) → Lem g → LemL rest → ∀ d X, max (need 1 g + 1) (needL rest) + d ≤ maxDepth →
    EvL (fun f => pArgs f d (render 1 g ++ (renderMore rest ++ rp :: X))) (.ok (.cons g.toEx rest.toExL) X)
  | .nil, g, hg, _, d, X, hd => by
    have := evL_pArgs_last (render_head_not_other 1 g (rp :: X))
      (item_expr hg.A1 d rp (Or.inl rfl) rp_plain X (by simp only [needL] at hd; omega))
    simpa [renderMore, GL.toExL, rp] using this
  | .cons g' rest', g, hg, hr, d, X, hd => by
    simp only [needL] at hd
    obtain ⟨h1, h2⟩ := max_le_of hd
    have ih := args_items rest' g' hr.1 hr.2 d X h2
    have hi := item_expr hg.A1 d comma (Or.inr rfl) comma_plain (render 1 g' ++ (renderMore rest' ++ rp :: X)) (by omega)
    have := evL_pArgs_cons (render_head_not_other 1 g (comma :: (render 1 g' ++ (renderMore rest' ++ rp :: X)))) hi ih
    simpa [renderMore, GL.toExL, comma, List.append_assoc] using this

theorem lem_call (n : String) (args : GL) (hn : isWord n "MATCH" = false) (ih : LemL args) : Lem (G.call n args) := by
  refine lem_of_P8 rfl ?_
  intro d X hd hp
  cases args with
  | nil =>
    have := ev_pPrim_call0 (d := d) (n := n) (l1 := "(") (l2 := ")") (X := X)
    rw [afterCall_ok hn hp] at this
    simpa [render, renderArgs, G.toEx, GL.toExL, lp, rp] using this
  | cons g rest =>
    have hd' : max (need 1 g + 1) (needL rest) + d ≤ maxDepth := by simpa [need, needL] using hd
    have hitems := args_items rest g ih.1 ih.2 d X hd'
    have := ev_pPrim_call (n := n) (l1 := "(") (render_head_not_rparen 1 g (renderMore rest ++ rp :: X)) hitems
    rw [afterCall_ok hn hp] at this
    simpa [render, renderArgs, G.toEx, GL.toExL, lp, List.append_assoc] using this

/-! ## assembling: structural recursion over the grammar -/
mutual
theorem lem : (g : G) → g.WF = true → Lem g
  | .atom a, _ => lem_atom a
  | .call n args, h => by
    simp only [G.WF, Bool.and_eq_true, Bool.not_eq_true'] at h
    exact lem_call n args h.1 (lemL args h.2)
  | .bin op lit l r, h => by
    simp only [G.WF, Bool.and_eq_true] at h
    have ihl := lem l h.1.2
    have ihr := lem r h.2
    cases op with
    | star => exact lem_mul .star (by simp) lit l r ihl ihr
    | div => exact lem_mul .div (by simp) lit l r ihl ihr
    | mod => exact lem_mul .mod (by simp) lit l r ihl ihr
    | plus => exact lem_add .plus (by simp) lit l r ihl ihr
    | minus => exact lem_add .minus (by simp) lit l r ihl ihr
    | cat => exact lem_cat lit l r ihl ihr
    | cmp => exact lem_cmp lit h.1.1 l r ihl ihr
    | and => exact lem_and lit h.1.1 l r ihl ihr
    | or => exact lem_or lit h.1.1 l r ihl ihr
  | .not lit e, h => by
    simp only [G.WF] at h
    exact lem_not lit e (lem e h)
  | .isnull isLit neg nullLit e, h => by
    simp only [G.WF, Bool.and_eq_true] at h
    exact lem_isnull isLit neg nullLit e h.1 (lem e h.2)
  | .between neg bLit andLit e lo hi, h => by
    simp only [G.WF, Bool.and_eq_true, Bool.or_eq_true, Option.isNone_iff_eq_none] at h
    exact lem_between neg bLit andLit e lo hi h.1.1.1.1 (lem e h.1.1.2) (lem lo h.1.2) (lem hi h.2)
  | .like neg op e pat, h => by
    simp only [G.WF, Bool.and_eq_true, Bool.or_eq_true, Option.isNone_iff_eq_none, beq_iff_eq] at h
    exact lem_like neg op e pat h.1.1.1 (by rcases h.1.1.2 with (h' | h') | h' <;> simp [h']) (lem e h.1.2) (lem pat h.2)
  | .inlist neg inLit e first rest, h => by
    simp only [G.WF, Bool.and_eq_true, Bool.or_eq_true, Option.isNone_iff_eq_none] at h
    exact lem_inlist neg inLit e first rest h.1.1.1.1 h.1.1.1.2 (lem e h.1.1.2) (lem first h.1.2) (lemL rest h.2)
theorem lemL : (l : GL) → l.WFL = true → LemL l
  | .nil, _ => trivial
  | .cons g rest, h => by
    simp only [GL.WFL, Bool.and_eq_true] at h
    exact ⟨lem g h.1, lemL rest h.2⟩
end

/-- **C03 (expression ladder)**: every well-formed model expression, written with the parentheses precedence requires,
    parses back to itself — for every continuation that starts no operator and enough room under the depth limit -/
theorem parse_render (g : G) (hw : g.WF = true) (X : List PTok) (hp : PrimStop X) (hn : N1 X) (hd : need 1 g + 1 ≤ maxDepth) :
    ∃ f0, ∀ f, f0 ≤ f → pExpr f 0 (render 1 g ++ X) = .ok g.toEx X :=
  ev_pExpr (by unfold maxDepth at *; omega) ((lem g hw).A1 1 X _ (by omega) hp hn.1 (ev_lOr_stop hn.2))

end GoSQLXModel.ExprParse
