import GoSQLXModel.Model.Scan
/-!
# The minimum-severity threshold, further

For every classifier, configuration, traversal table and tree:
* `scan_low_all` — the lowest threshold filters nothing;
* `scan_min_rank` — nothing below the threshold is ever reported;
* `threshold_mono` — raising the threshold only removes findings: the result is a sublist (same order, no additions)
  of the result under any lower threshold;
* `threshold_twice` — filtering a scan result again by a threshold is scanning with the higher of the two;
* `counts_below_zero` — the per-severity counter of every severity below the threshold is zero.
-/
namespace GoSQLXModel.Scan

theorem keep_low (f : Finding) : keep .low f = true := by
  cases f with | mk p s => cases s <;> simp [keep, Sev.rank]

theorem scan_low_all (cls : CharClass) (cfg : Cfg) (t : ChildTable) (tree : Val) :
    scan cls cfg t .low tree = (tree.walkVals t none).flatMap (findingsAt cls cfg) := by
  unfold scan
  congr 1
  funext n
  exact List.filter_eq_self.2 (fun f _ => keep_low f)

theorem scan_min_rank (cls : CharClass) (cfg : Cfg) (t : ChildTable) (min : Sev) (tree : Val) :
    ∀ f ∈ scan cls cfg t min tree, min.rank ≤ f.sev.rank := by
  intro f hf
  rw [threshold] at hf
  simpa [keep] using (List.mem_filter.1 hf).2

theorem keep_of_le {a b : Sev} (h : a.rank ≤ b.rank) (f : Finding) (hb : keep b f = true) : keep a f = true := by
  simp only [keep, decide_eq_true_eq] at hb ⊢; omega

theorem threshold_mono (cls : CharClass) (cfg : Cfg) (t : ChildTable) (a b : Sev) (tree : Val) (h : a.rank ≤ b.rank) :
    (scan cls cfg t b tree).Sublist (scan cls cfg t a tree) := by
  rw [threshold cls cfg t b, threshold cls cfg t a]
  have : (scan cls cfg t .low tree).filter (keep b) = ((scan cls cfg t .low tree).filter (keep a)).filter (keep b) := by
    rw [List.filter_filter]
    congr 1
    funext f
    cases hb : keep b f
    · simp
    · simp [keep_of_le h f hb]
  rw [this]
  exact List.filter_sublist

theorem threshold_twice (cls : CharClass) (cfg : Cfg) (t : ChildTable) (a b : Sev) (tree : Val) (h : a.rank ≤ b.rank) :
    (scan cls cfg t a tree).filter (keep b) = scan cls cfg t b tree := by
  rw [threshold cls cfg t a, threshold cls cfg t b, List.filter_filter]
  congr 1
  funext f
  cases hb : keep b f
  · simp
  · simp [keep_of_le h f hb]

theorem counts_below_zero (cls : CharClass) (cfg : Cfg) (t : ChildTable) (min s : Sev) (tree : Val) (h : s.rank < min.rank) :
    ((scan cls cfg t min tree).filter (·.sev == s)).length = 0 := by
  rw [List.length_eq_zero_iff, List.filter_eq_nil_iff]
  intro f hf hs
  have := scan_min_rank cls cfg t min tree f hf
  have e : f.sev = s := by simpa using hs
  rw [e] at this
  omega

end GoSQLXModel.Scan
