import GoSQLXModel.Proofs.LintLex
/-!
# The mixed-indentation fixer keeps the tokens (L002 against the tokenizer model)

`Lint.fixL002` rewrites, line by line, the tabs of the leading whitespace into four spaces.  Without lines
(`expC`, `fixL002_eq_expC`): a left-to-right pass with one bit of state, "still in the leading whitespace of a line".
Pushed through a tame text of the reference grammar (`seq_exp`) it only lengthens blank runs, so the fixed text has the
same lexemes and comments and still passes the junction check: `fixL002_keeps_tokens`.
-/
namespace GoSQLXModel.Lint

/-- tabs of the leading whitespace of every line become four spaces; `st`: still in the leading whitespace -/
def expC : Bool → List Char → List Char
  | _, [] => []
  | st, c :: cs =>
    if st && c = '\t' then ' ' :: ' ' :: ' ' :: ' ' :: expC true cs
    else if st && c = ' ' then ' ' :: expC true cs
    else c :: expC (c = '\n') cs

theorem fixLineL002_eq (l : List Char) : fixLineL002 l = expandTabs (leadingWs l) ++ trimLeft l := by
  unfold fixLineL002
  split
  · rename_i h
    have : leadingWs l = [] := List.isEmpty_iff.1 h
    have h2 := takeWhile_append_dropWhile' l
    rw [this] at h2 ⊢
    simpa [expandTabs] using h2.symm
  · rfl

theorem fixLineL002_tab (l : List Char) : fixLineL002 ('\t' :: l) = ' ' :: ' ' :: ' ' :: ' ' :: fixLineL002 l := by
  rw [fixLineL002_eq, fixLineL002_eq]
  simp [leadingWs, trimLeft, isBlankChar, expandTabs, List.takeWhile, List.dropWhile]

theorem fixLineL002_space (l : List Char) : fixLineL002 (' ' :: l) = ' ' :: fixLineL002 l := by
  rw [fixLineL002_eq, fixLineL002_eq]
  simp [leadingWs, trimLeft, isBlankChar, expandTabs, List.takeWhile, List.dropWhile]

theorem fixLineL002_other (c : Char) (l : List Char) (h : isBlankChar c = false) : fixLineL002 (c :: l) = c :: l := by
  unfold fixLineL002
  simp [leadingWs, List.takeWhile, h]

/-- the first line as it is, the others fixed -/
def restFixed : List (List Char) → List (List Char)
  | [] => []
  | l :: ls => l :: ls.map fixLineL002

theorem joinLines_restFixed_cons (c : Char) (l : List Char) (ls : List (List Char)) :
    joinLines (restFixed ((c :: l) :: ls)) = c :: joinLines (restFixed (l :: ls)) := by
  simp only [restFixed]
  exact joinLines_cons_cons c l _

/-- **L002 without lines** -/
theorem fixL002_eq_expC (s : List Char) :
    fixL002 s = expC true s ∧ joinLines (restFixed (splitLines s)) = expC false s := by
  induction s with
  | nil => constructor <;> rfl
  | cons c cs ih =>
    obtain ⟨ih1, ih2⟩ := ih
    unfold fixL002 at ih1 ⊢
    by_cases hc : c = '\n'
    · subst hc
      have hs : splitLines ('\n' :: cs) = [] :: splitLines cs := by simp [splitLines]
      have hne : (splitLines cs).map fixLineL002 ≠ [] := by simp [splitLines_ne_nil]
      have hf : fixLineL002 [] = [] := rfl
      constructor
      · rw [hs, List.map_cons, joinLines_cons _ _ hne, ih1, hf]
        simp [expC]
      · rw [hs]
        simp only [restFixed]
        rw [joinLines_cons _ _ hne, ih1]
        simp [expC]
    · cases hsp : splitLines cs with
      | nil => exact absurd hsp (splitLines_ne_nil cs)
      | cons l ls =>
        have hs : splitLines (c :: cs) = (c :: l) :: ls := by simp [splitLines, hc, hsp]
        rw [hsp] at ih1 ih2
        simp only [List.map_cons] at ih1
        constructor
        · rw [hs]
          simp only [List.map_cons]
          by_cases ht : c = '\t'
          · subst ht
            rw [fixLineL002_tab]
            simp only [expC, Bool.true_and, decide_true, if_true]
            rw [← ih1]
            simp [joinLines_cons_cons]
          · by_cases hsp2 : c = ' '
            · subst hsp2
              rw [fixLineL002_space]
              simp only [expC, Bool.true_and]
              rw [← ih1]
              simp [joinLines_cons_cons]
            · have hb : isBlankChar c = false := by simp [isBlankChar, ht, hsp2]
              rw [fixLineL002_other c l hb, joinLines_cons_cons]
              simp only [expC, Bool.true_and, ht, hsp2, decide_false, hc]
              rw [← ih2]
              rfl
        · rw [hs, joinLines_restFixed_cons, ih2]
          simp [expC, hc]

end GoSQLXModel.Lint

namespace GoSQLXModel.Lex
open GoSQLXModel

def expB : Bool → Bytes → Bytes
  | _, [] => []
  | st, b :: bs =>
    if st && b == 9 then 32 :: 32 :: 32 :: 32 :: expB true bs
    else if st && b == 32 then 32 :: expB true bs
    else b :: expB (b == 10) bs

theorem tab_char_byte : ∀ b : UInt8, (decide (Char.ofNat b.toNat = '\t')) = (b == 9) := by
  apply forall_uint8; decide +kernel
theorem space_char_byte : ∀ b : UInt8, (decide (Char.ofNat b.toNat = ' ')) = (b == 32) := by
  apply forall_uint8; decide +kernel
theorem nl_char_byte' : ∀ b : UInt8, (decide (Char.ofNat b.toNat = '\n')) = (b == 10) := by
  apply forall_uint8; decide +kernel

theorem expC_asChars : ∀ (bs : Bytes) (st : Bool), Lint.expC st (asChars bs) = asChars (expB st bs) := by
  intro bs
  induction bs with
  | nil => intro st; rfl
  | cons b bs ih =>
    intro st
    simp only [asChars, List.map_cons] at ih ⊢
    simp only [Lint.expC, expB]
    have h1 := tab_char_byte b
    have h2 := space_char_byte b
    have h3 := nl_char_byte' b
    by_cases ht : b = 9
    · subst ht
      cases st
      · simp [ih]
      · simp [ih]
    · by_cases hs : b = 32
      · subst hs
        cases st
        · simp [ih]
        · simp [ih]
      · have e1 : (b == 9) = false := by simpa using ht
        have e2 : (b == 32) = false := by simpa using hs
        have c1 : ¬ (Char.ofNat b.toNat = '\t') := by
          intro h; rw [show decide (Char.ofNat b.toNat = '\t') = true from by simpa using h] at h1; rw [e1] at h1; exact absurd h1 (by simp)
        have c2 : ¬ (Char.ofNat b.toNat = ' ') := by
          intro h; rw [show decide (Char.ofNat b.toNat = ' ') = true from by simpa using h] at h2; rw [e2] at h2; exact absurd h2 (by simp)
        simp only [c1, c2, decide_false, Bool.and_false, Bool.false_eq_true, if_false, e1, e2, h3, List.map_cons, ih]

/-- **the L002 fixer on an ASCII text is `expB true`** -/
theorem fixL002_bytes (bs : Bytes) : asBytes (Lint.fixL002 (asChars bs)) = expB true bs := by
  rw [(Lint.fixL002_eq_expC _).1, expC_asChars, asBytes_asChars]


/-! ## pushing `expB` through the pieces of a text -/
theorem expB_false_noNl : ∀ (L R : Bytes), L.all (· != 10) = true → expB false (L ++ R) = L ++ expB false R := by
  intro L
  induction L with
  | nil => intro R _; rfl
  | cons b L' ih =>
    intro R h
    simp only [List.all_cons, Bool.and_eq_true, bne_iff_ne, ne_eq] at h
    have hb : (b == 10) = false := by simpa using h.1
    simp only [List.cons_append, expB, Bool.false_and, Bool.false_eq_true, if_false, hb]
    rw [ih R (by simpa using h.2)]

/-- a lexeme or comment that starts with no blank and contains no line end is copied, and ends the leading whitespace -/
theorem expB_solid (st : Bool) (b : UInt8) (L R : Bytes) (hb : isBlankB b = false) (h : (b :: L).all (· != 10) = true) :
    expB st ((b :: L) ++ R) = (b :: L) ++ expB false R := by
  simp only [List.all_cons, Bool.and_eq_true, bne_iff_ne, ne_eq] at h
  have h10 : (b == 10) = false := by simpa using h.1
  simp only [isBlankB, Bool.or_eq_false_iff] at hb
  simp only [List.cons_append, expB, hb.1, hb.2, Bool.and_false, Bool.false_eq_true, if_false, h10]
  rw [expB_false_noNl L R (by simpa using h.2)]

/-- a run of blanks and line ends stays one, and stays non-empty -/
theorem expB_ws : ∀ (ws X : Bytes) (st : Bool), ws.all isWS = true →
    ∃ ws' st', expB st (ws ++ X) = ws' ++ expB st' X ∧ ws'.all isWS = true ∧ (ws = [] → ws' = [] ∧ st' = st) ∧ (ws ≠ [] → ws' ≠ []) := by
  intro ws
  induction ws with
  | nil => intro X st _; exact ⟨[], st, rfl, rfl, fun _ => ⟨rfl, rfl⟩, fun h => absurd rfl h⟩
  | cons w ws1 ih =>
    intro X st hws
    simp only [List.all_cons, Bool.and_eq_true] at hws
    simp only [List.cons_append, expB]
    split
    · obtain ⟨ws1', st', e, a, _, _⟩ := ih X true hws.2
      exact ⟨32 :: 32 :: 32 :: 32 :: ws1', st', by rw [e]; rfl, by simp [a, isWS], fun h => by simp at h, fun _ => by simp⟩
    · split
      · obtain ⟨ws1', st', e, a, _, _⟩ := ih X true hws.2
        exact ⟨32 :: ws1', st', by rw [e]; rfl, by simp [a, isWS], fun h => by simp at h, fun _ => by simp⟩
      · obtain ⟨ws1', st', e, a, _, _⟩ := ih X (w == 10) hws.2
        exact ⟨w :: ws1', st', by rw [e]; rfl, by simp [a, hws.1], fun h => by simp at h, fun _ => by simp⟩

theorem expB_head (st : Bool) (X : Bytes) (h : stopX X = true) : (expB st X).head? = X.head? := by
  cases X with
  | nil => rfl
  | cons b rest =>
    simp only [stopX, List.isEmpty_cons, Bool.false_or, Bool.not_eq_true', headWS] at h
    have hb : isBlankB b = false := by
      cases hbb : isBlankB b with
      | false => rfl
      | true => rw [blank_ws b hbb] at h; exact absurd h (by simp)
    simp only [isBlankB, Bool.or_eq_false_iff] at hb
    simp [expB, hb.1, hb.2]

/-- a separator is rewritten into a separator with the same comments -/
theorem sep_exp : ∀ (ps : List Piece) (X : Bytes) (st : Bool), ps.all Piece.ok = true → ps.all Piece.tame = true → stopX X = true →
    ∃ ps' st', expB st (sepBytes ps ++ X) = sepBytes ps' ++ expB st' X ∧ ps'.all Piece.ok = true ∧ sepComments ps' = sepComments ps ∧
      HeadRel (sepBytes ps ++ X) (sepBytes ps' ++ expB st' X) := by
  intro ps
  induction ps with
  | nil =>
    intro X st _ _ hX
    exact ⟨[], st, by simp [sepBytes], rfl, rfl, Or.inl (by simpa [sepBytes] using (expB_head st X hX).symm)⟩
  | cons p ps ih =>
    intro X st hok htame hX
    simp only [List.all_cons, Bool.and_eq_true] at hok htame
    cases p with
    | blanks ws =>
      obtain ⟨ws', st1, t1, t2, t3, t4⟩ := expB_ws ws (sepBytes ps ++ X) st (by simpa [Piece.ok] using hok.1)
      obtain ⟨ps', st', e1, o1, c1, r1⟩ := ih X st1 hok.2 htame.2 hX
      refine ⟨.blanks ws' :: ps', st', ?_, ?_, ?_, ?_⟩
      · simp only [sepBytes, Piece.bytes, List.append_assoc]
        rw [t1, e1]
      · simp [Piece.ok, t2, o1]
      · simp [sepComments, Piece.comments, c1]
      · simp only [sepBytes, Piece.bytes, List.append_assoc]
        cases ws with
        | nil =>
          rw [(t3 rfl).1]
          simpa using r1
        | cons w ws1 =>
          right
          simp only [List.all_cons, Piece.ok, Bool.and_eq_true] at hok
          refine ⟨by simpa [headWS] using hok.1.1, Or.inr ?_⟩
          cases ws' with
          | nil => exact absurd rfl (t4 (by simp))
          | cons w' ws1' =>
            simp only [List.all_cons, Bool.and_eq_true] at t2
            simpa [headWS] using t2.1
    | line body =>
      have hsolid : solidB (45 :: 45 :: body) = true := by simpa [Piece.tame] using htame.1
      have hall : ((45 : UInt8) :: 45 :: body).all (· != 10) = true := by
        simp only [solidB, Bool.and_eq_true] at hsolid; exact hsolid.1
      obtain ⟨ps', st', e1, o1, c1, r1⟩ := ih X true hok.2 htame.2 hX
      refine ⟨.line body :: ps', st', ?_, ?_, ?_, ?_⟩
      · have : sepBytes (Piece.line body :: ps) ++ X = (45 :: 45 :: body) ++ (10 :: (sepBytes ps ++ X)) := by
          simp [sepBytes, Piece.bytes]
        rw [this, expB_solid st 45 (45 :: body) _ (by decide) hall]
        have : expB false (10 :: (sepBytes ps ++ X)) = 10 :: expB true (sepBytes ps ++ X) := by simp [expB]
        rw [this, e1]
        simp [sepBytes, Piece.bytes]
      · simp [hok.1, o1]
      · simp [sepComments, c1]
      · left; simp [sepBytes, Piece.bytes]
    | block body =>
      have hb : body.all (· != 10) = true := by simpa [Piece.tame] using htame.1
      have hall : ((47 : UInt8) :: 42 :: (body ++ [42, 47])).all (· != 10) = true := by
        simp only [List.all_cons, List.all_append, Bool.and_eq_true, hb]; decide
      obtain ⟨ps', st', e1, o1, c1, r1⟩ := ih X false hok.2 htame.2 hX
      refine ⟨.block body :: ps', st', ?_, ?_, ?_, ?_⟩
      · have : sepBytes (Piece.block body :: ps) ++ X = (47 :: 42 :: (body ++ [42, 47])) ++ (sepBytes ps ++ X) := by
          simp [sepBytes, Piece.bytes]
        rw [this, expB_solid st 47 (42 :: (body ++ [42, 47])) _ (by decide) hall, e1]
        simp [sepBytes, Piece.bytes]
      · simp [hok.1, o1]
      · simp [sepComments, c1]
      · left; simp [sepBytes, Piece.bytes]

/-- the first byte of a lexeme of an accepted sequence is no blank -/
theorem head_nonblank_of_stop (L Z : Bytes) (hL : L ≠ []) (h : stopB (L ++ Z) = true) :
    ∃ b L', L = b :: L' ∧ isBlankB b = false := by
  cases L with
  | nil => exact absurd rfl hL
  | cons b L' =>
    refine ⟨b, L', rfl, ?_⟩
    simp only [List.cons_append, stopB, Bool.and_eq_true, Bool.not_eq_true'] at h
    cases hbb : isBlankB b with
    | false => rfl
    | true => rw [blank_ws b hbb] at h; exact absurd h.1.1 (by simp)

theorem seq_exp (cls : CharClass) (tb : Tables) (hA : AsciiOK cls) (hops : opsNoWS tb = true) :
    ∀ (items : List Item2) (st : Bool), seqOK cls tb items = true → tameSeq cls tb items = true →
    ∃ items', expB st (flat2 items) = flat2 items' ∧ seqOK cls tb items' = true ∧
      items'.map (·.1) = items.map (·.1) ∧ itemsComments items' = itemsComments items := by
  intro items
  induction items with
  | nil => intro st _ _; exact ⟨[], rfl, rfl, rfl, rfl⟩
  | cons it rest ih =>
    intro st hok htame
    simp only [seqOK, Bool.and_eq_true] at hok
    simp only [tameSeq, Bool.and_eq_true] at htame
    obtain ⟨⟨⟨⟨hlok, hsepok⟩, hfollow⟩, hstop⟩, hrestok⟩ := hok
    obtain ⟨⟨⟨hlt, hst⟩, _⟩, hresttame⟩ := htame
    have hX := stopX_of_seqOK cls tb rest hrestok
    have hsolid : solidB it.1.bytes = true := by
      simp only [Lx.tame, Bool.and_eq_true] at hlt; exact hlt.1
    obtain ⟨b, L', hbL, hnb⟩ := head_nonblank_of_stop it.1.bytes _ (solidB_ne_nil _ hsolid) hstop
    have hall : (b :: L').all (· != 10) = true := by
      rw [← hbL]; simp only [solidB, Bool.and_eq_true] at hsolid; exact hsolid.1
    obtain ⟨ps', st1, e2, o2, c2, r2⟩ := sep_exp it.2 (flat2 rest) false hsepok hst hX
    obtain ⟨rest', e1, o1, m1, c1⟩ := ih st1 hrestok hresttame
    rw [e1] at e2 r2
    refine ⟨(it.1, ps') :: rest', ?_, ?_, ?_, ?_⟩
    · simp only [flat2]
      rw [hbL, expB_solid st b L' _ hnb hall, e2]
    · simp only [seqOK, Bool.and_eq_true]
      exact ⟨⟨⟨⟨hlok, o2⟩, follow_transfer cls tb hA hops it.1 hlt _ _ r2 hfollow⟩,
        stop_transfer _ _ _ (solidB_ne_nil _ hsolid) r2 hstop⟩, o1⟩
    · simp [m1]
    · simp [itemsComments, c1, c2]

theorem expB_length_le (st : Bool) (bs : Bytes) : (expB st bs).length ≤ 4 * bs.length := by
  induction bs generalizing st with
  | nil => simp [expB]
  | cons b bs ih =>
    simp only [expB]
    split
    · have := ih true; simp only [List.length_cons]; omega
    · split
      · have := ih true; simp only [List.length_cons]; omega
      · have := ih (b == 10); simp only [List.length_cons]; omega

/-- **L002 keeps the tokens**: for every tame text of the reference grammar (four times its length within the size
    limit: every tab may become four spaces) the text after the mixed-indentation fixer is read as the same sequence of
    (kind, value) pairs and the same comments -/
theorem fixL002_keeps_tokens (cls : CharClass) (tb : Tables) (hA : AsciiOK cls) (hops : opsNoWS tb = true)
    (lead : List Piece) (items : List Item2)
    (hlead : lead.all Piece.ok = true) (hleadT : lead.all Piece.tame = true)
    (hok : seqOK cls tb items = true) (htame : tameSeq cls tb items = true)
    (hsize : 4 * (sepBytes lead ++ flat2 items).length ≤ tb.maxInput) (hcount : items.length ≤ tb.maxTokens) :
    ∃ toks cs toks' cs', tokenize cls tb (sepBytes lead ++ flat2 items) = .ok toks cs ∧
      tokenize cls tb (asBytes (Lint.fixL002 (asChars (sepBytes lead ++ flat2 items)))) = .ok toks' cs' ∧
      toks'.map Tok.key = toks.map Tok.key ∧ cs'.map Comment.key = cs.map Comment.key := by
  obtain ⟨lead', st1, e2, o2, c2, _⟩ := sep_exp lead (flat2 items) true hlead hleadT (stopX_of_seqOK cls tb items hok)
  obtain ⟨items', e1, o1, m1, c1⟩ := seq_exp cls tb hA hops items st1 hok htame
  rw [e1] at e2
  have hlen : items'.length = items.length := by
    have := congrArg List.length m1
    simpa using this
  have hsize' : (sepBytes lead' ++ flat2 items').length ≤ tb.maxInput := by
    rw [← e2]
    exact Nat.le_trans (expB_length_le _ _) hsize
  obtain ⟨toks, cs, t1, t2, t3, _, _⟩ := tokenize_spell2 cls tb hA lead items hlead hok (by omega) hcount
  obtain ⟨toks', cs', u1, u2, u3, _, _⟩ := tokenize_spell2 cls tb hA lead' items' o2 o1 hsize' (by rw [hlen]; exact hcount)
  refine ⟨toks, cs, toks', cs', t1, ?_, ?_, ?_⟩
  · rw [fixL002_bytes, e2]; exact u1
  · rw [t2, u2]
    have : (items'.map fun it => it.1.key cls tb) = (items'.map (·.1)).map (Lx.key cls tb) := by simp
    rw [this, m1]; simp
  · rw [t3, u3, c1, c2]


/-- **the two fixers in sequence** (the order in which the CLI applies them): the text after L001 and then L002 is
    still read as the same (kind, value) sequence and the same comments -/
theorem fixL001_then_L002_keeps_tokens (cls : CharClass) (tb : Tables) (hA : AsciiOK cls) (hops : opsNoWS tb = true)
    (lead : List Piece) (items : List Item2)
    (hlead : lead.all Piece.ok = true) (hleadT : lead.all Piece.tame = true) (hleadN : sepNorm lead = true)
    (hok : seqOK cls tb items = true) (htame : tameSeq cls tb items = true)
    (hsize : 4 * (sepBytes lead ++ flat2 items).length ≤ tb.maxInput) (hcount : items.length ≤ tb.maxTokens) :
    ∃ toks cs toks' cs', tokenize cls tb (sepBytes lead ++ flat2 items) = .ok toks cs ∧
      tokenize cls tb (asBytes (Lint.fixL002 (Lint.fixL001 (asChars (sepBytes lead ++ flat2 items))))) = .ok toks' cs' ∧
      toks'.map Tok.key = toks.map Tok.key ∧ cs'.map Comment.key = cs.map Comment.key := by
  obtain ⟨items', e1, o1, m1, c1, tm1⟩ := seq_trim cls tb hA hops items hok htame
  obtain ⟨lead', e2, o2, c2, _, sh2⟩ := sep_trim lead (flat2 items) hlead hleadT hleadN (stopX_of_seqOK cls tb items hok)
  rw [e1] at e2
  have hlen : items'.length = items.length := by
    have := congrArg List.length m1
    simpa using this
  have hl1 : (sepBytes lead' ++ flat2 items').length ≤ (sepBytes lead ++ flat2 items).length := by
    rw [← e2]; exact trimB_length _
  -- the text after L001, as characters
  have hchars : Lint.fixL001 (asChars (sepBytes lead ++ flat2 items)) = asChars (sepBytes lead' ++ flat2 items') := by
    rw [Lint.fixL001_eq_trimC, trimC_asChars, e2]
  obtain ⟨toks, cs, t1, t2, t3, _, _⟩ := tokenize_spell2 cls tb hA lead items hlead hok (by omega) hcount
  obtain ⟨toks1, cs1, toks', cs', u1, u2, u3, u4⟩ := fixL002_keeps_tokens cls tb hA hops lead' items' o2
    (sameShape_tame _ _ sh2 hleadT) o1 tm1 (by omega) (by rw [hlen]; exact hcount)
  obtain ⟨toksB, csB, v1, v2, v3, _, _⟩ := tokenize_spell2 cls tb hA lead' items' o2 o1 (by omega) (by rw [hlen]; exact hcount)
  rw [v1] at u1
  injection u1 with ea eb
  subst ea; subst eb
  refine ⟨toks, cs, toks', cs', t1, ?_, ?_, ?_⟩
  · rw [hchars]; exact u2
  · rw [u3, v2, t2]
    have : (items'.map fun it => it.1.key cls tb) = (items'.map (·.1)).map (Lx.key cls tb) := by simp
    rw [this, m1]; simp
  · rw [u4, v3, t3, c1, c2]

end GoSQLXModel.Lex
