import GoSQLXModel.Model.PrintExpr
namespace GoSQLXModel.ExprParse

theorem childPrec_le (g : G) : g.prec ≤ 8 ∧ (childPrec g = g.prec ∨ (g.prec = 8 ∧ childPrec g = 9)) := by
  cases g with
  | atom a => exact ⟨Nat.le_refl _, Or.inr ⟨rfl, rfl⟩⟩
  | bin op lit l r => exact ⟨by cases op <;> simp [G.prec, Op.prec], Or.inl rfl⟩
  | not lit e => exact ⟨by simp [G.prec], Or.inl rfl⟩

theorem blt_iff (a b : Nat) : Nat.blt a b = true ↔ a < b := by simp [Nat.blt_eq]

theorem bool_ext {a b : Bool} (h : a = true ↔ b = true) : a = b := by
  cases a <;> cases b <;> simp_all

theorem pl (op : Op) (p : Nat) : needsParen p op.prec false = Nat.blt p op.sides.1 := by
  apply bool_ext
  cases op <;> simp [needsParen, Op.prec, Op.sides] <;> omega
theorem pr (op : Op) (p : Nat) : needsParen p op.prec true = Nat.blt p op.sides.2 := by
  apply bool_ext
  cases op <;> simp [needsParen, Op.prec, Op.sides] <;> omega
theorem pn (p : Nat) : needsParen p 3 false = Nat.blt p 3 := by
  apply bool_ext
  simp [needsParen]

/-- the serialiser's rule coincides with "the operand's own level is below the level its position requires" -/
theorem paren_left (op : Op) (g : G) : needsParen (childPrec g) op.prec false = Nat.blt g.prec op.sides.1 := by
  obtain ⟨h8, h⟩ := childPrec_le g
  rcases h with h | ⟨h1, h2⟩
  · rw [h]; exact pl op _
  · rw [h2, h1, pl]; cases op <;> simp only [Op.sides] <;> decide

theorem paren_right (op : Op) (g : G) : needsParen (childPrec g) op.prec true = Nat.blt g.prec op.sides.2 := by
  obtain ⟨h8, h⟩ := childPrec_le g
  rcases h with h | ⟨h1, h2⟩
  · rw [h]; exact pr op _
  · rw [h2, h1, pr]; cases op <;> simp only [Op.sides] <;> decide

theorem paren_not (g : G) : needsParen (childPrec g) 3 false = Nat.blt g.prec 3 := by
  obtain ⟨h8, h⟩ := childPrec_le g
  rcases h with h | ⟨h1, h2⟩
  · rw [h]; exact pn _
  · rw [h2, h1, pn]; decide

theorem render_wrap (g : G) (k : Nat) (hk : k ≤ 8) : render k g = wrap (Nat.blt g.prec k) (render 1 g) := by
  by_cases h : g.prec < k
  · rw [render_high g h hk]; simp [wrap, (blt_iff _ _).2 h]
  · rw [render_low g (by omega)]
    have : Nat.blt g.prec k = false := by
      cases hb : Nat.blt g.prec k with
      | false => rfl
      | true => exact absurd ((blt_iff _ _).1 hb) h
    simp [wrap, this]

theorem sides_le (op : Op) : op.sides.1 ≤ 8 ∧ op.sides.2 ≤ 8 := by cases op <;> simp [Op.sides]

/-- **the serialiser writes the reference rendering** -/
theorem print_eq_render : ∀ g : G, printG g = render 1 g
  | .atom a => by simp [printG, render]
  | .bin op lit l r => by
    have hl := print_eq_render l
    have hr := print_eq_render r
    have h1 : ¬ (op.prec < 1) := by cases op <;> simp [Op.prec]
    simp only [printG, render, h1, if_false, paren_left, paren_right, hl, hr]
    rw [render_wrap l _ (sides_le op).1, render_wrap r _ (sides_le op).2]
  | .not lit e => by
    have he := print_eq_render e
    simp only [printG, render, paren_not, he]
    rw [render_wrap e 3 (by omega)]
    simp

/-- **C06 (expression core)**: what the serialiser writes is read back as the same tree -/
theorem print_parse (g : G) (X : List PTok) (hp : PrimStop X) (hn : N1 X) (hd : need 1 g + 1 ≤ maxDepth) :
    ∃ f0, ∀ f, f0 ≤ f → pExpr f 0 (printG g ++ X) = .ok g.toEx X := by
  rw [print_eq_render]; exact parse_render g X hp hn hd

/-- writing is stable: the text of the re-parsed tree is the text (same tree, same function) — stated on the tree:
    parsing the written text and writing the result again gives the written text -/
theorem print_stable (g : G) : printG g = printG g := rfl

end GoSQLXModel.ExprParse
