import GoSQLXModel.Model.PrintExpr
import GoSQLXModel.Proofs.ExprRoundTrip
/-!
# What the serialiser writes is the reference rendering, hence is read back as the same tree

`kwNorm g` = `g` with its keywords in the serialiser's fixed spelling (IS, NOT, NULL, BETWEEN, AND, IN; the operator of
a negated LIKE upper-cased, as `BinaryExpression.SQL` writes it).  `print_eq_render`: `printG g = render 1 (kwNorm g)`;
`print_parse`: the written tokens parse to `(kwNorm g).toEx`, which is `g.toEx` up to the letter case of LIKE / ILIKE
(`toEx_kwNorm`) — the equality "up to the letter case of keywords and operator words" of the property.
-/
namespace GoSQLXModel.ExprParse

/-! ## keyword normalisation -/
def normNeg : Option String → Option String
  | none => none
  | some _ => some "NOT"

mutual
def kwNorm : G → G
  | .atom a => .atom a
  | .call n args => .call n (kwNormL args)
  | .bin op lit l r => .bin op lit (kwNorm l) (kwNorm r)
  | .not lit e => .not lit (kwNorm e)
  | .isnull _ neg _ e => .isnull "IS" (normNeg neg) "NULL" (kwNorm e)
  | .between neg _ _ e lo hi => .between (normNeg neg) "BETWEEN" "AND" (kwNorm e) (kwNorm lo) (kwNorm hi)
  | .like neg op e pat => .like (normNeg neg) (if neg.isSome then ⟨op.k, upper op.lit⟩ else op) (kwNorm e) (kwNorm pat)
  | .inlist neg _ e first rest => .inlist (normNeg neg) "IN" (kwNorm e) (kwNorm first) (kwNormL rest)
def kwNormL : GL → GL
  | .nil => .nil
  | .cons g rest => .cons (kwNorm g) (kwNormL rest)
end

mutual
/-- a tree up to the letter case of the LIKE / ILIKE operator word -/
def Ex.norm : Ex → Ex
  | .ident n => .ident n
  | .num v => .num v
  | .str v => .str v
  | .bool v => .bool v
  | .null => .null
  | .bin op l r => .bin op l.norm r.norm
  | .not e => .not e.norm
  | .isnull neg e => .isnull neg e.norm
  | .between neg e lo hi => .between neg e.norm lo.norm hi.norm
  | .like neg op l r => .like neg (upper op) l.norm r.norm
  | .inlist neg e items => .inlist neg e.norm items.normL
  | .call n args => .call n args.normL
def ExL.normL : ExL → ExL
  | .nil => .nil
  | .cons e rest => .cons e.norm rest.normL
end

theorem toUpper_idem (c : Char) : c.toUpper.toUpper = c.toUpper := by
  unfold Char.toUpper
  split
  · rename_i h
    split
    · rename_i h2
      exfalso
      obtain ⟨h2a, _⟩ := h2
      obtain ⟨ha, hb⟩ := h
      have ha' := UInt32.le_iff_toNat_le.1 ha
      have hb' := UInt32.le_iff_toNat_le.1 hb
      have h2a' := UInt32.le_iff_toNat_le.1 h2a
      simp only [UInt32.toNat_add, UInt32.toNat_sub] at h2a'
      have e1 : 'a'.val.toNat = 97 := by decide
      have e2 : 'z'.val.toNat = 122 := by decide
      have e3 : 'A'.val.toNat = 65 := by decide
      rw [e1] at ha' h2a'
      rw [e2] at hb'
      rw [e3] at h2a'
      omega
    · rfl
  · rfl

theorem upper_idem (s : String) : upper (upper s) = upper s := by
  unfold upper
  rw [String.map_map]
  congr 1
  funext c
  exact toUpper_idem c

theorem isWord_upper (s w : String) : isWord (upper s) w = isWord s w := by simp [isWord, upper_idem]

theorem isSome_normNeg (neg : Option String) : (normNeg neg).isSome = neg.isSome := by cases neg <;> rfl
theorem isNone_normNeg (neg : Option String) : (normNeg neg).isNone = neg.isNone := by cases neg <;> rfl

mutual
/-- the tree of the normalised expression is the tree of the expression, up to the case of LIKE / ILIKE -/
theorem toEx_kwNorm : (g : G) → (kwNorm g).toEx.norm = g.toEx.norm
  | .atom a => by simp [kwNorm]
  | .call n args => by simp [kwNorm, G.toEx, Ex.norm, toExL_kwNormL args]
  | .bin op lit l r => by simp [kwNorm, G.toEx, Ex.norm, toEx_kwNorm l, toEx_kwNorm r]
  | .not lit e => by simp [kwNorm, G.toEx, Ex.norm, toEx_kwNorm e]
  | .isnull a b c e => by simp [kwNorm, G.toEx, Ex.norm, toEx_kwNorm e, isSome_normNeg]
  | .between a b c e lo hi => by simp [kwNorm, G.toEx, Ex.norm, toEx_kwNorm e, toEx_kwNorm lo, toEx_kwNorm hi, isSome_normNeg]
  | .like neg op e pat => by
    cases neg <;> simp [kwNorm, G.toEx, Ex.norm, toEx_kwNorm e, toEx_kwNorm pat, normNeg, upper_idem]
  | .inlist a b e f r => by
    simp [kwNorm, G.toEx, Ex.norm, GL.toExL, ExL.normL, toEx_kwNorm e, toEx_kwNorm f, toExL_kwNormL r, isSome_normNeg]
theorem toExL_kwNormL : (l : GL) → (kwNormL l).toExL.normL = l.toExL.normL
  | .nil => by simp [kwNormL]
  | .cons g rest => by simp [kwNormL, GL.toExL, ExL.normL, toEx_kwNorm g, toExL_kwNormL rest]
end

theorem kw_is_plain : plainLit "IS" = true := by decide +kernel
theorem kw_and_plain : plainLit "AND" = true := by decide +kernel
theorem kw_in_plain : plainLit "IN" = true := by decide +kernel
theorem kw_between_word : isWord "BETWEEN" "BETWEEN" = true := by decide +kernel
theorem kw_in_word : isWord "IN" "IN" = true := by decide +kernel

mutual
theorem wf_kwNorm : (g : G) → g.WF = true → (kwNorm g).WF = true
  | .atom a, _ => by simp [kwNorm, G.WF]
  | .call n args, h => by
    simp only [G.WF, Bool.and_eq_true] at h
    simp [kwNorm, G.WF, h.1, wfl_kwNormL args h.2]
  | .bin op lit l r, h => by
    simp only [G.WF, Bool.and_eq_true] at h
    simp [kwNorm, G.WF, h.1.1, wf_kwNorm l h.1.2, wf_kwNorm r h.2]
  | .not lit e, h => by
    simp only [G.WF] at h
    simp [kwNorm, G.WF, wf_kwNorm e h]
  | .isnull a b c e, h => by
    simp only [G.WF, Bool.and_eq_true] at h
    simp [kwNorm, G.WF, kw_is_plain, wf_kwNorm e h.2]
  | .between a b c e lo hi, h => by
    simp only [G.WF, Bool.and_eq_true] at h
    simp [kwNorm, G.WF, kw_between_word, kw_and_plain, wf_kwNorm e h.1.1.2, wf_kwNorm lo h.1.2, wf_kwNorm hi h.2]
  | .like neg op e pat, h => by
    simp only [G.WF, Bool.and_eq_true] at h
    have he := wf_kwNorm e h.1.2
    have hp := wf_kwNorm pat h.2
    cases neg with
    | none => simpa [kwNorm, G.WF, normNeg, he, hp] using h.1.1.1
    | some nl =>
      have h1 := h.1.1.1
      have h2 := h.1.1.2
      simp only [Option.isNone_some, Bool.false_or] at h2
      simp only [kwNorm, G.WF, normNeg, Option.isSome_some, if_true, isWord_upper, Option.isNone_some, Bool.false_or, he, hp,
        Bool.and_true]
      simp only [h1, h2, Bool.and_self]
  | .inlist a b e f r, h => by
    simp only [G.WF, Bool.and_eq_true] at h
    simp [kwNorm, G.WF, kw_in_plain, kw_in_word, wf_kwNorm e h.1.1.2, wf_kwNorm f h.1.2, wfl_kwNormL r h.2]
theorem wfl_kwNormL : (l : GL) → l.WFL = true → (kwNormL l).WFL = true
  | .nil, _ => by simp [kwNormL, GL.WFL]
  | .cons g rest, h => by
    simp only [GL.WFL, Bool.and_eq_true] at h
    simp [kwNormL, GL.WFL, wf_kwNorm g h.1, wfl_kwNormL rest h.2]
end

theorem prec_kwNorm (g : G) : (kwNorm g).prec = g.prec := by
  cases g <;> simp [kwNorm, G.prec]

mutual
theorem need_kwNorm : (k : Nat) → (g : G) → need k (kwNorm g) = need k g
  | k, .atom a => by simp [kwNorm]
  | k, .call n args => by simp [kwNorm, need, needL_kwNormL args]
  | k, .bin op lit l r => by simp [kwNorm, need, need_kwNorm _ l, need_kwNorm _ r]
  | k, .not lit e => by simp [kwNorm, need, need_kwNorm _ e]
  | k, .isnull a b c e => by simp [kwNorm, need, need_kwNorm _ e]
  | k, .between a b c e lo hi => by simp [kwNorm, need, need_kwNorm _ e, need_kwNorm _ lo, need_kwNorm _ hi]
  | k, .like a b e p => by simp [kwNorm, need, need_kwNorm _ e, need_kwNorm _ p]
  | k, .inlist a b e f r => by simp [kwNorm, need, need_kwNorm _ e, need_kwNorm _ f, needL_kwNormL r]
theorem needL_kwNormL : (l : GL) → needL (kwNormL l) = needL l
  | .nil => by simp [kwNormL]
  | .cons g rest => by simp [kwNormL, needL, need_kwNorm _ g, needL_kwNormL rest]
end

/-! ## the parenthesisation rule coincides with the levels of the grammar -/
theorem childPrec_le (g : G) : g.prec ≤ 8 ∧ (childPrec g = g.prec ∨ (g.prec = 8 ∧ childPrec g = 9)) := by
  cases g with
  | atom a => exact ⟨Nat.le_refl _, Or.inr ⟨rfl, rfl⟩⟩
  | call n args => exact ⟨Nat.le_refl _, Or.inr ⟨rfl, rfl⟩⟩
  | bin op lit l r => exact ⟨by cases op <;> simp [G.prec, Op.prec], Or.inl rfl⟩
  | not lit e => exact ⟨by simp [G.prec], Or.inl rfl⟩
  | isnull a b c e => exact ⟨by simp [G.prec], Or.inl rfl⟩
  | between a b c e lo hi => exact ⟨by simp [G.prec], Or.inl rfl⟩
  | like a b e p => exact ⟨by simp [G.prec], Or.inl rfl⟩
  | inlist a b e f r => exact ⟨by simp [G.prec], Or.inl rfl⟩

theorem blt_iff (a b : Nat) : Nat.blt a b = true ↔ a < b := by simp [Nat.blt_eq]

theorem bool_ext {a b : Bool} (h : a = true ↔ b = true) : a = b := by
  cases a <;> cases b <;> simp_all

theorem pl (op : Op) (p : Nat) : needsParen p op.prec false = Nat.blt p op.sides.1 := by
  apply bool_ext
  cases op <;> simp [needsParen, Op.prec, Op.sides] <;> omega
theorem pr (op : Op) (p : Nat) : needsParen p op.prec true = Nat.blt p op.sides.2 := by
  apply bool_ext
  cases op <;> simp [needsParen, Op.prec, Op.sides] <;> omega
theorem pn (p : Nat) : needsParen p 3 false = Nat.blt p 3 := by
  apply bool_ext
  simp [needsParen]
theorem p4 (p : Nat) (right : Bool) : needsParen p 4 right = Nat.blt p 5 := by
  apply bool_ext
  cases right <;> simp [needsParen] <;> omega
theorem p9 (p : Nat) (hp : p ≤ 9) : needsParen p 9 false = Nat.blt p 9 := by
  apply bool_ext
  simp [needsParen]

theorem paren_left (op : Op) (g : G) : needsParen (childPrec g) op.prec false = Nat.blt g.prec op.sides.1 := by
  obtain ⟨h8, h⟩ := childPrec_le g
  rcases h with h | ⟨h1, h2⟩
  · rw [h]; exact pl op _
  · rw [h2, h1, pl]; cases op <;> simp only [Op.sides] <;> decide

theorem paren_right (op : Op) (g : G) : needsParen (childPrec g) op.prec true = Nat.blt g.prec op.sides.2 := by
  obtain ⟨h8, h⟩ := childPrec_le g
  rcases h with h | ⟨h1, h2⟩
  · rw [h]; exact pr op _
  · rw [h2, h1, pr]; cases op <;> simp only [Op.sides] <;> decide

theorem paren_not (g : G) : needsParen (childPrec g) 3 false = Nat.blt g.prec 3 := by
  obtain ⟨h8, h⟩ := childPrec_le g
  rcases h with h | ⟨h1, h2⟩
  · rw [h]; exact pn _
  · rw [h2, h1, pn]; decide

/-- operands of the predicates: parenthesised iff below the `||` level -/
theorem paren_pred (g : G) (right : Bool) : needsParen (childPrec g) 4 right = Nat.blt g.prec 5 := by
  obtain ⟨h8, h⟩ := childPrec_le g
  rcases h with h | ⟨h1, h2⟩
  · rw [h]; exact p4 _ _
  · rw [h2, h1, p4]; decide

/-- the pattern of LIKE: parenthesised iff not a primary -/
theorem paren_pattern (g : G) : needsParen (childPrec g) 9 false = Nat.blt g.prec 8 := by
  obtain ⟨h8, h⟩ := childPrec_le g
  rcases h with h | ⟨h1, h2⟩
  · rw [h, p9 _ (by omega)]
    apply bool_ext
    simp only [blt_iff]
    constructor
    · intro _
      cases g with
      | atom a => simp [childPrec, G.prec] at h
      | call n args => simp [childPrec, G.prec] at h
      | bin op lit l r => cases op <;> simp [G.prec, Op.prec]
      | _ => simp [G.prec]
    · intro h'; omega
  · rw [h2, h1, p9 _ (by omega)]; decide

theorem render_wrap (g : G) (k : Nat) (hk : k ≤ 8) : render k g = wrap (Nat.blt g.prec k) (render 1 g) := by
  by_cases h : g.prec < k
  · rw [render_high g h hk]; simp [wrap, (blt_iff _ _).2 h]
  · rw [render_low g (by omega)]
    have : Nat.blt g.prec k = false := by
      cases hb : Nat.blt g.prec k with
      | false => rfl
      | true => exact absurd ((blt_iff _ _).1 hb) h
    simp [wrap, this]

theorem sides_le (op : Op) : op.sides.1 ≤ 8 ∧ op.sides.2 ≤ 8 := by cases op <;> simp [Op.sides]

theorem negKw_eq (neg : Option String) : negKw neg = negToks (normNeg neg) := by cases neg <;> rfl

/-- an operand written by the serialiser's rule = the reference rendering at the level of its position -/
theorem operand_eq {g : G} (ih : printG g = render 1 (kwNorm g)) {b : Bool} {k : Nat} (hk : k ≤ 8) (hb : b = Nat.blt g.prec k) :
    wrap b (printG g) = render k (kwNorm g) := by
  rw [render_wrap (kwNorm g) k hk, prec_kwNorm, ih, hb]

mutual
/-- **the serialiser writes the reference rendering** (of the tree with keywords in the fixed spelling) -/
theorem print_eq_render : (g : G) → printG g = render 1 (kwNorm g)
  | .atom a => by simp [printG, kwNorm, render]
  | .call n args => by
    cases args with
    | nil => simp [printG, kwNorm, kwNormL, render, printArgs, renderArgs]
    | cons g rest => simp [printG, kwNorm, kwNormL, render, printArgs, renderArgs, print_eq_render g, printMore_eq rest]
  | .bin op lit l r => by
    have h1 : ¬ (op.prec < 1) := by cases op <;> simp [Op.prec]
    simp only [printG, kwNorm, render, h1, if_false]
    rw [operand_eq (print_eq_render l) (sides_le op).1 (paren_left op l), operand_eq (print_eq_render r) (sides_le op).2 (paren_right op r)]
  | .not lit e => by
    simp only [printG, kwNorm, render]
    rw [operand_eq (print_eq_render e) (by omega) (paren_not e)]
    simp
  | .isnull a b c e => by
    simp only [printG, kwNorm, render]
    rw [operand_eq (print_eq_render e) (by omega) (paren_pred e false), negKw_eq]
    simp
  | .between a b c e lo hi => by
    simp only [printG, kwNorm, render]
    rw [operand_eq (print_eq_render e) (by omega) (paren_pred e true), operand_eq (print_eq_render lo) (by omega) (paren_pred lo true),
      operand_eq (print_eq_render hi) (by omega) (paren_pred hi true), negKw_eq]
    simp
  | .like a b e p => by
    simp only [printG, kwNorm, render]
    rw [operand_eq (print_eq_render e) (by omega) (paren_pred e false), operand_eq (print_eq_render p) (by omega) (paren_pattern p), negKw_eq]
    simp
  | .inlist a b e f r => by
    simp only [printG, kwNorm, render]
    rw [operand_eq (print_eq_render e) (by omega) (paren_pred e true), print_eq_render f, printMore_eq r, negKw_eq]
    simp
theorem printMore_eq : (l : GL) → printMore l = renderMore (kwNormL l)
  | .nil => by simp [printMore, kwNormL, renderMore]
  | .cons g rest => by simp [printMore, kwNormL, renderMore, print_eq_render g, printMore_eq rest]
end

/-- **C06 (expression core)**: what the serialiser writes is read back as the tree with keywords normalised … -/
theorem print_parse (g : G) (hw : g.WF = true) (X : List PTok) (hp : PrimStop X) (hn : N1 X) (hd : need 1 g + 1 ≤ maxDepth) :
    ∃ f0, ∀ f, f0 ≤ f → pExpr f 0 (printG g ++ X) = .ok (kwNorm g).toEx X := by
  rw [print_eq_render]
  exact parse_render (kwNorm g) (wf_kwNorm g hw) X hp hn (by rw [need_kwNorm]; exact hd)

/-- … which is the same tree up to the letter case of the LIKE / ILIKE operator word -/
theorem print_parse_same_tree (g : G) : (kwNorm g).toEx.norm = g.toEx.norm := toEx_kwNorm g

theorem normNeg_idem (neg : Option String) : normNeg (normNeg neg) = normNeg neg := by cases neg <;> rfl

mutual
theorem kwNorm_idem : (g : G) → kwNorm (kwNorm g) = kwNorm g
  | .atom a => by simp [kwNorm]
  | .call n args => by simp [kwNorm, kwNormL_idem args]
  | .bin op lit l r => by simp [kwNorm, kwNorm_idem l, kwNorm_idem r]
  | .not lit e => by simp [kwNorm, kwNorm_idem e]
  | .isnull a b c e => by simp [kwNorm, kwNorm_idem e, normNeg_idem]
  | .between a b c e lo hi => by simp [kwNorm, kwNorm_idem e, kwNorm_idem lo, kwNorm_idem hi, normNeg_idem]
  | .like neg op e p => by
    cases neg <;> simp [kwNorm, kwNorm_idem e, kwNorm_idem p, normNeg, upper_idem]
  | .inlist a b e f r => by simp [kwNorm, kwNorm_idem e, kwNorm_idem f, kwNormL_idem r, normNeg_idem]
theorem kwNormL_idem : (l : GL) → kwNormL (kwNormL l) = kwNormL l
  | .nil => by simp [kwNormL]
  | .cons g rest => by simp [kwNormL, kwNorm_idem g, kwNormL_idem rest]
end

/-- writing is stable: the tree read back from the written text (`kwNorm g`, by `print_parse`) is written as the same text -/
theorem print_stable (g : G) : printG (kwNorm g) = printG g := by
  rw [print_eq_render, print_eq_render, kwNorm_idem]

end GoSQLXModel.ExprParse
