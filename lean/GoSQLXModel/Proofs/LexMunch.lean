import GoSQLXModel.Proofs.LexEOF
/-!
# Maximal munch for operators; decoding of quoted strings
-/
namespace GoSQLXModel.Lex

/-- the fold of `longestOp`, with its invariant: the best so far is a non-empty prefix taken from the table and at
    least as long as every qualifying entry already seen -/
theorem longestOp_spec (ops : List (Bytes × Nat)) (bs : Bytes) :
    match longestOp ops bs with
    | some o => o ∈ ops ∧ o.1.isPrefixOf bs = true ∧ o.1 ≠ [] ∧
        ∀ x ∈ ops, x.1.isPrefixOf bs = true → x.1 ≠ [] → x.1.length ≤ o.1.length
    | none => ∀ x ∈ ops, x.1.isPrefixOf bs = true → x.1 = [] := by
  unfold longestOp
  -- generalise over the processed prefix `seen` and the accumulator
  have key : ∀ (l seen : List (Bytes × Nat)) (init : Option (Bytes × Nat)),
      (match init with
       | some o => o ∈ seen ∧ o.1.isPrefixOf bs = true ∧ o.1 ≠ [] ∧
          ∀ x ∈ seen, x.1.isPrefixOf bs = true → x.1 ≠ [] → x.1.length ≤ o.1.length
       | none => ∀ x ∈ seen, x.1.isPrefixOf bs = true → x.1 = []) →
      (match l.foldl (fun best o =>
        if (o.1.isPrefixOf bs && o.1 != []) = true then
          match best with
          | some b => if o.1.length > b.1.length then some o else best
          | none => some o
        else best) init with
       | some o => o ∈ seen ++ l ∧ o.1.isPrefixOf bs = true ∧ o.1 ≠ [] ∧
          ∀ x ∈ seen ++ l, x.1.isPrefixOf bs = true → x.1 ≠ [] → x.1.length ≤ o.1.length
       | none => ∀ x ∈ seen ++ l, x.1.isPrefixOf bs = true → x.1 = []) := by
    intro l
    induction l with
    | nil => intro seen init h; simpa using h
    | cons y ys ih =>
      intro seen init h
      simp only [List.foldl_cons]
      have e : seen ++ y :: ys = (seen ++ [y]) ++ ys := by simp
      rw [e]
      apply ih (seen ++ [y])
      by_cases hy : (y.1.isPrefixOf bs && y.1 != []) = true
      · rw [if_pos hy]
        have hy1 : y.1.isPrefixOf bs = true := by simp only [Bool.and_eq_true] at hy; exact hy.1
        have hy2 : y.1 ≠ [] := by simp only [Bool.and_eq_true, bne_iff_ne, ne_eq] at hy; exact hy.2
        cases init with
        | none =>
          simp only at h ⊢
          refine ⟨by simp, hy1, hy2, ?_⟩
          intro x hx hp hne
          rcases List.mem_append.1 hx with hx | hx
          · exact absurd (h x hx hp) hne
          · simp only [List.mem_singleton] at hx; subst hx; exact Nat.le_refl _
        | some b =>
          simp only at h ⊢
          obtain ⟨hb1, hb2, hb3, hb4⟩ := h
          by_cases hlen : y.1.length > b.1.length
          · rw [if_pos hlen]
            refine ⟨by simp, hy1, hy2, ?_⟩
            intro x hx hp hne
            rcases List.mem_append.1 hx with hx | hx
            · have := hb4 x hx hp hne; omega
            · simp only [List.mem_singleton] at hx; subst hx; exact Nat.le_refl _
          · rw [if_neg hlen]
            refine ⟨List.mem_append_left _ hb1, hb2, hb3, ?_⟩
            intro x hx hp hne
            rcases List.mem_append.1 hx with hx | hx
            · exact hb4 x hx hp hne
            · simp only [List.mem_singleton] at hx; subst hx; omega
      · rw [if_neg hy]
        cases init with
        | none =>
          simp only at h ⊢
          intro x hx hp
          rcases List.mem_append.1 hx with hx | hx
          · exact h x hx hp
          · simp only [List.mem_singleton] at hx; subst hx
            simp only [Bool.and_eq_true, bne_iff_ne, ne_eq, not_and, Decidable.not_not] at hy
            exact hy hp
        | some b =>
          simp only at h ⊢
          obtain ⟨hb1, hb2, hb3, hb4⟩ := h
          refine ⟨List.mem_append_left _ hb1, hb2, hb3, ?_⟩
          intro x hx hp hne
          rcases List.mem_append.1 hx with hx | hx
          · exact hb4 x hx hp hne
          · simp only [List.mem_singleton] at hx; subst hx
            simp only [Bool.and_eq_true, bne_iff_ne, ne_eq, not_and, Decidable.not_not] at hy
            exact absurd (hy hp) hne
  have := key ops [] none (by intro x hx; simp at hx)
  simp only [List.nil_append] at this
  exact this

/-- **maximal munch**: the operator read is a table entry that is a prefix of the input, and no table entry that
    is also a prefix is longer -/
theorem longestOp_maximal (ops : List (Bytes × Nat)) (bs : Bytes) {o : Bytes × Nat} (h : longestOp ops bs = some o) :
    o ∈ ops ∧ o.1.isPrefixOf bs = true ∧ ∀ x ∈ ops, x.1.isPrefixOf bs = true → x.1 ≠ [] → x.1.length ≤ o.1.length := by
  have := longestOp_spec ops bs
  rw [h] at this
  exact ⟨this.1, this.2.1, this.2.2.2⟩

end GoSQLXModel.Lex
