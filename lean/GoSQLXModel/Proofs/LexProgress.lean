import GoSQLXModel.Model.Lex
/-!
# Every reader strictly shortens the remaining input; the fuel of the main loop is never exhausted

`nextToken_progress`: a token is never produced without consuming at least one byte.
`tokenize_total`: `tokenize` never returns `outOfFuel` — for every classifier, every table, every byte string.
-/
namespace GoSQLXModel.Lex

theorem nextRune_suffix {bs rest : Bytes} {r : Nat} (h : nextRune bs = some (r, rest)) : rest <:+ bs := by
  cases bs with
  | nil => simp [nextRune] at h
  | cons b t =>
    simp only [nextRune, Option.some.injEq, Prod.mk.injEq] at h
    rw [← h.2]; exact List.drop_suffix _ _

theorem nextRune_lt {bs rest : Bytes} {r : Nat} (h : nextRune bs = some (r, rest)) : rest.length < bs.length := by
  cases bs with
  | nil => simp [nextRune] at h
  | cons b t =>
    simp only [nextRune, Option.some.injEq, Prod.mk.injEq] at h
    rw [← h.2, List.length_drop]
    have : 1 ≤ max (decodeRune (b :: t)).2 1 := Nat.le_max_right _ _
    simp only [List.length_cons]; omega

theorem nextRune_isSome_of_ne_nil {bs : Bytes} (h : bs ≠ []) : ∃ r rest, nextRune bs = some (r, rest) := by
  cases bs with
  | nil => exact absurd rfl h
  | cons b t => exact ⟨_, _, rfl⟩

theorem dropRunesF_suffix (p : Nat → Bool) : ∀ (fuel : Nat) (bs : Bytes), dropRunesF p fuel bs <:+ bs
  | 0, bs => by simp [dropRunesF]
  | fuel+1, bs => by
    simp only [dropRunesF]
    cases h : nextRune bs with
    | none => simp
    | some x =>
      obtain ⟨r, rest⟩ := x
      simp only
      by_cases hp : p r = true
      · rw [if_pos hp]; exact (dropRunesF_suffix p fuel rest).trans (nextRune_suffix h)
      · rw [if_neg hp]; simp

theorem dropRunes_suffix (p : Nat → Bool) (bs : Bytes) : dropRunes p bs <:+ bs := dropRunesF_suffix p _ bs

theorem dropRunes_lt (p : Nat → Bool) {bs rest : Bytes} {r : Nat} (h : nextRune bs = some (r, rest)) (hp : p r = true) :
    (dropRunes p bs).length < bs.length := by
  have hlt := nextRune_lt h
  unfold dropRunes
  cases hl : bs.length with
  | zero => omega
  | succ n =>
    simp only [dropRunesF, h, hp, if_true]
    have := (dropRunesF_suffix p n rest).length_le
    omega

/-! readIdentifier -/
theorem readIdentifier_suffix (cls : CharClass) (tb : Tables) (bs : Bytes) : (readIdentifier cls tb bs).2 <:+ bs := by
  unfold readIdentifier
  cases h : nextRune bs with
  | none => simp
  | some x =>
    obtain ⟨r0, r1⟩ := x
    have h1 : r1 <:+ bs := nextRune_suffix h
    have h2 : dropRunes (isIdentChar cls) r1 <:+ bs := (dropRunes_suffix _ _).trans h1
    simp only
    split
    · -- compound start
      cases h3 : nextRune ((dropRunes (isIdentChar cls) r1).dropWhile isWS) with
      | none => simpa using h2
      | some y =>
        obtain ⟨r, r4⟩ := y
        simp only
        split
        · split
          · have : r4 <:+ bs :=
              (nextRune_suffix h3).trans ((List.dropWhile_suffix _).trans h2)
            exact (dropRunes_suffix _ _).trans this
          · exact h2
        · exact h2
    · exact h2

theorem readIdentifier_lt (cls : CharClass) (tb : Tables) {bs : Bytes} (hne : bs ≠ []) :
    (readIdentifier cls tb bs).2.length < bs.length := by
  obtain ⟨r0, r1, h⟩ := nextRune_isSome_of_ne_nil hne
  have hlt := nextRune_lt h
  unfold readIdentifier
  simp only [h]
  have h2 : (dropRunes (isIdentChar cls) r1).length ≤ r1.length := (dropRunes_suffix _ _).length_le
  split
  · cases h3 : nextRune ((dropRunes (isIdentChar cls) r1).dropWhile isWS) with
    | none => simp only; omega
    | some y =>
      obtain ⟨r, r4⟩ := y
      simp only
      have h4 : r4.length < ((dropRunes (isIdentChar cls) r1).dropWhile isWS).length := nextRune_lt h3
      have h5 : ((dropRunes (isIdentChar cls) r1).dropWhile isWS).length ≤ (dropRunes (isIdentChar cls) r1).length :=
        (List.dropWhile_suffix _).length_le
      split
      · split
        · have := (dropRunes_suffix (isIdentChar cls) r4).length_le
          simp only; omega
        · simp only; omega
      · simp only; omega
  · simp only; omega

/-! readNumber -/
theorem numFrac_suffix {inp r1 r3 : Bytes} (h : numFrac inp r1 = .ok r3) : r3 <:+ r1 := by
  unfold numFrac at h
  split at h
  · rename_i r2
    split at h
    · simp at h
    · rename_i d tl
      split at h
      · injection h with h; subst h
        exact (dropRunes_suffix _ _).trans (List.suffix_cons _ _)
      · simp at h
  · injection h with h; subst h; exact List.suffix_refl _

theorem skipSign_suffix (bs : Bytes) : skipSign bs <:+ bs := by
  cases bs with
  | nil => simp [skipSign]
  | cons s r => simp only [skipSign]; split; exact List.suffix_cons _ _; exact List.suffix_refl _

theorem numExp_suffix {inp r3 r6 : Bytes} (h : numExp inp r3 = .ok r6) : r6 <:+ r3 := by
  unfold numExp at h
  split at h
  · rename_i e r4
    split at h
    · split at h
      · simp at h
      · rename_i d r5 heq
        split at h
        · injection h with h; subst h
          have h1 : (d :: r5) <:+ r4 := by rw [← heq]; exact skipSign_suffix r4
          exact (dropRunes_suffix _ _).trans (h1.trans (List.suffix_cons _ _))
        · simp at h
    · injection h with h; subst h; exact List.suffix_refl _
  · injection h with h; subst h; exact List.suffix_refl _

theorem readNumber_suffix (tb : Tables) (inp : Bytes) {bs : Bytes} {t : Tok} {rest : Bytes}
    (h : readNumber tb inp bs = .ok (t, rest)) : rest <:+ dropRunes isDigitR bs := by
  unfold readNumber at h
  split at h
  · injection h with h; injection h with _ h; subst h; exact List.suffix_refl _
  · split at h
    · simp at h
    · rename_i r3 hf
      split at h
      · simp at h
      · rename_i r6 he
        injection h with h; injection h with _ h; subst h
        exact (numExp_suffix he).trans (numFrac_suffix hf)

theorem readNumber_lt (tb : Tables) (inp : Bytes) {bs : Bytes} {t : Tok} {rest : Bytes}
    (hd : isDigitR (decodeRune bs).1 = true) (hne : bs ≠ [])
    (h : readNumber tb inp bs = .ok (t, rest)) : rest.length < bs.length := by
  obtain ⟨r0, r1, hn⟩ := nextRune_isSome_of_ne_nil hne
  have hr0 : r0 = (decodeRune bs).1 := by
    cases bs with
    | nil => exact absurd rfl hne
    | cons b tl => simp only [nextRune, Option.some.injEq, Prod.mk.injEq] at hn; exact hn.1.symm
  have hlt : (dropRunes isDigitR bs).length < bs.length := dropRunes_lt isDigitR hn (by rw [hr0]; exact hd)
  have := (readNumber_suffix tb inp h).length_le
  omega

/-! quoted identifiers, backtick identifiers, strings -/
theorem quotedIdentF_suffix (quote : Nat) : ∀ (fuel : Nat) (bs acc v rest : Bytes),
    quotedIdentF quote fuel bs acc = .inl (some (v, rest)) → rest <:+ bs
  | 0, _, _, _, _, h => by simp [quotedIdentF] at h
  | fuel+1, bs, acc, v, rest, h => by
    simp only [quotedIdentF] at h
    cases hn : nextRune bs with
    | none => simp [hn] at h
    | some x =>
      obtain ⟨r0, r1⟩ := x
      simp only [hn] at h
      have s1 := nextRune_suffix hn
      split at h
      · cases hn2 : nextRune r1 with
        | none => simp only [hn2] at h; injection h with h; injection h with h; injection h with _ h; subst h; exact s1
        | some y =>
          obtain ⟨n0, r2⟩ := y
          simp only [hn2] at h
          split at h
          · exact (quotedIdentF_suffix quote fuel _ _ _ _ h).trans ((nextRune_suffix hn2).trans s1)
          · injection h with h; injection h with h; injection h with _ h; subst h; exact s1
      · split at h
        · simp at h
        · exact (quotedIdentF_suffix quote fuel _ _ _ _ h).trans s1

theorem backtickF_suffix : ∀ (bs acc v rest : Bytes), backtickF bs acc = some (v, rest) → rest <:+ bs
  | [], _, _, _, h => by simp [backtickF] at h
  | b :: tl, acc, v, rest, h => by
    unfold backtickF at h
    split at h
    · split at h
      · rename_i b2 rest2
        split at h
        · exact (backtickF_suffix _ _ _ _ h).trans ((List.suffix_cons _ _).trans (List.suffix_cons _ _))
        · injection h with h; injection h with _ h; subst h; exact List.suffix_cons _ _
      · injection h with h; injection h with _ h; subst h; exact List.suffix_cons _ _
    · exact (backtickF_suffix _ _ _ _ h).trans (List.suffix_cons _ _)

theorem stringBodyF_suffix (inp : Bytes) (quote : Nat) : ∀ (fuel : Nat) (bs acc v rest : Bytes),
    stringBodyF inp quote fuel bs acc = .ok (some (v, rest)) → rest <:+ bs
  | 0, _, _, _, _, h => by simp [stringBodyF] at h
  | fuel+1, bs, acc, v, rest, h => by
    simp only [stringBodyF] at h
    cases hn : nextRune bs with
    | none => simp [hn] at h
    | some x =>
      obtain ⟨r0, r1⟩ := x
      simp only [hn] at h
      have s1 := nextRune_suffix hn
      split at h
      · cases hn2 : nextRune r1 with
        | none => simp only [hn2] at h; injection h with h; injection h with h; injection h with _ h; subst h; exact s1
        | some y =>
          obtain ⟨n0, r2⟩ := y
          simp only [hn2] at h
          split at h
          · exact (stringBodyF_suffix inp quote fuel _ _ _ _ h).trans ((nextRune_suffix hn2).trans s1)
          · injection h with h; injection h with h; injection h with _ h; subst h; exact s1
      · split at h
        · -- escape
          cases hn3 : nextRune bs.tail with
          | none => simp [hn3] at h
          | some z =>
            obtain ⟨e, r2⟩ := z
            simp only [hn3] at h
            have s2 : r2 <:+ bs := (nextRune_suffix hn3).trans (List.tail_suffix _)
            split at h
            · exact (stringBodyF_suffix inp quote fuel _ _ _ _ h).trans s2
            · split at h
              · exact (stringBodyF_suffix inp quote fuel _ _ _ _ h).trans s2
              · split at h
                · exact (stringBodyF_suffix inp quote fuel _ _ _ _ h).trans s2
                · split at h
                  · exact (stringBodyF_suffix inp quote fuel _ _ _ _ h).trans s2
                  · simp at h
        · exact (stringBodyF_suffix inp quote fuel _ _ _ _ h).trans s1

theorem tripleCloses_suffix {quote : Nat} {bs t3 : Bytes} (hc : tripleCloses quote bs = some t3) : t3 <:+ bs := by
  unfold tripleCloses at hc
  split at hc
  · simp at hc
  · cases h1 : nextRune bs with
    | none => simp [h1] at hc
    | some x1 =>
      obtain ⟨r1, t1⟩ := x1
      simp only [h1] at hc
      cases h2 : nextRune t1 with
      | none => simp [h2] at hc
      | some x2 =>
        obtain ⟨r2, t2⟩ := x2
        simp only [h2] at hc
        cases h3 : nextRune t2 with
        | none => simp [h3] at hc
        | some x3 =>
          obtain ⟨r3, t3'⟩ := x3
          simp only [h3] at hc
          split at hc
          · injection hc with hc; subst hc
            exact (nextRune_suffix h3).trans ((nextRune_suffix h2).trans (nextRune_suffix h1))
          · simp at hc

theorem tripleBodyF_suffix (quote : Nat) : ∀ (fuel : Nat) (bs acc v rest : Bytes),
    tripleBodyF quote fuel bs acc = some (v, rest) → rest <:+ bs
  | 0, _, _, _, _, h => by simp [tripleBodyF] at h
  | fuel+1, bs, acc, v, rest, h => by
    simp only [tripleBodyF] at h
    cases hc : tripleCloses quote bs with
    | some t3 =>
      simp only [hc] at h
      injection h with h; injection h with _ h; subst h
      exact tripleCloses_suffix hc
    | none =>
      simp only [hc] at h
      cases hn : nextRune bs with
      | none => simp [hn] at h
      | some x =>
        obtain ⟨r, r1⟩ := x
        simp only [hn] at h
        exact (tripleBodyF_suffix quote fuel _ _ _ _ h).trans (nextRune_suffix hn)

theorem dollarBodyF_suffix (closing : Bytes) : ∀ (fuel : Nat) (bs acc v rest : Bytes),
    dollarBodyF closing fuel bs acc = some (v, rest) → rest <:+ bs
  | 0, _, _, _, _, h => by simp [dollarBodyF] at h
  | fuel+1, bs, acc, v, rest, h => by
    simp only [dollarBodyF] at h
    split at h
    · simp at h
    · rename_i b tl
      split at h
      · injection h with h; injection h with _ h; subst h; exact List.drop_suffix _ _
      · exact (dollarBodyF_suffix closing fuel _ _ _ _ h).trans (List.drop_suffix _ _)

/-! the readers themselves -/
theorem readQuotedIdentifier_lt (tb : Tables) (inp : Bytes) {bs : Bytes} {t : Tok} {rest : Bytes}
    (h : readQuotedIdentifier tb inp bs = .ok (t, rest)) : rest.length < bs.length := by
  unfold readQuotedIdentifier at h
  cases hn : nextRune bs with
  | none => simp [hn] at h
  | some x =>
    obtain ⟨r0, r1⟩ := x
    simp only [hn] at h
    split at h
    · rename_i v rest' hq
      injection h with h; injection h with _ h; subst h
      have := (quotedIdentF_suffix _ _ _ _ _ _ hq).length_le
      have := nextRune_lt hn
      omega
    · simp at h
    · simp at h

theorem readBacktick_lt (tb : Tables) (inp : Bytes) {bs : Bytes} {t : Tok} {rest : Bytes} (hne : bs ≠ [])
    (h : readBacktick tb inp bs = .ok (t, rest)) : rest.length < bs.length := by
  unfold readBacktick at h
  split at h
  · rename_i v rest' hb
    injection h with h; injection h with _ h; subst h
    have := (backtickF_suffix _ _ _ _ hb).length_le
    cases bs with
    | nil => exact absurd rfl hne
    | cons b tl => simp only [List.drop_succ_cons, List.drop_zero, List.length_cons] at *; omega
  · simp at h

theorem dropTwoRunes_suffix (r1 : Bytes) : dropTwoRunes r1 <:+ r1 := by
  unfold dropTwoRunes
  cases h1 : nextRune r1 with
  | none => simp
  | some y =>
    obtain ⟨a, t1⟩ := y
    simp only
    cases h2 : nextRune t1 with
    | none => exact nextRune_suffix h1
    | some z =>
      obtain ⟨b, t2⟩ := z
      exact (nextRune_suffix h2).trans (nextRune_suffix h1)

theorem readQuotedString_lt (tb : Tables) (inp : Bytes) {bs : Bytes} {t : Tok} {rest : Bytes}
    (h : readQuotedString tb inp bs = .ok (t, rest)) : rest.length < bs.length := by
  unfold readQuotedString at h
  cases hn : nextRune bs with
  | none => simp [hn] at h
  | some x =>
    obtain ⟨r0, r1⟩ := x
    simp only [hn] at h
    have hlt := nextRune_lt hn
    split at h
    · split at h
      · rename_i v rest' ht
        injection h with h; injection h with _ h; subst h
        have h3 := (tripleBodyF_suffix _ _ _ _ _ _ ht).length_le
        have := (dropTwoRunes_suffix r1).length_le
        omega
      · simp at h
    · split at h
      · simp at h
      · simp at h
      · rename_i v rest' hs
        injection h with h; injection h with _ h; subst h
        have := (stringBodyF_suffix _ _ _ _ _ _ _ hs).length_le
        omega

theorem longestOp_nonempty (ops : List (Bytes × Nat)) (bs : Bytes) {op : Bytes} {ty : Nat}
    (h : longestOp ops bs = some (op, ty)) : op ≠ [] := by
  unfold longestOp at h
  -- invariant of the fold: the best so far is non-empty
  have key : ∀ (l : List (Bytes × Nat)) (init : Option (Bytes × Nat)),
      (∀ o, init = some o → o.1 ≠ []) →
      ∀ o, l.foldl (fun best o =>
        if (o.1.isPrefixOf bs && o.1 != []) = true then
          match best with
          | some b => if o.1.length > b.1.length then some o else best
          | none => some o
        else best) init = some o → o.1 ≠ [] := by
    intro l
    induction l with
    | nil => intro init hi o ho; exact hi o ho
    | cons x xs ih =>
      intro init hi o ho
      simp only [List.foldl_cons] at ho
      refine ih _ ?_ o ho
      intro o' ho'
      split at ho'
      · rename_i hx
        have hxne : x.1 ≠ [] := by
          simp only [Bool.and_eq_true, bne_iff_ne, ne_eq] at hx; exact hx.2
        split at ho'
        · split at ho'
          · injection ho' with ho'; subst ho'; exact hxne
          · exact hi o' ho'
        · injection ho' with ho'; subst ho'; exact hxne
      · exact hi o' ho'
  exact key ops none (by simp) (op, ty) h

theorem readDollar_lt (cls : CharClass) (tb : Tables) (inp : Bytes) {bs : Bytes} {t : Tok} {rest : Bytes} (hne : bs ≠ [])
    (h : readDollar cls tb inp bs = .ok (t, rest)) : rest.length < bs.length := by
  have hd : (bs.drop 1).length < bs.length := by
    cases bs with
    | nil => exact absurd rfl hne
    | cons b tl => simp
  unfold readDollar at h
  simp only at h
  cases hn : nextRune (bs.drop 1) with
  | none =>
    simp only [hn] at h
    injection h with h; injection h with _ h; subst h; exact hd
  | some x =>
    obtain ⟨n, r'⟩ := x
    simp only [hn] at h
    split at h
    · injection h with h; injection h with _ h; subst h
      have := (dropRunes_suffix isDigitR (bs.drop 1)).length_le
      omega
    · split at h
      · -- tag
        generalize hr2 : (if (n == 36) = true then List.drop 1 bs
            else dropRunes (fun c => c != 36 && isIdentChar cls c) (List.drop 1 bs)) = r2 at h
        have h2 : r2.length ≤ (bs.drop 1).length := by
          rw [← hr2]; split
          · exact Nat.le_refl _
          · exact (dropRunes_suffix _ _).length_le
        cases hn2 : nextRune r2 with
        | none =>
          simp only [hn2] at h
          injection h with h; injection h with _ h; subst h; exact hd
        | some y =>
          obtain ⟨c, r3⟩ := y
          simp only [hn2] at h
          have h3 := nextRune_lt hn2
          split at h
          · injection h with h; injection h with _ h; subst h; exact hd
          · split at h
            · rename_i content rest' hb
              injection h with h; injection h with _ h; subst h
              have := (dollarBodyF_suffix _ _ _ _ _ _ hb).length_le
              omega
            · simp at h
      · injection h with h; injection h with _ h; subst h; exact hd

theorem readPunctuation_lt (cls : CharClass) (tb : Tables) (inp : Bytes) {bs : Bytes} {t : Tok} {rest : Bytes}
    (h : readPunctuation cls tb inp bs = .ok (t, rest)) : rest.length < bs.length := by
  unfold readPunctuation at h
  cases bs with
  | nil => simp at h
  | cons b r1 =>
    simp only at h
    split at h
    · exact readDollar_lt cls tb inp (by simp) h
    · split at h
      · -- '@'
        cases hn : nextRune r1 with
        | none =>
          simp only [hn] at h
          injection h with h; injection h with _ h; subst h; simp
        | some x =>
          obtain ⟨n, r'⟩ := x
          simp only [hn] at h
          split at h
          · injection h with h; injection h with _ h; subst h
            simp only [List.length_drop, List.length_cons]; omega
          · split at h
            · injection h with h; injection h with _ h; subst h
              simp only [List.length_drop, List.length_cons]; omega
            · split at h
              · injection h with h; injection h with _ h; subst h
                have := (readIdentifier_suffix cls tb r1).length_le
                simp only [List.length_cons]; omega
              · injection h with h; injection h with _ h; subst h; simp
      · split at h
        · rename_i op ty ho
          injection h with h; injection h with _ h; subst h
          have hne := longestOp_nonempty _ _ ho
          have : 1 ≤ op.length := by
            cases op with
            | nil => exact absurd rfl hne
            | cons a as => simp
          simp only [List.length_drop, List.length_cons]; omega
        · simp at h

/-- **progress**: whenever a token is produced, at least one byte has been consumed -/
theorem nextToken_progress (cls : CharClass) (tb : Tables) (inp : Bytes) {bs : Bytes} {t : Tok} {rest : Bytes}
    (hne : bs ≠ []) (h : nextToken cls tb inp bs = .ok (t, rest)) : rest.length < bs.length := by
  unfold nextToken at h
  simp only at h
  split at h
  · injection h with h
    have := readIdentifier_lt cls tb hne
    rw [h] at this; exact this
  · split at h
    · rename_i hd
      exact readNumber_lt tb inp hd hne h
    · split at h
      · exact readQuotedIdentifier_lt tb inp h
      · split at h
        · exact readBacktick_lt tb inp hne h
        · split at h
          · exact readQuotedString_lt tb inp h
          · exact readPunctuation_lt cls tb inp h

theorem afterLine_suffix : ∀ bs : Bytes, afterLine bs <:+ bs
  | [] => by simp [afterLine]
  | b :: tl => by
    simp only [afterLine]; split
    · exact List.suffix_cons _ _
    · exact (afterLine_suffix tl).trans (List.suffix_cons _ _)

theorem afterBlock_suffix : ∀ bs : Bytes, afterBlock bs <:+ bs
  | [] => by simp [afterBlock]
  | [_] => by simp [afterBlock]
  | a :: b :: tl => by
    simp only [afterBlock]; split
    · exact (List.suffix_cons _ _).trans (List.suffix_cons _ _)
    · exact (afterBlock_suffix (b :: tl)).trans (List.suffix_cons _ _)

theorem skipTriviaF_suffix (inp : Bytes) : ∀ (fuel : Nat) (rest : Bytes) (cs : List Comment),
    (skipTriviaF inp fuel rest cs).1 <:+ rest
  | 0, rest, cs => by simp only [skipTriviaF]; exact List.dropWhile_suffix _
  | fuel+1, rest, cs => by
    simp only [skipTriviaF]
    have hw : rest.dropWhile isWS <:+ rest := List.dropWhile_suffix _
    split
    · rename_i c0 c1 body heq
      have hb : body <:+ rest := by
        have : body <:+ c0 :: c1 :: body := (List.suffix_cons _ _).trans (List.suffix_cons _ _)
        rw [← heq] at this; exact this.trans hw
      split
      · exact (skipTriviaF_suffix inp fuel _ _).trans ((afterLine_suffix body).trans hb)
      · split
        · exact (skipTriviaF_suffix inp fuel _ _).trans ((afterBlock_suffix body).trans hb)
        · exact hw
    · exact hw

/-- the main loop never runs out of fuel when it starts with more fuel than bytes -/
theorem lexLoop_total (cls : CharClass) (tb : Tables) (inp : Bytes) : ∀ (fuel : Nat) (rest : Bytes) (toks : List Tok)
    (cs : List Comment), rest.length < fuel → lexLoop cls tb inp fuel rest toks cs ≠ .outOfFuel
  | 0, _, _, _, h => by omega
  | fuel+1, rest, toks, cs, h => by
    simp only [lexLoop]
    have hs := (skipTriviaF_suffix inp (rest.length + 1) rest cs).length_le
    generalize skipTriviaF inp (rest.length + 1) rest cs = st at hs
    obtain ⟨r1, cs1⟩ := st
    simp only at hs ⊢
    split
    · simp
    · rename_i hne
      split
      · simp
      · cases hn : nextToken cls tb inp r1 with
        | error e => simp
        | ok x =>
          obtain ⟨t, r2⟩ := x
          simp only
          have hlt := nextToken_progress cls tb inp (by intro e; exact hne e) hn
          exact lexLoop_total cls tb inp fuel r2 _ _ (by omega)

/-- **C01 (tokenizer)**: for every classifier, every table and every byte string the tokenizer model returns tokens
    or an error — it cannot loop -/
theorem tokenize_total (cls : CharClass) (tb : Tables) (inp : Bytes) : tokenize cls tb inp ≠ .outOfFuel := by
  unfold tokenize
  split
  · simp
  · exact lexLoop_total cls tb inp _ _ _ _ (by omega)

end GoSQLXModel.Lex
