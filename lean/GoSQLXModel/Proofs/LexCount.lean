import GoSQLXModel.Proofs.LexLimit
/-!
# Tokens and bytes

`tokens_le_bytes`: whatever the input, the classifier and the tables, an accepted run returns at most one token per
byte of input, plus the end marker — every token consumes at least one byte (`nextToken_progress`) and separators are
never handed back.  This is the output-size half of the linear-cost argument of C20.
-/
namespace GoSQLXModel.Lex

theorem lexLoop_count (cls : CharClass) (tb : Tables) (inp : Bytes) : ∀ (fuel : Nat) (rest : Bytes) (acc : List Tok)
    (cs : List Comment) (out : List Tok) (cms : List Comment),
    lexLoop cls tb inp fuel rest acc cs = .ok out cms → out.length ≤ acc.length + rest.length + 1 := by
  intro fuel
  induction fuel with
  | zero => intro rest acc cs out cms h; simp [lexLoop] at h
  | succ f ih =>
    intro rest acc cs out cms h
    unfold lexLoop at h
    have hs := (skipTriviaF_suffix inp (rest.length + 1) rest cs).length_le
    cases hsk : skipTriviaF inp (rest.length + 1) rest cs with
    | mk r1 cs1 =>
      rw [hsk] at h hs
      cases r1 with
      | nil =>
        simp only [Result.ok.injEq] at h
        rw [← h.1]
        simp only [List.length_append, List.length_reverse, List.length_cons, List.length_nil]
        omega
      | cons b tl =>
        simp only at h hs
        by_cases hlim : acc.length ≥ tb.maxTokens
        · simp [hlim] at h
        · simp only [hlim, if_false] at h
          cases hnt : nextToken cls tb inp (b :: tl) with
          | error e => rw [hnt] at h; simp at h
          | ok p =>
            obtain ⟨t, r2⟩ := p
            rw [hnt] at h
            simp only at h
            have hlt := nextToken_progress cls tb inp (by simp) hnt
            have := ih r2 _ cs1 out cms h
            simp only [List.length_cons] at this hlt hs
            omega

/-- **at most one token per byte, plus the end marker** -/
theorem tokens_le_bytes (cls : CharClass) (tb : Tables) (inp : Bytes) (out : List Tok) (cms : List Comment)
    (h : tokenize cls tb inp = .ok out cms) : out.length ≤ inp.length + 1 := by
  unfold tokenize at h
  by_cases hb : inp.length > tb.maxInput
  · simp [hb] at h
  · simp only [hb, if_false] at h
    have := lexLoop_count cls tb inp _ _ [] [] out cms h
    simpa using this

end GoSQLXModel.Lex
