import GoSQLXModel.Proofs.LexSpell
/-!
# The reference lexical grammar, second surface: comments as separators, no separator where legal, every operator,
# string literals with doubled quotes and escapes

`Proofs/LexSpell.lean` reads words, integers and `( ) , ;` separated by non-empty blank runs.  This file widens the
surface the theorem speaks about:

* **separators** are lists of pieces — a blank run, a line comment `-- … \n`, a block comment `/* … */` — and may be
  *empty*; every comment is captured, in order, with its exact text and kind;
* **lexemes**: ASCII words, unsigned integers, *every* operator of the operator table (multi-byte ones included),
  single-quoted string literals built from plain bytes, doubled quotes and the seven backslash escapes (the token's
  value is the decoded text), double-quoted identifiers with doubled quotes;
* the only side condition on a junction is local and decidable (`Lx.follow`): the first byte after a lexeme must not be
  one that would extend it (an identifier character after a word, a digit / `.` / `e` after an integer, a byte that
  makes a longer operator, a quote after a closing quote), and the lexeme must not, together with that byte, look like
  the opening of a comment.

`tokenize_spell2`: for every item list that passes the check `seqOK` (a `Bool`, so that concrete inputs can be decided
and the driver can report coverage), within the limits, the tokens are exactly the lexemes' (type, value) pairs followed
by one end marker and the comments exactly the separators' comments.  `tokenize_layout_independent2`: two item lists
with the same lexemes, whatever their separators, give the same tokens.
-/
namespace GoSQLXModel.Lex

/-! ## separator pieces -/
inductive Piece where
  | blanks (ws : Bytes)
  | line (body : Bytes)      -- `--` body newline
  | block (body : Bytes)     -- `/*` body `*/`
  deriving Repr

/-- does `*/` occur in the body? -/
def hasClose : Bytes → Bool
  | a :: b :: t => (a == 42 && b == 47) || hasClose (b :: t)
  | _ => false

def Piece.bytes : Piece → Bytes
  | .blanks ws => ws
  | .line body => 45 :: 45 :: (body ++ [10])
  | .block body => 47 :: 42 :: (body ++ [42, 47])

def Piece.ok : Piece → Bool
  | .blanks ws => ws.all isWS
  | .line body => body.all (· != 10)
  | .block body => !hasClose body

/-- the comment a piece must be captured as: exact text, block flag -/
def Piece.comments : Piece → List (Bytes × Bool)
  | .blanks _ => []
  | .line body => [(45 :: 45 :: body, false)]
  | .block body => [(47 :: 42 :: (body ++ [42, 47]), true)]

def sepBytes : List Piece → Bytes
  | [] => []
  | p :: ps => p.bytes ++ sepBytes ps

def sepComments : List Piece → List (Bytes × Bool)
  | [] => []
  | p :: ps => p.comments ++ sepComments ps

def ncom : List Piece → Nat
  | [] => 0
  | .blanks _ :: ps => ncom ps
  | _ :: ps => ncom ps + 1

def Comment.key (c : Comment) : Bytes × Bool := (c.text, c.block)
def Comment.span (c : Comment) : Nat × Nat := (c.startOff, c.endOff)

/-- where the comments of a separator lie, given the offset at which the separator starts (a line comment's span
    includes the newline that ends it) -/
def sepSpans : Nat → List Piece → List (Nat × Nat)
  | _, [] => []
  | off, .blanks ws :: ps => sepSpans (off + ws.length) ps
  | off, p :: ps => (off, off + p.bytes.length) :: sepSpans (off + p.bytes.length) ps

/-- the trivia loop stops here: end of input, or a byte that is no blank and does not open a comment -/
def stopB : Bytes → Bool
  | [] => true
  | b :: tl => !isWS b && !(b == 45 && tl.head? == some 45) && !(b == 47 && tl.head? == some 42)

theorem afterLine_body (body Y : Bytes) (h : body.all (· != 10) = true) : afterLine (body ++ 10 :: Y) = Y := by
  induction body with
  | nil => simp [afterLine]
  | cons b bs ih =>
    simp only [List.all_cons, Bool.and_eq_true, bne_iff_ne, ne_eq] at h
    have hb : (b == 10) = false := by simpa using h.1
    simp only [List.cons_append, afterLine, hb, Bool.false_eq_true, if_false]
    exact ih (by simpa using h.2)

theorem afterBlock_body (body Y : Bytes) (h : hasClose body = false) : afterBlock (body ++ 42 :: 47 :: Y) = Y := by
  induction body with
  | nil => simp [afterBlock]
  | cons a t ih =>
    cases t with
    | nil =>
      -- a :: 42 :: 47 :: Y
      have : (a == 42 && (42 : UInt8) == 47) = false := by simp
      simp [afterBlock]
    | cons b t' =>
      simp only [hasClose, Bool.or_eq_false_iff] at h
      simp only [List.cons_append, afterBlock, h.1, Bool.false_eq_true, if_false]
      exact ih h.2

theorem dropWhile_ws_append (ws X : Bytes) (h : ws.all isWS = true) : (ws ++ X).dropWhile isWS = X.dropWhile isWS := by
  induction ws with
  | nil => rfl
  | cons w ws ih =>
    simp only [List.all_cons, Bool.and_eq_true] at h
    simp only [List.cons_append, List.dropWhile, h.1]
    exact ih h.2

theorem skipTriviaF_ws (inp : Bytes) (fuel : Nat) (ws X : Bytes) (cs : List Comment) (h : ws.all isWS = true) :
    skipTriviaF inp fuel (ws ++ X) cs = skipTriviaF inp fuel X cs := by
  cases fuel with
  | zero => simp only [skipTriviaF, dropWhile_ws_append ws X h]
  | succ f => simp only [skipTriviaF, dropWhile_ws_append ws X h]

theorem skipTriviaF_stop (inp : Bytes) (fuel : Nat) (X : Bytes) (cs : List Comment) (h : stopB X = true) :
    skipTriviaF inp fuel X cs = (X, cs) := by
  cases X with
  | nil => cases fuel <;> simp [skipTriviaF]
  | cons b tl =>
    simp only [stopB, Bool.and_eq_true, Bool.not_eq_true', Bool.and_eq_false_iff] at h
    obtain ⟨⟨hws, h1⟩, h2⟩ := h
    cases fuel with
    | zero => simp [skipTriviaF, List.dropWhile, hws]
    | succ f =>
      simp only [skipTriviaF, List.dropWhile, hws]
      cases tl with
      | nil => rfl
      | cons c tl' =>
        have e1 : (b == 45 && c == 45) = false := by
          rcases h1 with h1 | h1
          · simp [h1]
          · simp only [List.head?_cons] at h1
            have : (c == 45) = false := by
              cases hc : (c == 45) with
              | false => rfl
              | true => simp only [beq_iff_eq] at hc; subst hc; simp at h1
            simp [this]
        have e2 : (b == 47 && c == 42) = false := by
          rcases h2 with h2 | h2
          · simp [h2]
          · simp only [List.head?_cons] at h2
            have : (c == 42) = false := by
              cases hc : (c == 42) with
              | false => rfl
              | true => simp only [beq_iff_eq] at hc; subst hc; simp at h2
            simp [this]
        simp [e1, e2]

theorem consumed_cons2 (a b : UInt8) (A Y : Bytes) : consumed (a :: b :: (A ++ Y)) Y = a :: b :: A := by
  have := consumed_append (a :: b :: A) Y
  simpa using this

theorem skipTriviaF_line (inp : Bytes) (f : Nat) (body Y : Bytes) (cs : List Comment) (h : body.all (· != 10) = true) :
    ∃ c : Comment, c.key = (45 :: 45 :: body, false) ∧
      c.span = (inp.length - (45 :: 45 :: (body ++ 10 :: Y)).length, inp.length - Y.length) ∧
      skipTriviaF inp (f + 1) (45 :: 45 :: (body ++ 10 :: Y)) cs = skipTriviaF inp f Y (cs ++ [c]) := by
  have hcons : consumed (45 :: 45 :: (body ++ 10 :: Y)) Y = 45 :: 45 :: (body ++ [10]) := by
    have := consumed_cons2 45 45 (body ++ [10]) Y
    simpa using this
  have hlast : (45 :: 45 :: (body ++ [10]) : Bytes).getLast? = some 10 := by
    have : (45 :: 45 :: (body ++ [10]) : Bytes) = (45 :: 45 :: body) ++ [10] := by simp
    rw [this, List.getLast?_append]; simp
  have hdrop : (45 :: 45 :: (body ++ [10]) : Bytes).dropLast = 45 :: 45 :: body := by
    have : (45 :: 45 :: (body ++ [10]) : Bytes) = (45 :: 45 :: body) ++ [10] := by simp
    rw [this, List.dropLast_concat]
  refine ⟨{ text := 45 :: 45 :: body, block := false, startOff := inp.length - (45 :: 45 :: (body ++ 10 :: Y)).length,
             endOff := inp.length - Y.length, inline := codeBefore inp (inp.length - (45 :: 45 :: (body ++ 10 :: Y)).length) }, rfl, rfl, ?_⟩
  have hws : isWS 45 = false := by decide
  simp only [skipTriviaF, List.dropWhile, hws, afterLine_body body Y h, hcons, hlast, hdrop]
  simp

theorem skipTriviaF_block (inp : Bytes) (f : Nat) (body Y : Bytes) (cs : List Comment) (h : hasClose body = false) :
    ∃ c : Comment, c.key = (47 :: 42 :: (body ++ [42, 47]), true) ∧
      c.span = (inp.length - (47 :: 42 :: (body ++ 42 :: 47 :: Y)).length, inp.length - Y.length) ∧
      skipTriviaF inp (f + 1) (47 :: 42 :: (body ++ 42 :: 47 :: Y)) cs = skipTriviaF inp f Y (cs ++ [c]) := by
  have hcons : consumed (47 :: 42 :: (body ++ 42 :: 47 :: Y)) Y = 47 :: 42 :: (body ++ [42, 47]) := by
    have := consumed_cons2 47 42 (body ++ [42, 47]) Y
    simpa using this
  refine ⟨{ text := 47 :: 42 :: (body ++ [42, 47]), block := true, startOff := inp.length - (47 :: 42 :: (body ++ 42 :: 47 :: Y)).length,
             endOff := inp.length - Y.length, inline := codeBefore inp (inp.length - (47 :: 42 :: (body ++ 42 :: 47 :: Y)).length) }, rfl, rfl, ?_⟩
  have hws : isWS 47 = false := by decide
  simp only [skipTriviaF, List.dropWhile, hws, afterBlock_body body Y h, hcons]
  simp

theorem ncom_le (ps : List Piece) : ncom ps ≤ (sepBytes ps).length := by
  induction ps with
  | nil => simp [ncom, sepBytes]
  | cons p ps ih =>
    cases p <;> simp only [ncom, sepBytes, Piece.bytes, List.length_append, List.length_cons] <;> omega

/-- a separator is skipped whole, and its comments — exactly those — are captured in order -/
theorem skipTriviaF_sep (inp : Bytes) : ∀ (ps : List Piece) (fuel : Nat) (X : Bytes) (cs : List Comment) (pre : Bytes),
    inp = pre ++ (sepBytes ps ++ X) →
    ps.all Piece.ok = true → stopB X = true → ncom ps ≤ fuel →
    ∃ cs', skipTriviaF inp fuel (sepBytes ps ++ X) cs = (X, cs') ∧ cs'.map Comment.key = cs.map Comment.key ++ sepComments ps ∧
      cs'.map Comment.span = cs.map Comment.span ++ sepSpans pre.length ps := by
  intro ps
  induction ps with
  | nil =>
    intro fuel X cs pre _ _ hX _
    exact ⟨cs, by simpa [sepBytes] using skipTriviaF_stop inp fuel X cs hX, by simp [sepComments], by simp [sepSpans]⟩
  | cons p ps ih =>
    intro fuel X cs pre hinp hok hX hf
    simp only [List.all_cons, Bool.and_eq_true] at hok
    cases p with
    | blanks ws =>
      obtain ⟨cs', h1, h2, h3⟩ := ih fuel X cs (pre ++ ws) (by rw [hinp]; simp [sepBytes, Piece.bytes]) hok.2 hX (by simpa [ncom] using hf)
      refine ⟨cs', ?_, by simpa [sepComments, Piece.comments] using h2, by simpa [sepSpans] using h3⟩
      simp only [sepBytes, Piece.bytes, List.append_assoc]
      rw [skipTriviaF_ws inp fuel ws _ cs (by simpa [Piece.ok] using hok.1)]
      exact h1
    | line body =>
      cases fuel with
      | zero => simp [ncom] at hf
      | succ f =>
        obtain ⟨c, hc, hsp, hstep⟩ := skipTriviaF_line inp f body (sepBytes ps ++ X) cs (by simpa [Piece.ok] using hok.1)
        obtain ⟨cs', h1, h2, h3⟩ := ih f X (cs ++ [c]) (pre ++ (Piece.line body).bytes)
          (by rw [hinp]; simp [sepBytes, Piece.bytes]) hok.2 hX (by simp only [ncom] at hf; omega)
        refine ⟨cs', ?_, ?_, ?_⟩
        · have : sepBytes (Piece.line body :: ps) ++ X = 45 :: 45 :: (body ++ 10 :: (sepBytes ps ++ X)) := by
            simp [sepBytes, Piece.bytes]
          rw [this, hstep]; exact h1
        · rw [h2]; simp [sepComments, Piece.comments, hc]
        · rw [h3]
          have e1 : inp.length - (45 :: 45 :: (body ++ 10 :: (sepBytes ps ++ X))).length = pre.length := by
            rw [hinp]; simp only [sepBytes, Piece.bytes, List.length_append, List.length_cons, List.length_nil]; omega
          have e2 : inp.length - ((sepBytes ps).length + X.length) = pre.length + (Piece.line body).bytes.length := by
            rw [hinp]; simp only [sepBytes, Piece.bytes, List.length_append, List.length_cons, List.length_nil]; omega
          simp only [List.map_append, List.map_cons, List.map_nil, hsp, e1, e2, sepSpans, List.length_append, List.append_assoc,
            List.cons_append, List.nil_append]
    | block body =>
      cases fuel with
      | zero => simp [ncom] at hf
      | succ f =>
        obtain ⟨c, hc, hsp, hstep⟩ := skipTriviaF_block inp f body (sepBytes ps ++ X) cs (by simpa [Piece.ok] using hok.1)
        obtain ⟨cs', h1, h2, h3⟩ := ih f X (cs ++ [c]) (pre ++ (Piece.block body).bytes)
          (by rw [hinp]; simp [sepBytes, Piece.bytes]) hok.2 hX (by simp only [ncom] at hf; omega)
        refine ⟨cs', ?_, ?_, ?_⟩
        · have : sepBytes (Piece.block body :: ps) ++ X = 47 :: 42 :: (body ++ 42 :: 47 :: (sepBytes ps ++ X)) := by
            simp [sepBytes, Piece.bytes]
          rw [this, hstep]; exact h1
        · rw [h2]; simp [sepComments, Piece.comments, hc]
        · rw [h3]
          have e1 : inp.length - (47 :: 42 :: (body ++ 42 :: 47 :: (sepBytes ps ++ X))).length = pre.length := by
            rw [hinp]; simp only [sepBytes, Piece.bytes, List.length_append, List.length_cons, List.length_nil]; omega
          have e2 : inp.length - ((sepBytes ps).length + X.length) = pre.length + (Piece.block body).bytes.length := by
            rw [hinp]; simp only [sepBytes, Piece.bytes, List.length_append, List.length_cons, List.length_nil]; omega
          simp only [List.map_append, List.map_cons, List.map_nil, hsp, e1, e2, sepSpans, List.length_append, List.append_assoc,
            List.cons_append, List.nil_append]

/-! ## lexemes -/
/-- a piece of a single-quoted string literal as written: a plain byte, a doubled quote, a backslash escape -/
inductive SP where
  | ch (b : UInt8)
  | dq
  | esc (e : UInt8)
  deriving Repr

def SP.src : SP → Bytes
  | .ch b => [b]
  | .dq => [39, 39]
  | .esc e => [92, e]

/-- what the piece stands for -/
def SP.val : SP → Bytes
  | .ch b => [b]
  | .dq => [39]
  | .esc e => if e == 110 then [10] else if e == 114 then [13] else if e == 116 then [9] else [e]

def SP.ok : SP → Bool
  | .ch b => decide (b.toNat < 128) && b != 39 && b != 92
  | .dq => true
  | .esc e => e == 92 || e == 34 || e == 39 || e == 96 || e == 110 || e == 114 || e == 116

def spSrc : List SP → Bytes
  | [] => []
  | p :: ps => p.src ++ spSrc ps
def spVal : List SP → Bytes
  | [] => []
  | p :: ps => p.val ++ spVal ps

/-- a piece of a double-quoted identifier: a plain byte or a doubled quote -/
inductive QP where
  | ch (b : UInt8)
  | dq
  deriving Repr

def QP.src : QP → Bytes
  | .ch b => [b]
  | .dq => [34, 34]
def QP.val : QP → Bytes
  | .ch b => [b]
  | .dq => [34]
def QP.ok : QP → Bool
  | .ch b => decide (b.toNat < 128) && b != 34 && b != 10
  | .dq => true
def qpSrc : List QP → Bytes
  | [] => []
  | p :: ps => p.src ++ qpSrc ps
def qpVal : List QP → Bytes
  | [] => []
  | p :: ps => p.val ++ qpVal ps

/-- a piece of a backtick-quoted identifier: any byte but a backtick, or a doubled backtick -/
inductive BP where
  | ch (b : UInt8)
  | dq
  deriving Repr
def BP.src : BP → Bytes
  | .ch b => [b]
  | .dq => [96, 96]
def BP.val : BP → Bytes
  | .ch b => [b]
  | .dq => [96]
def BP.ok : BP → Bool
  | .ch b => b != 96
  | .dq => true
def bpSrc : List BP → Bytes
  | [] => []
  | p :: ps => p.src ++ bpSrc ps
def bpVal : List BP → Bytes
  | [] => []
  | p :: ps => p.val ++ bpVal ps

inductive Lx where
  | word (w : Bytes)
  | compound (w1 ws w2 : Bytes)   -- a two-word keyword: first word, blank run, second word
  | int (ds : Bytes)
  | num (ip fp ex : Bytes)        -- digits, optional `.`digits (fp = [] : none), optional exponent text (ex = [] : none)
  | op (o : Bytes)
  | str (ps : List SP)
  | qid (qs : List QP)
  | bq (bs : List BP)
  deriving Repr

def fracBytes (fp : Bytes) : Bytes := if fp.isEmpty then [] else 46 :: fp

def isDigits : Bytes → Bool
  | [] => false
  | d :: ds => isDigitB d && ds.all isDigitB

/-- `e` or `E`, an optional sign, at least one digit -/
def isExpShaped : Bytes → Bool
  | e :: s :: ds => (e == 101 || e == 69) && (if s == 43 || s == 45 then isDigits ds else isDigits (s :: ds))
  | _ => false

def Lx.bytes : Lx → Bytes
  | .word w => w
  | .compound w1 ws w2 => w1 ++ (ws ++ w2)
  | .int ds => ds
  | .num ip fp ex => ip ++ (fracBytes fp ++ ex)
  | .op o => o
  | .str ps => 39 :: (spSrc ps ++ [39])
  | .qid qs => 34 :: (qpSrc qs ++ [34])
  | .bq bs => 96 :: (bpSrc bs ++ [96])

/-- type and value of the token a lexeme must be read as -/
def Lx.key (cls : CharClass) (tb : Tables) : Lx → Nat × Bytes
  | .word w => ((lookup tb.keywords (upper cls w)).getD tb.ttIdentifier, w)
  | .compound w1 _ w2 => ((lookup tb.compoundTypes (upper cls (w1 ++ [32] ++ w2))).getD 0, w1 ++ [32] ++ w2)
  | .int ds => (tb.ttNumber, ds)
  | .num ip fp ex => (tb.ttNumber, ip ++ (fracBytes fp ++ ex))
  | .op o => ((lookup tb.operators o).getD 0, o)
  | .str ps => (tb.ttSingle, spVal ps)
  | .qid qs => (tb.ttDouble, qpVal qs)
  | .bq bs => (tb.ttIdentifier, bpVal bs)

/-- first byte of an operator lexeme: ASCII and dispatched to readPunctuation's table branch -/
def opHeadOK (cls : CharClass) (b : UInt8) : Bool :=
  decide (b.toNat < 128) && !isIdentStart cls b.toNat && !isDigitB b && b != 34 && b != 96 && b != 39 && b != 36 && b != 64

def uniqueOp (tb : Tables) (o : Bytes) : Bool :=
  match tb.operators.filter (·.1 == o) with
  | [_] => true
  | _ => false

/-- a literal that begins with a doubled quote would be read as the opening of a triple-quoted string -/
def noTripleStart : List SP → Bool
  | .dq :: _ => false
  | _ => true

def isWordShaped : Bytes → Bool
  | [] => false
  | c :: cs => isWordStartB c && cs.all isWordCharB

def Lx.ok (cls : CharClass) (tb : Tables) : Lx → Bool
  | .word w =>
    match w with
    | [] => false
    | c :: cs => isWordStartB c && cs.all isWordCharB
  | .compound w1 ws w2 =>
    isWordShaped w1 && isWordShaped w2 && !ws.isEmpty && ws.all isWS && tb.compoundStarts.contains (upper cls w1) &&
    (lookup tb.compoundTypes (upper cls (w1 ++ [32] ++ w2))).isSome
  | .int ds =>
    match ds with
    | [] => false
    | d :: ds' => isDigitB d && ds'.all isDigitB
  | .num ip fp ex =>
    isDigits ip && (fp.isEmpty || isDigits fp) && (ex.isEmpty || isExpShaped ex) && !(fp.isEmpty && ex.isEmpty)
  | .op o =>
    match o with
    | [] => false
    | b :: _ => opHeadOK cls b && uniqueOp tb o
  | .str ps => !isIdentStart cls 39 && ps.all SP.ok && noTripleStart ps
  | .qid qs => !isIdentStart cls 34 && qs.all QP.ok
  | .bq bs => !isIdentStart cls 96 && bs.all BP.ok

def followWord (cls : CharClass) : Bytes → Bool
  | [] => true
  | s :: _ => decide (s.toNat < 128) && !isIdentChar cls s.toNat
def followInt : Bytes → Bool
  | [] => true
  | s :: _ => decide (s.toNat < 128) && !isDigitB s && s != 46 && s != 101 && s != 69
/-- after the digits of a fraction: anything but a digit or the opening of an exponent -/
def followFrac : Bytes → Bool
  | [] => true
  | s :: _ => decide (s.toNat < 128) && !isDigitB s && s != 101 && s != 69
/-- after the digits of an exponent: anything but a digit -/
def followExp : Bytes → Bool
  | [] => true
  | s :: _ => decide (s.toNat < 128) && !isDigitB s
def followOp (tb : Tables) (o : Bytes) : Bytes → Bool
  | [] => true
  | s :: _ => tb.operators.all fun x => !(o ++ [s]).isPrefixOf x.1
def followQuote (q : UInt8) : Bytes → Bool
  | [] => true
  | s :: _ => decide (s.toNat < 128) && s != q

/-- after the first word of a two-word keyword: what follows the blanks is no word, or a word that does not complete
    a two-word keyword with `w` -/
def noCompound (cls : CharClass) (tb : Tables) (w R : Bytes) : Bool :=
  match R.dropWhile isWS with
  | [] => true
  | s :: r4 => decide (s.toNat < 128) &&
      (!isIdentStart cls s.toNat ||
        (isWordStartB s && followWord cls (r4.dropWhile isWordCharB) &&
          (lookup tb.compoundTypes (upper cls (w ++ [32] ++ (s :: r4.takeWhile isWordCharB)))).isNone))

/-- may the lexeme be followed by these bytes without being read differently? -/
def Lx.follow (cls : CharClass) (tb : Tables) : Lx → Bytes → Bool
  | .word w => fun R => followWord cls R && (!tb.compoundStarts.contains (upper cls w) || noCompound cls tb w R)
  | .compound _ _ _ => followWord cls
  | .int _ => followInt
  | .num _ _ ex => if ex.isEmpty then followFrac else followExp
  | .op o => followOp tb o
  | .str _ => followQuote 39
  | .qid _ => followQuote 34
  | .bq _ => fun R => R.head? != some 96

/-! ### words -/
theorem dropRunesF_all (p : Nat → Bool) (cs : Bytes) (hcs : ∀ x ∈ cs, x.toNat < 128 ∧ p x.toNat = true) :
    ∀ fuel, cs.length ≤ fuel → dropRunesF p fuel cs = [] := by
  induction cs with
  | nil => intro fuel _; cases fuel <;> simp [dropRunesF, nextRune]
  | cons c cs ih =>
    intro fuel hf
    cases fuel with
    | zero => simp at hf
    | succ f =>
      have hc := hcs c (by simp)
      simp only [dropRunesF, nextRune_ascii c _ hc.1, hc.2, if_true]
      exact ih (fun x hx => hcs x (by simp [hx])) f (by simp only [List.length_cons] at hf; omega)

/-- a run of bytes satisfying `p`, then the end of input or an ASCII byte that does not: dropped exactly -/
theorem dropRunes_follow (p : Nat → Bool) (cs R : Bytes) (hcs : ∀ x ∈ cs, x.toNat < 128 ∧ p x.toNat = true)
    (hR : match R with | [] => True | s :: _ => s.toNat < 128 ∧ p s.toNat = false) :
    dropRunes p (cs ++ R) = R := by
  cases R with
  | nil =>
    unfold dropRunes
    simpa using dropRunesF_all p cs hcs cs.length (Nat.le_refl _)
  | cons s tl => exact dropRunes_run p cs s tl hcs hR

theorem consumed_nil (bs : Bytes) : consumed bs [] = bs := by simp [consumed]

theorem dropRunes_word (cls : CharClass) (hA : AsciiOK cls) (cs R : Bytes) (hcs : cs.all isWordCharB = true)
    (hR : followWord cls R = true) : dropRunes (isIdentChar cls) (cs ++ R) = R := by
  have hcs' : ∀ x ∈ cs, isWordCharB x = true := fun x hx => List.all_eq_true.1 hcs x hx
  apply dropRunes_follow _ cs R (fun x hx => ⟨letter_lt x (hcs' x hx), wordChar_ident cls hA x (hcs' x hx)⟩)
  cases R with
  | nil => trivial
  | cons s tl => simpa [followWord] using hR

theorem readIdentifier_word (cls : CharClass) (tb : Tables) (hA : AsciiOK cls) (c : UInt8) (cs R : Bytes)
    (hc : isWordStartB c = true) (hcs : cs.all isWordCharB = true) (hR : followWord cls R = true)
    (hcomp : (!tb.compoundStarts.contains (upper cls (c :: cs)) || noCompound cls tb (c :: cs) R) = true) :
    readIdentifier cls tb ((c :: cs) ++ R) =
      ({ ty := (lookup tb.keywords (upper cls (c :: cs))).getD tb.ttIdentifier, value := c :: cs }, R) := by
  have hc128 := letter_lt c (wordStart_char c hc)
  have hdrop := dropRunes_word cls hA cs R hcs hR
  have hcons : consumed (c :: (cs ++ R)) R = c :: cs := by
    have := consumed_append (c :: cs) R
    simpa using this
  simp only [readIdentifier, List.cons_append, nextRune_ascii c _ hc128, hdrop, hcons]
  cases hct : tb.compoundStarts.contains (upper cls (c :: cs)) with
  | false => simp
  | true =>
    simp only [hct, Bool.not_true, Bool.false_or] at hcomp
    simp only [if_true]
    unfold noCompound at hcomp
    cases hr3 : R.dropWhile isWS with
    | nil => simp [nextRune]
    | cons s r4 =>
      rw [hr3] at hcomp
      simp only [Bool.and_eq_true, decide_eq_true_eq, Bool.or_eq_true, Bool.not_eq_true'] at hcomp
      obtain ⟨hs128, hcase⟩ := hcomp
      rw [nextRune_ascii s r4 hs128]
      cases his : isIdentStart cls s.toNat with
      | false => simp [his]
      | true =>
        rcases hcase with hcase | hcase
        · rw [his] at hcase; exact absurd hcase (by simp)
        · obtain ⟨⟨hws, hfol⟩, hnone⟩ := hcase
          have hsplit := List.takeWhile_append_dropWhile (p := isWordCharB) (l := r4)
          have hall : (r4.takeWhile isWordCharB).all isWordCharB = true := List.all_takeWhile
          have hd2 : dropRunes (isIdentChar cls) r4 = r4.dropWhile isWordCharB := by
            have := dropRunes_word cls hA (r4.takeWhile isWordCharB) (r4.dropWhile isWordCharB) hall hfol
            rwa [hsplit] at this
          have hc2 : consumed (s :: r4) (r4.dropWhile isWordCharB) = s :: r4.takeWhile isWordCharB := by
            have := consumed_append (s :: r4.takeWhile isWordCharB) (r4.dropWhile isWordCharB)
            simp only [List.cons_append, hsplit] at this
            exact this
          have hnone' : lookup tb.compoundTypes (upper cls (c :: (cs ++ [32] ++ s :: r4.takeWhile isWordCharB))) = none :=
            Option.isNone_iff_eq_none.1 hnone
          simp only [his, if_true, hd2, hc2, hnone']

theorem nextToken_word2 (cls : CharClass) (tb : Tables) (inp : Bytes) (hA : AsciiOK cls) (c : UInt8) (cs R : Bytes)
    (hc : isWordStartB c = true) (hcs : cs.all isWordCharB = true) (hR : followWord cls R = true)
    (hcomp : (!tb.compoundStarts.contains (upper cls (c :: cs)) || noCompound cls tb (c :: cs) R) = true) :
    nextToken cls tb inp ((c :: cs) ++ R) =
      .ok ({ ty := (lookup tb.keywords (upper cls (c :: cs))).getD tb.ttIdentifier, value := c :: cs }, R) := by
  have hc128 := letter_lt c (wordStart_char c hc)
  have := readIdentifier_word cls tb hA c cs R hc hcs hR hcomp
  simp only [List.cons_append] at this
  simp only [nextToken, List.cons_append, decodeRune_ascii c _ hc128, wordStart_identStart cls hA c hc, if_true, this]

/-- the two words of a two-word keyword, separated by blanks only, are read as one token whose value joins them with
    one space -/
theorem nextToken_compound2 (cls : CharClass) (tb : Tables) (inp : Bytes) (hA : AsciiOK cls) (c : UInt8) (cs ws : Bytes)
    (c2 : UInt8) (cs2 R : Bytes) (cty : Nat)
    (hc : isWordStartB c = true) (hcs : cs.all isWordCharB = true) (hc2 : isWordStartB c2 = true) (hcs2 : cs2.all isWordCharB = true)
    (hne : ws ≠ []) (hws : ws.all isWS = true) (hstart : tb.compoundStarts.contains (upper cls (c :: cs)) = true)
    (hty : lookup tb.compoundTypes (upper cls ((c :: cs) ++ [32] ++ (c2 :: cs2))) = some cty) (hR : followWord cls R = true) :
    nextToken cls tb inp ((c :: cs) ++ (ws ++ ((c2 :: cs2) ++ R))) =
      .ok ({ ty := cty, value := (c :: cs) ++ [32] ++ (c2 :: cs2) }, R) := by
  have hc128 := letter_lt c (wordStart_char c hc)
  have hc2128 := letter_lt c2 (wordStart_char c2 hc2)
  obtain ⟨w0, ws', rfl⟩ : ∃ w0 ws', ws = w0 :: ws' := by
    cases ws with
    | nil => exact absurd rfl hne
    | cons a b => exact ⟨a, b, rfl⟩
  have hw0 : isWS w0 = true := by simp only [List.all_cons, Bool.and_eq_true] at hws; exact hws.1
  have hfol1 : followWord cls ((w0 :: ws') ++ ((c2 :: cs2) ++ R)) = true := by
    simp [followWord, ws_lt w0 hw0, hA.blank w0 hw0]
  have hdrop := dropRunes_word cls hA cs ((w0 :: ws') ++ ((c2 :: cs2) ++ R)) hcs hfol1
  have hcons : consumed (c :: (cs ++ ((w0 :: ws') ++ ((c2 :: cs2) ++ R)))) ((w0 :: ws') ++ ((c2 :: cs2) ++ R)) = c :: cs := by
    have := consumed_append (c :: cs) ((w0 :: ws') ++ ((c2 :: cs2) ++ R))
    simpa using this
  have hr3 : ((w0 :: ws') ++ ((c2 :: cs2) ++ R)).dropWhile isWS = c2 :: (cs2 ++ R) := by
    have := dropWhile_ws (w0 :: ws') (fun x hx => List.all_eq_true.1 hws x hx) c2 (cs2 ++ R) (wordStart_notWS c2 hc2).1
    simpa using this
  have hdrop2 := dropRunes_word cls hA cs2 R hcs2 hR
  have hcons2 : consumed (c2 :: (cs2 ++ R)) R = c2 :: cs2 := by
    have := consumed_append (c2 :: cs2) R
    simpa using this
  have hty' : lookup tb.compoundTypes (upper cls (c :: (cs ++ 32 :: c2 :: cs2))) = some cty := by simpa using hty
  simp only [nextToken, List.cons_append, decodeRune_ascii c _ hc128, wordStart_identStart cls hA c hc, if_true]
  simp only [List.cons_append] at hdrop hcons hr3
  simp only [readIdentifier, nextRune_ascii c _ hc128, hdrop, hcons, hstart, if_true, hr3, nextRune_ascii c2 _ hc2128,
    wordStart_identStart cls hA c2 hc2, hdrop2, hcons2]
  simp [hty']

/-! ### integers -/
theorem nextToken_int2 (cls : CharClass) (tb : Tables) (inp : Bytes) (hA : AsciiOK cls) (d : UInt8) (ds R : Bytes)
    (hd : isDigitB d = true) (hds : ds.all isDigitB = true) (hR : followInt R = true) :
    nextToken cls tb inp ((d :: ds) ++ R) = .ok ({ ty := tb.ttNumber, value := d :: ds }, R) := by
  have hd128 := digit_lt d hd
  have hds' : ∀ x ∈ ds, isDigitB x = true := fun x hx => List.all_eq_true.1 hds x hx
  have hdig : ∀ x : UInt8, isDigitB x = true → isDigitR x.toNat = true := by
    intro x hx; simpa [isDigitB, isDigitR] using hx
  have hdigf : ∀ x : UInt8, isDigitB x = false → isDigitR x.toNat = false := by
    intro x hx; simpa [isDigitB, isDigitR] using hx
  have hdrop : dropRunes isDigitR ((d :: ds) ++ R) = R := by
    apply dropRunes_follow _ (d :: ds) R
    · intro x hx
      rcases List.mem_cons.1 hx with h | h
      · subst h; exact ⟨hd128, hdig _ hd⟩
      · exact ⟨digit_lt x (hds' x h), hdig x (hds' x h)⟩
    · cases R with
      | nil => trivial
      | cons s tl =>
        simp only [followInt, Bool.and_eq_true, decide_eq_true_eq, Bool.not_eq_true'] at hR
        exact ⟨hR.1.1.1.1, hdigf s hR.1.1.1.2⟩
  have hnotstart : isIdentStart cls d.toNat = false := by
    have h95 : (d.toNat == 95) = false := by
      simp only [isDigitB, Bool.and_eq_true, decide_eq_true_eq] at hd
      simp; omega
    simp [isIdentStart, isLetterR, hA.digitNotLetter d hd, h95]
  have hcons : consumed ((d :: ds) ++ R) R = d :: ds := consumed_append (d :: ds) R
  simp only [nextToken, List.cons_append, decodeRune_ascii d _ hd128, hnotstart, Bool.false_eq_true, if_false, hdig d hd, if_true]
  have hdrop' : dropRunes isDigitR (d :: (ds ++ R)) = R := by simpa using hdrop
  have hcons' : consumed (d :: (ds ++ R)) R = d :: ds := by simpa using hcons
  cases R with
  | nil =>
    simp only [List.append_nil] at hdrop' hcons'
    simp [readNumber, hdrop', hcons']
  | cons s tl =>
    simp only [followInt, Bool.and_eq_true, decide_eq_true_eq, Bool.not_eq_true', bne_iff_ne, ne_eq] at hR
    obtain ⟨⟨⟨⟨_, _⟩, hs46⟩, hs101⟩, hs69⟩ := hR
    have hfrac : numFrac inp (s :: tl) = .ok (s :: tl) := by
      unfold numFrac
      split
      · rename_i r2 heq
        injection heq with h1 _
        exact absurd h1 hs46
      · rfl
    have hse : (s == 101 || s == 69) = false := by simp [hs101, hs69]
    have hexp : numExp inp (s :: tl) = .ok (s :: tl) := by simp [numExp, hse]
    simp [readNumber, hdrop', hfrac, hexp, hcons']

/-! ### numbers with a fraction and / or an exponent -/
def ndigB : Bytes → Bool
  | [] => true
  | s :: _ => decide (s.toNat < 128) && !isDigitB s

theorem dropDigits (ds R : Bytes) (hds : ds.all isDigitB = true) (hR : ndigB R = true) : dropRunes isDigitR (ds ++ R) = R := by
  apply dropRunes_follow _ ds R
  · intro x hx
    have := List.all_eq_true.1 hds x hx
    exact ⟨digit_lt x this, by simpa [isDigitB, isDigitR] using this⟩
  · cases R with
    | nil => trivial
    | cons s tl =>
      simp only [ndigB, Bool.and_eq_true, decide_eq_true_eq, Bool.not_eq_true'] at hR
      exact ⟨hR.1, by simpa [isDigitB, isDigitR] using hR.2⟩

theorem numFrac_none (inp X : Bytes) (h : X.head? ≠ some 46) : numFrac inp X = .ok X := by
  unfold numFrac
  split
  · rename_i r2; simp at h
  · rfl

theorem numFrac_some (inp : Bytes) (d : UInt8) (ds X : Bytes) (hd : isDigitB d = true) (hds : ds.all isDigitB = true)
    (hX : ndigB X = true) : numFrac inp (46 :: ((d :: ds) ++ X)) = .ok X := by
  have hdR : isDigitR d.toNat = true := by simpa [isDigitB, isDigitR] using hd
  have := dropDigits (d :: ds) X (by simp [hd, hds]) hX
  simp only [List.cons_append] at this
  simp [numFrac, hdR, this]

theorem numExp_none (inp R : Bytes) (hR : followFrac R = true) : numExp inp R = .ok R := by
  cases R with
  | nil => simp [numExp]
  | cons s tl =>
    simp only [followFrac, Bool.and_eq_true, decide_eq_true_eq, Bool.not_eq_true', bne_iff_ne, ne_eq] at hR
    have hse : (s == 101 || s == 69) = false := by simp [hR.1.2, hR.2]
    simp [numExp, hse]

theorem isDigits_cons (ds : Bytes) (h : isDigits ds = true) : ∃ d ds', ds = d :: ds' ∧ isDigitB d = true ∧ ds'.all isDigitB = true := by
  cases ds with
  | nil => simp [isDigits] at h
  | cons d ds' =>
    simp only [isDigits, Bool.and_eq_true] at h
    exact ⟨d, ds', rfl, h.1, h.2⟩

theorem numExp_shaped (inp ex R : Bytes) (hex : isExpShaped ex = true) (hR : ndigB R = true) : numExp inp (ex ++ R) = .ok R := by
  cases ex with
  | nil => simp [isExpShaped] at hex
  | cons e t =>
    cases t with
    | nil => simp [isExpShaped] at hex
    | cons s ds =>
      simp only [isExpShaped, Bool.and_eq_true] at hex
      obtain ⟨he, hrest⟩ := hex
      by_cases hsign : (s == 43 || s == 45) = true
      · simp only [hsign, if_true] at hrest
        obtain ⟨d, ds', rfl, hd, hds'⟩ := isDigits_cons ds hrest
        have hdR : isDigitR d.toNat = true := by simpa [isDigitB, isDigitR] using hd
        have hdrop := dropDigits (d :: ds') R (by simp [hd, hds']) hR
        simp only [List.cons_append] at hdrop
        simp only [List.cons_append, numExp, he, if_true, skipSign, hsign, hdR, hdrop]
      · simp only [hsign, Bool.false_eq_true, if_false] at hrest
        simp only [isDigits, Bool.and_eq_true] at hrest
        have hdR : isDigitR s.toNat = true := by simpa [isDigitB, isDigitR] using hrest.1
        have hdrop := dropDigits (s :: ds) R (by simp [hrest.1, hrest.2]) hR
        simp only [List.cons_append] at hdrop
        simp only [List.cons_append, numExp, he, if_true, skipSign, hsign, Bool.false_eq_true, if_false, hdR, hdrop]

theorem ndigB_exp (ex R : Bytes) (hex : isExpShaped ex = true) : ndigB (ex ++ R) = true := by
  cases ex with
  | nil => simp [isExpShaped] at hex
  | cons e t =>
    cases t with
    | nil => simp [isExpShaped] at hex
    | cons s ds =>
      simp only [isExpShaped, Bool.and_eq_true, Bool.or_eq_true, beq_iff_eq] at hex
      rcases hex.1 with h | h <;> (subst h; simp [ndigB]; decide)

theorem head_exp (ex R : Bytes) (hex : isExpShaped ex = true) : (ex ++ R).head? ≠ some 46 := by
  cases ex with
  | nil => simp [isExpShaped] at hex
  | cons e t =>
    cases t with
    | nil => simp [isExpShaped] at hex
    | cons s ds =>
      simp only [isExpShaped, Bool.and_eq_true, Bool.or_eq_true, beq_iff_eq] at hex
      rcases hex.1 with h | h <;> (subst h; simp)

theorem followFrac_ndig (R : Bytes) (h : followFrac R = true) : ndigB R = true := by
  cases R with
  | nil => rfl
  | cons s tl =>
    simp only [followFrac, Bool.and_eq_true, decide_eq_true_eq, Bool.not_eq_true', bne_iff_ne, ne_eq] at h
    simp [ndigB, h.1.1.1, h.1.1.2]

theorem followExp_ndig (R : Bytes) (h : followExp R = true) : ndigB R = true := by
  cases R with
  | nil => rfl
  | cons s tl => simpa [followExp, ndigB] using h

/-- the tail of a number after its integer digits: fraction then exponent, each read whole -/
theorem numTail (inp fp ex R : Bytes) (hfp : (fp.isEmpty || isDigits fp) = true) (hex : (ex.isEmpty || isExpShaped ex) = true)
    (hne : (fp.isEmpty && ex.isEmpty) = false) (hR : (if ex.isEmpty then followFrac R else followExp R) = true) :
    ndigB (fracBytes fp ++ (ex ++ R)) = true ∧ (fracBytes fp ++ (ex ++ R)) ≠ [] ∧
    ∃ r3, numFrac inp (fracBytes fp ++ (ex ++ R)) = .ok r3 ∧ numExp inp r3 = .ok R := by
  cases hfe : fp.isEmpty with
  | true =>
    have hfp0 : fp = [] := List.isEmpty_iff.1 hfe
    subst hfp0
    have hexne : ex.isEmpty = false := by simpa [hfe] using hne
    have hexs : isExpShaped ex = true := by simpa [hexne] using hex
    simp only [hexne, Bool.false_eq_true, if_false] at hR
    refine ⟨by simpa [fracBytes] using ndigB_exp ex R hexs, ?_, ex ++ R, ?_, numExp_shaped inp ex R hexs (followExp_ndig R hR)⟩
    · cases ex with
      | nil => simp at hexne
      | cons a b => simp [fracBytes]
    · simpa [fracBytes] using numFrac_none inp (ex ++ R) (head_exp ex R hexs)
  | false =>
    have hfps : isDigits fp = true := by simpa [hfe] using hfp
    obtain ⟨d, ds, rfl, hd, hds⟩ := isDigits_cons fp hfps
    have hfb : fracBytes (d :: ds) = 46 :: d :: ds := by simp [fracBytes]
    cases hee : ex.isEmpty with
    | true =>
      have hex0 : ex = [] := List.isEmpty_iff.1 hee
      subst hex0
      simp only [List.isEmpty_nil, if_true] at hR
      refine ⟨by simp [hfb, ndigB]; decide, by simp [hfb], R, ?_, numExp_none inp R hR⟩
      have := numFrac_some inp d ds R hd hds (followFrac_ndig R hR)
      simpa [hfb] using this
    | false =>
      have hexs : isExpShaped ex = true := by simpa [hee] using hex
      simp only [hee, Bool.false_eq_true, if_false] at hR
      refine ⟨by simp [hfb, ndigB]; decide, by simp [hfb], ex ++ R, ?_, numExp_shaped inp ex R hexs (followExp_ndig R hR)⟩
      have := numFrac_some inp d ds (ex ++ R) hd hds (ndigB_exp ex R hexs)
      simpa [hfb] using this

theorem nextToken_num2 (cls : CharClass) (tb : Tables) (inp : Bytes) (hA : AsciiOK cls) (ip fp ex R : Bytes)
    (hip : isDigits ip = true) (hfp : (fp.isEmpty || isDigits fp) = true) (hex : (ex.isEmpty || isExpShaped ex) = true)
    (hne : (fp.isEmpty && ex.isEmpty) = false) (hR : (if ex.isEmpty then followFrac R else followExp R) = true) :
    nextToken cls tb inp (ip ++ (fracBytes fp ++ ex) ++ R) = .ok ({ ty := tb.ttNumber, value := ip ++ (fracBytes fp ++ ex) }, R) := by
  obtain ⟨d, ds, rfl, hd, hds⟩ := isDigits_cons ip hip
  obtain ⟨hnd, hX1, r3, hfrac, hexp⟩ := numTail inp fp ex R hfp hex hne hR
  have hd128 := digit_lt d hd
  have hdR : isDigitR d.toNat = true := by simpa [isDigitB, isDigitR] using hd
  have hnotstart : isIdentStart cls d.toNat = false := by
    have h95 : (d.toNat == 95) = false := by
      simp only [isDigitB, Bool.and_eq_true, decide_eq_true_eq] at hd
      simp; omega
    simp [isIdentStart, isLetterR, hA.digitNotLetter d hd, h95]
  have hassoc : (d :: ds) ++ (fracBytes fp ++ ex) ++ R = d :: (ds ++ (fracBytes fp ++ (ex ++ R))) := by simp
  have hdrop : dropRunes isDigitR (d :: (ds ++ (fracBytes fp ++ (ex ++ R)))) = fracBytes fp ++ (ex ++ R) := by
    have := dropDigits (d :: ds) (fracBytes fp ++ (ex ++ R)) (by simp [hd, hds]) hnd
    simpa using this
  have hcons : consumed (d :: (ds ++ (fracBytes fp ++ (ex ++ R)))) R = d :: ds ++ (fracBytes fp ++ ex) := by
    have := consumed_append ((d :: ds) ++ (fracBytes fp ++ ex)) R
    simpa using this
  have hnotempty : (fracBytes fp ++ (ex ++ R)).isEmpty = false := by
    cases h : fracBytes fp ++ (ex ++ R) with
    | nil => exact absurd h hX1
    | cons a b => rfl
  rw [hassoc]
  simp only [nextToken, decodeRune_ascii d _ hd128, hnotstart, Bool.false_eq_true, if_false, hdR, if_true]
  simp only [readNumber, hdrop, hnotempty, Bool.false_eq_true, if_false, hfrac, hexp, hcons]

/-! ### operators -/
theorem uniqueOp_entry (tb : Tables) (o : Bytes) (h : uniqueOp tb o = true) :
    ∃ e, tb.operators.filter (·.1 == o) = [e] := by
  unfold uniqueOp at h
  split at h
  · rename_i e heq; exact ⟨e, heq⟩
  · exact absurd h (by simp)

theorem lookup_unique (tb : Tables) (o : Bytes) (e : Bytes × Nat) (h : tb.operators.filter (·.1 == o) = [e]) :
    lookup tb.operators o = some e.2 := by
  unfold lookup
  rw [← List.head?_filter, h]; rfl

theorem longestOp_follow (tb : Tables) (o R : Bytes) (e : Bytes × Nat) (hu : tb.operators.filter (·.1 == o) = [e])
    (hne : o ≠ []) (hf : followOp tb o R = true) : longestOp tb.operators (o ++ R) = some e := by
  have hemem : e ∈ tb.operators.filter (·.1 == o) := by rw [hu]; simp
  obtain ⟨he1, he2⟩ := List.mem_filter.1 hemem
  have he2 : e.1 = o := by simpa using he2
  have hpre : e.1.isPrefixOf (o ++ R) = true := by
    rw [he2, List.isPrefixOf_iff_prefix]; exact List.prefix_append o R
  have sp := longestOp_spec tb.operators (o ++ R)
  cases hl : longestOp tb.operators (o ++ R) with
  | none =>
    rw [hl] at sp
    have := sp e he1 hpre
    rw [he2] at this
    exact absurd this hne
  | some x =>
    rw [hl] at sp
    obtain ⟨hm, hp, hxne, hmax⟩ := sp
    have hlen : o.length ≤ x.1.length := by
      have := hmax e he1 hpre (by rw [he2]; exact hne)
      rwa [he2] at this
    have hp' : x.1 <+: o ++ R := List.isPrefixOf_iff_prefix.1 hp
    have hox : o <+: x.1 := List.prefix_of_prefix_length_le (List.prefix_append o R) hp' hlen
    obtain ⟨t, ht⟩ := hox
    have hx1 : x.1 = o := by
      cases t with
      | nil => simpa using ht.symm
      | cons s' t' =>
        exfalso
        rw [← ht] at hp'
        have htR : s' :: t' <+: R := (List.prefix_append_right_inj o).1 hp'
        obtain ⟨u, hu'⟩ := htR
        cases R with
        | nil => simp at hu'
        | cons s tl =>
          have hs : s' = s := by
            simp only [List.cons_append] at hu'
            injection hu' with h1 _
          subst hs
          simp only [followOp] at hf
          have := List.all_eq_true.1 hf x hm
          have hpp : (o ++ [s']).isPrefixOf x.1 = true := by
            rw [List.isPrefixOf_iff_prefix, ← ht]
            exact ⟨t', by simp⟩
          simp [hpp] at this
    have hxmem : x ∈ tb.operators.filter (·.1 == o) := List.mem_filter.2 ⟨hm, by simpa using hx1⟩
    rw [hu] at hxmem
    simp only [List.mem_singleton] at hxmem
    rw [hxmem]

theorem nextToken_op2 (cls : CharClass) (tb : Tables) (inp : Bytes) (b : UInt8) (o' R : Bytes) (e : Bytes × Nat)
    (hb : opHeadOK cls b = true) (hu : tb.operators.filter (·.1 == (b :: o')) = [e]) (hf : followOp tb (b :: o') R = true) :
    nextToken cls tb inp ((b :: o') ++ R) = .ok ({ ty := e.2, value := b :: o' }, R) := by
  simp only [opHeadOK, Bool.and_eq_true, decide_eq_true_eq, Bool.not_eq_true', bne_iff_ne, ne_eq] at hb
  obtain ⟨⟨⟨⟨⟨⟨⟨h128, hstart⟩, hdig⟩, h34⟩, h96⟩, h39⟩, h36⟩, h64⟩ := hb
  have hdigR : isDigitR b.toNat = false := by simpa [isDigitB, isDigitR] using hdig
  have hne : ∀ k : Nat, k < 256 → b ≠ UInt8.ofNat k → (b.toNat == k) = false := by
    intro k hk hbk
    simp only [beq_eq_false_iff_ne, ne_eq]
    intro h
    apply hbk
    apply UInt8.toNat_inj.1
    simp [h, Nat.mod_eq_of_lt hk]
  have hbig : ∀ k : Nat, 128 ≤ k → (b.toNat == k) = false := by
    intro k hk; simp only [beq_eq_false_iff_ne, ne_eq]; omega
  have hq1 : (b.toNat == 34 || b.toNat == 0x201C || b.toNat == 0x201D) = false := by
    simp [hne 34 (by omega) h34, hbig 0x201C (by omega), hbig 0x201D (by omega)]
  have hq2 : (b.toNat == 96) = false := hne 96 (by omega) h96
  have hq3 : isStringQuoteStart b.toNat = false := by
    simp [isStringQuoteStart, hne 39 (by omega) h39, hbig 0x2018 (by omega), hbig 0x2019 (by omega), hbig 0xAB (by omega),
      hbig 0xBB (by omega)]
  have h36' : (b == 36) = false := by simpa using h36
  have h64' : (b == 64) = false := by simpa using h64
  have hl := longestOp_follow tb (b :: o') R e hu (by simp) hf
  have he1 : e.1 = b :: o' := by
    have hemem : e ∈ tb.operators.filter (·.1 == (b :: o')) := by rw [hu]; simp
    simpa using (List.mem_filter.1 hemem).2
  simp only [List.cons_append] at hl ⊢
  simp only [nextToken, decodeRune_ascii b _ h128, hstart, Bool.false_eq_true, if_false, hdigR, hq1, hq2, hq3]
  simp only [readPunctuation, h36', h64', Bool.false_eq_true, if_false, hl]
  have : e = (e.1, e.2) := rfl
  rw [this]
  simp only [he1]
  simp

/-! ### string literals -/
theorem normalizeQuote_ascii (n : Nat) (h : n < 128) : normalizeQuote n = n := by
  have h1 : (n == 0x2018) = false := by simp only [beq_eq_false_iff_ne, ne_eq]; omega
  have h2 : (n == 0x2019) = false := by simp only [beq_eq_false_iff_ne, ne_eq]; omega
  have h3 : (n == 0xAB) = false := by simp only [beq_eq_false_iff_ne, ne_eq]; omega
  have h4 : (n == 0xBB) = false := by simp only [beq_eq_false_iff_ne, ne_eq]; omega
  have h5 : (n == 0x201C) = false := by simp only [beq_eq_false_iff_ne, ne_eq]; omega
  have h6 : (n == 0x201D) = false := by simp only [beq_eq_false_iff_ne, ne_eq]; omega
  simp [normalizeQuote, h1, h2, h3, h4, h5, h6]

theorem encodeRune_ascii (b : UInt8) (h : b.toNat < 128) : encodeRune b.toNat = [b] := by
  have h1 : ¬ (b.toNat > 0x10FFFF) := by omega
  have h2 : ¬ (0xD800 ≤ b.toNat) := by omega
  simp [encodeRune, h1, h2, h]

theorem toNat_ne (b : UInt8) (k : Nat) (hk : k < 256) (h : b ≠ UInt8.ofNat k) : (b.toNat == k) = false := by
  simp only [beq_eq_false_iff_ne, ne_eq]
  intro hh
  apply h
  apply UInt8.toNat_inj.1
  simp [hh, Nat.mod_eq_of_lt hk]

theorem followQuote_next (q : UInt8) (_hq : q.toNat < 128) (R : Bytes) (h : followQuote q R = true) :
    match nextRune R with
    | none => True
    | some (n0, _) => (normalizeQuote n0 == q.toNat) = false := by
  cases R with
  | nil => simp [nextRune]
  | cons s tl =>
    simp only [followQuote, Bool.and_eq_true, decide_eq_true_eq, bne_iff_ne, ne_eq] at h
    rw [nextRune_ascii s tl h.1]
    simp only [normalizeQuote_ascii s.toNat h.1, beq_eq_false_iff_ne, ne_eq]
    intro hh
    exact h.2 (UInt8.toNat_inj.1 hh)

theorem stringBody_spell (inp : Bytes) : ∀ (ps : List SP) (acc : Bytes) (fuel : Nat) (R : Bytes),
    ps.all SP.ok = true → followQuote 39 R = true → ps.length < fuel →
    stringBodyF inp 39 fuel (spSrc ps ++ 39 :: R) acc = .ok (some (acc ++ spVal ps, R)) := by
  intro ps
  induction ps with
  | nil =>
    intro acc fuel R _ hR hf
    cases fuel with
    | zero => simp at hf
    | succ f =>
      have hn := followQuote_next 39 (by decide) R hR
      have h39 : nextRune (39 :: R) = some (39, R) := nextRune_ascii 39 R (by decide)
      have hq : normalizeQuote 39 = 39 := by decide
      simp only [spSrc, List.nil_append, stringBodyF, h39, hq, beq_self_eq_true, if_true, spVal, List.append_nil]
      cases hnr : nextRune R with
      | none => rfl
      | some pr =>
        obtain ⟨n0, r2⟩ := pr
        rw [hnr] at hn
        have hn' : (normalizeQuote n0 == 39) = false := by simpa using hn
        simp [hn']
  | cons p ps ih =>
    intro acc fuel R hok hR hf
    simp only [List.all_cons, Bool.and_eq_true] at hok
    cases fuel with
    | zero => simp at hf
    | succ f =>
      have hf' : ps.length < f := by simp only [List.length_cons] at hf; omega
      cases p with
      | ch b =>
        simp only [SP.ok, Bool.and_eq_true, decide_eq_true_eq, bne_iff_ne, ne_eq] at hok
        obtain ⟨⟨⟨h128, h39⟩, h92⟩, hrest⟩ := hok
        have e1 : (b.toNat == 39) = false := toNat_ne b 39 (by omega) h39
        have e2 : (b.toNat == 92) = false := toNat_ne b 92 (by omega) h92
        simp only [spSrc, SP.src, List.cons_append, List.nil_append, stringBodyF, nextRune_ascii b _ h128,
          normalizeQuote_ascii b.toNat h128, e1, e2, Bool.false_eq_true, if_false, encodeRune_ascii b h128]
        rw [ih (acc ++ [b]) f R hrest hR hf']
        simp [spVal, SP.val]
      | dq =>
        have h39 : ∀ X : Bytes, nextRune (39 :: X) = some (39, X) := fun X => nextRune_ascii 39 X (by decide)
        have hq : normalizeQuote 39 = 39 := by decide
        have henc : encodeRune 39 = [39] := by decide
        simp only [spSrc, SP.src, List.cons_append, List.nil_append, stringBodyF, h39, hq, beq_self_eq_true, if_true, henc]
        rw [ih (acc ++ [39]) f R hok.2 hR hf']
        simp [spVal, SP.val]
      | esc e =>
        have h92 : ∀ X : Bytes, nextRune (92 :: X) = some (92, X) := fun X => nextRune_ascii 92 X (by decide)
        have hq : normalizeQuote 92 = 92 := by decide
        have hne : ((92 : Nat) == 39) = false := by decide
        have he := hok.1
        simp only [SP.ok, Bool.or_eq_true, beq_iff_eq] at he
        simp only [spSrc, SP.src, List.cons_append, List.nil_append, stringBodyF, h92, hq, hne, Bool.false_eq_true, if_false,
          beq_self_eq_true, if_true, List.tail_cons]
        rcases he with (((((he | he) | he) | he) | he) | he) | he <;> subst he
        · rw [nextRune_ascii 92 _ (by decide)]
          simp only [show ((92 : UInt8).toNat == 92) = true by decide, Bool.true_or, if_true]
          rw [show encodeRune (92 : UInt8).toNat = [92] by decide, ih (acc ++ [92]) f R hok.2 hR hf']
          simp [spVal, SP.val]
        · rw [nextRune_ascii 34 _ (by decide)]
          simp only [show ((34 : UInt8).toNat == 92 || (34 : UInt8).toNat == 34) = true by decide, Bool.true_or, if_true]
          rw [show encodeRune (34 : UInt8).toNat = [34] by decide, ih (acc ++ [34]) f R hok.2 hR hf']
          simp [spVal, SP.val]
        · rw [nextRune_ascii 39 _ (by decide)]
          simp only [show ((39 : UInt8).toNat == 92 || (39 : UInt8).toNat == 34 || (39 : UInt8).toNat == 39) = true by decide,
            Bool.true_or, if_true]
          rw [show encodeRune (39 : UInt8).toNat = [39] by decide, ih (acc ++ [39]) f R hok.2 hR hf']
          simp [spVal, SP.val]
        · rw [nextRune_ascii 96 _ (by decide)]
          simp only [show ((96 : UInt8).toNat == 92 || (96 : UInt8).toNat == 34 || (96 : UInt8).toNat == 39 || (96 : UInt8).toNat == 96) = true by decide,
            if_true]
          rw [show encodeRune (96 : UInt8).toNat = [96] by decide, ih (acc ++ [96]) f R hok.2 hR hf']
          simp [spVal, SP.val]
        · rw [nextRune_ascii 110 _ (by decide)]
          simp only [show ((110 : UInt8).toNat == 92 || (110 : UInt8).toNat == 34 || (110 : UInt8).toNat == 39 || (110 : UInt8).toNat == 96) = false by decide,
            Bool.false_eq_true, if_false, show ((110 : UInt8).toNat == 110) = true by decide, if_true]
          rw [ih (acc ++ [10]) f R hok.2 hR hf']
          simp [spVal, SP.val]
        · rw [nextRune_ascii 114 _ (by decide)]
          simp only [show ((114 : UInt8).toNat == 92 || (114 : UInt8).toNat == 34 || (114 : UInt8).toNat == 39 || (114 : UInt8).toNat == 96) = false by decide,
            Bool.false_eq_true, if_false, show ((114 : UInt8).toNat == 110) = false by decide,
            show ((114 : UInt8).toNat == 114) = true by decide, if_true]
          rw [ih (acc ++ [13]) f R hok.2 hR hf']
          simp [spVal, SP.val]
        · rw [nextRune_ascii 116 _ (by decide)]
          simp only [show ((116 : UInt8).toNat == 92 || (116 : UInt8).toNat == 34 || (116 : UInt8).toNat == 39 || (116 : UInt8).toNat == 96) = false by decide,
            Bool.false_eq_true, if_false, show ((116 : UInt8).toNat == 110) = false by decide,
            show ((116 : UInt8).toNat == 114) = false by decide, show ((116 : UInt8).toNat == 116) = true by decide, if_true]
          rw [ih (acc ++ [9]) f R hok.2 hR hf']
          simp [spVal, SP.val]

theorem spSrc_length (ps : List SP) : ps.length ≤ (spSrc ps).length := by
  induction ps with
  | nil => simp [spSrc]
  | cons p ps ih => cases p <;> simp only [spSrc, SP.src, List.length_append, List.length_cons, List.length_nil] <;> omega

theorem decodeRune_follow39 (R : Bytes) (h : followQuote 39 R = true) : ((decodeRune R).1 == 39) = false := by
  cases R with
  | nil => decide
  | cons s tl =>
    simp only [followQuote, Bool.and_eq_true, decide_eq_true_eq, bne_iff_ne, ne_eq] at h
    rw [decodeRune_ascii s tl h.1]
    exact toNat_ne s 39 (by omega) h.2

theorem nextToken_str2 (cls : CharClass) (tb : Tables) (inp : Bytes) (ps : List SP) (R : Bytes)
    (h39 : isIdentStart cls 39 = false) (hok : ps.all SP.ok = true)
    (hnt : noTripleStart ps = true) (hR : followQuote 39 R = true) :
    nextToken cls tb inp (39 :: (spSrc ps ++ 39 :: R)) = .ok ({ ty := tb.ttSingle, value := spVal ps, quote := 39 }, R) := by
  have hd : decodeRune (39 :: (spSrc ps ++ 39 :: R)) = (39, 1) := decodeRune_ascii 39 _ (by decide)
  have hnr : nextRune (39 :: (spSrc ps ++ 39 :: R)) = some (39, spSrc ps ++ 39 :: R) := nextRune_ascii 39 _ (by decide)
  have htriple : isTriple 39 (39 :: (spSrc ps ++ 39 :: R)) = false := by
    cases ps with
    | nil =>
      have := decodeRune_follow39 R hR
      simp [isTriple, spSrc, this]
    | cons p ps' =>
      cases p with
      | ch b =>
        simp only [List.all_cons, SP.ok, Bool.and_eq_true, decide_eq_true_eq, bne_iff_ne, ne_eq] at hok
        have e1 : (b.toNat == 39) = false := toNat_ne b 39 (by omega) hok.1.1.2
        simp [isTriple, spSrc, SP.src, decodeRune_ascii b _ hok.1.1.1, e1]
      | dq => simp [noTripleStart] at hnt
      | esc e =>
        have : decodeRune (92 :: (e :: (spSrc ps' ++ 39 :: R))) = (92, 1) := decodeRune_ascii 92 _ (by decide)
        simp [isTriple, spSrc, SP.src, this]
  have hbody := stringBody_spell inp ps [] (spSrc ps ++ 39 :: R).length R hok hR (by
    have := spSrc_length ps
    simp only [List.length_append, List.length_cons]; omega)
  have hq : normalizeQuote 39 = 39 := by decide
  have hs : isStringQuoteStart 39 = true := by decide
  simp only [nextToken, hd, h39, Bool.false_eq_true, if_false,
    show isDigitR 39 = false by decide, show ((39 : Nat) == 34 || (39 : Nat) == 0x201C || (39 : Nat) == 0x201D) = false by decide,
    show ((39 : Nat) == 96) = false by decide, hs, if_true]
  simp only [readQuotedString, hnr, htriple, Bool.false_eq_true, if_false, hq, hbody, hs, if_true, List.nil_append]

/-! ### double-quoted identifiers -/
theorem qpSrc_length (qs : List QP) : qs.length ≤ (qpSrc qs).length := by
  induction qs with
  | nil => simp [qpSrc]
  | cons p ps ih => cases p <;> simp only [qpSrc, QP.src, List.length_append, List.length_cons, List.length_nil] <;> omega

theorem quotedIdent_spell : ∀ (qs : List QP) (acc : Bytes) (fuel : Nat) (R : Bytes),
    qs.all QP.ok = true → followQuote 34 R = true → qs.length < fuel →
    quotedIdentF 34 fuel (qpSrc qs ++ 34 :: R) acc = .inl (some (acc ++ qpVal qs, R)) := by
  intro qs
  induction qs with
  | nil =>
    intro acc fuel R _ hR hf
    cases fuel with
    | zero => simp at hf
    | succ f =>
      have hn := followQuote_next 34 (by decide) R hR
      have h34 : nextRune (34 :: R) = some (34, R) := nextRune_ascii 34 R (by decide)
      have hq : normalizeQuote 34 = 34 := by decide
      simp only [qpSrc, List.nil_append, quotedIdentF, h34, hq, beq_self_eq_true, if_true, qpVal, List.append_nil]
      cases hnr : nextRune R with
      | none => rfl
      | some pr =>
        obtain ⟨n0, r2⟩ := pr
        rw [hnr] at hn
        have hn' : (normalizeQuote n0 == 34) = false := by simpa using hn
        simp [hn']
  | cons p ps ih =>
    intro acc fuel R hok hR hf
    simp only [List.all_cons, Bool.and_eq_true] at hok
    cases fuel with
    | zero => simp at hf
    | succ f =>
      have hf' : ps.length < f := by simp only [List.length_cons] at hf; omega
      cases p with
      | ch b =>
        simp only [QP.ok, Bool.and_eq_true, decide_eq_true_eq, bne_iff_ne, ne_eq] at hok
        obtain ⟨⟨⟨h128, h34⟩, h10⟩, hrest⟩ := hok
        have e1 : (b.toNat == 34) = false := toNat_ne b 34 (by omega) h34
        have e2 : (b.toNat == 10) = false := toNat_ne b 10 (by omega) h10
        simp only [qpSrc, QP.src, List.cons_append, List.nil_append, quotedIdentF, nextRune_ascii b _ h128,
          normalizeQuote_ascii b.toNat h128, e1, e2, Bool.false_eq_true, if_false, encodeRune_ascii b h128]
        rw [ih (acc ++ [b]) f R hrest hR hf']
        simp [qpVal, QP.val]
      | dq =>
        have h34 : ∀ X : Bytes, nextRune (34 :: X) = some (34, X) := fun X => nextRune_ascii 34 X (by decide)
        have hq : normalizeQuote 34 = 34 := by decide
        have henc : encodeRune 34 = [34] := by decide
        simp only [qpSrc, QP.src, List.cons_append, List.nil_append, quotedIdentF, h34, hq, beq_self_eq_true, if_true, henc]
        rw [ih (acc ++ [34]) f R hok.2 hR hf']
        simp [qpVal, QP.val]

theorem nextToken_qid2 (cls : CharClass) (tb : Tables) (inp : Bytes) (qs : List QP) (R : Bytes)
    (h34 : isIdentStart cls 34 = false) (hok : qs.all QP.ok = true) (hR : followQuote 34 R = true) :
    nextToken cls tb inp (34 :: (qpSrc qs ++ 34 :: R)) = .ok ({ ty := tb.ttDouble, value := qpVal qs, quote := 34 }, R) := by
  have hd : decodeRune (34 :: (qpSrc qs ++ 34 :: R)) = (34, 1) := decodeRune_ascii 34 _ (by decide)
  have hnr : nextRune (34 :: (qpSrc qs ++ 34 :: R)) = some (34, qpSrc qs ++ 34 :: R) := nextRune_ascii 34 _ (by decide)
  have hbody := quotedIdent_spell qs [] (qpSrc qs ++ 34 :: R).length R hok hR (by
    have := qpSrc_length qs
    simp only [List.length_append, List.length_cons]; omega)
  have hq : normalizeQuote 34 = 34 := by decide
  simp only [nextToken, hd, h34, Bool.false_eq_true, if_false, show isDigitR 34 = false by decide,
    show ((34 : Nat) == 34 || (34 : Nat) == 0x201C || (34 : Nat) == 0x201D) = true by decide, if_true]
  simp only [readQuotedIdentifier, hnr, hq, hbody, List.nil_append]

/-! ### backtick identifiers -/
theorem backtick_spell : ∀ (bs : List BP) (acc R : Bytes), bs.all BP.ok = true → (R.head? != some 96) = true →
    backtickF (bpSrc bs ++ 96 :: R) acc = some (acc ++ bpVal bs, R) := by
  intro bs
  induction bs with
  | nil =>
    intro acc R _ hR
    cases R with
    | nil => simp [bpSrc, bpVal, backtickF]
    | cons s tl =>
      have : (s == 96) = false := by
        simp only [List.head?_cons, bne_iff_ne, ne_eq, Option.some.injEq] at hR
        simpa using hR
      simp [bpSrc, bpVal, backtickF, this]
  | cons p ps ih =>
    intro acc R hok hR
    simp only [List.all_cons, Bool.and_eq_true] at hok
    cases p with
    | ch b =>
      have hb : (b == 96) = false := by simpa [BP.ok] using hok.1
      simp only [bpSrc, BP.src, List.cons_append, List.nil_append]
      rw [backtickF.eq_def]
      simp only [hb, Bool.false_eq_true, if_false]
      rw [ih (acc ++ [b]) R hok.2 hR]
      simp [bpVal, BP.val]
    | dq =>
      simp only [bpSrc, BP.src, List.cons_append, List.nil_append]
      rw [backtickF.eq_def]
      simp only [beq_self_eq_true, if_true]
      rw [ih (acc ++ [96]) R hok.2 hR]
      simp [bpVal, BP.val]

theorem nextToken_bq2 (cls : CharClass) (tb : Tables) (inp : Bytes) (bs : List BP) (R : Bytes)
    (h96 : isIdentStart cls 96 = false) (hok : bs.all BP.ok = true) (hR : (R.head? != some 96) = true) :
    nextToken cls tb inp (96 :: (bpSrc bs ++ 96 :: R)) = .ok ({ ty := tb.ttIdentifier, value := bpVal bs }, R) := by
  have hd : decodeRune (96 :: (bpSrc bs ++ 96 :: R)) = (96, 1) := decodeRune_ascii 96 _ (by decide)
  have hbody := backtick_spell bs [] R hok hR
  simp only [nextToken, hd, h96, Bool.false_eq_true, if_false, show isDigitR 96 = false by decide,
    show ((96 : Nat) == 34 || (96 : Nat) == 0x201C || (96 : Nat) == 0x201D) = false by decide,
    show ((96 : Nat) == 96) = true by decide, if_true]
  simp only [readBacktick, List.drop_succ_cons, List.drop_zero, hbody, List.nil_append]

/-! ## the sequence -/
/-- an item: a lexeme and the separator after it (possibly empty) -/
abbrev Item2 := Lx × List Piece

def flat2 : List Item2 → Bytes
  | [] => []
  | it :: rest => it.1.bytes ++ (sepBytes it.2 ++ flat2 rest)

def itemsComments : List Item2 → List (Bytes × Bool)
  | [] => []
  | it :: rest => sepComments it.2 ++ itemsComments rest

/-- the decidable side condition: every lexeme and separator piece is well formed, and at every junction the bytes
    that follow a lexeme neither extend it nor turn its beginning into a comment opener -/
def seqOK (cls : CharClass) (tb : Tables) : List Item2 → Bool
  | [] => true
  | it :: rest =>
    it.1.ok cls tb && it.2.all Piece.ok && it.1.follow cls tb (sepBytes it.2 ++ flat2 rest) &&
    stopB (it.1.bytes ++ (sepBytes it.2 ++ flat2 rest)) && seqOK cls tb rest

theorem nextToken_item2 (cls : CharClass) (tb : Tables) (inp : Bytes) (hA : AsciiOK cls) (l : Lx) (R : Bytes)
    (hok : l.ok cls tb = true) (hR : l.follow cls tb R = true) :
    ∃ t, nextToken cls tb inp (l.bytes ++ R) = .ok (t, R) ∧ t.key = l.key cls tb ∧ l.bytes ≠ [] := by
  cases l with
  | word w =>
    cases w with
    | nil => simp [Lx.ok] at hok
    | cons c cs =>
      simp only [Lx.ok, Bool.and_eq_true] at hok
      simp only [Lx.follow, Bool.and_eq_true] at hR
      exact ⟨_, nextToken_word2 cls tb inp hA c cs R hok.1 hok.2 hR.1 hR.2, rfl, by simp [Lx.bytes]⟩
  | compound w1 ws w2 =>
    simp only [Lx.ok, Bool.and_eq_true, Bool.not_eq_true'] at hok
    obtain ⟨⟨⟨⟨⟨h1, h2⟩, hne⟩, hws⟩, hstart⟩, hsome⟩ := hok
    cases w1 with
    | nil => simp [isWordShaped] at h1
    | cons c cs =>
      cases w2 with
      | nil => simp [isWordShaped] at h2
      | cons c2 cs2 =>
        simp only [isWordShaped, Bool.and_eq_true] at h1 h2
        obtain ⟨cty, hcty⟩ := Option.isSome_iff_exists.1 hsome
        refine ⟨{ ty := cty, value := (c :: cs) ++ [32] ++ (c2 :: cs2) }, ?_, ?_, by simp [Lx.bytes]⟩
        · have := nextToken_compound2 cls tb inp hA c cs ws c2 cs2 R cty h1.1 h1.2 h2.1 h2.2
            (by intro h; simp [h] at hne) hws hstart hcty hR
          simpa [Lx.bytes, List.append_assoc] using this
        · have hcty' : lookup tb.compoundTypes (upper cls (c :: (cs ++ 32 :: c2 :: cs2))) = some cty := by simpa using hcty
          simp [Tok.key, Lx.key, hcty']
  | int ds =>
    cases ds with
    | nil => simp [Lx.ok] at hok
    | cons d ds' =>
      simp only [Lx.ok, Bool.and_eq_true] at hok
      exact ⟨_, nextToken_int2 cls tb inp hA d ds' R hok.1 hok.2 hR, rfl, by simp [Lx.bytes]⟩
  | num ip fp ex =>
    simp only [Lx.ok, Bool.and_eq_true, Bool.not_eq_true'] at hok
    obtain ⟨⟨⟨hip, hfp⟩, hex⟩, hne⟩ := hok
    refine ⟨{ ty := tb.ttNumber, value := ip ++ (fracBytes fp ++ ex) }, ?_, rfl, ?_⟩
    · have hR' : (if ex.isEmpty then followFrac R else followExp R) = true := by
        cases he : ex.isEmpty <;> simpa [Lx.follow, he] using hR
      have := nextToken_num2 cls tb inp hA ip fp ex R hip hfp hex hne hR'
      simpa [Lx.bytes] using this
    · obtain ⟨d, ds, rfl, _, _⟩ := isDigits_cons ip hip
      simp [Lx.bytes]
  | op o =>
    cases o with
    | nil => simp [Lx.ok] at hok
    | cons b o' =>
      simp only [Lx.ok, Bool.and_eq_true] at hok
      obtain ⟨e, he⟩ := uniqueOp_entry tb (b :: o') hok.2
      refine ⟨_, nextToken_op2 cls tb inp b o' R e hok.1 he hR, ?_, by simp [Lx.bytes]⟩
      simp [Tok.key, Lx.key, lookup_unique tb (b :: o') e he]
  | str ps =>
    simp only [Lx.ok, Bool.and_eq_true, Bool.not_eq_true'] at hok
    refine ⟨{ ty := tb.ttSingle, value := spVal ps, quote := 39 }, ?_, ?_, by simp [Lx.bytes]⟩
    · have := nextToken_str2 cls tb inp ps R hok.1.1 hok.1.2 hok.2 hR
      simpa [Lx.bytes] using this
    · rfl
  | qid qs =>
    simp only [Lx.ok, Bool.and_eq_true, Bool.not_eq_true'] at hok
    refine ⟨{ ty := tb.ttDouble, value := qpVal qs, quote := 34 }, ?_, ?_, by simp [Lx.bytes]⟩
    · have := nextToken_qid2 cls tb inp qs R hok.1 hok.2 hR
      simpa [Lx.bytes] using this
    · rfl
  | bq bs =>
    simp only [Lx.ok, Bool.and_eq_true, Bool.not_eq_true'] at hok
    refine ⟨{ ty := tb.ttIdentifier, value := bpVal bs }, ?_, ?_, by simp [Lx.bytes]⟩
    · have := nextToken_bq2 cls tb inp bs R hok.1 hok.2 hR
      simpa [Lx.bytes] using this
    · rfl

def Tok.span (t : Tok) : Nat × Nat := (t.startOff, t.endOff)

/-- where each lexeme lies in the text: start and end byte offsets, given the offset at which the first one starts -/
def spans : Nat → List Item2 → List (Nat × Nat)
  | _, [] => []
  | off, it :: rest => (off, off + it.1.bytes.length) :: spans (off + it.1.bytes.length + (sepBytes it.2).length) rest

/-- where the comments of the separators lie in the text -/
def itemsCommentSpans : Nat → List Item2 → List (Nat × Nat)
  | _, [] => []
  | off, it :: rest =>
    sepSpans (off + it.1.bytes.length) it.2 ++ itemsCommentSpans (off + it.1.bytes.length + (sepBytes it.2).length) rest

theorem lexLoop_spell2 (cls : CharClass) (tb : Tables) (inp : Bytes) (hA : AsciiOK cls) :
    ∀ (items : List Item2) (fuel : Nat) (lead : List Piece) (acc : List Tok) (cs : List Comment) (pre : Bytes),
      inp = pre ++ (sepBytes lead ++ flat2 items) →
      lead.all Piece.ok = true → seqOK cls tb items = true → items.length < fuel →
      acc.length + items.length ≤ tb.maxTokens →
      ∃ toks cs', lexLoop cls tb inp fuel (sepBytes lead ++ flat2 items) acc cs = .ok toks cs' ∧
        toks.map Tok.key = acc.reverse.map Tok.key ++ (items.map fun it => it.1.key cls tb) ++ [(0, [])] ∧
        cs'.map Comment.key = cs.map Comment.key ++ sepComments lead ++ itemsComments items ∧
        toks.map Tok.span = acc.reverse.map Tok.span ++ spans (pre.length + (sepBytes lead).length) items ++
          [(inp.length, inp.length)] ∧
        cs'.map Comment.span = cs.map Comment.span ++ sepSpans pre.length lead ++
          itemsCommentSpans (pre.length + (sepBytes lead).length) items := by
  intro items
  induction items with
  | nil =>
    intro fuel lead acc cs pre hinp hlead _ hf _
    cases fuel with
    | zero => simp at hf
    | succ f =>
      obtain ⟨cs', h1, h2, h2s⟩ := skipTriviaF_sep inp lead ((sepBytes lead ++ []).length + 1) [] cs pre (by simpa [flat2] using hinp)
        hlead rfl (by have := ncom_le lead; simp only [List.append_nil]; omega)
      refine ⟨acc.reverse ++ [{ ty := 0, value := [], startOff := inp.length, endOff := inp.length }], cs', ?_, ?_, ?_, ?_, ?_⟩
      · simp only [flat2, lexLoop, h1]
      · simp [Tok.key]
      · simp [h2, itemsComments]
      · simp [Tok.span, spans]
      · simp [h2s, itemsCommentSpans]
  | cons it items ih =>
    intro fuel lead acc cs pre hinp hlead hok hf hmax
    cases fuel with
    | zero => simp at hf
    | succ f =>
      simp only [seqOK, Bool.and_eq_true] at hok
      obtain ⟨⟨⟨⟨hlok, hsepok⟩, hfollow⟩, hstop⟩, hrest⟩ := hok
      obtain ⟨t, hnt, hkey, hne⟩ := nextToken_item2 cls tb inp hA it.1 (sepBytes it.2 ++ flat2 items) hlok hfollow
      obtain ⟨cs1, hsk, hcs1, hcs1s⟩ := skipTriviaF_sep inp lead ((sepBytes lead ++ flat2 (it :: items)).length + 1)
        (flat2 (it :: items)) cs pre hinp hlead (by simpa [flat2] using hstop) (by
        have := ncom_le lead; simp only [List.length_append]; omega)
      obtain ⟨b, tl, hbt⟩ : ∃ b tl, flat2 (it :: items) = b :: tl := by
        cases hb : it.1.bytes with
        | nil => exact absurd hb hne
        | cons b tl => exact ⟨b, tl ++ (sepBytes it.2 ++ flat2 items), by simp [flat2, hb]⟩
      have hnt' : nextToken cls tb inp (b :: tl) = .ok (t, sepBytes it.2 ++ flat2 items) := by
        rw [← hbt]; simpa [flat2] using hnt
      have hsk' : skipTriviaF inp ((sepBytes lead ++ flat2 (it :: items)).length + 1) (sepBytes lead ++ flat2 (it :: items)) cs
          = (b :: tl, cs1) := by rw [hsk, hbt]
      have hlim : ¬ (acc.length ≥ tb.maxTokens) := by simp only [List.length_cons] at hmax; omega
      have hinp' : inp = (pre ++ sepBytes lead ++ it.1.bytes) ++ (sepBytes it.2 ++ flat2 items) := by
        rw [hinp]; simp [flat2]
      obtain ⟨toks, cs', h1, h2, h3, h4, h5⟩ := ih f it.2
        ({ t with startOff := inp.length - (b :: tl).length, endOff := inp.length - (sepBytes it.2 ++ flat2 items).length } :: acc) cs1
        (pre ++ sepBytes lead ++ it.1.bytes) hinp'
        hsepok hrest (by simp only [List.length_cons] at hf; omega) (by simp only [List.length_cons] at hmax ⊢; omega)
      refine ⟨toks, cs', ?_, ?_, ?_, ?_, ?_⟩
      · simp only [lexLoop, hsk', hlim, if_false, hnt']
        exact h1
      · rw [h2]; simp [Tok.key, ← hkey]
      · rw [h3, hcs1]; simp [itemsComments]
      rotate_left
      · rw [h5, hcs1s]
        simp only [itemsCommentSpans, List.length_append, List.append_assoc, Nat.add_assoc]
      · rw [h4]
        have hlen1 : inp.length - (b :: tl).length = pre.length + (sepBytes lead).length := by
          rw [← hbt, hinp]; simp only [List.length_append]; omega
        simp only [List.reverse_cons, List.map_append, List.map_cons, List.map_nil, Tok.span, hlen1, spans,
          List.length_append, List.append_assoc, List.cons_append, List.nil_append]
        have hlen2' : inp.length - ((sepBytes it.2).length + (flat2 items).length) =
            pre.length + ((sepBytes lead).length + it.1.bytes.length) := by
          rw [hinp]; simp only [flat2, List.length_append]; omega
        simp only [Nat.add_assoc, hlen2']

theorem flat2_length (cls : CharClass) (tb : Tables) : ∀ items : List Item2, seqOK cls tb items = true → items.length ≤ (flat2 items).length
  | [], _ => by simp [flat2]
  | it :: rest, h => by
    simp only [seqOK, Bool.and_eq_true] at h
    have ih := flat2_length cls tb rest h.2
    have : 1 ≤ it.1.bytes.length := by
      cases hl : it.1 with
      | word w => cases w <;> simp [hl, Lx.ok, Lx.bytes] at h ⊢
      | compound w1 ws w2 => cases w1 <;> simp [hl, Lx.ok, Lx.bytes, isWordShaped] at h ⊢
      | int ds => cases ds <;> simp [hl, Lx.ok, Lx.bytes] at h ⊢
      | num ip fp ex => cases ip <;> simp [hl, Lx.ok, Lx.bytes, isDigits] at h ⊢
      | op o => cases o <;> simp [hl, Lx.ok, Lx.bytes] at h ⊢
      | str ps => simp [Lx.bytes]
      | qid qs => simp [Lx.bytes]
      | bq bs => simp [Lx.bytes]
    simp only [flat2, List.length_append, List.length_cons]
    omega

/-- **C04 (reference grammar, second surface)**: the tokens are exactly the lexemes — kind and decoded value — then one
    end marker; the comments are exactly the separators' comments, in order, with their exact text -/
theorem tokenize_spell2 (cls : CharClass) (tb : Tables) (hA : AsciiOK cls) (lead : List Piece) (items : List Item2)
    (hlead : lead.all Piece.ok = true) (hok : seqOK cls tb items = true)
    (hsize : (sepBytes lead ++ flat2 items).length ≤ tb.maxInput) (hcount : items.length ≤ tb.maxTokens) :
    ∃ toks cs, tokenize cls tb (sepBytes lead ++ flat2 items) = .ok toks cs ∧
      toks.map Tok.key = (items.map fun it => it.1.key cls tb) ++ [(0, [])] ∧
      cs.map Comment.key = sepComments lead ++ itemsComments items ∧
      toks.map Tok.span = spans (sepBytes lead).length items ++
        [((sepBytes lead ++ flat2 items).length, (sepBytes lead ++ flat2 items).length)] ∧
      cs.map Comment.span = sepSpans 0 lead ++ itemsCommentSpans (sepBytes lead).length items := by
  have hnot : ¬ ((sepBytes lead ++ flat2 items).length > tb.maxInput) := by omega
  have hlen := flat2_length cls tb items hok
  obtain ⟨toks, cs, h1, h2, h3, h4, h5⟩ := lexLoop_spell2 cls tb (sepBytes lead ++ flat2 items) hA items
    ((sepBytes lead ++ flat2 items).length + 1) lead [] [] [] (by simp) hlead hok (by simp only [List.length_append]; omega)
    (by simpa using hcount)
  exact ⟨toks, cs, by simp only [tokenize, hnot, if_false]; exact h1, by simpa using h2, by simpa using h3, by simpa using h4,
    by simpa using h5⟩

/-- layout independence: the same lexemes under two layouts (any blanks, any comments, or nothing where legal) give
    the same kinds and values -/
theorem tokenize_layout_independent2 (cls : CharClass) (tb : Tables) (hA : AsciiOK cls) (lead1 lead2 : List Piece)
    (items1 items2 : List Item2) (hsame : items1.map (·.1.key cls tb) = items2.map (·.1.key cls tb))
    (hl1 : lead1.all Piece.ok = true) (hl2 : lead2.all Piece.ok = true)
    (hok1 : seqOK cls tb items1 = true) (hok2 : seqOK cls tb items2 = true)
    (hs1 : (sepBytes lead1 ++ flat2 items1).length ≤ tb.maxInput) (hs2 : (sepBytes lead2 ++ flat2 items2).length ≤ tb.maxInput)
    (hc1 : items1.length ≤ tb.maxTokens) (hc2 : items2.length ≤ tb.maxTokens) :
    ∃ t1 c1 t2 c2, tokenize cls tb (sepBytes lead1 ++ flat2 items1) = .ok t1 c1 ∧
      tokenize cls tb (sepBytes lead2 ++ flat2 items2) = .ok t2 c2 ∧ t1.map Tok.key = t2.map Tok.key := by
  obtain ⟨t1, c1, a1, b1, _, _, _⟩ := tokenize_spell2 cls tb hA lead1 items1 hl1 hok1 hs1 hc1
  obtain ⟨t2, c2, a2, b2, _, _, _⟩ := tokenize_spell2 cls tb hA lead2 items2 hl2 hok2 hs2 hc2
  exact ⟨t1, c1, t2, c2, a1, a2, by rw [b1, b2, hsame]⟩

/-- the spans point at the lexemes' own bytes: cutting the text at each (start, end) gives back each lexeme as written -/
theorem spans_slice : ∀ (items : List Item2) (pre : Bytes),
    (spans pre.length items).map (fun se => ((pre ++ flat2 items).drop se.1).take (se.2 - se.1)) = items.map (·.1.bytes) := by
  intro items
  induction items with
  | nil => intro pre; simp [spans]
  | cons it rest ih =>
    intro pre
    have h1 : ((pre ++ flat2 (it :: rest)).drop pre.length).take (pre.length + it.1.bytes.length - pre.length) = it.1.bytes := by
      simp [flat2]
    have h2 := ih (pre ++ it.1.bytes ++ sepBytes it.2)
    have e1 : (pre ++ it.1.bytes ++ sepBytes it.2).length = pre.length + it.1.bytes.length + (sepBytes it.2).length := by
      simp [Nat.add_assoc]
    have e2 : pre ++ it.1.bytes ++ sepBytes it.2 ++ flat2 rest = pre ++ flat2 (it :: rest) := by simp [flat2]
    rw [e1, e2] at h2
    simp only [spans, List.map_cons, h1, h2]

/-- the letter case of a keyword does not change its kind: two spellings with the same upper-case form are read as
    the same token type -/
theorem word_kind_case_insensitive (cls : CharClass) (tb : Tables) (w1 w2 : Bytes) (h : upper cls w1 = upper cls w2) :
    ((Lx.word w1).key cls tb).1 = ((Lx.word w2).key cls tb).1 := by
  simp [Lx.key, h]

end GoSQLXModel.Lex
