import GoSQLXModel.Proofs.LintLemmas
/-!
# L003 (consecutive blank lines): the fixer converges

`fixL003` drops every blank line beyond `max` in a run (`dropExcessBlank`), then trims a trailing run longer than `max`
(`trimTrailingBlank`), then joins.  After the first pass no run is longer than `max` (`runsOK_drop`), so the trailing
loop changes nothing (`trim_id`), a second pass keeps every line (`drop_idem`), and splitting the joined lines gives the
lines back: `fixL003_idempotent`.
-/
namespace GoSQLXModel.Lint

/-- once the counter has passed `max` its value no longer matters -/
theorem drop_counter (cls : CharClass) (max : Nat) : ∀ (ls : List (List Char)) (n n' : Nat), max ≤ n → max ≤ n' →
    dropExcessBlank cls max n ls = dropExcessBlank cls max n' ls := by
  intro ls
  induction ls with
  | nil => intros; rfl
  | cons l ls ih =>
    intro n n' hn hn'
    simp only [dropExcessBlank]
    split
    · have h1 : ¬ (n + 1 ≤ max) := by omega
      have h2 : ¬ (n' + 1 ≤ max) := by omega
      rw [if_neg h1, if_neg h2]
      exact ih (n + 1) (n' + 1) (by omega) (by omega)
    · rfl

theorem drop_idem (cls : CharClass) (max : Nat) : ∀ (ls : List (List Char)) (n : Nat),
    dropExcessBlank cls max n (dropExcessBlank cls max n ls) = dropExcessBlank cls max n ls := by
  intro ls
  induction ls with
  | nil => intro n; rfl
  | cons l ls ih =>
    intro n
    by_cases hb : isBlankLine cls l = true
    · by_cases hn : n + 1 ≤ max
      · simp only [dropExcessBlank, hb, if_true, hn]
        rw [ih (n + 1)]
      · simp only [dropExcessBlank, hb, if_true, hn, if_false]
        rw [drop_counter cls max _ n (n + 1) (by omega) (by omega)]
        exact ih (n + 1)
    · simp only [dropExcessBlank, hb, Bool.false_eq_true, if_false]
      rw [ih 0]

/-- no run of blank lines is longer than `max`, counting `n` blank lines already seen -/
def runsOK (cls : CharClass) (max : Nat) : Nat → List (List Char) → Bool
  | _, [] => true
  | n, l :: ls => if isBlankLine cls l then decide (n + 1 ≤ max) && runsOK cls max (n + 1) ls else runsOK cls max 0 ls

theorem runsOK_drop (cls : CharClass) (max : Nat) : ∀ (ls : List (List Char)) (n : Nat),
    runsOK cls max n (dropExcessBlank cls max n ls) = true := by
  intro ls
  induction ls with
  | nil => intro n; rfl
  | cons l ls ih =>
    intro n
    by_cases hb : isBlankLine cls l = true
    · by_cases hn : n + 1 ≤ max
      · simp only [dropExcessBlank, hb, if_true, hn, runsOK, decide_true, Bool.true_and]
        exact ih (n + 1)
      · simp only [dropExcessBlank, hb, if_true, hn, if_false]
        -- the rest was produced with counter n+1 ≥ max; it is also fine for counter n ≥ max … or n < max
        have := ih (n + 1)
        -- runsOK is monotone in the counter
        exact runsOK_mono this
    · simp only [dropExcessBlank, hb, Bool.false_eq_true, if_false, runsOK]
      exact ih 0
where
  runsOK_mono {cls : CharClass} {max : Nat} : ∀ {ls : List (List Char)} {n : Nat}, runsOK cls max (n + 1) ls = true → runsOK cls max n ls = true := by
    intro ls
    induction ls with
    | nil => intro n _; rfl
    | cons l ls ih =>
      intro n h
      by_cases hb : isBlankLine cls l = true
      · simp only [runsOK, hb, if_true, Bool.and_eq_true, decide_eq_true_eq] at h ⊢
        exact ⟨by omega, ih h.2⟩
      · simp only [runsOK, hb, Bool.false_eq_true, if_false] at h ⊢
        exact h

/-- length of the trailing run of blank lines -/
def trail (cls : CharClass) (ls : List (List Char)) : Nat := (ls.reverse.takeWhile (isBlankLine cls)).length

theorem trail_le (cls : CharClass) (ls : List (List Char)) : trail cls ls ≤ ls.length := by
  unfold trail
  have : (ls.reverse.takeWhile (isBlankLine cls)).length ≤ ls.reverse.length :=
    (List.takeWhile_sublist _).length_le
  simpa using this

theorem trail_cons (cls : CharClass) (l : List Char) (ls : List (List Char)) :
    trail cls (l :: ls) = if trail cls ls = ls.length then ls.length + (if isBlankLine cls l then 1 else 0) else trail cls ls := by
  unfold trail
  simp only [List.reverse_cons]
  rw [List.takeWhile_append]
  simp only [List.length_reverse]
  split
  · by_cases hb : isBlankLine cls l = true <;> simp [List.takeWhile, hb]
  · rfl

theorem runsOK_trail (cls : CharClass) (max : Nat) : ∀ (out : List (List Char)) (n : Nat), runsOK cls max n out = true →
    trail cls out ≤ max ∧ (trail cls out = out.length → out ≠ [] → out.length + n ≤ max) := by
  intro out
  induction out with
  | nil => intro n _; exact ⟨by simp [trail], fun _ h => absurd rfl h⟩
  | cons l ls ih =>
    intro n h
    have hle := trail_le cls ls
    rw [trail_cons]
    by_cases hb : isBlankLine cls l = true
    · simp only [runsOK, hb, if_true, Bool.and_eq_true, decide_eq_true_eq] at h
      obtain ⟨i1, i2⟩ := ih (n + 1) h.2
      simp only [hb, if_true]
      by_cases hall : trail cls ls = ls.length
      · rw [if_pos hall]
        cases ls with
        | nil => simp; omega
        | cons a as =>
          have := i2 hall (by simp)
          simp only [List.length_cons] at this ⊢
          constructor <;> intros <;> omega
      · rw [if_neg hall]
        refine ⟨i1, ?_⟩
        intro he
        simp only [List.length_cons] at he
        omega
    · simp only [runsOK, hb, Bool.false_eq_true, if_false] at h
      obtain ⟨i1, _⟩ := ih 0 h
      simp only [hb, Bool.false_eq_true, if_false, Nat.add_zero]
      by_cases hall : trail cls ls = ls.length
      · rw [if_pos hall]
        refine ⟨by omega, ?_⟩
        intro he
        simp only [List.length_cons] at he
        omega
      · rw [if_neg hall]
        refine ⟨i1, ?_⟩
        intro he
        simp only [List.length_cons] at he
        omega

/-- after the first pass the trailing loop has nothing to do -/
theorem trim_id (cls : CharClass) (max : Nat) (out : List (List Char)) (h : runsOK cls max 0 out = true) :
    ∀ f, trimTrailingBlank cls max f out = out := by
  intro f
  cases f with
  | zero => rfl
  | succ f =>
    unfold trimTrailingBlank
    split
    · rfl
    · split
      · have := (runsOK_trail cls max out 0 h).1
        unfold trail at this
        have hn : ¬ ((out.reverse.takeWhile (isBlankLine cls)).length > max) := by omega
        simp only [hn, if_false]
      · rfl

theorem drop_no_nl (cls : CharClass) (max : Nat) : ∀ (ls : List (List Char)) (n : Nat), (∀ l ∈ ls, '\n' ∉ l) →
    ∀ l ∈ dropExcessBlank cls max n ls, '\n' ∉ l := by
  intro ls
  induction ls with
  | nil => intro n _ l hl; simp [dropExcessBlank] at hl
  | cons a as ih =>
    intro n h l hl
    simp only [dropExcessBlank] at hl
    split at hl
    · split at hl
      · rcases List.mem_cons.1 hl with e | e
        · subst e; exact h _ (by simp)
        · exact ih (n + 1) (fun x hx => h x (by simp [hx])) l e
      · exact ih (n + 1) (fun x hx => h x (by simp [hx])) l hl
    · rcases List.mem_cons.1 hl with e | e
      · subst e; exact h _ (by simp)
      · exact ih 0 (fun x hx => h x (by simp [hx])) l e

/-- what `fixL003` computes: the first pass alone -/
theorem fixL003_eq (cls : CharClass) (max : Nat) (s : List Char) :
    fixL003 cls max s = joinLines (dropExcessBlank cls max 0 (splitLines s)) := by
  unfold fixL003
  simp only []
  rw [trim_id cls max _ (runsOK_drop cls max (splitLines s) 0)]

/-- **L003 converges**: fixing a fixed text changes nothing -/
theorem fixL003_idempotent (cls : CharClass) (max : Nat) (s : List Char) :
    fixL003 cls max (fixL003 cls max s) = fixL003 cls max s := by
  rw [fixL003_eq cls max s, fixL003_eq]
  cases hD : dropExcessBlank cls max 0 (splitLines s) with
  | nil =>
    -- every line was blank and none may stay: the empty text; its single (empty) line is blank too
    simp only [joinLines, splitLines, dropExcessBlank]
    split
    · split
      · rfl
      · rfl
    · rfl
  | cons a as =>
    have hno : ∀ l ∈ a :: as, '\n' ∉ l := by
      rw [← hD]
      exact drop_no_nl cls max (splitLines s) 0 (splitLines_no_nl s)
    rw [split_join (a :: as) (by simp) hno, ← hD, drop_idem]

end GoSQLXModel.Lint
