import GoSQLXModel.Model.ErrChain
/-!
# errors.Is / errors.As as walks over the unwrap chain

* `chain` is the list an error exposes "through standard unwrapping" (`Unwrap()` repeated); `chain_length` — it is
  finite, of length `depth + 1`;
* `errIs_iff_mem_chain` — `errors.Is` finds exactly the members of the chain; hence `errIs_trans`;
* `errAs_eq_first_code` — `errors.As` returns the code of the first structured error of the chain;
* `errAs_layers` — over any stack of layers: the code of the outermost `WrapError` layer when there is one, and
  otherwise whatever the wrapped error exposes — so `%w` / ParseError layers never change the code a caller sees, and
  a `WrapError` layer always decides it.
-/
namespace GoSQLXModel.ErrChain

def chain : Err → List Err
  | .ctx d => [.ctx d]
  | .bare m => [.bare m]
  | .structured c => [.structured c]
  | .caused c i => .caused c i :: chain i
  | .wrapW m i => .wrapW m i :: chain i
  | .parseError k i => .parseError k i :: chain i

theorem chain_head (e : Err) : ∃ t, chain e = e :: t := by
  cases e <;> exact ⟨_, rfl⟩

theorem chain_unwrap (e : Err) : chain e = e :: (match unwrap e with | some i => chain i | none => []) := by
  cases e <;> rfl

theorem chain_length (e : Err) : (chain e).length = depth e + 1 := by
  induction e with
  | ctx d => rfl
  | bare m => rfl
  | structured c => rfl
  | caused c i ih => simp [chain, depth, ih]
  | wrapW m i ih => simp [chain, depth, ih]
  | parseError k i ih => simp [chain, depth, ih]

theorem errIs_iff_mem_chain (e t : Err) : errIs e t = true ↔ t ∈ chain e := by
  induction e with
  | ctx d => simp only [errIs, chain, List.mem_singleton, Bool.or_false, beq_iff_eq]; exact eq_comm
  | bare m => simp only [errIs, chain, List.mem_singleton, Bool.or_false, beq_iff_eq]; exact eq_comm
  | structured c => simp only [errIs, chain, List.mem_singleton, Bool.or_false, beq_iff_eq]; exact eq_comm
  | caused c i ih =>
    unfold errIs; simp only [chain, List.mem_cons, Bool.or_eq_true, beq_iff_eq, ih]
    exact ⟨fun h => h.elim (fun h => Or.inl h.symm) Or.inr, fun h => h.elim (fun h => Or.inl h.symm) Or.inr⟩
  | wrapW m i ih =>
    unfold errIs; simp only [chain, List.mem_cons, Bool.or_eq_true, beq_iff_eq, ih]
    exact ⟨fun h => h.elim (fun h => Or.inl h.symm) Or.inr, fun h => h.elim (fun h => Or.inl h.symm) Or.inr⟩
  | parseError k i ih =>
    unfold errIs; simp only [chain, List.mem_cons, Bool.or_eq_true, beq_iff_eq, ih]
    exact ⟨fun h => h.elim (fun h => Or.inl h.symm) Or.inr, fun h => h.elim (fun h => Or.inl h.symm) Or.inr⟩

theorem chain_sub {e m : Err} (h : m ∈ chain e) : ∀ t ∈ chain m, t ∈ chain e := by
  induction e with
  | ctx d => simp [chain] at h; subst h; exact fun t ht => ht
  | bare s => simp [chain] at h; subst h; exact fun t ht => ht
  | structured c => simp [chain] at h; subst h; exact fun t ht => ht
  | caused c i ih =>
    simp only [chain, List.mem_cons] at h
    rcases h with rfl | h
    · exact fun t ht => ht
    · exact fun t ht => by simp only [chain, List.mem_cons]; exact Or.inr (ih h t ht)
  | wrapW s i ih =>
    simp only [chain, List.mem_cons] at h
    rcases h with rfl | h
    · exact fun t ht => ht
    · exact fun t ht => by simp only [chain, List.mem_cons]; exact Or.inr (ih h t ht)
  | parseError k i ih =>
    simp only [chain, List.mem_cons] at h
    rcases h with rfl | h
    · exact fun t ht => ht
    · exact fun t ht => by simp only [chain, List.mem_cons]; exact Or.inr (ih h t ht)

/-- errors.Is is transitive along chains -/
theorem errIs_trans (e m t : Err) (h1 : errIs e m = true) (h2 : errIs m t = true) : errIs e t = true :=
  (errIs_iff_mem_chain e t).2 (chain_sub ((errIs_iff_mem_chain e m).1 h1) t ((errIs_iff_mem_chain m t).1 h2))

def codeOf : Err → Option String
  | .structured c => some c
  | .caused c _ => some c
  | _ => none

/-- errors.As returns the code of the first structured error met while unwrapping -/
theorem errAs_eq_first_code (e : Err) : errAs e = (chain e).findSome? codeOf := by
  induction e with
  | ctx d => rfl
  | bare m => rfl
  | structured c => rfl
  | caused c i ih => simp [errAs, chain, List.findSome?_cons, codeOf]
  | wrapW m i ih => simp [errAs, chain, List.findSome?_cons, codeOf, ih]
  | parseError k i ih => simp [errAs, chain, List.findSome?_cons, codeOf, ih]

def layerCode : Layer → Option String
  | .cause c => some c
  | _ => none

/-- the code a caller sees through any stack of layers -/
theorem errAs_layers (ls : List Layer) (e : Err) :
    errAs (applyLayers ls e) = (ls.findSome? layerCode).or (errAs e) := by
  induction ls with
  | nil => simp [applyLayers]
  | cons l ls ih =>
    cases l with
    | w m => simpa [applyLayers, Layer.apply, errAs, List.findSome?_cons, layerCode] using ih
    | pe i => simpa [applyLayers, Layer.apply, errAs, List.findSome?_cons, layerCode] using ih
    | cause c => simp [applyLayers, Layer.apply, errAs, List.findSome?_cons, layerCode]

end GoSQLXModel.ErrChain
