import GoSQLXModel.Model.Depth
/-! With `defer` at every counting call, the counter is what it was — after success and after failure, at any depth of
    nesting, wherever the failure happens. -/
namespace GoSQLXModel.Depth

mutual
theorem runCall_restores : ∀ (c : Call) (d : Nat), c.allDeferred = true → (runCall c d).1 = d
  | .node counts exit failsItself kids, d, h => by
    simp only [Call.allDeferred, Bool.and_eq_true, Bool.or_eq_true, Bool.not_eq_true', beq_iff_eq] at h
    have hk := runCalls_restores kids (if counts then d + 1 else d) h.2
    cases hc : counts with
    | false => simp only [runCall, hc] at hk ⊢; simpa using hk
    | true =>
      have he : exit = .deferred := by
        rcases h.1 with h1 | h1
        · simp [hc] at h1
        · exact h1
      subst he
      simp only [hc, if_true] at hk
      simp only [runCall, if_true, hk]
      omega
theorem runCalls_restores : ∀ (cs : Calls) (d : Nat), cs.allDeferred = true → (runCalls cs d).1 = d
  | .nil, d, _ => rfl
  | .cons c cs, d, h => by
    simp only [Calls.allDeferred, Bool.and_eq_true] at h
    have h1 := runCall_restores c d h.1
    simp only [runCalls]
    cases hr : runCall c d with
    | mk d1 ok =>
      rw [hr] at h1
      simp only at h1
      subst h1
      cases ok with
      | true => simpa using runCalls_restores cs d1 h.2
      | false => rfl
end

/-- any number of parses, failing or not, on one parser: the counter stays at its start value -/
theorem runs_restore (cs : List Call) (d : Nat) (h : ∀ c ∈ cs, c.allDeferred = true) :
    cs.foldl (fun d c => (runCall c d).1) d = d := by
  induction cs generalizing d with
  | nil => rfl
  | cons c cs ih =>
    simp only [List.foldl_cons]
    rw [runCall_restores c d (h c (by simp))]
    exact ih d (fun c hc => h c (by simp [hc]))

/-- the shape a refactoring away from `defer` produces: an inline decrement that the failure path skips. One failing
    call under two counting inline calls leaks two levels; 34 such statements with three levels each exceed 100. -/
def leaky : Call := .node true .inline false (.cons (.node true .inline false (.cons (.node true .inline true .nil) .nil)) .nil)
theorem inline_decrement_leaks : (runCall leaky 0) = (3, false) := by decide
theorem leaks_accumulate : (List.replicate 34 leaky).foldl (fun d c => (runCall c d).1) 0 = 102 := by decide +kernel
/-- the same tree with `defer` -/
def sound : Call := .node true .deferred false (.cons (.node true .deferred false (.cons (.node true .deferred true .nil) .nil)) .nil)
example : sound.allDeferred = true ∧ runCall sound 5 = (5, false) := by decide

end GoSQLXModel.Depth
