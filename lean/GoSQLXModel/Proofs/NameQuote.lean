import GoSQLXModel.Proofs.LexSpell2
import GoSQLXModel.Model.NameQuote
/-!
# The serialiser's quoting of a name, read back by the tokenizer

`safeIdentifier` (pkg/sql/ast/sql.go) writes a name bare when every character is a letter, a digit, `_`, `*` or `.`,
and otherwise between double quotes with every double quote doubled.  Model for ASCII names (bytes below 128); the
correspondence check compares `safeIdentifier` here with `Identifier.SQL()` on the same names.

`quoted_name_reads_back`: whatever the name (ASCII, no line feed — the tokenizer refuses a line feed inside a quoted
identifier), the quoted form is read back by `nextToken` as ONE double-quoted token whose value is the name.
-/
namespace GoSQLXModel.Lex

/-- the name as pieces of the reference grammar: a double quote is the doubled piece, any other byte itself -/
def nameQP : Bytes → List QP
  | [] => []
  | b :: bs => (if b == 34 then QP.dq else QP.ch b) :: nameQP bs

theorem nameQP_src (s : Bytes) : qpSrc (nameQP s) = escapeQuotes s := by
  induction s with
  | nil => rfl
  | cons b bs ih =>
    by_cases h : b = 34
    · subst h; simp [nameQP, qpSrc, QP.src, escapeQuotes, ih]
    · have hb : (b == 34) = false := by simpa using h
      simp [nameQP, qpSrc, QP.src, escapeQuotes, hb, ih]

theorem nameQP_val (s : Bytes) : qpVal (nameQP s) = s := by
  induction s with
  | nil => rfl
  | cons b bs ih =>
    by_cases h : b = 34
    · subst h; simp [nameQP, qpVal, QP.val, ih]
    · have hb : (b == 34) = false := by simpa using h
      simp [nameQP, qpVal, QP.val, hb, ih]

/-- an ASCII byte that is no line feed -/
def nameByte (b : UInt8) : Bool := decide (b.toNat < 128) && b != 10

theorem nameQP_ok (s : Bytes) (hs : s.all nameByte = true) : (nameQP s).all QP.ok = true := by
  induction s with
  | nil => rfl
  | cons b bs ih =>
    simp only [List.all_cons, Bool.and_eq_true] at hs
    by_cases h : b = 34
    · subst h; simp [nameQP, QP.ok, ih hs.2]
    · have hb : (b == 34) = false := by simpa using h
      have hn := hs.1
      simp only [nameByte, Bool.and_eq_true] at hn
      simp [nameQP, hb, QP.ok, hn.1, hn.2, h, ih hs.2]

/-- **Round trip of a quoted name.** -/
theorem quoted_name_reads_back (cls : CharClass) (tb : Tables) (inp : Bytes) (s R : Bytes)
    (h34 : isIdentStart cls 34 = false) (hs : s.all nameByte = true) (hR : followQuote 34 R = true) :
    nextToken cls tb inp (quoteName s ++ R) = .ok ({ ty := tb.ttDouble, value := s, quote := 34 }, R) := by
  have h := nextToken_qid2 cls tb inp (nameQP s) R h34 (nameQP_ok s hs) hR
  rw [nameQP_src, nameQP_val] at h
  simpa [quoteName] using h

/-- whenever `safeIdentifier` decides to quote, what it writes is read back as the name -/
theorem safeIdentifier_quoted_reads_back (cls : CharClass) (tb : Tables) (inp : Bytes) (s R : Bytes)
    (h34 : isIdentStart cls 34 = false) (hs : s.all nameByte = true) (hR : followQuote 34 R = true)
    (hne : s.isEmpty = false) (hunsafe : s.all safeByte = false) :
    nextToken cls tb inp (safeIdentifier s ++ R) = .ok ({ ty := tb.ttDouble, value := s, quote := 34 }, R) := by
  simp only [safeIdentifier, hne, hunsafe, Bool.false_eq_true, if_false]
  exact quoted_name_reads_back cls tb inp s R h34 hs hR

/-- the recorded finding, in the model: a name with a dot inside, or a digit first, counts as safe and is written bare -/
theorem safeIdentifier_dot_written_bare : safeIdentifier [97, 46, 98] = [97, 46, 98] := by decide
theorem safeIdentifier_digit_first_written_bare : safeIdentifier [49, 115, 116] = [49, 115, 116] := by decide
/-- … while a blank makes it quote -/
theorem safeIdentifier_blank_quoted : safeIdentifier [97, 32, 98] = [34, 97, 32, 98, 34] := by decide
theorem safeIdentifier_quote_inside : safeIdentifier [120, 34, 121] = [34, 120, 34, 34, 121, 34] := by decide

end GoSQLXModel.Lex
