import GoSQLXModel.Proofs.ExprTotal
/-!
# The answer of the expression ladder does not depend on the fuel

Once a level of the ladder answers (a tree, an error, `unsupported`) with some fuel, it gives the same answer with any
larger fuel (`mono`).  With `Proofs/ExprTotal.lean` (it always answers from fuel `10·n + 8` on) the model parser is a
function of the tokens alone: `parseExpr` below, and `pExpr f d ts = parseExprAt d ts` for every sufficient `f`.
-/
namespace GoSQLXModel.ExprParse

/-- "parse the first operand, then continue" -/
def bindR (r : Res) (k : Ex → List PTok → Res) : Res :=
  match r with
  | .ok l rest => k l rest
  | r => r

theorem bind_mono {r1 r1' : Res} (k k' : Ex → List PTok → Res) (h1 : r1 ≠ .oof → r1' = r1)
    (hk : ∀ l rest, r1 = .ok l rest → k l rest ≠ .oof → k' l rest = k l rest) (h : bindR r1 k ≠ .oof) :
    bindR r1' k' = bindR r1 k := by
  cases r1 with
  | ok l rest =>
    rw [h1 (by simp)]
    exact hk l rest rfl h
  | err c => rw [h1 (by simp)]; rfl
  | unsupported => rw [h1 (by simp)]; rfl
  | oof => exact absurd rfl h

/-- one more unit of fuel changes no answer -/
structure Mono (f : Nat) : Prop where
  expr : ∀ d ts, pExpr f d ts ≠ .oof → pExpr (f + 1) d ts = pExpr f d ts
  or_ : ∀ d ts, pOr f d ts ≠ .oof → pOr (f + 1) d ts = pOr f d ts
  lor : ∀ d l ts, lOr f d l ts ≠ .oof → lOr (f + 1) d l ts = lOr f d l ts
  and_ : ∀ d ts, pAnd f d ts ≠ .oof → pAnd (f + 1) d ts = pAnd f d ts
  land : ∀ d l ts, lAnd f d l ts ≠ .oof → lAnd (f + 1) d l ts = lAnd f d l ts
  cmp : ∀ d ts, pCmp f d ts ≠ .oof → pCmp (f + 1) d ts = pCmp f d ts
  tail : ∀ d l ts, pTail f d l ts ≠ .oof → pTail (f + 1) d l ts = pTail f d l ts
  pred : ∀ d neg l ts, pPred f d neg l ts ≠ .oof → pPred (f + 1) d neg l ts = pPred f d neg l ts
  between : ∀ d neg l ts, pBetween f d neg l ts ≠ .oof → pBetween (f + 1) d neg l ts = pBetween f d neg l ts
  like : ∀ d neg op l ts, pLike f d neg op l ts ≠ .oof → pLike (f + 1) d neg op l ts = pLike f d neg op l ts
  in_ : ∀ d neg l ts, pIn f d neg l ts ≠ .oof → pIn (f + 1) d neg l ts = pIn f d neg l ts
  inList : ∀ d ts, pInList f d ts ≠ .oof → pInList (f + 1) d ts = pInList f d ts
  cat : ∀ d ts, pCat f d ts ≠ .oof → pCat (f + 1) d ts = pCat f d ts
  lcat : ∀ d l ts, lCat f d l ts ≠ .oof → lCat (f + 1) d l ts = lCat f d l ts
  add : ∀ d ts, pAdd f d ts ≠ .oof → pAdd (f + 1) d ts = pAdd f d ts
  ladd : ∀ d l ts, lAdd f d l ts ≠ .oof → lAdd (f + 1) d l ts = lAdd f d l ts
  mul : ∀ d ts, pMul f d ts ≠ .oof → pMul (f + 1) d ts = pMul f d ts
  lmul : ∀ d l ts, lMul f d l ts ≠ .oof → lMul (f + 1) d l ts = lMul f d l ts
  mulStep : ∀ d l op ts, mulStep f d l op ts ≠ .oof → mulStep (f + 1) d l op ts = mulStep f d l op ts
  args : ∀ d ts, pArgs f d ts ≠ .oof → pArgs (f + 1) d ts = pArgs f d ts
  prim : ∀ d ts, pPrim f d ts ≠ .oof → pPrim (f + 1) d ts = pPrim f d ts

theorem mono_zero : Mono 0 := by
  constructor <;> intros <;> simp_all [pExpr, pOr, lOr, pAnd, lAnd, pCmp, pTail, pPred, pBetween, pLike, pIn, pInList, pCat, lCat,
    pAdd, lAdd, pMul, lMul, mulStep, pArgs, pPrim]

/-- the body of `pArgs` when the first token starts no keyword-led production -/
def argsBody (g d : Nat) (ts : List PTok) : ResL :=
  match pExpr g d ts with
  | .ok v (⟨.comma, _⟩ :: r) =>
    (match pArgs g d r with
     | .ok vs rest => .ok (.cons v vs) rest
     | r => r)
  | .ok v (⟨.rparen, _⟩ :: r) => .ok (.cons v .nil) r
  | .ok _ (t :: _) => if t.k == .other || isWord t.lit "SEPARATOR" then .unsupported else .err "E2002"
  | .ok _ [] => .err "E2002"
  | r => r.toL

theorem pArgs_other (g d : Nat) (lit : String) (tl : List PTok) : pArgs (g + 1) d (⟨.other, lit⟩ :: tl) = .unsupported := by
  unfold pArgs; rfl

theorem pArgs_unfold (g d : Nat) (ts : List PTok) (hne : ∀ lit tl, ts ≠ ⟨.other, lit⟩ :: tl) :
    pArgs (g + 1) d ts = argsBody g d ts := by
  unfold pArgs argsBody
  split
  · rename_i heq; exact absurd heq (by simp)
  · rename_i heq; exact absurd rfl (hne _ _)
  · rename_i heq _
    injection heq with heq
    subst heq
    rfl

theorem mono_succ (f : Nat) (ih : Mono f) : Mono (f + 1) where
  expr := by
    intro d ts h
    simp only [pExpr] at h ⊢
    split
    · rfl
    · rename_i hd
      simp only [hd, if_false] at h
      exact ih.or_ _ ts h
  or_ := by
    intro d ts h
    simp only [pOr] at h ⊢
    exact bind_mono _ _ (ih.and_ d ts) (fun l rest _ hk => ih.lor d l rest hk) h
  lor := by
    intro d l ts h
    cases ts with
    | nil => simp [lOr]
    | cons t ts' =>
      obtain ⟨k, lit⟩ := t
      cases k <;> first
        | (simp only [lOr] at h ⊢
           exact bind_mono _ _ (ih.and_ d ts') (fun r rest _ hk => ih.lor d _ rest hk) h)
        | simp [lOr]
  and_ := by
    intro d ts h
    simp only [pAnd] at h ⊢
    exact bind_mono _ _ (ih.cmp d ts) (fun l rest _ hk => ih.land d l rest hk) h
  land := by
    intro d l ts h
    cases ts with
    | nil => simp [lAnd]
    | cons t ts' =>
      obtain ⟨k, lit⟩ := t
      cases k <;> first
        | (simp only [lAnd] at h ⊢
           exact bind_mono _ _ (ih.cmp d ts') (fun r rest _ hk => ih.land d _ rest hk) h)
        | simp [lAnd]
  cmp := by
    intro d ts h
    simp only [pCmp] at h ⊢
    exact bind_mono _ _ (ih.cat d ts) (fun l rest _ hk => ih.tail d l rest hk) h
  tail := by
    intro d l ts h
    simp only [pTail] at h ⊢
    exact ih.pred d _ l _ h
  pred := by
    intro d neg l ts h
    cases ts with
    | nil => simp [pPred]
    | cons t r1 =>
      simp only [pPred] at h ⊢
      by_cases c1 : (t.k == TK.between) = true
      · simp only [c1, if_true] at h ⊢; exact ih.between d neg l r1 h
      · simp only [c1, Bool.false_eq_true, if_false] at h ⊢
        by_cases c2 : isLikeOp t = true
        · simp only [c2, if_true] at h ⊢; exact ih.like d neg _ l r1 h
        · simp only [c2, Bool.false_eq_true, if_false] at h ⊢
          by_cases c3 : isRegexpOp t = true
          · simp only [c3, if_true] at h ⊢; exact ih.like d neg _ l r1 h
          · simp only [c3, Bool.false_eq_true, if_false] at h ⊢
            by_cases c4 : (t.k == TK.in_) = true
            · simp only [c4, if_true] at h ⊢; exact ih.in_ d neg l r1 h
            · simp only [c4, Bool.false_eq_true, if_false] at h ⊢
              by_cases c5 : neg = true
              · simp only [c5, if_true]
              · simp only [c5, Bool.false_eq_true, if_false] at h ⊢
                by_cases c6 : (t.k == TK.is) = true
                · simp only [c6, if_true]
                · simp only [c6, Bool.false_eq_true, if_false] at h ⊢
                  by_cases c7 : (t.k == TK.cmp) = true
                  · simp only [c7, if_true] at h ⊢
                    exact bind_mono _ _ (ih.cat d r1) (fun r rest _ _ => rfl) h
                  · simp only [c7, Bool.false_eq_true, if_false]
  between := by
    intro d neg l ts h
    simp only [pBetween] at h ⊢
    cases hpc : pCat f d ts with
    | oof => rw [hpc] at h; simp at h
    | err c => rw [ih.cat d ts (by rw [hpc]; simp), hpc]
    | unsupported => rw [ih.cat d ts (by rw [hpc]; simp), hpc]
    | ok lo r1 =>
      rw [ih.cat d ts (by rw [hpc]; simp), hpc]
      rw [hpc] at h
      cases r1 with
      | nil => rfl
      | cons t r2 =>
        obtain ⟨k, lit⟩ := t
        cases k <;> try rfl
        simp only [] at h ⊢
        cases hp2 : pCat f d r2 with
        | oof => rw [hp2] at h; simp at h
        | err c => rw [ih.cat d r2 (by rw [hp2]; simp), hp2]
        | unsupported => rw [ih.cat d r2 (by rw [hp2]; simp), hp2]
        | ok hi rest => rw [ih.cat d r2 (by rw [hp2]; simp), hp2]
  like := by
    intro d neg op l ts h
    simp only [pLike] at h ⊢
    cases hpp : pPrim f d ts with
    | oof => rw [hpp] at h; simp at h
    | err c => rw [ih.prim d ts (by rw [hpp]; simp), hpp]
    | unsupported => rw [ih.prim d ts (by rw [hpp]; simp), hpp]
    | ok pat rest => rw [ih.prim d ts (by rw [hpp]; simp), hpp]
  in_ := by
    intro d neg l ts h
    unfold pIn at h ⊢
    split
    · rfl
    · rename_i r1 hne
      split at h
      · rename_i heq
        injection heq with _ e
        exact (hne _ _ e).elim
      · rename_i heq
        injection heq with _ e
        subst e
        cases hpi : pInList f d r1 with
        | oof => rw [hpi] at h; simp at h
        | err c => rw [ih.inList d r1 (by rw [hpi]; simp), hpi]
        | unsupported => rw [ih.inList d r1 (by rw [hpi]; simp), hpi]
        | ok items rest => rw [ih.inList d r1 (by rw [hpi]; simp), hpi]
      · rename_i hn2
        exact (hn2 _ _ rfl).elim
    · rfl
  inList := by
    intro d ts h
    unfold pInList at h ⊢
    cases hpe : pExpr f d ts with
    | oof => rw [hpe] at h; simp [Res.toL] at h
    | err c => rw [ih.expr d ts (by rw [hpe]; simp), hpe]
    | unsupported => rw [ih.expr d ts (by rw [hpe]; simp), hpe]
    | ok v r1 =>
      rw [ih.expr d ts (by rw [hpe]; simp), hpe]
      rw [hpe] at h
      cases r1 with
      | nil => rfl
      | cons t r =>
        obtain ⟨k, lit⟩ := t
        cases k <;> try rfl
        simp only [] at h ⊢
        cases hpi : pInList f d r with
        | oof => rw [hpi] at h; simp at h
        | err c => rw [ih.inList d r (by rw [hpi]; simp), hpi]
        | unsupported => rw [ih.inList d r (by rw [hpi]; simp), hpi]
        | ok vs rest => rw [ih.inList d r (by rw [hpi]; simp), hpi]
  cat := by
    intro d ts h
    simp only [pCat] at h ⊢
    exact bind_mono _ _ (ih.add d ts) (fun l rest _ hk => ih.lcat d l rest hk) h
  lcat := by
    intro d l ts h
    cases ts with
    | nil => simp [lCat]
    | cons t ts' =>
      obtain ⟨k, lit⟩ := t
      cases k <;> first
        | (simp only [lCat] at h ⊢
           exact bind_mono _ _ (ih.add d ts') (fun r rest _ hk => ih.lcat d _ rest hk) h)
        | simp [lCat]
  add := by
    intro d ts h
    simp only [pAdd] at h ⊢
    exact bind_mono _ _ (ih.mul d ts) (fun l rest _ hk => ih.ladd d l rest hk) h
  ladd := by
    intro d l ts h
    cases ts with
    | nil => simp [lAdd]
    | cons t ts' =>
      obtain ⟨k, lit⟩ := t
      cases k <;> first
        | (simp only [lAdd] at h ⊢
           exact bind_mono _ _ (ih.mul d ts') (fun r rest _ hk => ih.ladd d _ rest hk) h)
        | simp [lAdd]
  mul := by
    intro d ts h
    simp only [pMul] at h ⊢
    exact bind_mono _ _ (ih.prim d ts) (fun l rest _ hk => ih.lmul d l rest hk) h
  lmul := by
    intro d l ts h
    cases ts with
    | nil => simp [lMul]
    | cons t ts' =>
      obtain ⟨k, lit⟩ := t
      cases k <;> first
        | (simp only [lMul] at h ⊢
           exact ih.mulStep d l lit ts' h)
        | simp [lMul]
  mulStep := by
    intro d l op ts h
    cases ts with
    | nil => simp [mulStep]
    | cons t ts' =>
      simp only [mulStep] at h ⊢
      exact bind_mono _ _ (ih.prim d (t :: ts')) (fun r rest _ hk => ih.lmul d _ rest hk) h
  args := by
    intro d ts h
    by_cases ho : ∃ lit tl, ts = ⟨.other, lit⟩ :: tl
    · obtain ⟨lit, tl, rfl⟩ := ho
      rw [pArgs_other, pArgs_other]
    · have hne : ∀ lit tl, ts ≠ ⟨.other, lit⟩ :: tl := fun lit tl e => ho ⟨lit, tl, e⟩
      rw [pArgs_unfold (f + 1) d ts hne, pArgs_unfold f d ts hne]
      rw [pArgs_unfold f d ts hne] at h
      unfold argsBody at h ⊢
      cases hpe : pExpr f d ts with
      | oof => rw [hpe] at h; simp [Res.toL] at h
      | err c => rw [ih.expr d ts (by rw [hpe]; simp), hpe]
      | unsupported => rw [ih.expr d ts (by rw [hpe]; simp), hpe]
      | ok v r1 =>
        rw [ih.expr d ts (by rw [hpe]; simp), hpe]
        rw [hpe] at h
        cases r1 with
        | nil => rfl
        | cons t r =>
          obtain ⟨k, lit⟩ := t
          cases k <;> try rfl
          simp only [] at h ⊢
          cases hpi : pArgs f d r with
          | oof => rw [hpi] at h; simp at h
          | err c => rw [ih.args d r (by rw [hpi]; simp), hpi]
          | unsupported => rw [ih.args d r (by rw [hpi]; simp), hpi]
          | ok vs rest => rw [ih.args d r (by rw [hpi]; simp), hpi]
  prim := by
    intro d ts h
    unfold pPrim at h ⊢
    cases ts with
    | nil => rfl
    | cons t rest =>
      obtain ⟨k, lit⟩ := t
      cases k
      case ident =>
        simp only [] at h ⊢
        split
        · rfl
        · rename_i r1 hne
          split at h
          · rename_i heq
            injection heq with _ e
            exact (hne _ _ e).elim
          · rename_i heq
            injection heq with _ e
            subst e
            cases hpa : pArgs f d r1 with
            | oof => rw [hpa] at h; simp at h
            | err c => rw [ih.args d r1 (by rw [hpa]; simp), hpa]
            | unsupported => rw [ih.args d r1 (by rw [hpa]; simp), hpa]
            | ok args r2 => rw [ih.args d r1 (by rw [hpa]; simp), hpa]
          · rename_i hn2
            exact (hn2 _ _ rfl).elim
        · rfl
      case lparen =>
        simp only [] at h ⊢
        split
        · rfl
        · rename_i hne
          split at h
          · exact (hne _ _ rfl).elim
          · cases hpe : pExpr f d rest with
            | oof => rw [hpe] at h; simp at h
            | err c => rw [ih.expr d rest (by rw [hpe]; simp), hpe]
            | unsupported => rw [ih.expr d rest (by rw [hpe]; simp), hpe]
            | ok e r2 => rw [ih.expr d rest (by rw [hpe]; simp), hpe]
      case not =>
        simp only [] at h ⊢
        split
        · rfl
        · rename_i hne
          split at h
          · exact (hne _ _ rfl).elim
          · by_cases hd : d + 1 > maxDepth
            · simp only [hd, if_true]
            · simp only [hd, if_false] at h ⊢
              cases hpc : pCmp f (d + 1) rest with
              | oof => rw [hpc] at h; simp at h
              | err c => rw [ih.cmp (d + 1) rest (by rw [hpc]; simp), hpc]
              | unsupported => rw [ih.cmp (d + 1) rest (by rw [hpc]; simp), hpc]
              | ok e r2 => rw [ih.cmp (d + 1) rest (by rw [hpc]; simp), hpc]
      all_goals rfl

theorem mono : ∀ f, Mono f
  | 0 => mono_zero
  | f + 1 => mono_succ f (mono f)

/-- the model parser as a function of the tokens alone (the fuel that always suffices) -/
def parseExprAt (d : Nat) (ts : List PTok) : Res := pExpr (10 * ts.length + 8) d ts

/-- **fuel independence**: with any sufficient fuel the answer is the same -/
theorem pExpr_eq_parseExprAt (d : Nat) (ts : List PTok) : ∀ k, pExpr (10 * ts.length + 8 + k) d ts = parseExprAt d ts
  | 0 => rfl
  | k + 1 => by
    have ih := pExpr_eq_parseExprAt d ts k
    have hne : pExpr (10 * ts.length + 8 + k) d ts ≠ .oof := pExpr_returns d ts _ (by omega)
    have := (mono (10 * ts.length + 8 + k)).expr d ts hne
    rw [← ih, ← this]
    rfl

theorem pExpr_stable (d : Nat) (ts : List PTok) (f : Nat) (hf : 10 * ts.length + 8 ≤ f) : pExpr f d ts = parseExprAt d ts := by
  obtain ⟨k, rfl⟩ : ∃ k, f = 10 * ts.length + 8 + k := ⟨f - (10 * ts.length + 8), by omega⟩
  exact pExpr_eq_parseExprAt d ts k

theorem parseExprAt_ne_oof (d : Nat) (ts : List PTok) : parseExprAt d ts ≠ .oof :=
  pExpr_returns d ts _ (Nat.le_refl _)

end GoSQLXModel.ExprParse
