import GoSQLXModel.Proofs.LexSpell3
/-!
# The token limit

* `tokenize_bounded`: whatever the input, an accepted run returns at most `maxTokens` tokens and the end marker — the
  count runs over the whole input (a bound per statement would not give this).
* `lexLoop_limit` / `token_limit_refuses`: a text of the reference grammar with exactly `maxTokens` lexemes followed by
  anything that starts another token is refused with `E1007`, located at the offset of what follows — wherever the
  statement boundaries lie (a semicolon is a lexeme like any other).
-/
namespace GoSQLXModel.Lex

theorem lexLoop_bounded (cls : CharClass) (tb : Tables) (inp : Bytes) : ∀ (fuel : Nat) (rest : Bytes) (acc : List Tok)
    (cs : List Comment) (out : List Tok) (cms : List Comment), acc.length ≤ tb.maxTokens →
    lexLoop cls tb inp fuel rest acc cs = .ok out cms → out.length ≤ tb.maxTokens + 1 := by
  intro fuel
  induction fuel with
  | zero => intro rest acc cs out cms _ h; simp [lexLoop] at h
  | succ f ih =>
    intro rest acc cs out cms hacc h
    unfold lexLoop at h
    cases hsk : skipTriviaF inp (rest.length + 1) rest cs with
    | mk r1 cs1 =>
      rw [hsk] at h
      cases r1 with
      | nil =>
        simp only [Result.ok.injEq] at h
        rw [← h.1]
        simp only [List.length_append, List.length_reverse, List.length_cons, List.length_nil]
        omega
      | cons b tl =>
        simp only at h
        by_cases hlim : acc.length ≥ tb.maxTokens
        · simp [hlim] at h
        · simp only [hlim, if_false] at h
          cases hnt : nextToken cls tb inp (b :: tl) with
          | error e => rw [hnt] at h; simp at h
          | ok p =>
            obtain ⟨t, r2⟩ := p
            rw [hnt] at h
            simp only at h
            exact ih r2 _ cs1 out cms (by simp only [List.length_cons]; omega) h

/-- **Bound.** -/
theorem tokenize_bounded (cls : CharClass) (tb : Tables) (inp : Bytes) (out : List Tok) (cms : List Comment)
    (h : tokenize cls tb inp = .ok out cms) : out.length ≤ tb.maxTokens + 1 := by
  unfold tokenize at h
  by_cases hb : inp.length > tb.maxInput
  · simp [hb] at h
  · simp only [hb, if_false] at h
    exact lexLoop_bounded cls tb inp _ _ [] [] out cms (by simp) h

theorem lexLoop_limit (cls : CharClass) (tb : Tables) (inp : Bytes) (hA : AsciiOK cls) (tail : Bytes)
    (htail : stopB tail = true) (hne : tail ≠ []) :
    ∀ (items : List Item2) (fuel : Nat) (lead : List Piece) (acc : List Tok) (cs : List Comment) (pre : Bytes),
      inp = pre ++ (sepBytes lead ++ (flat2 items ++ tail)) →
      lead.all Piece.ok = true → seqOKT cls tb tail items = true → items.length < fuel →
      acc.length + items.length = tb.maxTokens →
      lexLoop cls tb inp fuel (sepBytes lead ++ (flat2 items ++ tail)) acc cs = .err ⟨"E1007", .at (inp.length - tail.length)⟩ := by
  intro items
  induction items with
  | nil =>
    intro fuel lead acc cs pre hinp hlead _ hf hmax
    cases fuel with
    | zero => simp at hf
    | succ f =>
      obtain ⟨cs', h1, _, _⟩ := skipTriviaF_sep inp lead ((sepBytes lead ++ ([] ++ tail)).length + 1) tail cs pre
        (by simpa [flat2] using hinp) hlead htail (by have := ncom_le lead; simp only [List.length_append]; omega)
      obtain ⟨b, tl, rfl⟩ : ∃ b tl, tail = b :: tl := by
        cases tail with
        | nil => exact absurd rfl hne
        | cons b tl => exact ⟨b, tl, rfl⟩
      have hlim : acc.length ≥ tb.maxTokens := by simp at hmax; omega
      simp only [flat2, List.nil_append] at h1 ⊢
      simp only [lexLoop, h1, hlim, if_true]
  | cons it items ih =>
    intro fuel lead acc cs pre hinp hlead hok hf hmax
    cases fuel with
    | zero => simp at hf
    | succ f =>
      simp only [seqOKT, Bool.and_eq_true] at hok
      obtain ⟨⟨⟨⟨hlok, hsepok⟩, hfollow⟩, hstop⟩, hrest⟩ := hok
      obtain ⟨t, hnt, _, hne'⟩ := nextToken_item2 cls tb inp hA it.1 (sepBytes it.2 ++ (flat2 items ++ tail)) hlok hfollow
      have hflat : flat2 (it :: items) ++ tail = it.1.bytes ++ (sepBytes it.2 ++ (flat2 items ++ tail)) := by
        simp [flat2]
      obtain ⟨cs1, hsk, _, _⟩ := skipTriviaF_sep inp lead ((sepBytes lead ++ (flat2 (it :: items) ++ tail)).length + 1)
        (flat2 (it :: items) ++ tail) cs pre hinp hlead (by rw [hflat]; exact hstop) (by
        have := ncom_le lead; simp only [List.length_append]; omega)
      obtain ⟨b, tl, hbt⟩ : ∃ b tl, flat2 (it :: items) ++ tail = b :: tl := by
        rw [hflat]
        cases hb : it.1.bytes with
        | nil => exact absurd hb hne'
        | cons b tl => exact ⟨b, tl ++ (sepBytes it.2 ++ (flat2 items ++ tail)), by simp⟩
      have hnt' : nextToken cls tb inp (b :: tl) = .ok (t, sepBytes it.2 ++ (flat2 items ++ tail)) := by
        rw [← hbt, hflat]; exact hnt
      have hsk' : skipTriviaF inp ((sepBytes lead ++ (flat2 (it :: items) ++ tail)).length + 1)
          (sepBytes lead ++ (flat2 (it :: items) ++ tail)) cs = (b :: tl, cs1) := by rw [hsk, hbt]
      have hlim : ¬ (acc.length ≥ tb.maxTokens) := by simp only [List.length_cons] at hmax; omega
      have hinp' : inp = (pre ++ sepBytes lead ++ it.1.bytes) ++ (sepBytes it.2 ++ (flat2 items ++ tail)) := by
        rw [hinp, hflat]; simp
      have := ih f it.2
        ({ t with startOff := inp.length - (b :: tl).length, endOff := inp.length - (sepBytes it.2 ++ (flat2 items ++ tail)).length } :: acc) cs1
        (pre ++ sepBytes lead ++ it.1.bytes) hinp' hsepok hrest (by simp only [List.length_cons] at hf; omega)
        (by simp only [List.length_cons] at hmax ⊢; omega)
      simp only [lexLoop, hsk', hlim, if_false, hnt']
      exact this

theorem flat2_length_T (cls : CharClass) (tb : Tables) (tail : Bytes) : ∀ items : List Item2, seqOKT cls tb tail items = true →
    items.length ≤ (flat2 items).length
  | [], _ => by simp [flat2]
  | it :: rest, h => by
    simp only [seqOKT, Bool.and_eq_true] at h
    have ih := flat2_length_T cls tb tail rest h.2
    have : 1 ≤ it.1.bytes.length := by
      cases hl : it.1 with
      | word w => cases w <;> simp [hl, Lx.ok, Lx.bytes] at h ⊢
      | compound w1 ws w2 => cases w1 <;> simp [hl, Lx.ok, Lx.bytes, isWordShaped] at h ⊢
      | int ds => cases ds <;> simp [hl, Lx.ok, Lx.bytes] at h ⊢
      | num ip fp ex => cases ip <;> simp [hl, Lx.ok, Lx.bytes, isDigits] at h ⊢
      | op o => cases o <;> simp [hl, Lx.ok, Lx.bytes] at h ⊢
      | str ps => simp [Lx.bytes]
      | qid qs => simp [Lx.bytes]
      | bq bs => simp [Lx.bytes]
    simp only [flat2, List.length_append, List.length_cons]
    omega

/-- **Refusal at the limit**: `maxTokens` lexemes of the reference grammar, then anything that starts another token -/
theorem token_limit_refuses (cls : CharClass) (tb : Tables) (hA : AsciiOK cls) (lead : List Piece) (items : List Item2) (tail : Bytes)
    (htail : stopB tail = true) (hne : tail ≠ []) (hlead : lead.all Piece.ok = true) (hok : seqOKT cls tb tail items = true)
    (hsize : (sepBytes lead ++ (flat2 items ++ tail)).length ≤ tb.maxInput) (hcount : items.length = tb.maxTokens) :
    tokenize cls tb (sepBytes lead ++ (flat2 items ++ tail)) =
      .err ⟨"E1007", .at ((sepBytes lead ++ (flat2 items ++ tail)).length - tail.length)⟩ := by
  have hnot : ¬ ((sepBytes lead ++ (flat2 items ++ tail)).length > tb.maxInput) := by omega
  have hlen : items.length < (sepBytes lead ++ (flat2 items ++ tail)).length + 1 := by
    have := flat2_length_T cls tb tail items hok
    simp only [List.length_append]; omega
  simp only [tokenize, hnot, if_false]
  exact lexLoop_limit cls tb _ hA tail htail hne items _ lead [] [] [] (by simp) hlead hok hlen (by simpa using hcount)

end GoSQLXModel.Lex
