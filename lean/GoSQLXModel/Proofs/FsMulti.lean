import GoSQLXModel.Model.Fs
/-!
# Several files rewritten in place, one after the other, with a crash anywhere

`crashStates` is characterised recursively (`mem_crashStates_cons`), which gives a frame rule (`crash_frame`: a path no
operation names is the same in every crash state) and a split rule for concatenated processes
(`mem_crashStates_append`).  With them the single-file theorem lifts to a run over any number of files
(`multi_replace_safe`): whatever the crash point — between files, between operations, after any number of bytes of
any write — *every* file named on the command line holds its complete old or its complete new content, provided the
targets are distinct paths and no temporary name is a target; and every path that is neither a target nor a temporary
file is untouched (`multi_replace_frame`).
-/
namespace GoSQLXModel.Fs

/-- the disks a crash during the first operation can leave -/
def pre (d : Disk) : Op → List Disk
  | .write p bs => (List.range (bs.length + 1)).map fun j => exec d (.write p (bs.take j))
  | _ => [d]

theorem run_cons (d : Disk) (op : Op) (ops : List Op) : run d (op :: ops) = run (exec d op) ops := rfl

theorem mem_crashStates_cons (d : Disk) (op : Op) (ops : List Op) (s : Disk) :
    s ∈ crashStates d (op :: ops) ↔ s ∈ pre d op ∨ s ∈ crashStates (exec d op) ops := by
  simp only [crashStates, List.length_cons, List.mem_flatMap, List.mem_range]
  constructor
  · rintro ⟨k, hk, hs⟩
    cases k with
    | zero =>
      left
      simp only [List.take_zero, run, List.foldl_nil, List.getElem?_cons_zero] at hs
      cases op <;> simpa [pre] using hs
    | succ k =>
      right
      refine ⟨k, by omega, ?_⟩
      simpa [List.take_succ_cons, run_cons] using hs
  · rintro (hs | ⟨k, hk, hs⟩)
    · refine ⟨0, by omega, ?_⟩
      simp only [List.take_zero, run, List.foldl_nil, List.getElem?_cons_zero]
      cases op <;> simpa [pre] using hs
    · refine ⟨k + 1, by omega, ?_⟩
      simpa [List.take_succ_cons, run_cons] using hs


theorem mem_crashStates_nil (d s : Disk) : s ∈ crashStates d [] ↔ s = d := by
  simp [crashStates, run]

def touches : Op → List String
  | .create p => [p] | .truncate p => [p] | .write p _ => [p]
  | .sync _ => [] | .close _ => [] | .chmod _ => []
  | .rename s t => [s, t] | .remove p => [p]

theorem exec_frame (d : Disk) (op : Op) (q : String) (h : q ∉ touches op) : exec d op q = d q := by
  cases op <;> simp [touches] at h <;> simp [exec, upd, h]

theorem pre_frame (d : Disk) (op : Op) (q : String) (h : q ∉ touches op) : ∀ s ∈ pre d op, s q = d q := by
  intro s hs
  cases op with
  | write p bs =>
    simp only [pre, List.mem_map, List.mem_range] at hs
    obtain ⟨j, _, rfl⟩ := hs
    exact exec_frame d _ q (by simpa [touches] using h)
  | _ => simp [pre] at hs; subst hs; rfl

theorem run_frame (q : String) : ∀ (ops : List Op) (d : Disk), (∀ op ∈ ops, q ∉ touches op) → run d ops q = d q
  | [], _, _ => rfl
  | op :: ops, d, h => by
    rw [run_cons, run_frame q ops _ (fun o ho => h o (by simp [ho])), exec_frame d op q (h op (by simp))]

/-- **frame rule**: a path that no operation of the process names is the same in every crash state -/
theorem crash_frame (q : String) : ∀ (ops : List Op) (d : Disk), (∀ op ∈ ops, q ∉ touches op) →
    ∀ s ∈ crashStates d ops, s q = d q
  | [], d, _, s, hs => by rw [(mem_crashStates_nil d s).1 hs]
  | op :: ops, d, h, s, hs => by
    rcases (mem_crashStates_cons d op ops s).1 hs with h1 | h1
    · exact pre_frame d op q (h op (by simp)) s h1
    · rw [crash_frame q ops _ (fun o ho => h o (by simp [ho])) s h1, exec_frame d op q (h op (by simp))]

/-- a crash during `a ++ b` happens during `a`, or during `b` started from what `a` left -/
theorem mem_crashStates_append (b : List Op) (s : Disk) : ∀ (a : List Op) (d : Disk),
    s ∈ crashStates d (a ++ b) → s ∈ crashStates d a ∨ s ∈ crashStates (run d a) b
  | [], _, h => Or.inr h
  | op :: a, d, h => by
    rcases (mem_crashStates_cons d op (a ++ b) s).1 h with h1 | h1
    · exact Or.inl ((mem_crashStates_cons d op a s).2 (Or.inl h1))
    · rcases mem_crashStates_append b s a _ h1 with h2 | h2
      · exact Or.inl ((mem_crashStates_cons d op a s).2 (Or.inr h2))
      · exact Or.inr h2

structure Job where
  target : String
  tmp : String
  new : Bytes

def jobsOps (js : List Job) : List Op := js.flatMap fun j => atomicReplace j.target j.tmp j.new

theorem atomicReplace_touches (t tmp : String) (new : Bytes) (q : String) (h1 : q ≠ t) (h2 : q ≠ tmp) :
    ∀ op ∈ atomicReplace t tmp new, q ∉ touches op := by
  intro op hop
  simp only [atomicReplace, List.mem_cons, List.not_mem_nil, or_false] at hop
  rcases hop with rfl | rfl | rfl | rfl | rfl | rfl <;> simp [touches, h1, h2]

theorem jobsOps_touches (js : List Job) (q : String) (h : ∀ j ∈ js, q ≠ j.target ∧ q ≠ j.tmp) :
    ∀ op ∈ jobsOps js, q ∉ touches op := by
  intro op hop
  simp only [jobsOps, List.mem_flatMap] at hop
  obtain ⟨j, hj, hop⟩ := hop
  exact atomicReplace_touches j.target j.tmp j.new q (h j hj).1 (h j hj).2 op hop

/-- a path that is neither a target nor a temporary file is untouched whatever the crash point -/
theorem multi_replace_frame (js : List Job) (d : Disk) (q : String) (h : ∀ j ∈ js, q ≠ j.target ∧ q ≠ j.tmp) :
    ∀ s ∈ crashStates d (jobsOps js), s q = d q :=
  crash_frame q _ d (jobsOps_touches js q h)

/-- **every file holds its complete old or complete new content, whatever the crash point of the whole run** -/
theorem multi_replace_safe : ∀ (js : List Job) (d : Disk),
    (js.map (·.target)).Nodup → (∀ j ∈ js, ∀ j' ∈ js, j.tmp ≠ j'.target) →
    ∀ s ∈ crashStates d (jobsOps js), ∀ j ∈ js, s j.target = d j.target ∨ s j.target = some j.new
  | [], _, _, _, _, _, j, hj => by simp at hj
  | j0 :: js, d, hnd, htmp, s, hs, j, hj => by
    have hnd0 : j0.target ∉ js.map (·.target) ∧ (js.map (·.target)).Nodup := List.nodup_cons.1 hnd
    have hnd' : (js.map (·.target)).Nodup := hnd0.2
    have hnot : ∀ j' ∈ js, j'.target ≠ j0.target := by
      intro j' hj' he
      exact hnd0.1 (by rw [← he]; exact List.mem_map.2 ⟨j', hj', rfl⟩)
    have htmp' : ∀ a ∈ js, ∀ b ∈ js, a.tmp ≠ b.target := fun a ha b hb => htmp a (by simp [ha]) b (by simp [hb])
    have h00 : j0.tmp ≠ j0.target := htmp j0 (by simp) j0 (by simp)
    -- paths of later jobs are not named by the first job's operations
    have hA : ∀ j' ∈ js, ∀ op ∈ atomicReplace j0.target j0.tmp j0.new, j'.target ∉ touches op := fun j' hj' =>
      atomicReplace_touches _ _ _ _ (hnot j' hj') (fun he => htmp j0 (by simp) j' (by simp [hj']) he.symm)
    -- the first job's target is not named by later operations
    have hR : ∀ op ∈ jobsOps js, j0.target ∉ touches op :=
      jobsOps_touches js _ (fun j' hj' => ⟨fun he => hnot j' hj' he.symm, fun he => htmp j' (by simp [hj']) j0 (by simp) he.symm⟩)
    have hsplit : jobsOps (j0 :: js) = atomicReplace j0.target j0.tmp j0.new ++ jobsOps js := by simp [jobsOps]
    rw [hsplit] at hs
    rcases mem_crashStates_append _ s _ d hs with h1 | h1
    · rcases List.mem_cons.1 hj with rfl | hj'
      · exact atomic_replace_safe d _ _ _ h00 s h1
      · exact Or.inl (crash_frame _ _ d (hA j hj') s h1)
    · rcases List.mem_cons.1 hj with rfl | hj'
      · right
        rw [crash_frame _ _ _ hR s h1]
        exact (atomic_replace_done d _ _ _ h00).1
      · have := multi_replace_safe js _ hnd' htmp' s h1 j hj'
        rwa [run_frame _ _ d (hA j hj')] at this

end GoSQLXModel.Fs
