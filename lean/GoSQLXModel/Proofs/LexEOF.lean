import GoSQLXModel.Proofs.LexSpans
/-!
# Exactly one end-of-input marker; tokens start at a non-blank byte
-/
namespace GoSQLXModel.Lex

/-- well-formedness of the tables: no table entry and no fixed token type is the EOF type (0), and the three
    `@` operators are present (checked for the regenerated tables by `decide`) -/
structure TablesOK (tb : Tables) : Prop where
  kw : ∀ e ∈ tb.keywords, e.2 ≠ 0
  ct : ∀ e ∈ tb.compoundTypes, e.2 ≠ 0
  op : ∀ e ∈ tb.operators, e.2 ≠ 0
  ident : tb.ttIdentifier ≠ 0
  num : tb.ttNumber ≠ 0
  ph : tb.ttPlaceholder ≠ 0
  sq : tb.ttSingle ≠ 0
  dq : tb.ttDouble ≠ 0
  st : tb.ttString ≠ 0
  ts : tb.ttTripleSingle ≠ 0
  td : tb.ttTripleDouble ≠ 0
  dl : tb.ttDollar ≠ 0
  at1 : (lookup tb.operators [64]).isSome
  at2 : (lookup tb.operators [64, 62]).isSome
  at3 : (lookup tb.operators [64, 64]).isSome

theorem lookup_mem {tbl : List (Bytes × Nat)} {k : Bytes} {v : Nat} (h : lookup tbl k = some v) :
    ∃ e ∈ tbl, e.2 = v := by
  unfold lookup at h
  cases hf : tbl.find? (·.1 == k) with
  | none => simp [hf] at h
  | some e =>
    simp only [hf, Option.map_some, Option.some.injEq] at h
    exact ⟨e, List.mem_of_find?_eq_some hf, h⟩

theorem lookup_getD_ne_zero {tbl : List (Bytes × Nat)} (hall : ∀ e ∈ tbl, e.2 ≠ 0) (k : Bytes)
    (hs : (lookup tbl k).isSome) : (lookup tbl k).getD 0 ≠ 0 := by
  cases h : lookup tbl k with
  | none => simp [h] at hs
  | some v =>
    obtain ⟨e, he, hv⟩ := lookup_mem h
    simp only [Option.getD_some]; rw [← hv]; exact hall e he

theorem readIdentifier_ty (cls : CharClass) (tb : Tables) (ok : TablesOK tb) (bs : Bytes) :
    (readIdentifier cls tb bs).1.ty ≠ 0 := by
  have hplain : ∀ up : Bytes, (lookup tb.keywords up).getD tb.ttIdentifier ≠ 0 := by
    intro up
    cases h : lookup tb.keywords up with
    | none => simpa using ok.ident
    | some v => obtain ⟨e, he, hv⟩ := lookup_mem h; simp only [Option.getD_some]; rw [← hv]; exact ok.kw e he
  unfold readIdentifier
  cases h : nextRune bs with
  | none => simpa using ok.ident
  | some x =>
    obtain ⟨r0, r1⟩ := x
    simp only
    split
    · cases h3 : nextRune ((dropRunes (isIdentChar cls) r1).dropWhile isWS) with
      | none => exact hplain _
      | some y =>
        obtain ⟨r, r4⟩ := y
        simp only
        split
        · split
          · rename_i cty hc
            obtain ⟨e, he, hv⟩ := lookup_mem hc
            simp only; rw [← hv]; exact ok.ct e he
          · exact hplain _
        · exact hplain _
    · exact hplain _

theorem longestOp_mem (ops : List (Bytes × Nat)) (bs : Bytes) {o : Bytes × Nat}
    (h : longestOp ops bs = some o) : o ∈ ops := by
  unfold longestOp at h
  have key : ∀ (l : List (Bytes × Nat)) (init : Option (Bytes × Nat)),
      (∀ o, init = some o → o ∈ ops) → (∀ x ∈ l, x ∈ ops) →
      ∀ o, l.foldl (fun best o =>
        if (o.1.isPrefixOf bs && o.1 != []) = true then
          match best with
          | some b => if o.1.length > b.1.length then some o else best
          | none => some o
        else best) init = some o → o ∈ ops := by
    intro l
    induction l with
    | nil => intro init hi _ o ho; exact hi o ho
    | cons x xs ih =>
      intro init hi hl o ho
      simp only [List.foldl_cons] at ho
      refine ih _ ?_ (fun y hy => hl y (List.mem_cons_of_mem _ hy)) o ho
      intro o' ho'
      have hx : x ∈ ops := hl x (by simp)
      split at ho'
      · split at ho'
        · split at ho'
          · injection ho' with ho'; subst ho'; exact hx
          · exact hi o' ho'
        · injection ho' with ho'; subst ho'; exact hx
      · exact hi o' ho'
  exact key ops none (by simp) (fun x hx => hx) o h

theorem nextToken_ty (cls : CharClass) (tb : Tables) (ok : TablesOK tb) (inp : Bytes) {bs : Bytes} {t : Tok} {rest : Bytes}
    (h : nextToken cls tb inp bs = .ok (t, rest)) : t.ty ≠ 0 := by
  unfold nextToken at h
  simp only at h
  split at h
  · injection h with h
    have := readIdentifier_ty cls tb ok bs
    rw [h] at this; exact this
  · split at h
    · -- number
      unfold readNumber at h
      split at h
      · injection h with h; injection h with h _; subst h; exact ok.num
      · split at h
        · simp at h
        · split at h
          · simp at h
          · injection h with h; injection h with h _; subst h; exact ok.num
    · split at h
      · unfold readQuotedIdentifier at h
        cases hn : nextRune bs with
        | none => simp [hn] at h
        | some x =>
          obtain ⟨r0, r1⟩ := x
          simp only [hn] at h
          split at h
          · injection h with h; injection h with h _; subst h; exact ok.dq
          · simp at h
          · simp at h
      · split at h
        · unfold readBacktick at h
          split at h
          · injection h with h; injection h with h _; subst h; exact ok.ident
          · simp at h
        · split at h
          · unfold readQuotedString at h
            cases hn : nextRune bs with
            | none => simp [hn] at h
            | some x =>
              obtain ⟨r0, r1⟩ := x
              simp only [hn] at h
              split at h
              · split at h
                · injection h with h; injection h with h _; subst h
                  simp only; split
                  · exact ok.ts
                  · exact ok.td
                · simp at h
              · split at h
                · simp at h
                · simp at h
                · injection h with h; injection h with h _; subst h
                  simp only; split
                  · exact ok.sq
                  · split
                    · exact ok.dq
                    · exact ok.st
          · -- punctuation
            unfold readPunctuation at h
            cases bs with
            | nil => simp at h
            | cons b r1 =>
              simp only at h
              split at h
              · -- dollar
                unfold readDollar at h
                simp only at h
                cases hn : nextRune ((b :: r1).drop 1) with
                | none => simp only [hn] at h; injection h with h; injection h with h _; subst h; exact ok.ph
                | some x =>
                  obtain ⟨n, r'⟩ := x
                  simp only [hn] at h
                  split at h
                  · injection h with h; injection h with h _; subst h; exact ok.ph
                  · split at h
                    · generalize (if (n == 36) = true then List.drop 1 (b :: r1)
                          else dropRunes (fun c => c != 36 && isIdentChar cls c) (List.drop 1 (b :: r1))) = r2 at h
                      cases hn2 : nextRune r2 with
                      | none => simp only [hn2] at h; injection h with h; injection h with h _; subst h; exact ok.ph
                      | some y =>
                        obtain ⟨c, r3⟩ := y
                        simp only [hn2] at h
                        split at h
                        · injection h with h; injection h with h _; subst h; exact ok.ph
                        · split at h
                          · injection h with h; injection h with h _; subst h; exact ok.dl
                          · simp at h
                    · injection h with h; injection h with h _; subst h; exact ok.ph
              · split at h
                · cases hn : nextRune r1 with
                  | none =>
                    simp only [hn] at h
                    injection h with h; injection h with h _; subst h
                    exact lookup_getD_ne_zero ok.op _ ok.at1
                  | some x =>
                    obtain ⟨n, r'⟩ := x
                    simp only [hn] at h
                    split at h
                    · injection h with h; injection h with h _; subst h
                      exact lookup_getD_ne_zero ok.op _ ok.at2
                    · split at h
                      · injection h with h; injection h with h _; subst h
                        exact lookup_getD_ne_zero ok.op _ ok.at3
                      · split at h
                        · injection h with h; injection h with h _; subst h; exact ok.ph
                        · injection h with h; injection h with h _; subst h
                          exact lookup_getD_ne_zero ok.op _ ok.at1
                · split at h
                  · rename_i op ty ho
                    injection h with h; injection h with h _; subst h
                    exact ok.op _ (longestOp_mem _ _ ho)
                  · simp at h

/-- invariant: no accumulated token has the EOF type; the result is the accumulated tokens plus one EOF -/
theorem lexLoop_single_eof (cls : CharClass) (tb : Tables) (ok : TablesOK tb) (inp : Bytes) :
    ∀ (fuel : Nat) (rest : Bytes) (acc : List Tok) (cs : List Comment) (toks : List Tok) (cms : List Comment),
    (∀ t ∈ acc, t.ty ≠ 0) → lexLoop cls tb inp fuel rest acc cs = .ok toks cms →
    ∃ body, toks = body ++ [{ ty := 0, value := [], startOff := inp.length, endOff := inp.length }] ∧
      ∀ t ∈ body, t.ty ≠ 0
  | 0, _, _, _, _, _, _, h => by simp [lexLoop] at h
  | fuel+1, rest, acc, cs, toks, cms, hacc, h => by
    simp only [lexLoop] at h
    generalize skipTriviaF inp (rest.length + 1) rest cs = st at h
    obtain ⟨r1, cs1⟩ := st
    simp only at h
    split at h
    · injection h with h1 _; subst h1
      exact ⟨acc.reverse, rfl, fun t ht => hacc t (List.mem_reverse.1 ht)⟩
    · split at h
      · simp at h
      · cases hn : nextToken cls tb inp r1 with
        | error e => simp [hn] at h
        | ok x =>
          obtain ⟨t, r2⟩ := x
          simp only [hn] at h
          refine lexLoop_single_eof cls tb ok inp fuel r2 _ cs1 toks cms ?_ h
          intro t' ht'
          rcases List.mem_cons.1 ht' with e | e
          · subst e; exact (nextToken_ty cls tb ok inp hn : t.ty ≠ 0)
          · exact hacc t' e

/-- **C04 (end marker)**: the token list of every accepted input is its tokens followed by exactly one EOF -/
theorem tokenize_single_eof (cls : CharClass) (tb : Tables) (ok : TablesOK tb) (inp : Bytes) (toks : List Tok)
    (cms : List Comment) (h : tokenize cls tb inp = .ok toks cms) :
    ∃ body, toks = body ++ [{ ty := 0, value := [], startOff := inp.length, endOff := inp.length }] ∧
      ∀ t ∈ body, t.ty ≠ 0 := by
  unfold tokenize at h
  split at h
  · simp at h
  · exact lexLoop_single_eof cls tb ok inp _ inp [] [] toks cms (by simp) h

theorem dropWhile_head_not {α} (p : α → Bool) : ∀ (l : List α) (b : α) (tl : List α),
    l.dropWhile p = b :: tl → p b = false
  | [], _, _, h => by simp at h
  | x :: xs, b, tl, h => by
    simp only [List.dropWhile_cons] at h
    by_cases hx : p x = true
    · rw [if_pos hx] at h; exact dropWhile_head_not p xs b tl h
    · rw [if_neg hx] at h; injection h with h1 _; subst h1; simpa using hx

/-- a token never starts at a blank: trivia skipping stops at a non-blank byte -/
theorem skipTriviaF_head (inp : Bytes) : ∀ (fuel : Nat) (rest : Bytes) (cs : List Comment) (b : UInt8) (tl : Bytes),
    (skipTriviaF inp fuel rest cs).1 = b :: tl → isWS b = false
  | 0, rest, cs, b, tl, h => by
    simp only [skipTriviaF] at h
    exact dropWhile_head_not isWS rest b tl h
  | fuel+1, rest, cs, b, tl, h => by
    simp only [skipTriviaF] at h
    split at h
    · split at h
      · exact skipTriviaF_head inp fuel _ _ b tl h
      · split at h
        · exact skipTriviaF_head inp fuel _ _ b tl h
        · exact dropWhile_head_not isWS rest b tl h
    · exact dropWhile_head_not isWS rest b tl h

end GoSQLXModel.Lex
