import GoSQLXModel.Model.Metrics
/-!
# The compare-and-swap update makes progress; a finishing schedule always exists

* `solo_finishes` — a recorder that runs two micro-steps without interference has finished (obstruction freedom of
  the CAS loop: load, then a compare-and-swap that cannot fail because nobody changed the value);
* `sequential_completes` / `exists_finishing_schedule` — for every list of recorders there is a schedule that runs
  all of them to completion, so the hypothesis "all threads have finished" of `cas_exact` / `max_exact` /
  `min_exact` is satisfiable for every workload, not only for the examples.
-/
namespace GoSQLXModel.Metrics
variable {V : Type} [DecidableEq V]

theorem solo_finishes (rank : V → Nat) (cur : V) (t : Thr V) (h : t.pc = .start) :
    (stepThr rank true (stepThr rank true cur t).1 (stepThr rank true cur t).2).2.pc = .fin := by
  unfold stepThr
  rw [h]
  by_cases hr : rank cur < rank t.val <;> simp [hr]

theorem run_shift (rank : V → Nat) (cas : Bool) (t : Thr V) : ∀ (sched : List Nat) (cur : V) (ts : List (Thr V)),
    run rank cas cur (t :: ts) (sched.map (· + 1)) =
      ((run rank cas cur ts sched).1, t :: (run rank cas cur ts sched).2)
  | [], _, _ => rfl
  | i :: sched, cur, ts => by
    simp only [List.map_cons, run, stepAt]
    exact run_shift rank cas t sched _ _

/-- each recorder in turn, two micro-steps each -/
def seqSched : Nat → List Nat
  | 0 => []
  | n + 1 => 0 :: 0 :: (seqSched n).map (· + 1)

theorem sequential_completes (rank : V → Nat) : ∀ (ts : List (Thr V)) (cur : V), (∀ t ∈ ts, t.pc = .start) →
    ∀ t ∈ (run rank true cur ts (seqSched ts.length)).2, t.pc = .fin
  | [], _, _ => by simp [seqSched, run]
  | t0 :: ts, cur, h => by
    have h0 := solo_finishes rank cur t0 (h t0 (by simp))
    have ih := sequential_completes rank ts (stepThr rank true (stepThr rank true cur t0).1 (stepThr rank true cur t0).2).1
      (fun t ht => h t (by simp [ht]))
    simp only [List.length_cons, seqSched, run, stepAt]
    rw [run_shift]
    intro t ht
    simp only [List.mem_cons] at ht
    rcases ht with rfl | ht
    · exact h0
    · exact ih t ht

theorem exists_finishing_schedule (rank : V → Nat) (init : V) (vals : List V) :
    ∃ sched, ∀ t ∈ (run rank true init (initThreads vals) sched).2, t.pc = .fin :=
  ⟨seqSched (initThreads vals).length, sequential_completes rank _ init (by
    intro t ht; simp [initThreads] at ht; obtain ⟨v, _, rfl⟩ := ht; rfl)⟩

/-- so the largest-query metric of every workload, under that schedule, is its maximum -/
theorem max_reached (sizes : List Nat) : ∃ sched,
    (∀ s ∈ sizes, s ≤ (run id true 0 (initThreads sizes) sched).1) ∧
    ((run id true 0 (initThreads sizes) sched).1 = 0 ∨ (run id true 0 (initThreads sizes) sched).1 ∈ sizes) := by
  obtain ⟨sched, h⟩ := exists_finishing_schedule (id : Nat → Nat) 0 sizes
  exact ⟨sched, max_exact sizes sched h⟩

end GoSQLXModel.Metrics
