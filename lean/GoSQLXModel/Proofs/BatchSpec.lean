import GoSQLXModel.Model.Batch
/-!
# Batch calls: the accumulator loop equals the obvious specification, in both directions

`spec` is the specification one would write down: the results of the individual calls in order, or the index and
error of the first call that fails.  `batch_eq_spec` shows the Go-shaped loop (running index, accumulator) computes
it from every starting index and accumulator; `batch_err_iff` is the two-sided form of `batch_err_first` (if some
call fails, the batch *does* fail, at the first such index and with that call's own error); `batch_append` says a
batch over `xs ++ ys` is the batch over `xs` followed, if that succeeded, by the batch over `ys` with shifted indices.
-/
namespace GoSQLXModel.Batch

def spec {α β ε : Type} (f : α → Except ε β) : List α → Except (Nat × ε) (List β)
  | [] => .ok []
  | q :: qs =>
    match f q with
    | .error e => .error (0, e)
    | .ok r =>
      match spec f qs with
      | .ok rs => .ok (r :: rs)
      | .error (k, e) => .error (k + 1, e)

/-- shift a specification result to a loop state -/
def place {β ε : Type} (i : Nat) (acc : List β) : Except (Nat × ε) (List β) → Except (Nat × ε) (List β)
  | .ok rs => .ok (acc ++ rs)
  | .error (k, e) => .error (i + k, e)

theorem batch_eq_spec {α β ε : Type} (f : α → Except ε β) (qs : List α) (i : Nat) (acc : List β) :
    batch f i qs acc = place i acc (spec f qs) := by
  induction qs generalizing i acc with
  | nil => simp [batch, spec, place]
  | cons q qs ih =>
    simp only [batch, spec]
    cases hq : f q with
    | error e => simp [place]
    | ok r =>
      simp only [ih]
      cases hs : spec f qs with
      | ok rs => simp [place]
      | error ke => obtain ⟨k, e⟩ := ke; simp [place]; omega

theorem batch_zero {α β ε : Type} (f : α → Except ε β) (qs : List α) : batch f 0 qs [] = spec f qs := by
  rw [batch_eq_spec]
  cases spec f qs with
  | ok rs => simp [place]
  | error ke => obtain ⟨k, e⟩ := ke; simp [place]

theorem spec_err_of_split {α β ε : Type} (f : α → Except ε β) (pre : List α) (q : α) (post : List α) (e : ε)
    (hq : f q = .error e) (hp : ∀ p ∈ pre, ∃ r, f p = .ok r) : spec f (pre ++ q :: post) = .error (pre.length, e) := by
  induction pre with
  | nil => simp [spec, hq]
  | cons p pre ih =>
    obtain ⟨r, hr⟩ := hp p (by simp)
    have := ih (fun x hx => hp x (by simp [hx]))
    simp [spec, hr, this]

/-- **two-sided first-failure**: the batch fails with `(k, e)` exactly when call `k` is the first that fails and
    `e` is its error -/
theorem batch_err_iff {α β ε : Type} (f : α → Except ε β) (qs : List α) (k : Nat) (e : ε) :
    batch f 0 qs [] = .error (k, e) ↔
      ∃ pre q post, qs = pre ++ q :: post ∧ pre.length = k ∧ f q = .error e ∧ ∀ p ∈ pre, ∃ r, f p = .ok r := by
  constructor
  · intro h
    obtain ⟨pre, q, post, h1, h2, h3, h4⟩ := batch_err_first f qs 0 [] k e h
    exact ⟨pre, q, post, h1, by omega, h3, h4⟩
  · rintro ⟨pre, q, post, rfl, rfl, hq, hp⟩
    rw [batch_zero, spec_err_of_split f pre q post e hq hp]

/-- the batch never fails when no call does, and then returns every result -/
theorem batch_ok_of_all {α β ε : Type} (f : α → Except ε β) (qs : List α) (h : ∀ q ∈ qs, ∃ r, f q = .ok r) :
    ∃ rs, batch f 0 qs [] = .ok rs ∧ qs.map f = rs.map Except.ok := by
  cases hb : batch f 0 qs [] with
  | ok rs =>
    obtain ⟨ys, h1, h2⟩ := (batch_ok_iff f qs 0 [] rs).1 hb
    exact ⟨rs, rfl, by simpa [h1] using h2⟩
  | error ke =>
    obtain ⟨k, e⟩ := ke
    obtain ⟨pre, q, post, h1, _, h3, _⟩ := batch_err_first f qs 0 [] k e hb
    obtain ⟨r, hr⟩ := h q (by simp [h1])
    rw [hr] at h3; cases h3

theorem spec_append {α β ε : Type} (f : α → Except ε β) (xs ys : List α) :
    spec f (xs ++ ys) = match spec f xs with
      | .ok rs => place xs.length rs (spec f ys)
      | .error ke => .error ke := by
  induction xs with
  | nil =>
    simp only [List.nil_append, spec, List.length_nil]
    cases spec f ys with
    | ok rs => simp [place]
    | error ke => obtain ⟨k, e⟩ := ke; simp [place]
  | cons x xs ih =>
    simp only [List.cons_append, spec, ih]
    cases hx : f x with
    | error e => rfl
    | ok r =>
      cases hs : spec f xs with
      | error ke => obtain ⟨k, e⟩ := ke; rfl
      | ok rs =>
        cases hy : spec f ys with
        | ok rs' => simp [place]
        | error ke => obtain ⟨k, e⟩ := ke; simp [place]; omega

/-- a batch over a concatenation is the batch over the first part followed by the batch over the second -/
theorem batch_append {α β ε : Type} (f : α → Except ε β) (xs ys : List α) :
    batch f 0 (xs ++ ys) [] = match batch f 0 xs [] with
      | .ok rs => batch f xs.length ys rs
      | .error ke => .error ke := by
  rw [batch_zero, batch_zero, spec_append]
  cases spec f xs with
  | ok rs => simp [batch_eq_spec]
  | error ke => rfl

end GoSQLXModel.Batch
