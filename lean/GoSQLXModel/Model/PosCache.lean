import GoSQLXModel.Model.Lex
/-!
# Incremental offset → (line, column) conversion

`toSQLPosition` keeps the last converted offset with its line and column and resumes from there when the next query is
not before it (the tokenizer's queries are: start of a token, end of that token, start of the next, … — monotone).
This file models the resuming conversion as a scan of the bytes between the cached offset and the target
(`advanceTo`), proves that it computes `locOf` (so the cache is invisible) and that a monotone sequence of queries
scans every byte at most once.

The implementation additionally jumps over whole lines through its table of line starts, so it scans *fewer* bytes
than this model: per query at most the lines skipped plus the bytes between the start of the target's line and the
target.  That refinement is not modelled; the dynamic scaling measurement of C20 is what covers it.
-/
namespace GoSQLXModel.Lex

structure PC where
  idx : Nat
  line : Nat
  col : Nat
  deriving Repr, DecidableEq

def PC.start : PC := ⟨0, 1, 1⟩

def stepByte (p : PC) (b : UInt8) : PC :=
  if b == 10 then ⟨p.idx + 1, p.line + 1, 1⟩ else ⟨p.idx + 1, p.line, p.col + (if b == 9 then 4 else 1)⟩

/-- resume from `p` and scan up to `target` -/
def advanceTo (inp : Bytes) (p : PC) (target : Nat) : PC :=
  ((inp.drop p.idx).take (target - p.idx)).foldl stepByte p

/-- bytes scanned by one query -/
def queryCost (p : PC) (target : Nat) : Nat := target - p.idx

/-- a cache entry is right when it holds the location of its offset -/
def PC.Ok (inp : Bytes) (p : PC) : Prop := (p.line, p.col) = locOf inp p.idx

theorem locOf_succ (inp : Bytes) (i : Nat) (h : i < inp.length) :
    locOf inp (i + 1) =
      if inp[i] == 10 then ((locOf inp i).1 + 1, 1) else ((locOf inp i).1, (locOf inp i).2 + (if inp[i] == 9 then 4 else 1)) := by
  have ht : inp.take (i + 1) = inp.take i ++ [inp[i]] := by
    rw [List.take_add_one]; simp [List.getElem?_eq_getElem h]
  unfold locOf
  simp only [ht, List.filter_append, List.length_append, List.reverse_append, List.reverse_cons, List.reverse_nil,
    List.nil_append, List.singleton_append]
  by_cases hb : inp[i] = 10
  · simp [hb, List.takeWhile_cons]; omega
  · have hb' : (inp[i] == 10) = false := by simpa using hb
    have hb2 : (inp[i] != 10) = true := by simp [hb]
    simp only [hb', List.filter_cons, List.filter_nil, List.length_nil, Bool.false_eq_true, if_false,
      List.takeWhile_cons, hb2, if_true, List.map_cons, List.sum_cons]
    refine Prod.ext (by simp) ?_
    simp only; omega

theorem stepByte_ok (inp : Bytes) (p : PC) (h : p.idx < inp.length) (hp : p.Ok inp) :
    (stepByte p inp[p.idx]).Ok inp ∧ (stepByte p inp[p.idx]).idx = p.idx + 1 := by
  unfold PC.Ok at hp
  have hs := locOf_succ inp p.idx h
  have h1 : (locOf inp p.idx).1 = p.line := by rw [← hp]
  have h2 : (locOf inp p.idx).2 = p.col := by rw [← hp]
  by_cases hb : (inp[p.idx] == 10) = true
  · have e : stepByte p inp[p.idx] = ⟨p.idx + 1, p.line + 1, 1⟩ := by unfold stepByte; rw [if_pos hb]
    rw [e]
    refine ⟨?_, rfl⟩
    unfold PC.Ok
    rw [if_pos hb] at hs
    simp only; rw [hs, h1]
  · have e : stepByte p inp[p.idx] = ⟨p.idx + 1, p.line, p.col + (if inp[p.idx] == 9 then 4 else 1)⟩ := by
      unfold stepByte; rw [if_neg hb]
    rw [e]
    refine ⟨?_, rfl⟩
    unfold PC.Ok
    rw [if_neg hb] at hs
    simp only; rw [hs, h1, h2]

/-- scanning `k` bytes from a right cache entry gives a right cache entry `k` bytes further -/
theorem foldl_ok (inp : Bytes) : ∀ (k : Nat) (p : PC), p.idx + k ≤ inp.length → p.Ok inp →
    (((inp.drop p.idx).take k).foldl stepByte p).Ok inp ∧ (((inp.drop p.idx).take k).foldl stepByte p).idx = p.idx + k
  | 0, p, _, hp => by simp [hp]
  | k+1, p, hk, hp => by
    have hlt : p.idx < inp.length := by omega
    have hd : inp.drop p.idx = inp[p.idx] :: inp.drop (p.idx + 1) := (List.drop_eq_getElem_cons hlt)
    rw [hd, List.take_succ_cons, List.foldl_cons]
    obtain ⟨hok, hidx⟩ := stepByte_ok inp p hlt hp
    have ih := foldl_ok inp k (stepByte p inp[p.idx]) (by rw [hidx]; omega) hok
    rw [hidx] at ih
    refine ⟨ih.1, ?_⟩
    rw [ih.2]; omega

/-- **the cache is invisible**: resuming from a right entry gives exactly `locOf` of the target -/
theorem advanceTo_spec (inp : Bytes) (p : PC) (target : Nat) (hp : p.Ok inp) (h1 : p.idx ≤ target)
    (h2 : target ≤ inp.length) :
    (advanceTo inp p target).Ok inp ∧ (advanceTo inp p target).idx = target := by
  unfold advanceTo
  have := foldl_ok inp (target - p.idx) p (by omega) hp
  refine ⟨this.1, ?_⟩
  rw [this.2]; omega

theorem start_ok (inp : Bytes) : PC.start.Ok inp := by
  unfold PC.Ok PC.start locOf; simp

/-- run a sequence of queries, resuming each from the previous one; returns the final entry and the bytes scanned -/
def runQueries (inp : Bytes) : PC → List Nat → PC × Nat
  | p, [] => (p, 0)
  | p, t :: ts =>
    let q := advanceTo inp p t
    let r := runQueries inp q ts
    (r.1, queryCost p t + r.2)

/-- **every byte is scanned at most once**: a non-decreasing sequence of queries costs the distance between the first
    cache entry and the last target -/
theorem runQueries_cost (inp : Bytes) : ∀ (ts : List Nat) (p : PC), p.Ok inp →
    (∀ t ∈ ts, t ≤ inp.length) → List.Pairwise (· ≤ ·) (p.idx :: ts) →
    (runQueries inp p ts).2 = (ts.getLast?.getD p.idx) - p.idx ∧ (runQueries inp p ts).2 ≤ inp.length
  | [], p, _, _, _ => by simp [runQueries]
  | t :: ts, p, hp, hb, hm => by
    simp only [runQueries, queryCost]
    have hpt : p.idx ≤ t := (List.pairwise_cons.1 hm).1 t (by simp)
    have htl : t ≤ inp.length := hb t (by simp)
    obtain ⟨hok, hidx⟩ := advanceTo_spec inp p t hp hpt htl
    have hm' : List.Pairwise (· ≤ ·) ((advanceTo inp p t).idx :: ts) := by
      rw [hidx]; exact (List.pairwise_cons.1 hm).2
    have ih := runQueries_cost inp ts (advanceTo inp p t) hok (fun x hx => hb x (List.mem_cons_of_mem _ hx)) hm'
    rw [hidx] at ih
    have hlast : ((t :: ts).getLast?.getD p.idx) = ts.getLast?.getD t := by
      cases ts with
      | nil => simp
      | cons a as =>
        rw [List.getLast?_cons_cons]
        cases hl : (a :: as).getLast? with
        | none => simp at hl
        | some l => simp
    rw [hlast]
    have hge : t ≤ ts.getLast?.getD t := by
      cases hts : ts.getLast? with
      | none => simp
      | some l =>
        simp only [Option.getD_some]
        have hl : l ∈ ts := List.mem_of_getLast? hts
        exact (List.pairwise_cons.1 (List.pairwise_cons.1 hm).2).1 l hl
    have hle : ts.getLast?.getD t ≤ inp.length := by
      cases hts : ts.getLast? with
      | none => simpa using htl
      | some l => simp only [Option.getD_some]; exact hb l (List.mem_cons_of_mem _ (List.mem_of_getLast? hts))
    constructor
    · rw [ih.1]; omega
    · rw [ih.1]; omega

end GoSQLXModel.Lex
