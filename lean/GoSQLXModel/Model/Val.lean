/-!
# Generic AST value (`Val`) — the image of a Go `ast.Node` tree under the harness's reflection dump.

`node ty fs`   : a value of a struct type that implements `ast.Node` (visited by Walk/Inspect)
`struct fs`    : a by-value helper struct that is not itself a Node (traversed, never visited)
`list vs`      : slice / array
scalars        : str / int / bool / nil (nil also stands for a typed-nil pointer or nil interface)

Mutual inductives (not nested `List Val`) so that structural recursion and `induction` work.
-/
namespace GoSQLXModel

mutual
inductive Val where
  | str (s : String) | int (n : Int) | bool (b : Bool) | nil
  | node (ty : String) (fields : Fields)
  | struct (fields : Fields)
  | list (xs : Vals)
inductive Vals where
  | nil | cons (v : Val) (vs : Vals)
inductive Fields where
  | nil | cons (name : String) (v : Val) (fs : Fields)
end

mutual
def Val.size : Val → Nat
  | .node _ fs => 1 + fs.size
  | .struct fs => 1 + fs.size
  | .list xs => 1 + xs.size
  | _ => 1
def Vals.size : Vals → Nat
  | .nil => 0 | .cons v vs => v.size + vs.size
def Fields.size : Fields → Nat
  | .nil => 0 | .cons _ v fs => v.size + fs.size
end

-- all Node-typed values reachable through the tree's own fields, pre-order, as type names
mutual
def Val.nodes : Val → List String
  | .node ty fs => ty :: fs.nodes
  | .struct fs => fs.nodes
  | .list xs => xs.nodes
  | _ => []
def Vals.nodes : Vals → List String
  | .nil => [] | .cons v vs => v.nodes ++ vs.nodes
def Fields.nodes : Fields → List String
  | .nil => [] | .cons _ v fs => v.nodes ++ fs.nodes
end

def Vals.toList : Vals → List Val
  | .nil => [] | .cons v vs => v :: vs.toList
def Fields.toList : Fields → List (String × Val)
  | .nil => [] | .cons n v fs => (n, v) :: fs.toList
def Fields.get? : Fields → String → Option Val
  | .nil, _ => none
  | .cons n v fs, k => if n == k then some v else fs.get? k
def Vals.ofList : List Val → Vals
  | [] => .nil | v :: vs => .cons v (Vals.ofList vs)
def Fields.ofList : List (String × Val) → Fields
  | [] => .nil | (n, v) :: fs => .cons n v (Fields.ofList fs)

end GoSQLXModel
