/-!
# Metrics under arbitrary interleavings of atomic micro-steps

Threads are lists of atomic micro-steps on shared counters; a schedule is a list of thread indices
(an index out of range, or of a finished thread, is a no-op); sequential consistency of `sync/atomic`
is assumed.  Two protocols are modelled:

* **adds** (`atomic.AddInt64`): the counter always equals its initial value plus everything added so far;
* **best-value update** (the min/max query size): `load; if mine is better { CAS(cur, mine) or retry }`
  — for every schedule that runs all threads to completion the final value is a recorded value
  (or the initial one) and no recorded value is better; with the plain `load; store` sequence the
  same schedule space contains a lost update (witness by `decide`).
-/
namespace GoSQLXModel.Metrics

/-! ## atomic adds -/

/-- thread `i` performs its next pending add -/
def addStep : Nat → List (List Nat) → Nat → Nat × List (List Nat)
  | c, [], _ => (c, [])
  | c, [] :: ts, 0 => (c, [] :: ts)
  | c, (a :: p) :: ts, 0 => (c + a, p :: ts)
  | c, t :: ts, i+1 => let (c', ts') := addStep c ts i; (c', t :: ts')

def runAdds (c : Nat) (ts : List (List Nat)) : List Nat → Nat × List (List Nat)
  | [] => (c, ts)
  | i :: sched => let (c', ts') := addStep c ts i; runAdds c' ts' sched

def pendingSum (ts : List (List Nat)) : Nat := (ts.map List.sum).sum

theorem addStep_conserves (c : Nat) (ts : List (List Nat)) (i : Nat) :
    (addStep c ts i).1 + pendingSum (addStep c ts i).2 = c + pendingSum ts := by
  induction ts generalizing i c with
  | nil => simp [addStep]
  | cons t ts ih =>
    cases i with
    | zero =>
      cases t with
      | nil => simp [addStep]
      | cons a p => simp [addStep, pendingSum]; omega
    | succ i =>
      have := ih c i
      simp only [addStep, pendingSum, List.map_cons, List.sum_cons] at this ⊢
      omega

/-- **counters_exact** — whatever the schedule, counter + still-pending adds = initial + all adds;
    in particular when every thread has finished the counter equals the true total. -/
theorem adds_exact (c : Nat) (ts : List (List Nat)) (sched : List Nat) :
    (runAdds c ts sched).1 + pendingSum (runAdds c ts sched).2 = c + pendingSum ts := by
  induction sched generalizing c ts with
  | nil => simp [runAdds]
  | cons i sched ih =>
    simp only [runAdds]
    rw [ih, addStep_conserves]

theorem adds_exact_finished (c : Nat) (ts : List (List Nat)) (sched : List Nat)
    (hfin : ∀ p ∈ (runAdds c ts sched).2, p = []) : (runAdds c ts sched).1 = c + pendingSum ts := by
  have h := adds_exact c ts sched
  have h0 : pendingSum (runAdds c ts sched).2 = 0 := by
    unfold pendingSum
    have : ∀ l : List (List Nat), (∀ p ∈ l, p = []) → (l.map List.sum).sum = 0 := by
      intro l
      induction l with
      | nil => intro _; rfl
      | cons a l ih =>
        intro hl
        have ha : a = [] := hl a (by simp)
        simp [ha, ih (fun p hp => hl p (by simp [hp]))]
    exact this _ hfin
  omega

theorem pendingSum_ones {α : Type} (l : List α) : pendingSum (l.map fun _ => [1]) = l.length := by
  induction l with
  | nil => rfl
  | cons a l ih => simp only [pendingSum, List.map_cons, List.sum_cons, List.sum_nil, List.length_cons] at ih ⊢; omega

theorem pendingSum_singletons (l : List Nat) : pendingSum (l.map fun n => [n]) = l.sum := by
  induction l with
  | nil => rfl
  | cons a l ih => simp only [pendingSum, List.map_cons, List.sum_cons, List.sum_nil] at ih ⊢; omega

/-! ## best-value update (min / max query size) -/

inductive PC (V : Type) where
  | start | loaded (r : V) | fin
  deriving DecidableEq, Repr

structure Thr (V : Type) where
  val : V
  pc : PC V
  deriving DecidableEq, Repr

variable {V : Type} [DecidableEq V]

/-- one micro-step of a thread against the shared value `cur`.
    `cas = true`: the compare-and-swap loop; `cas = false`: plain `load … store`. -/
def stepThr (rank : V → Nat) (cas : Bool) (cur : V) (t : Thr V) : V × Thr V :=
  match t.pc with
  | .start => if rank cur < rank t.val then (cur, { t with pc := .loaded cur }) else (cur, { t with pc := .fin })
  | .loaded r =>
    if cas then (if cur = r then (t.val, { t with pc := .fin }) else (cur, { t with pc := .start }))
    else (t.val, { t with pc := .fin })
  | .fin => (cur, t)

def stepAt (rank : V → Nat) (cas : Bool) (cur : V) : List (Thr V) → Nat → V × List (Thr V)
  | [], _ => (cur, [])
  | t :: ts, 0 => let (c, t') := stepThr rank cas cur t; (c, t' :: ts)
  | t :: ts, i+1 => let (c, ts') := stepAt rank cas cur ts i; (c, t :: ts')

def run (rank : V → Nat) (cas : Bool) (cur : V) (ts : List (Thr V)) : List Nat → V × List (Thr V)
  | [] => (cur, ts)
  | i :: sched => let (c, ts') := stepAt rank cas cur ts i; run rank cas c ts' sched

def initThreads (vals : List V) : List (Thr V) := vals.map fun v => { val := v, pc := .start }

/-- per-thread invariant relative to the shared value -/
def Good (rank : V → Nat) (cur : V) (t : Thr V) : Prop :=
  match t.pc with
  | .start => True
  | .loaded r => rank r ≤ rank cur ∧ rank r < rank t.val
  | .fin => rank t.val ≤ rank cur

omit [DecidableEq V] in
theorem good_mono (rank : V → Nat) {cur cur' : V} (h : rank cur ≤ rank cur') {t : Thr V}
    (hg : Good rank cur t) : Good rank cur' t := by
  unfold Good at *
  cases hp : t.pc with
  | start => simp
  | loaded r => rw [hp] at hg; simp only at hg ⊢; omega
  | fin => rw [hp] at hg; simp only at hg ⊢; omega

theorem stepThr_spec (rank : V → Nat) (cur : V) (t : Thr V) (hg : Good rank cur t) :
    rank cur ≤ rank (stepThr rank true cur t).1 ∧ Good rank (stepThr rank true cur t).1 (stepThr rank true cur t).2 ∧
    (stepThr rank true cur t).2.val = t.val ∧
    ((stepThr rank true cur t).1 = cur ∨ (stepThr rank true cur t).1 = t.val) := by
  unfold stepThr
  cases hp : t.pc with
  | start =>
    simp only
    split
    · rename_i hlt; simp [Good, hlt]
    · rename_i hge; simp [Good]; omega
  | loaded r =>
    unfold Good at hg; rw [hp] at hg; simp only at hg
    simp only [if_true]
    split
    · rename_i heq; subst heq; simp [Good]; omega
    · simp [Good]
  | fin =>
    unfold Good at hg; rw [hp] at hg
    simp [Good, hp]; exact hg

theorem stepAt_spec (rank : V → Nat) (cur : V) (ts : List (Thr V)) (i : Nat)
    (hg : ∀ t ∈ ts, Good rank cur t) :
    rank cur ≤ rank (stepAt rank true cur ts i).1 ∧
    (∀ t ∈ (stepAt rank true cur ts i).2, Good rank (stepAt rank true cur ts i).1 t) ∧
    (stepAt rank true cur ts i).2.map (·.val) = ts.map (·.val) ∧
    ((stepAt rank true cur ts i).1 = cur ∨ (stepAt rank true cur ts i).1 ∈ ts.map (·.val)) := by
  induction ts generalizing i with
  | nil => simp [stepAt]
  | cons t ts ih =>
    cases i with
    | zero =>
      have hs := stepThr_spec rank cur t (hg t (by simp))
      simp only [stepAt]
      refine ⟨hs.1, ?_, ?_, ?_⟩
      · intro u hu
        simp at hu
        rcases hu with rfl | hu
        · exact hs.2.1
        · exact good_mono rank hs.1 (hg u (by simp [hu]))
      · simp [hs.2.2.1]
      · rcases hs.2.2.2 with h | h
        · exact Or.inl h
        · exact Or.inr (by simp [h])
    | succ i =>
      have hi := ih i (fun u hu => hg u (by simp [hu]))
      simp only [stepAt]
      refine ⟨hi.1, ?_, ?_, ?_⟩
      · intro u hu
        simp at hu
        rcases hu with rfl | hu
        · exact good_mono rank hi.1 (hg _ (by simp))
        · exact hi.2.1 u hu
      · simp [hi.2.2.1]
      · rcases hi.2.2.2 with h | h
        · exact Or.inl h
        · exact Or.inr (by simp at h ⊢; exact Or.inr h)

/-- invariant of every reachable state -/
theorem run_inv (rank : V → Nat) (init : V) (vals : List V) :
    ∀ (sched : List Nat) (cur : V) (ts : List (Thr V)),
      (∀ t ∈ ts, Good rank cur t) → ts.map (·.val) = vals → (cur = init ∨ cur ∈ vals) →
      (∀ t ∈ (run rank true cur ts sched).2, Good rank (run rank true cur ts sched).1 t) ∧
      (run rank true cur ts sched).2.map (·.val) = vals ∧
      ((run rank true cur ts sched).1 = init ∨ (run rank true cur ts sched).1 ∈ vals) := by
  intro sched
  induction sched with
  | nil => intro cur ts hg hv hm; exact ⟨hg, hv, hm⟩
  | cons i sched ih =>
    intro cur ts hg hv hm
    have hs := stepAt_spec rank cur ts i hg
    simp only [run]
    apply ih
    · exact hs.2.1
    · rw [hs.2.2.1, hv]
    · rcases hs.2.2.2 with h | h
      · rw [h]; exact hm
      · exact Or.inr (by rw [← hv]; exact h)

/-- **minmax_exact** — for every finite set of threads and *every* schedule: once all threads have
    finished, the shared value is the initial value or one of the recorded values, and no recorded
    value ranks above it. -/
theorem cas_exact (rank : V → Nat) (init : V) (vals : List V) (sched : List Nat)
    (hfin : ∀ t ∈ (run rank true init (initThreads vals) sched).2, t.pc = .fin) :
    ((run rank true init (initThreads vals) sched).1 = init ∨ (run rank true init (initThreads vals) sched).1 ∈ vals) ∧
    ∀ v ∈ vals, rank v ≤ rank (run rank true init (initThreads vals) sched).1 := by
  have h := run_inv rank init vals sched init (initThreads vals)
    (by intro t ht; simp [initThreads] at ht; obtain ⟨v, _, rfl⟩ := ht; simp [Good])
    (by simp [initThreads, Function.comp_def]) (Or.inl rfl)
  refine ⟨h.2.2, ?_⟩
  intro v hv
  rw [← h.2.1] at hv
  obtain ⟨t, ht, rfl⟩ := List.mem_map.mp hv
  have hg := h.1 t ht
  have hp := hfin t ht
  unfold Good at hg; rw [hp] at hg
  exact hg

/-- max query size: rank = id, initial 0 -/
theorem max_exact (sizes : List Nat) (sched : List Nat)
    (hfin : ∀ t ∈ (run id true 0 (initThreads sizes) sched).2, t.pc = .fin) :
    (∀ s ∈ sizes, s ≤ (run id true 0 (initThreads sizes) sched).1) ∧
    ((run id true 0 (initThreads sizes) sched).1 = 0 ∨ (run id true 0 (initThreads sizes) sched).1 ∈ sizes) :=
  ⟨(cas_exact id 0 sizes sched hfin).2, (cas_exact id 0 sizes sched hfin).1⟩

/-- min query size with the "-1 = not set" sentinel: values are `Int`, ranked so that the sentinel is
    worst and smaller sizes are better (sizes are bounded by 2^63) -/
def minRank (v : Int) : Nat := if v < 0 then 0 else (9223372036854775808 - v).toNat

/-- the Go comparison `currentMin == -1 || size < currentMin` is the rank comparison -/
theorem minRank_is_go_test (cur size : Int) (hs : 0 ≤ size) (hs2 : size < 9223372036854775808)
    (hc : cur = -1 ∨ (0 ≤ cur ∧ cur < 9223372036854775808)) :
    (minRank cur < minRank size) ↔ (cur = -1 ∨ size < cur) := by
  unfold minRank
  have h0 : ¬ size < 0 := by omega
  rcases hc with rfl | ⟨h1, h2⟩
  · simp only [h0, if_false]
    constructor
    · intro _; simp
    · intro _; simp; omega
  · have h3 : ¬ cur < 0 := by omega
    simp only [h0, h3, if_false]
    constructor
    · intro h; right; omega
    · intro h; rcases h with h | h <;> omega

theorem min_exact (sizes : List Int) (sched : List Nat)
    (hfin : ∀ t ∈ (run minRank true (-1) (initThreads sizes) sched).2, t.pc = .fin) :
    (∀ s ∈ sizes, minRank s ≤ minRank (run minRank true (-1) (initThreads sizes) sched).1) ∧
    ((run minRank true (-1) (initThreads sizes) sched).1 = -1 ∨ (run minRank true (-1) (initThreads sizes) sched).1 ∈ sizes) :=
  ⟨(cas_exact minRank (-1) sizes sched hfin).2, (cas_exact minRank (-1) sizes sched hfin).1⟩

/-- the plain load/store protocol loses an update: sizes 9 and 5, schedule load₁ load₂ store₁ store₂ -/
theorem lost_update_counterexample :
    (run id false 0 (initThreads [9, 5]) [0, 1, 0, 1]).1 = 5 ∧
    (run id false 0 (initThreads [9, 5]) [0, 1, 0, 1]).2.all (fun t => t.pc == .fin) = true := by decide

/-- …while the CAS protocol on the same schedule retries and ends at 9 once everyone has finished -/
example : (run id true 0 (initThreads [9, 5]) [0, 1, 0, 1, 1, 1]).1 = 9 ∧
    (run id true 0 (initThreads [9, 5]) [0, 1, 0, 1, 1, 1]).2.all (fun t => t.pc == .fin) = true := by decide

/-! ## isolation: holders that share no state -/

/-- `n` holders, each with private state; an operation of holder `i` touches only component `i` -/
def stepHolder {S Op : Type} (f : S → Op → S) (st : Nat → S) (e : Nat × Op) : Nat → S :=
  fun j => if j = e.1 then f (st j) e.2 else st j

def opsOf {Op : Type} (i : Nat) (sched : List (Nat × Op)) : List Op :=
  (sched.filter (fun e => e.1 == i)).map (·.2)

/-- **isolation** — under every interleaving, each holder's final state is what its own operations
    produce when run alone, in order -/
theorem isolation {S Op : Type} (f : S → Op → S) (sched : List (Nat × Op)) (st : Nat → S) (i : Nat) :
    (sched.foldl (stepHolder f) st) i = (opsOf i sched).foldl f (st i) := by
  induction sched generalizing st with
  | nil => simp [opsOf]
  | cons e sched ih =>
    simp only [List.foldl_cons]
    rw [ih]
    by_cases h : e.1 = i
    · subst h; simp [opsOf, stepHolder]
    · have h' : (e.1 == i) = false := by simpa using h
      have h2 : ¬ i = e.1 := fun hh => h hh.symm
      simp [opsOf, stepHolder, h', h2]

end GoSQLXModel.Metrics
