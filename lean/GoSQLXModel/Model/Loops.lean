/-!
# The statement loops (parser.go Parse / ParseWithPositions / ParseContext, recovery.go) over an
abstract statement oracle

`kind i` is the class of token `i` as the loops see it (`cur`), `n = len(tokens)`, and
`stmt p = (ok, stop, code)` is what `parseStatement` does when started at `p`: success or failure,
the position where it stops, and the error code.  The frame assumptions are
`fa2 : p ≤ stop` (never moves backwards) and `fa3 : ok → p < stop` (success consumes a token).
Past the end the Go parser keeps the last token in `currentToken` (advance() does not clear it);
`kind` is therefore consulted at `stop` positions ≥ n as well — the harness passes the stale kind.
-/
namespace GoSQLXModel.Loops

inductive Kind where | semi | eof | start | other
  deriving DecidableEq, Repr, Inhabited

structure Out where
  ok : Bool
  stop : Nat
  code : Nat
  deriving Repr, DecidableEq

structure Input where
  kind : Nat → Kind
  n : Nat
  stmt : Nat → Out

/-- result of a strict (non-recovering) entry point: statement start indices, or error code + position -/
inductive Res where
  | ok (stmts : List Nat)
  | err (code : Nat) (pos : Nat)
  deriving Repr, DecidableEq

def E2004 : Nat := 2004
def E2005 : Nat := 2005

variable (I : Input)

/-- loop condition `p.currentPos < len(tokens) && !p.isType(EOF)` -/
def more (pos : Nat) : Bool := decide (pos < I.n) && !(I.kind pos == .eof)

/-- `Parser.Parse` -/
def parseLoop (strict : Bool) : Nat → Nat → List Nat → Option Res
  | 0, _, _ => none
  | f+1, pos, acc =>
    if more I pos then
      if I.kind pos = .semi then
        if strict then some (.err E2004 pos) else parseLoop strict f (pos+1) acc
      else
        let o := I.stmt pos
        if o.ok then
          let pos' := if I.kind o.stop = .semi then o.stop + 1 else o.stop
          parseLoop strict f pos' (acc ++ [pos])
        else some (.err o.code pos)
    else if acc.isEmpty then some (.err (if strict then E2004 else E2005) pos) else some (.ok acc)

/-- `Parser.ParseWithPositions`: the same loop (only error *locations* differ, which `Res` does not carry) -/
def parseWithPositionsLoop (strict : Bool) : Nat → Nat → List Nat → Option Res
  | 0, _, _ => none
  | f+1, pos, acc =>
    if more I pos then
      if I.kind pos = .semi then
        if strict then some (.err E2004 pos) else parseWithPositionsLoop strict f (pos+1) acc
      else
        let o := I.stmt pos
        if o.ok then
          let pos' := if I.kind o.stop = .semi then o.stop + 1 else o.stop
          parseWithPositionsLoop strict f pos' (acc ++ [pos])
        else some (.err o.code pos)
    else if acc.isEmpty then some (.err (if strict then E2004 else E2005) pos) else some (.ok acc)

/-- result of a context-aware entry point -/
inductive CRes where
  | done (r : Res)
  | cancelled (atPoll : Nat)
  deriving Repr, DecidableEq

/-- `Parser.ParseContext`: `fires k` says whether the k-th poll observes a done context; `polls p` is the
    number of polls the statement started at `p` performs before it returns (the statement's own
    observation of a done context is folded into `cancelled`) -/
def parseContextLoop (strict : Bool) (fires : Nat → Bool) (polls : Nat → Nat) :
    Nat → Nat → Nat → List Nat → Option CRes
  | 0, _, _, _ => none
  | f+1, k, pos, acc =>
    if more I pos then
      if fires k then some (.cancelled k)
      else if I.kind pos = .semi then
        if strict then some (.done (.err E2004 pos)) else parseContextLoop strict fires polls f (k+1) (pos+1) acc
      else
        -- polls k+1 … k+polls pos happen inside the statement
        match (List.range (polls pos)).find? (fun j => fires (k + 1 + j)) with
        | some j => some (.cancelled (k + 1 + j))
        | none =>
          let o := I.stmt pos
          if o.ok then
            let pos' := if I.kind o.stop = .semi then o.stop + 1 else o.stop
            parseContextLoop strict fires polls f (k + 1 + polls pos) pos' (acc ++ [pos])
          else some (.done (.err o.code pos))
    else if acc.isEmpty then some (.done (.err (if strict then E2004 else E2005) pos)) else some (.done (.ok acc))

/-- `synchronize` -/
def sync : Nat → Nat → Option Nat
  | 0, _ => none
  | f+1, pos =>
    if more I pos then
      if I.kind pos = .semi then some (pos+1)
      else if I.kind pos = .start then some pos
      else sync f (pos+1)
    else some pos

/-- recovery loop: (statement starts, error starts) -/
def recLoop : Nat → Nat → List Nat → List Nat → Option (List Nat × List Nat)
  | 0, _, _, _ => none
  | f+1, pos, st, er =>
    if more I pos then
      if I.kind pos = .semi then recLoop f (pos+1) st er
      else
        let o := I.stmt pos
        if o.ok then
          let pos' := if I.kind o.stop = .semi then o.stop + 1 else o.stop
          recLoop f pos' (st ++ [pos]) er
        else
          let p1 := if o.stop = pos then pos + 1 else o.stop
          match sync I f p1 with
          | none => none
          | some p2 => recLoop f p2 st (er ++ [pos])
    else some (st, er)

/-! ## C07: the loop copies agree -/

theorem parse_eq_withPositions (strict : Bool) (f pos : Nat) (acc : List Nat) :
    parseWithPositionsLoop I strict f pos acc = parseLoop I strict f pos acc := by
  induction f generalizing pos acc with
  | zero => rfl
  | succ f ih => simp only [parseWithPositionsLoop, parseLoop, ih]

/-- a context that never fires: ParseContext returns exactly what Parse returns -/
theorem parseContext_never_eq_parse (strict : Bool) (polls : Nat → Nat) (f k pos : Nat) (acc : List Nat) :
    parseContextLoop I strict (fun _ => false) polls f k pos acc = (parseLoop I strict f pos acc).map CRes.done := by
  induction f generalizing k pos acc with
  | zero => rfl
  | succ f ih =>
    simp only [parseContextLoop, parseLoop]
    have hfind : ∀ m, (List.range m).find? (fun j => (fun _ : Nat => false) (k + 1 + j)) = none := by
      intro m; simp
    split
    · simp only [Bool.false_eq_true, if_false]
      split
      · split
        · rfl
        · exact ih _ _ _
      · rw [hfind]
        simp only
        split
        · exact ih _ _ _
        · rfl
    · split <;> rfl

/-- a context that is done at poll `k`, observed at the loop head: cancelled, no result -/
theorem parseContext_cancel_at_head (strict : Bool) (fires : Nat → Bool) (polls : Nat → Nat)
    (f k pos : Nat) (acc : List Nat) (hm : more I pos = true) (hf : fires k = true) :
    parseContextLoop I strict fires polls (f+1) k pos acc = some (.cancelled k) := by
  simp [parseContextLoop, hm, hf]

/-! ## C12: recovery terminates; agrees with the strict loop -/

theorem lt_n_of_more {pos : Nat} (h : more I pos = true) : pos < I.n := by
  simp [more] at h; exact h.1

theorem sync_ge (f p q : Nat) (h : sync I f p = some q) : p ≤ q := by
  induction f generalizing p with
  | zero => simp [sync] at h
  | succ f ih =>
    simp only [sync] at h
    split at h
    · split at h
      · simp at h; omega
      · split at h
        · simp at h; omega
        · have := ih _ h; omega
    · simp at h; omega

theorem sync_total (f p : Nat) (h : I.n + 1 ≤ f + p) (hf : 0 < f) : ∃ q, sync I f p = some q := by
  induction f generalizing p with
  | zero => omega
  | succ f ih =>
    simp only [sync]
    split
    · rename_i hm
      have hlt := lt_n_of_more I hm
      split
      · exact ⟨_, rfl⟩
      · split
        · exact ⟨_, rfl⟩
        · apply ih (p+1) (by omega)
          omega
    · exact ⟨_, rfl⟩

structure Frame : Prop where
  fa2 : ∀ p, p ≤ (I.stmt p).stop
  fa3 : ∀ p, (I.stmt p).ok = true → p < (I.stmt p).stop

/-- **C12.recovery_terminates**: with fuel `n + 2` the recovery loop always returns -/
theorem recLoop_total (hF : Frame I) (f pos : Nat) (st er : List Nat) (h : I.n + 2 ≤ f + pos) (hf : 0 < f) :
    ∃ r, recLoop I f pos st er = some r := by
  induction f generalizing pos st er with
  | zero => omega
  | succ f ih =>
    simp only [recLoop]
    split
    · rename_i hm
      have hlt := lt_n_of_more I hm
      split
      · exact ih _ _ _ (by omega) (by omega)
      · split
        · rename_i hok
          have := hF.fa3 pos hok
          apply ih
          · split <;> omega
          · omega
        · have h2 := hF.fa2 pos
          obtain ⟨q, hq⟩ := sync_total I f (if (I.stmt pos).stop = pos then pos + 1 else (I.stmt pos).stop)
            (by split <;> omega) (by omega)
          have hge := sync_ge I _ _ _ hq
          simp only [hq]
          apply ih
          · split at hge <;> omega
          · omega
    · exact ⟨_, rfl⟩

theorem recover_terminates (hF : Frame I) (st er : List Nat) : ∃ r, recLoop I (I.n + 2) 0 st er = some r :=
  recLoop_total I hF _ _ _ _ (by omega) (by omega)

/-- the strict loop terminates too -/
theorem parseLoop_total (hF : Frame I) (strict : Bool) (f pos : Nat) (acc : List Nat) (h : I.n + 1 ≤ f + pos) (hf : 0 < f) :
    ∃ r, parseLoop I strict f pos acc = some r := by
  induction f generalizing pos acc with
  | zero => omega
  | succ f ih =>
    simp only [parseLoop]
    split
    · rename_i hm
      have hlt := lt_n_of_more I hm
      split
      · split
        · exact ⟨_, rfl⟩
        · exact ih _ _ (by omega) (by omega)
      · split
        · rename_i hok
          have := hF.fa3 pos hok
          apply ih
          · split <;> omega
          · omega
        · exact ⟨_, rfl⟩
    · split <;> exact ⟨_, rfl⟩

theorem rec_errs_grow (f pos : Nat) (st er : List Nat) (r) (h : recLoop I f pos st er = some r) :
    ∃ d, r.2 = er ++ d := by
  induction f generalizing pos st er with
  | zero => simp [recLoop] at h
  | succ f ih =>
    simp only [recLoop] at h
    split at h
    · split at h
      · exact ih _ _ _ h
      · split at h
        · exact ih _ _ _ h
        · split at h
          · simp at h
          · obtain ⟨d, hd⟩ := ih _ _ _ h; exact ⟨pos :: d, by simp [hd]⟩
    · simp at h; exact ⟨[], by simp [← h]⟩

/-- if the (non-strict) strict-parsing loop succeeds, recovery finds the same statements and no error -/
theorem parse_ok_rec (f pos : Nat) (acc l : List Nat) (h : parseLoop I false f pos acc = some (.ok l)) :
    ∃ d, l = acc ++ d ∧ ∀ st er, recLoop I f pos st er = some (st ++ d, er) := by
  induction f generalizing pos acc with
  | zero => simp [parseLoop] at h
  | succ f ih =>
    simp only [parseLoop] at h
    split at h
    · rename_i hm
      split at h
      · rename_i hs
        simp only [Bool.false_eq_true, if_false] at h
        obtain ⟨d, hd, hr⟩ := ih _ _ h
        exact ⟨d, hd, fun st er => by simp [recLoop, hm, hs, hr]⟩
      · rename_i hns
        split at h
        · rename_i hok
          obtain ⟨d, hd, hr⟩ := ih _ _ h
          refine ⟨pos :: d, by simp [hd], fun st er => ?_⟩
          simp only [recLoop, hm, hns, hok, if_true, if_false]
          simpa using hr (st ++ [pos]) er
        · simp at h
    · rename_i hm
      split at h
      · simp at h
      · simp at h; subst h
        exact ⟨[], by simp, fun st er => by simp [recLoop, hm]⟩

/-- if the strict-parsing loop fails at statement `p` (with a statement error), every returning recovery
    run lists `p` among its errors -/
theorem parse_err_rec (f pos : Nat) (acc : List Nat) (c p : Nat)
    (h : parseLoop I false f pos acc = some (.err c p)) (hm : more I p = true) :
    ∀ f' st er r, recLoop I f' pos st er = some r → p ∈ r.2 := by
  induction f generalizing pos acc with
  | zero => simp [parseLoop] at h
  | succ f ih =>
    simp only [parseLoop] at h
    intro f' st er r hr
    cases f' with
    | zero => simp [recLoop] at hr
    | succ f' =>
    simp only [recLoop] at hr
    split at h
    · rename_i hmp
      simp only [hmp, if_true] at hr
      split at h
      · rename_i hs
        simp only [hs, if_true, Bool.false_eq_true, if_false] at hr h
        exact ih _ _ h _ _ _ _ hr
      · rename_i hns
        simp only [hns, if_false] at hr
        split at h
        · rename_i hok
          simp only [hok, if_true] at hr
          exact ih _ _ h _ _ _ _ hr
        · rename_i hnok
          simp at h; obtain ⟨_, rfl⟩ := h
          simp only [hnok] at hr
          cases hs : sync I f' (if (I.stmt pos).stop = pos then pos + 1 else (I.stmt pos).stop) with
          | none => rw [hs] at hr; simp at hr
          | some p2 =>
            rw [hs] at hr
            obtain ⟨d, hd⟩ := rec_errs_grow I _ _ _ _ _ hr
            simp [hd]
    · rename_i hmp
      split at h
      · simp at h; obtain ⟨_, rfl⟩ := h
        rw [hm] at hmp; exact absurd rfl hmp
      · simp at h

/-- **C07/C12 iff-clause** (non-strict): when the strict loop returns `ok`, recovery (same fuel) reports no
    error; when it fails inside the token stream, recovery reports at least that error. -/
theorem recovery_no_error_of_parse_ok (f : Nat) (l : List Nat) (h : parseLoop I false f 0 [] = some (.ok l)) :
    recLoop I f 0 [] [] = some (l, []) := by
  obtain ⟨d, hd, hr⟩ := parse_ok_rec I f 0 [] l h
  have := hr [] []
  simpa [hd] using this

theorem recovery_error_of_parse_err (f : Nat) (c p : Nat) (h : parseLoop I false f 0 [] = some (.err c p))
    (hm : more I p = true) (f' : Nat) (r) (hr : recLoop I f' 0 [] [] = some r) : r.2 ≠ [] := by
  have := parse_err_rec I f 0 [] c p h hm f' [] [] r hr
  intro h0; rw [h0] at this; simp at this

end GoSQLXModel.Loops
