/-!
# Abstract file system with crashes, and the two in-place write protocols

A disk maps paths to optional contents.  A process is a list of operations; a *crash* stops it after any
number of completed operations, and a `write` that is in progress may have persisted any prefix of its bytes.
(The same model covers a failing write: the failure happens after some prefix, then the process stops.)
-/
namespace GoSQLXModel.Fs

abbrev Bytes := List UInt8
abbrev Disk := String → Option Bytes

inductive Op where
  | create (p : String)              -- os.CreateTemp / O_CREATE: empty file
  | truncate (p : String)            -- O_TRUNC on an existing path
  | write (p : String) (bs : Bytes)  -- append bytes
  | sync (p : String) | close (p : String) | chmod (p : String)
  | rename (src dst : String)        -- atomic
  | remove (p : String)
  deriving Repr

def upd (d : Disk) (p : String) (v : Option Bytes) : Disk := fun q => if q = p then v else d q

def exec (d : Disk) : Op → Disk
  | .create p => upd d p (some [])
  | .truncate p => upd d p (some [])
  | .write p bs => upd d p (some ((d p).getD [] ++ bs))
  | .sync _ => d | .close _ => d | .chmod _ => d
  | .rename s t => upd (upd d t (d s)) s none
  | .remove p => upd d p none

def run (d : Disk) (ops : List Op) : Disk := ops.foldl exec d

/-- the disks a crash can leave: all ops before index `k` done, and if op `k` is a write, any prefix of it -/
def crashStates (d : Disk) (ops : List Op) : List Disk :=
  (List.range (ops.length + 1)).flatMap fun k =>
    let done := run d (ops.take k)
    match ops[k]? with
    | some (.write p bs) => (List.range (bs.length + 1)).map fun j => exec done (.write p (bs.take j))
    | _ => [done]

/-- protocol A (the repaired code): temp file in the same directory, write, sync, close, chmod, rename -/
def atomicReplace (target tmp : String) (new : Bytes) : List Op :=
  [.create tmp, .write tmp new, .sync tmp, .close tmp, .chmod tmp, .rename tmp target]

/-- protocol B (os.WriteFile on the original path): truncate, write -/
def truncateWrite (target : String) (new : Bytes) : List Op := [.truncate target, .write target new, .close target]

theorem run_append (d : Disk) (a b : List Op) : run d (a ++ b) = run (run d a) b := by
  simp [run, List.foldl_append]

/-- **Fs.atomic_replace_safe** — whatever the crash point (after any operation, in the middle of the write after
    any number of bytes), the target holds the complete old or the complete new content. -/
theorem atomic_replace_safe (d : Disk) (target tmp : String) (new : Bytes) (hne : tmp ≠ target) :
    ∀ s ∈ crashStates d (atomicReplace target tmp new), s target = d target ∨ s target = some new := by
  intro s hs
  simp only [crashStates, atomicReplace, List.mem_flatMap, List.mem_range] at hs
  obtain ⟨k, hk, hs⟩ := hs
  have hk' : k < 7 := by simpa using hk
  have hnt : ¬ target = tmp := fun h => hne h.symm
  -- seven crash points
  match k, hk' with
  | 0, _ => simp [run] at hs; subst hs; exact Or.inl rfl
  | 1, _ =>
    simp only [List.take, run, List.foldl] at hs
    simp at hs
    obtain ⟨j, _, rfl⟩ := hs
    left; simp [exec, upd, hnt]
  | 2, _ => simp [run, exec, List.take] at hs; subst hs; simp [upd, hnt]
  | 3, _ => simp [run, exec, List.take] at hs; subst hs; simp [upd, hnt]
  | 4, _ => simp [run, exec, List.take] at hs; subst hs; simp [upd, hnt]
  | 5, _ => simp [run, exec, List.take] at hs; subst hs; simp [upd, hnt]
  | 6, _ => simp [run, exec, List.take] at hs; subst hs; simp [upd, hnt]

/-- after the protocol has run to completion the target holds the new content and the temp file is gone -/
theorem atomic_replace_done (d : Disk) (target tmp : String) (new : Bytes) (hne : tmp ≠ target) :
    run d (atomicReplace target tmp new) target = some new ∧ run d (atomicReplace target tmp new) tmp = none := by
  have hnt : ¬ target = tmp := fun h => hne h.symm
  simp [run, atomicReplace, exec, upd, hnt]

/-- **Fs.truncate_write_unsafe** — with truncate-then-write there is a crash point that leaves neither the old
    nor the new content, as soon as both are non-empty -/
theorem truncate_write_unsafe (d : Disk) (target : String) (old new : Bytes) (hold : d target = some old)
    (ho : old ≠ []) (hn : new ≠ []) :
    ∃ s ∈ crashStates d (truncateWrite target new), s target ≠ some old ∧ s target ≠ some new := by
  refine ⟨exec (exec d (.truncate target)) (.write target (new.take 0)), ?_, ?_⟩
  · simp only [crashStates, truncateWrite, List.mem_flatMap, List.mem_range]
    refine ⟨1, by simp, ?_⟩
    simp only [List.take, run, List.foldl]
    simp only [List.getElem?_cons_succ, List.getElem?_cons_zero, List.mem_map, List.mem_range]
    exact ⟨0, by omega, rfl⟩
  · simp only [exec, upd, List.take_zero, List.append_nil, if_true, Option.getD_some, ne_eq, Option.some.injEq]
    exact ⟨fun h => ho h.symm, fun h => hn h.symm⟩

/-- check-only modes: an operation list that writes nothing leaves every path as it was -/
def isReadOnly : List Op → Bool
  | [] => true
  | .sync _ :: r => isReadOnly r
  | .close _ :: r => isReadOnly r
  | _ :: _ => false

theorem read_only_preserves (d : Disk) (ops : List Op) (h : isReadOnly ops = true) : run d ops = d := by
  induction ops generalizing d with
  | nil => rfl
  | cons o r ih =>
    cases o <;> simp [isReadOnly] at h <;> simpa [run, exec] using ih d h

end GoSQLXModel.Fs
