/-!
# The expression ladder of the parser (pkg/sql/parser/expressions.go), core sub-language

`parseExpression` (OR, left-assoc) → `parseAndExpression` (AND) → `parseComparisonExpression` (one optional
comparison, both operands at the `||` level) → `parseStringConcatExpression` (`||`) → `parseAdditiveExpression` (+ −)
→ `parseMultiplicativeExpression` (* / %) → `parseJSONExpression` → `parsePrimaryExpression` (identifier, literals,
parenthesised expression, `NOT` with a comparison-level operand).

Tokens are classified (`TK`) by a table of token-type numbers regenerated from the source.  A token that would make the
real parser enter a production this model does not cover (BETWEEN, LIKE, IN, IS, `::`, JSON operators, function
calls, qualified names, tuples, CASE, CAST, EXISTS, sub-queries, …) yields `unsupported`, never a guess; the
correspondence skips those inputs.  The depth counter of `parseExpression` / `NOT` is modelled (limit 100).
-/
namespace GoSQLXModel.ExprParse

inductive TK where
  | or | and | not | cmp | cat | plus | minus | star | div | mod
  | lparen | rparen | ident | num | str | bool | null
  | stop          -- ends an expression: EOF, `;`, `,`
  | cont          -- continues a primary in an unmodelled way: `::`, JSON operators, `[`, `.`
  | other         -- any other token: may start or continue a production this model does not cover
  deriving DecidableEq, Repr

structure PTok where
  k : TK
  lit : String
  deriving DecidableEq, Repr

inductive Ex where
  | ident (n : String)
  | num (v : String)
  | str (v : String)
  | bool (v : String)
  | null
  | bin (op : String) (l r : Ex)
  | not (e : Ex)
  deriving DecidableEq, Repr

inductive Res where
  | ok (e : Ex) (rest : List PTok)
  | err (code : String)
  | unsupported
  | oof
  deriving DecidableEq, Repr

def maxDepth : Nat := 100

/-- tokens after which the real parser may keep going in a way this model does not cover -/
def continuesUnmodelled (k : TK) : Bool := k == .other || k == .not || k == .cont

/-- parseJSONExpression after a primary: `::`, a JSON operator, `[` are not modelled -/
def afterPrimary (e : Ex) (rest : List PTok) : Res :=
  match rest with
  | ⟨.cont, _⟩ :: _ => .unsupported
  | _ => .ok e rest

mutual
/-- parseExpression: the depth guard, then the OR level one deeper -/
def pExpr : Nat → Nat → List PTok → Res
  | 0, _, _ => .oof
  | f+1, d, ts => if d + 1 > maxDepth then .err "E2007" else pOr f (d + 1) ts
def pOr : Nat → Nat → List PTok → Res
  | 0, _, _ => .oof
  | f+1, d, ts =>
    match pAnd f d ts with
    | .ok l rest => lOr f d l rest
    | r => r
def lOr : Nat → Nat → Ex → List PTok → Res
  | 0, _, _, _ => .oof
  | f+1, d, l, ts =>
    match ts with
    | ⟨.or, op⟩ :: ts' =>
      (match pAnd f d ts' with
       | .ok r rest => lOr f d (.bin op l r) rest
       | r => r)
    | _ => .ok l ts
def pAnd : Nat → Nat → List PTok → Res
  | 0, _, _ => .oof
  | f+1, d, ts =>
    match pCmp f d ts with
    | .ok l rest => lAnd f d l rest
    | r => r
def lAnd : Nat → Nat → Ex → List PTok → Res
  | 0, _, _, _ => .oof
  | f+1, d, l, ts =>
    match ts with
    | ⟨.and, op⟩ :: ts' =>
      (match pCmp f d ts' with
       | .ok r rest => lAnd f d (.bin op l r) rest
       | r => r)
    | _ => .ok l ts
/-- parseComparisonExpression: at most one comparison; NOT / BETWEEN / LIKE / IN / IS here are not modelled -/
def pCmp : Nat → Nat → List PTok → Res
  | 0, _, _ => .oof
  | f+1, d, ts =>
    match pCat f d ts with
    | .ok l (⟨.cmp, op⟩ :: ts') =>
      (match pCat f d ts' with
       | .ok r rest => .ok (.bin op l r) rest
       | r => r)
    | .ok l (⟨k, lit⟩ :: rest) => if continuesUnmodelled k then .unsupported else .ok l (⟨k, lit⟩ :: rest)
    | r => r
def pCat : Nat → Nat → List PTok → Res
  | 0, _, _ => .oof
  | f+1, d, ts =>
    match pAdd f d ts with
    | .ok l rest => lCat f d l rest
    | r => r
def lCat : Nat → Nat → Ex → List PTok → Res
  | 0, _, _, _ => .oof
  | f+1, d, l, ts =>
    match ts with
    | ⟨.cat, op⟩ :: ts' =>
      (match pAdd f d ts' with
       | .ok r rest => lCat f d (.bin op l r) rest
       | r => r)
    | _ => .ok l ts
def pAdd : Nat → Nat → List PTok → Res
  | 0, _, _ => .oof
  | f+1, d, ts =>
    match pMul f d ts with
    | .ok l rest => lAdd f d l rest
    | r => r
def lAdd : Nat → Nat → Ex → List PTok → Res
  | 0, _, _, _ => .oof
  | f+1, d, l, ts =>
    match ts with
    | ⟨.plus, op⟩ :: ts' =>
      (match pMul f d ts' with
       | .ok r rest => lAdd f d (.bin op l r) rest
       | r => r)
    | ⟨.minus, op⟩ :: ts' =>
      (match pMul f d ts' with
       | .ok r rest => lAdd f d (.bin op l r) rest
       | r => r)
    | _ => .ok l ts
def pMul : Nat → Nat → List PTok → Res
  | 0, _, _ => .oof
  | f+1, d, ts =>
    match pPrim f d ts with
    | .ok l rest => lMul f d l rest
    | r => r
def lMul : Nat → Nat → Ex → List PTok → Res
  | 0, _, _, _ => .oof
  | f+1, d, l, ts =>
    match ts with
    | ⟨.star, op⟩ :: ts' => mulStep f d l op ts'
    | ⟨.div, op⟩ :: ts' => mulStep f d l op ts'
    | ⟨.mod, op⟩ :: ts' => mulStep f d l op ts'
    | _ => .ok l ts
def mulStep : Nat → Nat → Ex → String → List PTok → Res
  | 0, _, _, _, _ => .oof
  | f+1, d, l, op, ts' =>
    match ts' with
    | [] => .err "E2002"           -- the operator was the last token of a slice without an end marker
    | _ =>
      match pPrim f d ts' with
      | .ok r rest => lMul f d (.bin op l r) rest
      | r => r
/-- parseJSONExpression ∘ parsePrimaryExpression for the covered primaries -/
def pPrim : Nat → Nat → List PTok → Res
  | 0, _, _ => .oof
  | f+1, d, ts =>
    match ts with
    | ⟨.ident, n⟩ :: rest =>
      (match rest with
       | ⟨.lparen, _⟩ :: _ => .unsupported     -- function call
       | _ => afterPrimary (.ident n) rest)
    | ⟨.star, _⟩ :: rest => afterPrimary (.ident "*") rest
    | ⟨.str, v⟩ :: rest => afterPrimary (.str v) rest
    | ⟨.num, v⟩ :: rest => afterPrimary (.num v) rest
    | ⟨.bool, v⟩ :: rest => afterPrimary (.bool v) rest
    | ⟨.null, _⟩ :: rest => afterPrimary .null rest
    | ⟨.lparen, _⟩ :: rest =>
      (match rest with
       | ⟨.other, _⟩ :: _ => .unsupported      -- sub-query or other unmodelled opener
       | _ =>
         match pExpr f d rest with
         | .ok e (⟨.rparen, _⟩ :: rest') => afterPrimary e rest'
         | .ok _ (⟨.stop, ","⟩ :: _) => .unsupported   -- tuple
         | .ok _ _ => .err "E2002"
         | r => r)
    | ⟨.not, _⟩ :: rest =>
      (match rest with
       | ⟨.other, _⟩ :: _ => .unsupported      -- NOT EXISTS and friends
       | _ =>
         if d + 1 > maxDepth then .err "E2007"
         else
           match pCmp f (d + 1) rest with
           | .ok e rest' => .ok (.not e) rest'
           | r => r)
    | ⟨.other, _⟩ :: _ => .unsupported
    | _ => .err "E2001"
end

end GoSQLXModel.ExprParse
