/-!
# The expression ladder of the parser (pkg/sql/parser/expressions.go, window.go: parseFunctionCall)

`parseExpression` (OR, left-assoc) → `parseAndExpression` (AND) → `parseComparisonExpression` (left operand at the
`||` level, then at most one of: `[NOT] BETWEEN lo AND hi`, `[NOT] LIKE/ILIKE/REGEXP/RLIKE pattern`, `[NOT] IN (list)`,
`IS [NOT] NULL`, a comparison operator with its right operand) → `parseStringConcatExpression` (`||`) →
`parseAdditiveExpression` (+ −) → `parseMultiplicativeExpression` (* / %) → `parseJSONExpression` →
`parsePrimaryExpression` (identifier, plain function call `f(a, b, …)`, literals, parenthesised expression, `NOT` with
a comparison-level operand).

Tokens carry a class (`TK`, from the token type by a table of numbers regenerated from the source) and their literal;
the tests the real parser makes on the *literal* of the current token (ILIKE / REGEXP / RLIKE, the look-ahead after
NOT, SEPARATOR, MATCH … AGAINST) are made on the literal here too.  A token that would make the real parser enter a
production this model does not cover (`::`, JSON operators, qualified names, tuples, sub-queries, CASE, CAST, EXISTS,
DISTINCT / ORDER BY / SEPARATOR inside a call, WITHIN GROUP / FILTER / OVER after it, ANY / ALL, …) yields `unsupported`,
never a guess; the correspondence skips those inputs.  The depth counter of `parseExpression` / `NOT` is modelled
(limit 100), and so is the re-wrapping of operand errors by BETWEEN / LIKE / IN (code E2004).
-/
namespace GoSQLXModel.ExprParse

inductive TK where
  | or | and | not | cmp | cat | plus | minus | star | div | mod
  | lparen | rparen | ident | num | str | bool | null
  | is | between | like | ilike | in_ | comma
  | stop          -- ends an expression: EOF, `;`
  | cont          -- continues a primary in an unmodelled way: `::`, JSON operators, `[`, `.`
  | other         -- any other token: may start or continue a production this model does not cover
  deriving DecidableEq, Repr

structure PTok where
  k : TK
  lit : String
  deriving DecidableEq, Repr

mutual
inductive Ex where
  | ident (n : String)
  | num (v : String)
  | str (v : String)
  | bool (v : String)
  | null
  | bin (op : String) (l r : Ex)
  | not (e : Ex)
  | isnull (neg : Bool) (e : Ex)
  | between (neg : Bool) (e lo hi : Ex)
  | like (neg : Bool) (op : String) (l r : Ex)
  | inlist (neg : Bool) (e : Ex) (items : ExL)
  | call (name : String) (args : ExL)
inductive ExL where
  | nil
  | cons (e : Ex) (rest : ExL)
end

inductive Res where
  | ok (e : Ex) (rest : List PTok)
  | err (code : String)
  | unsupported
  | oof

inductive ResL where
  | ok (es : ExL) (rest : List PTok)
  | err (code : String)
  | unsupported
  | oof

def maxDepth : Nat := 100

/-! ## tests on literals (ASCII case folding; the driver refuses inputs whose literals contain one of the three
    non-ASCII characters that Go's `strings.ToUpper` / `strings.EqualFold` map to ASCII letters) -/
def upper (s : String) : String := s.map Char.toUpper
def isWord (s w : String) : Bool := upper s == w

/-- the look-ahead after NOT in parseComparisonExpression -/
def notLookahead (t : PTok) : Bool :=
  isWord t.lit "BETWEEN" || isWord t.lit "LIKE" || isWord t.lit "ILIKE" || isWord t.lit "IN"

/-- `NOT` is consumed as a predicate prefix -/
def notPrefix (ts : List PTok) : Bool :=
  match ts with
  | ⟨.not, _⟩ :: t2 :: _ => notLookahead t2
  | _ => false

def isLikeOp (t : PTok) : Bool := t.k == .like || isWord t.lit "ILIKE"
def isRegexpOp (t : PTok) : Bool := isWord t.lit "REGEXP" || isWord t.lit "RLIKE"

/-- tokens after which the real parser may keep going in a way this model does not cover -/
def continuesUnmodelled (k : TK) : Bool := k == .other || k == .cont

/-- parseJSONExpression after a primary: `::`, a JSON operator, `[`, `.` are not modelled -/
def afterPrimary (e : Ex) (rest : List PTok) : Res :=
  match rest with
  | ⟨.cont, _⟩ :: _ => .unsupported
  | _ => .ok e rest

/-- after the closing parenthesis of a call: WITHIN GROUP / FILTER / OVER (keywords) and MATCH … AGAINST are not modelled -/
def afterCall (n : String) (args : ExL) (rest : List PTok) : Res :=
  match rest with
  | t :: _ =>
    if t.k == .other || (isWord n "MATCH" && isWord t.lit "AGAINST") then .unsupported
    else afterPrimary (.call n args) rest
  | [] => .ok (.call n args) rest

/-- IS [NOT] NULL after the left operand -/
def pIs (l : Ex) (ts : List PTok) : Res :=
  match ts with
  | ⟨.not, _⟩ :: ⟨.null, _⟩ :: rest => .ok (.isnull true l) rest
  | ⟨.not, _⟩ :: _ => .err "E2002"
  | ⟨.null, _⟩ :: rest => .ok (.isnull false l) rest
  | _ => .err "E2002"

def Res.toL : Res → ResL
  | .ok _ _ => .oof
  | .err c => .err c
  | .unsupported => .unsupported
  | .oof => .oof

mutual
/-- parseExpression: the depth guard, then the OR level one deeper -/
def pExpr : Nat → Nat → List PTok → Res
  | 0, _, _ => .oof
  | f+1, d, ts => if d + 1 > maxDepth then .err "E2007" else pOr f (d + 1) ts
def pOr : Nat → Nat → List PTok → Res
  | 0, _, _ => .oof
  | f+1, d, ts =>
    match pAnd f d ts with
    | .ok l rest => lOr f d l rest
    | r => r
def lOr : Nat → Nat → Ex → List PTok → Res
  | 0, _, _, _ => .oof
  | f+1, d, l, ts =>
    match ts with
    | ⟨.or, op⟩ :: ts' =>
      (match pAnd f d ts' with
       | .ok r rest => lOr f d (.bin op l r) rest
       | r => r)
    | _ => .ok l ts
def pAnd : Nat → Nat → List PTok → Res
  | 0, _, _ => .oof
  | f+1, d, ts =>
    match pCmp f d ts with
    | .ok l rest => lAnd f d l rest
    | r => r
def lAnd : Nat → Nat → Ex → List PTok → Res
  | 0, _, _, _ => .oof
  | f+1, d, l, ts =>
    match ts with
    | ⟨.and, op⟩ :: ts' =>
      (match pCmp f d ts' with
       | .ok r rest => lAnd f d (.bin op l r) rest
       | r => r)
    | _ => .ok l ts
/-- parseComparisonExpression: the left operand, then what follows it -/
def pCmp : Nat → Nat → List PTok → Res
  | 0, _, _ => .oof
  | f+1, d, ts =>
    match pCat f d ts with
    | .ok l rest => pTail f d l rest
    | r => r
/-- the part of parseComparisonExpression after the left operand: NOT is consumed when the look-ahead says so -/
def pTail : Nat → Nat → Ex → List PTok → Res
  | 0, _, _, _ => .oof
  | f+1, d, l, ts => pPred f d (notPrefix ts) l (if notPrefix ts then ts.tail else ts)
/-- … then the tests of parseComparisonExpression on the current token, in their order -/
def pPred : Nat → Nat → Bool → Ex → List PTok → Res
  | 0, _, _, _, _ => .oof
  | _+1, _, _, l, [] => .ok l []
  | f+1, d, neg, l, t :: r1 =>
    if t.k == .between then pBetween f d neg l r1
    else if isLikeOp t then pLike f d neg t.lit l r1
    else if isRegexpOp t then pLike f d neg (upper t.lit) l r1
    else if t.k == .in_ then pIn f d neg l r1
    else if neg then .err "E2002"
    else if t.k == .is then pIs l r1
    else if t.k == .cmp then
      (match pCat f d r1 with
       | .ok r rest => .ok (.bin t.lit l r) rest
       | r => r)
    else if continuesUnmodelled t.k then .unsupported
    else .ok l (t :: r1)
/-- after BETWEEN: lower bound, AND, upper bound, each at the `||` level; operand errors are re-wrapped -/
def pBetween : Nat → Nat → Bool → Ex → List PTok → Res
  | 0, _, _, _, _ => .oof
  | f+1, d, neg, l, ts =>
    match pCat f d ts with
    | .ok lo (⟨.and, _⟩ :: r2) =>
      (match pCat f d r2 with
       | .ok hi rest => .ok (.between neg l lo hi) rest
       | .err _ => .err "E2004"
       | r => r)
    | .ok _ _ => .err "E2002"
    | .err _ => .err "E2004"
    | r => r
/-- after LIKE / ILIKE / REGEXP / RLIKE: the pattern is a primary expression -/
def pLike : Nat → Nat → Bool → String → Ex → List PTok → Res
  | 0, _, _, _, _, _ => .oof
  | f+1, d, neg, op, l, ts =>
    match pPrim f d ts with
    | .ok pat rest => .ok (.like neg op l pat) rest
    | .err _ => .err "E2004"
    | r => r
/-- after IN: a parenthesised, comma-separated list of expressions (a sub-query is not modelled: its first token is
    a keyword, on which the list's first expression answers `unsupported`) -/
def pIn : Nat → Nat → Bool → Ex → List PTok → Res
  | 0, _, _, _, _ => .oof
  | f+1, d, neg, l, ts =>
    match ts with
    | ⟨.lparen, _⟩ :: ⟨.other, _⟩ :: _ => .unsupported     -- sub-query
    | ⟨.lparen, _⟩ :: r1 =>
      (match pInList f d r1 with
       | .ok items rest => .ok (.inlist neg l items) rest
       | .err c => .err c
       | .unsupported => .unsupported
       | .oof => .oof)
    | _ => .err "E2002"
def pInList : Nat → Nat → List PTok → ResL
  | 0, _, _ => .oof
  | f+1, d, ts =>
    match pExpr f d ts with
    | .ok v (⟨.comma, _⟩ :: r) =>
      (match pInList f d r with
       | .ok vs rest => .ok (.cons v vs) rest
       | r => r)
    | .ok v (⟨.rparen, _⟩ :: r) => .ok (.cons v .nil) r
    | .ok _ _ => .err "E2002"
    | .err _ => .err "E2004"
    | r => r.toL
def pCat : Nat → Nat → List PTok → Res
  | 0, _, _ => .oof
  | f+1, d, ts =>
    match pAdd f d ts with
    | .ok l rest => lCat f d l rest
    | r => r
def lCat : Nat → Nat → Ex → List PTok → Res
  | 0, _, _, _ => .oof
  | f+1, d, l, ts =>
    match ts with
    | ⟨.cat, op⟩ :: ts' =>
      (match pAdd f d ts' with
       | .ok r rest => lCat f d (.bin op l r) rest
       | r => r)
    | _ => .ok l ts
def pAdd : Nat → Nat → List PTok → Res
  | 0, _, _ => .oof
  | f+1, d, ts =>
    match pMul f d ts with
    | .ok l rest => lAdd f d l rest
    | r => r
def lAdd : Nat → Nat → Ex → List PTok → Res
  | 0, _, _, _ => .oof
  | f+1, d, l, ts =>
    match ts with
    | ⟨.plus, op⟩ :: ts' =>
      (match pMul f d ts' with
       | .ok r rest => lAdd f d (.bin op l r) rest
       | r => r)
    | ⟨.minus, op⟩ :: ts' =>
      (match pMul f d ts' with
       | .ok r rest => lAdd f d (.bin op l r) rest
       | r => r)
    | _ => .ok l ts
def pMul : Nat → Nat → List PTok → Res
  | 0, _, _ => .oof
  | f+1, d, ts =>
    match pPrim f d ts with
    | .ok l rest => lMul f d l rest
    | r => r
def lMul : Nat → Nat → Ex → List PTok → Res
  | 0, _, _, _ => .oof
  | f+1, d, l, ts =>
    match ts with
    | ⟨.star, op⟩ :: ts' => mulStep f d l op ts'
    | ⟨.div, op⟩ :: ts' => mulStep f d l op ts'
    | ⟨.mod, op⟩ :: ts' => mulStep f d l op ts'
    | _ => .ok l ts
def mulStep : Nat → Nat → Ex → String → List PTok → Res
  | 0, _, _, _, _ => .oof
  | f+1, d, l, op, ts' =>
    match ts' with
    | [] => .err "E2002"           -- the operator was the last token of a slice without an end marker
    | _ =>
      match pPrim f d ts' with
      | .ok r rest => lMul f d (.bin op l r) rest
      | r => r
/-- the arguments of a call, after `(` when the next token is not `)` -/
def pArgs : Nat → Nat → List PTok → ResL
  | 0, _, _ => .oof
  | _+1, _, ⟨.other, _⟩ :: _ => .unsupported      -- DISTINCT, ORDER BY, or any keyword-led production
  | f+1, d, ts =>
    match pExpr f d ts with
    | .ok v (⟨.comma, _⟩ :: r) =>
      (match pArgs f d r with
       | .ok vs rest => .ok (.cons v vs) rest
       | r => r)
    | .ok v (⟨.rparen, _⟩ :: r) => .ok (.cons v .nil) r
    | .ok _ (t :: _) => if t.k == .other || isWord t.lit "SEPARATOR" then .unsupported else .err "E2002"
    | .ok _ [] => .err "E2002"
    | r => r.toL
/-- parseJSONExpression ∘ parsePrimaryExpression for the covered primaries -/
def pPrim : Nat → Nat → List PTok → Res
  | 0, _, _ => .oof
  | f+1, d, ts =>
    match ts with
    | ⟨.ident, n⟩ :: rest =>
      (match rest with
       | ⟨.lparen, _⟩ :: ⟨.rparen, _⟩ :: r2 => afterCall n .nil r2
       | ⟨.lparen, _⟩ :: r1 =>
         (match pArgs f d r1 with
          | .ok args r2 => afterCall n args r2
          | .err c => .err c
          | .unsupported => .unsupported
          | .oof => .oof)
       | _ => afterPrimary (.ident n) rest)
    | ⟨.star, _⟩ :: rest => afterPrimary (.ident "*") rest
    | ⟨.str, v⟩ :: rest => afterPrimary (.str v) rest
    | ⟨.num, v⟩ :: rest => afterPrimary (.num v) rest
    | ⟨.bool, v⟩ :: rest => afterPrimary (.bool v) rest
    | ⟨.null, _⟩ :: rest => afterPrimary .null rest
    | ⟨.lparen, _⟩ :: rest =>
      (match rest with
       | ⟨.other, _⟩ :: _ => .unsupported      -- sub-query or other unmodelled opener
       | _ =>
         match pExpr f d rest with
         | .ok e (⟨.rparen, _⟩ :: rest') => afterPrimary e rest'
         | .ok _ (⟨.comma, _⟩ :: _) => .unsupported   -- tuple
         | .ok _ _ => .err "E2002"
         | r => r)
    | ⟨.not, _⟩ :: rest =>
      (match rest with
       | ⟨.other, _⟩ :: _ => .unsupported      -- NOT EXISTS and friends
       | _ =>
         if d + 1 > maxDepth then .err "E2007"
         else
           match pCmp f (d + 1) rest with
           | .ok e rest' => .ok (.not e) rest'
           | r => r)
    | ⟨.other, _⟩ :: _ => .unsupported
    | _ => .err "E2001"
end

/-! ## canonical text of trees and results (what the driver answers; also makes results comparable by `decide`) -/
def lower (s : String) : String := s.map Char.toLower

mutual
def Ex.canon : Ex → String
  | .ident n => "id(" ++ n ++ ")"
  | .num v => "num(" ++ v ++ ")"
  | .str v => "str(" ++ v ++ ")"
  | .bool v => "bool(" ++ upper v ++ ")"
  | .null => "null"
  | .bin op l r => "(" ++ l.canon ++ " " ++ upper op ++ " " ++ r.canon ++ ")"
  | .not e => "not(" ++ e.canon ++ ")"
  | .isnull neg e => (if neg then "!" else "") ++ "isnull(" ++ e.canon ++ ")"
  | .between neg e lo hi => (if neg then "!" else "") ++ "between(" ++ e.canon ++ "," ++ lo.canon ++ "," ++ hi.canon ++ ")"
  | .like neg op l r =>
    if upper op == "LIKE" || upper op == "ILIKE" then
      (if neg then "!" else "") ++ lower op ++ "(" ++ l.canon ++ "," ++ r.canon ++ ")"
    else (if neg then "not" else "") ++ "(" ++ l.canon ++ " " ++ upper op ++ " " ++ r.canon ++ ")"
  | .inlist neg e items => (if neg then "!" else "") ++ "in(" ++ e.canon ++ items.canon ++ ")"
  | .call n args => "fn " ++ n ++ "(" ++ (args.canon.drop 1).toString ++ ")"
/-- every item preceded by a comma -/
def ExL.canon : ExL → String
  | .nil => ""
  | .cons e rest => "," ++ e.canon ++ rest.canon
end

def Res.canon : Res → String
  | .ok e rest => "OK " ++ e.canon ++ " " ++ toString rest.length
  | .err c => "ERR " ++ c
  | .unsupported => "UNSUPPORTED"
  | .oof => "OOF"

end GoSQLXModel.ExprParse
