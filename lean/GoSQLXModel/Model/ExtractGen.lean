import GoSQLXModel.Model.Extract
import GoSQLXModel.Model.Tables
import GoSQLXModel.Gen.AstTables
import GoSQLXModel.Gen.ExtractTables
/-! The five collectors of extract.go, instantiated at the tables regenerated from today's source. -/
namespace GoSQLXModel.Extract

def genChildren : ChildTable := fun ty => ChildrenTbl.get Gen.childrenTable ty

/-- element type of field `f` of `ty` when that element type is itself a Node -/
def genNodeElem (ty f : String) : Option String :=
  match (Schema.fieldsOf Gen.astSchema ty).find? (fun fi => fi.1 == f) with
  | some (_, elem, kind, _) => if kind == "struct" && Schema.isNode Gen.astSchema elem then some elem else none
  | none => none

def tablesC := mkCollector Gen.Extract.tableCollector_node Gen.Extract.tableCollector_expr guardNonEmpty genNodeElem
def qtablesC := mkCollector Gen.Extract.qualifiedTableCollector_node Gen.Extract.qualifiedTableCollector_expr guardNonEmpty genNodeElem
def columnsC := mkCollector Gen.Extract.columnCollector_node Gen.Extract.columnCollector_expr guardColumn genNodeElem
def qcolumnsC := mkCollector Gen.Extract.qualifiedColumnCollector_node Gen.Extract.qualifiedColumnCollector_expr guardColumn genNodeElem
def functionsC := mkCollector Gen.Extract.functionCollector_node Gen.Extract.functionCollector_expr guardNonEmpty genNodeElem

/-- ExtractTables / ExtractColumns / ExtractFunctions and the qualified variants, on a dumped tree -/
def extractTables (tree : Val) : List (List String) := tablesC.run genChildren tree
def extractTablesQualified (tree : Val) : List (List String) :=
  dedup ((qtablesC.run genChildren tree).map fun x => splitQualified (x.headD ""))
def extractColumns (tree : Val) : List (List String) := columnsC.run genChildren tree
def extractColumnsQualified (tree : Val) : List (List String) := qcolumnsC.run genChildren tree
def extractFunctions (tree : Val) : List (List String) := functionsC.run genChildren tree

end GoSQLXModel.Extract
