import GoSQLXModel.Model.CharClass
/-!
# The text rewriters of the linter (pkg/linter/rules/{whitespace,keywords}) and the LSP format action

`Fix` of L001 (trailing whitespace), L002 (mixed indentation), L003 (consecutive blank lines), L007 (keyword
case), L010 (redundant whitespace), mirrored statement by statement over `List Char`
(valid UTF-8 texts), including their per-line quote state.
-/
namespace GoSQLXModel.Lint

/-- `strings.Split(s, "\n")` -/
def splitLines : List Char → List (List Char)
  | [] => [[]]
  | c :: cs =>
    if c = '\n' then [] :: splitLines cs
    else match splitLines cs with
      | l :: ls => (c :: l) :: ls
      | [] => [[c]]

/-- `strings.Join(lines, "\n")` -/
def joinLines : List (List Char) → List Char
  | [] => []
  | [l] => l
  | l :: ls => l ++ '\n' :: joinLines ls

def isBlankChar (c : Char) : Bool := c = ' ' || c = '\t'

/-- `strings.TrimRight(line, " \t")` -/
def trimRight (l : List Char) : List Char := (l.reverse.dropWhile isBlankChar).reverse

/-- `strings.TrimLeft(line, " \t")` -/
def trimLeft (l : List Char) : List Char := l.dropWhile isBlankChar

/-- `getLeadingWhitespace` -/
def leadingWs (l : List Char) : List Char := l.takeWhile isBlankChar

/-! ### L001 trailing whitespace -/
def fixL001 (s : List Char) : List Char := joinLines ((splitLines s).map trimRight)

/-! ### L002 mixed indentation: tabs in the leading whitespace become four spaces -/
def expandTabs (ws : List Char) : List Char := ws.flatMap fun c => if c = '\t' then [' ', ' ', ' ', ' '] else [c]
def fixLineL002 (l : List Char) : List Char :=
  if (leadingWs l).isEmpty then l else expandTabs (leadingWs l) ++ trimLeft l
def fixL002 (s : List Char) : List Char := joinLines ((splitLines s).map fixLineL002)

/-! ### L003 consecutive blank lines (`strings.TrimSpace(line) == ""` with unicode.IsSpace) -/
def isBlankLine (cls : CharClass) (l : List Char) : Bool := l.all cls.isSpace

def dropExcessBlank (cls : CharClass) (max : Nat) : Nat → List (List Char) → List (List Char)
  | _, [] => []
  | n, l :: ls =>
    if isBlankLine cls l then
      if n + 1 ≤ max then l :: dropExcessBlank cls max (n+1) ls else dropExcessBlank cls max (n+1) ls
    else l :: dropExcessBlank cls max 0 ls

/-- the trailing loop: while the last line is blank and the trailing blank run is longer than `max`, drop the last line -/
def trimTrailingBlank (cls : CharClass) (max : Nat) : Nat → List (List Char) → List (List Char)
  | 0, ls => ls
  | f+1, ls =>
    match ls.getLast? with
    | none => ls
    | some last =>
      if isBlankLine cls last then
        let run := (ls.reverse.takeWhile (isBlankLine cls)).length
        if run > max then trimTrailingBlank cls max f ls.dropLast else ls
      else ls

def fixL003 (cls : CharClass) (max : Nat) (s : List Char) : List Char :=
  let ls := dropExcessBlank cls max 0 (splitLines s)
  joinLines (trimTrailingBlank cls max ls.length ls)

/-! ### L010 redundant whitespace -/
/-- the scan over the part after the leading whitespace: (inString, quote, prevSpace) -/
def collapseGo : Bool → Char → Bool → List Char → List Char
  | _, _, _, [] => []
  | false, q, prev, c :: cs =>
    if c = '\'' ∨ c = '"' then c :: collapseGo true c false cs
    else if c = ' ' then (if prev then collapseGo false q true cs else c :: collapseGo false q true cs)
    else c :: collapseGo false q false cs
  | true, q, prev, c :: cs =>
    if c = q then c :: collapseGo false '\x00' prev cs else c :: collapseGo true q prev cs

def fixLineL010 (l : List Char) : List Char :=
  -- `leading`/`trimmed` split at the first non-blank character; an all-blank line is scanned entirely
  if l.all isBlankChar then collapseGo false '\x00' false l
  else leadingWs l ++ collapseGo false '\x00' false (trimLeft l)

def fixL010 (s : List Char) : List Char := joinLines ((splitLines s).map fixLineL010)

/-! ### L007 keyword case -/
def isWordStart (cls : CharClass) (c : Char) : Bool := cls.isLetter c || c = '_'

def convertKeyword (cls : CharClass) (kws : List (List Char)) (upper : Bool) (w : List Char) : List Char :=
  let u := w.map cls.toUpper
  if kws.contains u then (if upper then u else w.map cls.toLower) else w

/-- scan of one line: state = (inString, quote, current word reversed) -/
def caseGo (cls : CharClass) (kws : List (List Char)) (upper : Bool) : Bool → Char → List Char → List Char → List Char
  | _, _, w, [] => if w.isEmpty then [] else convertKeyword cls kws upper w.reverse
  | false, q, w, c :: cs =>
    if c = '\'' ∨ c = '"' then
      (if w.isEmpty then [] else convertKeyword cls kws upper w.reverse) ++ c :: caseGo cls kws upper true c [] cs
    else if isWordStart cls c || (!w.isEmpty && cls.isDigit c) then caseGo cls kws upper false q (c :: w) cs
    else (if w.isEmpty then [] else convertKeyword cls kws upper w.reverse) ++ c :: caseGo cls kws upper false q [] cs
  | true, q, w, c :: cs =>
    if c = q then c :: caseGo cls kws upper false '\x00' w cs else c :: caseGo cls kws upper true q w cs

def fixLineL007 (cls : CharClass) (kws : List (List Char)) (upper : Bool) (l : List Char) : List Char :=
  caseGo cls kws upper false '\x00' [] l

def fixL007 (cls : CharClass) (kws : List (List Char)) (upper : Bool) (s : List Char) : List Char :=
  joinLines ((splitLines s).map (fixLineL007 cls kws upper))

/-! ### checks (line numbers, 1-based) -/
def checkL001 (cls : CharClass) (s : List Char) : List Nat :=
  ((splitLines s).zipIdx.filter fun (l, _) =>
    match l.getLast? with
    | some c => cls.isSpace c && c ≠ '\n' && c ≠ '\r'
    | none => false).map fun (_, i) => i + 1

end GoSQLXModel.Lint
