/-!
# LSP document mirroring (pkg/lsp/documents.go) and the protocol's position rules

Texts are `List Char` (valid UTF-8 documents; the byte level is tied by the correspondence run).
`Code.*` mirrors the Go code: split into lines, sum line lengths, convert the UTF-16 column inside the
line, clamp, slice.  `Spec.*` is the protocol rule stated independently as a single pass over the
text: the offset of position (l, c) is reached by walking the text, counting line feeds and UTF-16
units, stopping at the end of line l (before a CR that belongs to the terminator), never inside a character.
-/
namespace GoSQLXModel.Lsp

def units (c : Char) : Nat := if c.toNat ≥ 0x10000 then 2 else 1

namespace Code

/-- `strings.Split(content, "\n")` (always at least one line) -/
def splitLines : List Char → List (List Char)
  | [] => [[]]
  | c :: cs =>
    if c = '\n' then [] :: splitLines cs
    else match splitLines cs with
      | l :: ls => (c :: l) :: ls
      | [] => [[c]]

/-- the line without a trailing CR (`end--` when the last byte is '\r') -/
def stripCR : List Char → List Char
  | [] => []
  | [c] => if c = '\r' then [] else [c]
  | c :: d :: cs => c :: stripCR (d :: cs)

/-- `utf16ColumnToByteOffset` over characters: how many characters fit into `col` UTF-16 units -/
def colToIdx : List Char → Nat → Nat
  | [], _ => 0
  | c :: cs, col => if units c > col then 0 else 1 + colToIdx cs (col - units c)

/-- the loop of `positionToOffset` over the line table (line and character already non-negative) -/
def offsetIn : List (List Char) → Nat → Nat → Nat
  | [], _, _ => 0
  | line :: _, 0, c => colToIdx (stripCR line) c
  | line :: rest, l+1, c => line.length + 1 + offsetIn rest l c

def positionToOffset (lines : List (List Char)) (l c : Int) : Nat :=
  if l < 0 then 0 else offsetIn lines l.toNat (if c < 0 then 0 else c.toNat)

/-- Go slice `s[a:b]`: panics (none) unless `a ≤ b ≤ len` -/
def slice? (s : List Char) (a b : Nat) : Option (List Char) :=
  if a ≤ b ∧ b ≤ s.length then some ((s.take b).drop a) else none

/-- `applyChange` for a ranged edit; `none` = the Go code would panic -/
def applyChange (content : List Char) (sl sc el ec : Int) (text : List Char) : Option (List Char) :=
  let lines := splitLines content
  let so := positionToOffset lines sl sc
  let eo := positionToOffset lines el ec
  let so := if so > content.length then content.length else so
  let eo := if eo < so then so else eo
  match slice? content 0 so with
  | none => none
  | some head =>
    if eo < content.length then
      match slice? content eo content.length with
      | none => none
      | some tail => some (head ++ text ++ tail)
    else some (head ++ text)

end Code

namespace Spec

/-- walk the text to line `l`, then `c` UTF-16 units into it -/
def idx : List Char → Nat → Nat → Nat
  | [], _, _ => 0
  | ch :: rest, 0, c =>
    if ch = '\n' then 0
    else if ch = '\r' ∧ (rest = [] ∨ rest.head? = some '\n') then 0
    else if units ch ≤ c then 1 + idx rest 0 (c - units ch) else 0
  | ch :: rest, l+1, c => 1 + (if ch = '\n' then idx rest l c else idx rest (l+1) c)

/-- negative line: document start; negative character: line start -/
def pos (t : List Char) (l c : Int) : Nat :=
  if l < 0 then 0 else idx t l.toNat (if c < 0 then 0 else c.toNat)

/-- replace the range; an inverted range is empty at its start -/
def apply (t : List Char) (sl sc el ec : Int) (text : List Char) : List Char :=
  let s := pos t sl sc
  let e := max (pos t el ec) s
  t.take s ++ text ++ t.drop e

end Spec

/-! ## the code computes the specified offsets -/

theorem colToIdx_le (line : List Char) (c : Nat) : Code.colToIdx line c ≤ line.length := by
  induction line generalizing c with
  | nil => simp [Code.colToIdx]
  | cons ch cs ih =>
    simp only [Code.colToIdx]
    split
    · omega
    · have := ih (c - units ch); simp only [List.length_cons]; omega

theorem stripCR_length_le (line : List Char) : (Code.stripCR line).length ≤ line.length := by
  induction line with
  | nil => simp [Code.stripCR]
  | cons c cs ih =>
    cases cs with
    | nil => simp only [Code.stripCR]; split <;> simp
    | cons d ds => simp only [Code.stripCR, List.length_cons] at ih ⊢; omega

theorem splitLines_ne_nil (t : List Char) : Code.splitLines t ≠ [] := by
  cases t with
  | nil => simp [Code.splitLines]
  | cons c cs =>
    simp only [Code.splitLines]
    split
    · simp
    · split <;> simp

/-- total length of the line table: Σ (len + 1) = len(text) + 1 -/
def tableLen : List (List Char) → Nat
  | [] => 0
  | l :: ls => l.length + 1 + tableLen ls

theorem tableLen_split (t : List Char) : tableLen (Code.splitLines t) = t.length + 1 := by
  induction t with
  | nil => simp [Code.splitLines, tableLen]
  | cons c cs ih =>
    simp only [Code.splitLines]
    split
    · simp only [tableLen, List.length_nil, List.length_cons, ih]; omega
    · cases h : Code.splitLines cs with
      | nil => exact absurd h (splitLines_ne_nil cs)
      | cons l ls =>
        rw [h] at ih
        simp only [tableLen, List.length_cons] at ih ⊢
        omega

theorem offsetIn_le (lines : List (List Char)) (l c : Nat) : Code.offsetIn lines l c ≤ tableLen lines := by
  induction lines generalizing l with
  | nil => simp [Code.offsetIn, tableLen]
  | cons line rest ih =>
    cases l with
    | zero =>
      simp only [Code.offsetIn, tableLen]
      have := colToIdx_le (Code.stripCR line) c
      have := stripCR_length_le line
      omega
    | succ l =>
      simp only [Code.offsetIn, tableLen]
      have := ih l
      omega

/-- first line of the table is empty iff the text is empty or starts with a line feed -/
theorem first_line_nil_iff (t : List Char) (l : List Char) (ls : List (List Char)) (h : Code.splitLines t = l :: ls) :
    l = [] ↔ (t = [] ∨ t.head? = some '\n') := by
  cases t with
  | nil => simp [Code.splitLines] at h; simp [h.1]
  | cons c cs =>
    simp only [Code.splitLines] at h
    split at h
    · rename_i hc; simp at h; simp [h.1, hc]
    · rename_i hc
      split at h
      · simp at h; simp [← h.1, hc]
      · simp at h; simp [← h.1, hc]

theorem stripCR_cons (c : Char) (l : List Char) (hl : l ≠ []) : Code.stripCR (c :: l) = c :: Code.stripCR l := by
  cases l with
  | nil => exact absurd rfl hl
  | cons d ds => simp [Code.stripCR]

/-- **the key lemma**: the line-table arithmetic of the code, clamped to the document, is the protocol offset -/
theorem offset_eq_spec (t : List Char) (l c : Nat) :
    min (Code.offsetIn (Code.splitLines t) l c) t.length = Spec.idx t l c := by
  induction t generalizing l c with
  | nil =>
    cases l <;> simp [Code.splitLines, Code.offsetIn, Code.stripCR, Code.colToIdx, Spec.idx]
  | cons ch rest ih =>
    cases hs : Code.splitLines rest with
    | nil => exact absurd hs (splitLines_ne_nil rest)
    | cons line0 ls =>
      by_cases hnl : ch = '\n'
      · -- the text starts with a line feed: first line is empty
        subst hnl
        cases l with
        | zero => simp [Code.splitLines, Code.offsetIn, Code.stripCR, Code.colToIdx, Spec.idx]
        | succ l =>
          have := ih l c
          simp only [Code.splitLines, if_true, Code.offsetIn, List.length_nil, Spec.idx, List.length_cons]
          omega
      · have hsplit : Code.splitLines (ch :: rest) = (ch :: line0) :: ls := by
          simp [Code.splitLines, hnl, hs]
        rw [hsplit]
        cases l with
        | zero =>
          simp only [Code.offsetIn, Spec.idx, hnl, if_false]
          have hfirst := first_line_nil_iff rest line0 ls hs
          have ih0 := ih 0
          rw [hs] at ih0
          simp only [Code.offsetIn] at ih0
          by_cases hcr : ch = '\r' ∧ (rest = [] ∨ rest.head? = some '\n')
          · have hl0 : line0 = [] := hfirst.mpr hcr.2
            subst hl0
            simp [Code.stripCR, hcr.1, Code.colToIdx, hcr]
          · simp only [hcr, if_false]
            have hstrip : Code.stripCR (ch :: line0) = ch :: Code.stripCR line0 := by
              by_cases hl0 : line0 = []
              · subst hl0
                have : ¬ ch = '\r' := fun h => hcr ⟨h, hfirst.mp rfl⟩
                simp [Code.stripCR, this]
              · exact stripCR_cons ch line0 hl0
            rw [hstrip]
            simp only [Code.colToIdx]
            have hle1 := colToIdx_le (Code.stripCR line0) (c - units ch)
            have hle2 := stripCR_length_le line0
            have hlen : line0.length ≤ rest.length := by
              have := tableLen_split rest
              rw [hs] at this
              simp only [tableLen] at this
              omega
            by_cases hu : units ch > c
            · have : ¬ units ch ≤ c := by omega
              simp [hu, this]
            · have hu' : units ch ≤ c := by omega
              have := ih0 (c - units ch)
              simp only [hu, if_false, hu', if_true, List.length_cons]
              omega
        | succ l =>
          have := ih (l+1) c
          rw [hs] at this
          simp only [Code.offsetIn, List.length_cons, Spec.idx, hnl, if_false] at this ⊢
          omega

theorem position_eq_spec (t : List Char) (l c : Int) :
    min (Code.positionToOffset (Code.splitLines t) l c) t.length = Spec.pos t l c := by
  unfold Code.positionToOffset Spec.pos
  split
  · simp
  · exact offset_eq_spec t _ _

/-- **C18.apply_no_panic** and **C18.mirror (one edit)**: for every document, every range (negative,
    inverted, past the end, inside a surrogate pair) and every replacement text, the code neither
    panics nor deviates from the protocol rule. -/
theorem applyChange_eq_spec (t : List Char) (sl sc el ec : Int) (text : List Char) :
    Code.applyChange t sl sc el ec text = some (Spec.apply t sl sc el ec text) := by
  have hs := position_eq_spec t sl sc
  have he := position_eq_spec t el ec
  unfold Code.applyChange Spec.apply
  simp only
  generalize Code.positionToOffset (Code.splitLines t) sl sc = so at hs ⊢
  generalize Code.positionToOffset (Code.splitLines t) el ec = eo at he ⊢
  generalize Spec.pos t sl sc = s at hs ⊢
  generalize Spec.pos t el ec = e at he ⊢
  have hso : (if so > t.length then t.length else so) = s := by split <;> omega
  rw [hso]
  have hsl : s ≤ t.length := by omega
  have hslice : Code.slice? t 0 s = some (t.take s) := by simp [Code.slice?, hsl]
  rw [hslice]
  simp only
  by_cases hlt : (if eo < s then s else eo) < t.length
  · simp only [hlt, if_true]
    have hle : (if eo < s then s else eo) ≤ t.length := by omega
    have hslice2 : Code.slice? t (if eo < s then s else eo) t.length = some (t.drop (if eo < s then s else eo)) := by
      simp [Code.slice?, hle]
    rw [hslice2]
    have : (if eo < s then s else eo) = max e s := by
      by_cases h1 : eo < s
      · rw [if_pos h1] at hlt ⊢; omega
      · rw [if_neg h1] at hlt ⊢; omega
    rw [this]
  · simp only [hlt, if_false]
    have hge : t.length ≤ max e s := by
      by_cases h1 : eo < s
      · rw [if_pos h1] at hlt; omega
      · rw [if_neg h1] at hlt; omega
    rw [List.drop_eq_nil_of_le hge]
    simp

theorem applyChange_no_panic (t : List Char) (sl sc el ec : Int) (text : List Char) :
    Code.applyChange t sl sc el ec text ≠ none := by
  rw [applyChange_eq_spec]; simp

end GoSQLXModel.Lsp
