import GoSQLXModel.Model.ExprParse
/-!
# Reference grammar of the expression ladder

`G`: atoms, plain function calls, binary operators at their levels, NOT, and the predicates of the comparison level
(`IS [NOT] NULL`, `[NOT] BETWEEN`, `[NOT] LIKE / ILIKE`, `[NOT] IN (list)`).  `render k g` = the token list of `g` as an
operand of level `k` (parenthesised exactly when its own level is lower), `need k g` = the parser depth that reading it
costs, `G.toEx` = the tree the grammar prescribes, `G.WF` = the (decidable) conditions real token streams meet: the
literal of an operator or keyword token is not one of the words the parser recognises by spelling (ILIKE, REGEXP, RLIKE),
the keyword after a predicate's NOT is spelled as the parser's look-ahead expects, a function is not named MATCH.
-/
namespace GoSQLXModel.ExprParse

inductive Op where | or | and | cmp | cat | plus | minus | star | div | mod
  deriving DecidableEq, Repr

def Op.tk : Op → TK
  | .or => .or | .and => .and | .cmp => .cmp | .cat => .cat | .plus => .plus | .minus => .minus
  | .star => .star | .div => .div | .mod => .mod

def Op.prec : Op → Nat
  | .or => 1 | .and => 2 | .cmp => 4 | .cat => 5 | .plus => 6 | .minus => 6 | .star => 7 | .div => 7 | .mod => 7

/-- operand levels of a binary operator: (left, right) -/
def Op.sides : Op → Nat × Nat
  | .or => (1, 2) | .and => (2, 3) | .cmp => (5, 5) | .cat => (5, 6)
  | .plus => (6, 7) | .minus => (6, 7) | .star => (7, 8) | .div => (7, 8) | .mod => (7, 8)

inductive Atom where | ident (n : String) | num (v : String) | str (v : String) | bool (v : String) | null (lit : String)
  deriving DecidableEq, Repr

def Atom.tok : Atom → PTok
  | .ident n => ⟨.ident, n⟩ | .num v => ⟨.num, v⟩ | .str v => ⟨.str, v⟩ | .bool v => ⟨.bool, v⟩ | .null l => ⟨.null, l⟩
def Atom.ex : Atom → Ex
  | .ident n => .ident n | .num v => .num v | .str v => .str v | .bool v => .bool v | .null _ => .null

mutual
inductive G where
  | atom (a : Atom)
  | call (name : String) (args : GL)
  | bin (op : Op) (lit : String) (l r : G)
  | not (lit : String) (e : G)
  /-- `e IS [NOT] NULL`; `neg` = the spelling of NOT when written -/
  | isnull (isLit : String) (neg : Option String) (nullLit : String) (e : G)
  /-- `e [NOT] BETWEEN lo AND hi` -/
  | between (neg : Option String) (bLit andLit : String) (e lo hi : G)
  /-- `e [NOT] LIKE pat` (`op` is the operator token: LIKE, or ILIKE spelled so) -/
  | like (neg : Option String) (op : PTok) (e pat : G)
  /-- `e [NOT] IN (first, rest…)` -/
  | inlist (neg : Option String) (inLit : String) (e first : G) (rest : GL)
inductive GL where
  | nil
  | cons (g : G) (rest : GL)
end

mutual
def G.toEx : G → Ex
  | .atom a => a.ex
  | .call n args => .call n args.toExL
  | .bin _ lit l r => .bin lit l.toEx r.toEx
  | .not _ e => .not e.toEx
  | .isnull _ neg _ e => .isnull neg.isSome e.toEx
  | .between neg _ _ e lo hi => .between neg.isSome e.toEx lo.toEx hi.toEx
  | .like neg op e pat => .like neg.isSome op.lit e.toEx pat.toEx
  | .inlist neg _ e first rest => .inlist neg.isSome e.toEx (.cons first.toEx rest.toExL)
def GL.toExL : GL → ExL
  | .nil => .nil
  | .cons g rest => .cons g.toEx rest.toExL
end

def G.prec : G → Nat
  | .atom _ => 8
  | .call _ _ => 8
  | .bin op _ _ _ => op.prec
  | .not _ _ => 3
  | .isnull _ _ _ _ => 4
  | .between _ _ _ _ _ _ => 4
  | .like _ _ _ _ => 4
  | .inlist _ _ _ _ _ => 4

def lp : PTok := ⟨.lparen, "("⟩
def rp : PTok := ⟨.rparen, ")"⟩
def comma : PTok := ⟨.comma, ","⟩

/-- the NOT of a negated predicate -/
def negToks : Option String → List PTok
  | none => []
  | some l => [⟨.not, l⟩]

def wrapIf (b : Bool) (ts : List PTok) : List PTok := if b then lp :: (ts ++ [rp]) else ts

mutual
def render : Nat → G → List PTok
  | _, .atom a => [a.tok]
  | _, .call n args => ⟨.ident, n⟩ :: lp :: (renderArgs args ++ [rp])
  | k, .bin op lit l r =>
    let b := render op.sides.1 l ++ ⟨op.tk, lit⟩ :: render op.sides.2 r
    if op.prec < k then lp :: (b ++ [rp]) else b
  | k, .not lit e =>
    let b := ⟨.not, lit⟩ :: render 3 e
    if 3 < k then lp :: (b ++ [rp]) else b
  | k, .isnull isLit neg nullLit e =>
    let b := render 5 e ++ ⟨.is, isLit⟩ :: (negToks neg ++ [⟨.null, nullLit⟩])
    if 4 < k then lp :: (b ++ [rp]) else b
  | k, .between neg bLit andLit e lo hi =>
    let b := render 5 e ++ (negToks neg ++ ⟨.between, bLit⟩ :: (render 5 lo ++ ⟨.and, andLit⟩ :: render 5 hi))
    if 4 < k then lp :: (b ++ [rp]) else b
  | k, .like neg op e pat =>
    let b := render 5 e ++ (negToks neg ++ op :: render 8 pat)
    if 4 < k then lp :: (b ++ [rp]) else b
  | k, .inlist neg inLit e first rest =>
    let b := render 5 e ++ (negToks neg ++ ⟨.in_, inLit⟩ :: lp :: (render 1 first ++ (renderMore rest ++ [rp])))
    if 4 < k then lp :: (b ++ [rp]) else b
/-- every further item preceded by a comma -/
def renderMore : GL → List PTok
  | .nil => []
  | .cons g rest => comma :: (render 1 g ++ renderMore rest)
/-- an argument list -/
def renderArgs : GL → List PTok
  | .nil => []
  | .cons g rest => render 1 g ++ renderMore rest
end

mutual
/-- parser depth consumed by reading `render k g` -/
def need : Nat → G → Nat
  | _, .atom _ => 0
  | _, .call _ args => needL args
  | k, .bin op _ l r =>
    let b := max (need op.sides.1 l) (need op.sides.2 r)
    if op.prec < k then b + 1 else b
  | k, .not _ e =>
    let b := need 3 e + 1
    if 3 < k then b + 1 else b
  | k, .isnull _ _ _ e =>
    let b := need 5 e
    if 4 < k then b + 1 else b
  | k, .between _ _ _ e lo hi =>
    let b := max (need 5 e) (max (need 5 lo) (need 5 hi))
    if 4 < k then b + 1 else b
  | k, .like _ _ e pat =>
    let b := max (need 5 e) (need 8 pat)
    if 4 < k then b + 1 else b
  | k, .inlist _ _ e first rest =>
    let b := max (need 5 e) (max (need 1 first + 1) (needL rest))
    if 4 < k then b + 1 else b
/-- depth consumed by a list of items, each read by parseExpression -/
def needL : GL → Nat
  | .nil => 0
  | .cons g rest => max (need 1 g + 1) (needL rest)
end

/-- spelled like none of the operator words the parser recognises by literal -/
def plainLit (s : String) : Bool := !(isWord s "ILIKE" || isWord s "REGEXP" || isWord s "RLIKE")

mutual
/-- what real token streams satisfy (see the header) -/
def G.WF : G → Bool
  | .atom _ => true
  | .call n args => !isWord n "MATCH" && args.WFL
  | .bin _ lit l r => plainLit lit && l.WF && r.WF
  | .not _ e => e.WF
  | .isnull isLit _ _ e => plainLit isLit && e.WF
  | .between neg bLit andLit e lo hi =>
    (neg.isNone || isWord bLit "BETWEEN") && plainLit andLit && e.WF && lo.WF && hi.WF
  | .like neg op e pat =>
    (op.k == .like || (op.k == .ilike && isWord op.lit "ILIKE")) &&
    (neg.isNone || isWord op.lit "LIKE" || isWord op.lit "ILIKE") && e.WF && pat.WF
  | .inlist neg inLit e first rest =>
    plainLit inLit && (neg.isNone || isWord inLit "IN") && e.WF && first.WF && rest.WFL
def GL.WFL : GL → Bool
  | .nil => true
  | .cons g rest => g.WF && rest.WFL
end

end GoSQLXModel.ExprParse
