import GoSQLXModel.Model.Val
/-!
# Walk / Inspect over `Val`, driven by a Children() table

Mirrors `pkg/sql/ast/visitor.go`: `Walk(v, n)` visits `n`, then walks every element of
`n.Children()`.  `Children()` of a node of type `ty` returns the node-valued content of the
fields listed for `ty` in the table (first-level granularity: a by-value helper struct that is
mentioned is traversed completely).
-/
namespace GoSQLXModel

abbrev ChildTable := String → List String

mutual
def Val.walk (t : ChildTable) : Val → List String
  | .node ty fs => ty :: fs.walk t (some (t ty))
  | .struct fs => fs.walk t none
  | .list xs => xs.walk t
  | _ => []
def Vals.walk (t : ChildTable) : Vals → List String
  | .nil => [] | .cons v vs => v.walk t ++ vs.walk t
/-- `allowed = none` : every field is followed (helper struct); `some l` : only fields in `l` -/
def Fields.walk (t : ChildTable) : Fields → Option (List String) → List String
  | .nil, _ => []
  | .cons n v fs, allowed =>
    (match allowed with
     | none => v.walk t
     | some l => if l.contains n then v.walk t else []) ++ fs.walk t allowed
end

-- the table mentions every field of every node of `v` that holds any node
mutual
def Val.covered (t : ChildTable) : Val → Bool
  | .node ty fs => fs.covered t (some (t ty))
  | .struct fs => fs.covered t none
  | .list xs => xs.covered t
  | _ => true
def Vals.covered (t : ChildTable) : Vals → Bool
  | .nil => true | .cons v vs => v.covered t && vs.covered t
def Fields.covered (t : ChildTable) : Fields → Option (List String) → Bool
  | .nil, _ => true
  | .cons n v fs, allowed =>
    ((match allowed with | none => true | some l => l.contains n) || v.nodes.isEmpty)
      && v.covered t && fs.covered t allowed
end

mutual
theorem Val.walk_complete (t : ChildTable) : ∀ v : Val, v.covered t = true → v.walk t = v.nodes
  | .node ty fs, h => by
      simp only [Val.walk, Val.nodes]; congr 1
      exact Fields.walk_complete t fs _ (by simpa [Val.covered] using h)
  | .struct fs, h => by
      simp only [Val.walk, Val.nodes]
      exact Fields.walk_complete t fs _ (by simpa [Val.covered] using h)
  | .list xs, h => by
      simp only [Val.walk, Val.nodes]; exact Vals.walk_complete t xs (by simpa [Val.covered] using h)
  | .str _, _ => rfl | .int _, _ => rfl | .bool _, _ => rfl | .nil, _ => rfl
theorem Vals.walk_complete (t : ChildTable) : ∀ vs : Vals, vs.covered t = true → vs.walk t = vs.nodes
  | .nil, _ => rfl
  | .cons v vs, h => by
      simp only [Vals.covered, Bool.and_eq_true] at h
      simp only [Vals.walk, Vals.nodes, Val.walk_complete t v h.1, Vals.walk_complete t vs h.2]
theorem Fields.walk_complete (t : ChildTable) :
    ∀ (fs : Fields) (a : Option (List String)), fs.covered t a = true → fs.walk t a = fs.nodes
  | .nil, _, _ => rfl
  | .cons n v fs, a, h => by
      simp only [Fields.covered, Bool.and_eq_true, Bool.or_eq_true] at h
      obtain ⟨⟨h1, h2⟩, h3⟩ := h
      simp only [Fields.walk, Fields.nodes, Fields.walk_complete t fs a h3]
      congr 1
      cases a with
      | none => exact Val.walk_complete t v h2
      | some l =>
        simp only
        cases h1 with
        | inl hc => simp only at hc; rw [if_pos hc, Val.walk_complete t v h2]
        | inr he =>
          have hn : v.nodes = [] := by simpa using he
          by_cases hc : l.contains n = true
          · rw [if_pos hc, Val.walk_complete t v h2]
          · rw [if_neg hc, hn]
end

-- soundness: nothing is visited that is not part of the tree (walk is a sublist of nodes)
mutual
theorem Val.walk_sound (t : ChildTable) : ∀ v : Val, (v.walk t).Sublist v.nodes
  | .node ty fs => by
      simp only [Val.walk, Val.nodes]; exact List.Sublist.cons₂ _ (Fields.walk_sound t fs _)
  | .struct fs => by simp only [Val.walk, Val.nodes]; exact Fields.walk_sound t fs _
  | .list xs => by simp only [Val.walk, Val.nodes]; exact Vals.walk_sound t xs
  | .str _ => by simp [Val.walk, Val.nodes]
  | .int _ => by simp [Val.walk, Val.nodes]
  | .bool _ => by simp [Val.walk, Val.nodes]
  | .nil => by simp [Val.walk, Val.nodes]
theorem Vals.walk_sound (t : ChildTable) : ∀ vs : Vals, (vs.walk t).Sublist vs.nodes
  | .nil => by simp [Vals.walk, Vals.nodes]
  | .cons v vs => by
      simp only [Vals.walk, Vals.nodes]
      exact List.Sublist.append (Val.walk_sound t v) (Vals.walk_sound t vs)
theorem Fields.walk_sound (t : ChildTable) :
    ∀ (fs : Fields) (a : Option (List String)), (fs.walk t a).Sublist fs.nodes
  | .nil, _ => by simp [Fields.walk, Fields.nodes]
  | .cons n v fs, a => by
      simp only [Fields.walk, Fields.nodes]
      apply List.Sublist.append _ (Fields.walk_sound t fs a)
      cases a with
      | none => exact Val.walk_sound t v
      | some l =>
        simp only
        split
        · exact Val.walk_sound t v
        · exact List.nil_sublist _
end

end GoSQLXModel
