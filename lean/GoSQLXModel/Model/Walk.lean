import GoSQLXModel.Model.Val
/-!
# Walk / Inspect over `Val`, driven by a Children() table

Mirrors `pkg/sql/ast/visitor.go`: `Walk(v, n)` visits `n`, then walks every element of
`n.Children()`.  `Children()` of a node of type `ty` returns the node-valued content of the field
*paths* listed for `ty` in the table: a plain name (`Where`) allows the whole field; a dotted path
(`Action.Where`) allows that field of a by-value helper struct (`allowed` carries the remaining
suffixes while the walk is inside the helper struct).
-/
namespace GoSQLXModel

abbrev ChildTable := String → List String

/-- the suffixes of the allowed paths that start with `n.` -/
def subPaths (l : List String) (n : String) : List String :=
  l.filterMap fun p => if (n ++ ".").isPrefixOf p then some ((p.drop (n.length + 1)).toString) else none

/-- what is allowed below field `n`: `none` = everything, `some []` = nothing -/
def allowBelow (allowed : Option (List String)) (n : String) : Option (List String) :=
  match allowed with
  | none => none
  | some l => if l.contains n then none else some (subPaths l n)

mutual
def Val.walk (t : ChildTable) : Option (List String) → Val → List String
  | _, .node ty fs => ty :: fs.walk t (some (t ty))
  | a, .struct fs => fs.walk t a
  | a, .list xs => xs.walk t a
  | _, _ => []
def Vals.walk (t : ChildTable) : Option (List String) → Vals → List String
  | _, .nil => [] | a, .cons v vs => v.walk t a ++ vs.walk t a
def Fields.walk (t : ChildTable) : Fields → Option (List String) → List String
  | .nil, _ => []
  | .cons n v fs, allowed =>
    (match allowBelow allowed n with
     | some [] => []
     | a => v.walk t a) ++ fs.walk t allowed
end

/-- a node value is only followed when its whole field is allowed -/
def wholeAllowed : Option (List String) → Bool
  | none => true
  | some _ => false

-- the table mentions every field path of every node of `v` that holds any node
mutual
def Val.covered (t : ChildTable) : Option (List String) → Val → Bool
  | a, .node ty fs => wholeAllowed a && fs.covered t (some (t ty))
  | a, .struct fs => fs.covered t a
  | a, .list xs => xs.covered t a
  | _, _ => true
def Vals.covered (t : ChildTable) : Option (List String) → Vals → Bool
  | _, .nil => true | a, .cons v vs => v.covered t a && vs.covered t a
def Fields.covered (t : ChildTable) : Fields → Option (List String) → Bool
  | .nil, _ => true
  | .cons n v fs, allowed =>
    (v.nodes.isEmpty ||
      (match allowBelow allowed n with
       | some [] => false
       | a => v.covered t a)) && fs.covered t allowed
end

-- a node met while only part of a helper struct is allowed is not returned by Children(); to keep `walk`
--     total and simple such a node is still *entered* by `walk` above, so `covered` demands `wholeAllowed` there
mutual
theorem Val.walk_complete (t : ChildTable) : ∀ (a : Option (List String)) (v : Val), v.covered t a = true → v.walk t a = v.nodes
  | a, .node ty fs, h => by
      simp only [Val.covered, Bool.and_eq_true] at h
      simp only [Val.walk, Val.nodes]; congr 1
      exact Fields.walk_complete t fs _ h.2
  | a, .struct fs, h => by
      simp only [Val.walk, Val.nodes]
      exact Fields.walk_complete t fs _ (by simpa [Val.covered] using h)
  | a, .list xs, h => by
      simp only [Val.walk, Val.nodes]; exact Vals.walk_complete t a xs (by simpa [Val.covered] using h)
  | _, .str _, _ => rfl | _, .int _, _ => rfl | _, .bool _, _ => rfl | _, .nil, _ => rfl
theorem Vals.walk_complete (t : ChildTable) : ∀ (a : Option (List String)) (vs : Vals), vs.covered t a = true → vs.walk t a = vs.nodes
  | _, .nil, _ => rfl
  | a, .cons v vs, h => by
      simp only [Vals.covered, Bool.and_eq_true] at h
      simp only [Vals.walk, Vals.nodes, Val.walk_complete t a v h.1, Vals.walk_complete t a vs h.2]
theorem Fields.walk_complete (t : ChildTable) :
    ∀ (fs : Fields) (a : Option (List String)), fs.covered t a = true → fs.walk t a = fs.nodes
  | .nil, _, _ => rfl
  | .cons n v fs, a, h => by
      simp only [Fields.covered, Bool.and_eq_true, Bool.or_eq_true] at h
      obtain ⟨h1, h3⟩ := h
      simp only [Fields.walk, Fields.nodes, Fields.walk_complete t fs a h3]
      congr 1
      cases hb : allowBelow a n with
      | none =>
        rw [hb] at h1
        simp only
        cases h1 with
        | inl he =>
          have hn : v.nodes = [] := by simpa using he
          rw [hn]
          exact Val.walk_nil_of_nodes_nil t none v hn
        | inr hc => exact Val.walk_complete t none v hc
      | some l =>
        rw [hb] at h1
        cases l with
        | nil =>
          simp only
          cases h1 with
          | inl he => have hn : v.nodes = [] := by simpa using he
                      rw [hn]
          | inr hc => simp at hc
        | cons p ps =>
          simp only
          cases h1 with
          | inl he =>
            have hn : v.nodes = [] := by simpa using he
            rw [hn]
            exact Val.walk_nil_of_nodes_nil t _ v hn
          | inr hc => exact Val.walk_complete t _ v hc
theorem Val.walk_nil_of_nodes_nil (t : ChildTable) : ∀ (a : Option (List String)) (v : Val), v.nodes = [] → v.walk t a = []
  | _, .node ty fs, h => by simp [Val.nodes] at h
  | a, .struct fs, h => by simp only [Val.nodes] at h; simp only [Val.walk]; exact Fields.walk_nil_of_nodes_nil t fs a h
  | a, .list xs, h => by simp only [Val.nodes] at h; simp only [Val.walk]; exact Vals.walk_nil_of_nodes_nil t a xs h
  | _, .str _, _ => rfl | _, .int _, _ => rfl | _, .bool _, _ => rfl | _, .nil, _ => rfl
theorem Vals.walk_nil_of_nodes_nil (t : ChildTable) : ∀ (a : Option (List String)) (vs : Vals), vs.nodes = [] → vs.walk t a = []
  | _, .nil, _ => rfl
  | a, .cons v vs, h => by
      simp only [Vals.nodes, List.append_eq_nil_iff] at h
      simp only [Vals.walk, Val.walk_nil_of_nodes_nil t a v h.1, Vals.walk_nil_of_nodes_nil t a vs h.2, List.append_nil]
theorem Fields.walk_nil_of_nodes_nil (t : ChildTable) : ∀ (fs : Fields) (a : Option (List String)), fs.nodes = [] → fs.walk t a = []
  | .nil, _, _ => rfl
  | .cons n v fs, a, h => by
      simp only [Fields.nodes, List.append_eq_nil_iff] at h
      simp only [Fields.walk, Fields.walk_nil_of_nodes_nil t fs a h.2, List.append_nil]
      cases hb : allowBelow a n with
      | none => exact Val.walk_nil_of_nodes_nil t none v h.1
      | some l =>
        cases l with
        | nil => rfl
        | cons p ps => exact Val.walk_nil_of_nodes_nil t _ v h.1
end

-- soundness: nothing is visited that is not part of the tree (walk is a sublist of nodes)
mutual
theorem Val.walk_sound (t : ChildTable) : ∀ (a : Option (List String)) (v : Val), (v.walk t a).Sublist v.nodes
  | _, .node ty fs => by
      simp only [Val.walk, Val.nodes]; exact List.Sublist.cons_cons _ (Fields.walk_sound t fs _)
  | a, .struct fs => by simp only [Val.walk, Val.nodes]; exact Fields.walk_sound t fs _
  | a, .list xs => by simp only [Val.walk, Val.nodes]; exact Vals.walk_sound t a xs
  | _, .str _ => by simp [Val.walk, Val.nodes]
  | _, .int _ => by simp [Val.walk, Val.nodes]
  | _, .bool _ => by simp [Val.walk, Val.nodes]
  | _, .nil => by simp [Val.walk, Val.nodes]
theorem Vals.walk_sound (t : ChildTable) : ∀ (a : Option (List String)) (vs : Vals), (vs.walk t a).Sublist vs.nodes
  | _, .nil => by simp [Vals.walk, Vals.nodes]
  | a, .cons v vs => by
      simp only [Vals.walk, Vals.nodes]
      exact List.Sublist.append (Val.walk_sound t a v) (Vals.walk_sound t a vs)
theorem Fields.walk_sound (t : ChildTable) :
    ∀ (fs : Fields) (a : Option (List String)), (fs.walk t a).Sublist fs.nodes
  | .nil, _ => by simp [Fields.walk, Fields.nodes]
  | .cons n v fs, a => by
      simp only [Fields.walk, Fields.nodes]
      apply List.Sublist.append _ (Fields.walk_sound t fs a)
      cases hb : allowBelow a n with
      | none => exact Val.walk_sound t none v
      | some l =>
        cases l with
        | nil => exact List.nil_sublist _
        | cons p ps => exact Val.walk_sound t _ v
end

end GoSQLXModel
