import GoSQLXModel.Model.Tables
/-!
# Node pools (pkg/sql/ast/pool.go) as a state machine

A pooled node is its type plus, per field, whether the field currently holds non-zero content
("dirty").  `put` applies the site's clearing list and pushes the node; `get` pops a node of the
requested type or constructs a fresh (all-zero) one.  `sync.Pool` is modelled as a list: which
pooled node `get` returns is irrelevant to the theorem because *every* pooled node is clean.
-/
namespace GoSQLXModel.Pool

structure PNode where
  ty : String
  fields : List (String × Bool)   -- (field, dirty)
  deriving Repr, DecidableEq

def PNode.Clean (n : PNode) : Prop := ∀ p ∈ n.fields, p.2 = false

def clear (cleared : List String) (n : PNode) : PNode :=
  { n with fields := n.fields.map fun p => (p.1, p.2 && !cleared.contains p.1) }

def fresh (s : Schema) (ty : String) : PNode :=
  { ty := ty, fields := (s.fieldNames ty).map fun f => (f, false) }

/-- a node is well-typed when its field names are those of its type in the schema -/
def WellTyped (s : Schema) (n : PNode) : Prop := ∀ p ∈ n.fields, p.1 ∈ s.fieldNames n.ty

inductive Op where
  | put (site : String) (n : PNode)      -- caller returns an arbitrary (dirty) node at a site
  | get (ty : String)

abbrev State := List PNode

def takeTy (ty : String) : State → Option (PNode × State)
  | [] => none
  | n :: rest => if n.ty == ty then some (n, rest) else
      match takeTy ty rest with
      | some (m, rest') => some (m, n :: rest')
      | none => none

/-- one step; the output is the node handed to the caller by `get` -/
def step (s : Schema) (sites : PoolSites) (st : State) : Op → State × Option PNode
  | .put site n =>
    match sites.find? (fun e => e.1 == site && e.2.1 == n.ty) with
    | some e => (clear e.2.2 n :: st, none)
    | none => (st, none)                       -- no such site for this type: node is not pooled
  | .get ty =>
    match takeTy ty st with
    | some (n, rest) => (rest, some n)
    | none => (st, some (fresh s ty))

def run (s : Schema) (sites : PoolSites) : State → List Op → State × List PNode
  | st, [] => (st, [])
  | st, op :: ops =>
    let (st', o) := step s sites st op
    let (st'', os) := run s sites st' ops
    (st'', match o with | some n => n :: os | none => os)

theorem fresh_clean (s : Schema) (ty : String) : (fresh s ty).Clean := by
  intro p hp; simp [fresh] at hp; obtain ⟨_, _, rfl⟩ := hp; rfl

theorem clear_clean {s : Schema} {cleared : List String} {n : PNode}
    (hw : WellTyped s n) (hc : ∀ f ∈ s.fieldNames n.ty, f ∈ cleared) : (clear cleared n).Clean := by
  intro p hp
  simp only [clear, List.mem_map] at hp
  obtain ⟨q, hq, rfl⟩ := hp
  have : q.1 ∈ cleared := hc _ (hw q hq)
  simp [List.contains_iff_mem, this]

theorem takeTy_clean {ty : String} {st : State} {n : PNode} {rest : State}
    (h : takeTy ty st = some (n, rest)) (hall : ∀ m ∈ st, m.Clean) :
    n.Clean ∧ ∀ m ∈ rest, m.Clean := by
  induction st generalizing n rest with
  | nil => simp [takeTy] at h
  | cons a st ih =>
    simp only [takeTy] at h
    split at h
    · simp at h; obtain ⟨rfl, rfl⟩ := h
      exact ⟨hall _ (by simp), fun m hm => hall m (by simp [hm])⟩
    · split at h
      · rename_i m rest' heq
        simp at h; obtain ⟨rfl, rfl⟩ := h
        have := ih heq (fun m hm => hall m (by simp [hm]))
        refine ⟨this.1, fun m hm => ?_⟩
        simp at hm
        rcases hm with rfl | hm
        · exact hall _ (by simp)
        · exact this.2 m hm
      · simp at h

/-- the invariant: every pooled node is clean -/
def Inv (st : State) : Prop := ∀ m ∈ st, m.Clean

/-- `Covers`: every pool-return site clears every field of its element type -/
def Covers (s : Schema) (sites : PoolSites) : Prop :=
  ∀ e ∈ sites, ∀ f ∈ s.fieldNames e.2.1, f ∈ e.2.2

theorem step_inv {s : Schema} {sites : PoolSites} (hc : Covers s sites) {st : State} (hi : Inv st)
    (op : Op) (hw : ∀ site n, op = .put site n → WellTyped s n) :
    Inv (step s sites st op).1 ∧ ∀ n, (step s sites st op).2 = some n → n.Clean := by
  cases op with
  | put site n =>
    simp only [step]
    split
    · rename_i e he
      have hmem := List.mem_of_find?_eq_some he
      have hp := List.find?_some he
      simp only [Bool.and_eq_true, beq_iff_eq] at hp
      refine ⟨?_, by simp⟩
      intro m hm
      simp at hm
      rcases hm with rfl | hm
      · exact clear_clean (hw site n rfl) (by rw [← hp.2]; exact hc e hmem)
      · exact hi m hm
    · exact ⟨hi, by simp⟩
  | get ty =>
    simp only [step]
    split
    · rename_i n rest heq
      have := takeTy_clean heq hi
      exact ⟨this.2, by intro m hm; simp at hm; subst hm; exact this.1⟩
    · exact ⟨hi, by intro m hm; simp at hm; subst hm; exact fresh_clean s ty⟩

/-- **Pool.clean_invariant** — for every history of put/get over arbitrary well-typed (arbitrarily
    dirty) nodes, starting from any clean pool, every node handed out by `get` is clean. -/
theorem clean_invariant {s : Schema} {sites : PoolSites} (hc : Covers s sites) :
    ∀ (ops : List Op) (st : State), Inv st →
      (∀ site n, Op.put site n ∈ ops → WellTyped s n) →
      Inv (run s sites st ops).1 ∧ ∀ n ∈ (run s sites st ops).2, n.Clean := by
  intro ops
  induction ops with
  | nil => intro st hi _; exact ⟨hi, by simp [run]⟩
  | cons op ops ih =>
    intro st hi hw
    have hs := step_inv hc hi op (fun site n h => hw site n (by simp [h]))
    have := ih (step s sites st op).1 hs.1 (fun site n h => hw site n (by simp [h]))
    simp only [run]
    refine ⟨this.1, ?_⟩
    intro n hn
    cases ho : (step s sites st op).2 with
    | none => simp [ho] at hn; exact this.2 n hn
    | some m =>
      simp [ho] at hn
      rcases hn with rfl | hn
      · exact hs.2 _ ho
      · exact this.2 n hn

end GoSQLXModel.Pool
