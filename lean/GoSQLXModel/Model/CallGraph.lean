/-!
# Call graphs with a depth-guard idiom, and the stack bound a ranking certificate yields

An edge is a static call site `(caller, callee, guarded)`.  `guarded = true` means the call site is
dominated by `depth++ ; defer depth-- ; if depth > Max { return error }`, so while the callee runs
the counter has been incremented (and was ≤ Max when the call was made).  A goroutine stack is a
*chain* of edges.  If `rank` strictly decreases along every unguarded edge (a certificate that the
unguarded sub-graph is acyclic), a chain with `g` guarded edges has length ≤ (g+1)·(R+1)-1+…;
with the counter bounded by `Max` this bounds the stack independently of the input length.
-/
namespace GoSQLXModel.CallGraph

abbrev Edge := String × String × Bool   -- (src, dst, guarded)

def rankOf (r : List (String × Nat)) (f : String) : Nat :=
  match r.find? (fun e => e.1 == f) with
  | some e => e.2
  | none => 0

/-- offending edges: unguarded edges along which the rank does not strictly decrease -/
def checkRanking (edges : List Edge) (r : List (String × Nat)) : List Edge :=
  edges.filter fun e => !e.2.2 && !(rankOf r e.2.1 < rankOf r e.1)

def maxRank (r : List (String × Nat)) : Nat := r.foldl (fun m e => max m e.2) 0

/-- a chain of call edges: each edge starts where the previous one ended -/
def Chain : String → List Edge → Prop
  | _, [] => True
  | s, e :: rest => e.1 = s ∧ Chain e.2.1 rest

def guardedCount (p : List Edge) : Nat := (p.filter (·.2.2)).length

theorem rankOf_le_maxRank (r : List (String × Nat)) (f : String) : rankOf r f ≤ maxRank r := by
  unfold rankOf maxRank
  split
  · rename_i e he
    have hmem := List.mem_of_find?_eq_some he
    have : ∀ (l : List (String × Nat)) (m : Nat), e ∈ l → e.2 ≤ l.foldl (fun m e => max m e.2) m := by
      intro l
      induction l with
      | nil => intro m h; simp at h
      | cons a l ih =>
        intro m h
        simp only [List.foldl_cons]
        rcases List.mem_cons.mp h with rfl | h
        · have mono : ∀ (l : List (String × Nat)) (m : Nat), m ≤ l.foldl (fun m e => max m e.2) m := by
            intro l; induction l with
            | nil => intro m; simp
            | cons b l ih2 => intro m; simp only [List.foldl_cons]; exact Nat.le_trans (Nat.le_max_left _ _) (ih2 _)
          exact Nat.le_trans (Nat.le_max_right _ _) (mono l _)
        · exact ih _ h
    exact this r 0 hmem
  · exact Nat.zero_le _

/-- **ranking_bounds_unguarded** — along any chain starting at `s` whose edges all belong to a graph
    with a valid ranking, `length ≤ guardedCount·(R+1) + rank s`. -/
theorem ranking_bounds_chain (edges : List Edge) (r : List (String × Nat))
    (hr : checkRanking edges r = []) :
    ∀ (p : List Edge) (s : String), Chain s p → (∀ e ∈ p, e ∈ edges) →
      p.length ≤ guardedCount p * (maxRank r + 1) + rankOf r s := by
  intro p
  induction p with
  | nil => intro s _ _; simp [guardedCount]
  | cons e rest ih =>
    intro s hc hmem
    obtain ⟨hs, hrest⟩ := hc
    have ihr := ih e.2.1 hrest (fun x hx => hmem x (by simp [hx]))
    have he : e ∈ edges := hmem e (by simp)
    cases hg : e.2.2 with
    | true =>
      have hgc : guardedCount (e :: rest) = guardedCount rest + 1 := by simp [guardedCount, hg]
      have hle := rankOf_le_maxRank r e.2.1
      rw [hgc, List.length_cons, Nat.add_mul]
      omega
    | false =>
      have hgc : guardedCount (e :: rest) = guardedCount rest := by simp [guardedCount, hg]
      have hdec : rankOf r e.2.1 < rankOf r e.1 := by
        have := List.filter_eq_nil_iff.mp hr e he
        simpa [hg] using this
      rw [hgc, List.length_cons, ← hs]
      omega

/-- **stack bound**: with at most `D` guarded edges on the stack (the depth counter is checked
    against the limit before any further call is made), a stack holds at most
    `(D+1)·(R+1)` frames below its entry point, whatever the input length. -/
theorem stack_bounded (edges : List Edge) (r : List (String × Nat)) (hr : checkRanking edges r = [])
    (p : List Edge) (s : String) (hc : Chain s p) (hmem : ∀ e ∈ p, e ∈ edges) (D : Nat)
    (hD : guardedCount p ≤ D) : p.length ≤ (D + 1) * (maxRank r + 1) := by
  have h := ranking_bounds_chain edges r hr p s hc hmem
  have h2 := rankOf_le_maxRank r s
  have : guardedCount p * (maxRank r + 1) ≤ D * (maxRank r + 1) := Nat.mul_le_mul_right _ hD
  rw [Nat.add_mul]
  omega

/-- conversely, an unguarded cycle admits arbitrarily long chains with no guarded edge:
    iterating a closed unguarded chain `c` from `s` to `s` -/
def iter (c : List Edge) : Nat → List Edge
  | 0 => []
  | n+1 => c ++ iter c n

def chainEnd : String → List Edge → String
  | s, [] => s
  | _, e :: rest => chainEnd e.2.1 rest

theorem chain_append {s : String} {a b : List Edge} (ha : Chain s a) (hb : Chain (chainEnd s a) b) :
    Chain s (a ++ b) := by
  induction a generalizing s with
  | nil => simpa [chainEnd] using hb
  | cons e rest ih =>
    obtain ⟨h1, h2⟩ := ha
    exact ⟨h1, ih h2 (by simpa [chainEnd] using hb)⟩

theorem unguarded_cycle_unbounded (c : List Edge) (s : String) (hc : Chain s c) (hclosed : chainEnd s c = s)
    (hne : c ≠ []) (hung : guardedCount c = 0) :
    ∀ n, Chain s (iter c n) ∧ guardedCount (iter c n) = 0 ∧ n ≤ (iter c n).length := by
  intro n
  induction n with
  | zero => simp [iter, Chain, guardedCount]
  | succ n ih =>
    obtain ⟨h1, h2, h3⟩ := ih
    refine ⟨chain_append hc (by rw [hclosed]; exact h1), ?_, ?_⟩
    · simp only [iter, guardedCount, List.filter_append, List.length_append] at *
      omega
    · have : 0 < c.length := by cases c with | nil => exact absurd rfl hne | cons a l => simp
      simp only [iter, List.length_append]
      omega

end GoSQLXModel.CallGraph
