import GoSQLXModel.Model.CharClass
/-!
# The tokenizer (pkg/sql/tokenizer/tokenizer.go) over bytes

The input is a byte list; runes are decoded exactly as Go's `utf8.DecodeRune` does (invalid bytes decode to
U+FFFD of width 1).  A reader takes the *remaining suffix* and returns the token and the new suffix; byte offsets
are `input.length - rest.length`; line/column are a pure function of the input and an offset (`locOf`, the meaning
of `toSQLPosition`).  Keyword, compound-keyword and operator tables are parameters (`Tables`), instantiated with the
tables regenerated from the source (`Gen/LexTables.lean`).  The main loop carries fuel; `Proofs/LexProgress.lean`
shows `input.length + 1` always suffices (every reader strictly shortens the suffix).
-/
namespace GoSQLXModel.Lex

abbrev Bytes := List UInt8

/-! ## UTF-8 as in Go -/
def runeError : Nat := 0xFFFD

def isCont (b : UInt8) : Bool := 0x80 ≤ b.toNat && b.toNat ≤ 0xBF

/-- `utf8.DecodeRune`: (rune, width); empty input gives (RuneError, 0) -/
def decodeRune : Bytes → Nat × Nat
  | [] => (runeError, 0)
  | b0 :: rest =>
    let n0 := b0.toNat
    if n0 < 0x80 then (n0, 1)
    else if n0 < 0xC2 then (runeError, 1)
    else if n0 < 0xE0 then
      match rest with
      | b1 :: _ => if isCont b1 then ((n0 % 32) * 64 + (b1.toNat % 64), 2) else (runeError, 1)
      | _ => (runeError, 1)
    else if n0 < 0xF0 then
      match rest with
      | b1 :: b2 :: _ =>
        let lo := if n0 == 0xE0 then 0xA0 else 0x80
        let hi := if n0 == 0xED then 0x9F else 0xBF
        if lo ≤ b1.toNat && b1.toNat ≤ hi && isCont b2 then
          ((n0 % 16) * 4096 + (b1.toNat % 64) * 64 + (b2.toNat % 64), 3)
        else (runeError, 1)
      | _ => (runeError, 1)
    else if n0 < 0xF5 then
      match rest with
      | b1 :: b2 :: b3 :: _ =>
        let lo := if n0 == 0xF0 then 0x90 else 0x80
        let hi := if n0 == 0xF4 then 0x8F else 0xBF
        if lo ≤ b1.toNat && b1.toNat ≤ hi && isCont b2 && isCont b3 then
          ((n0 % 8) * 262144 + (b1.toNat % 64) * 4096 + (b2.toNat % 64) * 64 + (b3.toNat % 64), 4)
        else (runeError, 1)
      | _ => (runeError, 1)
    else (runeError, 1)

/-- `utf8.AppendRune` (as used by `bytes.Buffer.WriteRune`) -/
def encodeRune (r : Nat) : Bytes :=
  let r := if r > 0x10FFFF || (0xD800 ≤ r && r ≤ 0xDFFF) then runeError else r
  if r < 0x80 then [UInt8.ofNat r]
  else if r < 0x800 then [UInt8.ofNat (0xC0 + r / 64), UInt8.ofNat (0x80 + r % 64)]
  else if r < 0x10000 then [UInt8.ofNat (0xE0 + r / 4096), UInt8.ofNat (0x80 + (r / 64) % 64), UInt8.ofNat (0x80 + r % 64)]
  else [UInt8.ofNat (0xF0 + r / 262144), UInt8.ofNat (0x80 + (r / 4096) % 64), UInt8.ofNat (0x80 + (r / 64) % 64),
        UInt8.ofNat (0x80 + r % 64)]

/-- first rune and the suffix after it (none at end of input) -/
def nextRune (bs : Bytes) : Option (Nat × Bytes) :=
  match bs with
  | [] => none
  | _ :: _ => let d := decodeRune bs; some (d.1, bs.drop (max d.2 1))

/-! ## character classes (tokenizer/unicode.go) -/
def isLetterR (cls : CharClass) (r : Nat) : Bool := cls.isLetter (Char.ofNat r)
def isIdentStart (cls : CharClass) (r : Nat) : Bool := isLetterR cls r || r == 95
def isIdentChar (cls : CharClass) (r : Nat) : Bool :=
  let c := Char.ofNat r
  cls.isLetter c || cls.isDigit c || r == 95 || cls.isMark c || cls.isConnector c
def isDigitR (r : Nat) : Bool := 48 ≤ r && r ≤ 57
def normalizeQuote (r : Nat) : Nat :=
  if r == 0x2018 || r == 0x2019 || r == 0xAB || r == 0xBB then 39
  else if r == 0x201C || r == 0x201D then 34 else r
def isStringQuoteStart (r : Nat) : Bool := r == 39 || r == 0x2018 || r == 0x2019 || r == 0xAB || r == 0xBB

/-- drop runes while `p` holds (fuel = length suffices) -/
def dropRunesF (p : Nat → Bool) : Nat → Bytes → Bytes
  | 0, bs => bs
  | fuel+1, bs =>
    match nextRune bs with
    | none => bs
    | some (r, rest) => if p r then dropRunesF p fuel rest else bs
def dropRunes (p : Nat → Bool) (bs : Bytes) : Bytes := dropRunesF p bs.length bs

/-- the bytes of `bs` before its suffix `rest` -/
def consumed (bs rest : Bytes) : Bytes := bs.take (bs.length - rest.length)

/-- `strings.ToUpper` of a byte string (rune-wise) -/
def upperF (cls : CharClass) : Nat → Bytes → Bytes
  | 0, _ => []
  | fuel+1, bs =>
    match nextRune bs with
    | none => []
    | some (r, rest) => encodeRune (cls.toUpper (Char.ofNat r)).toNat ++ upperF cls fuel rest
def upper (cls : CharClass) (bs : Bytes) : Bytes := upperF cls bs.length bs

/-! ## tokens, comments, errors -/
structure Tok where
  ty : Nat
  value : Bytes
  quote : Nat := 0
  startOff : Nat := 0
  endOff : Nat := 0
  deriving Repr, DecidableEq

structure Comment where
  text : Bytes
  block : Bool
  startOff : Nat
  endOff : Nat
  inline : Bool
  deriving Repr, DecidableEq

/-- where an error is located: at a byte offset (through toSQLPosition), or through the tokenizer's internal
    line/column bookkeeping (two sites; not modelled), or the fixed (1,0) of the size check -/
inductive ErrLoc where | at (off : Nat) | internal | fixed
  deriving Repr, DecidableEq

structure LexErr where
  code : String
  loc : ErrLoc
  deriving Repr, DecidableEq

structure Tables where
  keywords : List (Bytes × Nat)
  compoundStarts : List Bytes
  compoundTypes : List (Bytes × Nat)
  operators : List (Bytes × Nat)
  ttIdentifier : Nat
  ttNumber : Nat
  ttPlaceholder : Nat
  ttSingle : Nat
  ttDouble : Nat
  ttString : Nat
  ttTripleSingle : Nat
  ttTripleDouble : Nat
  ttDollar : Nat
  maxTokens : Nat
  maxInput : Nat

def lookup (tbl : List (Bytes × Nat)) (k : Bytes) : Option Nat := (tbl.find? (·.1 == k)).map (·.2)

/-! ## whitespace and comments -/
def isWS (b : UInt8) : Bool := b == 32 || b == 9 || b == 13 || b == 10

/-- rest after a line comment body: up to and including the first newline -/
def afterLine : Bytes → Bytes
  | [] => []
  | b :: bs => if b == 10 then bs else afterLine bs

/-- rest after a block comment body: up to and including the first `*/`; everything when there is none -/
def afterBlock : Bytes → Bytes
  | [] => []
  | [_] => []
  | a :: b :: bs => if a == 42 && b == 47 then bs else afterBlock (b :: bs)

/-- is there anything but blanks between the start of the line and offset `off`? -/
def codeBefore (inp : Bytes) (off : Nat) : Bool :=
  let pre := (inp.take off).reverse          -- bytes before `off`, nearest first
  (pre.takeWhile (· != 10)).any fun b => !(b == 32 || b == 9 || b == 13)

def skipTriviaF (inp : Bytes) : Nat → Bytes → List Comment → Bytes × List Comment
  | 0, rest, cs => (rest.dropWhile isWS, cs)
  | fuel+1, rest, cs =>
    let r1 := rest.dropWhile isWS
    match r1 with
    | c0 :: c1 :: body =>
      if c0 == 45 && c1 == 45 then
        let r2 := afterLine body
        let whole := consumed r1 r2
        -- the text stops before the newline that ends the comment
        let text := if whole.getLast? == some 10 then whole.dropLast else whole
        skipTriviaF inp fuel r2
          (cs ++ [{ text, block := false, startOff := inp.length - r1.length, endOff := inp.length - r2.length,
                    inline := codeBefore inp (inp.length - r1.length) }])
      else if c0 == 47 && c1 == 42 then
        let r2 := afterBlock body
        skipTriviaF inp fuel r2
          (cs ++ [{ text := consumed r1 r2, block := true, startOff := inp.length - r1.length,
                    endOff := inp.length - r2.length, inline := codeBefore inp (inp.length - r1.length) }])
      else (r1, cs)
    | _ => (r1, cs)

/-! ## readers (each takes the suffix that starts with the token) -/

/-- readIdentifier, including the compound-keyword look-ahead -/
def readIdentifier (cls : CharClass) (tb : Tables) (bs : Bytes) : Tok × Bytes :=
  match nextRune bs with
  | none => ({ ty := tb.ttIdentifier, value := [] }, bs)
  | some (_, r1) =>
    let r2 := dropRunes (isIdentChar cls) r1
    let ident := consumed bs r2
    let up := upper cls ident
    let ty := (lookup tb.keywords up).getD tb.ttIdentifier
    let plain : Tok × Bytes := ({ ty, value := ident }, r2)
    if tb.compoundStarts.contains up then
      let r3 := r2.dropWhile isWS
      match nextRune r3 with
      | none => plain
      | some (r, r4) =>
        if isIdentStart cls r then
          let r5 := dropRunes (isIdentChar cls) r4
          let compound := ident ++ [32] ++ consumed r3 r5
          match lookup tb.compoundTypes (upper cls compound) with
          | some cty => ({ ty := cty, value := compound }, r5)
          | none => plain
        else plain
    else plain

/-- optional fraction of a number: `.` must be followed by a digit -/
def numFrac (inp r1 : Bytes) : Except LexErr Bytes :=
  match r1 with
  | 46 :: r2 =>
    match r2 with
    | [] => .error ⟨"E1003", .at (inp.length - r2.length)⟩
    | d :: _ => if isDigitR d.toNat then .ok (dropRunes isDigitR r2) else .error ⟨"E1003", .at (inp.length - r2.length)⟩
  | _ => .ok r1

def skipSign : Bytes → Bytes
  | s :: r => if s == 43 || s == 45 then r else s :: r
  | [] => []

/-- optional exponent: `e`/`E`, optional sign, at least one digit -/
def numExp (inp r3 : Bytes) : Except LexErr Bytes :=
  match r3 with
  | e :: r4 =>
    if e == 101 || e == 69 then
      match skipSign r4 with
      | [] => .error ⟨"E1003", .at inp.length⟩
      | d :: r5 =>
        if isDigitR d.toNat then .ok (dropRunes isDigitR (d :: r5))
        else .error ⟨"E1003", .at (inp.length - (d :: r5).length)⟩
    else .ok r3
  | [] => .ok r3

/-- readNumber -/
def readNumber (tb : Tables) (inp bs : Bytes) : Except LexErr (Tok × Bytes) :=
  if (dropRunes isDigitR bs).isEmpty then
    .ok ({ ty := tb.ttNumber, value := consumed bs (dropRunes isDigitR bs) }, dropRunes isDigitR bs)
  else
    match numFrac inp (dropRunes isDigitR bs) with
    | .error e => .error e
    | .ok r3 =>
      match numExp inp r3 with
      | .error e => .error e
      | .ok r6 => .ok ({ ty := tb.ttNumber, value := consumed bs r6 }, r6)

/-- body of a double-quoted identifier (after the opening quote); `quote` is the normalised quote -/
def quotedIdentF (quote : Nat) : Nat → Bytes → Bytes → Option (Bytes × Bytes) ⊕ Unit
  -- inl (some (value, rest)) : closed; inl none : end of input; inr () : newline inside
  | 0, _, _ => .inl none
  | fuel+1, bs, acc =>
    match nextRune bs with
    | none => .inl none
    | some (r0, rest) =>
      let r := normalizeQuote r0
      if r == quote then
        match nextRune rest with
        | some (n0, rest2) =>
          if normalizeQuote n0 == quote then quotedIdentF quote fuel rest2 (acc ++ encodeRune r)
          else .inl (some (acc, rest))
        | none => .inl (some (acc, rest))
      else if r == 10 then .inr ()
      else quotedIdentF quote fuel rest (acc ++ encodeRune r)

def readQuotedIdentifier (tb : Tables) (inp bs : Bytes) : Except LexErr (Tok × Bytes) :=
  match nextRune bs with
  | none => .error ⟨"E1002", .at (inp.length - bs.length)⟩
  | some (r0, r1) =>
    let quote := normalizeQuote r0
    match quotedIdentF quote r1.length r1 [] with
    | .inl (some (v, rest)) => .ok ({ ty := tb.ttDouble, value := v, quote }, rest)
    | .inl none => .error ⟨"E1002", .at (inp.length - bs.length)⟩
    | .inr () => .error ⟨"E1002", .at (inp.length - bs.length)⟩

/-- body of a backtick identifier (bytes) -/
def backtickF : Bytes → Bytes → Option (Bytes × Bytes)
  | [], _ => none
  | b :: rest, acc =>
    if b == 96 then
      match rest with
      | b2 :: rest2 => if b2 == 96 then backtickF rest2 (acc ++ [96]) else some (acc, rest)
      | [] => some (acc, rest)
    else backtickF rest (acc ++ [b])

def readBacktick (tb : Tables) (inp bs : Bytes) : Except LexErr (Tok × Bytes) :=
  match backtickF (bs.drop 1) [] with
  | some (v, rest) => .ok ({ ty := tb.ttIdentifier, value := v }, rest)
  | none => .error ⟨"E1002", .at (inp.length - bs.length)⟩

/-- body of an ordinary string literal after the opening quote -/
def stringBodyF (inp : Bytes) (quote : Nat) : Nat → Bytes → Bytes → Except LexErr (Option (Bytes × Bytes))
  | 0, _, _ => .ok none
  | fuel+1, bs, acc =>
    match nextRune bs with
    | none => .ok none
    | some (r0, rest) =>
      let r := normalizeQuote r0
      if r == quote then
        match nextRune rest with
        | some (n0, rest2) =>
          if normalizeQuote n0 == quote then stringBodyF inp quote fuel rest2 (acc ++ encodeRune r)
          else .ok (some (acc, rest))
        | none => .ok (some (acc, rest))
      else if r == 92 then
        -- handleEscapeSequence: the backslash is one byte
        match nextRune bs.tail with
        | none => .error ⟨"E1002", .at (inp.length - bs.tail.length)⟩
        | some (e, rest2) =>
          if e == 92 || e == 34 || e == 39 || e == 96 then stringBodyF inp quote fuel rest2 (acc ++ encodeRune e)
          else if e == 110 then stringBodyF inp quote fuel rest2 (acc ++ [10])
          else if e == 114 then stringBodyF inp quote fuel rest2 (acc ++ [13])
          else if e == 116 then stringBodyF inp quote fuel rest2 (acc ++ [9])
          else .error ⟨"E1001", .at (inp.length - bs.tail.length)⟩
      else stringBodyF inp quote fuel rest (acc ++ encodeRune r)

/-- does a closing `quote quote quote` start here?  Tested only when at least three bytes remain. -/
def tripleCloses (quote : Nat) (bs : Bytes) : Option Bytes :=
  if bs.length < 3 then none
  else
    match nextRune bs with
    | some (r1, t1) =>
      match nextRune t1 with
      | some (r2, t2) =>
        match nextRune t2 with
        | some (r3, t3) => if r1 == quote && r2 == quote && r3 == quote then some t3 else none
        | none => none
      | none => none
    | none => none

/-- body of a triple-quoted string after the opening three quotes (`quote` is the raw quote rune) -/
def tripleBodyF (quote : Nat) : Nat → Bytes → Bytes → Option (Bytes × Bytes)
  | 0, _, _ => none
  | fuel+1, bs, acc =>
    match tripleCloses quote bs with
    | some t3 => some (acc, t3)
    | none =>
      match nextRune bs with
      | none => none
      | some (r, rest) => tripleBodyF quote fuel rest (acc ++ encodeRune r)

/-- triple quote: at least three bytes, and the bytes at +1 and +2 decode to the opening quote rune -/
def isTriple (r0 : Nat) (bs : Bytes) : Bool :=
  3 ≤ bs.length && (decodeRune (bs.drop 1)).1 == r0 && (decodeRune (bs.drop 2)).1 == r0

/-- the rest after two more runes (the opening of a triple-quoted string consumes three runes) -/
def dropTwoRunes (r1 : Bytes) : Bytes :=
  match nextRune r1 with
  | some (_, t) => (match nextRune t with | some (_, t2) => t2 | none => t)
  | none => r1

/-- readQuotedString (called with the raw opening rune) -/
def readQuotedString (tb : Tables) (inp bs : Bytes) : Except LexErr (Tok × Bytes) :=
  match nextRune bs with
  | none => .error ⟨"E1002", .at (inp.length - bs.length)⟩
  | some (r0, r1) =>
    if isTriple r0 bs then
      match tripleBodyF r0 (dropTwoRunes r1).length (dropTwoRunes r1) [] with
      | some (v, rest) =>
        .ok ({ ty := if r0 == 39 then tb.ttTripleSingle else tb.ttTripleDouble, value := v, quote := r0 }, rest)
      | none => .error ⟨"E1002", .at (inp.length - bs.length)⟩
    else
      match stringBodyF inp (normalizeQuote r0) r1.length r1 [] with
      | .error e => .error e
      | .ok none => .error ⟨"E1002", .at (inp.length - bs.length)⟩
      | .ok (some (v, rest)) =>
        let ty := if isStringQuoteStart r0 then tb.ttSingle
                  else if r0 == 34 || r0 == 0x201C || r0 == 0x201D then tb.ttDouble else tb.ttString
        .ok ({ ty, value := v, quote := r0 }, rest)

/-- longest operator of the table that is a prefix of the input -/
def longestOp (ops : List (Bytes × Nat)) (bs : Bytes) : Option (Bytes × Nat) :=
  ops.foldl (fun best o =>
    if o.1.isPrefixOf bs && o.1 != [] then
      match best with
      | some b => if o.1.length > b.1.length then some o else best
      | none => some o
    else best) none

/-- find the closing tag of a dollar-quoted string: (content, rest after the tag) -/
def dollarBodyF (closing : Bytes) : Nat → Bytes → Bytes → Option (Bytes × Bytes)
  | 0, _, _ => none
  | fuel+1, bs, acc =>
    match bs with
    | [] => none
    | b :: _ =>
      if b == 36 && closing.isPrefixOf bs then some (acc, bs.drop closing.length)
      else
        let d := decodeRune bs
        let w := max d.2 1
        dollarBodyF closing fuel (bs.drop w) (acc ++ bs.take w)

/-- the `$` branch of readPunctuation; `bs` starts with `$` -/
def readDollar (cls : CharClass) (tb : Tables) (inp bs : Bytes) : Except LexErr (Tok × Bytes) :=
  let r1 := bs.drop 1
  let ph (rest : Bytes) : Except LexErr (Tok × Bytes) := .ok ({ ty := tb.ttPlaceholder, value := [36] }, rest)
  match nextRune r1 with
  | none => ph r1
  | some (n, _) =>
    if isDigitR n then
      let r2 := dropRunes isDigitR r1
      .ok ({ ty := tb.ttPlaceholder, value := 36 :: consumed r1 r2 }, r2)
    else if n == 36 || isIdentStart cls n then
      -- tag characters up to the next `$`
      let r2 := if n == 36 then r1 else dropRunes (fun c => c != 36 && isIdentChar cls c) r1
      match nextRune r2 with
      | none => ph r1
      | some (c, r3) =>
        if c != 36 then ph r1          -- a lone `$`: what was scanned as a possible tag is given back
        else
          let tag := consumed r1 r2
          let closing := [36] ++ tag ++ [36]
          match dollarBodyF closing r3.length r3 [] with
          | some (content, rest) => .ok ({ ty := tb.ttDollar, value := content }, rest)
          | none => .error ⟨"E1002", .at (inp.length - bs.length)⟩
    else ph r1

/-- readPunctuation; `bs` is non-empty and its first rune starts no identifier, number or quoted token -/
def readPunctuation (cls : CharClass) (tb : Tables) (inp bs : Bytes) : Except LexErr (Tok × Bytes) :=
  match bs with
  | [] => .error ⟨"E2005", .at inp.length⟩
  | b :: r1 =>
    if b == 36 then readDollar cls tb inp bs
    else if b == 64 then
      -- `@>` `@@` `@name` `@`
      match nextRune r1 with
      | some (n, _) =>
        if n == 62 then .ok ({ ty := (lookup tb.operators [64, 62]).getD 0, value := [64, 62] }, r1.drop 1)
        else if n == 64 then .ok ({ ty := (lookup tb.operators [64, 64]).getD 0, value := [64, 64] }, r1.drop 1)
        else if isIdentStart cls n then
          let (t, rest) := readIdentifier cls tb r1
          .ok ({ ty := tb.ttPlaceholder, value := 64 :: t.value }, rest)
        else .ok ({ ty := (lookup tb.operators [64]).getD 0, value := [64] }, r1)
      | none => .ok ({ ty := (lookup tb.operators [64]).getD 0, value := [64] }, r1)
    else
      match longestOp tb.operators bs with
      | some (op, ty) => .ok ({ ty, value := op }, bs.drop op.length)
      | none => .error ⟨"E1001", .at (inp.length - bs.length)⟩

/-- nextToken -/
def nextToken (cls : CharClass) (tb : Tables) (inp bs : Bytes) : Except LexErr (Tok × Bytes) :=
  let r := (decodeRune bs).1
  if isIdentStart cls r then .ok (readIdentifier cls tb bs)
  else if isDigitR r then readNumber tb inp bs
  else if r == 34 || r == 0x201C || r == 0x201D then readQuotedIdentifier tb inp bs
  else if r == 96 then readBacktick tb inp bs
  else if isStringQuoteStart r then readQuotedString tb inp bs
  else readPunctuation cls tb inp bs

inductive Result where
  | ok (toks : List Tok) (comments : List Comment)
  | err (e : LexErr)
  | outOfFuel
  deriving Repr, DecidableEq

def lexLoop (cls : CharClass) (tb : Tables) (inp : Bytes) : Nat → Bytes → List Tok → List Comment → Result
  | 0, _, _, _ => .outOfFuel
  | fuel+1, rest, toks, cs =>
    let (r1, cs1) := skipTriviaF inp (rest.length + 1) rest cs
    match r1 with
    | [] =>
      let off := inp.length
      .ok (toks.reverse ++ [{ ty := 0, value := [], startOff := off, endOff := off }]) cs1
    | _ =>
      if toks.length ≥ tb.maxTokens then .err ⟨"E1007", .at (inp.length - r1.length)⟩
      else
        match nextToken cls tb inp r1 with
        | .error e => .err e
        | .ok (t, r2) =>
          lexLoop cls tb inp fuel r2
            ({ t with startOff := inp.length - r1.length, endOff := inp.length - r2.length } :: toks) cs1

/-- `Tokenizer.Tokenize` -/
def tokenize (cls : CharClass) (tb : Tables) (inp : Bytes) : Result :=
  if inp.length > tb.maxInput then .err ⟨"E1006", .fixed⟩
  else lexLoop cls tb inp (inp.length + 1) inp [] []

/-! ## positions: the meaning of `toSQLPosition` -/

/-- (line, column) of byte offset `off`: 1-based; a tab advances the column by 4, any other byte by 1 -/
def locOf (inp : Bytes) (off : Nat) : Nat × Nat :=
  let pre := inp.take off
  let line := 1 + (pre.filter (· == 10)).length
  let lastLine := (pre.reverse.takeWhile (· != 10))
  let col := 1 + (lastLine.map fun b => if b == 9 then 4 else 1).sum
  (line, col)

end GoSQLXModel.Lex
