import GoSQLXModel.Model.ExprParse
import GoSQLXModel.Gen.LexTables
/-! Token classification for the expression model, by the names of `models.TokenType` constants (numbers regenerated). -/
namespace GoSQLXModel.ExprParse

/-- the class of a token type, by constant name — mirrors the `isType` tests of expressions.go -/
def classOfName (n : String) : TK :=
  if n == "TokenTypeOr" then .or
  else if n == "TokenTypeAnd" then .and
  else if n == "TokenTypeNot" then .not
  else if ["TokenTypeEq", "TokenTypeNeq", "TokenTypeLt", "TokenTypeGt", "TokenTypeLtEq", "TokenTypeGtEq", "TokenTypeTilde",
           "TokenTypeTildeAsterisk", "TokenTypeExclamationMarkTilde", "TokenTypeExclamationMarkTildeAsterisk"].contains n then .cmp
  else if n == "TokenTypeStringConcat" then .cat
  else if n == "TokenTypePlus" then .plus
  else if n == "TokenTypeMinus" then .minus
  else if n == "TokenTypeAsterisk" || n == "TokenTypeMul" then .star
  else if n == "TokenTypeDiv" then .div
  else if n == "TokenTypeMod" then .mod
  else if n == "TokenTypeLParen" || n == "TokenTypeLeftParen" then .lparen
  else if n == "TokenTypeRParen" || n == "TokenTypeRightParen" then .rparen
  else if n == "TokenTypeIdentifier" || n == "TokenTypeDoubleQuotedString" then .ident
  else if n == "TokenTypeNumber" then .num
  else if ["TokenTypeString", "TokenTypeSingleQuotedString", "TokenTypeDollarQuotedString"].contains n then .str
  else if n == "TokenTypeTrue" || n == "TokenTypeFalse" then .bool
  else if n == "TokenTypeNull" then .null
  else if n == "TokenTypeIs" then .is
  else if n == "TokenTypeBetween" then .between
  else if n == "TokenTypeLike" then .like
  else if n == "TokenTypeILike" then .ilike
  else if n == "TokenTypeIn" then .in_
  else if n == "TokenTypeComma" then .comma
  else if ["TokenTypeEOF", "TokenTypeSemicolon"].contains n then .stop
  else if ["TokenTypeDoubleColon", "TokenTypeArrow", "TokenTypeLongArrow", "TokenTypeHashArrow", "TokenTypeHashLongArrow",
           "TokenTypeAtArrow", "TokenTypeArrowAt", "TokenTypeHashMinus", "TokenTypeQuestion", "TokenTypeQuestionPipe",
           "TokenTypeQuestionAnd", "TokenTypeLBracket", "TokenTypePeriod", "TokenTypeDot"].contains n then .cont
  else .other

/-- class of a token type number: the first constant of the regenerated table with that value decides; aliases of
    one number must agree (obligation `Props.C03.gen_alias_classes_agree`) -/
def classOfType (ty : Nat) : TK :=
  match Gen.Lex.tokenTypes.find? (·.2 == ty) with
  | some e => classOfName e.1
  | none => .other

end GoSQLXModel.ExprParse
