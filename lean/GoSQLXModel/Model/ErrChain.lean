/-!
# Go error chains: `*errors.Error` (code + optional cause), `fmt.Errorf` with `%w` / `%v`,
`ParseError.Unwrap`, context errors — and `errors.Is` / `errors.As` over them.
-/
namespace GoSQLXModel.ErrChain

inductive Err where
  | ctx (deadline : Bool)                       -- context.Canceled / context.DeadlineExceeded
  | bare (msg : String)                         -- errors.New / fmt.Errorf without %w (also `%v` of anything)
  | structured (code : String)                  -- *errors.Error{Code} without a cause
  | caused (code : String) (cause : Err)        -- *errors.Error{Code, Cause: cause}
  | wrapW (msg : String) (inner : Err)          -- fmt.Errorf("...%w", inner)
  | parseError (idx : Nat) (inner : Err)        -- *parser.ParseError with Unwrap
  deriving DecidableEq, Repr

/-- one `Unwrap()` step -/
def unwrap : Err → Option Err
  | .ctx _ => none
  | .bare _ => none
  | .structured _ => none
  | .caused _ c => some c
  | .wrapW _ i => some i
  | .parseError _ i => some i

def depth : Err → Nat
  | .ctx _ => 0 | .bare _ => 0
  | .structured _ => 0
  | .caused _ c => depth c + 1
  | .wrapW _ i => depth i + 1
  | .parseError _ i => depth i + 1

/-- `errors.Is(e, target)` for comparable sentinel targets -/
def errIs (e target : Err) : Bool :=
  e == target ||
  match e with
  | .caused _ c => errIs c target
  | .wrapW _ i => errIs i target
  | .parseError _ i => errIs i target
  | _ => false

/-- `errors.As(e, **errors.Error)`: the code of the first structured error in the chain -/
def errAs : Err → Option String
  | .structured code => some code
  | .caused code _ => some code
  | .wrapW _ i => errAs i
  | .parseError _ i => errAs i
  | .ctx _ => none
  | .bare _ => none

/-- `fmt.Errorf("... %v", e)` / `fmt.Sprintf("%v", e)` inside a builder: the chain is dropped -/
def flatten (msg : String) (_e : Err) : Err := .bare msg

/-- a wrapper layer that keeps the chain -/
inductive Layer where
  | w (msg : String)                 -- fmt.Errorf("msg: %w", e)
  | cause (code : String)            -- errors.WrapError(code, ..., cause = e)
  | pe (idx : Nat)                   -- &ParseError{Err: e}
  deriving Repr

def Layer.apply : Layer → Err → Err
  | .w m, e => .wrapW m e
  | .cause c, e => .caused c e
  | .pe i, e => .parseError i e

def applyLayers (ls : List Layer) (e : Err) : Err := ls.foldr Layer.apply e

theorem errIs_refl (e : Err) : errIs e e = true := by
  cases e <;> simp [errIs]

theorem errIs_layer (l : Layer) (e t : Err) (h : errIs e t = true) : errIs (l.apply e) t = true := by
  cases l <;> simp [Layer.apply, errIs, h]

/-- **ErrChain.is_preserved** — through any number of chain-keeping layers the cause stays reachable -/
theorem is_preserved (ls : List Layer) (e : Err) : errIs (applyLayers ls e) e = true := by
  induction ls with
  | nil => simpa [applyLayers] using errIs_refl e
  | cons l ls ih => simpa [applyLayers] using errIs_layer l _ e (by simpa [applyLayers] using ih)

/-- **ErrChain.as_reaches** — `%w` / ParseError layers over a structured error expose it to errors.As -/
theorem as_reaches (ls : List Layer) (code : String)
    (hw : ∀ l ∈ ls, match l with | .cause _ => False | _ => True) :
    errAs (applyLayers ls (.structured code)) = some code := by
  induction ls with
  | nil => simp [applyLayers, errAs]
  | cons l ls ih =>
    have ih' := ih (fun l' hl' => hw l' (by simp [hl']))
    have hl := hw l (by simp)
    cases l with
    | w m => simpa [applyLayers, Layer.apply, errAs] using ih'
    | pe i => simpa [applyLayers, Layer.apply, errAs] using ih'
    | cause c' => simp at hl

/-- every layered chain over a structured error exposes *some* structured error -/
theorem as_some (ls : List Layer) (code : String) :
    (errAs (applyLayers ls (.structured code))).isSome = true := by
  induction ls with
  | nil => simp [applyLayers, errAs]
  | cons l ls ih =>
    cases l with
    | w m => simpa [applyLayers, Layer.apply, errAs] using ih
    | pe i => simpa [applyLayers, Layer.apply, errAs] using ih
    | cause c' => simp [applyLayers, Layer.apply, errAs]

/-- flattening loses the context error, whatever wraps the flattened value afterwards -/
theorem flatten_loses_ctx (msg : String) (e : Err) (ls : List Layer) (d : Bool)
    (hl : ∀ l ∈ ls, match l with | .cause _ => True | .w _ => True | .pe _ => True) :
    errIs (applyLayers ls (flatten msg e)) (.ctx d) = false := by
  induction ls with
  | nil => simp [applyLayers, flatten, errIs]
  | cons l ls ih =>
    have ih' := ih (fun l' hl' => hl l' (by simp [hl']))
    cases l <;> simp [applyLayers, Layer.apply, errIs] <;> simpa [applyLayers] using ih'

end GoSQLXModel.ErrChain
