import GoSQLXModel.Model.Loops
/-!
# C12: recovery over semicolon-separated segments

A script is a list of segments `(start, semi, good)`: the segment's first token, the position of the
semicolon that terminates it, and whether it is well-formed.
* good: `parseStatement` started at `start` succeeds and stops exactly at the semicolon;
* bad : it fails somewhere inside the segment without consuming the semicolon, and the segment contains
  no semicolon / statement-starting keyword / EOF after its first token.
`recovery_segments`: recovery returns exactly the good segments' statements in order and one error per bad
segment, each error naming its own segment's first token (`TokenIdx = start`).
-/
namespace GoSQLXModel.Loops

structure Seg where
  start : Nat
  semi : Nat
  good : Bool
  deriving Repr

variable (I : Input)

/-- well-formedness of one segment w.r.t. the token kinds and the statement oracle -/
def SegOK (s : Seg) : Prop :=
  s.start < s.semi ∧ s.semi < I.n ∧ I.kind s.semi = .semi ∧
  (I.kind s.start ≠ .semi ∧ I.kind s.start ≠ .eof) ∧
  (∀ j, s.start < j → j < s.semi → I.kind j = .other) ∧
  (if s.good then (I.stmt s.start).ok = true ∧ (I.stmt s.start).stop = s.semi
   else (I.stmt s.start).ok = false ∧ s.start ≤ (I.stmt s.start).stop ∧ (I.stmt s.start).stop ≤ s.semi)

/-- consecutive segments: each starts right after the previous one's semicolon; after the last one the loop ends -/
def Chain : Nat → List Seg → Prop
  | pos, [] => more I pos = false
  | pos, s :: rest => s.start = pos ∧ SegOK I s ∧ Chain (s.semi + 1) rest

theorem more_of_lt_other {j : Nat} (hlt : j < I.n) (hk : I.kind j = .other) : more I j = true := by
  simp [more, hlt, hk]

theorem more_of_semi {j : Nat} (hlt : j < I.n) (hk : I.kind j = .semi) : more I j = true := by
  simp [more, hlt, hk]

/-- scanning `other` tokens up to a semicolon: synchronize stops right after the semicolon -/
theorem sync_scan (q : Nat) (hq : q < I.n) (hsemi : I.kind q = .semi) :
    ∀ (d p f : Nat), p + d = q → (∀ j, p ≤ j → j < q → I.kind j = .other) → d + 1 ≤ f →
      sync I f p = some (q + 1) := by
  intro d
  induction d with
  | zero =>
    intro p f hp _ hf
    have : p = q := by omega
    subst this
    obtain ⟨g, rfl⟩ : ∃ g, f = g + 1 := ⟨f - 1, by omega⟩
    simp [sync, more_of_semi I hq hsemi, hsemi]
  | succ d ih =>
    intro p f hp hother hf
    obtain ⟨g, rfl⟩ : ∃ g, f = g + 1 := ⟨f - 1, by omega⟩
    have hk : I.kind p = .other := hother p (Nat.le_refl _) (by omega)
    have hm : more I p = true := more_of_lt_other I (by omega) hk
    simp only [sync, hm, if_true, hk]
    simp only [reduceCtorEq, if_false]
    exact ih (p+1) g (by omega) (fun j h1 h2 => hother j (by omega) h2) (by omega)

/-- **C12.segments** — recovery returns precisely the statements of the well-formed segments, in order,
    and one error per malformed segment, each naming a token (the first) inside its own segment. -/
theorem recovery_segments :
    ∀ (segs : List Seg) (pos f : Nat) (st er : List Nat), Chain I pos segs → I.n + 2 ≤ f + pos → 0 < f →
      recLoop I f pos st er =
        some (st ++ (segs.filter (·.good)).map (·.start), er ++ (segs.filter (fun s => !s.good)).map (·.start)) := by
  intro segs
  induction segs with
  | nil =>
    intro pos f st er hc hf hf0
    obtain ⟨g, rfl⟩ : ∃ g, f = g + 1 := ⟨f - 1, by omega⟩
    simp only [Chain] at hc
    simp [recLoop, hc]
  | cons s rest ih =>
    intro pos f st er hc hf hf0
    obtain ⟨hstart, hok, hrest⟩ := hc
    obtain ⟨h1, h2, h3, ⟨h4a, h4b⟩, h5, h6⟩ := hok
    subst hstart
    obtain ⟨g, rfl⟩ : ∃ g, f = g + 1 := ⟨f - 1, by omega⟩
    have hm : more I s.start = true := by
      simp only [more, Bool.and_eq_true, decide_eq_true_eq, Bool.not_eq_true', beq_eq_false_iff_ne]
      exact ⟨by omega, h4b⟩
    simp only [recLoop, hm, if_true, h4a, if_false]
    cases hg : s.good with
    | true =>
      rw [hg] at h6; simp only [if_true] at h6
      simp only [h6.1, if_true, h6.2, h3]
      rw [ih (s.semi + 1) g _ _ hrest (by omega) (by omega)]
      simp [hg, List.append_assoc]
    | false =>
      rw [hg] at h6; simp only [Bool.false_eq_true, if_false] at h6
      obtain ⟨hnok, hge, hle⟩ := h6
      simp only [hnok, Bool.false_eq_true, if_false]
      have hsync : sync I g (if (I.stmt s.start).stop = s.start then s.start + 1 else (I.stmt s.start).stop) = some (s.semi + 1) := by
        split
        · exact sync_scan I s.semi h2 h3 (s.semi - (s.start + 1)) (s.start + 1) g (by omega)
            (fun j hj1 hj2 => h5 j (by omega) hj2) (by omega)
        · rename_i hne
          exact sync_scan I s.semi h2 h3 (s.semi - (I.stmt s.start).stop) (I.stmt s.start).stop g (by omega)
            (fun j hj1 hj2 => h5 j (by omega) hj2) (by omega)
      rw [hsync]
      simp only
      rw [ih (s.semi + 1) g _ _ hrest (by omega) (by omega)]
      simp [hg, List.append_assoc]

end GoSQLXModel.Loops
