/-!
# Table-shaped facts about pkg/sql/ast and the decidable checks over them

The tables themselves are regenerated from /repo on every run (`Gen/AstTables.lean`);
everything here is generic in the table.
-/
namespace GoSQLXModel

/-- (name, element type, kind ∈ {"iface","struct","other"}, repeated) -/
abbrev FieldInfo := String × String × String × Bool
/-- (type name, implements ast.Node, fields) -/
abbrev Schema := List (String × Bool × List FieldInfo)

def Schema.fieldsOf (s : Schema) (ty : String) : List FieldInfo :=
  match s.find? (fun e => e.1 == ty) with
  | some e => e.2.2
  | none => []

def Schema.isNode (s : Schema) (ty : String) : Bool :=
  match s.find? (fun e => e.1 == ty) with
  | some e => e.2.1
  | none => false

def Schema.fieldNames (s : Schema) (ty : String) : List String := (s.fieldsOf ty).map (·.1)

/-- can a field hold (directly or through helper structs) a value implementing ast.Node?
    `fuel` bounds the descent through by-value helper structs (≥ number of types suffices). -/
def Schema.nodeHolding (s : Schema) : Nat → FieldInfo → Bool
  | 0, _ => false
  | fuel+1, (_, elem, kind, _) =>
    if kind == "iface" then true
    else if kind == "struct" then
      s.isNode elem || (s.fieldsOf elem).any (s.nodeHolding fuel)
    else false

abbrev ChildrenTbl := List (String × List String)
def ChildrenTbl.get (t : ChildrenTbl) (ty : String) : List String :=
  match t.find? (fun e => e.1 == ty) with
  | some e => e.2
  | none => []

/-- C14 table check: node-holding fields of Node types that the type's Children() never mentions -/
def childOffenders (s : Schema) (t : ChildrenTbl) : List (String × String) :=
  s.flatMap fun (ty, isNode, fs) =>
    if isNode then
      (fs.filter fun f => s.nodeHolding (s.length + 1) f && !(t.get ty).contains f.1).map fun f => (ty, f.1)
    else []

/-- (site, element type, cleared fields) -/
abbrev PoolSites := List (String × String × List String)

/-- C09 table check: fields of a pooled type that a pool-return site leaves untouched -/
def poolOffenders (s : Schema) (sites : PoolSites) : List (String × String) :=
  sites.flatMap fun (site, ty, cleared) =>
    ((s.fieldNames ty).filter fun f => !cleared.contains f).map fun f => (site, f)

theorem poolOffenders_nil {s : Schema} {sites : PoolSites} (h : poolOffenders s sites = []) :
    ∀ e ∈ sites, ∀ f ∈ s.fieldNames e.2.1, f ∈ e.2.2 := by
  intro e he f hf
  obtain ⟨site, ty, cleared⟩ := e
  simp only [poolOffenders, List.flatMap_eq_nil_iff] at h
  have := h _ he
  simp only [List.map_eq_nil_iff, List.filter_eq_nil_iff] at this
  have := this f hf
  simpa using this

end GoSQLXModel
