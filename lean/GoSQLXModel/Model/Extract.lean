import GoSQLXModel.Model.WalkVals
/-!
# Metadata extraction (pkg/gosqlx/extract.go)

Every collector has the same shape: `collectFromNode(n)` first runs a per-type case — it records names read from
fields of `n` itself (`atNode`) and, for statements, pre-collects through an explicit expression walk
(`collectFromExpression`, which follows a fixed set of fields: `exprTable`, starting at `starts`) — and then recurses
into `n.Children()`.  Results are put in a map, i.e. they are a set.

`Collector.run` mirrors that double traversal.  `Collector.run_exact` says that for every tree covered by the Children()
table the result, as a set, is exactly `⋃ { atNode n | n a node of the tree }` — provided the explicit walk collects at a
node only what the node-level case collects there (`hsub`).  That side condition is what failed for
`ExtractFunctions` before the repair (no node-level `*ast.FunctionCall` case).
-/
namespace GoSQLXModel

/-! ## reading values at a field path (lists are flattened on the way) -/
mutual
def Val.at (p : List String) : Val → List Val
  | .list xs => xs.at p
  | .node ty fs => (match p with | [] => [.node ty fs] | f :: rest => fs.at f rest)
  | .struct fs => (match p with | [] => [.struct fs] | f :: rest => fs.at f rest)
  | .str s => (match p with | [] => [.str s] | _ => [])
  | .int n => (match p with | [] => [.int n] | _ => [])
  | .bool b => (match p with | [] => [.bool b] | _ => [])
  | .nil => []
def Vals.at (p : List String) : Vals → List Val
  | .nil => [] | .cons v vs => v.at p ++ vs.at p
def Fields.at (f : String) (rest : List String) : Fields → List Val
  | .nil => []
  | .cons n v fs => if n == f then v.at rest else fs.at f rest
end

-- everything read at a path is part of the value: its nodes are nodes of the value
mutual
theorem Val.at_sub : ∀ (p : List String) (v e m : Val), e ∈ v.at p → m ∈ e.nodeVals → m ∈ v.nodeVals
  | p, .list xs, e, m, he, hm => by
      simp only [Val.at] at he; simp only [Val.nodeVals]; exact Vals.at_sub p xs e m he hm
  | [], .node ty fs, e, m, he, hm => by
      simp only [Val.at, List.mem_singleton] at he; subst he; exact hm
  | f :: rest, .node ty fs, e, m, he, hm => by
      simp only [Val.at] at he
      simp only [Val.nodeVals, List.mem_cons]; exact Or.inr (Fields.at_sub f rest fs e m he hm)
  | [], .struct fs, e, m, he, hm => by
      simp only [Val.at, List.mem_singleton] at he; subst he; exact hm
  | f :: rest, .struct fs, e, m, he, hm => by
      simp only [Val.at] at he
      simp only [Val.nodeVals]; exact Fields.at_sub f rest fs e m he hm
  | [], .str s, e, m, he, hm => by
      simp only [Val.at, List.mem_singleton] at he; subst he; exact hm
  | _ :: _, .str s, e, m, he, hm => by simp [Val.at] at he
  | [], .int s, e, m, he, hm => by
      simp only [Val.at, List.mem_singleton] at he; subst he; exact hm
  | _ :: _, .int s, e, m, he, hm => by simp [Val.at] at he
  | [], .bool s, e, m, he, hm => by
      simp only [Val.at, List.mem_singleton] at he; subst he; exact hm
  | _ :: _, .bool s, e, m, he, hm => by simp [Val.at] at he
  | _, .nil, e, m, he, hm => by simp [Val.at] at he
theorem Vals.at_sub : ∀ (p : List String) (vs : Vals) (e m : Val), e ∈ vs.at p → m ∈ e.nodeVals → m ∈ vs.nodeVals
  | _, .nil, _, _, he, _ => by simp [Vals.at] at he
  | p, .cons v vs, e, m, he, hm => by
      simp only [Vals.at, List.mem_append] at he
      simp only [Vals.nodeVals, List.mem_append]
      cases he with
      | inl h => exact Or.inl (Val.at_sub p v e m h hm)
      | inr h => exact Or.inr (Vals.at_sub p vs e m h hm)
theorem Fields.at_sub : ∀ (f : String) (rest : List String) (fs : Fields) (e m : Val),
    e ∈ fs.at f rest → m ∈ e.nodeVals → m ∈ fs.nodeVals
  | _, _, .nil, _, _, he, _ => by simp [Fields.at] at he
  | f, rest, .cons n v fs, e, m, he, hm => by
      simp only [Fields.at] at he
      simp only [Fields.nodeVals, List.mem_append]
      by_cases hnf : (n == f) = true
      · rw [if_pos hnf] at he; exact Or.inl (Val.at_sub rest v e m he hm)
      · rw [if_neg hnf] at he; exact Or.inr (Fields.at_sub f rest fs e m he hm)
end

namespace Extract

def isNodeTy (ty : String) : Val → Bool
  | .node t _ => t == ty
  | _ => false

def fieldOf (fs : Fields) (k : String) : Val := (fs.get? k).getD .nil
def strOf : Val → String | .str s => s | _ => ""
def nonEmptyStr : Val → Option String
  | .str s => if s != "" then some s else none
  | _ => none

/-- duplicate-free list with the same members (the collectors' map) -/
def dedup {α} [DecidableEq α] : List α → List α
  | [] => []
  | x :: xs => if x ∈ dedup xs then dedup xs else x :: dedup xs

theorem mem_dedup {α} [DecidableEq α] (x : α) : ∀ l : List α, x ∈ dedup l ↔ x ∈ l
  | [] => by simp [dedup]
  | y :: ys => by
      have ih := mem_dedup x ys
      by_cases h : y ∈ dedup ys
      · simp only [dedup, if_pos h, List.mem_cons, ih]
        constructor
        · exact Or.inr
        · intro hx
          cases hx with
          | inl e => subst e; exact (mem_dedup x ys).1 h
          | inr e => exact e
      · simp only [dedup, if_neg h, List.mem_cons, ih]

theorem nodup_dedup {α} [DecidableEq α] : ∀ l : List α, (dedup l).Nodup
  | [] => by simp [dedup]
  | y :: ys => by
      by_cases h : y ∈ dedup ys
      · simp only [dedup, if_pos h]; exact nodup_dedup ys
      · simp only [dedup, if_neg h]; exact List.nodup_cons.2 ⟨h, nodup_dedup ys⟩

/-- one collector of extract.go -/
structure Collector (α : Type) where
  /-- what the per-type case records from the node's own fields -/
  atNode : Val → List α
  /-- (node type, path): where the per-type case starts its explicit expression walk -/
  starts : List (String × List String)
  /-- the fields `collectFromExpression` follows, per node type -/
  exprTable : ChildTable
  /-- what `collectFromExpression` records at a node it visits -/
  inExpr : Val → List α

/-- everything `collectFromNode(n)` records before recursing into Children() -/
def Collector.at {α} (c : Collector α) (n : Val) : List α :=
  c.atNode n ++ c.starts.flatMap fun sp =>
    if isNodeTy sp.1 n then (n.at sp.2).flatMap fun e => (e.walkVals c.exprTable none).flatMap c.inExpr else []

/-- the whole extraction: per-type case at every node the Children() recursion reaches, then the map -/
def Collector.run {α} [DecidableEq α] (c : Collector α) (t : ChildTable) (tree : Val) : List α :=
  dedup ((tree.walkVals t none).flatMap c.at)

/-- the specification: the names the node-level reading yields at each node of the tree -/
def Collector.spec {α} (c : Collector α) (tree : Val) : List α := tree.nodeVals.flatMap c.atNode

/-- the explicit walk never leaves the node: whatever it records is recorded at a descendant node -/
theorem Collector.at_sound {α} (c : Collector α) (hsub : ∀ n x, x ∈ c.inExpr n → x ∈ c.atNode n)
    (n : Val) (hn : ∃ ty fs, n = .node ty fs) (x : α) (hx : x ∈ c.at n) : ∃ m ∈ n.nodeVals, x ∈ c.atNode m := by
  unfold Collector.at at hx
  rw [List.mem_append] at hx
  cases hx with
  | inl h =>
    obtain ⟨ty, fs, rfl⟩ := hn
    exact ⟨.node ty fs, by simp [Val.nodeVals], h⟩
  | inr h =>
    simp only [List.mem_flatMap] at h
    obtain ⟨sp, _, h⟩ := h
    by_cases hty : isNodeTy sp.1 n = true
    · rw [if_pos hty] at h
      simp only [List.mem_flatMap] at h
      obtain ⟨e, he, m, hm, hxm⟩ := h
      have hm' : m ∈ e.nodeVals := (Val.walkVals_sublist c.exprTable none e).subset hm
      exact ⟨m, Val.at_sub sp.2 n e m he hm', hsub m x hxm⟩
    · rw [if_neg hty] at h; simp at h

/-- **exactness**: for every tree covered by the Children() table, the extraction result is, as a set, exactly the
    names read at the nodes of the tree — nothing missed (coverage), nothing extra (the explicit walk stays inside
    the tree and `hsub`), whatever the clause, nesting depth or order. -/
theorem Collector.run_exact {α} [DecidableEq α] (c : Collector α) (t : ChildTable) (tree : Val)
    (hsub : ∀ n x, x ∈ c.inExpr n → x ∈ c.atNode n) (hcov : tree.covered t none = true) (x : α) :
    x ∈ c.run t tree ↔ x ∈ c.spec tree := by
  unfold Collector.run Collector.spec
  rw [mem_dedup, Val.walkVals_complete t none tree hcov]
  simp only [List.mem_flatMap]
  constructor
  · rintro ⟨n, hn, hx⟩
    obtain ⟨m, hm, hxm⟩ := c.at_sound hsub n (Val.nodeVals_isNode tree n hn) x hx
    exact ⟨m, Val.nodeVals_trans tree n m hn hm, hxm⟩
  · rintro ⟨n, hn, hx⟩
    exact ⟨n, hn, by unfold Collector.at; exact List.mem_append_left _ hx⟩

/-- without the coverage hypothesis the result is still never more than the specification -/
theorem Collector.run_sound {α} [DecidableEq α] (c : Collector α) (t : ChildTable) (tree : Val)
    (hsub : ∀ n x, x ∈ c.inExpr n → x ∈ c.atNode n) (x : α) (h : x ∈ c.run t tree) : x ∈ c.spec tree := by
  unfold Collector.run at h
  unfold Collector.spec
  rw [mem_dedup] at h
  simp only [List.mem_flatMap] at h ⊢
  obtain ⟨n, hn, hx⟩ := h
  have hn' : n ∈ tree.nodeVals := (Val.walkVals_sublist t none tree).subset hn
  obtain ⟨m, hm, hxm⟩ := c.at_sound hsub n (Val.nodeVals_isNode tree n hn') x hx
  exact ⟨m, Val.nodeVals_trans tree n m hn' hm, hxm⟩

/-- results are duplicate-free -/
theorem Collector.run_nodup {α} [DecidableEq α] (c : Collector α) (t : ChildTable) (tree : Val) :
    (c.run t tree).Nodup := nodup_dedup _


/-! ## the collectors as tables (regenerated from extract.go into Gen/ExtractTables.lean) -/

/-- one case of a collector's type switch:
    (node type, records — each a list of argument paths —, guard texts, collectFromExpression starts) -/
abbrev Case := String × List (List (List String)) × List String × List (List String)

/-- what one `m[<path>] = true` / `addTable(<path>)` / `addColumn(<p1>, <p2>)` records at node `n` -/
def evalRecord (n : Val) : List (List String) → List (List String)
  | [p] => (n.at p).filterMap fun v => match v with | .str s => some [s] | _ => none
  | ps => [ps.map fun p => match n.at p with | .str s :: _ => s | _ => ""]

def recordsAt (cases : List Case) (guard : List String → Bool) (n : Val) : List (List String) :=
  cases.flatMap fun c => if isNodeTy c.1 n then (c.2.1.flatMap (evalRecord n)).filter guard else []

def startsOf (cases : List Case) : List (String × List String) :=
  cases.flatMap fun c => c.2.2.2.map fun p => (c.1, p)

/-- the fields `collectFromExpression` follows; a chain through a by-value Node field (`when.Condition` for
    `WhenClauses []WhenClause`) is split at that node type (`nodeElem ty f` = its element type when it is a Node) -/
def exprEntries (nodeElem : String → String → Option String) (cases : List Case) : List (String × String) :=
  cases.flatMap fun c => c.2.2.2.flatMap fun p =>
    match p with
    | [] => []
    | [f] => [(c.1, f)]
    | f :: rest =>
      match nodeElem c.1 f with
      | some el => [(c.1, f), (el, ".".intercalate rest)]
      | none => [(c.1, ".".intercalate p)]

def exprTableOf (nodeElem : String → String → Option String) (cases : List Case) : ChildTable :=
  fun ty => ((exprEntries nodeElem cases).filter (·.1 == ty)).map (·.2)

def mkCollector (nodeCases exprCases : List Case) (guard : List String → Bool)
    (nodeElem : String → String → Option String) : Collector (List String) :=
  { atNode := recordsAt nodeCases guard, starts := startsOf nodeCases,
    exprTable := exprTableOf nodeElem exprCases, inExpr := recordsAt exprCases guard }

/-- table condition for `hsub`: whatever the expression walk records at a node type, the node-level case of that
    type records too -/
def exprRecordsCovered (nodeCases exprCases : List Case) : Bool :=
  exprCases.all fun c => c.2.1.all fun r => nodeCases.any fun c' => c'.1 == c.1 && c'.2.1.contains r

theorem recordsAt_sub (nodeCases exprCases : List Case) (guard : List String → Bool)
    (h : exprRecordsCovered nodeCases exprCases = true) (n : Val) (x : List String)
    (hx : x ∈ recordsAt exprCases guard n) : x ∈ recordsAt nodeCases guard n := by
  unfold recordsAt at hx ⊢
  simp only [List.mem_flatMap] at hx ⊢
  obtain ⟨c, hc, hx⟩ := hx
  by_cases hty : isNodeTy c.1 n = true
  · rw [if_pos hty] at hx
    simp only [List.mem_filter, List.mem_flatMap] at hx
    obtain ⟨⟨r, hr, hxr⟩, hg⟩ := hx
    unfold exprRecordsCovered at h
    rw [List.all_eq_true] at h
    have h1 := h c hc
    rw [List.all_eq_true] at h1
    have h2 := h1 r hr
    rw [List.any_eq_true] at h2
    obtain ⟨c', hc', hcc⟩ := h2
    rw [Bool.and_eq_true] at hcc
    have hty' : isNodeTy c'.1 n = true := by
      have : c'.1 = c.1 := by simpa using hcc.1
      rw [this]; exact hty
    have hr' : r ∈ c'.2.1 := by simpa using hcc.2
    refine ⟨c', hc', ?_⟩
    rw [if_pos hty']
    simp only [List.mem_filter, List.mem_flatMap]
    exact ⟨⟨r, hr', hxr⟩, hg⟩
  · rw [if_neg hty] at hx; simp at hx

/-- **exactness of a table-driven collector**, from the table condition alone -/
theorem mkCollector_exact (nodeCases exprCases : List Case) (guard : List String → Bool)
    (nodeElem : String → String → Option String) (t : ChildTable) (tree : Val)
    (h : exprRecordsCovered nodeCases exprCases = true) (hcov : tree.covered t none = true) (x : List String) :
    x ∈ (mkCollector nodeCases exprCases guard nodeElem).run t tree ↔
      x ∈ tree.nodeVals.flatMap (recordsAt nodeCases guard) :=
  Collector.run_exact _ t tree (fun n x hx => recordsAt_sub nodeCases exprCases guard h n x hx) hcov x

theorem mkCollector_sound (nodeCases exprCases : List Case) (guard : List String → Bool)
    (nodeElem : String → String → Option String) (t : ChildTable) (tree : Val)
    (h : exprRecordsCovered nodeCases exprCases = true) (x : List String)
    (hx : x ∈ (mkCollector nodeCases exprCases guard nodeElem).run t tree) :
    x ∈ tree.nodeVals.flatMap (recordsAt nodeCases guard) :=
  Collector.run_sound _ t tree (fun n x hx => recordsAt_sub nodeCases exprCases guard h n x hx) x hx

/-- guards of extract.go -/
def guardNonEmpty (x : List String) : Bool := x.getLast?.getD "" != ""
def guardColumn (x : List String) : Bool := let n := x.getLast?.getD ""; n != "" && n != "*"

/-- `qualifiedTableCollector.addTable`: schema / middle / name by the number of dot-separated parts -/
def splitQualified (s : String) : List String :=
  match s.splitOn "." with
  | [a] => ["", "", a]
  | [a, b] => [a, "", b]
  | [a, b, c] => [a, b, c]
  | _ => ["", "", s]

end Extract
end GoSQLXModel
