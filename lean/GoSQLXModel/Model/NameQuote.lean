import GoSQLXModel.Model.Lex
/-! `safeIdentifier` of pkg/sql/ast/sql.go on ASCII names: bare when every byte is a letter, a digit, `_`, `*` or `.`,
    otherwise between double quotes with every double quote doubled; the empty name is `""`. -/
namespace GoSQLXModel.Lex

/-- the doubled-quote escaping of `safeIdentifier` -/
def escapeQuotes : Bytes → Bytes
  | [] => []
  | b :: bs => if b == 34 then 34 :: 34 :: escapeQuotes bs else b :: escapeQuotes bs

def quoteName (s : Bytes) : Bytes := 34 :: (escapeQuotes s ++ [34])

def safeByte (b : UInt8) : Bool :=
  b == 95 || b == 42 || b == 46 || (65 ≤ b.toNat && b.toNat ≤ 90) || (97 ≤ b.toNat && b.toNat ≤ 122) || (48 ≤ b.toNat && b.toNat ≤ 57)

/-- `safeIdentifier` on an ASCII name -/
def safeIdentifier (s : Bytes) : Bytes :=
  if s.isEmpty then [34, 34] else if s.all safeByte then s else quoteName s

end GoSQLXModel.Lex
