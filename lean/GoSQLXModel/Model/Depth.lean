/-!
# The recursion-depth counter of the parser

Every production that counts (`parseExpression`, `parseStatement` of a CTE body, …) does `p.depth++` and, with
`defer`, `p.depth--`. Model: a call tree; a counting call raises the counter, runs its sub-calls in order until one
fails, possibly fails itself, and — when it is `deferred` — lowers the counter on the way out *whichever way it
leaves*; an `inline` call (the shape a refactoring away from `defer` produces) lowers it only on the success path.
-/
namespace GoSQLXModel.Depth

inductive Exit where
  | deferred   -- `defer func() { p.depth-- }()`
  | inline     -- `p.depth--` written before the successful return only
  deriving DecidableEq, Repr

mutual
inductive Call where
  | node (counts : Bool) (exit : Exit) (failsItself : Bool) (kids : Calls)
inductive Calls where
  | nil
  | cons (c : Call) (cs : Calls)
end

mutual
/-- counter after the call, and whether the call succeeded -/
def runCall : Call → Nat → Nat × Bool
  | .node counts exit failsItself kids, d =>
    let d1 := if counts then d + 1 else d
    let (d2, ok) := runCalls kids d1
    let ok' := ok && !failsItself
    let d3 := if counts then (match exit with
      | .deferred => d2 - 1
      | .inline => if ok' then d2 - 1 else d2) else d2
    (d3, ok')
/-- sub-calls in order, stopping at the first failure -/
def runCalls : Calls → Nat → Nat × Bool
  | .nil, d => (d, true)
  | .cons c cs, d =>
    let (d1, ok) := runCall c d
    if ok then runCalls cs d1 else (d1, false)
end

mutual
/-- every counting call of the tree uses `defer` -/
def Call.allDeferred : Call → Bool
  | .node counts exit _ kids => (!counts || exit == .deferred) && kids.allDeferred
def Calls.allDeferred : Calls → Bool
  | .nil => true
  | .cons c cs => c.allDeferred && cs.allDeferred
end

end GoSQLXModel.Depth
