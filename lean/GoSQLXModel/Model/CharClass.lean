/-!
# Character classification as a parameter

The lexer, the lint fixers and the keyword tests use Go's `unicode` tables. Models take a `CharClass`;
theorems are stated for every classifier (possibly under a few well-formedness facts), and the driver
instantiates it with the tables dumped from the Go runtime in use (`Gen/Unicode.lean`).
-/
namespace GoSQLXModel

structure CharClass where
  isLetter : Char → Bool
  isDigit : Char → Bool      -- unicode.IsDigit (Nd)
  isSpace : Char → Bool      -- unicode.IsSpace
  isMark : Char → Bool       -- Mn | Mc
  isConnector : Char → Bool  -- Pc
  toUpper : Char → Char
  toLower : Char → Char

def inRanges (t : Array (Nat × Nat)) (n : Nat) : Bool :=
  -- binary search over sorted, disjoint ranges
  let rec go (lo hi fuel : Nat) : Bool :=
    match fuel with
    | 0 => false
    | fuel+1 =>
      if lo ≥ hi then false
      else
        let mid := (lo + hi) / 2
        let r := t[mid]!
        if n < r.1 then go lo mid fuel
        else if n > r.2 then go (mid+1) hi fuel
        else true
  go 0 t.size 64

def mapLookup (t : Array (Nat × Nat)) (n : Nat) : Nat :=
  let rec go (lo hi fuel : Nat) : Nat :=
    match fuel with
    | 0 => n
    | fuel+1 =>
      if lo ≥ hi then n
      else
        let mid := (lo + hi) / 2
        let r := t[mid]!
        if n < r.1 then go lo mid fuel
        else if n > r.1 then go (mid+1) hi fuel
        else r.2
  go 0 t.size 64

/-- ASCII-only classifier (used in examples and non-vacuity checks) -/
def CharClass.ascii : CharClass :=
  { isLetter := fun c => c.isAlpha, isDigit := fun c => c.isDigit,
    isSpace := fun c => c == ' ' || c == '\t' || c == '\n' || c == '\r' || c.toNat == 11 || c.toNat == 12,
    isMark := fun _ => false, isConnector := fun c => c == '_',
    toUpper := Char.toUpper, toLower := Char.toLower }

end GoSQLXModel
