import GoSQLXModel.Model.LspText
/-!
# LSP server core: document manager over histories, message dispatch, framing
-/
namespace GoSQLXModel.Lsp

/-! ## document manager (open / change / close) -/

inductive Change where
  | full (text : List Char)
  | ranged (sl sc el ec : Int) (text : List Char)
  deriving Repr

inductive DocOp where
  | open_ (uri : String) (text : List Char)
  | change (uri : String) (changes : List Change)
  | close (uri : String)
  deriving Repr

abbrev Docs := List (String × List Char)

def Docs.get (d : Docs) (uri : String) : Option (List Char) := (d.find? (·.1 == uri)).map (·.2)
def Docs.set (d : Docs) (uri : String) (t : List Char) : Docs := (uri, t) :: d.filter (fun e => !(e.1 == uri))
def Docs.del (d : Docs) (uri : String) : Docs := d.filter (fun e => !(e.1 == uri))

namespace Code
/-- `DocumentManager.Update`: each change is applied to the content produced by the previous one,
    with the line table recomputed from it (`none` = panic) -/
def update : List Char → List Change → Option (List Char)
  | content, [] => some content
  | _, .full t :: rest => update t rest
  | content, .ranged sl sc el ec t :: rest =>
    match applyChange content sl sc el ec t with
    | none => none
    | some c' => update c' rest

def step (d : Docs) : DocOp → Option Docs
  | .open_ uri t => some (d.set uri t)
  | .close uri => some (d.del uri)
  | .change uri cs =>
    match d.get uri with
    | none => some d                      -- unknown document: ignored
    | some content =>
      match update content cs with
      | none => none
      | some c' => some (d.set uri c')

def run : Docs → List DocOp → Option Docs
  | d, [] => some d
  | d, op :: ops => match step d op with | none => none | some d' => run d' ops
end Code

namespace Spec
def update : List Char → List Change → List Char
  | content, [] => content
  | _, .full t :: rest => update t rest
  | content, .ranged sl sc el ec t :: rest => update (apply content sl sc el ec t) rest

def step (d : Docs) : DocOp → Docs
  | .open_ uri t => d.set uri t
  | .close uri => d.del uri
  | .change uri cs => match d.get uri with | none => d | some content => d.set uri (update content cs)

def run (d : Docs) (ops : List DocOp) : Docs := ops.foldl step d
end Spec

theorem update_eq_spec (content : List Char) (cs : List Change) :
    Code.update content cs = some (Spec.update content cs) := by
  induction cs generalizing content with
  | nil => rfl
  | cons c cs ih =>
    cases c with
    | full t => simp only [Code.update, Spec.update, ih]
    | ranged sl sc el ec t => simp only [Code.update, Spec.update, applyChange_eq_spec, ih]

theorem step_eq_spec (d : Docs) (op : DocOp) : Code.step d op = some (Spec.step d op) := by
  cases op with
  | open_ uri t => rfl
  | close uri => rfl
  | change uri cs =>
    simp only [Code.step, Spec.step]
    cases d.get uri with
    | none => rfl
    | some content => simp only [update_eq_spec]

/-- **C18.mirror_refines_spec** — after *any* sequence of open / change / close notifications (full and
    incremental edits, any ranges) the server's copy of every document is the text obtained by applying those
    edits under the protocol's position rules; and the server never panics on the way. -/
theorem mirror_refines_spec (d : Docs) (ops : List DocOp) : Code.run d ops = some (Spec.run d ops) := by
  induction ops generalizing d with
  | nil => rfl
  | cons op ops ih => simp only [Code.run, step_eq_spec, Spec.run, List.foldl_cons]; exact ih _

/-! ## dispatch: which responses a message produces -/

/-- what the decoder can tell about an incoming message -/
structure Msg where
  tooShort : Bool        -- fewer than 2 bytes
  parses : Bool          -- json.Unmarshal into a Request succeeded
  hasId : Bool           -- an id is present (in the Request, or extractable from the malformed message)
  id : Nat
  hasMethod : Bool
  deriving Repr

inductive Out where
  | response (id : Nat)
  | nothing
  deriving DecidableEq, Repr

/-- `handleMessage` when the rate limiter admits the message: the list of responses sent -/
def handle (m : Msg) : List Nat :=
  if m.tooShort then []
  else if !m.parses then (if m.hasId then [m.id] else [])        -- handleMalformedRequest
  else if !m.hasMethod then (if m.hasId then [m.id] else [])     -- "missing method field"
  else if m.hasId then [m.id]                                     -- request: result or error, exactly one
  else []                                                         -- notification

/-- a message of fewer than two bytes cannot carry an id -/
def Msg.wf (m : Msg) : Prop := m.tooShort = true → m.hasId = false

/-- **C18.one_response_per_request** — a message with an id gets exactly one response carrying that id,
    a message without an id gets none; whatever else is wrong with it. -/
theorem one_response_per_request (m : Msg) (h : m.wf) :
    handle m = if m.hasId then [m.id] else [] := by
  unfold handle
  by_cases h1 : m.tooShort = true
  · simp [h1, h h1]
  · by_cases h2 : m.parses = true <;> by_cases h3 : m.hasMethod = true <;> by_cases h4 : m.hasId = true <;> simp [*]

/-- lifted to histories -/
theorem responses_of_history (ms : List Msg) (h : ∀ m ∈ ms, m.wf) :
    ms.flatMap handle = (ms.filter (·.hasId)).map (·.id) := by
  induction ms with
  | nil => rfl
  | cons m ms ih =>
    have hm := one_response_per_request m (h m (by simp))
    have := ih (fun x hx => h x (by simp [hx]))
    simp only [List.flatMap_cons, hm, this]
    by_cases hid : m.hasId = true <;> simp [hid]

/-! ## framing -/

def digitChar : Nat → Char
  | 0 => '0' | 1 => '1' | 2 => '2' | 3 => '3' | 4 => '4' | 5 => '5' | 6 => '6' | 7 => '7' | 8 => '8' | _ => '9'

def charVal (c : Char) : Option Nat :=
  if c = '0' then some 0 else if c = '1' then some 1 else if c = '2' then some 2 else if c = '3' then some 3
  else if c = '4' then some 4 else if c = '5' then some 5 else if c = '6' then some 6 else if c = '7' then some 7
  else if c = '8' then some 8 else if c = '9' then some 9 else none

def isDigit (c : Char) : Bool := (charVal c).isSome

theorem charVal_digitChar (d : Nat) (h : d < 10) : charVal (digitChar d) = some d := by
  match d, h with
  | 0, _ => rfl | 1, _ => rfl | 2, _ => rfl | 3, _ => rfl | 4, _ => rfl
  | 5, _ => rfl | 6, _ => rfl | 7, _ => rfl | 8, _ => rfl | 9, _ => rfl

/-- decimal digits, most significant first -/
def digits (n : Nat) : List Char :=
  if h : n < 10 then [digitChar n] else digits (n / 10) ++ [digitChar (n % 10)]
termination_by n
decreasing_by omega

def parseNat (cs : List Char) : Option Nat :=
  cs.foldl (fun acc c => match acc, charVal c with | some a, some d => some (a * 10 + d) | _, _ => none) (some 0)

theorem parseNat_snoc (cs : List Char) (c : Char) :
    parseNat (cs ++ [c]) = match parseNat cs, charVal c with | some a, some d => some (a * 10 + d) | _, _ => none := by
  simp [parseNat, List.foldl_append]

theorem parseNat_digits (n : Nat) : parseNat (digits n) = some n := by
  induction n using Nat.strongRecOn with
  | _ n ih =>
    unfold digits
    split
    · rename_i h
      simp [parseNat, charVal_digitChar n h]
    · rename_i h
      rw [parseNat_snoc, ih (n / 10) (by omega), charVal_digitChar (n % 10) (by omega)]
      simp; omega

theorem digits_all_digit (n : Nat) : ∀ c ∈ digits n, isDigit c = true := by
  induction n using Nat.strongRecOn with
  | _ n ih =>
    unfold digits
    split
    · rename_i h
      intro c hc; simp at hc; subst hc; simp [isDigit, charVal_digitChar n h]
    · rename_i h
      intro c hc
      simp at hc
      rcases hc with hc | hc
      · exact ih (n / 10) (by omega) c hc
      · subst hc; simp [isDigit, charVal_digitChar (n % 10) (by omega)]

def headerPrefix : List Char := ['C', 'o', 'n', 't', 'e', 'n', 't', '-', 'L', 'e', 'n', 'g', 't', 'h', ':', ' ']
def headerEnd : List Char := ['\r', '\n', '\r', '\n']

/-- `sendMessage`: header with the exact body length, blank line, body -/
def frame (body : List Char) : List Char := headerPrefix ++ digits body.length ++ headerEnd ++ body

/-- reader for well-formed frames: (body, rest) -/
def unframe (s : List Char) : Option (List Char × List Char) :=
  if headerPrefix.isPrefixOf s then
    let s1 := s.drop headerPrefix.length
    let ds := s1.takeWhile isDigit
    let s2 := s1.dropWhile isDigit
    if headerEnd.isPrefixOf s2 then
      match parseNat ds with
      | some n =>
        let s3 := s2.drop headerEnd.length
        if n ≤ s3.length then some (s3.take n, s3.drop n) else none
      | none => none
    else none
  else none

theorem isPrefixOf_append (p s : List Char) : p.isPrefixOf (p ++ s) = true := by
  induction p with
  | nil => simp
  | cons a p ih => simp [List.isPrefixOf, ih]

/-- **C18.framing_exact** — a frame built by the server (length header = body length) is read back as
    exactly that body, leaving exactly the following bytes -/
theorem unframe_frame (body rest : List Char) : unframe (frame body ++ rest) = some (body, rest) := by
  unfold unframe frame
  have h1 : headerPrefix.isPrefixOf (headerPrefix ++ digits body.length ++ headerEnd ++ body ++ rest) = true := by
    simp only [List.append_assoc]; exact isPrefixOf_append _ _
  rw [if_pos h1]
  have hdrop : (headerPrefix ++ digits body.length ++ headerEnd ++ body ++ rest).drop headerPrefix.length
      = digits body.length ++ (headerEnd ++ body ++ rest) := by
    simp only [List.append_assoc]; exact List.drop_left
  simp only [hdrop]
  have hnd : isDigit '\r' = false := by decide
  have htw : (digits body.length ++ (headerEnd ++ body ++ rest)).takeWhile isDigit = digits body.length := by
    rw [List.takeWhile_append_of_pos (digits_all_digit _)]
    simp [headerEnd, hnd]
  have hdw : (digits body.length ++ (headerEnd ++ body ++ rest)).dropWhile isDigit = headerEnd ++ body ++ rest := by
    rw [List.dropWhile_append_of_pos (digits_all_digit _)]
    simp [headerEnd, hnd]
  rw [htw, hdw]
  have h2 : headerEnd.isPrefixOf (headerEnd ++ body ++ rest) = true := by
    simp only [List.append_assoc]; exact isPrefixOf_append _ _
  rw [if_pos h2, parseNat_digits]
  have hdrop2 : (headerEnd ++ body ++ rest).drop headerEnd.length = body ++ rest := by
    simp only [List.append_assoc]; exact List.drop_left
  simp only [hdrop2]
  simp

/-- a whole stream of frames is read back message by message -/
def unframeAll : Nat → List Char → Option (List (List Char))
  | 0, _ => none
  | f+1, s => if s = [] then some [] else
    match unframe s with
    | none => none
    | some (b, rest) => (unframeAll f rest).map (b :: ·)

theorem frame_ne_nil (body : List Char) : frame body ≠ [] := by
  unfold frame headerPrefix; simp

theorem unframeAll_frames (msgs : List (List Char)) :
    unframeAll (msgs.length + 1) (msgs.flatMap frame) = some msgs := by
  induction msgs with
  | nil => simp [unframeAll]
  | cons m ms ih =>
    have hne : (frame m ++ List.flatMap frame ms) ≠ [] := by
      intro h; exact frame_ne_nil m (List.append_eq_nil_iff.mp h).1
    rw [List.flatMap_cons, List.length_cons]
    show unframeAll (ms.length + 1 + 1) (frame m ++ List.flatMap frame ms) = some (m :: ms)
    rw [unframeAll, if_neg hne, unframe_frame]
    simp only [ih, Option.map_some]

end GoSQLXModel.Lsp
