/-!
# Reusable instances (Parser, Tokenizer) as field records

A state maps field names to abstract values.  A *call* of entry point `e` with input `i` first
overwrites the fields in `writes e` with values that depend only on `(e, i)`, then runs: its
observable outcome `out` and its final state `post` are functions of the entered state.
The table-level facts are
* `reads`  : the fields the code may read (effective: fields read only under a validity flag that the
  entry point clears are not counted),
* `stable` : fields every call leaves at the value they had on entry (the depth counter — every
  `depth++` has its deferred `depth--`; the context — cleared by a defer; holder configuration —
  written only by option/setter functions).
`history_independent` is the generic theorem: if every field read is overwritten by the entry
point or stable, the outcome of a probe call after *any* history equals its outcome on the state
the history started from.
-/
namespace GoSQLXModel.Instance

abbrev Field := String
abbrev St := Field → Nat

structure Sem where
  /-- value assigned to field `f` by entry `e` from input `i` before any read -/
  init : String → Nat → Field → Nat
  out : String → Nat → St → Nat
  post : String → Nat → St → St

structure Table where
  reads : List Field
  stable : List Field
  writes : String → List Field

def enter (T : Table) (S : Sem) (e : String) (i : Nat) (s : St) : St :=
  fun f => if (T.writes e).contains f then S.init e i f else s f

def call (T : Table) (S : Sem) (s : St) (c : String × Nat) : St :=
  S.post c.1 c.2 (enter T S c.1 c.2 s)

def run (T : Table) (S : Sem) (s : St) (h : List (String × Nat)) : St := h.foldl (call T S) s

def outcome (T : Table) (S : Sem) (s : St) (c : String × Nat) : Nat :=
  S.out c.1 c.2 (enter T S c.1 c.2 s)

/-- table obligation: every field read is overwritten by the entry point or stable -/
def Covered (T : Table) (entries : List String) : Prop :=
  ∀ e ∈ entries, ∀ f ∈ T.reads, f ∈ T.writes e ∨ f ∈ T.stable

/-- semantic reading of `reads`: the outcome depends on the entered state only through `reads` -/
def ReadsOnly (T : Table) (S : Sem) : Prop :=
  ∀ e i (s s' : St), (∀ f ∈ T.reads, s f = s' f) → S.out e i s = S.out e i s'

/-- semantic reading of `stable`, relative to the state `s0` the history started from:
    a call entered with the stable fields at their `s0` values leaves them there -/
def Restores (T : Table) (S : Sem) (entries : List String) (s0 : St) : Prop :=
  ∀ e ∈ entries, ∀ i (s : St), (∀ f ∈ T.stable, s f = s0 f) →
    ∀ f ∈ T.stable, S.post e i (enter T S e i s) f = s0 f

theorem run_stable (T : Table) (S : Sem) (entries : List String) (s0 : St)
    (hr : Restores T S entries s0) :
    ∀ (h : List (String × Nat)) (s : St), (∀ c ∈ h, c.1 ∈ entries) → (∀ f ∈ T.stable, s f = s0 f) →
      ∀ f ∈ T.stable, run T S s h f = s0 f := by
  intro h
  induction h with
  | nil => intro s _ hs; simpa [run] using hs
  | cons c h ih =>
    intro s hmem hs
    have : ∀ f ∈ T.stable, call T S s c f = s0 f := hr c.1 (hmem c (by simp)) c.2 s hs
    simpa [run] using ih (call T S s c) (fun d hd => hmem d (by simp [hd])) this

/-- **Instance.history_independent** — the outcome of a probe call does not depend on what the
    instance did before: for every history `h` of calls and every probe `c`,
    `outcome (run h s0) c = outcome s0 c`. -/
theorem history_independent (T : Table) (S : Sem) (entries : List String) (s0 : St)
    (hc : Covered T entries) (hro : ReadsOnly T S) (hr : Restores T S entries s0)
    (h : List (String × Nat)) (hh : ∀ c ∈ h, c.1 ∈ entries) (c : String × Nat) (hce : c.1 ∈ entries) :
    outcome T S (run T S s0 h) c = outcome T S s0 c := by
  have hst := run_stable T S entries s0 hr h s0 hh (fun _ _ => rfl)
  unfold outcome
  apply hro
  intro f hf
  unfold enter
  by_cases hw : f ∈ T.writes c.1
  · simp [hw]
  · rcases hc c.1 hce f hf with hw' | hs
    · exact absurd hw' hw
    · simp [hw, hst f hs]

/-- `Reset` / `Release` / pool-put: assign the listed fields their constructor value (0) -/
def reset (fields : List Field) (s : St) : St := fun f => if fields.contains f then 0 else s f

theorem reset_fresh (all fields : List Field) (h : ∀ f ∈ all, f ∈ fields) (s : St) :
    ∀ f ∈ all, reset fields s f = 0 := by
  intro f hf
  simp [reset, h f hf]

/-- decidable table checks ------------------------------------------------------------------- -/
def lookup (t : List (String × List String)) (k : String) : List String :=
  match t.find? (fun e => e.1 == k) with
  | some e => e.2
  | none => []

/-- offenders: (entry, field) read but neither overwritten by the entry point, nor stable, nor dead
    behind a validity flag the entry point clears -/
def coverOffenders (entries : List (String × List String)) (reads stable : List String)
    (guarded : List (String × String)) : List (String × String) :=
  entries.flatMap fun (e, ws) =>
    (reads.filter fun f => !(ws.contains f || stable.contains f ||
      guarded.any (fun g => g.1 == f && ws.contains g.2))).map fun f => (e, f)

def resetOffenders (resets : List (String × List String)) (all : List String) : List (String × String) :=
  resets.flatMap fun (r, fs) => (all.filter fun f => !fs.contains f).map fun f => (r, f)

theorem coverOffenders_nil {entries reads stable} (h : coverOffenders entries reads stable [] = []) :
    ∀ e ∈ entries, ∀ f ∈ reads, f ∈ e.2 ∨ f ∈ stable := by
  intro e he f hf
  obtain ⟨name, ws⟩ := e
  simp only [coverOffenders, List.flatMap_eq_nil_iff] at h
  have h1 := h _ he
  simp only [List.map_eq_nil_iff, List.filter_eq_nil_iff] at h1
  have h2 := h1 f hf
  simp at h2
  by_cases hw : f ∈ ws
  · exact Or.inl hw
  · exact Or.inr (h2 hw)

end GoSQLXModel.Instance
