import GoSQLXModel.Model.WalkVals
import GoSQLXModel.Model.CharClass
import GoSQLXModel.Model.Tables
/-!
# The AST injection scanner (pkg/sql/security/scanner.go, tree part)

`Scan` inspects every node the traversal reaches (`ast.Inspect`): at each BinaryExpression it reports a
tautology and OR-with-tautology, at each FunctionCall a time-delay / dangerous function, at each UNION a NULL-column
probe; each finding is kept iff its severity reaches the scanner's threshold; counts are recomputed from the list.
-/
namespace GoSQLXModel.Scan

inductive Sev where | low | medium | high | critical
  deriving DecidableEq, Repr

def Sev.rank : Sev → Nat | .low => 1 | .medium => 2 | .high => 3 | .critical => 4

structure Finding where
  pattern : String
  sev : Sev
  deriving DecidableEq, Repr

/-- `fmt.Sprintf("%v", value)` for the values a literal can hold -/
def renderValue : Val → String
  | .str s => s
  | .int n => toString n
  | .bool b => if b then "true" else "false"
  | .nil => "<nil>"
  | _ => "?"

def upperStr (cls : CharClass) (s : String) : String := String.ofList (s.toList.map cls.toUpper)

def fieldOf (fs : Fields) (k : String) : Val := (fs.get? k).getD .nil
def strOf : Val → String | .str s => s | _ => ""

/-- isTautology -/
def isTautology (cls : CharClass) : Val → Bool
  | .node "BinaryExpression" fs =>
    let op := upperStr cls (strOf (fieldOf fs "Operator"))
    if op != "=" && op != "==" then false
    else
      match fieldOf fs "Left", fieldOf fs "Right" with
      | .node "LiteralValue" l, .node "LiteralValue" r => renderValue (fieldOf l "Value") == renderValue (fieldOf r "Value")
      | .node "Identifier" l, .node "Identifier" r => strOf (fieldOf l "Name") == strOf (fieldOf r "Name")
      | _, _ => false
  | _ => false

/-- the scanner's name tables (regenerated from scanner.go into Gen/ScanTables.lean) -/
structure Cfg where
  timeFuncs : List String
  dangerousFuncs : List String
  sysPrefixes : List String
  sysNames : List String

def lowerStr (cls : CharClass) (s : String) : String := String.ofList (s.toList.map cls.toLower)

/-- isSystemTable -/
def isSystemTable (cls : CharClass) (cfg : Cfg) (name : String) : Bool :=
  let l := lowerStr cls name
  cfg.sysNames.contains l || cfg.sysPrefixes.any fun p => p.toList.isPrefixOf l.toList

def isNullColumn (cls : CharClass) : Val → Bool
  | .node "Identifier" fs => upperStr cls (strOf (fieldOf fs "Name")) == "NULL"
  | .node "LiteralValue" fs =>
    (match fieldOf fs "Value" with | .nil => true | _ => false) || upperStr cls (strOf (fieldOf fs "Type")) == "NULL"
  | _ => false

/-- findings produced *at* one node (not below it), unfiltered, in the order the code appends them -/
def findingsAt (cls : CharClass) (cfg : Cfg) : Val → List Finding
  | .node "BinaryExpression" fs =>
    let self := Val.node "BinaryExpression" fs
    (if isTautology cls self then [⟨"TAUTOLOGY", .critical⟩] else []) ++
    (if upperStr cls (strOf (fieldOf fs "Operator")) == "OR" then
      (match fieldOf fs "Right" with
       | .node "BinaryExpression" r => if isTautology cls (.node "BinaryExpression" r) then [⟨"TAUTOLOGY", .critical⟩] else []
       | _ => []) ++
      (match fieldOf fs "Left" with
       | .node "BinaryExpression" l => if isTautology cls (.node "BinaryExpression" l) then [⟨"TAUTOLOGY", .critical⟩] else []
       | _ => [])
     else [])
  | .node "FunctionCall" fs =>
    let name := upperStr cls (strOf (fieldOf fs "Name"))
    (if cfg.timeFuncs.contains name then [⟨"TIME_BASED", .high⟩] else []) ++
    (if cfg.dangerousFuncs.contains name then [⟨"OUT_OF_BAND", .critical⟩] else [])
  | .node "SetOperation" fs =>
    if upperStr cls (strOf (fieldOf fs "Operator")) == "UNION" then
      match fieldOf fs "Right" with
      | .node "SelectStatement" sel =>
        let cols := match fieldOf sel "Columns" with | .list xs => xs.toList | _ => []
        (if (cols.filter (isNullColumn cls)).length ≥ 2 then [⟨"UNION_BASED", .high⟩] else []) ++
        (let tn := strOf (fieldOf sel "TableName")
         if tn != "" && isSystemTable cls cfg tn then [⟨"UNION_BASED", .critical⟩] else [])
      | _ => []
    else []
  | _ => []

/-- The traversal the scanner performs: Children() plus the callback's explicit descents
    (`s.scanNode(e.<head>.<rest>, …)`); a descent into `<head>.<rest>` is recorded as the field `<head>`
    (`Props.C16.gen_extra_descents_cover` checks that `<rest>` is all of `<head>`'s node-holding content). -/
def scanChildren (t : ChildrenTbl) (extra : List (String × List (String × String))) : ChildrenTbl :=
  t.map fun (ty, fs) =>
    match extra.find? (fun e => e.1 == ty) with
    | some e => (ty, fs ++ e.2.map (·.1))
    | none => (ty, fs)

def keep (min : Sev) (f : Finding) : Bool := min.rank ≤ f.sev.rank

/-- `Scanner.Scan` for a tree, with the Children() table `t` driving the traversal -/
def scan (cls : CharClass) (cfg : Cfg) (t : ChildTable) (min : Sev) (tree : Val) : List Finding :=
  (tree.walkVals t none).flatMap fun n => (findingsAt cls cfg n).filter (keep min)

structure Counts where
  total : Nat
  critical : Nat
  high : Nat
  medium : Nat
  low : Nat
  deriving DecidableEq, Repr

def counts (fs : List Finding) : Counts :=
  { total := fs.length,
    critical := (fs.filter (·.sev == .critical)).length,
    high := (fs.filter (·.sev == .high)).length,
    medium := (fs.filter (·.sev == .medium)).length,
    low := (fs.filter (·.sev == .low)).length }

/-! ## theorems -/

/-- **C16.threshold** — raising the minimum severity removes exactly the findings below it -/
theorem threshold (cls : CharClass) (cfg : Cfg) (t : ChildTable) (min : Sev) (tree : Val) :
    scan cls cfg t min tree = (scan cls cfg t .low tree).filter (keep min) := by
  unfold scan
  rw [List.filter_flatMap]
  congr 1
  funext n
  rw [List.filter_filter]
  congr 1
  funext f
  cases f with
  | mk p s => cases s <;> cases min <;> simp [keep, Sev.rank]

/-- **C16.counts** — the total and per-severity counts equal the findings listed -/
theorem counts_consistent (fs : List Finding) :
    (counts fs).total = fs.length ∧
    (counts fs).critical + (counts fs).high + (counts fs).medium + (counts fs).low = fs.length := by
  constructor
  · rfl
  · induction fs with
    | nil => rfl
    | cons f fs ih =>
      cases f with
      | mk p s =>
        simp only [counts, List.length_cons] at ih ⊢
        cases s <;> simp (config := { decide := true }) [List.filter_cons] <;> omega

/-- **C16.context_closed** — for every tree whose node fields are covered by the Children() table (C14), a
    payload occurring *anywhere* in the tree — whatever clause, sub-query, CTE or operand position — contributes
    its findings to the scan result. -/
theorem context_closed (cls : CharClass) (cfg : Cfg) (t : ChildTable) (min : Sev) (tree payload : Val) (f : Finding)
    (hcov : tree.covered t none = true) (hin : payload ∈ tree.nodeVals)
    (hf : f ∈ findingsAt cls cfg payload) (hs : keep min f = true) : f ∈ scan cls cfg t min tree := by
  unfold scan
  rw [Val.walkVals_complete t none tree hcov]
  simp only [List.mem_flatMap, List.mem_filter]
  exact ⟨payload, hin, hf, hs⟩

/-- nothing is reported that no node of the tree produces -/
theorem scan_sound (cls : CharClass) (cfg : Cfg) (t : ChildTable) (min : Sev) (tree : Val) (f : Finding)
    (h : f ∈ scan cls cfg t min tree) : ∃ n ∈ tree.walkVals t none, f ∈ findingsAt cls cfg n := by
  unfold scan at h
  simp only [List.mem_flatMap, List.mem_filter] at h
  obtain ⟨n, hn, hf, _⟩ := h
  exact ⟨n, hn, hf⟩

end GoSQLXModel.Scan
