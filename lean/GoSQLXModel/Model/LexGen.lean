import GoSQLXModel.Model.Lex
import GoSQLXModel.Gen.LexTables
import GoSQLXModel.Gen.Limits
/-! The tokenizer's tables, instantiated from the regenerated `Gen/LexTables.lean`. -/
namespace GoSQLXModel.Lex

/-- UTF-8 bytes of a string (through the model's own encoder, so that the kernel can evaluate it) -/
def strBytes (s : String) : Bytes := s.toList.flatMap fun c => encodeRune c.toNat

def genLexTables : Tables :=
  { keywords := Gen.Lex.keywordTypes.map fun e => (strBytes e.1, e.2)
    compoundStarts := Gen.Lex.compoundStarts.map strBytes
    compoundTypes := Gen.Lex.compoundTypes.map fun e => (strBytes e.1, e.2)
    operators := Gen.Lex.operators.map fun e => (strBytes e.1, e.2)
    ttIdentifier := Gen.Lex.ttIdentifier, ttNumber := Gen.Lex.ttNumber, ttPlaceholder := Gen.Lex.ttPlaceholder
    ttSingle := Gen.Lex.ttSingleQuotedString, ttDouble := Gen.Lex.ttDoubleQuotedString, ttString := Gen.Lex.ttString
    ttTripleSingle := Gen.Lex.ttTripleSingleQuotedString, ttTripleDouble := Gen.Lex.ttTripleDoubleQuotedString
    ttDollar := Gen.Lex.ttDollarQuotedString
    maxTokens := Gen.limitMaxTokens, maxInput := Gen.limitMaxInputSize }

end GoSQLXModel.Lex
