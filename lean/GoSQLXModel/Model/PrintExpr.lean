import GoSQLXModel.Proofs.ExprRoundTrip
/-!
# The AST serialiser's parenthesisation rule (pkg/sql/ast/sql.go: BinaryExpression.SQL, UnaryExpression.SQL, operandSQL)

`operandSQL(e, parentPrec, right)` wraps the operand in parentheses iff
`p < parentPrec || (p == parentPrec && (right || parentPrec == 4))`, where `p` is the operand's own strength
(`sqlOperatorPrecedence` of its operator, 3 for NOT, 9 for everything without an operator).  `printG` writes a model
expression by that rule; `print_eq_render` shows that this is exactly the reference rendering `render 1`, hence
(`parse_render`) every expression written by the serialiser is read back as itself.
-/
namespace GoSQLXModel.ExprParse

/-- operandSQL's decision -/
def needsParen (p parentPrec : Nat) (right : Bool) : Bool :=
  Nat.blt p parentPrec || (p == parentPrec && (right || parentPrec == 4))

/-- the strength operandSQL assigns to an operand -/
def childPrec : G → Nat
  | .atom _ => 9
  | .bin op _ _ _ => op.prec
  | .not _ _ => 3

def wrap (b : Bool) (ts : List PTok) : List PTok := if b then lp :: (ts ++ [rp]) else ts

/-- BinaryExpression.SQL / UnaryExpression.SQL on the model grammar -/
def printG : G → List PTok
  | .atom a => [a.tok]
  | .bin op lit l r =>
    wrap (needsParen (childPrec l) op.prec false) (printG l) ++
      ⟨op.tk, lit⟩ :: wrap (needsParen (childPrec r) op.prec true) (printG r)
  | .not lit e => ⟨.not, lit⟩ :: wrap (needsParen (childPrec e) 3 false) (printG e)

/-- the serialiser's precedence table, by operator class: what `sqlOperatorPrecedence` must answer for the spellings
    of each class (obligation on the regenerated table in Props/C06) -/
def specPrec (op : String) : Nat :=
  if op == "OR" then 1 else if op == "AND" then 2
  else if ["=", "<>", "!=", "<", ">", "<=", ">=", "~", "~*", "!~", "!~*"].contains op then 4
  else if op == "||" then 5
  else if op == "+" || op == "-" then 6
  else if op == "*" || op == "/" || op == "%" then 7
  else 8

end GoSQLXModel.ExprParse
