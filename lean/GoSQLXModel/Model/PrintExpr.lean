import GoSQLXModel.Model.ExprGrammar
/-!
# The AST serialiser's rules on the expression ladder (pkg/sql/ast/sql.go)

`operandSQL(e, parentPrec, right)` wraps the operand in parentheses iff
`p < parentPrec || (p == parentPrec && (right || parentPrec == 4))`, where `p` is the operand's own strength
(`sqlOperatorPrecedence` of its operator, 3 for NOT, 4 for the predicates, 9 for everything without an operator).
`BinaryExpression.SQL` writes both operands by that rule with the operator's strength; `IS NULL` its left operand;
`LIKE`/`ILIKE` the pattern with strength 9 (a primary expression); `BetweenExpression.SQL` all three operands with
(4, right); `InExpression.SQL` the tested expression with (4, right) and the values bare; `FunctionCall.SQL` the
arguments bare.  Keywords are written in the serialiser's fixed spelling.

`printG` writes a model expression by these rules; `print_eq_render` (Proofs/PrintRoundTrip.lean) shows that this is
exactly the reference rendering `render 1` of the tree with keywords in the fixed spelling, hence (`parse_render`) every
expression written by the serialiser is read back as itself.
-/
namespace GoSQLXModel.ExprParse

/-- operandSQL's decision -/
def needsParen (p parentPrec : Nat) (right : Bool) : Bool :=
  Nat.blt p parentPrec || (p == parentPrec && (right || parentPrec == 4))

/-- the strength operandSQL assigns to an operand -/
def childPrec : G → Nat
  | .atom _ => 9
  | .call _ _ => 9
  | .bin op _ _ _ => op.prec
  | .not _ _ => 3
  | .isnull _ _ _ _ => 4
  | .between _ _ _ _ _ _ => 4
  | .like _ _ _ _ => 4
  | .inlist _ _ _ _ _ => 4

def wrap (b : Bool) (ts : List PTok) : List PTok := if b then lp :: (ts ++ [rp]) else ts

/-- the NOT the serialiser writes for a negated predicate -/
def negKw : Option String → List PTok
  | none => []
  | some _ => [⟨.not, "NOT"⟩]

mutual
def printG : G → List PTok
  | .atom a => [a.tok]
  | .call n args => ⟨.ident, n⟩ :: lp :: (printArgs args ++ [rp])
  | .bin op lit l r =>
    wrap (needsParen (childPrec l) op.prec false) (printG l) ++
      ⟨op.tk, lit⟩ :: wrap (needsParen (childPrec r) op.prec true) (printG r)
  | .not lit e => ⟨.not, lit⟩ :: wrap (needsParen (childPrec e) 3 false) (printG e)
  | .isnull _ neg _ e =>
    wrap (needsParen (childPrec e) 4 false) (printG e) ++ ⟨.is, "IS"⟩ :: (negKw neg ++ [⟨.null, "NULL"⟩])
  | .between neg _ _ e lo hi =>
    wrap (needsParen (childPrec e) 4 true) (printG e) ++
      (negKw neg ++ ⟨.between, "BETWEEN"⟩ :: (wrap (needsParen (childPrec lo) 4 true) (printG lo) ++
        ⟨.and, "AND"⟩ :: wrap (needsParen (childPrec hi) 4 true) (printG hi)))
  | .like neg op e pat =>
    wrap (needsParen (childPrec e) 4 false) (printG e) ++
      (negKw neg ++ (if neg.isSome then ⟨op.k, upper op.lit⟩ else op) :: wrap (needsParen (childPrec pat) 9 false) (printG pat))
  | .inlist neg _ e first rest =>
    wrap (needsParen (childPrec e) 4 true) (printG e) ++
      (negKw neg ++ ⟨.in_, "IN"⟩ :: lp :: (printG first ++ (printMore rest ++ [rp])))
def printMore : GL → List PTok
  | .nil => []
  | .cons g rest => comma :: (printG g ++ printMore rest)
def printArgs : GL → List PTok
  | .nil => []
  | .cons g rest => printG g ++ printMore rest
end

/-- the serialiser's precedence table, by operator class: what `sqlOperatorPrecedence` must answer for the spellings
    of each class (obligation on the regenerated table in Props/C06) -/
def specPrec (op : String) : Nat :=
  if op == "OR" then 1 else if op == "AND" then 2
  else if ["=", "<>", "!=", "<", ">", "<=", ">=", "~", "~*", "!~", "!~*"].contains op then 4
  else if op == "||" then 5
  else if op == "+" || op == "-" then 6
  else if op == "*" || op == "/" || op == "%" then 7
  else 8

end GoSQLXModel.ExprParse
