/-! Batch calls (gosqlx.ParseMultiple / ValidateMultiple): a loop over the queries that stops at the first failure. -/
namespace GoSQLXModel.Batch

/-- the Go loop: results so far, or (index, error) of the first failing query -/
def batch {α β ε : Type} (f : α → Except ε β) : Nat → List α → List β → Except (Nat × ε) (List β)
  | _, [], acc => .ok acc
  | i, q :: qs, acc =>
    match f q with
    | .ok r => batch f (i+1) qs (acc ++ [r])
    | .error e => .error (i, e)

/-- **C07.multiple_eq_map** — a batch call succeeds exactly when every individual call succeeds, then
    returning exactly the individual results in order … -/
theorem batch_ok_iff {α β ε : Type} (f : α → Except ε β) (qs : List α) (i : Nat) (acc rs : List β) :
    batch f i qs acc = .ok rs ↔ ∃ ys, rs = acc ++ ys ∧ qs.map f = ys.map Except.ok := by
  induction qs generalizing i acc with
  | nil =>
    simp only [batch]
    constructor
    · intro h
      injection h with h
      exact ⟨[], by simp [h], rfl⟩
    · rintro ⟨ys, h1, h2⟩
      cases ys with
      | nil => simp at h1; rw [h1]
      | cons y ys => simp at h2
  | cons q qs ih =>
    simp only [batch]
    cases hq : f q with
    | ok r =>
      simp only [ih]
      constructor
      · rintro ⟨ys, h1, h2⟩; exact ⟨r :: ys, by simp [h1], by simp [hq, h2]⟩
      · rintro ⟨ys, h1, h2⟩
        cases ys with
        | nil => simp at h2
        | cons y ys =>
          simp [hq] at h2
          obtain ⟨rfl, h3⟩ := h2
          exact ⟨ys, by simp [h1], h3⟩
    | error e =>
      simp
      rintro ys _ h2
      cases ys with
      | nil => simp at h2
      | cons y ys => simp [hq] at h2

/-- … and otherwise fails at the first failing index with that query's own error -/
theorem batch_err_first {α β ε : Type} (f : α → Except ε β) (qs : List α) (i : Nat) (acc : List β) (k : Nat) (e : ε)
    (h : batch f i qs acc = .error (k, e)) :
    ∃ pre q post, qs = pre ++ q :: post ∧ k = i + pre.length ∧ f q = .error e ∧ ∀ p ∈ pre, ∃ r, f p = .ok r := by
  induction qs generalizing i acc with
  | nil => simp [batch] at h
  | cons q qs ih =>
    simp only [batch] at h
    cases hq : f q with
    | ok r =>
      rw [hq] at h
      obtain ⟨pre, q', post, h1, h2, h3, h4⟩ := ih _ _ h
      refine ⟨q :: pre, q', post, by simp [h1], by simp [h2]; omega, h3, ?_⟩
      intro p hp
      simp at hp
      rcases hp with rfl | hp
      · exact ⟨r, hq⟩
      · exact h4 p hp
    | error e' =>
      rw [hq] at h
      simp at h
      obtain ⟨rfl, rfl⟩ := h
      exact ⟨[], q, qs, rfl, by simp, hq, by simp⟩

end GoSQLXModel.Batch
