import GoSQLXModel.Model.Walk
/-! Walk / reachability returning the node *values* (needed by analyses built on traversal: scan, extract). -/
namespace GoSQLXModel

mutual
def Val.nodeVals : Val → List Val
  | .node ty fs => .node ty fs :: fs.nodeVals
  | .struct fs => fs.nodeVals
  | .list xs => xs.nodeVals
  | _ => []
def Vals.nodeVals : Vals → List Val
  | .nil => [] | .cons v vs => v.nodeVals ++ vs.nodeVals
def Fields.nodeVals : Fields → List Val
  | .nil => [] | .cons _ v fs => v.nodeVals ++ fs.nodeVals
end

mutual
def Val.walkVals (t : ChildTable) : Option (List String) → Val → List Val
  | _, .node ty fs => .node ty fs :: fs.walkVals t (some (t ty))
  | a, .struct fs => fs.walkVals t a
  | a, .list xs => xs.walkVals t a
  | _, _ => []
def Vals.walkVals (t : ChildTable) : Option (List String) → Vals → List Val
  | _, .nil => [] | a, .cons v vs => v.walkVals t a ++ vs.walkVals t a
def Fields.walkVals (t : ChildTable) : Fields → Option (List String) → List Val
  | .nil, _ => []
  | .cons n v fs, allowed =>
    (match allowBelow allowed n with
     | some [] => []
     | a => v.walkVals t a) ++ fs.walkVals t allowed
end

mutual
theorem Val.nodeVals_nil_of_nodes_nil : ∀ v : Val, v.nodes = [] → v.nodeVals = []
  | .node ty fs, h => by simp [Val.nodes] at h
  | .struct fs, h => by simp only [Val.nodes] at h; simp only [Val.nodeVals]; exact Fields.nodeVals_nil_of_nodes_nil fs h
  | .list xs, h => by simp only [Val.nodes] at h; simp only [Val.nodeVals]; exact Vals.nodeVals_nil_of_nodes_nil xs h
  | .str _, _ => rfl | .int _, _ => rfl | .bool _, _ => rfl | .nil, _ => rfl
theorem Vals.nodeVals_nil_of_nodes_nil : ∀ vs : Vals, vs.nodes = [] → vs.nodeVals = []
  | .nil, _ => rfl
  | .cons v vs, h => by
      simp only [Vals.nodes, List.append_eq_nil_iff] at h
      simp only [Vals.nodeVals, Val.nodeVals_nil_of_nodes_nil v h.1, Vals.nodeVals_nil_of_nodes_nil vs h.2, List.append_nil]
theorem Fields.nodeVals_nil_of_nodes_nil : ∀ fs : Fields, fs.nodes = [] → fs.nodeVals = []
  | .nil, _ => rfl
  | .cons _ v fs, h => by
      simp only [Fields.nodes, List.append_eq_nil_iff] at h
      simp only [Fields.nodeVals, Val.nodeVals_nil_of_nodes_nil v h.1, Fields.nodeVals_nil_of_nodes_nil fs h.2, List.append_nil]
end

mutual
theorem Val.walkVals_complete (t : ChildTable) : ∀ (a : Option (List String)) (v : Val), v.covered t a = true → v.walkVals t a = v.nodeVals
  | a, .node ty fs, h => by
      simp only [Val.covered, Bool.and_eq_true] at h
      simp only [Val.walkVals, Val.nodeVals]; congr 1
      exact Fields.walkVals_complete t fs _ h.2
  | a, .struct fs, h => by
      simp only [Val.walkVals, Val.nodeVals]
      exact Fields.walkVals_complete t fs _ (by simpa [Val.covered] using h)
  | a, .list xs, h => by
      simp only [Val.walkVals, Val.nodeVals]; exact Vals.walkVals_complete t a xs (by simpa [Val.covered] using h)
  | _, .str _, _ => rfl | _, .int _, _ => rfl | _, .bool _, _ => rfl | _, .nil, _ => rfl
theorem Vals.walkVals_complete (t : ChildTable) : ∀ (a : Option (List String)) (vs : Vals), vs.covered t a = true → vs.walkVals t a = vs.nodeVals
  | _, .nil, _ => rfl
  | a, .cons v vs, h => by
      simp only [Vals.covered, Bool.and_eq_true] at h
      simp only [Vals.walkVals, Vals.nodeVals, Val.walkVals_complete t a v h.1, Vals.walkVals_complete t a vs h.2]
theorem Fields.walkVals_complete (t : ChildTable) :
    ∀ (fs : Fields) (a : Option (List String)), fs.covered t a = true → fs.walkVals t a = fs.nodeVals
  | .nil, _, _ => rfl
  | .cons n v fs, a, h => by
      simp only [Fields.covered, Bool.and_eq_true, Bool.or_eq_true] at h
      obtain ⟨h1, h3⟩ := h
      simp only [Fields.walkVals, Fields.nodeVals, Fields.walkVals_complete t fs a h3]
      congr 1
      cases hb : allowBelow a n with
      | none =>
        rw [hb] at h1
        simp only
        cases h1 with
        | inl he =>
          have hn : v.nodes = [] := by simpa using he
          rw [Val.nodeVals_nil_of_nodes_nil v hn]
          exact Val.walkVals_nil_of_nodes_nil t none v hn
        | inr hc => exact Val.walkVals_complete t none v hc
      | some l =>
        rw [hb] at h1
        cases l with
        | nil =>
          simp only
          cases h1 with
          | inl he => have hn : v.nodes = [] := by simpa using he
                      rw [Val.nodeVals_nil_of_nodes_nil v hn]
          | inr hc => simp at hc
        | cons p ps =>
          simp only
          cases h1 with
          | inl he =>
            have hn : v.nodes = [] := by simpa using he
            rw [Val.nodeVals_nil_of_nodes_nil v hn]
            exact Val.walkVals_nil_of_nodes_nil t _ v hn
          | inr hc => exact Val.walkVals_complete t _ v hc
theorem Val.walkVals_nil_of_nodes_nil (t : ChildTable) : ∀ (a : Option (List String)) (v : Val), v.nodes = [] → v.walkVals t a = []
  | _, .node ty fs, h => by simp [Val.nodes] at h
  | a, .struct fs, h => by simp only [Val.nodes] at h; simp only [Val.walkVals]; exact Fields.walkVals_nil_of_nodes_nil t fs a h
  | a, .list xs, h => by simp only [Val.nodes] at h; simp only [Val.walkVals]; exact Vals.walkVals_nil_of_nodes_nil t a xs h
  | _, .str _, _ => rfl | _, .int _, _ => rfl | _, .bool _, _ => rfl | _, .nil, _ => rfl
theorem Vals.walkVals_nil_of_nodes_nil (t : ChildTable) : ∀ (a : Option (List String)) (vs : Vals), vs.nodes = [] → vs.walkVals t a = []
  | _, .nil, _ => rfl
  | a, .cons v vs, h => by
      simp only [Vals.nodes, List.append_eq_nil_iff] at h
      simp only [Vals.walkVals, Val.walkVals_nil_of_nodes_nil t a v h.1, Vals.walkVals_nil_of_nodes_nil t a vs h.2, List.append_nil]
theorem Fields.walkVals_nil_of_nodes_nil (t : ChildTable) : ∀ (fs : Fields) (a : Option (List String)), fs.nodes = [] → fs.walkVals t a = []
  | .nil, _, _ => rfl
  | .cons n v fs, a, h => by
      simp only [Fields.nodes, List.append_eq_nil_iff] at h
      simp only [Fields.walkVals, Fields.walkVals_nil_of_nodes_nil t fs a h.2, List.append_nil]
      cases hb : allowBelow a n with
      | none => exact Val.walkVals_nil_of_nodes_nil t none v h.1
      | some l =>
        cases l with
        | nil => rfl
        | cons p ps => exact Val.walkVals_nil_of_nodes_nil t _ v h.1
end


-- soundness for node values: whatever the table, only nodes of the tree are visited
mutual
theorem Val.walkVals_sublist (t : ChildTable) : ∀ (a : Option (List String)) (v : Val), (v.walkVals t a).Sublist v.nodeVals
  | _, .node ty fs => by
      simp only [Val.walkVals, Val.nodeVals]; exact List.Sublist.cons_cons _ (Fields.walkVals_sublist t fs _)
  | a, .struct fs => by simp only [Val.walkVals, Val.nodeVals]; exact Fields.walkVals_sublist t fs _
  | a, .list xs => by simp only [Val.walkVals, Val.nodeVals]; exact Vals.walkVals_sublist t a xs
  | _, .str _ => by simp [Val.walkVals, Val.nodeVals]
  | _, .int _ => by simp [Val.walkVals, Val.nodeVals]
  | _, .bool _ => by simp [Val.walkVals, Val.nodeVals]
  | _, .nil => by simp [Val.walkVals, Val.nodeVals]
theorem Vals.walkVals_sublist (t : ChildTable) : ∀ (a : Option (List String)) (vs : Vals), (vs.walkVals t a).Sublist vs.nodeVals
  | _, .nil => by simp [Vals.walkVals, Vals.nodeVals]
  | a, .cons v vs => by
      simp only [Vals.walkVals, Vals.nodeVals]
      exact List.Sublist.append (Val.walkVals_sublist t a v) (Vals.walkVals_sublist t a vs)
theorem Fields.walkVals_sublist (t : ChildTable) :
    ∀ (fs : Fields) (a : Option (List String)), (fs.walkVals t a).Sublist fs.nodeVals
  | .nil, _ => by simp [Fields.walkVals, Fields.nodeVals]
  | .cons n v fs, a => by
      simp only [Fields.walkVals, Fields.nodeVals]
      apply List.Sublist.append _ (Fields.walkVals_sublist t fs a)
      cases hb : allowBelow a n with
      | none => exact Val.walkVals_sublist t none v
      | some l =>
        cases l with
        | nil => exact List.nil_sublist _
        | cons p ps => exact Val.walkVals_sublist t _ v
end

-- descendants of a descendant are descendants
mutual
theorem Val.nodeVals_trans : ∀ (v n m : Val), n ∈ v.nodeVals → m ∈ n.nodeVals → m ∈ v.nodeVals
  | .node ty fs, n, m, hn, hm => by
      simp only [Val.nodeVals, List.mem_cons] at hn ⊢
      cases hn with
      | inl h => subst h; simpa [Val.nodeVals] using hm
      | inr h => exact Or.inr (Fields.nodeVals_trans fs n m h hm)
  | .struct fs, n, m, hn, hm => by
      simp only [Val.nodeVals] at hn ⊢; exact Fields.nodeVals_trans fs n m hn hm
  | .list xs, n, m, hn, hm => by
      simp only [Val.nodeVals] at hn ⊢; exact Vals.nodeVals_trans xs n m hn hm
  | .str _, _, _, hn, _ => by simp [Val.nodeVals] at hn
  | .int _, _, _, hn, _ => by simp [Val.nodeVals] at hn
  | .bool _, _, _, hn, _ => by simp [Val.nodeVals] at hn
  | .nil, _, _, hn, _ => by simp [Val.nodeVals] at hn
theorem Vals.nodeVals_trans : ∀ (vs : Vals) (n m : Val), n ∈ vs.nodeVals → m ∈ n.nodeVals → m ∈ vs.nodeVals
  | .nil, _, _, hn, _ => by simp [Vals.nodeVals] at hn
  | .cons v vs, n, m, hn, hm => by
      simp only [Vals.nodeVals, List.mem_append] at hn ⊢
      cases hn with
      | inl h => exact Or.inl (Val.nodeVals_trans v n m h hm)
      | inr h => exact Or.inr (Vals.nodeVals_trans vs n m h hm)
theorem Fields.nodeVals_trans : ∀ (fs : Fields) (n m : Val), n ∈ fs.nodeVals → m ∈ n.nodeVals → m ∈ fs.nodeVals
  | .nil, _, _, hn, _ => by simp [Fields.nodeVals] at hn
  | .cons _ v fs, n, m, hn, hm => by
      simp only [Fields.nodeVals, List.mem_append] at hn ⊢
      cases hn with
      | inl h => exact Or.inl (Val.nodeVals_trans v n m h hm)
      | inr h => exact Or.inr (Fields.nodeVals_trans fs n m h hm)
end


-- nodeVals lists Node values only
mutual
theorem Val.nodeVals_isNode : ∀ (v m : Val), m ∈ v.nodeVals → ∃ ty fs, m = .node ty fs
  | .node ty fs, m, h => by
      simp only [Val.nodeVals, List.mem_cons] at h
      cases h with
      | inl e => exact ⟨ty, fs, e⟩
      | inr e => exact Fields.nodeVals_isNode fs m e
  | .struct fs, m, h => by simp only [Val.nodeVals] at h; exact Fields.nodeVals_isNode fs m h
  | .list xs, m, h => by simp only [Val.nodeVals] at h; exact Vals.nodeVals_isNode xs m h
  | .str _, _, h => by simp [Val.nodeVals] at h
  | .int _, _, h => by simp [Val.nodeVals] at h
  | .bool _, _, h => by simp [Val.nodeVals] at h
  | .nil, _, h => by simp [Val.nodeVals] at h
theorem Vals.nodeVals_isNode : ∀ (vs : Vals) (m : Val), m ∈ vs.nodeVals → ∃ ty fs, m = .node ty fs
  | .nil, _, h => by simp [Vals.nodeVals] at h
  | .cons v vs, m, h => by
      simp only [Vals.nodeVals, List.mem_append] at h
      cases h with
      | inl e => exact Val.nodeVals_isNode v m e
      | inr e => exact Vals.nodeVals_isNode vs m e
theorem Fields.nodeVals_isNode : ∀ (fs : Fields) (m : Val), m ∈ fs.nodeVals → ∃ ty fs', m = .node ty fs'
  | .nil, _, h => by simp [Fields.nodeVals] at h
  | .cons _ v fs, m, h => by
      simp only [Fields.nodeVals, List.mem_append] at h
      cases h with
      | inl e => exact Val.nodeVals_isNode v m e
      | inr e => exact Fields.nodeVals_isNode fs m e
end

end GoSQLXModel
