import GoSQLXModel.Model.Lint
import GoSQLXModel.Driver.GoClass
import GoSQLXModel.Driver.LspOp
import GoSQLXModel.Gen.LintKeywords
/-! Driver op `lintfix`: payload `<rule> <param> <hex text>` → hex of the fixed text. -/
namespace GoSQLXModel.Driver
open GoSQLXModel.Lint

def lintKws : List (List Char) := Gen.lintKeywords.map String.toList

def lintfixOp (payload : String) : String :=
  match payload.splitOn " " with
  | [rule, param, h] =>
    match decodeText h with
    | none => "not-utf8"
    | some t =>
      let out : Option (List Char) :=
        if rule == "L001" then some (fixL001 t)
        else if rule == "L002" then some (fixL002 t)
        else if rule == "L003" then some (fixL003 goClass param.toNat! t)
        else if rule == "L010" then some (fixL010 t)
        else if rule == "L007" then some (fixL007 goClass lintKws (param == "upper") t)
        else none
      match out with
      | none => "bad-rule"
      | some o => toHex (String.ofList o).toUTF8
  | _ => "bad-payload"

end GoSQLXModel.Driver
