import GoSQLXModel.Model.Scan
import GoSQLXModel.Driver.Sexp
import GoSQLXModel.Driver.GoClass
import GoSQLXModel.Gen.AstTables
import GoSQLXModel.Gen.ScanTables
/-! Driver op `scan`: payload `<minSeverity> <sexp>` → `pattern:SEV,…|total,critical,high,medium,low` (findings in order). -/
namespace GoSQLXModel.Driver
open GoSQLXModel.Scan

def genChildTable : ChildTable := fun ty =>
  match (scanChildren Gen.childrenTable Gen.Scan.extraDescents).find? (fun e => e.1 == ty) with
  | some e => e.2
  | none => []

def genScanCfg : Cfg :=
  { timeFuncs := Gen.Scan.timeBasedFuncs, dangerousFuncs := Gen.Scan.dangerousFuncs,
    sysPrefixes := Gen.Scan.systemTablePrefixes, sysNames := Gen.Scan.systemTableNames }

def sevName : Sev → String | .low => "LOW" | .medium => "MEDIUM" | .high => "HIGH" | .critical => "CRITICAL"
def parseSev (s : String) : Sev :=
  if s == "CRITICAL" then .critical else if s == "HIGH" then .high else if s == "MEDIUM" then .medium else .low

def scanOp (payload : String) : String :=
  match payload.splitOn " " with
  | sev :: rest =>
    let tree := readVal (" ".intercalate rest)
    let fs := scan goClass genScanCfg genChildTable (parseSev sev) tree
    let c := counts fs
    ",".intercalate (fs.map fun f => f.pattern ++ ":" ++ sevName f.sev) ++
      s!"|{c.total},{c.critical},{c.high},{c.medium},{c.low}"
  | _ => "bad-payload"

end GoSQLXModel.Driver
