import GoSQLXModel.Model.PrintExpr
import GoSQLXModel.Driver.LspOp
/-! Driver op `print`: payload = a model expression in prefix form, items separated by blanks:
    `B <op> <hexlit>` left right | `N <hexlit>` operand | `A <kind> <hexlit>`;
    answer = the literals of `printG`, hex-encoded, separated by blanks. -/
namespace GoSQLXModel.Driver
open GoSQLXModel.ExprParse

def opOfName (s : String) : Op :=
  if s == "or" then .or else if s == "and" then .and else if s == "cmp" then .cmp else if s == "cat" then .cat
  else if s == "plus" then .plus else if s == "minus" then .minus else if s == "star" then .star
  else if s == "div" then .div else .mod

def hexLit (h : String) : String :=
  match unhex h.toList with
  | some bs => (String.fromUTF8? (ByteArray.mk bs.toArray)).getD ""
  | none => ""

instance : Inhabited G := ⟨.atom (.null "")⟩

partial def readG (ts : List String) : G × List String :=
  match ts with
  | "B" :: op :: h :: rest =>
    let (l, r1) := readG rest
    let (r, r2) := readG r1
    (.bin (opOfName op) (hexLit h) l r, r2)
  | "N" :: h :: rest =>
    let (e, r1) := readG rest
    (.not (hexLit h) e, r1)
  | "A" :: k :: h :: rest =>
    let v := hexLit h
    let a : Atom := if k == "ident" then .ident v else if k == "num" then .num v else if k == "str" then .str v
      else if k == "bool" then .bool v else .null v
    (.atom a, rest)
  | _ => (.atom (.null ""), [])

def printOp (payload : String) : String :=
  let (g, _) := readG ((payload.splitOn " ").filter (· != ""))
  " ".intercalate ((printG g).map fun t => toHex t.lit.toUTF8)

end GoSQLXModel.Driver
