import GoSQLXModel.Model.PrintExpr
import GoSQLXModel.Driver.LspOp
/-! Driver op `print`: payload = a model expression in prefix form, items separated by blanks:
    `B <op> <hexlit>` left right | `N <hexlit>` operand | `A <kind> <hexlit>` | `C <hexname> <n>` arg×n |
    `I <neg>` operand | `W <neg>` e lo hi | `L <neg> <hexop>` e pattern | `S <neg> <n>` e item×n  (neg = 0/1, n ≥ 1 for S);
    answer = the literals of `printG`, hex-encoded, separated by blanks. -/
namespace GoSQLXModel.Driver
open GoSQLXModel.ExprParse

def opOfName (s : String) : Op :=
  if s == "or" then .or else if s == "and" then .and else if s == "cmp" then .cmp else if s == "cat" then .cat
  else if s == "plus" then .plus else if s == "minus" then .minus else if s == "star" then .star
  else if s == "div" then .div else .mod

def hexLit (h : String) : String :=
  match unhex h.toList with
  | some bs => (String.fromUTF8? (ByteArray.mk bs.toArray)).getD ""
  | none => ""

instance : Inhabited G := ⟨.atom (.null "")⟩

def negOf (s : String) : Option String := if s == "1" then some "NOT" else none

def glOfList : List G → GL
  | [] => .nil
  | g :: gs => .cons g (glOfList gs)

mutual
partial def readG (ts : List String) : G × List String :=
  match ts with
  | "B" :: op :: h :: rest =>
    let (l, r1) := readG rest
    let (r, r2) := readG r1
    (.bin (opOfName op) (hexLit h) l r, r2)
  | "N" :: h :: rest =>
    let (e, r1) := readG rest
    (.not (hexLit h) e, r1)
  | "A" :: k :: h :: rest =>
    let v := hexLit h
    let a : Atom := if k == "ident" then .ident v else if k == "num" then .num v else if k == "str" then .str v
      else if k == "bool" then .bool v else .null v
    (.atom a, rest)
  | "C" :: h :: n :: rest =>
    let (args, r1) := readN (n.toNat?.getD 0) rest
    (.call (hexLit h) (glOfList args), r1)
  | "I" :: neg :: rest =>
    let (e, r1) := readG rest
    (.isnull "IS" (negOf neg) "NULL" e, r1)
  | "W" :: neg :: rest =>
    let (e, r1) := readG rest
    let (lo, r2) := readG r1
    let (hi, r3) := readG r2
    (.between (negOf neg) "BETWEEN" "AND" e lo hi, r3)
  | "L" :: neg :: h :: rest =>
    let (e, r1) := readG rest
    let (p, r2) := readG r1
    (.like (negOf neg) ⟨.like, hexLit h⟩ e p, r2)
  | "S" :: neg :: n :: rest =>
    let (e, r1) := readG rest
    let (items, r2) := readN (n.toNat?.getD 1) r1
    match items with
    | first :: more => (.inlist (negOf neg) "IN" e first (glOfList more), r2)
    | [] => (e, r2)
  | _ => (.atom (.null ""), [])
partial def readN (n : Nat) (ts : List String) : List G × List String :=
  match n with
  | 0 => ([], ts)
  | k+1 =>
    let (g, r1) := readG ts
    let (gs, r2) := readN k r1
    (g :: gs, r2)
end

def printOp (payload : String) : String :=
  let (g, _) := readG ((payload.splitOn " ").filter (· != ""))
  " ".intercalate ((printG g).map fun t => toHex t.lit.toUTF8)

end GoSQLXModel.Driver
