import GoSQLXModel.Model.ExtractGen
import GoSQLXModel.Driver.Sexp
import GoSQLXModel.Gen.AstTables
import GoSQLXModel.Gen.ExtractTables
/-! Driver op `extract`: payload = hex s-expression of the real tree →
    `T=<names>;TQ=<triples>;C=<names>;CQ=<pairs>;F=<names>` (each sorted, names hex-encoded, tuple parts joined by `/`). -/
namespace GoSQLXModel.Driver
open GoSQLXModel.Extract

def hexStr (s : String) : String := toHex s.toUTF8
def sortStrs (xs : List String) : List String := xs.mergeSort (fun a b => a < b || a == b)
def showSet (xs : List (List String)) : String :=
  ",".intercalate (sortStrs (xs.map fun t => "/".intercalate (t.map hexStr)))

def extractOp (payload : String) : String :=
  let tree := readVal payload
  let t := extractTables tree
  let tq := extractTablesQualified tree
  let c := extractColumns tree
  let cq := extractColumnsQualified tree
  let f := extractFunctions tree
  s!"T={showSet t};TQ={showSet tq};C={showSet c};CQ={showSet cq};F={showSet f}"

end GoSQLXModel.Driver
