import GoSQLXModel.Driver.LoopsOp
import GoSQLXModel.Driver.LspOp
import GoSQLXModel.Driver.LintOp
import GoSQLXModel.Driver.ScanOp
import GoSQLXModel.Driver.ExtractOp
import GoSQLXModel.Driver.LexOp
import GoSQLXModel.Driver.ExprOp
import GoSQLXModel.Driver.PrintOp
import GoSQLXModel.Driver.NameOp
/-! Dispatch table of the line-protocol driver. Each op parses its payload, runs the executable
    model and prints a canonical one-line answer. -/
namespace GoSQLXModel.Driver

def dispatch (op payload : String) : String :=
  match op with
  | "ping" => "pong " ++ payload
  | "loops" => loopsOp payload
  | "lsp" => lspOp payload
  | "lintfix" => lintfixOp payload
  | "scan" => scanOp payload
  | "extract" => extractOp payload
  | "lex" => lexOp payload
  | "expr" => exprOp payload
  | "print" => printOp payload
  | "qname" => qnameOp payload
  | _ => "bad-op"

end GoSQLXModel.Driver
