import GoSQLXModel.Model.CharClass
import GoSQLXModel.Gen.Unicode
/-! The classifier of the Go runtime in use, from the dumped tables. -/
namespace GoSQLXModel.Driver
open GoSQLXModel

def goClass : CharClass :=
  { isLetter := fun c => inRanges Gen.Unicode.letter c.toNat
    isDigit := fun c => inRanges Gen.Unicode.digit c.toNat
    isSpace := fun c => inRanges Gen.Unicode.space c.toNat
    isMark := fun c => inRanges Gen.Unicode.mark c.toNat
    isConnector := fun c => inRanges Gen.Unicode.connector c.toNat
    toUpper := fun c => Char.ofNat (mapLookup Gen.Unicode.upperMap c.toNat)
    toLower := fun c => Char.ofNat (mapLookup Gen.Unicode.lowerMap c.toNat) }

end GoSQLXModel.Driver
