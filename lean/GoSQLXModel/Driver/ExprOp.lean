import GoSQLXModel.Model.ExprGen
import GoSQLXModel.Driver.LspOp
/-! Driver op `expr`: payload = tokens `ty:hexliteral` separated by blanks →
    `OK <canonical tree> <tokens left>` | `ERR <code>` | `UNSUPPORTED` | `OOF`. -/
namespace GoSQLXModel.Driver
open GoSQLXModel.ExprParse

def upperAscii (s : String) : String := s.map Char.toUpper

def canonEx : Ex → String
  | .ident n => "id(" ++ n ++ ")"
  | .num v => "num(" ++ v ++ ")"
  | .str v => "str(" ++ v ++ ")"
  | .bool v => "bool(" ++ upperAscii v ++ ")"
  | .null => "null"
  | .bin op l r => "(" ++ canonEx l ++ " " ++ upperAscii op ++ " " ++ canonEx r ++ ")"
  | .not e => "not(" ++ canonEx e ++ ")"

def parseTok (s : String) : PTok :=
  match s.splitOn ":" with
  | [ty, h] =>
    let lit := match unhex h.toList with
      | some bs => (String.fromUTF8? (ByteArray.mk bs.toArray)).getD ""
      | none => ""
    ⟨classOfType (ty.toNat?.getD 1), lit⟩
  | _ => ⟨.other, ""⟩

def exprOp (payload : String) : String :=
  let toks := (payload.splitOn " ").filter (· != "") |>.map parseTok
  match pExpr (9 * toks.length + 16) 0 toks with
  | .ok e rest => s!"OK {canonEx e} {rest.length}"
  | .err c => s!"ERR {c}"
  | .unsupported => "UNSUPPORTED"
  | .oof => "OOF"

end GoSQLXModel.Driver
