import GoSQLXModel.Model.ExprGen
import GoSQLXModel.Driver.LspOp
/-! Driver op `expr`: payload = tokens `ty:hexliteral` separated by blanks →
    `OK <canonical tree> <tokens left>` | `ERR <code>` | `UNSUPPORTED` | `OOF`. -/
namespace GoSQLXModel.Driver
open GoSQLXModel.ExprParse

/-- the three non-ASCII characters that Go's ToUpper / EqualFold map onto ASCII letters (ı, ſ, K) -/
def foldsIntoAscii (s : String) : Bool := s.any fun c => c.toNat == 0x131 || c.toNat == 0x17F || c.toNat == 0x212A

def parseTok (s : String) : PTok :=
  match s.splitOn ":" with
  | [ty, h] =>
    let lit := match unhex h.toList with
      | some bs => (String.fromUTF8? (ByteArray.mk bs.toArray)).getD ""
      | none => ""
    ⟨classOfType (ty.toNat?.getD 1), lit⟩
  | _ => ⟨.other, ""⟩

def exprOp (payload : String) : String :=
  let toks := (payload.splitOn " ").filter (· != "") |>.map parseTok
  if toks.any (fun t => foldsIntoAscii t.lit) then "UNSUPPORTED" else
  (pExpr (12 * toks.length + 16) 0 toks).canon

end GoSQLXModel.Driver
