import GoSQLXModel.Model.LexGen
import GoSQLXModel.Driver.GoClass
import GoSQLXModel.Driver.LspOp
/-! Driver op `lex`: payload = hex of the input bytes →
    `OK <tok> <tok> …|<comment> …` or `ERR <code> <line> <col>`;
    tok = `ty:hexvalue:quote:sl.sc.el.ec`, comment = `block:hextext:sl.sc.el.ec:inline`. -/
namespace GoSQLXModel.Driver
open GoSQLXModel.Lex

def hexBytes (bs : Bytes) : String := toHex (ByteArray.mk bs.toArray)

def showLoc (inp : Bytes) (off : Nat) : String :=
  let l := locOf inp off
  s!"{l.1}.{l.2}"

def lexOp (payload : String) : String :=
  match unhex payload.toList with
  | none => "bad-payload"
  | some inp =>
    match tokenize goClass genLexTables inp with
    | .outOfFuel => "OUT-OF-FUEL"
    | .err e =>
      (match e.loc with
       | .at off => let l := locOf inp off; s!"ERR {e.code} {l.1} {l.2}"
       | .internal => s!"ERR {e.code} -1 -1"
       | .fixed => s!"ERR {e.code} 1 0")
    | .ok toks cs =>
      let ts := toks.map fun t => s!"{t.ty}:{hexBytes t.value}:{t.quote}:{showLoc inp t.startOff}.{showLoc inp t.endOff}"
      let cms := cs.map fun c =>
        s!"{if c.block then 1 else 0}:{hexBytes c.text}:{showLoc inp c.startOff}.{showLoc inp c.endOff}:{if c.inline then 1 else 0}"
      "OK " ++ " ".intercalate ts ++ "|" ++ " ".intercalate cms

end GoSQLXModel.Driver
