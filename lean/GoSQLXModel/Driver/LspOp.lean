import GoSQLXModel.Model.LspServer
/-! Driver op `lsp`: a document history → the model's documents.
    payload: ops separated by ';'
      `O <uri> <hex>`            open
      `X <uri>`                  close
      `C <uri> <chg>,<chg>…`     change; chg = `F:<hex>` | `R:<sl>:<sc>:<el>:<ec>:<hex>`
    answer: `uri=hex` entries sorted by uri joined by ';', or `panic`, or `bad-payload`. -/
namespace GoSQLXModel.Driver
open GoSQLXModel.Lsp

def hexVal (c : Char) : Option Nat :=
  if '0' ≤ c ∧ c ≤ '9' then some (c.toNat - '0'.toNat)
  else if 'a' ≤ c ∧ c ≤ 'f' then some (c.toNat - 'a'.toNat + 10)
  else none

def unhex : List Char → Option (List UInt8)
  | [] => some []
  | [_] => none
  | a :: b :: rest => do
    let x ← hexVal a
    let y ← hexVal b
    let r ← unhex rest
    pure (UInt8.ofNat (x * 16 + y) :: r)

def hexDigit (n : Nat) : Char := if n < 10 then Char.ofNat (48 + n) else Char.ofNat (87 + n)

def toHex (bs : ByteArray) : String :=
  String.ofList (bs.toList.flatMap fun b => [hexDigit (b.toNat / 16), hexDigit (b.toNat % 16)])

def decodeText (h : String) : Option (List Char) := do
  let bs ← unhex h.toList
  let s ← String.fromUTF8? (ByteArray.mk bs.toArray)
  pure s.toList

def parseInt (s : String) : Option Int := s.toInt?

def parseChange (s : String) : Option Change :=
  match s.splitOn ":" with
  | ["F", h] => (decodeText h).map Change.full
  | ["R", sl, sc, el, ec, h] => do
    let a ← parseInt sl
    let b ← parseInt sc
    let c ← parseInt el
    let d ← parseInt ec
    let t ← decodeText h
    pure (Change.ranged a b c d t)
  | _ => none

def parseDocOp (s : String) : Option DocOp :=
  match s.splitOn " " with
  | ["O", uri, h] => (decodeText h).map (DocOp.open_ uri)
  | ["X", uri] => some (DocOp.close uri)
  | ["C", uri, cs] => ((cs.splitOn ",").mapM parseChange).map (DocOp.change uri)
  | ["C", uri] => some (DocOp.change uri [])
  | _ => none

def insertSorted (e : String × String) : List (String × String) → List (String × String)
  | [] => [e]
  | x :: xs => if e.1 < x.1 then e :: x :: xs else x :: insertSorted e xs

def lspOp (payload : String) : String :=
  let parts := (payload.splitOn ";").filter (· ≠ "")
  match parts.mapM parseDocOp with
  | none => "bad-payload"
  | some ops =>
    match Code.run [] ops with
    | none => "panic"
    | some docs =>
      let entries := docs.foldl (fun acc d => insertSorted (d.1, toHex (String.ofList d.2).toUTF8) acc) []
      ";".intercalate (entries.map fun e => e.1 ++ "=" ++ e.2)

end GoSQLXModel.Driver
