import GoSQLXModel.Model.NameQuote
import GoSQLXModel.Driver.LspOp
/-! Driver op `qname`: payload `<hex name>` → hex of `safeIdentifier name` (ASCII names). -/
namespace GoSQLXModel.Driver
open GoSQLXModel.Lex

def qnameOp (payload : String) : String :=
  match unhex payload.toList with
  | none => "bad-payload"
  | some bs => if bs.all (fun b => b.toNat < 128) then toHex (ByteArray.mk (safeIdentifier bs).toArray) else "non-ascii"

end GoSQLXModel.Driver
