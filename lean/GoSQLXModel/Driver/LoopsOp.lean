import GoSQLXModel.Model.Loops
/-! Driver op `loops`: payload `n|kinds|stmts|strict` → predictions of every loop copy. -/
namespace GoSQLXModel.Driver
open GoSQLXModel.Loops

def parseKind (c : Char) : Kind :=
  if c == 's' then .semi else if c == 'e' then .eof else if c == 't' then .start else .other

def fmtNats (l : List Nat) : String := ",".intercalate (l.map toString)

def fmtRes : Option Res → String
  | none => "oof"
  | some (.ok l) => "ok:" ++ fmtNats l
  | some (.err c p) => "err:" ++ toString c ++ "@" ++ toString p

def fmtCRes : Option CRes → String
  | none => "oof"
  | some (.done r) => fmtRes (some r)
  | some (.cancelled k) => "cancelled@" ++ toString k

def loopsOp (payload : String) : String :=
  match payload.splitOn "|" with
  | [ns, kinds, stmts, strictS] =>
    let n := ns.toNat!
    let ks := kinds.toList.map parseKind |>.toArray
    let kind : Nat → Kind := fun i => if h : i < ks.size then ks[i] else (if ks.size = 0 then .eof else ks[ks.size - 1]!)
    let table : List (Nat × Out) := (stmts.splitOn ",").filterMap fun e =>
      match e.splitOn ":" with
      | [p, ok, stop, code] => some (p.toNat!, { ok := ok == "1", stop := stop.toNat!, code := code.toNat! })
      | _ => none
    let stmt : Nat → Out := fun p => match table.find? (fun e => e.1 == p) with
      | some e => e.2
      | none => { ok := false, stop := p, code := 0 }
    let I : Input := { kind := kind, n := n, stmt := stmt }
    let strict := strictS == "1"
    let fuel := n + 2
    let p := parseLoop I strict fuel 0 []
    let wp := parseWithPositionsLoop I strict fuel 0 []
    let cx := parseContextLoop I strict (fun _ => false) (fun _ => 1) fuel 0 0 []
    let rc := recLoop I fuel 0 [] []
    let rcs := match rc with
      | none => "oof"
      | some (st, er) => fmtNats st ++ "/" ++ fmtNats er
    s!"parse={fmtRes p} wp={fmtRes wp} ctx={fmtCRes cx} rec={rcs}"
  | _ => "bad-payload"

end GoSQLXModel.Driver
