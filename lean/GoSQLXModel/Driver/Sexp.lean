import GoSQLXModel.Model.Val
import GoSQLXModel.Driver.LspOp
/-! S-expression reader for `Val` (the harness dumps real `ast.Node` trees by reflection; strings are hex). -/
namespace GoSQLXModel.Driver

inductive STok where | lp | rp | atom (s : String)
  deriving Repr, Inhabited

def sexpTokens (s : String) : Array STok := Id.run do
  let mut out : Array STok := #[]
  let mut cur : String := ""
  for c in s.toList do
    if c == '(' || c == ')' || c == ' ' then
      if cur != "" then
        out := out.push (.atom cur)
        cur := ""
      if c == '(' then out := out.push .lp
      else if c == ')' then out := out.push .rp
    else cur := cur.push c
  if cur != "" then out := out.push (.atom cur)
  return out

def hexToString (h : String) : String :=
  match unhex h.toList with
  | some bs => (String.fromUTF8? (ByteArray.mk bs.toArray)).getD (String.ofList (bs.map fun b => Char.ofNat b.toNat))
  | none => ""

instance : Inhabited Val := ⟨.nil⟩
instance : Inhabited Vals := ⟨.nil⟩
instance : Inhabited Fields := ⟨.nil⟩

mutual
-- parse one value starting at index i; returns (value, next index)
partial def parseVal (ts : Array STok) (i : Nat) : Val × Nat :=
  match ts[i]! with
  | .atom "nil" => (.nil, i+1)
  | .atom _ => (.nil, i+1)
  | .rp => (.nil, i+1)
  | .lp =>
    match ts[i+1]! with
    | .atom "str" =>
      match ts[i+2]! with
      | .atom h => (.str (hexToString h), i+4)
      | _ => (.str "", i+3)          -- (str) : empty string
    | .atom "int" => (match ts[i+2]! with | .atom n => (.int (n.toInt?.getD 0), i+4) | _ => (.int 0, i+3))
    | .atom "bool" => (match ts[i+2]! with | .atom b => (.bool (b == "true"), i+4) | _ => (.bool false, i+3))
    | .atom "list" => let (vs, j) := parseVals ts (i+2); (.list vs, j)
    | .atom "struct" => let (fs, j) := parseFields ts (i+2); (.struct fs, j)
    | .atom "node" =>
      match ts[i+2]! with
      | .atom ty => let (fs, j) := parseFields ts (i+3); (.node ty fs, j)
      | _ => (.nil, i+3)
    | _ => (.nil, i+2)
partial def parseVals (ts : Array STok) (i : Nat) : Vals × Nat :=
  match ts[i]! with
  | .rp => (.nil, i+1)
  | _ => let (v, j) := parseVal ts i; let (vs, k) := parseVals ts j; (.cons v vs, k)
partial def parseFields (ts : Array STok) (i : Nat) : Fields × Nat :=
  match ts[i]! with
  | .rp => (.nil, i+1)
  | .lp =>
    match ts[i+1]! with
    | .atom name =>
      let (v, j) := parseVal ts (i+2)
      -- skip the closing paren of the field
      let j := match ts[j]! with | .rp => j+1 | _ => j
      let (fs, k) := parseFields ts j
      (.cons name v fs, k)
    | _ => (.nil, i+1)
  | _ => (.nil, i+1)
end

def readVal (s : String) : Val := (parseVal (sexpTokens s |>.push .rp |>.push .rp |>.push .rp) 0).1

end GoSQLXModel.Driver
