import GoSQLXModel.Props.C08
open GoSQLXModel
#print axioms Instance.history_independent
#print axioms Instance.reset_fresh
#print axioms Props.C08.gen_parser_covered
#print axioms Props.C08.gen_tokenizer_covered
#print axioms Props.C08.gen_depth_paired
#print axioms Props.C08.gen_ctx_restored
#print axioms Props.C08.gen_config_not_written
#print axioms Props.C08.gen_resets_complete
#print axioms Props.C08.gen_tokenizer_reset_complete
#print axioms Props.C08.parser_history_independent
#print axioms Props.C08.parser_reset_is_fresh
#print axioms Props.C08.stale_positions_counterexample
