import GoSQLXModel.Props.C16
open GoSQLXModel
#print axioms Scan.threshold
#print axioms Scan.counts_consistent
#print axioms Scan.context_closed
#print axioms Scan.scan_sound
#print axioms Val.walkVals_complete
#print axioms Props.C16.gen_dispatch
#print axioms Props.C16.gen_sites
#print axioms Props.C16.gen_extra_descents_cover
#print axioms Props.C16.gen_scan_traversal_complete
#print axioms Props.C16.gen_severity_order
#print axioms Props.C16.gen_documented_functions
#print axioms Props.C16.payload_found_everywhere
#print axioms Props.C16.threshold_filters
#print axioms Props.C16.counts_agree
#print axioms Props.C16.nothing_invented
#print axioms Props.C16.payload_tautology
#print axioms Props.C16.payload_ident_tautology
#print axioms Props.C16.payload_or_tautology
#print axioms Props.C16.payload_sleep
#print axioms Props.C16.payload_dangerous
#print axioms Props.C16.payload_union_null
#print axioms Props.C16.benign_silent
#print axioms Props.C16.threshold_only_removes
#print axioms Props.C16.nothing_below_threshold
#print axioms Props.C16.threshold_applied_twice
#print axioms Props.C16.counters_below_threshold_zero
