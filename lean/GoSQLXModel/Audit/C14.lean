import GoSQLXModel.Props.C14
open GoSQLXModel
#print axioms Val.walk_complete
#print axioms Val.walk_sound
#print axioms Props.C14.gen_children_complete_partial
#print axioms Props.C14.walk_visits_exactly
#print axioms Props.C14.walk_visits_only_tree_nodes
#print axioms Props.C14.windowFrame_counterexample
#print axioms Props.C14.gen_children_no_range_address
