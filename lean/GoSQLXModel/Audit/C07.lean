import GoSQLXModel.Props.C07
open GoSQLXModel
#print axioms Loops.parse_eq_withPositions
#print axioms Loops.parseContext_never_eq_parse
#print axioms Loops.parse_ok_rec
#print axioms Loops.parse_err_rec
#print axioms Batch.batch_ok_iff
#print axioms Batch.batch_err_first
#print axioms Props.C07.parse_eq_withPositions
#print axioms Props.C07.parseContext_eq_parse
#print axioms Props.C07.recovery_iff_parse_ok
#print axioms Props.C07.recovery_iff_parse_fails
#print axioms Props.C07.validate_iff_parse
#print axioms Props.C07.validate_same_code
#print axioms Batch.batch_eq_spec
#print axioms Props.C07.batch_is_spec
#print axioms Props.C07.batch_fails_iff_first_failure
#print axioms Props.C07.batch_all_ok
#print axioms Props.C07.batch_of_concatenation
