import GoSQLXModel.Props.C09
open GoSQLXModel
#print axioms Pool.clean_invariant
#print axioms poolOffenders_nil
#print axioms Props.C09.gen_pool_ok
#print axioms Props.C09.gen_covers
#print axioms Props.C09.pooled_nodes_clean
#print axioms Props.C09.gen_pool_put_matches_get
#print axioms Pool.run_types
#print axioms Pool.takeTy_perm
#print axioms Props.C09.pooled_nodes_typed
#print axioms Props.C09.pool_entry_handed_out_once
#print axioms Props.C09.pool_growth
