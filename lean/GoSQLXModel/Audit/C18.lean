import GoSQLXModel.Props.C18
open GoSQLXModel
#print axioms Lsp.offset_eq_spec
#print axioms Lsp.applyChange_eq_spec
#print axioms Lsp.parseNat_digits
#print axioms Props.C18.apply_no_panic
#print axioms Props.C18.apply_is_protocol_edit
#print axioms Props.C18.mirror_refines_spec
#print axioms Props.C18.one_response_per_request
#print axioms Props.C18.responses_of_history
#print axioms Props.C18.framing_exact
#print axioms Props.C18.framing_stream
#print axioms Lsp.run_get_eq_docAfter
#print axioms Lsp.keys_nodup
#print axioms Props.C18.document_is_its_own_history
#print axioms Props.C18.other_documents_invisible
#print axioms Props.C18.one_copy_per_document
