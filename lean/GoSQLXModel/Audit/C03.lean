import GoSQLXModel.Props.C03
open GoSQLXModel
#print axioms ExprParse.lem
#print axioms ExprParse.lemL
#print axioms ExprParse.lem_between
#print axioms ExprParse.lem_like
#print axioms ExprParse.lem_inlist
#print axioms ExprParse.lem_isnull
#print axioms ExprParse.lem_call
#print axioms ExprParse.parse_render
#print axioms ExprParse.render_low
#print axioms ExprParse.render_high
#print axioms Props.C03.gen_alias_classes_agree
#print axioms Props.C03.gen_classes_present
#print axioms Props.C03.expression_round_trip
#print axioms Props.C03.eof_stops
#print axioms Props.C03.text_determines_tree
#print axioms ExprParse.mono
#print axioms ExprParse.pExpr_stable
#print axioms Props.C03.expression_round_trip_fuel_free
