import GoSQLXModel.Props.C06
open GoSQLXModel
#print axioms ExprParse.print_eq_render
#print axioms ExprParse.print_parse
#print axioms ExprParse.parse_render
#print axioms ExprParse.paren_left
#print axioms ExprParse.paren_right
#print axioms ExprParse.paren_pred
#print axioms ExprParse.paren_pattern
#print axioms ExprParse.print_stable
#print axioms ExprParse.toEx_kwNorm
#print axioms ExprParse.wf_kwNorm
#print axioms Props.C06.second_writing_is_the_first
#print axioms Props.C06.gen_prec_table
#print axioms Props.C06.written_expression_reads_back
#print axioms Props.C06.serialiser_writes_reference_rendering
#print axioms Lex.quoted_name_reads_back
#print axioms Props.C06.quoted_name_is_read_back
#print axioms Props.C06.unsafe_name_is_written_so_that_it_reads_back
#print axioms Props.C06.name_with_dot_is_written_bare
#print axioms Props.C06.name_with_digit_first_is_written_bare
