import GoSQLXModel.Props.C13
open GoSQLXModel
#print axioms ErrChain.as_reaches
#print axioms ErrChain.as_some
#print axioms ErrChain.is_preserved
#print axioms Props.C13.gen_sites_structured
#print axioms Props.C13.gen_families
#print axioms Props.C13.gen_gosqlx_wraps
#print axioms Props.C13.structured_error_reachable
#print axioms Props.C13.cause_reachable
#print axioms Props.C13.bare_error_counterexample
#print axioms Depth.runCall_restores
#print axioms Props.C13.gen_depth_sites_deferred
#print axioms Props.C13.depth_restored_after_any_parse
#print axioms Props.C13.depth_restored_after_any_history
#print axioms Props.C13.inline_decrement_leaks
#print axioms Props.C13.is_means_member_of_unwrap_chain
#print axioms Props.C13.is_transitive
#print axioms Props.C13.as_is_first_code_of_chain
#print axioms Props.C13.code_seen_through_layers
