import GoSQLXModel.Props.C02
open GoSQLXModel
#print axioms CallGraph.ranking_bounds_chain
#print axioms CallGraph.stack_bounded
#print axioms CallGraph.unguarded_cycle_unbounded
#print axioms Props.C02.gen_parser_ranked
#print axioms Props.C02.gen_tokenizer_ranked
#print axioms Props.C02.limits_documented
#print axioms Props.C02.parser_stack_bounded
#print axioms Props.C02.tokenizer_stack_bounded
#print axioms Props.C02.not_chain_shape_unbounded
#print axioms Lex.tokenize_bounded
#print axioms Lex.token_limit_refuses
#print axioms Props.C02.token_count_is_bounded
#print axioms Props.C02.token_limit_refuses_reference_text
#print axioms Props.C02.gen_depth_counted_until_left
#print axioms Props.C02.byte_limit_refuses
#print axioms Props.C02.byte_limit_boundary
#print axioms Props.C02.reference_text_at_byte_limit_accepted
