import GoSQLXModel.Props.C11
open GoSQLXModel
#print axioms ErrChain.is_preserved
#print axioms ErrChain.flatten_loses_ctx
#print axioms Props.C11.gen_ctx_sites_keep_chain
#print axioms Props.C11.gen_catch_all_present
#print axioms Props.C11.gen_poll_sites_expected
#print axioms Props.C11.cancel_reported
#print axioms Props.C11.flatten_without_catch_all_counterexample
#print axioms Props.C11.never_fires_transparent
#print axioms Props.C11.gen_entry_polls_first
#print axioms Props.C11.cancellation_seen_at_first_poll
#print axioms Props.C11.result_means_context_unseen
