import GoSQLXModel.Props.C20
open GoSQLXModel
#print axioms Lex.lexLoop_total
#print axioms Lex.nextToken_progress
#print axioms Lex.locOf_succ
#print axioms Lex.advanceTo_spec
#print axioms Lex.runQueries_cost
#print axioms Props.C20.main_loop_iterations
#print axioms Props.C20.cache_invisible
#print axioms Props.C20.position_queries_linear
#print axioms Lex.lexLoop_count
#print axioms Props.C20.tokens_at_most_bytes
