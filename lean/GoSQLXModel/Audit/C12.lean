import GoSQLXModel.Props.C12
open GoSQLXModel
#print axioms Loops.recLoop_total
#print axioms Loops.sync_scan
#print axioms Loops.recovery_segments
#print axioms Props.C12.recovery_terminates
#print axioms Props.C12.strict_terminates
#print axioms Props.C12.recovery_iff_ok
#print axioms Props.C12.recovery_iff_err
#print axioms Props.C12.segments
#print axioms Props.C12.swallowed_semicolon_counterexample
#print axioms Props.C12.partial_prefix_counterexample
#print axioms Props.C12.gen_start_keyword_by_type
#print axioms Loops.rec_new_entries
#print axioms Props.C12.reported_positions_are_tokens_in_order
