import GoSQLXModel.Props.C04
open GoSQLXModel
#print axioms Lex.nextToken_progress
#print axioms Lex.tokenize_total
#print axioms Lex.tokenize_single_eof
#print axioms Lex.tokenize_spans
#print axioms Lex.skipTriviaF_head
#print axioms Lex.longestOp_maximal
#print axioms Props.C04.gen_types_nonzero
#print axioms Props.C04.gen_at_operators
#print axioms Props.C04.gen_tables_ok
#print axioms Props.C04.gen_operators_prefix_closed
#print axioms Props.C04.gen_keywords_upper
#print axioms Props.C04.tokenizer_total
#print axioms Props.C04.exactly_one_eof
#print axioms Props.C04.tokens_in_source_order
#print axioms Props.C04.operator_maximal_munch
#print axioms Props.C04.triple_quote_counterexample
#print axioms Lex.tokenize_spell
#print axioms Lex.tokenize_layout_independent
#print axioms Lex.lexLoop_spell
#print axioms Props.C04.go_class_ascii_ok
#print axioms Props.C04.gen_punct_ok
#print axioms Props.C04.reference_lexemes_are_the_tokens
#print axioms Props.C04.layout_independent
