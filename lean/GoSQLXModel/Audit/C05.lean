import GoSQLXModel.Props.C05
open GoSQLXModel
#print axioms Lex.tokenize_spans
#print axioms Lex.skipTriviaF_head
#print axioms Lex.locOf_one_based
#print axioms Lex.locOf_line_mono
#print axioms Lex.locOf_col_mono
#print axioms Lex.locOf_col_tabfree
#print axioms Props.C05.loc_monotone
#print axioms Props.C05.loc_one_based
#print axioms Props.C05.spans_ordered_inside
#print axioms Props.C05.adjacent_locations_ordered
#print axioms Props.C05.token_starts_at_nonblank
#print axioms Props.C05.column_is_byte_distance
#print axioms Lex.spans_slice
#print axioms Lex.tokenize_spell2
#print axioms Props.C05.reference_grammar_spans
#print axioms Lex.lexLoop_prefix_err
#print axioms Lex.unterminated_literal_located
#print axioms Props.C05.unterminated_literal_located_at_its_quote
#print axioms Props.C05.token_limit_error_located_at_the_excess
#print axioms Props.C05.loc_start
#print axioms Props.C05.loc_strict
#print axioms Props.C05.loc_injective
