import GoSQLXModel.Props.C01
open GoSQLXModel
#print axioms Lex.tokenize_total
#print axioms Lex.nextToken_progress
#print axioms Props.C01.tokenizer_returns
#print axioms Props.C01.loops_return
#print axioms Props.C01.tree_functions_stay_inside
#print axioms Props.C02.parser_stack_bounded
#print axioms Props.C02.tokenizer_stack_bounded
#print axioms Props.C12.strict_terminates
#print axioms Props.C12.recovery_terminates
#print axioms Props.C01.gen_parser_loops_leave_at_end
#print axioms ExprParse.prog
#print axioms ExprParse.pExpr_progress
#print axioms Props.C01.expression_ladder_moves_forward
#print axioms ExprParse.tot
#print axioms ExprParse.pExpr_returns
#print axioms Props.C01.expression_ladder_returns
#print axioms ExprParse.mono
#print axioms Props.C01.expression_answer_independent_of_fuel
