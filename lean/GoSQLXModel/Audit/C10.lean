import GoSQLXModel.Props.C10
open GoSQLXModel
#print axioms Metrics.adds_exact
#print axioms Metrics.adds_exact_finished
#print axioms Metrics.cas_exact
#print axioms Metrics.max_exact
#print axioms Metrics.min_exact
#print axioms Metrics.minRank_is_go_test
#print axioms Metrics.lost_update_counterexample
#print axioms Metrics.isolation
#print axioms Props.C10.gen_metrics_protocol
#print axioms Props.C10.gen_no_plain_access
#print axioms Props.C10.gen_counters_add_only
#print axioms Props.C10.gen_shared_guarded
#print axioms Props.C10.totals_exact
#print axioms Props.C10.gen_sizes_are_argument_lengths
#print axioms Metrics.sequential_completes
#print axioms Props.C10.recorder_alone_finishes
#print axioms Props.C10.finishing_schedule_exists
