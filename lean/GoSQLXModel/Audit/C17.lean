import GoSQLXModel.Props.C17
open GoSQLXModel
#print axioms Lint.split_join
#print axioms Lint.join_split
#print axioms Lint.map_fix_idempotent
#print axioms Lint.collapseGo_idem
#print axioms Props.C17.fixL001_idempotent
#print axioms Props.C17.fixL002_idempotent
#print axioms Props.C17.fixL010_idempotent
#print axioms Props.C17.fixL001_relint_clean
#print axioms Props.C17.fixL010_local
#print axioms Props.C17.fixL010_line_count
#print axioms Props.C17.multiline_literal_counterexample
#print axioms Props.C17.quote_in_comment_counterexample
