import GoSQLXModel.Props.C17
open GoSQLXModel
#print axioms Lint.split_join
#print axioms Lint.join_split
#print axioms Lint.map_fix_idempotent
#print axioms Lint.collapseGo_idem
#print axioms Props.C17.fixL001_idempotent
#print axioms Props.C17.fixL002_idempotent
#print axioms Props.C17.fixL010_idempotent
#print axioms Props.C17.fixL001_relint_clean
#print axioms Props.C17.fixL010_local
#print axioms Props.C17.fixL010_line_count
#print axioms Props.C17.multiline_literal_counterexample
#print axioms Props.C17.quote_in_comment_counterexample
#print axioms Lint.fixL001_eq_trimC
#print axioms Lex.fixL001_bytes
#print axioms Lex.seq_trim
#print axioms Lex.fixL001_keeps_tokens
#print axioms Props.C17.gen_ops_no_ws
#print axioms Props.C17.l001_keeps_tokens
#print axioms Lint.fixL003_idempotent
#print axioms Props.C17.fixL003_idempotent
#print axioms Lint.fixL002_eq_expC
#print axioms Lex.seq_exp
#print axioms Lex.fixL002_keeps_tokens
#print axioms Props.C17.l002_keeps_tokens
#print axioms Lex.fixL001_then_L002_keeps_tokens
#print axioms Props.C17.l001_then_l002_keep_tokens
