import GoSQLXModel.Props.C19
open GoSQLXModel
#print axioms Fs.atomic_replace_safe
#print axioms Fs.truncate_write_unsafe
#print axioms Fs.read_only_preserves
#print axioms Props.C19.gen_inplace_sites_atomic
#print axioms Props.C19.gen_protocol_expected
#print axioms Props.C19.inplace_write_safe
#print axioms Props.C19.inplace_write_completes
#print axioms Props.C19.truncate_write_counterexample
#print axioms Props.C19.validate_exit_iff
#print axioms Props.C19.check_exit_iff
#print axioms Props.C19.check_mode_writes_nothing
#print axioms Fs.mem_crashStates_cons
#print axioms Fs.crash_frame
#print axioms Props.C19.all_files_old_or_new
#print axioms Props.C19.other_paths_untouched
