import GoSQLXModel.Props.C15
open GoSQLXModel
#print axioms Extract.Collector.run_exact
#print axioms Extract.Collector.run_sound
#print axioms Extract.Collector.run_nodup
#print axioms Extract.mkCollector_exact
#print axioms Extract.recordsAt_sub
#print axioms Val.walkVals_sublist
#print axioms Val.nodeVals_trans
#print axioms Val.at_sub
#print axioms Props.C15.gen_recurses
#print axioms Props.C15.gen_expr_covered
#print axioms Props.C15.gen_table_reads
#print axioms Props.C15.gen_tref_fields_classified
#print axioms Props.C15.gen_name_records
#print axioms Props.C15.tables_exact
#print axioms Props.C15.tables_qualified_exact
#print axioms Props.C15.columns_exact
#print axioms Props.C15.columns_qualified_exact
#print axioms Props.C15.functions_exact
#print axioms Props.C15.nothing_extra
#print axioms Props.C15.results_nodup
#print axioms Props.C15.column_records_only_at_identifiers
#print axioms Props.C15.function_records_only_at_calls
#print axioms Props.C15.frame_bound_counterexample
