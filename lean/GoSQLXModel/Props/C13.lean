import GoSQLXModel.Model.ErrChain
import GoSQLXModel.Proofs.ErrChainLaws
import GoSQLXModel.Gen.ErrorSites
import GoSQLXModel.Spec.ErrorSites
import GoSQLXModel.Gen.ParserInstance
import GoSQLXModel.Proofs.Depth
/-!
# C13 — Every failure is a structured, classifiable, reproducible error

> Every error returned by tokenizing, parsing or validating exposes, through standard unwrapping, a
> structured error with a documented code of the right family … and wrapped causes remain
> reachable with errors.Is/errors.As.

* `ErrChain.as_some` / `as_reaches` / `is_preserved`: for every stack of chain-keeping wrapper layers
  (any length) over a structured error, errors.As finds a structured error and errors.Is finds every
  wrapped cause.
* `is_means_member_of_unwrap_chain`, `is_transitive`, `as_is_first_code_of_chain`, `code_seen_through_layers`
  (Proofs/ErrChainLaws.lean): errors.Is finds exactly the members of the (finite) chain that repeated `Unwrap()`
  exposes, hence is transitive; errors.As returns the code of the first structured error of that chain; through any
  stack of layers the caller sees the code of the outermost `WrapError` layer, or — under `%w` / ParseError layers
  only — exactly the code of the wrapped error.
* `gen_sites_structured`: on the table re-extracted from today's source, every reachable error
  construction site in tokenizer/parser/gosqlx is a structured builder or a `%w` layer; no bare
  `fmt.Errorf`/`errors.New` and no `%v`-flattening `fmt.Errorf` reaches a caller (modulo the
  hand-listed unreachable sites).
* `gen_families`: tokenizer sites carry E1xxx codes, parser sites E2xxx codes, all documented.
* `gen_gosqlx_wraps`: the convenience wrappers only add `%w` layers.
* "The same input always produces the same code": the one piece of parser state that survives a failed parse on a reused
  parser and decides an error code is the recursion-depth counter (E2007 when it passes 100). `Model/Depth.lean`: call
  trees whose counting calls lower the counter with `defer`; `depth_restored_after_any_parse` /
  `depth_restored_after_any_history`: after any call tree — failing anywhere, at any nesting — and after any sequence
  of them the counter is what it was; `gen_depth_sites_deferred`: on today's source every `depth++` is immediately
  followed by the deferred `depth--`; `inline_decrement_leaks`: the inline shape leaks, and 34 such statements pass the
  limit. The harness reads the real counter after every run of failures (hook `VerifDepth`).
-/
namespace GoSQLXModel.Props.C13
open GoSQLXModel GoSQLXModel.ErrChain

abbrev Site := String × String × String × String × Bool × String

def Site.pkg (s : Site) := s.1
def Site.fn (s : Site) := s.2.1
def Site.kind (s : Site) := s.2.2.1
def Site.code (s : Site) := s.2.2.2.1
def Site.reachable (s : Site) := s.2.2.2.2.1
def Site.msg (s : Site) := s.2.2.2.2.2

def allowed (s : Site) : Bool :=
  Spec.unreachableSites.any fun a => a.1 == s.pkg && a.2.1 == s.fn && (a.2.2 == "" || a.2.2 == s.msg)

/-- reachable sites that hand an unstructured error to a caller -/
def unstructuredOffenders (sites : List Site) : List Site :=
  sites.filter fun s => s.reachable && !allowed s &&
    (s.kind == "bare" || s.kind == "flatten" || s.kind == "sentinel" || s.kind == "wrapW-foreign")

/-- reachable builder sites whose code is undocumented or of the wrong family for the package -/
def familyOffenders (sites : List Site) : List Site :=
  sites.filter fun s => s.reachable && !allowed s && (s.kind == "builder" || s.kind == "builder-flatten") &&
    !(Spec.documentedCodes.contains s.code &&
      (if s.pkg == "pkg/sql/tokenizer" then s.code.startsWith "E1"
       else if s.pkg == "pkg/sql/parser" then s.code.startsWith "E2"
       else true))

theorem gen_sites_structured : unstructuredOffenders Gen.errorSites = [] := by decide +kernel
theorem gen_families : familyOffenders Gen.errorSites = [] := by decide +kernel

/-- the gosqlx convenience layer constructs no error of its own: it only wraps with %w -/
theorem gen_gosqlx_wraps :
    (Gen.errorSites.filter fun s => s.1 == "pkg/gosqlx" && !(s.2.2.1 == "wrapW" || s.2.2.1 == "wrapW-ctx")) = [] := by
  decide +kernel

/-- **C13 (classification)**: whatever `%w` / ParseError layers the entry points add, errors.As reaches the
    structured error a builder site produced, with that site's code -/
theorem structured_error_reachable (ls : List Layer) (code : String)
    (hw : ∀ l ∈ ls, match l with | .cause _ => False | _ => True) :
    errAs (applyLayers ls (.structured code)) = some code := as_reaches ls code hw

/-- **C13 (causes)**: a wrapped cause stays reachable with errors.Is through every chain-keeping layer -/
theorem cause_reachable (ls : List Layer) (cause : Err) : errIs (applyLayers ls cause) cause = true :=
  is_preserved ls cause

/-- non-vacuity: the three-layer chain built by gosqlx.ParseMultiple over a parser error -/
example : errAs (applyLayers [.w "query 2", .w "parsing failed"] (.structured "E2002")) = some "E2002" := by decide
example : (Gen.errorSites.filter fun s => s.2.2.1 == "builder").length > 40 := by decide +kernel

/-- sensitivity: a bare error introduced in a reachable parser function is an offender, and the model
    shows errors.As then finds nothing -/
example : unstructuredOffenders [("pkg/sql/parser", "Parser.parseSelectStatement", "bare", "", true, "invalid %s value %q")]
    = [("pkg/sql/parser", "Parser.parseSelectStatement", "bare", "", true, "invalid %s value %q")] := by decide
theorem bare_error_counterexample : errAs (applyLayers [.w "parsing failed"] (.bare "invalid LIMIT value")) = none := by decide


/-- every `p.depth++` of pkg/sql/parser is immediately followed by `defer func() { p.depth-- }()` (regenerated) -/
theorem gen_depth_sites_deferred : Gen.parserDepthIncs.all (·.2) = true ∧ Gen.parserDepthIncs.length ≥ 3 := by decide +kernel

/-- with `defer` at every counting call, one parse — succeeding or failing anywhere — leaves the counter as it was -/
theorem depth_restored_after_any_parse (c : Depth.Call) (d : Nat) (h : c.allDeferred = true) : (Depth.runCall c d).1 = d :=
  Depth.runCall_restores c d h

/-- … and so does any history of parses on one parser -/
theorem depth_restored_after_any_history (cs : List Depth.Call) (d : Nat) (h : ∀ c ∈ cs, c.allDeferred = true) :
    cs.foldl (fun d c => (Depth.runCall c d).1) d = d := Depth.runs_restore cs d h

/-- the inline decrement skipped by the failure path leaks one level per counting call on the way out -/
theorem inline_decrement_leaks : Depth.runCall Depth.leaky 0 = (3, false) ∧
    (List.replicate 34 Depth.leaky).foldl (fun d c => (Depth.runCall c d).1) 0 = 102 :=
  ⟨Depth.inline_decrement_leaks, Depth.leaks_accumulate⟩

theorem is_means_member_of_unwrap_chain (e t : Err) : errIs e t = true ↔ t ∈ chain e := errIs_iff_mem_chain e t

theorem is_transitive (e m t : Err) (h1 : errIs e m = true) (h2 : errIs m t = true) : errIs e t = true :=
  errIs_trans e m t h1 h2

theorem as_is_first_code_of_chain (e : Err) : errAs e = (chain e).findSome? codeOf := errAs_eq_first_code e

theorem code_seen_through_layers (ls : List Layer) (e : Err) :
    errAs (applyLayers ls e) = (ls.findSome? layerCode).or (errAs e) := errAs_layers ls e

/-- non-vacuity: gosqlx `%w` over a ParseError over a tokenizer error wrapped by WrapError around a context error -/
example : chain (.wrapW "parse" (.parseError 3 (.caused "E2001" (.ctx true)))) =
      [.wrapW "parse" (.parseError 3 (.caused "E2001" (.ctx true))), .parseError 3 (.caused "E2001" (.ctx true)),
       .caused "E2001" (.ctx true), .ctx true] ∧
    errAs (.wrapW "parse" (.parseError 3 (.caused "E2001" (.ctx true)))) = some "E2001" ∧
    errIs (.wrapW "parse" (.parseError 3 (.caused "E2001" (.ctx true)))) (.ctx true) = true := by decide

end GoSQLXModel.Props.C13
