import GoSQLXModel.Model.LexGen
import GoSQLXModel.Proofs.LexMunch
import GoSQLXModel.Proofs.LexSpell
import GoSQLXModel.Proofs.LexSpell2
import GoSQLXModel.Driver.GoClass
/-!
# C04 — The token stream is a faithful, layout-independent reading of the text

> Tokenizing yields, in source order, exactly the lexical elements of the input (…) followed by exactly one
> end-of-input marker, with each comment captured separately with its exact text. Changing only the whitespace or
> comments between elements, or the letter case of keywords, never changes the sequence of kinds and values (…).

Model: `Model/Lex.lean`, the byte-level tokenizer (Go's UTF-8 decoding, every reader, the trivia loop, the limits),
with keyword / compound-keyword / operator tables and token-type numbers regenerated from the source.

Proved for every classifier, every table and every byte string (`Proofs/Lex*.lean`):
* `tokenize_total` — the tokenizer returns (C01 for the tokenizer): every reader strictly shortens the input;
* `tokenize_single_eof` — the tokens of an accepted input are followed by exactly one end-of-input marker, and no
  other token has that type;
* `tokenize_spans` — spans are in source order, never overlap, and end at the end of the input;
* `skipTriviaF_head` — a token never starts at a blank;
* `longestOp_maximal` — operators are read by maximal munch over the operator table.
Obligations on the regenerated tables: well-formedness (`TablesOK`), the operator table is prefix-closed (so the
nested `if` ladder of readPunctuation and the longest-match reading coincide), keywords are stored upper-case.

* `tokenize_spell` (`Proofs/LexSpell.lean`) — the reference surface: every sequence, of any length within the limits,
  of ASCII words (keywords by the keyword table, else identifiers; not the first word of a compound keyword),
  unsigned integers and `( ) , ;`, each followed by *any* non-empty run of blanks, is read as exactly that sequence of
  (type, text) pairs, then one end marker, with no comments; `tokenize_layout_independent`: hence two layouts of the
  same lexemes give the same tokens.  Its hypotheses on the parameters are decidable and discharged here for the
  classifier dumped from the Go runtime (`go_class_ascii_ok`) and today's operator table (`gen_punct_ok`).

* `tokenize_spell2` (`Proofs/LexSpell2.lean`) — the reference grammar proper: every sequence, of any length within the
  limits, of ASCII words (keyword by the keyword table, else identifier — the first word of a two-word keyword included,
  when what follows does not complete one), two-word keywords written with any blank run between the words, numbers in
  all forms (digits, fraction, exponent with optional sign), *every* operator of the operator table, single-quoted
  literals (plain bytes, doubled quotes, the seven backslash escapes — the value is the decoded text), double-quoted
  identifiers (doubled quotes), backtick identifiers (doubled backticks, any byte), separated by any mix of blank runs,
  line comments and block comments, or by *nothing* wherever the local junction check `seqOK` allows it, is read as
  exactly that sequence of (kind, decoded value) pairs, then one end marker; and the comments captured are exactly the
  separators' comments, in order, with their exact text and kind.  `tokenize_layout_independent2`: two layouts of the
  same lexemes give the same kinds and values; `word_kind_case_insensitive`: letter case does not change a word's kind.

**Partial**: outside the theorem: non-ASCII identifiers and non-ASCII bytes inside quoted forms (the UTF-8 re-encoding
of the readers), Unicode quote characters, `$`-placeholders / dollar-quoted strings / `@` forms, triple-quoted strings,
an unterminated final line comment, and the parser-side expansion of two-word keyword tokens (so that `GROUP /*c*/ BY`
and `GROUP BY` parse alike although their token lists differ).  For those the statement is checked by the harness
against the generator's own record (oracle), exhaustively for operator pairs, and the model is tied to the code by the
byte-level correspondence.
-/
namespace GoSQLXModel.Props.C04
open GoSQLXModel GoSQLXModel.Lex

/-! ## obligations on the regenerated tables -/

theorem gen_types_nonzero :
    (Gen.Lex.keywordTypes.all fun e => e.2 != 0) = true ∧ (Gen.Lex.compoundTypes.all fun e => e.2 != 0) = true ∧
    (Gen.Lex.operators.all fun e => e.2 != 0) = true ∧
    Gen.Lex.ttIdentifier ≠ 0 ∧ Gen.Lex.ttNumber ≠ 0 ∧ Gen.Lex.ttPlaceholder ≠ 0 ∧ Gen.Lex.ttSingleQuotedString ≠ 0 ∧
    Gen.Lex.ttDoubleQuotedString ≠ 0 ∧ Gen.Lex.ttString ≠ 0 ∧ Gen.Lex.ttTripleSingleQuotedString ≠ 0 ∧
    Gen.Lex.ttTripleDoubleQuotedString ≠ 0 ∧ Gen.Lex.ttDollarQuotedString ≠ 0 := by decide +kernel

theorem gen_at_operators :
    (lookup genLexTables.operators [64]).isSome = true ∧ (lookup genLexTables.operators [64, 62]).isSome = true ∧
    (lookup genLexTables.operators [64, 64]).isSome = true := by decide +kernel

theorem map_snd_ne_zero {l : List (String × Nat)} (h : (l.all fun e => e.2 != 0) = true) :
    ∀ e ∈ l.map (fun e => (strBytes e.1, e.2)), e.2 ≠ 0 := by
  intro e he
  simp only [List.mem_map] at he
  obtain ⟨x, hx, rfl⟩ := he
  have := List.all_eq_true.1 h x hx
  simpa using this

theorem gen_tables_ok : TablesOK genLexTables where
  kw := map_snd_ne_zero gen_types_nonzero.1
  ct := map_snd_ne_zero gen_types_nonzero.2.1
  op := map_snd_ne_zero gen_types_nonzero.2.2.1
  ident := gen_types_nonzero.2.2.2.1
  num := gen_types_nonzero.2.2.2.2.1
  ph := gen_types_nonzero.2.2.2.2.2.1
  sq := gen_types_nonzero.2.2.2.2.2.2.1
  dq := gen_types_nonzero.2.2.2.2.2.2.2.1
  st := gen_types_nonzero.2.2.2.2.2.2.2.2.1
  ts := gen_types_nonzero.2.2.2.2.2.2.2.2.2.1
  td := gen_types_nonzero.2.2.2.2.2.2.2.2.2.2.1
  dl := gen_types_nonzero.2.2.2.2.2.2.2.2.2.2.2
  at1 := gen_at_operators.1
  at2 := gen_at_operators.2.1
  at3 := gen_at_operators.2.2

/-- every non-empty proper prefix of an operator is an operator: longest match = the ladder of nested tests -/
theorem gen_operators_prefix_closed :
    (Gen.Lex.operators.all fun o =>
      (List.range o.1.length).all fun k =>
        k == 0 || Gen.Lex.operators.any fun p => p.1.toList == o.1.toList.take k) = true := by decide +kernel

/-- keyword and compound-keyword keys are stored in upper case (they are looked up by the upper-cased word) -/
theorem gen_keywords_upper :
    (Gen.Lex.keywordTypes.all fun e => e.1.toList.all fun c => !('a' ≤ c && c ≤ 'z')) = true ∧
    (Gen.Lex.compoundTypes.all fun e => e.1.toList.all fun c => !('a' ≤ c && c ≤ 'z')) = true ∧
    (Gen.Lex.compoundStarts.all fun e => e.toList.all fun c => !('a' ≤ c && c ≤ 'z')) = true := by decide +kernel

/-! ## the property at today's tables -/

/-- the tokenizer returns, whatever the bytes -/
theorem tokenizer_total (cls : CharClass) (inp : Bytes) : tokenize cls genLexTables inp ≠ .outOfFuel :=
  tokenize_total cls genLexTables inp

/-- **C04 (end marker)** -/
theorem exactly_one_eof (cls : CharClass) (inp : Bytes) (toks : List Tok) (cms : List Comment)
    (h : tokenize cls genLexTables inp = .ok toks cms) :
    ∃ body, toks = body ++ [{ ty := 0, value := [], startOff := inp.length, endOff := inp.length }] ∧
      ∀ t ∈ body, t.ty ≠ 0 :=
  tokenize_single_eof cls genLexTables gen_tables_ok inp toks cms h

/-- **C04 (source order)** -/
theorem tokens_in_source_order (cls : CharClass) (inp : Bytes) (toks : List Tok) (cms : List Comment)
    (h : tokenize cls genLexTables inp = .ok toks cms) : SpansFrom 0 toks ∧ lastEnd 0 toks = inp.length :=
  tokenize_spans cls genLexTables inp toks cms h

/-- **C04 (operators)**: maximal munch over today's operator table -/
theorem operator_maximal_munch (bs : Bytes) {o : Bytes × Nat} (h : longestOp genLexTables.operators bs = some o) :
    o ∈ genLexTables.operators ∧ o.1.isPrefixOf bs = true ∧
      ∀ x ∈ genLexTables.operators, x.1.isPrefixOf bs = true → x.1 ≠ [] → x.1.length ≤ o.1.length :=
  longestOp_maximal _ bs h

/-! ## the reference surface: lexemes separated by blanks are read as exactly those lexemes -/

/-- the classifier dumped from the Go runtime in use treats ASCII as the reference surface assumes -/
theorem go_class_ascii_ok : AsciiOK Driver.goClass := asciiOK_of_bool _ (by decide +kernel)
theorem ascii_class_ok : AsciiOK CharClass.ascii := asciiOK_of_bool _ (by decide +kernel)

/-- in today's operator table nothing but the byte itself starts with `(`, `)`, `,` or `;` -/
theorem gen_punct_ok : (∃ ty, PunctOK genLexTables 40 ty) ∧ (∃ ty, PunctOK genLexTables 41 ty) ∧
    (∃ ty, PunctOK genLexTables 44 ty) ∧ (∃ ty, PunctOK genLexTables 59 ty) :=
  ⟨punctOK_of_bool _ _ (by decide +kernel), punctOK_of_bool _ _ (by decide +kernel), punctOK_of_bool _ _ (by decide +kernel),
   punctOK_of_bool _ _ (by decide +kernel)⟩

/-- **C04 (reference surface)**: with the Go classifier and today's tables, any sequence of words, integers and
    `( ) , ;`, each followed by any non-empty run of blanks, is read as exactly that sequence of tokens (keyword type
    from the keyword table, else identifier; number; the punctuation's type), then one end marker, with no comments -/
theorem reference_lexemes_are_the_tokens (lead : Bytes) (items : List Item)
    (hlead : ∀ x ∈ lead, isWS x = true) (hok : ∀ it ∈ items, ItemOK Driver.goClass genLexTables it)
    (hsize : (lead ++ flat items).length ≤ genLexTables.maxInput) (hcount : items.length ≤ genLexTables.maxTokens) :
    ∃ toks, tokenize Driver.goClass genLexTables (lead ++ flat items) = .ok toks [] ∧
      toks.map Tok.key = (items.map fun it => it.1.key Driver.goClass genLexTables) ++ [(0, [])] :=
  tokenize_spell Driver.goClass genLexTables go_class_ascii_ok lead items hlead hok hsize hcount

/-- **C04 (layout independence on the reference surface)** -/
theorem layout_independent (lead1 lead2 : Bytes) (items1 items2 : List Item)
    (hsame : items1.map (·.1.key Driver.goClass genLexTables) = items2.map (·.1.key Driver.goClass genLexTables))
    (hl1 : ∀ x ∈ lead1, isWS x = true) (hl2 : ∀ x ∈ lead2, isWS x = true)
    (hok1 : ∀ it ∈ items1, ItemOK Driver.goClass genLexTables it) (hok2 : ∀ it ∈ items2, ItemOK Driver.goClass genLexTables it)
    (hs1 : (lead1 ++ flat items1).length ≤ genLexTables.maxInput) (hs2 : (lead2 ++ flat items2).length ≤ genLexTables.maxInput)
    (hc1 : items1.length ≤ genLexTables.maxTokens) (hc2 : items2.length ≤ genLexTables.maxTokens) :
    ∃ t1 t2, tokenize Driver.goClass genLexTables (lead1 ++ flat items1) = .ok t1 [] ∧
      tokenize Driver.goClass genLexTables (lead2 ++ flat items2) = .ok t2 [] ∧ t1.map Tok.key = t2.map Tok.key :=
  tokenize_layout_independent Driver.goClass genLexTables go_class_ascii_ok lead1 lead2 items1 items2 hsame hl1 hl2 hok1 hok2 hs1 hs2 hc1 hc2

/-- the hypotheses are satisfiable: `select a , 12 ;` with two different layouts -/
example : ∃ items : List Item, items.length = 5 ∧ (∀ it ∈ items, ItemOK CharClass.ascii genLexTables it) := by
  refine ⟨[(.word (strBytes "select"), [32]), (.word (strBytes "a"), [32, 10]), (.punct 44, [9]), (.int (strBytes "12"), [32]),
    (.punct 59, [10])], rfl, ?_⟩
  intro it hit
  simp only [List.mem_cons, List.not_mem_nil, or_false] at hit
  rcases hit with rfl | rfl | rfl | rfl | rfl
  · exact ⟨⟨115, strBytes "elect", by decide +kernel, by decide +kernel, by decide +kernel, by decide +kernel⟩, by simp, by decide +kernel⟩
  · exact ⟨⟨97, [], by decide +kernel, by decide +kernel, by simp, by decide +kernel⟩, by simp, by decide +kernel⟩
  · exact ⟨⟨by decide +kernel, gen_punct_ok.2.2.1⟩, by simp, by decide +kernel⟩
  · exact ⟨⟨by decide +kernel, by decide +kernel⟩, by simp, by decide +kernel⟩
  · exact ⟨⟨by decide +kernel, gen_punct_ok.2.2.2⟩, by simp, by decide +kernel⟩


/-! ## the reference grammar, second surface: comments and empty separators, every operator, strings, quoted identifiers -/

/-- **C04 (reference grammar)**: with the Go classifier and today's tables, every sequence of ASCII words, integers,
    operators of the operator table, single-quoted literals (plain bytes, doubled quotes, the seven backslash escapes)
    and double-quoted identifiers, separated by any mix of blank runs, line comments and block comments — or by nothing
    where the junction check `seqOK` allows it — is read as exactly that sequence of (kind, decoded value) pairs, then one
    end marker; and the comments captured are exactly the separators' comments, in order, with their exact text. -/
theorem reference_grammar_is_read_faithfully (lead : List Piece) (items : List Item2)
    (hlead : lead.all Piece.ok = true) (hok : seqOK Driver.goClass genLexTables items = true)
    (hsize : (sepBytes lead ++ flat2 items).length ≤ genLexTables.maxInput) (hcount : items.length ≤ genLexTables.maxTokens) :
    ∃ toks cs, tokenize Driver.goClass genLexTables (sepBytes lead ++ flat2 items) = .ok toks cs ∧
      toks.map Tok.key = (items.map fun it => it.1.key Driver.goClass genLexTables) ++ [(0, [])] ∧
      cs.map Comment.key = sepComments lead ++ itemsComments items := by
  obtain ⟨toks, cs, h1, h2, h3, _⟩ := tokenize_spell2 Driver.goClass genLexTables go_class_ascii_ok lead items hlead hok hsize hcount
  exact ⟨toks, cs, h1, h2, h3⟩

/-- **C04 (layout independence)**: changing only the blanks and comments between the lexemes never changes the
    sequence of kinds and values -/
theorem layout_independent2 (lead1 lead2 : List Piece) (items1 items2 : List Item2)
    (hsame : items1.map (·.1.key Driver.goClass genLexTables) = items2.map (·.1.key Driver.goClass genLexTables))
    (hl1 : lead1.all Piece.ok = true) (hl2 : lead2.all Piece.ok = true)
    (hok1 : seqOK Driver.goClass genLexTables items1 = true) (hok2 : seqOK Driver.goClass genLexTables items2 = true)
    (hs1 : (sepBytes lead1 ++ flat2 items1).length ≤ genLexTables.maxInput)
    (hs2 : (sepBytes lead2 ++ flat2 items2).length ≤ genLexTables.maxInput)
    (hc1 : items1.length ≤ genLexTables.maxTokens) (hc2 : items2.length ≤ genLexTables.maxTokens) :
    ∃ t1 c1 t2 c2, tokenize Driver.goClass genLexTables (sepBytes lead1 ++ flat2 items1) = .ok t1 c1 ∧
      tokenize Driver.goClass genLexTables (sepBytes lead2 ++ flat2 items2) = .ok t2 c2 ∧ t1.map Tok.key = t2.map Tok.key :=
  tokenize_layout_independent2 Driver.goClass genLexTables go_class_ascii_ok lead1 lead2 items1 items2 hsame hl1 hl2 hok1 hok2
    hs1 hs2 hc1 hc2

/-- **C04 (keyword case)**: spellings that differ only in letter case are read as the same kind -/
theorem keyword_case_does_not_change_the_kind (w1 w2 : Bytes) (h : upper Driver.goClass w1 = upper Driver.goClass w2) :
    ((Lx.word w1).key Driver.goClass genLexTables).1 = ((Lx.word w2).key Driver.goClass genLexTables).1 :=
  word_kind_case_insensitive _ _ w1 w2 h

/-- every operator of today's table is a lexeme of this surface, except those the tokenizer reads through its
    placeholder / dollar-quote branch (first byte `$` or `@`), which are not table look-ups -/
theorem gen_operators_are_lexemes :
    (genLexTables.operators.all fun o =>
      o.1.head? == some 36 || o.1.head? == some 64 || (Lx.op o.1).ok Driver.goClass genLexTables) = true := by decide +kernel

/-- the quote characters start no identifier for the Go classifier (side condition of the literal lexemes) -/
theorem go_class_quotes : isIdentStart Driver.goClass 39 = false ∧ isIdentStart Driver.goClass 34 = false := by decide +kernel

def kv' (r : Result) : Option (List (Nat × Bytes) × List (Bytes × Bool)) :=
  match r with
  | .ok toks cs => some (toks.map Tok.key, cs.map Comment.key)
  | _ => none

/-- non-vacuity: a statement with numbers in two forms, a backtick identifier with a doubled backtick, comments as the
    only separators, operators juxtaposed with their operands, a literal with a doubled quote and an escape, a quoted
    identifier, a two-word keyword split across a newline, and the same two words kept apart by a comment -/
def sampleItems : List Item2 :=
  [(.word (strBytes "select"), [.blanks [32]]),
   (.num (strBytes "1") (strBytes "50") (strBytes "e-3"), []), (.op (strBytes "+"), []), (.num (strBytes "2") [] (strBytes "E10"), []),
   (.op (strBytes ","), []), (.bq [.ch 111, .dq, .ch 107], []), (.op (strBytes ","), []),
   (.word (strBytes "a"), []), (.op (strBytes "<="), []), (.int (strBytes "1"), []), (.op (strBytes ","), []),
   (.str [.ch 105, .ch 116, .dq, .ch 115, .esc 110], [.block (strBytes "c")]),
   (.word (strBytes "from"), [.blanks [32]]),
   (.qid [.ch 84, .dq, .ch 120], [.line (strBytes "z"), .blanks [32]]),
   (.word (strBytes "where"), [.blanks [10, 9]]),
   (.word (strBytes "x"), [.blanks [32]]), (.compound (strBytes "Group") [32, 10, 9] (strBytes "by"), [.blanks [32]]),
   (.word (strBytes "group"), [.block (strBytes " not a compound ")]), (.word (strBytes "by"), [.blanks [32]]),
   (.word (strBytes "x"), []), (.op (strBytes "->>"), []), (.str [.ch 107], []), (.op (strBytes ";"), [])]

/- (the concrete checks use the ASCII classifier, for which `ascii_class_ok` gives the same theorem: evaluating the
   dumped Unicode case-mapping table inside the kernel costs minutes per word) -/
example : seqOK .ascii genLexTables sampleItems = true := by decide +kernel
example : flat2 sampleItems = strBytes ("select 1.50e-3+2E10,`o``k`,a<=1,'it''s\\n'/*c*/from \"T\"\"x\"--z\n where\n\tx Group \n\tby " ++
    "group/* not a compound */by x->>'k';") := by decide +kernel
example : sampleItems.map (·.1.key .ascii genLexTables) =
    [(201, strBytes "select"), (Gen.Lex.ttNumber, strBytes "1.50e-3"), (60, strBytes "+"), (Gen.Lex.ttNumber, strBytes "2E10"),
     (51, strBytes ","), (Gen.Lex.ttIdentifier, strBytes "o`k"), (51, strBytes ","), (Gen.Lex.ttIdentifier, strBytes "a"), (57, strBytes "<="), (Gen.Lex.ttNumber, strBytes "1"),
     (51, strBytes ","), (Gen.Lex.ttSingleQuotedString, strBytes "it's\n"), (202, strBytes "from"),
     (Gen.Lex.ttDoubleQuotedString, strBytes "T\"x"), (203, strBytes "where"), (Gen.Lex.ttIdentifier, strBytes "x"),
     (270, strBytes "Group by"), (226, strBytes "group"), (227, strBytes "by"), (Gen.Lex.ttIdentifier, strBytes "x"),
     (115, strBytes "->>"), (Gen.Lex.ttSingleQuotedString, strBytes "k"), (73, strBytes ";")] := by decide +kernel
example : itemsComments sampleItems =
    [(strBytes "/*c*/", true), (strBytes "--z", false), (strBytes "/* not a compound */", true)] := by decide +kernel
/-- the theorem's conclusion on the sample, computed by the model itself -/
example : kv' (tokenize .ascii genLexTables (flat2 sampleItems)) =
    some (sampleItems.map (·.1.key .ascii genLexTables) ++ [(0, [])], itemsComments sampleItems) := by decide +kernel
/-- with the Go classifier (no words): `1<=2,'x'"y"` -/
example : seqOK Driver.goClass genLexTables
    [(.int [49], []), (.op [60, 61], []), (.int [50], []), (.op [44], []), (.str [.ch 120], []), (.qid [.ch 121], [])] = true := by
  decide +kernel
/-- junctions the check refuses, as it must: `a` directly followed by `b` is one word, `-` directly followed by `-` opens a
    comment, `<` directly followed by `=` is another operator, a literal directly followed by a quote is a doubled quote -/
example : seqOK .ascii genLexTables [(.word (strBytes "a"), []), (.word (strBytes "b"), [])] = false := by decide +kernel
example : seqOK .ascii genLexTables [(.op [45], []), (.op [45], [])] = false := by decide +kernel
example : seqOK .ascii genLexTables [(.op [60], []), (.op [61], [])] = false := by decide +kernel
example : seqOK .ascii genLexTables [(.str [.ch 97], []), (.str [.ch 98], [])] = false := by decide +kernel
example : seqOK .ascii genLexTables [(.op [45], [.blanks [32]]), (.op [45], [])] = true := by decide +kernel
/-- `group by` written as two word lexemes is refused (it is one two-word keyword); `1.e5` has no digit after the point -/
example : seqOK .ascii genLexTables [(.word (strBytes "group"), [.blanks [32]]), (.word (strBytes "by"), [])] = false := by decide +kernel
example : seqOK .ascii genLexTables [(.int (strBytes "1"), []), (.word (strBytes "e5"), [])] = false := by decide +kernel

/-! ## non-vacuity: the model on concrete inputs (ASCII classifier) -/

def kv (r : Result) : Option (List (Nat × Bytes)) :=
  match r with
  | .ok toks _ => some (toks.map fun t => (t.ty, t.value))
  | _ => none

/-- `a<=b --c` : maximal munch, comment skipped, one EOF -/
example : kv (tokenize .ascii genLexTables (strBytes "a<=b --c")) =
    some [(Gen.Lex.ttIdentifier, strBytes "a"), (57, strBytes "<="), (Gen.Lex.ttIdentifier, strBytes "b"), (0, [])] := by
  decide +kernel

/-- keyword case and blanks do not matter; the compound keyword is read across a newline -/
example : kv (tokenize .ascii genLexTables (strBytes "group\n  by")) =
    some [(270, strBytes "group by"), (0, [])] := by decide +kernel

/-- a doubled quote is one quote -/
example : kv (tokenize .ascii genLexTables (strBytes "'it''s'")) =
    some [(Gen.Lex.ttSingleQuotedString, strBytes "it's"), (0, [])] := by decide +kernel

/-- known finding, exhibited by the model: `''''` opens a triple-quoted string and is rejected -/
theorem triple_quote_counterexample :
    tokenize .ascii genLexTables (strBytes "''''") = .err ⟨"E1002", .at 0⟩ := by decide +kernel

end GoSQLXModel.Props.C04
