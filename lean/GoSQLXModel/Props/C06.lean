import GoSQLXModel.Proofs.PrintRoundTrip
import GoSQLXModel.Gen.PrintPrec
import GoSQLXModel.Proofs.NameQuote
/-!
# C06 — Serialising a tree and re-parsing gives the same tree; formatting is stable

> For every accepted input and every formatting option set, the SQL text produced from its tree (…) is itself accepted
> and parses to a tree equal to the original up to the letter case of keywords and operator words (…). Formatting
> already formatted output returns it unchanged.

Model: `Model/PrintExpr.lean` — the rules of pkg/sql/ast/sql.go on the expression ladder: `operandSQL` (parenthesise iff
`p < parent || (p = parent && (right || parent = 4))`) as used by `BinaryExpression.SQL` (both operands, the operator's
strength; IS NULL: the left operand; LIKE / ILIKE: the pattern at strength 9), `UnaryExpression.SQL` (NOT),
`BetweenExpression.SQL` (three operands at (4, right)), `InExpression.SQL` (tested expression at (4, right), values bare),
`FunctionCall.SQL` (arguments bare), keywords in the serialiser's fixed spelling — applied by `printG` to the reference
grammar.
* `print_eq_render`: the serialiser writes exactly the reference rendering `render 1` (minimal parentheses) of the
  tree with its keywords in the fixed spelling (`kwNorm`);
* `print_parse`: hence, with `parse_render` (C03), every expression the serialiser writes is read back as that tree,
  which is the original up to the letter case of LIKE / ILIKE (`print_parse_same_tree`) — for every well-formed tree of
  the grammar, whatever the operators, predicates, calls, nesting and associativity;
* `print_stable`: the tree read back is written as the same text (formatting formatted output changes nothing).
Obligation on the regenerated precedence table of the serialiser (`sqlOperatorPrecedence`): every operator spelling has
the strength of its class (`gen_prec_table`), which is what connects spellings to `Op.prec`.

Names: `Model/NameQuote.lean` — `safeIdentifier` (bare when every character is a letter, digit, `_`, `*`, `.`; otherwise
between double quotes, double quotes doubled) on ASCII names, compared with `Identifier.SQL` by the driver op `qname`.
* `quoted_name_is_read_back`: whatever the ASCII name (no line feed), its quoted form is read by the tokenizer model as
  ONE double-quoted token whose value is the name — doubled quotes, blanks, dots, operators, comment openers inside it
  included; `unsafe_name_is_written_so_that_it_reads_back`: so whenever `safeIdentifier` decides to quote, the name survives;
* the recorded finding in the model: a dot inside or a digit first counts as safe and the name is written bare
  (`name_with_dot_is_written_bare`, `name_with_digit_first_is_written_bare`).

**Partial**: CASE, CAST, sub-queries, clauses, statements, the formatting options and the three other serialisers
(Format, formatter, CLI) are decided by the round-trip oracle on generated statements and the corpora.
-/
namespace GoSQLXModel.Props.C06
open GoSQLXModel GoSQLXModel.ExprParse

/-- the serialiser's table gives every operator spelling the strength of its class, and 8 to anything else -/
theorem gen_prec_table :
    (Gen.Print.precTable.all fun e =>
      e.2 == specPrec e.1 || ["LIKE", "ILIKE", "SIMILAR TO", "REGEXP", "RLIKE", "IS NULL", "IS NOT NULL"].contains e.1 && e.2 == 4) = true ∧
    (["OR", "AND", "=", "<>", "!=", "<", ">", "<=", ">=", "||", "+", "-", "*", "/", "%"].all fun op =>
      Gen.Print.precTable.any fun e => e.1 == op && e.2 == specPrec op) = true ∧
    Gen.Print.precDefault = 8 := by decide +kernel

/-- **C06 (expression core)**: written, then read: the same tree -/
theorem written_expression_reads_back (g : G) (hw : g.WF = true) (X : List PTok) (hp : PrimStop X) (hn : N1 X)
    (hd : need 1 g + 1 ≤ maxDepth) :
    (∃ f0, ∀ f, f0 ≤ f → pExpr f 0 (printG g ++ X) = .ok (kwNorm g).toEx X) ∧ (kwNorm g).toEx.norm = g.toEx.norm :=
  ⟨print_parse g hw X hp hn hd, print_parse_same_tree g⟩

/-- formatting what was formatted changes nothing: the tree read back is written as the same text -/
theorem second_writing_is_the_first (g : G) : printG (kwNorm g) = printG g := print_stable g

/-- the serialiser's text is the minimally parenthesised rendering -/
theorem serialiser_writes_reference_rendering (g : G) : printG g = render 1 (kwNorm g) := print_eq_render g

/-- a quoted name is read back as one token holding the name, for every ASCII name without a line feed -/
theorem quoted_name_is_read_back (cls : CharClass) (tb : Lex.Tables) (inp s R : Lex.Bytes)
    (h34 : Lex.isIdentStart cls 34 = false) (hs : s.all Lex.nameByte = true) (hR : Lex.followQuote 34 R = true) :
    Lex.nextToken cls tb inp (Lex.quoteName s ++ R) = .ok ({ ty := tb.ttDouble, value := s, quote := 34 }, R) :=
  Lex.quoted_name_reads_back cls tb inp s R h34 hs hR

/-- whenever the serialiser's rule quotes a name, what it writes is read back as that name -/
theorem unsafe_name_is_written_so_that_it_reads_back (cls : CharClass) (tb : Lex.Tables) (inp s R : Lex.Bytes)
    (h34 : Lex.isIdentStart cls 34 = false) (hs : s.all Lex.nameByte = true) (hR : Lex.followQuote 34 R = true)
    (hne : s.isEmpty = false) (hunsafe : s.all Lex.safeByte = false) :
    Lex.nextToken cls tb inp (Lex.safeIdentifier s ++ R) = .ok ({ ty := tb.ttDouble, value := s, quote := 34 }, R) :=
  Lex.safeIdentifier_quoted_reads_back cls tb inp s R h34 hs hR hne hunsafe

/-- the recorded finding (`name-written-bare:…:dot`, `…:digit-first`), in the model -/
theorem name_with_dot_is_written_bare : Lex.safeIdentifier [97, 46, 98] = [97, 46, 98] := by decide
theorem name_with_digit_first_is_written_bare : Lex.safeIdentifier [49, 115, 116] = [49, 115, 116] := by decide

/-- non-vacuity: `first name` (102 105 114 115 116 32 110 97 109 101) and `x"y` meet the hypotheses and are quoted -/
example : (([102, 105, 114, 115, 116, 32, 110, 97, 109, 101] : Lex.Bytes).all Lex.nameByte = true ∧
    ([102, 105, 114, 115, 116, 32, 110, 97, 109, 101] : Lex.Bytes).all Lex.safeByte = false) ∧
    Lex.safeIdentifier [120, 34, 121] = [34, 120, 34, 34, 121, 34] := by decide

/-! non-vacuity: `a - (b - c)` keeps its parentheses, `(a - b) - c` and `(a * b) + c` lose theirs, `NOT (a AND b)` keeps them -/
def ia : G := .atom (.ident "a")
def ib : G := .atom (.ident "b")
def ic : G := .atom (.ident "c")
def t (k : TK) (s : String) : PTok := ⟨k, s⟩

example : printG (.bin .minus "-" ia (.bin .minus "-" ib ic)) =
    [t .ident "a", t .minus "-", lp, t .ident "b", t .minus "-", t .ident "c", rp] := by decide +kernel
example : printG (.bin .minus "-" (.bin .minus "-" ia ib) ic) =
    [t .ident "a", t .minus "-", t .ident "b", t .minus "-", t .ident "c"] := by decide +kernel
example : printG (.not "NOT" (.bin .and "AND" ia ib)) =
    [t .not "NOT", lp, t .ident "a", t .and "AND", t .ident "b", rp] := by decide +kernel
example : printG (.bin .cmp "=" (.bin .cmp "<" ia ib) ic) =
    [lp, t .ident "a", t .cmp "<", t .ident "b", rp, t .cmp "=", t .ident "c"] := by decide +kernel

/-- `a NOT BETWEEN (b = c) AND b + c`, `NOT (a IS NULL)` vs `(NOT a) IS NULL`, `a LIKE (b || c)` -/
example : printG (.between (some "not") "between" "and" ia (.bin .cmp "=" ib ic) (.bin .plus "+" ib ic)) =
    [t .ident "a", t .not "NOT", t .between "BETWEEN", lp, t .ident "b", t .cmp "=", t .ident "c", rp, t .and "AND",
     t .ident "b", t .plus "+", t .ident "c"] := by decide +kernel
example : printG (.isnull "is" none "null" (.not "NOT" ia)) =
    [lp, t .not "NOT", t .ident "a", rp, t .is "IS", t .null "NULL"] := by decide +kernel
example : printG (.not "NOT" (.isnull "is" none "null" ia)) =
    [t .not "NOT", t .ident "a", t .is "IS", t .null "NULL"] := by decide +kernel
example : printG (.like none (t .like "like") ia (.bin .cat "||" ib ic)) =
    [t .ident "a", t .like "like", lp, t .ident "b", t .cat "||", t .ident "c", rp] := by decide +kernel

end GoSQLXModel.Props.C06
