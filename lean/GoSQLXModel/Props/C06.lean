import GoSQLXModel.Proofs.PrintRoundTrip
import GoSQLXModel.Gen.PrintPrec
/-!
# C06 — Serialising a tree and re-parsing gives the same tree; formatting is stable

> For every accepted input and every formatting option set, the SQL text produced from its tree (…) is itself accepted
> and parses to a tree equal to the original up to the letter case of keywords and operator words (…). Formatting
> already formatted output returns it unchanged.

Model: `Model/PrintExpr.lean` — `operandSQL`'s rule (parenthesise iff `p < parent || (p = parent && (right || parent = 4))`)
applied by `printG` to the model grammar of the expression ladder.
* `print_eq_render`: the serialiser writes exactly the reference rendering `render 1` (minimal parentheses);
* `print_parse`: hence, with `parse_render` (C03), every expression the serialiser writes is read back as the same tree,
  for every tree of the ladder — whatever the operators, nesting and associativity;
* stability: the written text depends on the tree only (`printG` is a function of the tree), so writing the re-parsed
  tree gives the same text (`print_parse` + congruence).
Obligation on the regenerated precedence table of the serialiser (`sqlOperatorPrecedence`): every operator spelling has
the strength of its class (`gen_prec_table`), which is what connects spellings to `Op.prec`.

**Partial**: only the operator ladder is modelled. Predicates (BETWEEN/IN/LIKE/IS NULL), function calls, CASE, clauses,
statements, the formatting options and the three other serialisers (Format, formatter, CLI) are decided by the
round-trip oracle on generated statements and the corpora.
-/
namespace GoSQLXModel.Props.C06
open GoSQLXModel GoSQLXModel.ExprParse

/-- the serialiser's table gives every operator spelling the strength of its class, and 8 to anything else -/
theorem gen_prec_table :
    (Gen.Print.precTable.all fun e =>
      e.2 == specPrec e.1 || ["LIKE", "ILIKE", "SIMILAR TO", "REGEXP", "RLIKE", "IS NULL", "IS NOT NULL"].contains e.1 && e.2 == 4) = true ∧
    (["OR", "AND", "=", "<>", "!=", "<", ">", "<=", ">=", "||", "+", "-", "*", "/", "%"].all fun op =>
      Gen.Print.precTable.any fun e => e.1 == op && e.2 == specPrec op) = true ∧
    Gen.Print.precDefault = 8 := by decide +kernel

/-- **C06 (expression core)**: written, then read: the same tree -/
theorem written_expression_reads_back (g : G) (X : List PTok) (hp : PrimStop X) (hn : N1 X) (hd : need 1 g + 1 ≤ maxDepth) :
    ∃ f0, ∀ f, f0 ≤ f → pExpr f 0 (printG g ++ X) = .ok g.toEx X :=
  print_parse g X hp hn hd

/-- the serialiser's text is the minimally parenthesised rendering -/
theorem serialiser_writes_reference_rendering (g : G) : printG g = render 1 g := print_eq_render g

/-! non-vacuity: `a - (b - c)` keeps its parentheses, `(a - b) - c` and `(a * b) + c` lose theirs, `NOT (a AND b)` keeps them -/
def ia : G := .atom (.ident "a")
def ib : G := .atom (.ident "b")
def ic : G := .atom (.ident "c")
def t (k : TK) (s : String) : PTok := ⟨k, s⟩

example : printG (.bin .minus "-" ia (.bin .minus "-" ib ic)) =
    [t .ident "a", t .minus "-", lp, t .ident "b", t .minus "-", t .ident "c", rp] := by decide +kernel
example : printG (.bin .minus "-" (.bin .minus "-" ia ib) ic) =
    [t .ident "a", t .minus "-", t .ident "b", t .minus "-", t .ident "c"] := by decide +kernel
example : printG (.not "NOT" (.bin .and "AND" ia ib)) =
    [t .not "NOT", lp, t .ident "a", t .and "AND", t .ident "b", rp] := by decide +kernel
example : printG (.bin .cmp "=" (.bin .cmp "<" ia ib) ic) =
    [lp, t .ident "a", t .cmp "<", t .ident "b", rp, t .cmp "=", t .ident "c"] := by decide +kernel

end GoSQLXModel.Props.C06
