import GoSQLXModel.Model.Pool
import GoSQLXModel.Proofs.PoolType
import GoSQLXModel.Gen.AstTables
import GoSQLXModel.Gen.Structure
/-!
# C09 — Returned values belong to the caller; pooled nodes come back clean

> Every node or container obtained from the node pools is indistinguishable from a freshly
> constructed one, whatever was released into the pools before.

Quantifier: every pooled type × every field of that type populated with arbitrary non-zero
content before release; all histories of put/get.

* `Pool.clean_invariant` (Model/Pool.lean) is the generic theorem: for every table in which each
  pool-return site clears every field of its element type, every history of put/get over
  arbitrary dirty nodes hands out only clean nodes.
* `gen_pool_ok` re-checks, on the table extracted from today's pool.go, that no
  (site, field) is left uncleared.  It is a kernel computation over the regenerated table.
* `pooled_nodes_clean` instantiates the generic theorem at the extracted table.
* `pooled_nodes_typed`, `pool_entry_handed_out_once`, `pool_growth` (Proofs/PoolType.lean) — over every history the
  nodes handed out are one per `get`, each of the type asked for (with `gen_pool_put_matches_get`: no type confusion
  on reuse); taking an entry removes exactly that entry, so no entry reaches two callers; the pool grows by at most
  one entry per release.
-/
namespace GoSQLXModel.Props.C09
open GoSQLXModel GoSQLXModel.Pool

/-- table obligation: the offender list computed from the extracted schema and pool sites is empty -/
theorem gen_pool_ok : poolOffenders Gen.astSchema Gen.poolSites = [] := by decide +kernel

/-- a node returned to a pool goes to the pool its `Get` function draws that type from (no type confusion on reuse) -/
theorem gen_pool_put_matches_get :
    (Gen.Structure.poolPuts.all fun e => e.2.2.2 == "" || e.2.2.1 == e.2.2.2) = true ∧ Gen.Structure.poolPuts.length ≥ 30 := by
  decide +kernel

theorem gen_covers : Covers Gen.astSchema Gen.poolSites := poolOffenders_nil gen_pool_ok

/-- **C09 (cleanliness clause)** for the code as extracted today -/
theorem pooled_nodes_clean (ops : List Op) (st : State) (hi : Inv st)
    (hw : ∀ site n, Op.put site n ∈ ops → WellTyped Gen.astSchema n) :
    ∀ n ∈ (run Gen.astSchema Gen.poolSites st ops).2, n.Clean :=
  (clean_invariant gen_covers ops st hi hw).2

/-- over every history, from every pool content: one node per `get`, of the type asked for -/
theorem pooled_nodes_typed (ops : List Op) (st : State) :
    (run Gen.astSchema Gen.poolSites st ops).2.map (·.ty) = askedTypes ops := run_types _ _ ops st

/-- a taken entry leaves the pool: what remains, with it, is a rearrangement of what was there -/
theorem pool_entry_handed_out_once {ty : String} {st rest : State} {n : PNode} (h : takeTy ty st = some (n, rest)) :
    n.ty = ty ∧ (n :: rest).Perm st := ⟨takeTy_ty h, takeTy_perm h⟩

theorem pool_growth (ops : List Op) (st : State) :
    (run Gen.astSchema Gen.poolSites st ops).1.length ≤ st.length + puts ops := run_length_le _ _ ops st

/-- non-vacuity: a fully dirty SelectStatement released through PutSelectStatement and taken again is clean,
    and the table really contains that site -/
example : (Gen.poolSites.find? (fun e => e.1 == "PutSelectStatement")).isSome = true := by decide +kernel

def dirtySelect : PNode :=
  { ty := "SelectStatement", fields := (Schema.fieldNames Gen.astSchema "SelectStatement").map fun f => (f, true) }

example : (run Gen.astSchema Gen.poolSites [] [.put "PutSelectStatement" dirtySelect, .get "SelectStatement"]).2
    = [fresh Gen.astSchema "SelectStatement"] := by decide +kernel

/-- a table that forgets one field is rejected by the check, with the field as the offender
    (sensitivity of the obligation) -/
example : poolOffenders [("T", true, [("A", "string", "other", false), ("B", "Expression", "iface", false)])]
    [("PutT", "T", ["A"])] = [("PutT", "B")] := by decide

end GoSQLXModel.Props.C09
