import GoSQLXModel.Model.Segments
import GoSQLXModel.Proofs.RecoveryPositions
import GoSQLXModel.Gen.Structure
/-!
# C12 — Recovery parsing terminates, agrees with strict parsing, loses no good statement

> Recovery-mode parsing terminates on every input and … reports at least one error exactly when strict
> parsing of the same input fails.  For input made of semicolon-separated statements, it returns precisely
> the trees strict parsing gives for the well-formed ones, in order, and one error per malformed one, each
> error naming a token inside its own statement.

All three clauses are theorems about the recovery loop over an arbitrary statement oracle satisfying the
frame assumptions (`fa2`: never moves backwards, `fa3`: success consumes); the assumptions and the
segment hypotheses are decidable and are checked on every generated case against the real
parseStatement (hook `VerifStmtAt`).
`reported_positions_are_tokens_in_order` (Proofs/RecoveryPositions.lean) holds without the segment hypotheses, for
every input and fuel: returned statements and reported errors are strictly increasing positions of real tokens, and
no position is both a statement and an error (nothing is reported twice, nothing points past the input).
-/
namespace GoSQLXModel.Props.C12
open GoSQLXModel GoSQLXModel.Loops

/-- Obligation on the regenerated facts of `isStatementStartingKeyword` (pkg/sql/parser/recovery.go): the test is a
    switch on the current token's *type* over exactly these seventeen keyword types and reads, calls and looks up
    nothing else — so a string literal, a quoted name or an identifier is never a synchronisation point, whatever it
    spells. This is the `start` predicate the recovery model is instantiated with; the harness quantifies its scripts
    with the same set, decided from token types alone, and compares the two on every token. -/
theorem gen_start_keyword_by_type :
    Gen.Structure.recoveryStartTypes = ["Alter", "Begin", "Commit", "Create", "Delete", "Drop", "Grant", "Insert", "Merge",
      "Refresh", "Revoke", "Rollback", "Select", "Set", "Truncate", "Update", "With"] ∧
    Gen.Structure.recoveryStartOther = [] := by decide +kernel

theorem recovery_terminates (I : Input) (hF : Frame I) : ∃ r, recLoop I (I.n + 2) 0 [] [] = some r :=
  recover_terminates I hF [] []

theorem strict_terminates (I : Input) (hF : Frame I) (strict : Bool) : ∃ r, parseLoop I strict (I.n + 2) 0 [] = some r :=
  parseLoop_total I hF strict _ _ _ (by omega) (by omega)

theorem recovery_iff_ok (I : Input) (f : Nat) (l : List Nat) (h : parseLoop I false f 0 [] = some (.ok l)) :
    recLoop I f 0 [] [] = some (l, []) := recovery_no_error_of_parse_ok I f l h

theorem recovery_iff_err (I : Input) (f c p : Nat) (h : parseLoop I false f 0 [] = some (.err c p))
    (hm : more I p = true) (f' : Nat) (r) (hr : recLoop I f' 0 [] [] = some r) : r.2 ≠ [] :=
  recovery_error_of_parse_err I f c p h hm f' r hr

theorem reported_positions_are_tokens_in_order (I : Input) (hF : Frame I) (f : Nat) (r : List Nat × List Nat)
    (h : recLoop I f 0 [] [] = some r) :
    r.1.Pairwise (· < ·) ∧ r.2.Pairwise (· < ·) ∧ (∀ x ∈ r.1, x < I.n) ∧ (∀ x ∈ r.2, x < I.n) ∧ ∀ x ∈ r.1, x ∉ r.2 :=
  recovery_positions I hF f r h

/-- **C12.segments** -/
theorem segments (I : Input) (segs : List Seg) (hc : Chain I 0 segs) :
    recLoop I (I.n + 2) 0 [] [] =
      some ((segs.filter (·.good)).map (·.start), (segs.filter (fun s => !s.good)).map (·.start)) := by
  have := recovery_segments I segs 0 (I.n + 2) [] [] hc (by omega) (by omega)
  simpa using this

/-- non-vacuity: three segments good ; bad ; good -/
def demo : Input :=
  { kind := fun i => if i = 2 ∨ i = 5 ∨ i = 8 then .semi else if i ≥ 9 then .eof else if i = 0 ∨ i = 3 ∨ i = 6 then .start else .other,
    n := 10,
    stmt := fun p => if p = 3 then { ok := false, stop := 4, code := 2002 } else { ok := true, stop := p + 2, code := 0 } }

example : Chain demo 0 [⟨0, 2, true⟩, ⟨3, 5, false⟩, ⟨6, 8, true⟩] := by
  refine ⟨rfl, ?_, rfl, ?_, rfl, ?_, by show more demo 9 = false; decide⟩
  · refine ⟨by decide, by decide, by decide, ⟨by decide, by decide⟩, ?_, by decide⟩
    intro j h1 h2; have : j = 1 := by simp at h1 h2; omega
    subst this; decide
  · refine ⟨by decide, by decide, by decide, ⟨by decide, by decide⟩, ?_, by decide⟩
    intro j h1 h2; have : j = 4 := by simp at h1 h2; omega
    subst this; decide
  · refine ⟨by decide, by decide, by decide, ⟨by decide, by decide⟩, ?_, by decide⟩
    intro j h1 h2; have : j = 7 := by simp at h1 h2; omega
    subst this; decide

example : recLoop demo 12 0 [] [] = some ([0, 6], [3]) := by decide

/-- what the segment hypothesis excludes, exhibited: a failing statement that swallows its own semicolon
    takes the next (good) statement with it (the `INTERVAL n ;` shape) -/
def swallow : Input :=
  { kind := fun i => if i = 2 ∨ i = 5 then .semi else if i ≥ 6 then .eof else if i = 0 ∨ i = 3 then .start else .other,
    n := 7,
    stmt := fun p => if p = 0 then { ok := false, stop := 3, code := 2002 } else { ok := true, stop := p + 2, code := 0 } }

theorem swallowed_semicolon_counterexample : recLoop swallow 9 0 [] [] = some ([3], [0]) ∧
    parseLoop swallow false 9 3 [] = some (.ok [3]) := by decide

/-- known finding `recovery-partial-statement`: a malformed segment whose prefix is a complete statement
    (parseStatement succeeds and stops *inside* the segment, e.g. `DELETE FROM t WHERE (a) (b) ;`) is
    neither good nor bad in the sense of `SegOK`; recovery then returns a tree for the prefix in addition
    to the error for the rest -/
def partialPrefix : Input :=
  { kind := fun i => if i = 4 ∨ i = 7 then .semi else if i ≥ 8 then .eof else if i = 0 ∨ i = 5 then .start else .other,
    n := 9,
    stmt := fun p => if p = 0 then { ok := true, stop := 2, code := 0 }
                     else if p = 2 then { ok := false, stop := 2, code := 2002 }
                     else { ok := true, stop := p + 2, code := 0 } }

theorem partial_prefix_counterexample : recLoop partialPrefix 11 0 [] [] = some ([0, 5], [2]) := by decide

end GoSQLXModel.Props.C12
