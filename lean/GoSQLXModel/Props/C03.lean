import GoSQLXModel.Model.ExprGen
import GoSQLXModel.Proofs.ExprMono
import GoSQLXModel.Proofs.ExprRoundTrip
/-!
# C03 — The parsed tree is the tree the SQL grammar prescribes

> (…) operators bind by standard precedence and associate to the left, parentheses override, and every clause,
> modifier, alias, name and literal written in the text appears in the tree with its written value while nothing
> unwritten appears. A statement of that surface is never rejected.

Model: `Model/ExprParse.lean`, the expression ladder of expressions.go (OR, AND, NOT, comparisons, IS [NOT] NULL,
[NOT] BETWEEN, [NOT] LIKE / ILIKE / REGEXP / RLIKE, [NOT] IN (list), `||`, `+ −`, `* / %`, identifiers, plain function
calls, literals, parentheses), with the depth counter, the literal-based tests of the real code and its error
re-wrapping; token classes by the names of `models.TokenType` constants whose numbers are regenerated; `unsupported`
(never a guess) on every token that would take the real parser into a production the model does not cover.
Reference grammar and rendering: `Model/ExprGrammar.lean`.

* `parse_render` (Proofs/ExprRoundTrip.lean): for every well-formed model expression `g` (`G.WF`: what real token
  streams satisfy — an operator or keyword token is not spelled ILIKE / REGEXP / RLIKE, the keyword after a predicate's
  NOT is spelled as the look-ahead expects, a function is not named MATCH), `pExpr (render 1 g ++ X) = ok g X` for
  every continuation `X` that starts no operator, given room under the depth limit — precedence, left
  associativity, parentheses overriding, predicates and their operand levels, argument lists, spelling of every
  operator and atom preserved, nothing added, never rejected.
* Tie: correspondence (driver op `expr`) of the model with `parseExpression` (hook `VerifExprAt`) on rendered model
  expressions, corrupted token lists and deep nests around the limit; and the oracle of the property itself: the real
  tree of every generated statement (queries with joins, sub-queries, CTEs, set operations, grouping, ordering, limits;
  INSERT / UPDATE / DELETE with RETURNING) compared field by field with the generator's model tree.

**Partial**: CASE, CAST, sub-queries (EXISTS, IN (SELECT …), scalar), qualified names, `::` / JSON operators, window
and aggregate modifiers of calls, and the statement level are not in the Lean model; for them the decision is the
oracle alone.
-/
namespace GoSQLXModel.Props.C03
open GoSQLXModel GoSQLXModel.ExprParse

/-- constants that share a number (aliases) fall in the same token class -/
theorem gen_alias_classes_agree :
    (Gen.Lex.tokenTypes.all fun a => Gen.Lex.tokenTypes.all fun b => a.2 != b.2 || classOfName a.1 == classOfName b.1) = true := by
  decide +kernel

/-- the operator and atom token types the model distinguishes exist in today's table -/
theorem gen_classes_present :
    (["TokenTypeOr", "TokenTypeAnd", "TokenTypeNot", "TokenTypeEq", "TokenTypeNeq", "TokenTypeLt", "TokenTypeGt", "TokenTypeLtEq",
      "TokenTypeGtEq", "TokenTypeStringConcat", "TokenTypePlus", "TokenTypeMinus", "TokenTypeAsterisk", "TokenTypeMul", "TokenTypeDiv",
      "TokenTypeMod", "TokenTypeLParen", "TokenTypeRParen", "TokenTypeIdentifier", "TokenTypeNumber", "TokenTypeSingleQuotedString",
      "TokenTypeTrue", "TokenTypeFalse", "TokenTypeNull", "TokenTypeEOF", "TokenTypeComma", "TokenTypeDoubleColon",
      "TokenTypeIs", "TokenTypeBetween", "TokenTypeLike", "TokenTypeILike", "TokenTypeIn"].all
        fun n => Gen.Lex.tokenTypes.any (·.1 == n)) = true := by decide +kernel

/-- **C03 (expression ladder)** -/
theorem expression_round_trip (g : G) (hw : g.WF = true) (X : List PTok) (hp : PrimStop X) (hn : N1 X)
    (hd : need 1 g + 1 ≤ maxDepth) :
    ∃ f0, ∀ f, f0 ≤ f → pExpr f 0 (render 1 g ++ X) = .ok g.toEx X :=
  parse_render g hw X hp hn hd

/-! non-vacuity and the textbook cases, evaluated on the model -/
def a : G := .atom (.ident "a")
def b : G := .atom (.ident "b")
def c : G := .atom (.ident "c")
def eof : PTok := ⟨.stop, ""⟩
def tk (k : TK) (s : String) : PTok := ⟨k, s⟩

/-- the hypotheses of the theorem are satisfiable: an end marker is a continuation that starts no operator -/
theorem eof_stops : PrimStop [eof] ∧ N1 [eof] := by
  have h : ∀ k : TK, k ≠ .stop → HeadNot [eof] k := fun k hk => headNot_cons (by simpa [eof] using fun e => hk e.symm)
  have hp : HeadPlain [eof] := headPlain_cons (by decide +kernel)
  exact ⟨⟨h _ (by decide), h _ (by decide), h _ (by decide)⟩,
    ⟨⟨⟨⟨⟨⟨h _ (by decide), h _ (by decide), h _ (by decide)⟩, h _ (by decide), h _ (by decide)⟩, h _ (by decide)⟩,
      ⟨h _ (by decide), h _ (by decide), h _ (by decide), h _ (by decide), h _ (by decide), h _ (by decide), h _ (by decide),
        h _ (by decide), hp⟩⟩, h _ (by decide)⟩, h _ (by decide)⟩⟩
/-- **C03 (expression ladder), without fuel**: the model parser as a function of the tokens alone (`parseExprAt`:
    the fuel that always suffices; any larger fuel gives the same answer, `pExpr_stable`) reads every rendering back as
    its tree -/
theorem expression_round_trip_fuel_free (g : G) (hw : g.WF = true) (X : List PTok) (hp : PrimStop X) (hn : N1 X)
    (hd : need 1 g + 1 ≤ maxDepth) : parseExprAt 0 (render 1 g ++ X) = .ok g.toEx X := by
  obtain ⟨f0, h⟩ := expression_round_trip g hw X hp hn hd
  have := h (max f0 (10 * (render 1 g ++ X).length + 8)) (Nat.le_max_left _ _)
  rw [pExpr_stable 0 _ _ (Nat.le_max_right _ _)] at this
  exact this

/-- **C03 (no ambiguity)**: the text determines the tree — two well-formed model trees whose renderings coincide denote
    the same expression tree (the parser is a function of the tokens and reads each rendering back as its tree) -/
theorem text_determines_tree (g1 g2 : G) (w1 : g1.WF = true) (w2 : g2.WF = true)
    (d1 : need 1 g1 + 1 ≤ maxDepth) (d2 : need 1 g2 + 1 ≤ maxDepth) (h : render 1 g1 = render 1 g2) : g1.toEx = g2.toEx := by
  obtain ⟨f1, h1⟩ := expression_round_trip g1 w1 [eof] eof_stops.1 eof_stops.2 d1
  obtain ⟨f2, h2⟩ := expression_round_trip g2 w2 [eof] eof_stops.1 eof_stops.2 d2
  have a := h1 (max f1 f2) (Nat.le_max_left _ _)
  have b := h2 (max f1 f2) (Nat.le_max_right _ _)
  rw [h, b] at a
  injection a with e _
  exact e.symm

example : (G.between (some "NOT") "between" "AND" a b (.bin .plus "+" b c)).WF = true := by decide +kernel

/-- `a OR b AND c` is `a OR (b AND c)` -/
example : (pExpr 40 0 [tk .ident "a", tk .or "OR", tk .ident "b", tk .and "AND", tk .ident "c", eof]).canon =
    "OK (id(a) OR (id(b) AND id(c))) 1" := by decide +kernel
/-- `a - b - c` is `(a - b) - c` -/
example : (pExpr 40 0 [tk .ident "a", tk .minus "-", tk .ident "b", tk .minus "-", tk .ident "c", eof]).canon =
    "OK ((id(a) - id(b)) - id(c)) 1" := by decide +kernel
/-- parentheses override: `(a OR b) AND c` -/
example : render 1 (.bin .and "AND" (.bin .or "OR" a b) c) =
    [lp, tk .ident "a", tk .or "OR", tk .ident "b", rp, tk .and "AND", tk .ident "c"] := by decide +kernel
example : (pExpr 40 0 (render 1 (.bin .and "AND" (.bin .or "OR" a b) c) ++ [eof])).canon =
    "OK ((id(a) OR id(b)) AND id(c)) 1" := by decide +kernel
/-- `NOT a = b` negates the comparison -/
example : (pExpr 40 0 [tk .not "NOT", tk .ident "a", tk .cmp "=", tk .ident "b", eof]).canon =
    "OK not((id(a) = id(b))) 1" := by decide +kernel
/-- `a BETWEEN b AND c AND a`: the first AND belongs to BETWEEN -/
example : (pExpr 60 0 [tk .ident "a", tk .between "BETWEEN", tk .ident "b", tk .and "AND", tk .ident "c", tk .and "AND",
    tk .ident "a", eof]).canon = "OK (between(id(a),id(b),id(c)) AND id(a)) 1" := by decide +kernel
/-- `a NOT IN (b, c)` and `f(a, b) IS NOT NULL` -/
example : (pExpr 60 0 [tk .ident "a", tk .not "NOT", tk .in_ "IN", lp, tk .ident "b", comma, tk .ident "c", rp, eof]).canon =
    "OK !in(id(a),id(b),id(c)) 1" := by decide +kernel
example : (pExpr 60 0 [tk .ident "f", lp, tk .ident "a", comma, tk .ident "b", rp, tk .is "IS", tk .not "NOT", tk .null "NULL",
    eof]).canon = "OK !isnull(fn f(id(a),id(b))) 1" := by decide +kernel
/-- a quoted identifier spelled ilike after an operand is taken for the operator, as the real parser does (by literal) -/
example : (pExpr 60 0 [tk .ident "a", tk .ident "ilike", tk .str "x", eof]).canon = "OK ilike(id(a),str(x)) 1" := by decide +kernel
/-- what the model does not cover is `unsupported`, not guessed -/
example : (pExpr 40 0 [tk .ident "a", tk .cont "::", tk .ident "int", eof]).canon = "UNSUPPORTED" := by decide +kernel

end GoSQLXModel.Props.C03
