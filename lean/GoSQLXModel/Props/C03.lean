import GoSQLXModel.Model.ExprGen
import GoSQLXModel.Proofs.ExprRoundTrip
/-!
# C03 — The parsed tree is the tree the SQL grammar prescribes

> (…) operators bind by standard precedence and associate to the left, parentheses override, and every clause,
> modifier, alias, name and literal written in the text appears in the tree with its written value while nothing
> unwritten appears. A statement of that surface is never rejected.

Model: `Model/ExprParse.lean`, the expression ladder of expressions.go for its core sub-language (OR, AND, NOT,
comparisons, `||`, `+ −`, `* / %`, identifiers, literals, parentheses), with the depth counter; token classes by the
names of `models.TokenType` constants whose numbers are regenerated; `unsupported` (never a guess) on every token that
would take the real parser into a production the model does not cover.

* `parse_render` (Proofs/ExprRoundTrip.lean): for every model expression `g`, `pExpr (render 1 g ++ X) = ok g X` for
  every continuation `X` that starts no operator, given room under the depth limit — precedence, left
  associativity, parentheses overriding, spelling of every operator and atom preserved, nothing added, never rejected.
* Tie: correspondence (driver op `expr`) of the model with `parseExpression` (hook `VerifExprAt`) on rendered model
  expressions, corrupted token lists and deep nests around the limit; and the oracle of the property itself: the real
  tree of every generated statement (queries with joins, sub-queries, CTEs, set operations, grouping, ordering, limits;
  INSERT / UPDATE / DELETE with RETURNING) compared field by field with the generator's model tree.

**Partial**: predicates beyond comparison (BETWEEN, IN, LIKE, IS NULL), function calls, CASE, CAST, sub-queries and
the statement level are not in the Lean model; for them the decision is the oracle alone.
-/
namespace GoSQLXModel.Props.C03
open GoSQLXModel GoSQLXModel.ExprParse

/-- constants that share a number (aliases) fall in the same token class -/
theorem gen_alias_classes_agree :
    (Gen.Lex.tokenTypes.all fun a => Gen.Lex.tokenTypes.all fun b => a.2 != b.2 || classOfName a.1 == classOfName b.1) = true := by
  decide +kernel

/-- the operator and atom token types the model distinguishes exist in today's table -/
theorem gen_classes_present :
    (["TokenTypeOr", "TokenTypeAnd", "TokenTypeNot", "TokenTypeEq", "TokenTypeNeq", "TokenTypeLt", "TokenTypeGt", "TokenTypeLtEq",
      "TokenTypeGtEq", "TokenTypeStringConcat", "TokenTypePlus", "TokenTypeMinus", "TokenTypeAsterisk", "TokenTypeMul", "TokenTypeDiv",
      "TokenTypeMod", "TokenTypeLParen", "TokenTypeRParen", "TokenTypeIdentifier", "TokenTypeNumber", "TokenTypeSingleQuotedString",
      "TokenTypeTrue", "TokenTypeFalse", "TokenTypeNull", "TokenTypeEOF", "TokenTypeComma", "TokenTypeDoubleColon"].all
        fun n => Gen.Lex.tokenTypes.any (·.1 == n)) = true := by decide +kernel

/-- **C03 (expression ladder)** -/
theorem expression_round_trip (g : G) (X : List PTok) (hp : PrimStop X) (hn : N1 X) (hd : need 1 g + 1 ≤ maxDepth) :
    ∃ f0, ∀ f, f0 ≤ f → pExpr f 0 (render 1 g ++ X) = .ok g.toEx X :=
  parse_render g X hp hn hd

/-! non-vacuity and the textbook cases, evaluated on the model -/
def a : G := .atom (.ident "a")
def b : G := .atom (.ident "b")
def c : G := .atom (.ident "c")
def eof : PTok := ⟨.stop, ""⟩
def tk (k : TK) (s : String) : PTok := ⟨k, s⟩

/-- `a OR b AND c` is `a OR (b AND c)` -/
example : pExpr 40 0 [tk .ident "a", tk .or "OR", tk .ident "b", tk .and "AND", tk .ident "c", eof] =
    .ok (.bin "OR" (.ident "a") (.bin "AND" (.ident "b") (.ident "c"))) [eof] := by decide +kernel
/-- `a - b - c` is `(a - b) - c` -/
example : pExpr 40 0 [tk .ident "a", tk .minus "-", tk .ident "b", tk .minus "-", tk .ident "c", eof] =
    .ok (.bin "-" (.bin "-" (.ident "a") (.ident "b")) (.ident "c")) [eof] := by decide +kernel
/-- parentheses override: `(a OR b) AND c` -/
example : render 1 (.bin .and "AND" (.bin .or "OR" a b) c) =
    [lp, tk .ident "a", tk .or "OR", tk .ident "b", rp, tk .and "AND", tk .ident "c"] := by decide +kernel
example : pExpr 40 0 (render 1 (.bin .and "AND" (.bin .or "OR" a b) c) ++ [eof]) =
    .ok (G.toEx (.bin .and "AND" (.bin .or "OR" a b) c)) [eof] := by decide +kernel
/-- `NOT a = b` negates the comparison -/
example : pExpr 40 0 [tk .not "NOT", tk .ident "a", tk .cmp "=", tk .ident "b", eof] =
    .ok (.not (.bin "=" (.ident "a") (.ident "b"))) [eof] := by decide +kernel
/-- what the model does not cover is `unsupported`, not guessed -/
example : pExpr 40 0 [tk .ident "a", tk .other "BETWEEN", tk .num "1", tk .and "AND", tk .num "2", eof] = .unsupported := by
  decide +kernel

end GoSQLXModel.Props.C03
