import GoSQLXModel.Model.Loops
import GoSQLXModel.Model.Batch
import GoSQLXModel.Proofs.BatchSpec
/-!
# C07 — All parsing and validation entry points agree

> … the convenience parse call, its byte, context, timeout and batch variants, the low-level pipeline
> with and without position tracking, the validators and recovery-mode parsing all accept it or all
> reject it; those that return a tree return equal trees and those that fail report the same error
> code.  A batch call over a list returns exactly what the individual calls return and fails at the
> first failing index.

The three copies of the statement loop and the recovery loop are modelled over an *arbitrary* statement
oracle (every token list, every behaviour of parseStatement that never moves backwards):
* `parse_eq_withPositions`, `parseContext_never_eq_parse` — the copies compute the same result, in strict
  and non-strict mode (the strict-mode drift of ParseContext was repaired; the model now has the checks in
  all copies and the correspondence run compares the real entry points in strict mode too);
* `recovery_no_error_of_parse_ok`, `recovery_error_of_parse_err` — recovery reports no error exactly when
  strict parsing succeeds (inputs whose failure lies inside the token stream);
* `Batch.batch_ok_iff`, `Batch.batch_err_first` — batch = map with first-failure; `batch_is_spec`,
  `batch_fails_iff_first_failure`, `batch_all_ok`, `batch_of_concatenation` (Proofs/BatchSpec.lean) — the loop with
  running index and accumulator equals the written-down specification, fails *exactly* when some call fails (at the
  first such index, with that call's error), and splits over concatenated lists.
The wrappers (Validate → Parse, ParseBytes → Parse, ParseWithTimeout → ParseWithContext, gosqlx.* → parser.*)
delegate; that they add only `%w` layers is C13's `gen_gosqlx_wraps`, and their agreement on real inputs
is decided by the differential run over all pairs of entry points.
-/
namespace GoSQLXModel.Props.C07
open GoSQLXModel GoSQLXModel.Loops

theorem parse_eq_withPositions (I : Input) (strict : Bool) (f pos : Nat) (acc : List Nat) :
    parseWithPositionsLoop I strict f pos acc = parseLoop I strict f pos acc :=
  Loops.parse_eq_withPositions I strict f pos acc

theorem parseContext_eq_parse (I : Input) (strict : Bool) (polls : Nat → Nat) (f : Nat) :
    parseContextLoop I strict (fun _ => false) polls f 0 0 [] = (parseLoop I strict f 0 []).map CRes.done :=
  Loops.parseContext_never_eq_parse I strict polls f 0 0 []

theorem recovery_iff_parse_ok (I : Input) (f : Nat) (l : List Nat) (h : parseLoop I false f 0 [] = some (.ok l)) :
    recLoop I f 0 [] [] = some (l, []) := recovery_no_error_of_parse_ok I f l h

theorem recovery_iff_parse_fails (I : Input) (f c p : Nat) (h : parseLoop I false f 0 [] = some (.err c p))
    (hm : more I p = true) (f' : Nat) (r) (hr : recLoop I f' 0 [] [] = some r) : r.2 ≠ [] :=
  recovery_error_of_parse_err I f c p h hm f' r hr

theorem batch_is_spec {α β ε : Type} (f : α → Except ε β) (qs : List α) : Batch.batch f 0 qs [] = Batch.spec f qs :=
  Batch.batch_zero f qs

theorem batch_fails_iff_first_failure {α β ε : Type} (f : α → Except ε β) (qs : List α) (k : Nat) (e : ε) :
    Batch.batch f 0 qs [] = .error (k, e) ↔
      ∃ pre q post, qs = pre ++ q :: post ∧ pre.length = k ∧ f q = .error e ∧ ∀ p ∈ pre, ∃ r, f p = .ok r :=
  Batch.batch_err_iff f qs k e

theorem batch_all_ok {α β ε : Type} (f : α → Except ε β) (qs : List α) (h : ∀ q ∈ qs, ∃ r, f q = .ok r) :
    ∃ rs, Batch.batch f 0 qs [] = .ok rs ∧ qs.map f = rs.map Except.ok := Batch.batch_ok_of_all f qs h

theorem batch_of_concatenation {α β ε : Type} (f : α → Except ε β) (xs ys : List α) :
    Batch.batch f 0 (xs ++ ys) [] = match Batch.batch f 0 xs [] with
      | .ok rs => Batch.batch f xs.length ys rs
      | .error ke => .error ke := Batch.batch_append f xs ys

/-- non-vacuity: the third of four calls fails; the fourth (which would fail too) is not reported -/
example : Batch.batch (fun n : Nat => if n % 2 = 0 then Except.ok (n / 2) else Except.error n) 0 [2, 4, 5, 7] []
    = (.error (2, 5) : Except (Nat × Nat) (List Nat)) := by rfl

/-- validate-only entry points: the verdict of Parse with the tree discarded -/
def validate (I : Input) (strict : Bool) (f : Nat) : Option (Option (Nat × Nat)) :=
  (parseLoop I strict f 0 []).map fun r => match r with | .ok _ => none | .err c p => some (c, p)

theorem validate_iff_parse (I : Input) (strict : Bool) (f : Nat) (l : List Nat) :
    parseLoop I strict f 0 [] = some (.ok l) → validate I strict f = some none := by
  intro h; simp [validate, h]

theorem validate_same_code (I : Input) (strict : Bool) (f c p : Nat) :
    parseLoop I strict f 0 [] = some (.err c p) → validate I strict f = some (some (c, p)) := by
  intro h; simp [validate, h]

/-- non-vacuity: `SELECT ; bad ; SELECT` with a failing middle statement — strict parsing fails at it,
    recovery returns the two good statements and that one error -/
def demo : Input :=
  { kind := fun i => if i = 1 ∨ i = 3 then .semi else if i ≥ 5 then .eof else .start,
    n := 6,
    stmt := fun p => if p = 2 then { ok := false, stop := 2, code := 2002 } else { ok := true, stop := p + 1, code := 0 } }

example : parseLoop demo false 8 0 [] = some (.err 2002 2) := by decide
example : recLoop demo 8 0 [] [] = some ([0, 4], [2]) := by decide

/-- the strict-mode drift that was repaired: with the semicolon check removed from one copy the copies
    differ on `; SELECT` (sensitivity of `parseContext_eq_parse`) -/
def semiFirst : Input :=
  { kind := fun i => if i = 0 then .semi else if i = 1 then .start else .eof, n := 3,
    stmt := fun p => { ok := true, stop := p + 1, code := 0 } }
example : parseLoop semiFirst true 5 0 [] = some (.err E2004 0) ∧ parseLoop semiFirst false 5 0 [] = some (.ok [1]) := by decide

end GoSQLXModel.Props.C07
