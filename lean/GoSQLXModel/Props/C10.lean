import GoSQLXModel.Gen.Structure
import GoSQLXModel.Model.Metrics
import GoSQLXModel.Proofs.MetricsProgress
import GoSQLXModel.Gen.SharedState
import GoSQLXModel.Gen.Known
import GoSQLXModel.Spec.MetricsSpec
/-!
# C10 — Concurrent use gives the sequential results, race-free, with exact metrics

> … When the goroutines have finished, the metrics totals - operations, errors, bytes, smallest and
> largest query - equal the true values.   (Quantifier: all interleavings of N goroutines.)

* `Metrics.adds_exact(_finished)` — for every set of threads and **every** schedule, a counter updated
  by atomic adds equals the initial value plus all adds once the threads have finished.
* `Metrics.cas_exact`, `max_exact`, `min_exact` — for every set of threads and every schedule of the
  load / compare-and-swap micro-steps, the final min/max is a recorded value and none is better.
  `lost_update_counterexample`: the load/store variant (the code before the CAS fix) has a losing schedule.
* `recorder_alone_finishes`, `finishing_schedule_exists` (Proofs/MetricsProgress.lean) — the CAS loop is obstruction
  free (two undisturbed micro-steps finish a recorder) and every workload has a schedule that runs all recorders to
  completion: the "have finished" hypothesis of the exactness theorems is satisfiable for every list of sizes.
* `Metrics.isolation` — holders that share no state: every interleaving gives each holder its sequential result.
* `gen_metrics_protocol` — the program of RecordTokenization / RecordParse re-extracted from the source
  *is* the protocol the theorems speak about (expectation obligation), and no metrics function touches
  a shared field with a plain read or write.
* `gen_shared_guarded` — no package-level variable of a library package is written, by code reachable from
  the public operations, outside init / sync.Once / a mutex / sync/atomic.
What the model cannot exhibit: the Go memory model, the real `sync.Pool`, torn reads — the harness runs the
workload under the race detector for those.
-/
namespace GoSQLXModel.Props.C10
open GoSQLXModel GoSQLXModel.Metrics

theorem gen_metrics_protocol :
    (Gen.metricSteps.filter fun s => s.1 == "RecordTokenization") = Spec.recordTokenizationProgram ∧
    (Gen.metricSteps.filter fun s => s.1 == "RecordParse") = Spec.recordParseProgram := by decide +kernel

theorem gen_no_plain_access :
    (Gen.metricSteps.filter fun s => s.2.1 == "plain-read" || s.2.1 == "plain-write") = [] := by decide +kernel

/-- every counter updated by a Record* function is only ever added to (never load-then-store) -/
theorem gen_counters_add_only :
    (Gen.metricSteps.filter fun s => s.1.startsWith "Record" && s.2.1 == "store" &&
      !(s.2.2 == "lastTokenizeTime" || s.2.2 == "lastParseTime")) = [] := by decide +kernel

def unguardedVars : List (String × String) :=
  (Gen.sharedVars.filter fun v => v.2.2 == "unguarded").map fun v => (v.1, v.2.1)

theorem gen_shared_guarded :
    (unguardedVars.filter fun v => !Gen.Known.unguarded_global.contains v) = [] := by decide +kernel

/-- every tokenizer run reports to the metrics the length of the text it was handed: each `RecordTokenization` call of
    pkg/sql/tokenizer passes `len(<its own byte-slice parameter>)`, a parameter the function never assigns to
    (regenerated) — the `sizes` of `totals_exact` are the sizes of the arguments, also for refused oversize texts -/
theorem gen_sizes_are_argument_lengths :
    Gen.Structure.metricsSizeArgs.all (·.2.2) = true ∧ Gen.Structure.metricsSizeArgs.length ≥ 2 := by decide +kernel

/-- **C10 (metrics totals)**, stated for the extracted protocol: N goroutines record sizes `sizes`;
    for every schedule of their micro-steps that runs them to completion the operation counter equals
    N, the byte counter equals the sum of sizes, and the largest query equals a recorded size that no
    recorded size exceeds. -/
theorem totals_exact (sizes : List Nat) (s1 s2 s3 : List Nat)
    (h1 : ∀ p ∈ (runAdds 0 (sizes.map fun _ => [1]) s1).2, p = [])
    (h2 : ∀ p ∈ (runAdds 0 (sizes.map fun n => [n]) s2).2, p = [])
    (h3 : ∀ t ∈ (run id true 0 (initThreads sizes) s3).2, t.pc = .fin) :
    (runAdds 0 (sizes.map fun _ => [1]) s1).1 = sizes.length ∧
    (runAdds 0 (sizes.map fun n => [n]) s2).1 = sizes.sum ∧
    (∀ s ∈ sizes, s ≤ (run id true 0 (initThreads sizes) s3).1) ∧
    ((run id true 0 (initThreads sizes) s3).1 = 0 ∨ (run id true 0 (initThreads sizes) s3).1 ∈ sizes) := by
  refine ⟨?_, ?_, (max_exact sizes s3 h3).1, (max_exact sizes s3 h3).2⟩
  · rw [adds_exact_finished 0 _ s1 h1, pendingSum_ones]; omega
  · rw [adds_exact_finished 0 _ s2 h2, pendingSum_singletons]; omega

theorem recorder_alone_finishes (cur : Nat) (t : Thr Nat) (h : t.pc = .start) :
    (stepThr id true (stepThr id true cur t).1 (stepThr id true cur t).2).2.pc = .fin := solo_finishes id cur t h

/-- the hypotheses of `totals_exact` can be met for every workload -/
theorem finishing_schedule_exists (sizes : List Nat) :
    ∃ s3, ∀ t ∈ (run id true 0 (initThreads sizes) s3).2, t.pc = .fin := exists_finishing_schedule id 0 sizes

/-- non-vacuity: a complete schedule of three recorders exists and yields the expected totals -/
example : (run id true 0 (initThreads [7, 3, 9]) [0, 1, 2, 0, 1, 2, 2, 2, 1]).1 = 9 ∧
    (run id true 0 (initThreads [7, 3, 9]) [0, 1, 2, 0, 1, 2, 2, 2, 1]).2.all (fun t => t.pc == .fin) = true := by decide

end GoSQLXModel.Props.C10
