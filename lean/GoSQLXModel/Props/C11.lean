import GoSQLXModel.Model.ErrChain
import GoSQLXModel.Proofs.CancelPrompt
import GoSQLXModel.Gen.ErrorSites
import GoSQLXModel.Gen.Structure
/-!
# C11 — Cancellation is honoured promptly, reported as such, and leaves no residue

> If the context is already done, or becomes done at any moment during tokenizing or parsing, the
> call returns no tree and an error that matches the context's error under errors.Is …

Static half (this file):
* `ErrChain.is_preserved` — every stack of chain-keeping layers keeps the context error reachable;
  `ErrChain.flatten_loses_ctx` — one flattening frame loses it for good.
* `gen_ctx_sites_keep_chain` — every site that returns the error of a polled context returns it
  directly or through `%w` (table re-extracted from today's source).
* `gen_catch_all_present` — ParseContext re-polls the context when a statement fails and returns
  the `%w`-wrapped context error, so the ~20 flattening re-wraps inside the expression/CTE/sub-query
  parsers cannot hide a cancellation.
* `cancel_reported` — the model of the return path: whatever the inner parsers did to the error
  (flatten or keep), the value ParseContext returns under a done context matches the context error,
  and so does the value after the gosqlx `%w` wrappers.
* `cancellation_seen_at_first_poll`, `result_means_context_unseen` (Proofs/CancelPrompt.lean) — over the model of
  the ParseContext loop (any token stream, statement oracle, polls per statement, firing pattern): a `cancelled j`
  outcome means poll `j` saw the context done and no earlier poll of the call did — nothing is polled or parsed after
  the first observation — and a returned result is exactly `Parse`'s: a context that fires between or after the
  call's polls is invisible.
The dynamic half (every poll index k, both causes, reuse afterwards, poll counts) runs on the real code.
-/
namespace GoSQLXModel.Props.C11
open GoSQLXModel GoSQLXModel.ErrChain

theorem gen_ctx_sites_keep_chain :
    (Gen.ctxSites.filter fun s => !(s.2.2.1 == "direct" || s.2.2.1 == "wrapW")) = [] := by decide +kernel

theorem gen_catch_all_present :
    (Gen.ctxSites.any fun s => s.2.1 == "Parser.ParseContext" && s.2.2.2 && (s.2.2.1 == "wrapW" || s.2.2.1 == "direct")) = true := by
  decide +kernel

/-- poll sites exist where the property says they do (expectation obligation) -/
theorem gen_poll_sites_expected :
    (["Tokenizer.TokenizeContext", "Parser.parseExpression", "Parser.ParseContext", "Parser.parseStatement", "ParseWithContext"].all
      fun f => Gen.ctxSites.any fun s => s.2.1 == f) = true := by decide +kernel

/-- a context that is done before the call is refused whatever the text: the three entry points that do work of their
    own begin with a poll of the context that returns its error, and every other exported function that takes a
    context hands it on without looping itself (regenerated from the source) -/
theorem gen_entry_polls_first :
    (["sql/tokenizer:Tokenizer.TokenizeContext", "sql/parser:Parser.ParseContext", "gosqlx:ParseWithContext"].all
      fun f => Gen.Structure.ctxEntries.any fun e => e.1 == f && e.2 == "poll-first") = true ∧
    (Gen.Structure.ctxEntries.filter fun e => !(e.2 == "poll-first" || e.2 == "delegates")) = [] := by decide +kernel

theorem cancellation_seen_at_first_poll (I : Loops.Input) (strict : Bool) (fires : Nat → Bool) (polls : Nat → Nat)
    (f k pos : Nat) (acc : List Nat) (j : Nat)
    (h : Loops.parseContextLoop I strict fires polls f k pos acc = some (.cancelled j)) :
    k ≤ j ∧ fires j = true ∧ ∀ i, k ≤ i → i < j → fires i = false :=
  Loops.cancelled_at_first_firing_poll I strict fires polls f k pos acc j h

theorem result_means_context_unseen (I : Loops.Input) (strict : Bool) (fires : Nat → Bool) (polls : Nat → Nat)
    (f k pos : Nat) (acc : List Nat) (r : Loops.Res)
    (h : Loops.parseContextLoop I strict fires polls f k pos acc = some (.done r)) :
    Loops.parseLoop I strict f pos acc = some r := Loops.done_means_parse I strict fires polls f k pos acc r h

/-- non-vacuity: three statements of two inner polls each; a context done from poll 4 on is reported at poll 4
    (inside the second statement), one done from poll 9 on is never seen (the call makes polls 0 … 8) -/
def threeStmts : Loops.Input :=
  { kind := fun i => if i % 2 = 1 ∧ i < 6 then .semi else if i ≥ 6 then .eof else .start, n := 7,
    stmt := fun p => { ok := true, stop := p + 1, code := 0 } }
example : Loops.parseContextLoop threeStmts false (fun k => decide (k ≥ 4)) (fun _ => 2) 9 0 0 [] = some (.cancelled 4) := by
  decide
example : Loops.parseContextLoop threeStmts false (fun k => decide (k ≥ 9)) (fun _ => 2) 9 0 0 []
    = some (.done (.ok [0, 2, 4])) := by decide

/-- what an inner parser frame may do to an error on its way up -/
inductive Frame where
  | keep (l : Layer)          -- `%w`, WrapError or pass-through
  | flat (msg : String)       -- InvalidSyntaxError(fmt.Sprintf("…%v", err)) : chain dropped
  deriving Repr

def Frame.apply : Frame → Err → Err
  | .keep l, e => l.apply e
  | .flat m, e => flatten m e

/-- ParseContext after F11: on a statement error, if the context is done, return the wrapped context
    error; otherwise the statement's error unchanged -/
def parseContextReturn (ctxDone : Option Bool) (stmtErr : Err) : Err :=
  match ctxDone with
  | some d => .wrapW "parsing cancelled" (.ctx d)
  | none => stmtErr

/-- **C11 (reported as such)** — for every stack of inner frames (flattening or not, any depth) above
    the poll site that observed the context, and every stack of `%w` wrappers below the public API,
    the error matches the context's error. -/
theorem cancel_reported (frames : List Frame) (outer : List Layer) (d : Bool) :
    errIs (applyLayers outer (parseContextReturn (some d)
      (frames.foldr Frame.apply (.wrapW "parsing cancelled" (.ctx d))))) (.ctx d) = true := by
  have h : errIs (parseContextReturn (some d) (frames.foldr Frame.apply (.wrapW "parsing cancelled" (.ctx d)))) (.ctx d) = true := by
    simp [parseContextReturn, errIs]
  induction outer with
  | nil => simpa [applyLayers] using h
  | cons l ls ih => simpa [applyLayers] using errIs_layer l _ _ (by simpa [applyLayers] using ih)

/-- without the catch-all a single flattening frame loses the cancellation (the defect repaired by
    the catch-all fix; kept as the counterexample that shows the catch-all is what carries the theorem) -/
theorem flatten_without_catch_all_counterexample :
    errIs (applyLayers [.w "parsing failed"] (Frame.apply (.flat "failed to parse IN subquery")
      (.wrapW "parsing cancelled" (.ctx false)))) (.ctx false) = false := by decide

/-- a context that never fires: ParseContext returns the statement error unchanged -/
theorem never_fires_transparent (e : Err) : parseContextReturn none e = e := rfl

end GoSQLXModel.Props.C11
