import GoSQLXModel.Model.LspServer
import GoSQLXModel.Proofs.LspDocs
/-!
# C18 — Language server never dies, answers each request once, mirrors the document

> For any sequence of framed JSON-RPC messages … the server keeps running, sends exactly one response
> carrying the request's id for each request and none for notifications, and frames every outgoing message
> with its exact byte length.  After any sequence of open, change and close notifications its copy of each
> document equals the text obtained by applying those edits under the protocol's position rules (UTF-16
> columns; positions past the end of a line or document clamp) …

* `mirror_refines_spec` — for every history of open/change/close with arbitrary (negative, inverted,
  past-the-end, mid-surrogate) ranges over arbitrary text, the code-shaped model (line table, byte-style
  arithmetic, Go slice bounds as explicit panics) never panics and yields exactly the documents of the
  protocol specification (`Spec.idx`: one pass over the text counting line feeds and UTF-16 units).
  The key lemma is `offset_eq_spec`, by induction over the text.
* `document_is_its_own_history`, `other_documents_invisible`, `one_copy_per_document` — the store is a map: after
  any history the copy of a document is the fold of *its own* open/change/close operations (closed = absent, a
  change to an absent document is ignored), operations naming other URIs can be deleted from the history without
  effect on it, and the store never holds two copies of one URI (`Proofs/LspDocs.lean`).
* `one_response_per_request`, `responses_of_history` — dispatch answers a message iff it carries an id, once.
* `unframe_frame`, `unframeAll_frames` — a frame with length header = body length reads back exactly; the
  decimal length itself round-trips (`parseNat_digits`).
The byte level (UTF-8), JSON decoding, the handlers and the diagnostics clause are tied / decided by the
correspondence run against the real server (child process), not by theorems.
-/
namespace GoSQLXModel.Props.C18
open GoSQLXModel GoSQLXModel.Lsp

theorem apply_no_panic (t : List Char) (sl sc el ec : Int) (text : List Char) :
    Code.applyChange t sl sc el ec text ≠ none := applyChange_no_panic t sl sc el ec text

theorem apply_is_protocol_edit (t : List Char) (sl sc el ec : Int) (text : List Char) :
    Code.applyChange t sl sc el ec text = some (Spec.apply t sl sc el ec text) := applyChange_eq_spec t sl sc el ec text

theorem mirror_refines_spec (d : Docs) (ops : List DocOp) : Code.run d ops = some (Spec.run d ops) :=
  Lsp.mirror_refines_spec d ops

/-- after any history, through the code-shaped model: no panic, and the copy of document `v` is what `v`'s own
    operations make of what the store held for it at the start -/
theorem document_is_its_own_history (d : Docs) (ops : List DocOp) (v : String) :
    (Code.run d ops).map (fun s => s.get v) = some (docAfter (d.get v) (ops.filter (fun op => op.uri == v))) :=
  code_run_get d ops v

theorem other_documents_invisible (d : Docs) (ops : List DocOp) (v : String) :
    (Spec.run d ops).get v = (Spec.run d (ops.filter (fun op => op.uri == v))).get v := run_independent d ops v

theorem one_copy_per_document (ops : List DocOp) : (Spec.run [] ops).Uniq := keys_nodup ops

/-- non-vacuity: interleaved histories of two documents; `b`'s operations do not reach `a`, a change after close
    is ignored, a re-open starts afresh -/
example : (Spec.run [] [.open_ "a" "x".toList, .open_ "b" "y".toList, .change "b" [.full "z".toList],
    .change "a" [.ranged 0 1 0 1 "!".toList], .close "b", .change "b" [.full "w".toList]]).get "a" = some "x!".toList
  ∧ (Spec.run [] [.open_ "a" "x".toList, .open_ "b" "y".toList, .close "b", .change "b" [.full "w".toList]]).get "b" = none := by
  decide

theorem one_response_per_request (m : Msg) (h : m.wf) : handle m = if m.hasId then [m.id] else [] :=
  Lsp.one_response_per_request m h

theorem responses_of_history (ms : List Msg) (h : ∀ m ∈ ms, m.wf) :
    ms.flatMap handle = (ms.filter (·.hasId)).map (·.id) := Lsp.responses_of_history ms h

theorem framing_exact (body rest : List Char) : unframe (frame body ++ rest) = some (body, rest) :=
  unframe_frame body rest

theorem framing_stream (msgs : List (List Char)) : unframeAll (msgs.length + 1) (msgs.flatMap frame) = some msgs :=
  unframeAll_frames msgs

/-- non-vacuity / protocol examples: replacing the character after `é` (one UTF-16 unit, two bytes) -/
example : Spec.apply "SELEC é1".toList 0 7 0 8 "X".toList = "SELEC éX".toList := by decide
/-- a position inside a surrogate pair maps to the start of the character; past-the-end clamps -/
example : Spec.apply "a😀b".toList 0 2 0 2 "X".toList = "aX😀b".toList := by decide
example : Spec.apply "ab\ncd".toList 0 99 7 0 "X".toList = "abX".toList := by decide
/-- CRLF: a column past the end of a line clamps before the CR of the terminator -/
example : Spec.apply "ab\r\ncd".toList 0 50 0 50 "X".toList = "abX\r\ncd".toList := by decide

end GoSQLXModel.Props.C18
