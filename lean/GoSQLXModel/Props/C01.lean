import GoSQLXModel.Props.C04
import GoSQLXModel.Props.C02
import GoSQLXModel.Props.C12
import GoSQLXModel.Props.C14
import GoSQLXModel.Props.C15
import GoSQLXModel.Props.C16
import GoSQLXModel.Gen.Structure
import GoSQLXModel.Proofs.ExprProgress
import GoSQLXModel.Proofs.ExprTotal
import GoSQLXModel.Proofs.ExprMono
/-!
# C01 — No input can crash, panic or hang any entry point

> For every byte sequence offered as SQL (…) and every token sequence offered to the low-level parser, each public
> entry point (…) returns to its caller with a value or an error. No panic escapes, the process is never killed by a
> runtime fatal error, and the call completes.

What the models carry, for every input:
* tokenizer: `Props.C04.tokenizer_total` — every reader strictly shortens the remaining input, so `tokenize` returns
  tokens or an error for every classifier and every byte string (valid UTF-8 or not); the model is total Lean code, so
  no index is out of range in it, and it equals the implementation on every compared input (C04's correspondence);
* statement loops: `Props.C12.strict_terminates`, `Props.C12.recovery_terminates` — `Parse`/`ParseContext`/strict and
  `ParseWithRecovery` leave their loops for every token sequence on which statement parsing moves forward or fails
  (`Frame`), with at most one iteration per token;
* recursion: `Props.C02.parser_stack_bounded`, `tokenizer_stack_bounded` — every cycle of the regenerated call graph
  passes a depth guard, so no fatal stack overflow;
* tree functions: traversal, scanning and extraction are structural recursions over the tree (`Val.walk`,
  `Scan.scan`, `Extract.Collector.run` are accepted by Lean without fuel) and visit nothing outside it
  (`Val.walk_sound`, `Extract.Collector.run_sound`).

* grammar loops: `gen_parser_loops_leave_at_end` — an obligation on facts regenerated from the source: every loop of
  pkg/sql/parser over the token stream (not a range or counted loop) is left when the tokens run out — its condition
  is a positive token test (which the end marker never satisfies) or tests the end marker / token index, or its body
  leaves on "none of the expected tokens" or returns the error of a fallible parse call — and every iteration consumes
  a token, calls a parse function or leaves.  (A syntactic criterion, checked on every loop of the package, including
  loops added later; it is what the cut-statement runs sample dynamically.)

* expression ladder: `expression_ladder_moves_forward` (`Proofs/ExprProgress.lean`) — for **every** token list (with or
  without an end marker, produced by a tokenizer or not), every depth and every fuel, each level of the modelled ladder
  (OR, AND, comparison / BETWEEN / LIKE / IN / IS, `||`, additive, multiplicative, primary, call arguments, IN lists)
  hands back strictly fewer tokens than it was given when it succeeds, and no loop body hands back more than it was
  given: so every iteration of the ladder's `for p.isType(…)` loops consumes tokens and the statement loops cannot spin on
  an expression; `expression_ladder_returns` (`Proofs/ExprTotal.lean`) — and it *returns*: with fuel `10·n + 8` for a list
  of `n` tokens the model's only artificial answer, out-of-fuel, never occurs — on every token list every level answers
  a tree, an error or `unsupported`, so the recursion depth of the modelled `parseExpression` is linear in the input.

**Partial**: the statement grammar below the loops (that `parseStatement` always moves forward or fails on every token
list, including lists without an end marker) is modelled for the expression ladder only; it is covered by the child-process
survival run over every entry point (byte strings, cut statements, deep and long shapes, and token sequences no
tokenizer produces). Memory safety and runtime fatal errors other than stack exhaustion are outside any model.
-/
namespace GoSQLXModel.Props.C01
open GoSQLXModel GoSQLXModel.Loops

/-- the tokenizer returns for every input -/
theorem tokenizer_returns (cls : CharClass) (inp : Lex.Bytes) :
    (∃ toks cms, Lex.tokenize cls Lex.genLexTables inp = .ok toks cms) ∨ (∃ e, Lex.tokenize cls Lex.genLexTables inp = .err e) := by
  have h := Props.C04.tokenizer_total cls inp
  cases hr : Lex.tokenize cls Lex.genLexTables inp with
  | ok toks cms => exact Or.inl ⟨toks, cms, rfl⟩
  | err e => exact Or.inr ⟨e, rfl⟩
  | outOfFuel => exact absurd hr h

/-- the statement loops return (one iteration per token at most) -/
theorem loops_return (I : Input) (hF : Frame I) (strict : Bool) :
    (∃ r, parseLoop I strict (I.n + 2) 0 [] = some r) ∧ (∃ r, recLoop I (I.n + 2) 0 [] [] = some r) :=
  ⟨Props.C12.strict_terminates I hF strict, Props.C12.recovery_terminates I hF⟩

/-- every token-stream loop of the parser package is left at the end of the tokens and moves on each iteration -/
theorem gen_parser_loops_leave_at_end :
    (Gen.Structure.parserLoops.all fun l => l.2.1 != "open" && l.2.2) = true ∧ Gen.Structure.parserLoops.length ≥ 40 := by
  decide +kernel

/-- the expression ladder moves forward on every token list: a successful `parseExpression` (and every level below it,
    `ExprParse.prog`) hands back strictly fewer tokens than it was given -/
theorem expression_ladder_moves_forward (f d : Nat) (ts : List ExprParse.PTok) (e : ExprParse.Ex) (rest : List ExprParse.PTok)
    (h : ExprParse.pExpr f d ts = .ok e rest) : rest.length < ts.length :=
  ExprParse.pExpr_progress f d ts e rest h

/-- the expression ladder returns on every token list: fuel linear in the number of tokens always suffices -/
theorem expression_ladder_returns (d : Nat) (ts : List ExprParse.PTok) (f : Nat) (hf : 10 * ts.length + 8 ≤ f) :
    ExprParse.pExpr f d ts ≠ .oof :=
  ExprParse.pExpr_returns d ts f hf

/-- … and its answer does not depend on the fuel: every sufficient fuel gives the answer of `parseExprAt`, which is never
    out-of-fuel — the fuel of the model is an artefact of the proof assistant, not a behaviour -/
theorem expression_answer_independent_of_fuel (d : Nat) (ts : List ExprParse.PTok) (f : Nat) (hf : 10 * ts.length + 8 ≤ f) :
    ExprParse.pExpr f d ts = ExprParse.parseExprAt d ts ∧ ExprParse.parseExprAt d ts ≠ .oof :=
  ⟨ExprParse.pExpr_stable d ts f hf, ExprParse.parseExprAt_ne_oof d ts⟩

/-- non-vacuity: `a + ` followed by nothing fails rather than loops, `a + b )` stops before the parenthesis -/
example : (ExprParse.pExpr 40 0 [⟨.ident, "a"⟩, ⟨.plus, "+"⟩]).canon = "ERR E2001" := by decide +kernel
example : (ExprParse.pExpr 40 0 [⟨.ident, "a"⟩, ⟨.plus, "+"⟩, ⟨.ident, "b"⟩, ⟨.rparen, ")"⟩]).canon = "OK (id(a) + id(b)) 1" := by
  decide +kernel

/-- traversal-based functions never leave the tree -/
theorem tree_functions_stay_inside (t : ChildTable) (v : Val) :
    (v.walk t none).Sublist v.nodes ∧ (v.walkVals t none).Sublist v.nodeVals :=
  ⟨Val.walk_sound t none v, Val.walkVals_sublist t none v⟩

end GoSQLXModel.Props.C01
