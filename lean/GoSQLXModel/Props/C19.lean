import GoSQLXModel.Model.Fs
import GoSQLXModel.Proofs.FsMulti
import GoSQLXModel.Gen.FsCalls
/-!
# C19 — CLI verdicts match the library; files are never left half-written

> … In-place rewriting replaces a file only when processing of that file succeeded, and if the process is
> interrupted or a write fails after any number of bytes, the file on disk holds either the complete
> original or the complete new content.   (Quantifier: a write failure injected at every byte offset.)

* `Fs.atomic_replace_safe` — for the temp-file + rename protocol, for **every** crash point (after any
  operation; inside the write after any number of bytes) the target holds the old or the new content;
  `Fs.truncate_write_unsafe` — truncate-then-write (os.WriteFile on the original path) has a crash point that
  leaves neither.
* `gen_inplace_sites_atomic`, `gen_protocol_expected` — on the call sites re-extracted from cmd/gosqlx/cmd:
  the two in-place writers (`format -i`, `lint --auto-fix`) go through `replaceFileAtomically`, no
  `os.WriteFile` is applied to an input path, and the success path of `replaceFileAtomically` is the protocol
  the theorem speaks about (Stat, CreateTemp, Write, Sync, Close, Chmod, Rename).
* verdict logic: `validate_exit_iff`, `check_exit_iff` — exit status 0 iff every input is accepted (and, for
  `format --check`, unchanged by formatting).
`all_files_old_or_new`, `other_paths_untouched` (Proofs/FsMulti.lean) lift the single-file theorem to a run over any
number of files with a crash anywhere in the whole run: every named file holds its complete old or complete new
content, provided the targets are distinct paths and no temporary name is a target; paths that are neither are untouched.
What the model cannot exhibit: the kernel, the real file system, signals — the harness injects a write failure at
byte offsets with RLIMIT_FSIZE and compares exit statuses, reports and file contents with the library.
-/
namespace GoSQLXModel.Props.C19
open GoSQLXModel GoSQLXModel.Fs

/-- the input-path expressions at the in-place write sites -/
def inputPathArgs : List String := ["file", "fileResult.Filename", "filename", "path", "fileResult.Path"]

theorem gen_inplace_sites_atomic :
    (Gen.writeSites.filter fun s => s.2.1 != "replaceFileAtomically" &&
      (s.1 == "Formatter.Format" || s.1 == "lintRun") && inputPathArgs.contains s.2.2) = [] ∧
    Gen.writeSites.contains ("Formatter.Format", "replaceFileAtomically", "file") = true ∧
    Gen.writeSites.contains ("lintRun", "replaceFileAtomically", "fileResult.Filename") = true := by decide +kernel

theorem gen_protocol_expected :
    Gen.atomicProtocol = ["Stat", "CreateTemp", "Name", "Write", "Sync", "Close", "Chmod", "Rename"] := by decide

/-- **C19 (crash safety)** for the extracted protocol -/
theorem inplace_write_safe (d : Disk) (target tmp : String) (new : Bytes) (hne : tmp ≠ target) :
    ∀ s ∈ crashStates d (atomicReplace target tmp new), s target = d target ∨ s target = some new :=
  atomic_replace_safe d target tmp new hne

theorem inplace_write_completes (d : Disk) (target tmp : String) (new : Bytes) (hne : tmp ≠ target) :
    run d (atomicReplace target tmp new) target = some new := (atomic_replace_done d target tmp new hne).1

/-- **C19 (crash safety) for a whole command line**: any number of files, crash at any point of the run -/
theorem all_files_old_or_new (js : List Job) (d : Disk) (hnd : (js.map (·.target)).Nodup)
    (htmp : ∀ j ∈ js, ∀ j' ∈ js, j.tmp ≠ j'.target) :
    ∀ s ∈ crashStates d (jobsOps js), ∀ j ∈ js, s j.target = d j.target ∨ s j.target = some j.new :=
  multi_replace_safe js d hnd htmp

theorem other_paths_untouched (js : List Job) (d : Disk) (q : String) (h : ∀ j ∈ js, q ≠ j.target ∧ q ≠ j.tmp) :
    ∀ s ∈ crashStates d (jobsOps js), s q = d q := multi_replace_frame js d q h

/-- non-vacuity: two files, 18 crash states; in each, both files are whole -/
def twoJobs : List Job := [⟨"a.sql", "a.tmp", [7, 8, 9]⟩, ⟨"b.sql", "b.tmp", [5, 6]⟩]
def disk0 : Disk := fun p => if p = "a.sql" then some [1, 2] else if p = "b.sql" then some [3] else none
example : (crashStates disk0 (jobsOps twoJobs)).length = 18 ∧
    ((crashStates disk0 (jobsOps twoJobs)).all fun s =>
      (s "a.sql" == some [1, 2] || s "a.sql" == some [7, 8, 9]) && (s "b.sql" == some [3] || s "b.sql" == some [5, 6])) = true ∧
    ((crashStates disk0 (jobsOps twoJobs)).any fun s => s "a.sql" == some [7, 8, 9] && s "b.sql" == some [3]) = true := by
  decide

/-- the protocol the code used before the repair is unsafe (kept as the counterexample) -/
theorem truncate_write_counterexample (d : Disk) (target : String) (old new : Bytes) (hold : d target = some old)
    (ho : old ≠ []) (hn : new ≠ []) :
    ∃ s ∈ crashStates d (truncateWrite target new), s target ≠ some old ∧ s target ≠ some new :=
  truncate_write_unsafe d target old new hold ho hn

/-- verdict logic -/
structure FileOutcome where
  accepted : Bool
  changed : Bool
  deriving Repr

def validateExit (fs : List FileOutcome) : Nat := if fs.any (fun f => !f.accepted) then 1 else 0
def formatCheckExit (fs : List FileOutcome) : Nat := if fs.any (fun f => !f.accepted || f.changed) then 1 else 0

theorem validate_exit_iff (fs : List FileOutcome) : validateExit fs = 0 ↔ ∀ f ∈ fs, f.accepted = true := by
  simp [validateExit]

theorem check_exit_iff (fs : List FileOutcome) :
    formatCheckExit fs = 0 ↔ ∀ f ∈ fs, f.accepted = true ∧ f.changed = false := by
  simp [formatCheckExit]

/-- check modes perform no writing operation, hence change no file -/
theorem check_mode_writes_nothing (d : Disk) (ops : List Op) (h : isReadOnly ops = true) : run d ops = d :=
  read_only_preserves d ops h

/-- non-vacuity -/
example : (crashStates (fun p => if p = "t" then some [1, 2] else none) (atomicReplace "t" "t.tmp" [7, 8, 9])).length = 10 := by decide

end GoSQLXModel.Props.C19
