import GoSQLXModel.Model.Fs
import GoSQLXModel.Gen.FsCalls
/-!
# C19 — CLI verdicts match the library; files are never left half-written

> … In-place rewriting replaces a file only when processing of that file succeeded, and if the process is
> interrupted or a write fails after any number of bytes, the file on disk holds either the complete
> original or the complete new content.   (Quantifier: a write failure injected at every byte offset.)

* `Fs.atomic_replace_safe` — for the temp-file + rename protocol, for **every** crash point (after any
  operation; inside the write after any number of bytes) the target holds the old or the new content;
  `Fs.truncate_write_unsafe` — truncate-then-write (os.WriteFile on the original path) has a crash point that
  leaves neither.
* `gen_inplace_sites_atomic`, `gen_protocol_expected` — on the call sites re-extracted from cmd/gosqlx/cmd:
  the two in-place writers (`format -i`, `lint --auto-fix`) go through `replaceFileAtomically`, no
  `os.WriteFile` is applied to an input path, and the success path of `replaceFileAtomically` is the protocol
  the theorem speaks about (Stat, CreateTemp, Write, Sync, Close, Chmod, Rename).
* verdict logic: `validate_exit_iff`, `check_exit_iff` — exit status 0 iff every input is accepted (and, for
  `format --check`, unchanged by formatting).
What the model cannot exhibit: the kernel, the real file system, signals — the harness injects a write failure at
byte offsets with RLIMIT_FSIZE and compares exit statuses, reports and file contents with the library.
-/
namespace GoSQLXModel.Props.C19
open GoSQLXModel GoSQLXModel.Fs

/-- the input-path expressions at the in-place write sites -/
def inputPathArgs : List String := ["file", "fileResult.Filename", "filename", "path", "fileResult.Path"]

theorem gen_inplace_sites_atomic :
    (Gen.writeSites.filter fun s => s.2.1 != "replaceFileAtomically" &&
      (s.1 == "Formatter.Format" || s.1 == "lintRun") && inputPathArgs.contains s.2.2) = [] ∧
    Gen.writeSites.contains ("Formatter.Format", "replaceFileAtomically", "file") = true ∧
    Gen.writeSites.contains ("lintRun", "replaceFileAtomically", "fileResult.Filename") = true := by decide +kernel

theorem gen_protocol_expected :
    Gen.atomicProtocol = ["Stat", "CreateTemp", "Name", "Write", "Sync", "Close", "Chmod", "Rename"] := by decide

/-- **C19 (crash safety)** for the extracted protocol -/
theorem inplace_write_safe (d : Disk) (target tmp : String) (new : Bytes) (hne : tmp ≠ target) :
    ∀ s ∈ crashStates d (atomicReplace target tmp new), s target = d target ∨ s target = some new :=
  atomic_replace_safe d target tmp new hne

theorem inplace_write_completes (d : Disk) (target tmp : String) (new : Bytes) (hne : tmp ≠ target) :
    run d (atomicReplace target tmp new) target = some new := (atomic_replace_done d target tmp new hne).1

/-- the protocol the code used before the repair is unsafe (kept as the counterexample) -/
theorem truncate_write_counterexample (d : Disk) (target : String) (old new : Bytes) (hold : d target = some old)
    (ho : old ≠ []) (hn : new ≠ []) :
    ∃ s ∈ crashStates d (truncateWrite target new), s target ≠ some old ∧ s target ≠ some new :=
  truncate_write_unsafe d target old new hold ho hn

/-- verdict logic -/
structure FileOutcome where
  accepted : Bool
  changed : Bool
  deriving Repr

def validateExit (fs : List FileOutcome) : Nat := if fs.any (fun f => !f.accepted) then 1 else 0
def formatCheckExit (fs : List FileOutcome) : Nat := if fs.any (fun f => !f.accepted || f.changed) then 1 else 0

theorem validate_exit_iff (fs : List FileOutcome) : validateExit fs = 0 ↔ ∀ f ∈ fs, f.accepted = true := by
  simp [validateExit]

theorem check_exit_iff (fs : List FileOutcome) :
    formatCheckExit fs = 0 ↔ ∀ f ∈ fs, f.accepted = true ∧ f.changed = false := by
  simp [formatCheckExit]

/-- check modes perform no writing operation, hence change no file -/
theorem check_mode_writes_nothing (d : Disk) (ops : List Op) (h : isReadOnly ops = true) : run d ops = d :=
  read_only_preserves d ops h

/-- non-vacuity -/
example : (crashStates (fun p => if p = "t" then some [1, 2] else none) (atomicReplace "t" "t.tmp" [7, 8, 9])).length = 10 := by decide

end GoSQLXModel.Props.C19
