import GoSQLXModel.Model.LexGen
import GoSQLXModel.Model.PosCache
import GoSQLXModel.Proofs.LexEOF
import GoSQLXModel.Proofs.LexSpell2
import GoSQLXModel.Proofs.LexSpell3
import GoSQLXModel.Proofs.LexLimit
/-!
# C05 — Reported source positions point at the right characters

> Each token's start and end, each comment's span, and the location carried by each tokenizer or position-tracking
> parser error identify the line and column at which that element really begins and ends in the input: 1-based, never
> decreasing along the stream, always inside the input, end of one element never after the start of the next. (…)

In the model a token's span is a pair of byte offsets, `startOff` = the offset of the suffix the reader was started on
(after trivia), `endOff` = the offset of the suffix it returned; line and column are the pure function `locOf` of the
input and an offset (the meaning of `toSQLPosition`; the incremental cache of the implementation is an optimisation
of it, tied by the correspondence on every token, comment and error of every test input).

Proved (every classifier, table, input):
* `tokenize_spans` — start ≤ end ≤ next start, the end marker at the end of the input: never decreasing, never
  overlapping, inside the input;
* `skipTriviaF_head` — a token starts at a non-blank byte (its own first character, not the blank or comment before it);
* `locOf_one_based`, `locOf_line_mono`, `locOf_col_mono` — 1-based, and (line, column) is monotone in the offset;
* `locOf_col_tabfree` — on a tab-free line the column is the byte distance from the line start plus one.
Together: locations are non-decreasing along the stream.

* `reference_grammar_spans` (from `tokenize_spell2`, `spans_slice`) — on the reference grammar of C04 (words, two-word
  keywords, numbers, operators, quoted forms; blanks, comments or nothing between them) the i-th token's start and end
  offsets are exactly where the i-th lexeme was written, whatever precedes it (comments, blank lines, multi-line
  literals): cutting the input at the token's span gives back the lexeme's own bytes, and the end marker sits at the end
  of the input.

  Every comment's span is where the comment was written (`sepSpans`, `itemsCommentSpans`; a line comment's span
  includes the newline that ends it).

* `unterminated_literal_located_at_its_quote` (`Proofs/LexSpell3.lean`) — a tokenizer error after a reference text is
  located at the offending element: a text of the reference grammar followed by a single-quoted literal that never closes
  is rejected with `E1002` at the byte offset of the literal's opening quote, whatever comments, blank lines and
  multi-line literals precede it (`lexLoop_prefix_err`: the tokens read before change nothing and no other error comes
  first).

**Partial**: that a *parser* error is located at the offending token is decided dynamically (single-token corruptions
through ParseFromModelTokensWithPositions); the Lean side covers the tokenizer.
-/
namespace GoSQLXModel.Props.C05
open GoSQLXModel GoSQLXModel.Lex

/-- lexicographic order on (line, column) -/
def locLe (a b : Nat × Nat) : Prop := a.1 < b.1 ∨ (a.1 = b.1 ∧ a.2 ≤ b.2)

/-- **C05 (monotone)**: a later offset never has an earlier location -/
theorem loc_monotone (inp : Bytes) {i j : Nat} (h : i ≤ j) : locLe (locOf inp i) (locOf inp j) := by
  unfold locLe
  have hl := locOf_line_mono inp h
  by_cases he : (locOf inp i).1 = (locOf inp j).1
  · exact Or.inr ⟨he, locOf_col_mono inp h he⟩
  · exact Or.inl (by omega)

/-- **C05 (1-based)** -/
theorem loc_one_based (inp : Bytes) (off : Nat) : 1 ≤ (locOf inp off).1 ∧ 1 ≤ (locOf inp off).2 :=
  locOf_one_based inp off

/-- **C05 (ordering, containment)** at today's tables -/
theorem spans_ordered_inside (cls : CharClass) (inp : Bytes) (toks : List Tok) (cms : List Comment)
    (h : tokenize cls genLexTables inp = .ok toks cms) : SpansFrom 0 toks ∧ lastEnd 0 toks = inp.length :=
  tokenize_spans cls genLexTables inp toks cms h

/-- consecutive tokens: locations in stream order (start ≤ end ≤ next start as locations) -/
theorem adjacent_locations_ordered (inp : Bytes) (lo : Nat) (a b : Tok) (rest : List Tok)
    (h : SpansFrom lo (a :: b :: rest)) :
    locLe (locOf inp a.startOff) (locOf inp a.endOff) ∧ locLe (locOf inp a.endOff) (locOf inp b.startOff) := by
  simp only [SpansFrom] at h
  exact ⟨loc_monotone inp h.2.1, loc_monotone inp h.2.2.1⟩

/-- **C05 (own first character)**: a token never starts at a blank -/
theorem token_starts_at_nonblank (inp : Bytes) (fuel : Nat) (rest : Bytes) (cs : List Comment) (b : UInt8) (tl : Bytes)
    (h : (skipTriviaF inp fuel rest cs).1 = b :: tl) : isWS b = false :=
  skipTriviaF_head inp fuel rest cs b tl h

/-- **C05 (columns)**: exact column on tab-free lines -/
theorem column_is_byte_distance (inp : Bytes) (off : Nat)
    (h : ∀ b ∈ (inp.take off).reverse.takeWhile (· != 10), b ≠ 9) :
    (locOf inp off).2 = 1 + ((inp.take off).reverse.takeWhile (· != 10)).length :=
  locOf_col_tabfree inp off h

/-- **C05 (each element is located at its own characters)**: for every text of the reference grammar the token spans
    are the lexemes' positions in the text, and cutting the text at a span yields the lexeme as written -/
theorem reference_grammar_spans (cls : CharClass) (hA : AsciiOK cls) (lead : List Piece) (items : List Item2)
    (hlead : lead.all Piece.ok = true) (hok : seqOK cls genLexTables items = true)
    (hsize : (sepBytes lead ++ flat2 items).length ≤ genLexTables.maxInput) (hcount : items.length ≤ genLexTables.maxTokens) :
    ∃ toks cs, tokenize cls genLexTables (sepBytes lead ++ flat2 items) = .ok toks cs ∧
      toks.map Tok.span = spans (sepBytes lead).length items ++
        [((sepBytes lead ++ flat2 items).length, (sepBytes lead ++ flat2 items).length)] ∧
      (spans (sepBytes lead).length items).map
        (fun se => ((sepBytes lead ++ flat2 items).drop se.1).take (se.2 - se.1)) = items.map (·.1.bytes) ∧
      cs.map Comment.span = sepSpans 0 lead ++ itemsCommentSpans (sepBytes lead).length items := by
  obtain ⟨toks, cs, h1, _, _, h4, h5⟩ := tokenize_spell2 cls genLexTables hA lead items hlead hok hsize hcount
  exact ⟨toks, cs, h1, h4, spans_slice items (sepBytes lead), h5⟩

/-- **C05 (error location)**: after any reference text, an unterminated single-quoted literal (plain body) is reported as
    `E1002` at its opening quote -/
theorem unterminated_literal_located_at_its_quote (cls : CharClass) (hA : AsciiOK cls) (h39 : isIdentStart cls 39 = false)
    (lead : List Piece) (items : List Item2) (body : Bytes)
    (hlead : lead.all Piece.ok = true) (hb : plainBody body = true)
    (hok : seqOKT cls genLexTables (39 :: body) items = true)
    (hsize : (sepBytes lead ++ (flat2 items ++ 39 :: body)).length ≤ genLexTables.maxInput)
    (hcount : items.length < genLexTables.maxTokens) :
    tokenize cls genLexTables (sepBytes lead ++ (flat2 items ++ 39 :: body)) =
      .err ⟨"E1002", .at (sepBytes lead ++ flat2 items).length⟩ :=
  unterminated_literal_located cls genLexTables hA h39 lead items body hlead hb hok hsize hcount

/-- the token-limit error is located at the first element beyond the limit: after any reference text of exactly
    `maxTokens` lexemes (comments, blank lines and multi-line literals included) the error's offset is the offset of what
    follows -/
theorem token_limit_error_located_at_the_excess (cls : CharClass) (hA : AsciiOK cls) (lead : List Piece) (items : List Item2)
    (tail : Bytes) (htail : stopB tail = true) (hne : tail ≠ []) (hlead : lead.all Piece.ok = true)
    (hok : seqOKT cls genLexTables tail items = true)
    (hsize : (sepBytes lead ++ (flat2 items ++ tail)).length ≤ genLexTables.maxInput)
    (hcount : items.length = genLexTables.maxTokens) :
    tokenize cls genLexTables (sepBytes lead ++ (flat2 items ++ tail)) =
      .err ⟨"E1007", .at (sepBytes lead ++ flat2 items).length⟩ := by
  have h := token_limit_refuses cls genLexTables hA lead items tail htail hne hlead hok hsize hcount
  rw [h]
  have : (sepBytes lead ++ (flat2 items ++ tail)).length - tail.length = (sepBytes lead ++ flat2 items).length := by
    simp only [List.length_append]; omega
  rw [this]

/-- non-vacuity: a leading comment, a blank line, a literal that spans two lines, then `x`: every token is located at
    its own first character (line 5, column 2 for `x`) -/
def spanItems : List Item2 :=
  [(.word (strBytes "select"), [.blanks [32]]), (.str [.ch 97, .ch 10, .ch 98], [.blanks [10, 32]]), (.word (strBytes "x"), [])]
def spanLead : List Piece := [.line (strBytes " hi"), .blanks [10]]
example : seqOK .ascii genLexTables spanItems = true := by decide +kernel
example : sepBytes spanLead ++ flat2 spanItems = strBytes "-- hi\n\nselect 'a\nb'\n x" := by decide +kernel
example : (spans (sepBytes spanLead).length spanItems).map (fun se => (locOf (sepBytes spanLead ++ flat2 spanItems) se.1,
    locOf (sepBytes spanLead ++ flat2 spanItems) se.2)) = [((3, 1), (3, 7)), ((3, 8), (4, 3)), ((5, 2), (5, 3))] := by decide +kernel

example : sepSpans 0 spanLead ++ itemsCommentSpans (sepBytes spanLead).length spanItems = [(0, 6)] := by decide +kernel

/-- non-vacuity for the error location: the same text continued by `, 'oops` — rejected at line 5, column 6 -/
example : seqOKT .ascii genLexTables (39 :: strBytes "oops") (spanItems.dropLast ++ [(.word (strBytes "x"), [.blanks [32]]), (.op [44], [.blanks [32]])]) = true ∧
    plainBody (strBytes "oops") = true := by decide +kernel
example : tokenize .ascii genLexTables (strBytes "-- hi\n\nselect 'a\nb'\n x , 'oops") = .err ⟨"E1002", .at 25⟩ ∧
    locOf (strBytes "-- hi\n\nselect 'a\nb'\n x , 'oops") 25 = (5, 6) := by decide +kernel

/-! non-vacuity: the token after a comment and a blank line is located at its own first character -/
def sample : Bytes := strBytes "-- hi\n\n  SELECT 1"

example : (match tokenize .ascii genLexTables sample with
    | .ok toks _ => toks.map fun t => (locOf sample t.startOff, locOf sample t.endOff)
    | _ => []) = [((3, 3), (3, 9)), ((3, 10), (3, 11)), ((3, 11), (3, 11))] := by decide +kernel

/-- an unterminated quoted identifier that runs into a newline is located at its opening quote -/
example : tokenize .ascii genLexTables (strBytes "a\n \"two\nlines\"") = .err ⟨"E1002", .at 3⟩ ∧
    locOf (strBytes "a\n \"two\nlines\"") 3 = (2, 2) := by decide +kernel

/-! ### locations identify offsets -/

/-- strict lexicographic order on (line, column) -/
def locLt (a b : Nat × Nat) : Prop := a.1 < b.1 ∨ (a.1 = b.1 ∧ a.2 < b.2)

/-- offset 0 is line 1, column 1 -/
theorem loc_start (inp : Bytes) : locOf inp 0 = (1, 1) := by simp [locOf]

/-- the line number is one plus the number of line feeds before the offset -/
theorem line_is_linefeeds_before (inp : Bytes) (off : Nat) :
    (locOf inp off).1 = 1 + ((inp.take off).filter (· == 10)).length := rfl

theorem loc_step_strict (inp : Bytes) (i : Nat) (h : i < inp.length) : locLt (locOf inp i) (locOf inp (i + 1)) := by
  rw [locOf_succ inp i h]
  unfold locLt
  split
  · left; simp
  · right; simp only [true_and]; split <;> omega

/-- **C05 (strictly monotone)**: within the input a strictly later offset has a strictly later location -/
theorem loc_strict (inp : Bytes) {i j : Nat} (hij : i < j) (hj : j ≤ inp.length) : locLt (locOf inp i) (locOf inp j) := by
  have h1 := loc_step_strict inp i (by omega)
  have h2 := loc_monotone inp (show i + 1 ≤ j by omega)
  unfold locLt at *
  unfold locLe at h2
  rcases h1 with h1 | ⟨h1, h1'⟩ <;> rcases h2 with h2 | ⟨h2, h2'⟩
  · left; omega
  · left; omega
  · left; omega
  · right; exact ⟨by omega, by omega⟩

/-- **C05 (a location names one place)**: two offsets of the input with the same (line, column) are the same offset -/
theorem loc_injective (inp : Bytes) {i j : Nat} (hi : i ≤ inp.length) (hj : j ≤ inp.length)
    (h : locOf inp i = locOf inp j) : i = j := by
  rcases Nat.lt_trichotomy i j with hlt | heq | hgt
  · have := loc_strict inp hlt hj; rw [h] at this; unfold locLt at this; omega
  · exact heq
  · have := loc_strict inp hgt hi; rw [h] at this; unfold locLt at this; omega

end GoSQLXModel.Props.C05
