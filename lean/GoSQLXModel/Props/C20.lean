import GoSQLXModel.Model.PosCache
import GoSQLXModel.Model.LexGen
import GoSQLXModel.Proofs.LexEOF
import GoSQLXModel.Proofs.LexCount
/-!
# C20 — Processing cost grows near-linearly with input size

> Tokenizing, parsing, serialising and scanning an input of n bytes costs at most on the order of n log n work whatever
> its shape (…). No input within the documented size limit can make a single call take time quadratic in its length.

Cost is a property of the running code; a theorem about the model can only bound what the *modelled algorithm* does.
What is proved (every classifier, table, input):
* `main_loop_iterations` — the tokenizer's main loop runs at most `n + 1` times, because every reader consumes at
  least one byte (`nextToken_progress`) and nothing is consumed twice (the readers hand back a suffix of what they
  were given): the work of the loop is linear plus the work of the readers, each of which scans what it consumes once;
* `tokens_at_most_bytes` (Proofs/LexCount.lean) — an accepted run returns at most one token per input byte plus the
  end marker, so everything downstream that is linear in the token count is linear in `n`;
* `advanceTo_spec`, `runQueries_cost` — the resuming offset → (line, column) conversion is invisible (it computes
  `locOf`) and a non-decreasing sequence of queries — the tokenizer asks for start, end, start, … in source order
  (`tokenize_spans`) — scans each byte at most once: total at most `n`, whatever the number of tokens, lines or
  comments.  This is the mechanism whose earlier rescanning form made the cost quadratic.
**Partial**: the parser, the serialisers and the scanner have no cost model; for them — and for the implementation of
everything above — the decision is the measurement: user CPU time of each entry point on 31 input families at n, 2n,
4n (and 8n on suspicion) in a child process.
-/
namespace GoSQLXModel.Props.C20
open GoSQLXModel GoSQLXModel.Lex

/-- the main loop of the tokenizer needs at most `n + 1` iterations -/
theorem main_loop_iterations (cls : CharClass) (inp : Bytes) :
    lexLoop cls genLexTables inp (inp.length + 1) inp [] [] ≠ .outOfFuel :=
  lexLoop_total cls genLexTables inp _ _ _ _ (by omega)

/-- the number of tokens never exceeds the number of bytes (plus the end marker) -/
theorem tokens_at_most_bytes (cls : CharClass) (inp : Bytes) (out : List Tok) (cms : List Comment)
    (h : tokenize cls genLexTables inp = .ok out cms) : out.length ≤ inp.length + 1 :=
  tokens_le_bytes cls genLexTables inp out cms h

/-- the resuming offset → position conversion computes what the from-scratch one computes -/
theorem cache_invisible (inp : Bytes) (p : PC) (target : Nat) (hp : p.Ok inp) (h1 : p.idx ≤ target)
    (h2 : target ≤ inp.length) : (advanceTo inp p target).Ok inp ∧ (advanceTo inp p target).idx = target :=
  advanceTo_spec inp p target hp h1 h2

/-- **monotone queries scan each byte at most once** -/
theorem position_queries_linear (inp : Bytes) (ts : List Nat) (hb : ∀ t ∈ ts, t ≤ inp.length)
    (hm : List.Pairwise (· ≤ ·) (0 :: ts)) : (runQueries inp PC.start ts).2 ≤ inp.length :=
  (runQueries_cost inp ts PC.start (start_ok inp) hb hm).2

/-- non-vacuity: ten queries over a three-line input cost its length, not ten times its length -/
example : (runQueries (strBytes "SELECT a\n, b\nFROM t") PC.start [0, 6, 7, 8, 9, 10, 11, 12, 13, 17, 18, 19]).2 = 19 := by
  decide +kernel

end GoSQLXModel.Props.C20
