import GoSQLXModel.Model.CallGraph
import GoSQLXModel.Gen.ParserGraph
import GoSQLXModel.Gen.TokenizerGraph
import GoSQLXModel.Gen.Limits
import GoSQLXModel.Gen.Known
import GoSQLXModel.Gen.ParserInstance
import GoSQLXModel.Model.LexGen
import GoSQLXModel.Proofs.LexLimit
/-!
# C02 — Size, token and nesting limits hold for every construct

> Whatever syntactic construct is nested, nesting beyond the documented depth limit is rejected
> with an error, so stack use is bounded independently of input length and no input overflows
> the stack.  (Quantifier: every self-embedding production of the grammar = every cycle in the
> parser's call graph.)

* `CallGraph.stack_bounded` (generic, all chains, no bound on length): if the rank strictly decreases
  along every unguarded call edge, a goroutine stack with at most `D` guarded frames has at most
  `(D+1)·(R+1)` frames.  `CallGraph.unguarded_cycle_unbounded` is the converse: an unguarded cycle
  admits stacks of any length with the counter untouched.
* `gen_parser_ranked`, `gen_tokenizer_ranked`: on the call graphs re-extracted from today's source
  the ranking certificate produced by the extractor is valid, i.e. **every cycle of the parser's
  call graph contains a depth-guarded call site** and the tokenizer has no recursion cycle at all.
* `parser_stack_bounded`: the instantiation with `D = MaxRecursionDepth` read from the source.
* the limit constants equal the documented values.
The byte/token limit clauses are decided on the `Lex` model loop (Props/C02Lex when present) and by
boundary probes on the real code.
-/
namespace GoSQLXModel.Props.C02
open GoSQLXModel GoSQLXModel.CallGraph

/-- every unguarded edge of the parser's call graph strictly decreases the extracted rank:
    no cycle without a depth guard -/
theorem gen_parser_ranked : checkRanking Gen.parserEdges Gen.parserRank = [] := by decide +kernel

/-- the tokenizer's call graph has no cycle at all (no edge is guarded there) -/
theorem gen_tokenizer_ranked : checkRanking Gen.tokenizerEdges Gen.tokenizerRank = [] := by decide +kernel

/-- the depth counter that enforces the limit is kept with `defer` at every counting production: whatever operand of
    whatever operator the nesting sits in, a level entered is counted until it is left (regenerated; the harness nests
    through the right and the left operand of every binary operator and through every later argument, element, arm and bound) -/
theorem gen_depth_counted_until_left : Gen.parserDepthIncs.all (·.2) = true ∧ Gen.parserDepthIncs.length ≥ 3 := by decide +kernel

theorem limits_documented :
    Gen.limitMaxInputSize = 10 * 1024 * 1024 ∧ Gen.limitMaxTokens = 1000000 ∧ Gen.limitMaxRecursionDepth = 100 := by
  decide

/-- **C02 (stack clause)**: any chain of parser frames whose guarded call sites number at most the
    recursion limit (the counter is checked before any further call) has bounded length,
    whatever the input. -/
theorem parser_stack_bounded (p : List Edge) (s : String) (hc : Chain s p)
    (hmem : ∀ e ∈ p, e ∈ Gen.parserEdges) (hD : guardedCount p ≤ Gen.limitMaxRecursionDepth) :
    p.length ≤ (Gen.limitMaxRecursionDepth + 1) * (maxRank Gen.parserRank + 1) :=
  stack_bounded Gen.parserEdges Gen.parserRank gen_parser_ranked p s hc hmem _ hD

/-- the tokenizer never nests deeper than its (acyclic) call graph's height -/
theorem tokenizer_stack_bounded (p : List Edge) (s : String) (hc : Chain s p)
    (hmem : ∀ e ∈ p, e ∈ Gen.tokenizerEdges) (h0 : guardedCount p = 0) :
    p.length ≤ maxRank Gen.tokenizerRank + 1 := by
  have := stack_bounded Gen.tokenizerEdges Gen.tokenizerRank gen_tokenizer_ranked p s hc hmem 0 (by omega)
  simpa using this

/-- non-vacuity: the guarded self-embedding through parseExpression is in the graph -/
example : ("parseExpression", "parseAndExpression", true) ∈ Gen.parserEdges := by decide +kernel
example : ("parsePrimaryExpression", "parseComparisonExpression", true) ∈ Gen.parserEdges := by decide +kernel

/-- sensitivity: a graph with an unguarded cycle is rejected whatever ranks are offered, and the
    cycle really yields unbounded stacks (the shape of the NOT-chain / derived-table defects
    repaired by the depth-guard fix) -/
example : checkRanking [("prim", "cmp", false), ("cmp", "prim", false)] [("prim", 1), ("cmp", 0)]
    = [("cmp", "prim", false)] := by decide

theorem not_chain_shape_unbounded (n : Nat) :
    ∃ p : List Edge, Chain "prim" p ∧ guardedCount p = 0 ∧ n ≤ p.length ∧
      ∀ e ∈ p, e ∈ [("prim", "cmp", false), ("cmp", "prim", false)] := by
  have h := unguarded_cycle_unbounded [("prim", "cmp", false), ("cmp", "prim", false)] "prim"
    (by simp [Chain]) (by simp [chainEnd]) (by simp) (by simp [guardedCount]) n
  refine ⟨_, h.1, h.2.1, h.2.2, ?_⟩
  intro e he
  induction n with
  | zero => simp [iter] at he
  | succ n ih =>
    simp only [iter, List.mem_append] at he
    rcases he with he | he
    · exact he
    · exact ih (unguarded_cycle_unbounded _ "prim" (by simp [Chain]) (by simp [chainEnd]) (by simp) (by simp [guardedCount]) n) he


/-! ### the token limit (tokenizer model `Model/Lex.lean`, tied to `Tokenizer.Tokenize` by the C04 correspondence) -/
open GoSQLXModel.Lex in
/-- **C02 (token clause, bound)**: whatever the input and the character classes, an accepted run returns at most
    1 000 000 tokens and the end marker — counted over the whole input, not per statement. -/
theorem token_count_is_bounded (cls : CharClass) (inp : Bytes) (out : List Tok) (cms : List Comment)
    (h : tokenize cls genLexTables inp = .ok out cms) : out.length ≤ 1000001 := by
  have := tokenize_bounded cls genLexTables inp out cms h
  have hm : genLexTables.maxTokens = 1000000 := by decide
  omega

open GoSQLXModel.Lex in
/-- **C02 (token clause, refusal)**: a text of the reference grammar with exactly `maxTokens` lexemes — wherever its
    semicolons stand — followed by anything that starts another token is refused with E1007, located at what follows. -/
theorem token_limit_refuses_reference_text (cls : CharClass) (tb : Tables) (hA : AsciiOK cls) (lead : List Piece)
    (items : List Item2) (tail : Bytes) (htail : stopB tail = true) (hne : tail ≠ []) (hlead : lead.all Piece.ok = true)
    (hok : seqOKT cls tb tail items = true) (hsize : (sepBytes lead ++ (flat2 items ++ tail)).length ≤ tb.maxInput)
    (hcount : items.length = tb.maxTokens) :
    tokenize cls tb (sepBytes lead ++ (flat2 items ++ tail)) =
      .err ⟨"E1007", .at ((sepBytes lead ++ (flat2 items ++ tail)).length - tail.length)⟩ :=
  token_limit_refuses cls tb hA lead items tail htail hne hlead hok hsize hcount

/-! ### the byte limit -/
open GoSQLXModel.Lex in
/-- **C02 (byte clause, refusal)**: every input longer than the documented 10 MiB — whatever it contains, under every
    character classification — is refused with the dedicated size error before any byte is read. -/
theorem byte_limit_refuses (cls : CharClass) (inp : Bytes) (h : inp.length > 10 * 1024 * 1024) :
    tokenize cls genLexTables inp = .err ⟨"E1006", .fixed⟩ := by
  have hm : genLexTables.maxInput = 10 * 1024 * 1024 := by decide
  simp only [tokenize, hm, h, if_true]

open GoSQLXModel.Lex in
/-- **C02 (byte clause, boundary)**: an input of at most — in particular of exactly — 10 MiB passes the size test and
    is handed to the tokenizer loop: whatever `tokenize` then answers is the loop's answer. -/
theorem byte_limit_boundary (cls : CharClass) (inp : Bytes) (h : inp.length ≤ 10 * 1024 * 1024) :
    tokenize cls genLexTables inp = lexLoop cls genLexTables inp (inp.length + 1) inp [] [] := by
  have hm : genLexTables.maxInput = 10 * 1024 * 1024 := by decide
  have hn : ¬ inp.length > genLexTables.maxInput := by omega
  simp only [tokenize, hn, if_false]

open GoSQLXModel.Lex in
/-- … and for every text of the reference grammar of exactly 10 MiB (and no more than the token limit) that answer is
    acceptance, with the tokens the text spells -/
theorem reference_text_at_byte_limit_accepted (cls : CharClass) (hA : AsciiOK cls) (lead : List Piece) (items : List Item2)
    (hlead : lead.all Piece.ok = true) (hok : seqOK cls genLexTables items = true)
    (hsize : (sepBytes lead ++ flat2 items).length = 10 * 1024 * 1024) (hcount : items.length ≤ 1000000) :
    ∃ toks cs, tokenize cls genLexTables (sepBytes lead ++ flat2 items) = .ok toks cs ∧
      toks.map Tok.key = (items.map fun it => it.1.key cls genLexTables) ++ [(0, [])] := by
  have hm : genLexTables.maxInput = 10 * 1024 * 1024 := by decide
  have ht : genLexTables.maxTokens = 1000000 := by decide
  obtain ⟨toks, cs, h1, h2, _⟩ := tokenize_spell2 cls genLexTables hA lead items hlead hok (by omega) (by omega)
  exact ⟨toks, cs, h1, h2⟩

/-- the same boundary with the limit set to 5: five bytes pass, six are refused whatever they are -/
example : (match Lex.tokenize .ascii { Lex.genLexTables with maxInput := 5 } [97, 32, 98, 32, 99] with | .ok out _ => out.length | _ => 0) = 4 ∧
    Lex.tokenize .ascii { Lex.genLexTables with maxInput := 5 } [97, 32, 98, 32, 99, 32] = .err ⟨"E1006", .fixed⟩ := by decide +kernel

/-- non-vacuity, with the limit set to 3: `a;b` are three lexemes in two statements, `;c` follows -/
def small : Lex.Tables := { Lex.genLexTables with maxTokens := 3 }
example : Lex.seqOKT .ascii small [59, 99] [(.word [97], []), (.op [59], []), (.word [98], [])] = true ∧ Lex.stopB [59, 99] = true := by
  decide +kernel
example : Lex.tokenize .ascii small [97, 59, 98, 59, 99] = .err ⟨"E1007", .at 3⟩ := by decide +kernel
example : (match Lex.tokenize .ascii small [97, 59, 98] with | .ok out _ => out.length | _ => 0) = 4 := by decide +kernel

end GoSQLXModel.Props.C02
