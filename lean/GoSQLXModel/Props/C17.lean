import GoSQLXModel.Proofs.LintLemmas
import GoSQLXModel.Gen.LintKeywords
/-!
# C17 — Linter flags exactly what it names; text rewriters keep meaning and converge

> Applying lint auto-fixes … yields text whose token sequence equals the original's except for the letter
> case of unquoted keywords … Applying the same fixes again changes nothing and re-linting reports no
> remaining violation of a rule whose fix was applied.

The five `Fix` functions are modelled statement by statement (`Model/Lint.lean`) and tied to the code by
byte-exact correspondence on every generated text.  Proved for **all** texts:
* `fixL001_idempotent`, `fixL002_idempotent`, `fixL010_idempotent` — the fixers converge (via the generic
  `map_fix_idempotent`: a per-line rewriter that introduces no line feed and is idempotent on lines makes an
  idempotent fixer; `split_join` / `join_split` are the Go `strings.Split`/`Join` round trips);
* `fixL001_relint_clean` — after L001 no line ends in a blank;
* `fixL010_local` — the rewriter leaves every stretch it regards as quoted byte-identical (`quotedOf`).
Full statement `tokens_preserved` (the lexer's token sequence is unchanged) is *not* proved: it is false for the
code as written whenever the fixers' per-line quote scan disagrees with the lexer (multi-line literals,
quotes in comments, backtick / dollar quoting) — `multiline_literal_counterexample` etc. exhibit that on the
model; those shapes are the listed known findings, and on texts without them the oracle demands exact
preservation.  L003 / L007 convergence is decided by the oracle only (partial).
-/
namespace GoSQLXModel.Props.C17
open GoSQLXModel GoSQLXModel.Lint

theorem fixL001_idempotent (s : List Char) : fixL001 (fixL001 s) = fixL001 s :=
  map_fix_idempotent trimRight trimRight_no_nl trimRight_idem s

theorem fixL002_idempotent (s : List Char) : fixL002 (fixL002 s) = fixL002 s :=
  map_fix_idempotent fixLineL002 fixLineL002_no_nl fixLineL002_idem s

theorem fixL010_idempotent (s : List Char) : fixL010 (fixL010 s) = fixL010 s :=
  map_fix_idempotent fixLineL010 fixLineL010_no_nl fixLineL010_idem s

/-- after L001 every line of the text ends in a non-blank character (or is empty) -/
theorem fixL001_relint_clean (s : List Char) :
    ∀ l ∈ splitLines (fixL001 s), ∀ c, l.getLast? = some c → isBlankChar c = false := by
  intro l hl c hc
  unfold fixL001 at hl
  have hno : ∀ l ∈ (splitLines s).map trimRight, '\n' ∉ l := by
    intro l hl
    obtain ⟨l0, hl0, rfl⟩ := List.mem_map.mp hl
    exact trimRight_no_nl l0 (splitLines_no_nl s l0 hl0)
  rw [split_join _ (by simp [splitLines_ne_nil]) hno] at hl
  obtain ⟨l0, _, rfl⟩ := List.mem_map.mp hl
  exact trimRight_last l0 c hc

/-- **fix_local (L010)** -/
theorem fixL010_local (l : List Char) (inS : Bool) (q : Char) (prev : Bool) :
    quotedOf inS q (collapseGo inS q prev l) = quotedOf inS q l := collapseGo_quoted l inS q prev

/-- the fixers never change the number of lines except L003 (they rewrite line by line) -/
theorem fixL010_line_count (s : List Char) : (splitLines (fixL010 s)).length = (splitLines s).length := by
  unfold fixL010
  have hno : ∀ l ∈ (splitLines s).map fixLineL010, '\n' ∉ l := by
    intro l hl
    obtain ⟨l0, hl0, rfl⟩ := List.mem_map.mp hl
    exact fixLineL010_no_nl l0 (splitLines_no_nl s l0 hl0)
  rw [split_join _ (by simp [splitLines_ne_nil]) hno]; simp

/-- non-vacuity -/
example : fixL010 "a  b   'c  d'  e".toList = "a b 'c  d' e".toList := by decide
example : fixL001 "a \t\nb  ".toList = "a\nb".toList := by decide
example : fixL002 "\t x\n  y".toList = "     x\n  y".toList := by decide

/-- known-finding shape: a literal that spans lines is rewritten because the quote state restarts per line -/
theorem multiline_literal_counterexample :
    fixL010 "x = 'a\nb  c'".toList = "x = 'a\nb c'".toList ∧
    fixL001 "x = 'a \nb'".toList = "x = 'a\nb'".toList ∧
    fixL007 CharClass.ascii ["SELECT".toList] true "x = 'a\nselect'".toList = "x = 'a\nSELECT'".toList := by decide

/-- known-finding shape: a quote inside a block comment flips the state for the rest of the line -/
theorem quote_in_comment_counterexample :
    fixL010 "/* it's */ 'a  b'  x".toList = "/* it's */ 'a b'  x".toList := by decide

end GoSQLXModel.Props.C17
