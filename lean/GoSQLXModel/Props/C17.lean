import GoSQLXModel.Proofs.LintLemmas
import GoSQLXModel.Proofs.LintOnlyBlanks
import GoSQLXModel.Gen.LintKeywords
import GoSQLXModel.Proofs.LintLex
import GoSQLXModel.Proofs.LintL003
import GoSQLXModel.Proofs.LintLex2
import GoSQLXModel.Model.LexGen
/-!
# C17 — Linter flags exactly what it names; text rewriters keep meaning and converge

> Applying lint auto-fixes … yields text whose token sequence equals the original's except for the letter
> case of unquoted keywords … Applying the same fixes again changes nothing and re-linting reports no
> remaining violation of a rule whose fix was applied.

The five `Fix` functions are modelled statement by statement (`Model/Lint.lean`) and tied to the code by
byte-exact correspondence on every generated text.  Proved for **all** texts:
* `fixL003_idempotent` (`Proofs/LintL003.lean`) — the blank-line fixer converges, for every classifier and every limit:
  after its first pass no run of blank lines exceeds the limit, so the trailing loop and a second pass change nothing;
* `fixL001_idempotent`, `fixL002_idempotent`, `fixL010_idempotent` — the fixers converge (via the generic
  `map_fix_idempotent`: a per-line rewriter that introduces no line feed and is idempotent on lines makes an
  idempotent fixer; `split_join` / `join_split` are the Go `strings.Split`/`Join` round trips);
* `fixL001_relint_clean` — after L001 no line ends in a blank;
* `fixL010_local` — the rewriter leaves every stretch it regards as quoted byte-identical (`quotedOf`).
* `whitespace_fixers_touch_only_blanks`, `whitespace_fixers_only_delete` (`Proofs/LintOnlyBlanks.lean`) — for **every**
  text, tame or not: the sequence of characters other than space and tab (line feeds included) is the same after L001,
  L002 and L010 as before, and L001 / L010 output is a subsequence of the input (they only delete).  So no fixer adds,
  drops or reorders a character of a word, number, operator, quote or comment marker, or changes the line structure;
  what remains for the token level is only *which blanks* go.
* `l001_keeps_tokens` (`Proofs/LintLex.lean`) — **the trailing-whitespace fixer against the tokenizer model**: for every
  *tame* text of C04's reference grammar (every lexeme on one line, comments on one line, a line comment not ending in a
  blank, blank runs written as one piece — any length, any mix of words, two-word keywords, numbers, operators, literals,
  quoted identifiers, comments), the fixed text is read by the tokenizer as the same sequence of (kind, value) pairs and
  the same comments.  The proof characterises the fixer without lines (`fixL001_eq_trimC`: a blank goes exactly when the
  trimmed remainder is empty or starts a line), pushes it through lexemes, blank runs and comments (`seq_trim`), shows the
  junction check still passes (a blank after a lexeme can only become a line end or the end of the text), and applies
  `tokenize_spell2` to both texts.
* `l002_keeps_tokens` (`Proofs/LintLex2.lean`) — the same for the mixed-indentation fixer: without lines it is a
  left-to-right pass with one bit of state (`fixL002_eq_expC`); through a tame text it only lengthens blank runs;
  `l001_then_l002_keep_tokens`: the output of L001 is again a tame reference text (`seq_trim` keeps shape and tameness), so the
  two fixers in the CLI's order keep the tokens.
The full statement `tokens_preserved` for *all* texts is *not* provable: it is false for the
code as written whenever the fixers' per-line quote scan disagrees with the lexer (multi-line literals,
quotes in comments, backtick / dollar quoting) — `multiline_literal_counterexample` etc. exhibit that on the
model; those shapes are the listed known findings, and on texts without them the oracle demands exact
preservation.  L007 convergence is decided by the oracle only (partial).
-/
namespace GoSQLXModel.Props.C17
open GoSQLXModel GoSQLXModel.Lint

theorem fixL001_idempotent (s : List Char) : fixL001 (fixL001 s) = fixL001 s :=
  map_fix_idempotent trimRight trimRight_no_nl trimRight_idem s

theorem fixL002_idempotent (s : List Char) : fixL002 (fixL002 s) = fixL002 s :=
  map_fix_idempotent fixLineL002 fixLineL002_no_nl fixLineL002_idem s

theorem fixL003_idempotent (cls : CharClass) (max : Nat) (s : List Char) :
    fixL003 cls max (fixL003 cls max s) = fixL003 cls max s :=
  Lint.fixL003_idempotent cls max s

example : fixL003 .ascii 1 "a\n\n\n \n\nb\n\n\n".toList = "a\n\nb\n".toList := by decide +kernel

theorem fixL010_idempotent (s : List Char) : fixL010 (fixL010 s) = fixL010 s :=
  map_fix_idempotent fixLineL010 fixLineL010_no_nl fixLineL010_idem s

/-- after L001 every line of the text ends in a non-blank character (or is empty) -/
theorem fixL001_relint_clean (s : List Char) :
    ∀ l ∈ splitLines (fixL001 s), ∀ c, l.getLast? = some c → isBlankChar c = false := by
  intro l hl c hc
  unfold fixL001 at hl
  have hno : ∀ l ∈ (splitLines s).map trimRight, '\n' ∉ l := by
    intro l hl
    obtain ⟨l0, hl0, rfl⟩ := List.mem_map.mp hl
    exact trimRight_no_nl l0 (splitLines_no_nl s l0 hl0)
  rw [split_join _ (by simp [splitLines_ne_nil]) hno] at hl
  obtain ⟨l0, _, rfl⟩ := List.mem_map.mp hl
  exact trimRight_last l0 c hc

/-- **fix_local (L010)** -/
theorem fixL010_local (l : List Char) (inS : Bool) (q : Char) (prev : Bool) :
    quotedOf inS q (collapseGo inS q prev l) = quotedOf inS q l := collapseGo_quoted l inS q prev

/-- the fixers never change the number of lines except L003 (they rewrite line by line) -/
theorem fixL010_line_count (s : List Char) : (splitLines (fixL010 s)).length = (splitLines s).length := by
  unfold fixL010
  have hno : ∀ l ∈ (splitLines s).map fixLineL010, '\n' ∉ l := by
    intro l hl
    obtain ⟨l0, hl0, rfl⟩ := List.mem_map.mp hl
    exact fixLineL010_no_nl l0 (splitLines_no_nl s l0 hl0)
  rw [split_join _ (by simp [splitLines_ne_nil]) hno]; simp

/-- no operator of today's table contains a blank or a line end (side condition of `l001_keeps_tokens`) -/
theorem gen_ops_no_ws : Lex.opsNoWS Lex.genLexTables = true := by decide +kernel

/-- **C17 (L001 keeps the tokens)** at today's tables, for every classifier that treats ASCII as the reference surface
    assumes (the Go classifier does: `Props.C04.go_class_ascii_ok`) -/
theorem l001_keeps_tokens (cls : CharClass) (hA : Lex.AsciiOK cls) (lead : List Lex.Piece) (items : List Lex.Item2)
    (hlead : lead.all Lex.Piece.ok = true) (hleadT : lead.all Lex.Piece.tame = true) (hleadN : Lex.sepNorm lead = true)
    (hok : Lex.seqOK cls Lex.genLexTables items = true) (htame : Lex.tameSeq cls Lex.genLexTables items = true)
    (hsize : (Lex.sepBytes lead ++ Lex.flat2 items).length ≤ Lex.genLexTables.maxInput)
    (hcount : items.length ≤ Lex.genLexTables.maxTokens) :
    ∃ toks cs toks' cs', Lex.tokenize cls Lex.genLexTables (Lex.sepBytes lead ++ Lex.flat2 items) = .ok toks cs ∧
      Lex.tokenize cls Lex.genLexTables (Lex.asBytes (fixL001 (Lex.asChars (Lex.sepBytes lead ++ Lex.flat2 items)))) = .ok toks' cs' ∧
      toks'.map Lex.Tok.key = toks.map Lex.Tok.key ∧ cs'.map Lex.Comment.key = cs.map Lex.Comment.key :=
  Lex.fixL001_keeps_tokens cls Lex.genLexTables hA gen_ops_no_ws lead items hlead hleadT hleadN hok htame hsize hcount

/-- **C17 (L002 keeps the tokens)** -/
theorem l002_keeps_tokens (cls : CharClass) (hA : Lex.AsciiOK cls) (lead : List Lex.Piece) (items : List Lex.Item2)
    (hlead : lead.all Lex.Piece.ok = true) (hleadT : lead.all Lex.Piece.tame = true)
    (hok : Lex.seqOK cls Lex.genLexTables items = true) (htame : Lex.tameSeq cls Lex.genLexTables items = true)
    (hsize : 4 * (Lex.sepBytes lead ++ Lex.flat2 items).length ≤ Lex.genLexTables.maxInput)
    (hcount : items.length ≤ Lex.genLexTables.maxTokens) :
    ∃ toks cs toks' cs', Lex.tokenize cls Lex.genLexTables (Lex.sepBytes lead ++ Lex.flat2 items) = .ok toks cs ∧
      Lex.tokenize cls Lex.genLexTables (Lex.asBytes (fixL002 (Lex.asChars (Lex.sepBytes lead ++ Lex.flat2 items)))) = .ok toks' cs' ∧
      toks'.map Lex.Tok.key = toks.map Lex.Tok.key ∧ cs'.map Lex.Comment.key = cs.map Lex.Comment.key :=
  Lex.fixL002_keeps_tokens cls Lex.genLexTables hA gen_ops_no_ws lead items hlead hleadT hok htame hsize hcount

/-- **C17 (the first two fixers in the CLI's order keep the tokens)** -/
theorem l001_then_l002_keep_tokens (cls : CharClass) (hA : Lex.AsciiOK cls) (lead : List Lex.Piece) (items : List Lex.Item2)
    (hlead : lead.all Lex.Piece.ok = true) (hleadT : lead.all Lex.Piece.tame = true) (hleadN : Lex.sepNorm lead = true)
    (hok : Lex.seqOK cls Lex.genLexTables items = true) (htame : Lex.tameSeq cls Lex.genLexTables items = true)
    (hsize : 4 * (Lex.sepBytes lead ++ Lex.flat2 items).length ≤ Lex.genLexTables.maxInput)
    (hcount : items.length ≤ Lex.genLexTables.maxTokens) :
    ∃ toks cs toks' cs', Lex.tokenize cls Lex.genLexTables (Lex.sepBytes lead ++ Lex.flat2 items) = .ok toks cs ∧
      Lex.tokenize cls Lex.genLexTables (Lex.asBytes (fixL002 (fixL001 (Lex.asChars (Lex.sepBytes lead ++ Lex.flat2 items))))) = .ok toks' cs' ∧
      toks'.map Lex.Tok.key = toks.map Lex.Tok.key ∧ cs'.map Lex.Comment.key = cs.map Lex.Comment.key :=
  Lex.fixL001_then_L002_keeps_tokens cls Lex.genLexTables hA gen_ops_no_ws lead items hlead hleadT hleadN hok htame hsize hcount

/-- non-vacuity: a text with trailing blanks after code, after a literal that contains blanks, on a blank line and at the
    end; the fixer changes it, the hypotheses hold -/
def l001Lead : List Lex.Piece := [.blanks [32, 32, 10]]
def l001Items : List Lex.Item2 :=
  [(.word (Lex.strBytes "select"), [.blanks [32, 32]]), (.str [.ch 97, .ch 32, .ch 32], [.blanks [32, 9, 10, 32, 10, 32, 32]]),
   (.word (Lex.strBytes "from"), [.blanks [32]]), (.word (Lex.strBytes "t"), [.blanks [32], .line (Lex.strBytes " c"), .blanks [32, 32]]),
   (.op [59], [.blanks [9, 32]])]
example : l001Lead.all Lex.Piece.ok = true ∧ l001Lead.all Lex.Piece.tame = true ∧ Lex.sepNorm l001Lead = true ∧
    Lex.seqOK .ascii Lex.genLexTables l001Items = true ∧ Lex.tameSeq .ascii Lex.genLexTables l001Items = true := by decide +kernel
example : Lex.sepBytes l001Lead ++ Lex.flat2 l001Items = Lex.strBytes "  
select  'a  ' 	
 
  from t -- c
  ;	 " := by decide +kernel
example : Lex.asBytes (fixL001 (Lex.asChars (Lex.sepBytes l001Lead ++ Lex.flat2 l001Items))) =
    Lex.strBytes "
select  'a  '

  from t -- c
  ;" := by decide +kernel

example : Lex.asBytes (fixL002 (Lex.asChars (Lex.sepBytes l001Lead ++ Lex.flat2 l001Items))) =
    Lex.strBytes "  \nselect  'a  ' \t\n \n  from t -- c\n  ;\t " := by decide +kernel
example : Lex.asBytes (fixL002 (Lex.asChars (Lex.strBytes "\t a\tb\n \t\tc"))) = Lex.strBytes "     a\tb\n         c" := by decide +kernel

/-- non-vacuity -/
example : fixL010 "a  b   'c  d'  e".toList = "a b 'c  d' e".toList := by decide
example : fixL001 "a \t\nb  ".toList = "a\nb".toList := by decide
example : fixL002 "\t x\n  y".toList = "     x\n  y".toList := by decide

/-- known-finding shape: a literal that spans lines is rewritten because the quote state restarts per line -/
theorem multiline_literal_counterexample :
    fixL010 "x = 'a\nb  c'".toList = "x = 'a\nb c'".toList ∧
    fixL001 "x = 'a \nb'".toList = "x = 'a\nb'".toList ∧
    fixL007 CharClass.ascii ["SELECT".toList] true "x = 'a\nselect'".toList = "x = 'a\nSELECT'".toList := by decide

/-- known-finding shape: a quote inside a block comment flips the state for the rest of the line -/
theorem quote_in_comment_counterexample :
    fixL010 "/* it's */ 'a  b'  x".toList = "/* it's */ 'a b'  x".toList := by decide

theorem whitespace_fixers_touch_only_blanks (s : List Char) :
    (fixL001 s).filter nonBlank = s.filter nonBlank ∧ (fixL002 s).filter nonBlank = s.filter nonBlank ∧
    (fixL010 s).filter nonBlank = s.filter nonBlank :=
  ⟨fixL001_keeps_nonblanks s, fixL002_keeps_nonblanks s, fixL010_keeps_nonblanks s⟩

theorem whitespace_fixers_only_delete (s : List Char) : (fixL001 s).Sublist s ∧ (fixL010 s).Sublist s :=
  ⟨fixL001_sublist s, fixL010_sublist s⟩

/-- non-vacuity: blanks go, everything else (quotes, line feeds, comment markers) stays in order -/
example : (fixL010 "a  b -- c  d \n 'x  y'  z".toList).filter nonBlank = "ab--cd\n'xy'z".toList := by decide

end GoSQLXModel.Props.C17
