import GoSQLXModel.Model.Scan
import GoSQLXModel.Proofs.ScanThreshold
import GoSQLXModel.Props.C14
import GoSQLXModel.Gen.ScanTables
/-!
# C16 — The injection scanner detects its patterns in every clause, at the documented severity

> Scanning a parsed tree reports every documented injection pattern (always-true conditions,
> OR-with-tautology, time-delay and dangerous functions, UNION NULL probing, …) with its documented class and
> severity wherever in the statement it occurs — nested sub-queries, CTEs, HAVING, JOIN conditions, set-operation
> arms, later statements of a script —, the minimum-severity threshold filters exactly the findings below it, and
> the counts agree with the list.

* `Scan.context_closed` (Model/Scan.lean), instantiated here at the Children() table and name tables extracted
  from today's source: for every tree covered by the table, a payload node anywhere in the tree contributes its
  findings.  Coverage of parser-produced trees is C14's obligation (`Props.C14.gen_children_complete_partial`),
  so the C14 known findings (WindowFrame bounds) are exactly the positions this theorem does not reach.
* `Scan.threshold`, `Scan.counts_consistent`: threshold filtering and counters, for every tree.
* `threshold_only_removes`, `nothing_below_threshold`, `threshold_applied_twice`, `counters_below_threshold_zero`
  (Proofs/ScanThreshold.lean): raising the threshold yields a sublist — same order, nothing added — of the result
  under any lower one; no reported finding ranks below the threshold; filtering a result again equals scanning with
  the higher threshold; the counter of every severity below the threshold is zero.
* table obligations (regenerated): the node types the Inspect callback dispatches on are the ones the model
  checks, the callback never prunes, every `Finding` literal of the checks has the documented (pattern, severity)
  and is appended under `shouldInclude`, `severityOrder` is strictly LOW < MEDIUM < HIGH < CRITICAL, and the
  documented function names are present in the tables.
-/
namespace GoSQLXModel.Props.C16
open GoSQLXModel GoSQLXModel.Scan

def genCfg : Cfg :=
  { timeFuncs := Gen.Scan.timeBasedFuncs, dangerousFuncs := Gen.Scan.dangerousFuncs,
    sysPrefixes := Gen.Scan.systemTablePrefixes, sysNames := Gen.Scan.systemTableNames }

/-- the scanner's traversal: today's Children() table plus the explicit descents of its callback -/
def genScanChildren : ChildrenTbl := scanChildren Gen.childrenTable Gen.Scan.extraDescents
def genTable : ChildTable := fun ty => ChildrenTbl.get genScanChildren ty

/-! ## obligations on the regenerated tables -/

/-- the callback dispatches on exactly the node kinds `findingsAt` inspects, and always descends -/
theorem gen_dispatch : Gen.Scan.dispatch = ["BinaryExpression", "FunctionCall", "SetOperation", "WindowFrame"] ∧
    Gen.Scan.descends = true := by decide +kernel

/-- each explicit descent `e.<head>.<rest>` enters a Node-typed field whose only node-holding field is `<rest>` -/
def descentOk (ty : String) (d : String × String) : Bool :=
  match (Schema.fieldsOf Gen.astSchema ty).find? (fun f => f.1 == d.1) with
  | some (_, elem, _, _) =>
    Schema.isNode Gen.astSchema elem &&
    ((Schema.fieldsOf Gen.astSchema elem).filter (Schema.nodeHolding Gen.astSchema (Gen.astSchema.length + 1))).all (·.1 == d.2)
  | none => false

theorem gen_extra_descents_cover :
    (Gen.Scan.extraDescents.all fun e => e.2.all (descentOk e.1)) = true := by decide +kernel

/-- offenders of the *scanner's* traversal among the (type, field) pairs the parser can populate -/
def scanOffenders : List (String × String) :=
  (childOffenders Gen.astSchema genScanChildren).filter fun o =>
    Gen.producedTypes.contains o.1 && Gen.parserAssigned.contains o

/-- **full coverage, no allowance**: every node-holding field the parser can populate is reached by the scanner
    (the C14 known findings for WindowFrame are closed by the explicit descents) -/
theorem gen_scan_traversal_complete : scanOffenders = [] := by decide +kernel

/-- the Finding literals of the four checks: documented class and severity, each appended under the threshold test -/
theorem gen_sites : Gen.Scan.sites =
    [("checkBinaryExpression", "TAUTOLOGY", "CRITICAL", true),
     ("checkFunctionCall", "TIME_BASED", "HIGH", true),
     ("checkFunctionCall", "OUT_OF_BAND", "CRITICAL", true),
     ("checkOrInjection", "TAUTOLOGY", "CRITICAL", true),
     ("checkOrInjection", "TAUTOLOGY", "CRITICAL", true),
     ("checkUnionInjection", "UNION_BASED", "HIGH", true),
     ("checkUnionInjection", "UNION_BASED", "CRITICAL", true)] := by decide +kernel

/-- severityOrder is the strict chain the model's `Sev.rank` encodes -/
theorem gen_severity_order :
    Gen.Scan.severityOrder.map (·.1) = ["LOW", "MEDIUM", "HIGH", "CRITICAL"] ∧
    (Gen.Scan.severityOrder.map (·.2)).Pairwise (· < ·) := by decide +kernel

/-- the documented time-delay and dangerous functions are in the tables -/
theorem gen_documented_functions :
    (["SLEEP", "PG_SLEEP", "BENCHMARK", "WAITFOR"].all Gen.Scan.timeBasedFuncs.contains) = true ∧
    (["LOAD_FILE", "XP_CMDSHELL", "SP_OACREATE", "UTL_HTTP", "DBMS_LDAP", "EXEC", "SP_EXECUTESQL"].all
        Gen.Scan.dangerousFuncs.contains) = true ∧
    (["information_schema.", "pg_catalog.", "mysql.", "sys.", "sqlite_"].all Gen.Scan.systemTablePrefixes.contains) = true := by
  decide +kernel

/-! ## the property, at today's tables -/

/-- **C16 (position-independence)** — any payload node anywhere in a covered tree contributes its findings -/
theorem payload_found_everywhere (cls : CharClass) (min : Sev) (tree payload : Val) (f : Finding)
    (hcov : tree.covered genTable none = true) (hin : payload ∈ tree.nodeVals)
    (hf : f ∈ findingsAt cls genCfg payload) (hs : keep min f = true) :
    f ∈ scan cls genCfg genTable min tree :=
  Scan.context_closed cls genCfg genTable min tree payload f hcov hin hf hs

/-- **C16 (threshold)** -/
theorem threshold_filters (cls : CharClass) (min : Sev) (tree : Val) :
    scan cls genCfg genTable min tree = (scan cls genCfg genTable .low tree).filter (keep min) :=
  Scan.threshold cls genCfg genTable min tree

/-- **C16 (counts)** -/
theorem counts_agree (cls : CharClass) (min : Sev) (tree : Val) :
    let fs := scan cls genCfg genTable min tree
    (counts fs).total = fs.length ∧
    (counts fs).critical + (counts fs).high + (counts fs).medium + (counts fs).low = fs.length :=
  Scan.counts_consistent _

/-- nothing is reported that no visited node produces -/
theorem nothing_invented (cls : CharClass) (min : Sev) (tree : Val) (f : Finding)
    (h : f ∈ scan cls genCfg genTable min tree) : ∃ n ∈ tree.walkVals genTable none, f ∈ findingsAt cls genCfg n :=
  Scan.scan_sound cls genCfg genTable min tree f h

/-! ## the documented payloads produce their documented findings (ASCII classifier) -/

def lit (v : String) : Val := .node "LiteralValue" (.cons "Value" (.str v) (.cons "Type" (.str "int") .nil))
def ident (n : String) : Val := .node "Identifier" (.cons "Name" (.str n) .nil)
def bin (op : String) (l r : Val) : Val :=
  .node "BinaryExpression" (.cons "Left" l (.cons "Operator" (.str op) (.cons "Right" r .nil)))
def call (name : String) (args : Vals) : Val :=
  .node "FunctionCall" (.cons "Name" (.str name) (.cons "Arguments" (.list args) .nil))

theorem payload_tautology : findingsAt .ascii genCfg (bin "=" (lit "1") (lit "1")) = [⟨"TAUTOLOGY", .critical⟩] := by
  decide +kernel
theorem payload_ident_tautology : findingsAt .ascii genCfg (bin "=" (ident "x") (ident "x")) = [⟨"TAUTOLOGY", .critical⟩] := by
  decide +kernel
theorem payload_or_tautology :
    findingsAt .ascii genCfg (bin "or" (bin "=" (ident "id") (lit "5")) (bin "=" (lit "1") (lit "1"))) =
      [⟨"TAUTOLOGY", .critical⟩] := by decide +kernel
theorem payload_sleep : findingsAt .ascii genCfg (call "pg_sleep" (.cons (lit "5") .nil)) = [⟨"TIME_BASED", .high⟩] := by
  decide +kernel
theorem payload_dangerous : findingsAt .ascii genCfg (call "Xp_CmdShell" .nil) = [⟨"OUT_OF_BAND", .critical⟩] := by
  decide +kernel
theorem payload_union_null :
    findingsAt .ascii genCfg (.node "SetOperation" (.cons "Operator" (.str "UNION")
      (.cons "Right" (.node "SelectStatement" (.cons "Columns" (.list (.cons
        (.node "LiteralValue" (.cons "Value" .nil (.cons "Type" (.str "null") .nil)))
        (.cons (.node "LiteralValue" (.cons "Value" .nil (.cons "Type" (.str "null") .nil))) .nil))) .nil)) .nil))) =
      [⟨"UNION_BASED", .high⟩] := by decide +kernel
theorem benign_silent : findingsAt .ascii genCfg (bin "=" (ident "c") (lit "4")) = [] := by decide +kernel

/-- non-vacuity: a tautology inside an EXISTS sub-query of a HAVING clause, found with its severity at every
    threshold (the tree is covered by today's table) -/
def framed : Val :=
  .node "WindowSpec" (.cons "FrameClause" (.node "WindowFrame" (.cons "Type" (.str "ROWS")
    (.cons "Start" (.node "WindowFrameBound" (.cons "Type" (.str "PRECEDING")
      (.cons "Value" (call "SLEEP" (.cons (lit "5") .nil)) .nil))) (.cons "End" .nil .nil)))) .nil)
example : framed.covered genTable none = true ∧
    scan .ascii genCfg genTable .high framed = [⟨"TIME_BASED", .high⟩] := by decide +kernel

def nested : Val :=
  .node "SelectStatement" (.cons "Having" (.node "ExistsExpression" (.cons "Subquery"
    (.node "SelectStatement" (.cons "Where" (bin "=" (lit "1") (lit "1")) .nil)) .nil)) .nil)

example : nested.covered genTable none = true := by decide +kernel
example : scan .ascii genCfg genTable .critical nested = [⟨"TAUTOLOGY", .critical⟩] := by decide +kernel

theorem threshold_only_removes (cls : CharClass) (a b : Sev) (tree : Val) (h : a.rank ≤ b.rank) :
    (scan cls genCfg genTable b tree).Sublist (scan cls genCfg genTable a tree) := threshold_mono cls genCfg genTable a b tree h

theorem nothing_below_threshold (cls : CharClass) (min : Sev) (tree : Val) :
    ∀ f ∈ scan cls genCfg genTable min tree, min.rank ≤ f.sev.rank := scan_min_rank cls genCfg genTable min tree

theorem threshold_applied_twice (cls : CharClass) (a b : Sev) (tree : Val) (h : a.rank ≤ b.rank) :
    (scan cls genCfg genTable a tree).filter (keep b) = scan cls genCfg genTable b tree :=
  threshold_twice cls genCfg genTable a b tree h

theorem counters_below_threshold_zero (cls : CharClass) (min s : Sev) (tree : Val) (h : s.rank < min.rank) :
    ((scan cls genCfg genTable min tree).filter (·.sev == s)).length = 0 :=
  counts_below_zero cls genCfg genTable min s tree h

end GoSQLXModel.Props.C16
