import GoSQLXModel.Model.ExtractGen
import GoSQLXModel.Gen.Produced
import GoSQLXModel.Gen.Known
/-!
# C15 — Extracted tables, columns and functions are exactly those referenced

> For every parsed statement the extracted table set equals the set of names written in table positions anywhere in
> it (…) and likewise the column and function sets equal the column references and function calls written. Aliases,
> internally synthesised names, string contents and keywords never appear, results are duplicate-free, and they do
> not depend on layout or on the order of clauses.

The five collectors are *regenerated* from extract.go (`Gen/ExtractTables.lean`: per type-switch case the fields
recorded, the guard text, the starts and the followed fields of the explicit expression walk, and whether the
Children() recursion closes the function) and run by `Extract.mkCollector`.

* `Extract.Collector.run_exact` / `mkCollector_exact` (Model/Extract.lean): for every tree covered by the Children()
  table the result is, as a set, `⋃ { records at n | n node of the tree }` — every position, every nesting depth; and
  `run_sound` without any hypothesis: never a name that no node of the tree records.
* obligations on today's tables: the recursion through Children() is present in all five; what the expression walk
  records at a node type the node-level case records too (the hypothesis of exactness; false for ExtractFunctions
  before the repair); the table collectors read exactly the table positions of the AST — never `JoinClause.Left`
  (the synthetic `(x_with_n_joins)` name) nor any `Alias`; every TableReference-typed field of a parser-built node is
  either such a position or that known non-position; columns are the `Identifier` names, functions the `FunctionCall`
  names, with the documented guards.
* Coverage of parser-built trees is C14's obligation; its known findings (WindowFrame bounds) are exactly the positions
  these theorems do not reach (`frame_bound_counterexample`), listed as known findings of C15 too.
-/
namespace GoSQLXModel.Props.C15
open GoSQLXModel GoSQLXModel.Extract

/-! ## obligations on the regenerated collector tables -/

/-- each collectFromNode ends by recursing into Children() -/
theorem gen_recurses :
    Gen.Extract.tableCollector_recurses = true ∧ Gen.Extract.qualifiedTableCollector_recurses = true ∧
    Gen.Extract.columnCollector_recurses = true ∧ Gen.Extract.qualifiedColumnCollector_recurses = true ∧
    Gen.Extract.functionCollector_recurses = true := by decide +kernel

/-- the explicit expression walk records nothing the node-level case of the same type does not record -/
theorem gen_expr_covered :
    exprRecordsCovered Gen.Extract.tableCollector_node Gen.Extract.tableCollector_expr = true ∧
    exprRecordsCovered Gen.Extract.qualifiedTableCollector_node Gen.Extract.qualifiedTableCollector_expr = true ∧
    exprRecordsCovered Gen.Extract.columnCollector_node Gen.Extract.columnCollector_expr = true ∧
    exprRecordsCovered Gen.Extract.qualifiedColumnCollector_node Gen.Extract.qualifiedColumnCollector_expr = true ∧
    exprRecordsCovered Gen.Extract.functionCollector_node Gen.Extract.functionCollector_expr = true := by
  decide +kernel

/-- the table positions of the AST: FROM items, join right sides, DML targets, USING, MERGE target and source -/
def tablePositions : List (String × List (List String)) :=
  [("SelectStatement", [["From", "Name"], ["Joins", "Right", "Name"]]),
   ("InsertStatement", [["TableName"]]),
   ("UpdateStatement", [["TableName"], ["From", "Name"]]),
   ("MergeStatement", [["TargetTable", "Name"], ["SourceTable", "Name"]]),
   ("DeleteStatement", [["TableName"], ["Using", "Name"]])]

def readsOf (cases : List Case) : List (String × List (List String)) :=
  cases.map fun c => (c.1, c.2.1.flatMap id)

/-- both table collectors read exactly the table positions (so: never JoinClause.Left, never an Alias), each
    under a non-empty guard -/
theorem gen_table_reads :
    readsOf Gen.Extract.tableCollector_node = tablePositions ∧
    readsOf Gen.Extract.qualifiedTableCollector_node = tablePositions ∧
    (Gen.Extract.tableCollector_node.all fun c => c.2.2.1.all fun g => g.endsWith " != \"\"") = true ∧
    (Gen.Extract.qualifiedTableCollector_node.all fun c => c.2.2.1.all fun g => g.endsWith " != \"\"") = true := by
  decide +kernel

/-- TableReference-typed fields of node types the parser builds -/
def trefFields : List (String × String) :=
  Gen.astSchema.flatMap fun (ty, _, fs) =>
    if Gen.producedTypes.contains ty then
      (fs.filter fun f => f.2.1 == "TableReference").map fun f => (ty, f.1)
    else []

/-- every such field is a table position, except the join's left side (it repeats the FROM item or carries the
    synthetic name) -/
theorem gen_tref_fields_classified :
    (trefFields.all fun tf =>
      tf == ("JoinClause", "Left") ||
      (tf.1 == "JoinClause" && tf.2 == "Right") ||
      tablePositions.any fun p => p.1 == tf.1 && p.2.any fun path => path.head? == some tf.2) = true := by
  decide +kernel

/-- columns are Identifier names (not `*`), functions are FunctionCall names, with the documented guards -/
theorem gen_name_records :
    ((Gen.Extract.columnCollector_node.filter fun c => !c.2.1.isEmpty) ==
      [("Identifier", [[["Name"]]], ["n.Name != \"\" && n.Name != \"*\""], [])]) = true ∧
    ((Gen.Extract.qualifiedColumnCollector_node.filter fun c => !c.2.1.isEmpty) ==
      [("Identifier", [[["Table"], ["Name"]]], ["n.Name != \"\" && n.Name != \"*\""], [])]) = true ∧
    ((Gen.Extract.functionCollector_node.filter fun c => !c.2.1.isEmpty) ==
      [("FunctionCall", [[["Name"]]], ["n.Name != \"\""], [])]) = true := by decide +kernel

/-! ## the property at today's tables -/

/-- **C15 (tables)**: for every covered tree, exactly the names at table positions of its nodes -/
theorem tables_exact (tree : Val) (hcov : tree.covered genChildren none = true) (x : List String) :
    x ∈ extractTables tree ↔ x ∈ tree.nodeVals.flatMap (recordsAt Gen.Extract.tableCollector_node guardNonEmpty) :=
  mkCollector_exact _ _ _ _ genChildren tree gen_expr_covered.1 hcov x

theorem tables_qualified_exact (tree : Val) (hcov : tree.covered genChildren none = true) (x : List String) :
    x ∈ extractTablesQualified tree ↔
      ∃ y ∈ tree.nodeVals.flatMap (recordsAt Gen.Extract.qualifiedTableCollector_node guardNonEmpty),
        splitQualified (y.headD "") = x := by
  unfold extractTablesQualified
  rw [mem_dedup, List.mem_map]
  constructor
  · rintro ⟨y, hy, rfl⟩
    exact ⟨y, (mkCollector_exact _ _ _ _ genChildren tree gen_expr_covered.2.1 hcov y).1 hy, rfl⟩
  · rintro ⟨y, hy, rfl⟩
    exact ⟨y, (mkCollector_exact _ _ _ _ genChildren tree gen_expr_covered.2.1 hcov y).2 hy, rfl⟩

/-- **C15 (columns)** -/
theorem columns_exact (tree : Val) (hcov : tree.covered genChildren none = true) (x : List String) :
    x ∈ extractColumns tree ↔ x ∈ tree.nodeVals.flatMap (recordsAt Gen.Extract.columnCollector_node guardColumn) :=
  mkCollector_exact _ _ _ _ genChildren tree gen_expr_covered.2.2.1 hcov x

theorem columns_qualified_exact (tree : Val) (hcov : tree.covered genChildren none = true) (x : List String) :
    x ∈ extractColumnsQualified tree ↔
      x ∈ tree.nodeVals.flatMap (recordsAt Gen.Extract.qualifiedColumnCollector_node guardColumn) :=
  mkCollector_exact _ _ _ _ genChildren tree gen_expr_covered.2.2.2.1 hcov x

/-- **C15 (functions)** -/
theorem functions_exact (tree : Val) (hcov : tree.covered genChildren none = true) (x : List String) :
    x ∈ extractFunctions tree ↔ x ∈ tree.nodeVals.flatMap (recordsAt Gen.Extract.functionCollector_node guardNonEmpty) :=
  mkCollector_exact _ _ _ _ genChildren tree gen_expr_covered.2.2.2.2 hcov x

/-- **C15 (nothing extra)**, for every tree, covered or not: a reported name is recorded at some node of the tree -/
theorem nothing_extra (tree : Val) :
    (∀ x ∈ extractTables tree, x ∈ tree.nodeVals.flatMap (recordsAt Gen.Extract.tableCollector_node guardNonEmpty)) ∧
    (∀ x ∈ extractColumns tree, x ∈ tree.nodeVals.flatMap (recordsAt Gen.Extract.columnCollector_node guardColumn)) ∧
    (∀ x ∈ extractFunctions tree, x ∈ tree.nodeVals.flatMap (recordsAt Gen.Extract.functionCollector_node guardNonEmpty)) :=
  ⟨fun x hx => mkCollector_sound _ _ _ _ genChildren tree gen_expr_covered.1 x hx,
   fun x hx => mkCollector_sound _ _ _ _ genChildren tree gen_expr_covered.2.2.1 x hx,
   fun x hx => mkCollector_sound _ _ _ _ genChildren tree gen_expr_covered.2.2.2.2 x hx⟩

/-- **C15 (duplicate-free)** -/
theorem results_nodup (tree : Val) :
    (extractTables tree).Nodup ∧ (extractTablesQualified tree).Nodup ∧ (extractColumns tree).Nodup ∧
    (extractColumnsQualified tree).Nodup ∧ (extractFunctions tree).Nodup :=
  ⟨nodup_dedup _, nodup_dedup _, nodup_dedup _, nodup_dedup _, nodup_dedup _⟩

/-! ## what the records are -/

/-- a column is recorded only at Identifier nodes, a function only at FunctionCall nodes -/
theorem column_records_only_at_identifiers (ty : String) (fs : Fields) (h : ty ≠ "Identifier") :
    recordsAt Gen.Extract.columnCollector_node guardColumn (.node ty fs) = [] := by
  simp [recordsAt, Gen.Extract.columnCollector_node, isNodeTy]
  intro e; exact absurd e h

theorem function_records_only_at_calls (ty : String) (fs : Fields) (h : ty ≠ "FunctionCall") :
    recordsAt Gen.Extract.functionCollector_node guardNonEmpty (.node ty fs) = [] := by
  simp [recordsAt, Gen.Extract.functionCollector_node, isNodeTy]
  intro e; exact absurd e h

/-! ## non-vacuity and the known finding -/

def ident (n : String) : Val := .node "Identifier" (.cons "Table" (.str "") (.cons "Name" (.str n) .nil))
def tref (n al : String) : Val := .node "TableReference" (.cons "Name" (.str n) (.cons "Alias" (.str al) (.cons "Subquery" .nil .nil)))
def call (name : String) (args : Vals) : Val :=
  .node "FunctionCall" (.cons "Name" (.str name) (.cons "Arguments" (.list args) (.cons "Filter" .nil .nil)))

/-- SELECT a FROM t x JOIN s.u ON f(b) = 'lit' — with the synthetic left name the parser plants -/
def joined : Val :=
  .node "SelectStatement"
    (.cons "Columns" (.list (.cons (ident "a") .nil))
    (.cons "From" (.list (.cons (tref "t" "x") .nil))
    (.cons "Joins" (.list (.cons (.node "JoinClause"
        (.cons "Type" (.str "INNER")
        (.cons "Left" (tref "(t_with_1_joins)" "")
        (.cons "Right" (tref "s.u" "")
        (.cons "Condition" (.node "BinaryExpression"
          (.cons "Left" (call "f" (.cons (ident "b") .nil))
          (.cons "Operator" (.str "=")
          (.cons "Right" (.node "LiteralValue" (.cons "Value" (.str "lit") .nil)) .nil)))) .nil))))) .nil)) .nil)))

example : joined.covered genChildren none = true := by decide +kernel
example : extractTables joined = [["t"], ["s.u"]] ∧ extractColumns joined = [["a"], ["b"]] ∧
    extractFunctions joined = [["f"]] := by decide +kernel

/-- the C14 known finding, seen from extraction: a call in a frame bound is recorded by a node of the tree but is not
    extracted (the tree is not covered) -/
def framed : Val :=
  .node "WindowSpec" (.cons "FrameClause" (.node "WindowFrame" (.cons "Type" (.str "ROWS")
    (.cons "Start" (.node "WindowFrameBound" (.cons "Type" (.str "PRECEDING")
      (.cons "Value" (call "g" .nil) .nil))) (.cons "End" .nil .nil)))) .nil)

theorem frame_bound_counterexample :
    framed.covered genChildren none = false ∧ extractFunctions framed = [] ∧
    framed.nodeVals.flatMap (recordsAt Gen.Extract.functionCollector_node guardNonEmpty) = [["g"]] := by
  decide +kernel

end GoSQLXModel.Props.C15
