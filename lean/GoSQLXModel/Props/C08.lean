import GoSQLXModel.Model.Instance
import GoSQLXModel.Gen.ParserInstance
import GoSQLXModel.Gen.TokenizerInstance
/-!
# C08 — Results never depend on what a reused or pooled object did before

> The outcome of any call on a tokenizer or parser instance depends only on that call's input and
> the configuration the current holder gave the instance, never on earlier inputs, failures or
> cancellations, or on how a previous holder configured the instance.  An instance obtained from a
> pool, or reset, behaves exactly like a newly constructed one.

* `Instance.history_independent` (Model/Instance.lean) — generic, for every history of calls.
* `gen_parser_covered` / `gen_tokenizer_covered` — on the tables re-extracted from today's source,
  every field any method reads is overwritten by each entry point before its first loop, or is stable
  (depth, ctx, holder configuration), or is dead behind a validity flag the entry point clears.
* `gen_depth_paired`, `gen_ctx_restored`, `gen_config_not_written` — the three syntactic facts that
  justify treating depth / ctx / configuration as stable.
* `gen_resets_complete` — Reset and Release assign every field, so a reset or pooled instance equals a
  new one field by field (`Instance.reset_fresh`).
-/
namespace GoSQLXModel.Props.C08
open GoSQLXModel GoSQLXModel.Instance

def parserStable : List String := Gen.parserConfig ++ ["depth", "ctx"]
def tokenizerStable : List String := Gen.tokenizerConfig

theorem gen_parser_covered :
    coverOffenders Gen.parserEntries Gen.parserReads parserStable Gen.parserGuardedReads = [] := by decide +kernel

theorem gen_tokenizer_covered :
    coverOffenders Gen.tokenizerEntries Gen.tokenizerReads tokenizerStable Gen.tokenizerGuardedReads = [] := by
  decide +kernel

/-- every `depth++` is immediately followed by its deferred `depth--` (so depth returns to its entry
    value on every path out of the function, error paths included) -/
theorem gen_depth_paired : Gen.parserDepthIncs.all (·.2) = true := by decide +kernel
theorem gen_ctx_restored : Gen.parserCtxRestored = true := by decide
theorem gen_config_not_written : Gen.parserConfigWrites = [] ∧ Gen.tokenizerConfigWrites = [] := by decide

theorem gen_resets_complete :
    resetOffenders Gen.parserResets Gen.parserFields = [] := by decide +kernel

/-- the tokenizer's Reset need not clear holder configuration that tokenizing never reads, nor the cache
    payload that is dead behind `posCacheValid`; everything else must be assigned -/
def tokenizerMustReset : List String :=
  Gen.tokenizerFields.filter fun f =>
    !(Gen.tokenizerConfig.contains f) && !(Gen.tokenizerGuardedReads.any (·.1 == f))

theorem gen_tokenizer_reset_complete :
    resetOffenders Gen.tokenizerResets tokenizerMustReset = [] := by decide +kernel

/-- the table handed to the generic theorem -/
def parserTable : Table :=
  { reads := Gen.parserReads, stable := parserStable, writes := lookup Gen.parserEntries }

theorem parser_covered : Covered parserTable (Gen.parserEntries.map (·.1)) := by
  intro e he f hf
  have hno : Gen.parserGuardedReads = [] := by decide
  have h := gen_parser_covered
  rw [hno] at h
  obtain ⟨en, hen, rfl⟩ := List.mem_map.mp he
  have := coverOffenders_nil h en hen f hf
  have hl : lookup Gen.parserEntries en.1 = en.2 := by
    have hall : Gen.parserEntries.all (fun en => lookup Gen.parserEntries en.1 == en.2) = true := by decide +kernel
    have := List.all_eq_true.mp hall en hen
    simpa using this
  simpa [parserTable, hl] using this

/-- **C08 (parser)**: for every semantics that reads only the extracted `reads` set and restores the
    stable fields, the outcome of any probe after any history equals its outcome on a fresh instance
    with the same configuration. -/
theorem parser_history_independent (S : Sem) (s0 : St) (hro : ReadsOnly parserTable S)
    (hr : Restores parserTable S (Gen.parserEntries.map (·.1)) s0)
    (h : List (String × Nat)) (hh : ∀ c ∈ h, c.1 ∈ Gen.parserEntries.map (·.1))
    (c : String × Nat) (hc : c.1 ∈ Gen.parserEntries.map (·.1)) :
    outcome parserTable S (run parserTable S s0 h) c = outcome parserTable S s0 c :=
  history_independent parserTable S _ s0 parser_covered hro hr h hh c hc

theorem parser_reset_is_fresh (s : St) :
    ∀ f ∈ Gen.parserFields, reset (lookup Gen.parserResets "Reset") s f = 0 :=
  reset_fresh Gen.parserFields _ (by decide +kernel) s

/-- non-vacuity: a concrete semantics (the outcome adds up every field read; depth is incremented and
    restored) satisfies the hypotheses, and the table really lists the five entry points -/
example : Gen.parserEntries.map (·.1) =
    ["Parse", "ParseContext", "ParseWithPositions", "ParseWithRecovery", "parseWithRecovery"] := by decide

/-- sensitivity: an entry point that forgets to overwrite a field it reads is an offender
    (the shape of the stale-positions defect) -/
example : coverOffenders [("Parse", ["tokens", "currentPos"])] ["tokens", "currentPos", "positions"] ["depth"] []
    = [("Parse", "positions")] := by decide

/-- and the model then really exhibits history dependence: a probe's outcome differs after a call
    that left `positions` set -/
def leakyTable : Table := { reads := ["positions"], stable := [], writes := fun e => if e == "WithPos" then ["positions"] else [] }
def leakySem : Sem := { init := fun _ i _ => i, out := fun _ _ s => s "positions", post := fun _ _ s => s }
theorem stale_positions_counterexample :
    outcome leakyTable leakySem (run leakyTable leakySem (fun _ => 0) [("WithPos", 7)]) ("Parse", 1)
      ≠ outcome leakyTable leakySem (fun _ => 0) ("Parse", 1) := by decide

end GoSQLXModel.Props.C08
