import GoSQLXModel.Model.Walk
import GoSQLXModel.Model.Tables
import GoSQLXModel.Gen.AstTables
import GoSQLXModel.Gen.Produced
import GoSQLXModel.Gen.Known
import GoSQLXModel.Gen.Structure
/-!
# C14 — Tree traversal reaches every node of every tree

> Walking a parsed tree with the visitor or inspection API visits every statement, clause and
> expression node that is part of the tree - everything reachable through the tree's own fields -
> and nothing that is not part of it, for every tree the parser can produce.

* `Val.walk_complete` / `Val.walk_sound` (Model/Walk.lean): for every tree whose node fields are
  covered by the Children() table, the visit sequence equals the pre-order list of all reachable
  nodes; and for every table the visit sequence is a sublist of it (nothing synthesised).
* `gen_children_complete_partial`: on the tables extracted from today's source, every node-holding
  field of every node type the parser constructs is mentioned by that type's Children(), except the
  listed known findings (allowance obligation: offenders ⊆ known).
* `windowFrame_counterexample`: the model exhibits the known finding.
-/
namespace GoSQLXModel.Props.C14
open GoSQLXModel

/-- offenders among the (type, field) pairs pkg/sql/parser can populate: the type is constructed by
    the parser and the field is assigned somewhere in pkg/sql/parser ("every tree the parser can produce") -/
def producedOffenders : List (String × String) :=
  (childOffenders Gen.astSchema Gen.childrenTable).filter fun o =>
    Gen.producedTypes.contains o.1 && Gen.parserAssigned.contains o

/-- full statement (false today because of WindowFrame; kept visible) -/
def gen_children_complete_full : Prop := producedOffenders = []

/-- allowance obligation: every offender is a listed known finding -/
def unlistedOffenders : List (String × String) :=
  producedOffenders.filter fun o => !Gen.Known.children_missing.contains o

theorem gen_children_complete_partial : unlistedOffenders = [] := by decide +kernel

/-- the walk over the extracted table -/
def genTable : ChildTable := fun ty => ChildrenTbl.get Gen.childrenTable ty

/-- no `Children()` method hands out the address of a range variable (all such children would be one object) -/
theorem gen_children_no_range_address : Gen.Structure.childrenRangeAddr = [] := by decide +kernel

/-- **C14** for every tree covered by today's table: visit sequence = reachable nodes -/
theorem walk_visits_exactly (v : Val) (h : v.covered genTable none = true) : v.walk genTable none = v.nodes :=
  Val.walk_complete genTable none v h

theorem walk_visits_only_tree_nodes (v : Val) : (v.walk genTable none).Sublist v.nodes :=
  Val.walk_sound genTable none v

/-- non-vacuity: a SELECT with a WHERE comparison is covered and all 4 nodes are visited -/
def sampleSelect : Val :=
  .node "SelectStatement" (.cons "Columns" (.list (.cons (.node "Identifier" (.cons "Name" (.str "a") .nil)) .nil))
    (.cons "Where" (.node "BinaryExpression"
      (.cons "Left" (.node "Identifier" (.cons "Name" (.str "a") .nil))
      (.cons "Right" (.node "LiteralValue" (.cons "Value" (.str "1") .nil)) .nil))) .nil))

example : sampleSelect.covered genTable none = true := by decide +kernel
example : sampleSelect.walk genTable none =
    ["SelectStatement", "Identifier", "BinaryExpression", "Identifier", "LiteralValue"] := by decide +kernel

/-- dotted paths: the WHERE of ON CONFLICT DO UPDATE sits in the by-value helper struct `Action` -/
def onConflictVal : Val :=
  .node "OnConflict" (.cons "Target" (.list .nil)
    (.cons "Action" (.struct (.cons "DoNothing" (.bool false) (.cons "DoUpdate" (.list .nil)
      (.cons "Where" (.node "BinaryExpression" (.cons "Operator" (.str "=") .nil)) .nil)))) .nil))

example : onConflictVal.walk genTable none = ["OnConflict", "BinaryExpression"] ∧
    onConflictVal.covered genTable none = true := by decide +kernel

/-- known finding, exhibited by the model: a frame bound with an offset expression is part of the
    tree but never visited -/
def frameVal : Val :=
  .node "WindowFrame" (.cons "Type" (.str "ROWS")
    (.cons "Start" (.node "WindowFrameBound" (.cons "Type" (.str "PRECEDING")
      (.cons "Value" (.node "LiteralValue" (.cons "Value" (.str "2") .nil)) .nil))) .nil))

theorem windowFrame_counterexample :
    frameVal.walk genTable none = ["WindowFrame"] ∧
    frameVal.nodes = ["WindowFrame", "WindowFrameBound", "LiteralValue"] := by decide +kernel

end GoSQLXModel.Props.C14
