#!/bin/bash
# Run once after a fresh restore, offline: builds the Lean library + driver and the Go harness.
set -e
cd "$(dirname "$0")"
export GOFLAGS=-mod=mod GOPROXY=off GOSUMDB=off GOTOOLCHAIN=local
mkdir -p .bin .work evidence replays
cat /repo/go.sum > harness/go.sum
[ -f harness/go.sum.extra ] && cat harness/go.sum.extra >> harness/go.sum
(cd harness && go build -tags verif -o ../.bin/vx ./cmd/vx)
./.bin/vx extract
(cd lean && lake build GoSQLXModel driver)
echo "setup ok"
