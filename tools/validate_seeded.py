#!/usr/bin/env python3
# Validates every seeded change under $SEED_SRC (default /tmp/seeded) against /repo HEAD in a scratch worktree:
# the patch applies, the pinned suite still passes with it, the demonstration fails with it and passes without it.
# Kept changes are copied to /verif/seeded/<id>/<k>/ (patch.diff, demo files, meta.json with the validation record).
import json, os, subprocess, shutil, sys, glob
ENV=dict(os.environ, GOFLAGS='-mod=mod', GOPROXY='off', GOSUMDB='off', GOTOOLCHAIN='local')
WT='/tmp/wtv'
def sh(cmd, cwd=None, timeout=1500):
    try:
        p=subprocess.run(cmd, shell=True, cwd=cwd, env=ENV, capture_output=True, text=True, timeout=timeout)
        return p.returncode, (p.stdout+p.stderr)
    except subprocess.TimeoutExpired:
        return 124, 'timeout'
only=sys.argv[1:] 
subprocess.run(f'git -C /repo worktree remove --force {WT}', shell=True, capture_output=True)
shutil.rmtree(WT, ignore_errors=True)
rc,out=sh(f'git -C /repo worktree add --detach {WT} HEAD')
assert rc==0, out
results={}
base=json.load(open('/root/.vp/BASELINE.json'))
SRC=os.environ.get('SEED_SRC','/tmp/seeded')
for d in sorted(glob.glob(SRC+'/C[0-9][0-9]/[a-z]')):
    pid=d.split('/')[3]; k=d.split('/')[4]
    if only and pid not in only: continue
    meta=json.load(open(d+'/meta.json'))
    patch=d+'/patch.rebased.diff' if os.path.exists(d+'/patch.rebased.diff') else d+'/patch.diff'
    rec={'patch':os.path.basename(patch)}
    sh('git checkout -q -- . && git clean -fdq', cwd=WT)
    rc,out=sh(f'git apply {patch}', cwd=WT)
    rec['applies']= rc==0
    if rc!=0:
        rec['apply_error']=out[-300:]; results[f'{pid}/{k}']=rec; print(pid,k,'DOES NOT APPLY'); continue
    rc,out=sh('go build ./...', cwd=WT)
    rec['builds']= rc==0
    # suite with the change
    rc,out=sh('go test -mod=mod -vet=off -count=1 -timeout 25m ./... 2>&1 | grep -E "^(FAIL|---.FAIL|ok|panic)" ', cwd=WT, timeout=2400)
    fails=[l for l in out.splitlines() if l.startswith('--- FAIL')]
    expected={'TestValidator_PermissionDenied','TestValidateInputFile_NoReadPermissions'}
    bad=[l for l in fails if not any(e in l for e in expected)]
    rec['suite_unexpected_failures']=bad[:5]
    # demo with the change
    for df in meta.get('demo_files',[]):
        dest=os.path.join(WT, df['dest']); os.makedirs(os.path.dirname(dest), exist_ok=True); shutil.copy(os.path.join(d, df['file']), dest)
    rc,out=sh('timeout 300 '+meta['demo_cmd'], cwd=WT, timeout=400)
    rec['demo_with_change_fails']= rc!=0
    rec['demo_with_change_tail']=out[-300:]
    # demo without the change
    sh(f'git apply -R {patch}', cwd=WT)
    rc,out=sh('timeout 300 '+meta['demo_cmd'], cwd=WT, timeout=400)
    rec['demo_without_change_passes']= rc==0
    if rc!=0: rec['demo_without_change_tail']=out[-300:]
    rec['kept']= bool(rec['applies'] and rec['builds'] and not bad and rec['demo_with_change_fails'] and rec['demo_without_change_passes'])
    results[f'{pid}/{k}']=rec
    print(pid,k,'KEPT' if rec['kept'] else 'REJECTED', json.dumps({x:rec[x] for x in rec if x not in ('demo_with_change_tail',)})[:300], flush=True)
    if rec['kept']:
        dst=f'/verif/seeded/{pid}/{k}'; shutil.rmtree(dst, ignore_errors=True); os.makedirs(dst)
        shutil.copy(patch, dst+'/patch.diff')
        for df in meta.get('demo_files',[]): shutil.copy(os.path.join(d, df['file']), dst+'/'+df['file'])
        meta['validated']={'against_repo_commit':subprocess.run('git -C /repo log --format=%h -1',shell=True,capture_output=True,text=True).stdout.strip(),
            'suite_with_change':'all pinned tests pass except the two root-sandbox permission tests','demo_with_change':'FAIL','demo_without_change':'PASS',
            'patch_rebased': patch.endswith('rebased.diff')}
        json.dump(meta, open(dst+'/meta.json','w'), indent=1)
json.dump(results, open('/verif/.work/seeded_validation_%s.json' % os.path.basename(SRC),'w'), indent=1)
sh('git checkout -q -- . && git clean -fdq', cwd=WT)
subprocess.run(f'git -C /repo worktree remove --force {WT}', shell=True)
