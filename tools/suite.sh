#!/bin/bash
# Runs the pinned baseline suite (guard OFF) on a tree (default /repo) and compares with BASELINE.json stable_pass.
# usage: tools/suite.sh [dir]
DIR=${1:-/repo}
export GOFLAGS=-mod=mod GOPROXY=off GOSUMDB=off GOTOOLCHAIN=local
OUT=$(mktemp /var/tmp/suite.XXXXXX.json)
(cd "$DIR" && go test -mod=mod -json -vet=off -count=1 -timeout 25m ./... > "$OUT" 2>/dev/null)
python3 - "$OUT" <<'PY'
import json,sys
base=json.load(open('/root/.vp/BASELINE.json'))
want=set(base['stable_pass'])
res={}
for l in open(sys.argv[1]):
    try: e=json.loads(l)
    except Exception: continue
    if e.get('Test') and e.get('Action') in ('pass','fail','skip'):
        res[e['Package']+'::'+e['Test']]=e['Action']
missing=[t for t in want if res.get(t)!='pass']
print('baseline', len(want), 'passed_now', sum(1 for t in want if res.get(t)=='pass'), 'not_passing', len(missing))
for t in sorted(missing)[:40]: print('  NOT PASSING:', t, res.get(t))
sys.exit(1 if missing else 0)
PY
RC=$?
rm -f "$OUT"
exit $RC
