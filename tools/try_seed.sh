#!/bin/bash
# usage: tools/try_seed.sh <patch.diff> <Cxx> [<Cxx>...]  — applies a seeded change to /repo, runs the checks, reverts.
P=$1; shift
cd /repo && git status --porcelain | grep -q . && { echo "/repo not clean"; exit 2; }
git apply "$P" || { git -C /repo checkout -- . ; echo "patch does not apply"; exit 2; }
cd /verif
rm -rf /verif/.work/evidence.bak && cp -r /verif/evidence /verif/.work/evidence.bak
for c in "$@"; do
  timeout 3000 ./check $c ${TIER:-quick} 2>&1 | grep -E "VIOLATION|KNOWN-FINDING|\[check\]" | cut -c1-400
  for f in $(ls -t replays/$c-* 2>/dev/null | head -2); do python3 - "$f" <<'PY'
import json,sys
r=json.load(open(sys.argv[1]))
print('   replay:', sys.argv[1], '|', r.get('key'), '|', (r.get('what') or json.dumps(r.get('no_longer_checks'))[:300])[:300])
PY
  done
done
git -C /repo checkout -- . && git -C /repo status --porcelain | head -3
rm -rf /verif/evidence && mv /verif/.work/evidence.bak /verif/evidence
/verif/.bin/vx extract >/dev/null 2>&1   # the regenerated tables come from the clean tree again
rm -f /verif/replays/*
