import json,sys
r=json.load(open('/verif/.work/C06.result.json'))
fam=sys.argv[1]; n=int(sys.argv[2]) if len(sys.argv)>2 else 260
seen=set()
for f in r['failures']:
    k=f['key']
    if fam not in k or k in seen: continue
    seen.add(k)
    print(k, '|', f['witness']['serialiser']); print('   IN :',' '.join(f['witness']['sql'].split())[:n]); print('   OUT:',' '.join(f['detail'].get('output','').split())[:n]); print('   ERR:',f['detail'].get('error','')[:140])
