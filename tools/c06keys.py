import json,collections,sys
r=json.load(open('/verif/.work/C06.result.json'))
st=r['stats']
keys=collections.Counter()
for f in r['failures']: keys[f['key']]+=1
for k,v in st.items():
    if k.startswith('fail_dup:'): keys[k[9:]]+=v
fam=sys.argv[1] if len(sys.argv)>1 else ''
for k,v in sorted(keys.items(), key=lambda kv:-kv[1]):
    if fam in k: print(v,k)
