#!/usr/bin/env python3
# Runs the quick check of each property against each validated seeded change under /verif/seeded/<id>/<k>/:
#   git -C /repo apply patch.diff ; ./check <id> quick ; git -C /repo checkout -- .
# and records how the change was caught (broken obligation / correspondence mismatch / failing input on the
# implementation).  The evidence directory is saved and restored, so nothing written under a seeded change is kept.
# Output: /verif/seeded/RESULTS.json and /verif/seeded/RESULTS.md.   usage: [SLOTS=ij] [MISSED_ONLY=1] tools/seed_sweep.py [Cxx ...]
import json, os, subprocess, shutil, sys, glob, re, time
V='/verif'
only=sys.argv[1:]
def sh(cmd, cwd=None, timeout=3600):
    p=subprocess.run(cmd, shell=True, cwd=cwd, capture_output=True, text=True, timeout=timeout)
    return p.returncode, p.stdout+p.stderr
rc,out=sh('git -C /repo status --porcelain')
if out.strip():
    print('/repo not clean'); sys.exit(2)
respath=V+'/seeded/RESULTS.json'
results=json.load(open(respath)) if os.path.exists(respath) else {}
shutil.rmtree(V+'/.work/evidence.bak', ignore_errors=True)
shutil.copytree(V+'/evidence', V+'/.work/evidence.bak')
try:
    for d in sorted(glob.glob(V+'/seeded/C[0-9][0-9]/[a-z]')):
        pid=d.split('/')[3]; k=d.split('/')[4]
        if only and pid not in only: continue
        if k not in os.environ.get('SLOTS','abcdefghijklmnopqrstuvwxyz'): continue
        if os.environ.get('MISSED_ONLY') and results.get(f'{pid}/{k}',{}).get('caught'): continue   # re-sweep what the table lists as not caught
        meta=json.load(open(d+'/meta.json'))
        rc,out=sh(f'git -C /repo apply {d}/patch.diff')
        if rc!=0:
            sh('git -C /repo checkout -- .'); results[f'{pid}/{k}']={'applies':False,'error':out[-300:]}; print(pid,k,'DOES NOT APPLY'); continue
        t0=time.time()
        for f in glob.glob(V+f'/replays/{pid}-*'): os.remove(f)
        try:
            rc,out=sh(f'./check {pid} quick', cwd=V, timeout=3000)
        except subprocess.TimeoutExpired:
            rc,out=124,'timeout'
        finally:
            sh('git -C /repo checkout -- .')
        ev=json.load(open(V+f'/evidence/{pid}.json'))
        viol=[l for l in out.splitlines() if l.startswith('VIOLATION')]
        kinds=sorted(set(b['kind'] for b in ev['coverage'].get('broken',[])))
        broken=[f"{b['kind']}: {b['name']}" for b in ev['coverage'].get('broken',[])][:6]
        keys=[]
        for f in sorted(glob.glob(V+f'/replays/{pid}-*')):
            r=json.load(open(f))
            if r.get('key'): keys.append(r['key'])
        how=[]
        if 'obligation' in kinds: how.append('broken Lean obligation')
        if 'correspondence' in kinds: how.append('model/implementation correspondence')
        if 'machinery' in kinds: how.append('harness no longer builds/runs')
        if keys: how.append('failing input on the implementation')
        results[f'{pid}/{k}']={'applies':True,'exit':rc,'violation_lines':len(viol),'no_failing_input_found':any(l.endswith('no-failing-input-found') for l in viol),
            'caught': rc==1 and bool(viol),'how':how,'broken':broken,'failure_keys':keys[:8],'wall_s':round(time.time()-t0,1),
            'summary':meta.get('title') or meta.get('summary') or ''}
        print(pid,k,'CAUGHT' if results[f'{pid}/{k}']['caught'] else 'MISSED', how, keys[:3], flush=True)
        json.dump(results, open(respath,'w'), indent=1)
finally:
    sh('git -C /repo checkout -- .')
    shutil.rmtree(V+'/evidence', ignore_errors=True)
    shutil.move(V+'/.work/evidence.bak', V+'/evidence')
    for f in glob.glob(V+'/replays/*'): os.remove(f)
    sh(V+'/.bin/vx extract')   # the regenerated tables come from the clean tree again
with open(V+'/seeded/RESULTS.md','w') as f:
    f.write('| change | what it does | caught by `./check <id> quick` | how | failure keys / broken obligations |\n|---|---|---|---|---|\n')
    for key in sorted(results):
        r=results[key]
        if not r.get('applies'): f.write(f'| {key} | | does not apply | | |\n'); continue
        det='; '.join(r['failure_keys'][:4]) or '; '.join(r['broken'][:3])
        f.write(f"| {key} | {r['summary'][:200].replace('|','/')} | {'yes' if r['caught'] else 'NO'}{' (no-failing-input-found)' if r['no_failing_input_found'] else ''} | {', '.join(r['how'])} | {det[:300].replace('|','/')} |\n")
print('written', respath)
