#!/bin/bash
# usage: tools/seed_matrix.sh <tier> <seed>... — runs every check on the unchanged tree under other seeds; evidence/ is restored afterwards.
TIER=$1; shift
cd /verif
git -C /repo status --porcelain | grep -q . && { echo "/repo not clean"; exit 2; }
rm -rf .work/evidence.keep && cp -r evidence .work/evidence.keep
for s in "$@"; do
  for c in $(seq -f "C%02g" 1 20); do
    [ -n "$ONLY" ] && ! echo " $ONLY " | grep -q " $c " && continue
    VERIF_SEED=$s ./check $c $TIER 2>&1 | grep -E "^VIOLATION|\[check\]" | sed "s/^/seed=$s /" | cut -c1-260
  done
done
rm -rf evidence && mv .work/evidence.keep evidence
