#!/usr/bin/env python3
# Assembles /verif/DESIGN.md from docs/design_head.md, the per-property texts of tools/manifest_checks.json,
# KNOWN_FINDINGS.jsonl, docs/design_tail.md, seeded/RESULTS.md and docs/design_part2.md (the original design text).
import json, os
V='/verif'
checks=json.load(open(V+'/tools/manifest_checks.json'))
titles={}
for l in open(V+'/properties.jsonl'):
    d=json.loads(l); titles[d['id']]=d['title']
def audit(id):
    try: return sum(1 for l in open(f'{V}/lean/GoSQLXModel/Audit/{id}.lean') if l.startswith('#print axioms'))
    except OSError: return 0
kn={}; fx={}
for l in open(V+'/KNOWN_FINDINGS.jsonl'):
    d=json.loads(l)
    (kn if d['status']=='known' else fx).setdefault(d['property'],[]).append(d)
out=[open(V+'/docs/design_head.md').read().rstrip('\n'),'','## I.5 The twenty properties','']
for id in sorted(checks):
    c=checks[id]
    out.append(f"### {id} — {titles[id]}\n")
    out.append(c['text']+"\n")
    out.append("*Strength / limits.* "+c['note']+"\n")
    out.append(f"*Audited theorems:* {audit(id)} (`lean/GoSQLXModel/Audit/{id}.lean`, statements in `Props/{id}.lean`). *Technique:* {c['technique']}.\n")
    if id in kn:
        out.append(f"*Known findings ({len(kn[id])}):* "+"; ".join(sorted(set('`'+d['key']+'`' for d in kn[id])))+".\n")
    if id in fx:
        out.append(f"*Genuine defects repaired ({len(fx[id])}):* "+"; ".join(f"{d.get('commit','?')} (`{d['key']}`)" for d in fx[id])+".\n")
tail=open(V+'/docs/design_tail.md').read()
res=V+'/seeded/RESULTS.md'
tail=tail.replace('@@SEEDED@@', open(res).read() if os.path.exists(res) else '*(sweep not yet run)*')
out.append(tail)
out.append(open(V+'/docs/design_part2.md').read())
open(V+'/DESIGN.md','w').write('\n'.join(out))
print('DESIGN.md', len('\n'.join(out).splitlines()), 'lines')
