#!/bin/bash
# Re-runs every claimed check (quick tier) on the clean /repo tree so that the committed evidence files come from the unchanged tree.
cd /verif
git -C /repo status --porcelain | grep -q . && { echo "/repo not clean"; exit 2; }
rc=0
for id in $(python3 -c "import json;print(' '.join(c['property_id'] for c in json.load(open('MANIFEST.json'))['checks']))"); do
  ./check $id ${1:-quick} | tail -1 || rc=1
done
exit $rc
