#!/usr/bin/env python3
"""Regenerates MANIFEST.json from tools/manifest_checks.json (claimed checks) + properties.jsonl."""
import json, os
V = os.path.dirname(os.path.dirname(os.path.abspath(__file__)))
props = [json.loads(l) for l in open(V + "/properties.jsonl") if l.strip()]
claimed = json.load(open(V + "/tools/manifest_checks.json"))
checks, na = [], []
for p in props:
    pid = p["id"]
    c = claimed.get(pid)
    if not c or c.get("not_applicable"):
        na.append({"property_id": pid, "reason": (c or {}).get("reason", "check not built yet in this round; see DESIGN.md section 7 for the planned Lean model and theorems")})
        continue
    checks.append({
        "property_id": pid,
        "quick_cmd": f"./check {pid} quick",
        "thorough_cmd": f"./check {pid} thorough",
        "evidence_file": f"/verif/evidence/{pid}.json",
        "replay_cmd_template": f"./check {pid} quick --replay {{path}}",
        "engine": "lean4-model+go-harness",
        "level_claimed": {"category": "proof", "text": c["text"], "design_ref": c.get("design_ref", f"DESIGN.md section 7, {pid}")},
        "level_note": c["note"],
        "technique": c["technique"],
    })
m = {
    "version": 1,
    "setup_cmd": "./setup.sh",
    "hooks": {
        "guard": "verif",
        "enable": "go build -tags verif (the harness module replaces github.com/ajitpratap0/GoSQLX by /repo, so every check builds /repo's working tree with the tag on)",
        "baseline_off_cmd": "cd /repo && go test -mod=mod -json -vet=off -count=1 -timeout 25m ./...",
        "source_commits": json.load(open(V + "/tools/hook_commits.json")) if os.path.exists(V + "/tools/hook_commits.json") else [],
        "add_only": True,
    },
    "engines": [
        {"name": "lean4-model+go-harness", "path": "/verif/lean + /verif/harness",
         "serves_properties": [c["property_id"] for c in checks],
         "kind_free_text": "Lean 4 models and theorems (kernel-checked on every run, tables regenerated from /repo by a go/types extractor) tied to the Go code by a differential correspondence harness and per-property oracles on the real code"},
    ],
    "checks": checks,
    "not_applicable": na,
    "notes": "Every check is ./check <Cxx> quick|thorough; see DESIGN.md. Known findings: KNOWN_FINDINGS.jsonl.",
}
json.dump(m, open(V + "/MANIFEST.json", "w"), indent=1)
print("checks", len(checks), "not_applicable", len(na))
