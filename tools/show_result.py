#!/usr/bin/env python3
# usage: tools/show_result.py Cxx [maxlen]  — summary of .work/Cxx.result.json
import json,sys,collections
r=json.load(open('/verif/.work/%s.result.json'%sys.argv[1]))
ml=int(sys.argv[2]) if len(sys.argv)>2 else 260
print({k:r[k] for k in r if k not in('failures','samples','stats','corr_failures','rule','correspondence_mismatches')})
seen=set()
for f in (r.get('failures') or []):
    if f['key'] in seen: continue
    seen.add(f['key']); print('FAIL',f['key'],'|',json.dumps(f.get('witness'))[:ml],'|',json.dumps(f.get('detail'))[:ml])
for f in (r.get('corr_failures') or [])[:6]: print('CORR',json.dumps(f)[:ml*3])
st=r.get('stats') or {}
print({k:v for k,v in st.items() if not k.startswith('fail_dup')})
