module verifharness

go 1.22.0

toolchain go1.23.5

require (
	github.com/ajitpratap0/GoSQLX v0.0.0
	golang.org/x/tools v0.29.0
)

require (
	github.com/fsnotify/fsnotify v1.9.0 // indirect
	github.com/spf13/cobra v1.10.1 // indirect
	github.com/spf13/pflag v1.0.9 // indirect
	golang.org/x/mod v0.22.0 // indirect
	golang.org/x/sync v0.10.0 // indirect
	golang.org/x/sys v0.29.0 // indirect
	golang.org/x/term v0.20.0 // indirect
	gopkg.in/yaml.v3 v3.0.1 // indirect
)

replace github.com/ajitpratap0/GoSQLX => /repo
