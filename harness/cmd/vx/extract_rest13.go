package main

import (
	"fmt"
	"go/ast"
	"go/token"
	"path/filepath"
	"strconv"
	"strings"
)

// extractRest13: the operator-precedence table of the AST serialiser (sqlOperatorPrecedence in
// pkg/sql/ast/sql.go): every `case "op", …: return n` and the default.
func extractRest13(l *loaded, genDir, jsonDir string) error {
	p := l.pkgs["pkg/sql/ast"]
	if p == nil {
		return fmt.Errorf("pkg/sql/ast not loaded")
	}
	type entry struct {
		Op   string `json:"op"`
		Prec int    `json:"prec"`
	}
	var table []entry
	def := -1
	for _, f := range p.Syntax {
		for _, d := range f.Decls {
			fd, ok := d.(*ast.FuncDecl)
			if !ok || fd.Name.Name != "sqlOperatorPrecedence" || fd.Body == nil {
				continue
			}
			for _, st := range fd.Body.List {
				sw, ok := st.(*ast.SwitchStmt)
				if !ok {
					continue
				}
				for _, c := range sw.Body.List {
					cc := c.(*ast.CaseClause)
					prec := -1
					for _, b := range cc.Body {
						if rs, ok := b.(*ast.ReturnStmt); ok && len(rs.Results) == 1 {
							if bl, ok := rs.Results[0].(*ast.BasicLit); ok && bl.Kind == token.INT {
								prec, _ = strconv.Atoi(bl.Value)
							}
						}
					}
					if cc.List == nil {
						def = prec
						continue
					}
					for _, e := range cc.List {
						if bl, ok := e.(*ast.BasicLit); ok && bl.Kind == token.STRING {
							op, _ := strconv.Unquote(bl.Value)
							table = append(table, entry{op, prec})
						}
					}
				}
			}
		}
	}
	if err := writeJSON(jsonDir+"/print_prec.json", map[string]any{"table": table, "default": def}); err != nil {
		return err
	}
	var b strings.Builder
	b.WriteString(genHeader)
	b.WriteString("namespace GoSQLXModel.Gen.Print\n\n/-- sqlOperatorPrecedence: (upper-case operator, strength) -/\ndef precTable : List (String × Nat) := [")
	for i, e := range table {
		if i > 0 {
			b.WriteString(", ")
		}
		fmt.Fprintf(&b, "(%s, %d)", leanStr(e.Op), e.Prec)
	}
	fmt.Fprintf(&b, "]\ndef precDefault : Nat := %d\n\nend GoSQLXModel.Gen.Print\n", def)
	if _, err := writeIfChanged(filepath.Join(genDir, "PrintPrec.lean"), []byte(b.String())); err != nil {
		return err
	}
	return extractRest14(l, genDir, jsonDir)
}
