package main

import (
	"encoding/hex"
	"encoding/json"
	"fmt"
	"os"
	"os/exec"
	"path/filepath"
	"regexp"
	"strings"
	"unicode/utf8"

	"github.com/ajitpratap0/GoSQLX/pkg/linter"
	"github.com/ajitpratap0/GoSQLX/pkg/linter/rules/keywords"
	"github.com/ajitpratap0/GoSQLX/pkg/linter/rules/whitespace"
	"github.com/ajitpratap0/GoSQLX/pkg/models"
	"github.com/ajitpratap0/GoSQLX/pkg/sql/tokenizer"
)

func init() { props["C17"] = runC17 }

type fixer struct {
	id    string
	param string
	rule  linter.Rule
}

func c17Fixers() []fixer {
	return []fixer{
		{"L001", "0", whitespace.NewTrailingWhitespaceRule()},
		{"L002", "0", whitespace.NewMixedIndentationRule()},
		{"L003", "1", whitespace.NewConsecutiveBlankLinesRule(1)},
		{"L003", "2", whitespace.NewConsecutiveBlankLinesRule(2)},
		{"L010", "0", whitespace.NewRedundantWhitespaceRule()},
		{"L007", "upper", keywords.NewKeywordCaseRule(keywords.CaseUpper)},
		{"L007", "lower", keywords.NewKeywordCaseRule(keywords.CaseLower)},
	}
}

// lexView: the token (kind, value) sequence with keyword values case-folded, and the comment texts
type lexView struct {
	ok              bool
	toks            []string
	kinds           []string
	comments        []string
	tokLines        []int        // line on which each token starts (not the end marker)
	insideMultiLine map[int]bool // lines that lie inside a token or comment spanning several lines (first line excluded)
}

func isStringTok(t models.TokenType) bool {
	switch t {
	case models.TokenTypeString, models.TokenTypeSingleQuotedString, models.TokenTypeDollarQuotedString,
		models.TokenTypeTripleSingleQuotedString, models.TokenTypeTripleDoubleQuotedString:
		return true
	}
	return false
}

func lexOf(s string) lexView {
	t, _ := tokenizer.New()
	toks, err := t.Tokenize([]byte(s))
	if err != nil {
		return lexView{}
	}
	v := lexView{ok: true}
	for _, tk := range toks {
		val := tk.Token.Value
		kind := "other"
		switch {
		case tk.Token.Type == models.TokenTypeDollarQuotedString:
			kind = "dollar-quoted"
		case isStringTok(tk.Token.Type):
			kind = "string-literal"
			if strings.Contains(val, "\n") {
				kind = "string-literal-multiline"
			}
		case tk.Token.Type == models.TokenTypeDoubleQuotedString || tk.Token.Quote == '"':
			kind = "quoted-identifier"
		case tk.Token.Quote == '`':
			kind = "backtick-identifier"
		case tk.Token.Type == models.TokenTypeIdentifier || tk.Token.Type == models.TokenTypeNumber || tk.Token.Type == models.TokenTypePlaceholder:
			kind = "identifier"
		default:
			// keywords and operators: compare case-insensitively
			val = strings.ToUpper(val)
			kind = "keyword-or-operator"
		}
		v.toks = append(v.toks, fmt.Sprintf("%d:%s", int(tk.Token.Type), val))
		v.kinds = append(v.kinds, kind)
		if tk.Token.Type != models.TokenTypeEOF {
			v.tokLines = append(v.tokLines, tk.Start.Line)
			for ln := tk.Start.Line + 1; ln <= tk.End.Line; ln++ {
				if v.insideMultiLine == nil {
					v.insideMultiLine = map[int]bool{}
				}
				v.insideMultiLine[ln] = true
			}
		}
	}
	for _, cm := range t.Comments {
		v.comments = append(v.comments, strings.TrimSuffix(cm.Text, "\r")) // the CR of a CRLF line end is layout, not comment text
		for ln := cm.Start.Line + 1; ln <= cm.End.Line; ln++ {
			if v.insideMultiLine == nil {
				v.insideMultiLine = map[int]bool{}
			}
			v.insideMultiLine[ln] = true
		}
	}
	return v
}

// diffShape names what kind of element the rewrite changed
func diffShape(a, b lexView) string {
	if !b.ok {
		return "breaks-lexing"
	}
	if strings.Join(a.comments, "\x00") != strings.Join(b.comments, "\x00") {
		for i, c := range a.comments {
			if i >= len(b.comments) || b.comments[i] != c {
				if strings.Contains(c, "\n") {
					return "comment-multiline"
				}
				if i < len(b.comments) && strings.TrimRight(c, " \t") == strings.TrimRight(b.comments[i], " \t") {
					return "comment-trailing-blanks"
				}
				break
			}
		}
		return "comment"
	}
	for i := range a.toks {
		if i >= len(b.toks) {
			return "token-count"
		}
		if a.toks[i] != b.toks[i] {
			// identifiers re-typed as keywords (or vice versa) show up as type changes: name by the original kind
			return a.kinds[i]
		}
	}
	if len(b.toks) != len(a.toks) {
		return "token-count"
	}
	return ""
}

type textGen struct{ r *Rng }

func (g *textGen) kwCase(k string) string {
	switch g.r.Intn(3) {
	case 0:
		return strings.ToLower(k)
	case 1:
		return strings.ToUpper(k[:1]) + strings.ToLower(k[1:])
	}
	return k
}

// tame: texts on which the fixers' per-line view agrees with the lexer (no multi-line literal, no quote or keyword
// or repeated/trailing blank inside comments, no backtick/dollar quoting)
func (g *textGen) tame() string {
	kws := []string{"SELECT", "FROM", "WHERE", "AND", "OR", "GROUP", "BY", "ORDER", "JOIN", "ON", "AS", "NOT", "NULL", "IN", "INSERT", "INTO", "VALUES", "UPDATE", "SET", "LIMIT"}
	ids := []string{"a", "b1", "users", "order_id", "t", "x_y", "col", "名前", "é_col"}
	lits := []string{"'x'", "'a  b'", "'select  from'", "'it''s'", "\"Quoted  Name\"", "\"select\"", "42", "1.5", "'tab\there'", "''"}
	var b strings.Builder
	lines := 1 + g.r.Intn(8)
	for l := 0; l < lines; l++ {
		if g.r.Chance(20) {
			b.WriteString(g.r.Pick([]string{"", "", "  ", "\t", " \t "}))
			b.WriteString("\n")
			continue
		}
		b.WriteString(g.r.Pick([]string{"", "", "  ", "    ", "\t", "\t\t", " \t", "\t  "}))
		n := 1 + g.r.Intn(7)
		for i := 0; i < n; i++ {
			switch g.r.Intn(6) {
			case 0, 1:
				b.WriteString(g.kwCase(g.r.Pick(kws)))
			case 2, 3:
				b.WriteString(g.r.Pick(ids))
			case 4:
				b.WriteString(g.r.Pick(lits))
			case 5:
				b.WriteString(g.r.Pick([]string{"=", ",", "(", ")", "*", "<>", "||", ";", "."}))
			}
			b.WriteString(g.r.Pick([]string{" ", " ", " ", "  ", "   ", "\t", " \t"}))
		}
		if g.r.Chance(15) {
			b.WriteString("-- plain comment")
		} else if g.r.Chance(25) {
			b.WriteString(g.r.Pick([]string{" ", "  ", "\t"}))
		}
		if g.r.Chance(10) {
			b.WriteString("\r")
		}
		b.WriteString("\n")
	}
	s := b.String()
	if g.r.Bool() {
		s = strings.TrimSuffix(s, "\n")
	}
	return s
}

// hostile features: each hostile text carries exactly ONE of them (once or twice), so that a failure can be
// keyed by the feature that the per-line fixers cannot see
var hostileFeatures = map[string][]string{
	"multiline-literal":            {"'line one\nselect  two   spaces \n\n\n\nend'", "'a\n\tselect'"},
	"quote-in-line-comment":        {"-- don't touch\n", "-- it's \"odd\n"},
	"quote-in-block-comment":       {"/* it's */", "/* say \"hi */"},
	"keyword-in-comment":           {"-- Select From Where\n", "/* select a from b */"},
	"spaces-in-comment":            {"-- two  spaces here\n", "/* two  spaces */"},
	"trailing-blank-after-comment": {"-- trailing blanks   \n", "-- tab after\t\n"},
	"blank-lines-in-block-comment": {"/* a\n\n\n\n   b */"},
	"backtick-keyword":             {"`select`", "`Order`"},
	"backtick-spaces":              {"`two  spaces`"},
	"dollar-quoted":                {"$$ select  x \n\n\n from $$", "$tag$ it's  select $tag$"},
	"multiline-quoted-identifier":  {"\"multi\nline  ident\""},
	"comment-opener-in-literal":    {"'src/*.sql'", "'a /* b'", "'x -- y'"},
	"comment-opener-in-comment":    {"-- the /* hint\n", "-- see */ next /*\n"},
	"comment-closer-in-literal":    {"'*/'", "'a */ b /* c'"},
	"semicolon-line-after-comment": {"-- note\n;\n", "-- note\n  ;\n", "/* c */\n;\n"},
}

func hostileFeatureNames() []string {
	names := make([]string, 0, len(hostileFeatures))
	for k := range hostileFeatures {
		names = append(names, k)
	}
	return sortedStrings(names)
}

func (g *textGen) hostile(feature string) string {
	extras := hostileFeatures[feature]
	s := g.tame()
	n := 1 + g.r.Intn(2)
	for i := 0; i < n; i++ {
		// insert at a line-internal token boundary (a blank), never inside a literal or comment of the tame text
		var cands []int
		inQ := byte(0)
		inComment := false
		for j := 0; j < len(s); j++ {
			ch := s[j]
			if ch == '\n' {
				inComment = false
				continue
			}
			if inComment {
				continue
			}
			if inQ != 0 {
				if ch == inQ {
					inQ = 0
				}
				continue
			}
			if ch == '\'' || ch == '"' {
				inQ = ch
				continue
			}
			if ch == '-' && j+1 < len(s) && s[j+1] == '-' {
				inComment = true
				continue
			}
			if ch == ' ' || ch == '\t' {
				cands = append(cands, j)
			}
		}
		pos := len(s)
		if len(cands) > 0 {
			pos = cands[g.r.Intn(len(cands))]
		}
		s = s[:pos] + " " + g.r.Pick(extras) + " " + s[pos:]
	}
	return s
}

func runC17(c *runCtx) {
	res := c.res
	res.Rule = "texts from a hostile-layout generator (keywords in every case, identifiers incl. Unicode, single- and double-quoted literals, comments, mixed indentation, blank-line runs, trailing blanks, CRLF; the hostile half adds multi-line literals, quotes/keywords/double spaces inside comments, backtick and dollar quoting): each auto-fixer and the CLI fix sequence must keep the (kind, value) token sequence up to keyword case and the comment texts, be idempotent, leave no violation of its own rule, and report lines exactly where the independent predicate sees the defect; every fixer's output is compared byte for byte with the Lean model (driver op lintfix) (distinct = distinct (rule, text))"
	drv := c.driver()
	g := &textGen{r: c.rng.Fork()}
	fixers := c17Fixers()
	featNames := hostileFeatureNames()
	n := c.n(1400, 40000)
	// texts with one very long line (a dump-style list on one line: 5 000 … 300 000 bytes, around every buffer size a
	// line reader might use), LF and CRLF, with the defects every fixer looks for before, on and after it
	var longTexts []string
	for _, size := range []int{5000, 65000, 66000, 70000, 140000, 300000} {
		var lb strings.Builder
		lb.WriteString("  INSERT INTO t (a, b) VALUES (0,  'x')")
		for k := 1; lb.Len() < size; k++ {
			fmt.Fprintf(&lb, ", (%d, 'v%d')", k, k)
		}
		for _, nl := range []string{"\n", "\r\n"} {
			longTexts = append(longTexts, "select a  from t   "+nl+nl+nl+nl+lb.String()+"  \t"+nl+"\tSELECT b   FROM u WHERE c = 1 "+nl+"select d from v"+nl)
		}
	}
	for i := 0; i < n+len(longTexts); i++ {
		hostile := i%2 == 1 && i < n
		text := g.tame()
		feature := "tame"
		if i >= n {
			text, feature = longTexts[i-n], "long-line"
		}
		if hostile {
			feature = featNames[(i/2)%len(featNames)]
			text = g.hostile(feature)
			if g.r.Bool() {
				text = strings.TrimSuffix(text, "\n") + "\nSELECT aaaaaaaaaa, bbbbbbbbbbbb, cccccccccccc FROM dddddddddddddd WHERE eeeeeeee = 1\n"
			}
		}
		orig := lexOf(text)
		if i < 2 {
			res.sample(map[string]any{"text": text, "feature": feature})
		}
		seq := text
		for _, fx := range fixers {
			fixed, err := fx.rule.Fix(text, nil)
			if err != nil {
				continue
			}
			res.count(fx.id+fx.param+"|"+text, true)
			wit := map[string]any{"rule": fx.id, "param": fx.param, "text": text}
			// correspondence with the Lean model
			if drv != nil && utf8.ValidString(text) && len(text) <= 20000 {
				ans, derr := drv.Ask("lintfix", fx.id+" "+fx.param+" "+hex.EncodeToString([]byte(text)))
				if derr == nil {
					res.CorrCases++
					if ans != hex.EncodeToString([]byte(fixed)) {
						mb, _ := hex.DecodeString(ans)
						res.corrFail("lintfix:"+fx.id, "Lean model of the fixer differs from the real Fix()", wit, map[string]any{"real": fixed, "model": string(mb)})
					}
				}
			}
			// idempotence
			again, _ := fx.rule.Fix(fixed, nil)
			if again != fixed {
				res.fail("fix-not-idempotent:"+fx.id+":"+feature, "applying the same fix again changes the text", wit, map[string]any{"once": fixed, "twice": again})
			}
			// re-lint is clean for the fixed rule
			lr := linter.New(fx.rule).LintString(fixed, "x.sql")
			if len(lr.Violations) > 0 {
				shape := "plain"
				v := lr.Violations[0]
				flines := strings.Split(fixed, "\n")
				if v.Location.Line >= 1 && v.Location.Line <= len(flines) {
					fl := flines[v.Location.Line-1]
					if v.Location.Column-1 <= len(fl)-len(strings.TrimLeft(fl, " \t")) {
						shape = "indentation"
					}
				}
				_ = shape
				res.fail("relint-not-clean:"+fx.id+":"+feature, "re-linting after the fix still reports the fixed rule", wit, map[string]any{"fixed": fixed, "violation": lr.Violations[0].Message, "line": lr.Violations[0].Location.Line})
			}
			// token preservation
			if orig.ok {
				if shape := diffShape(orig, lexOf(fixed)); shape != "" {
					_ = shape
					res.fail("fix-changes-tokens:"+fx.id+":"+feature, "the fix changes the token sequence / comment texts ("+shape+")", wit, map[string]any{"fixed": fixed})
				}
			}
			// violation positions exist
			lo := linter.New(fx.rule).LintString(text, "x.sql")
			lines := strings.Split(text, "\n")
			for _, v := range lo.Violations {
				if v.Location.Line < 1 || v.Location.Line > len(lines) || v.Location.Column < 1 || v.Location.Column > len(lines[v.Location.Line-1])+1 {
					res.fail("violation-position:"+fx.id, "a violation is reported at a line/column that does not exist", wit, fmt.Sprintf("%d:%d", v.Location.Line, v.Location.Column))
				}
			}
			if fx.param == "0" || fx.param == "1" || fx.param == "upper" {
				s2, err := fx.rule.Fix(seq, nil)
				if err == nil {
					seq = s2
				}
			}
		}
		// the CLI sequence as a whole converges
		seq2 := seq
		for _, fx := range fixers {
			if fx.param == "0" || fx.param == "1" || fx.param == "upper" {
				if s3, err := fx.rule.Fix(seq2, nil); err == nil {
					seq2 = s3
				}
			}
		}
		if seq2 != seq && !hostile {
			res.fail("fix-sequence-not-idempotent", "applying the whole auto-fix sequence a second time changes the text", map[string]any{"text": text}, map[string]any{"once": seq, "twice": seq2})
		}
		// exactness of the layout checks against independent predicates (tame texts only)
		if !hostile {
			checkExactness(res, text)
		} else if orig.ok {
			// whatever the text contains, an over-long line that carries code is reported, and only over-long lines are
			code := map[int]bool{}
			for _, ln := range orig.tokLines {
				code[ln] = true
			}
			got := map[int]bool{}
			for _, v := range linter.New(whitespace.NewLongLinesRule(40)).LintString(text, "x").Violations {
				got[v.Location.Line] = true
			}
			for li, l := range strings.Split(text, "\n") {
				long := len([]rune(strings.TrimRight(l, "\r"))) > 41
				if got[li+1] && !(len(l) > 40) {
					res.fail("check-inexact:L005:"+feature, fmt.Sprintf("long-line check reports line %d which is not over-long", li+1), map[string]any{"text": text}, nil)
				}
				if long && code[li+1] && !orig.insideMultiLine[li+1] && !got[li+1] {
					res.fail("check-inexact:L005:"+feature, fmt.Sprintf("long-line check misses over-long code line %d", li+1), map[string]any{"text": text}, nil)
				}
			}
		}
		// the language server's format action: same obligations as the fixers
		lspCheck := func(text string, orig lexView, feature string) {
			if f1, ok := lspFormatText(text, i%4 != 0, 2+i%3); ok {
				res.count("lspfmt|"+text, true)
				wit := map[string]any{"action": "textDocument/formatting", "text": text}
				if orig.ok {
					if shape := diffShape(orig, lexOf(f1)); shape != "" {
						res.fail("lsp-format-changes-tokens:"+shape, "the language server's format action (its edits applied to the text under the protocol's position rules) changes the token sequence / comment texts ("+shape+"; text with "+feature+")", wit, map[string]any{"formatted": f1})
					}
				}
				if f2, ok2 := lspFormatText(f1, i%4 != 0, 2+i%3); ok2 && f2 != f1 {
					res.fail("lsp-format-not-idempotent", "formatting the formatted text changes it again (text with "+feature+")", wit, map[string]any{"once": f1, "twice": f2})
				}
			}
		}
		lspCheck(text, orig, feature)
		if i%6 == 0 && len(text) < 4000 {
			// the same text ending in a line without a line end that holds characters outside the basic plane (two UTF-16
			// units, four bytes, one character each), in a comment and in a literal: where the last position of the document is
			for _, tail := range []string{"  -- done 🚀🚀", "  select tag from t where tag = '🎉𝒳'", "\t-- 𝔘𝔫𝔦 ", "select '😀' , \"𝒴\"  "} {
				t2 := strings.TrimRight(text, "\r\n") + "\n" + tail
				lspCheck(t2, lexOf(t2), feature+"+astral-last-line")
			}
		}
	}
	// L007 over the rule's whole keyword table (regenerated from the source): each keyword written in the other case is
	// reported exactly once, at its own line and column, and the fix turns exactly that word
	{
		var kws []string
		if raw, err := os.ReadFile(verifDir + "/gen/lint_keywords.json"); err == nil {
			_ = json.Unmarshal(raw, &kws)
		}
		res.statN("lint_keywords", len(kws))
		for _, kw := range kws {
			for _, st := range []struct {
				style keywords.CaseStyle
				wrong string
				right string
			}{{keywords.CaseUpper, strings.ToLower(kw), strings.ToUpper(kw)}, {keywords.CaseLower, strings.ToUpper(kw), strings.ToLower(kw)}} {
				rule := keywords.NewKeywordCaseRule(st.style)
				text := "x1 y2\n  z3 " + st.wrong + " w4\n"
				res.count("kw|"+text, true)
				vs := linter.New(rule).LintString(text, "k.sql").Violations
				wit := map[string]any{"keyword": kw, "text": text, "style": fmt.Sprint(st.style)}
				if len(vs) != 1 || vs[0].Location.Line != 2 || vs[0].Location.Column != 6 {
					var got []string
					for _, v := range vs {
						got = append(got, fmt.Sprintf("%d:%d", v.Location.Line, v.Location.Column))
					}
					res.fail("check-inexact:L007:keyword-table", "a keyword of the rule's table written in the other case is not reported exactly once at its place", wit, map[string]any{"reported_at": got, "want": "2:6"})
				}
				if fixed, err := rule.Fix(text, nil); err == nil && fixed != "x1 y2\n  z3 "+st.right+" w4\n" {
					res.fail("fix-inexact:L007:keyword-table", "the fix does not turn exactly the keyword", wit, map[string]any{"fixed": fixed})
				}
			}
		}
	}
	cliFixSequence(c, g)
	lintBatches(c, g)
}

// buildGosqlx builds the CLI from /repo's working tree (shared with C19)
func buildGosqlx(res *Result) (string, bool) {
	bin := verifDir + "/.bin/gosqlx"
	b := exec.Command("go", "build", "-o", bin, "./cmd/gosqlx")
	b.Dir = repoDir
	b.Env = append(os.Environ(), "GOFLAGS=-mod=mod", "GOPROXY=off", "GOSUMDB=off", "GOTOOLCHAIN=local")
	if out, err := b.CombinedOutput(); err != nil {
		res.corrFail("cli-build-failed", "go build ./cmd/gosqlx failed: "+truncate(string(out), 600), nil, nil)
		return "", false
	}
	return bin, true
}

var lintRuleID = regexp.MustCompile(`(?m)^\[(L\d+)\]`)

// defect segments for the CLI fix sequence: every ordered pair is laid out one above the other, because the CLI hands
// every fixer the violations of the text as it was before any fix ran
var c17Segments = map[string]string{
	"blank-run":       "\n\n\n\n",
	"repeated-spaces": "SELECT a,  b   FROM t  WHERE  x = 1\n",
	"trailing-blanks": "SELECT c FROM u   \n",
	"lower-keywords":  "select d from v where y = 2\n",
	"mixed-indent":    " \tSELECT e\n\t FROM w\n",
	"clean":           "SELECT f FROM z\n",
	"long-line":       "SELECT aaaaaaaaaaaaaaaaaaaa, bbbbbbbbbbbbbbbbbbbbbbbb, cccccccccccccccccccccc, dddddddddddddddddddddddd, eeeeeeeeeeeeeeeeeeee FROM t\n",
}

// cliFixSequence: `gosqlx lint --auto-fix` on real files — the fix must converge in one run, leave no violation of a
// rule that has a fixer, and keep the tokens
func cliFixSequence(c *runCtx, g *textGen) {
	res := c.res
	bin, ok := buildGosqlx(res)
	if !ok {
		return
	}
	dir := fmt.Sprintf("%s/.work/c17-%d", verifDir, os.Getpid())
	_ = os.RemoveAll(dir)
	_ = os.MkdirAll(dir, 0o755)
	defer os.RemoveAll(dir)
	fixable := map[string]bool{}
	for _, fx := range c17Fixers() {
		fixable[fx.id] = true
	}
	type item struct{ text, shape string }
	var texts []item
	names := sortedStrings(mapKeys(c17Segments))
	for _, a := range names {
		for _, b := range names {
			texts = append(texts, item{c17Segments[a] + c17Segments[b], a + "-above-" + b})
		}
	}
	// line endings: the same segment texts with CRLF ends, and mixed files in which a literal / comment that spans lines
	// (with nothing in it for any fixer to touch) keeps its own bare LF
	plainMultiline := []string{"SELECT 'first\nsecond' AS v FROM t\n", "/* one\ntwo */\n", "SELECT \"a\nb\" FROM t\n"}
	for _, a := range names {
		crlf := strings.ReplaceAll(c17Segments[a], "\n", "\r\n")
		texts = append(texts, item{crlf + crlf, "crlf:" + a})
		for mi, ml := range plainMultiline {
			texts = append(texts, item{crlf + ml + crlf, fmt.Sprintf("mixed-endings-%d:%s", mi, a)})
			texts = append(texts, item{c17Segments[a] + strings.ReplaceAll(ml, "\n", "\r\n"), fmt.Sprintf("mixed-endings-crlf-inside-%d:%s", mi, a)})
		}
	}
	for i := 0; i < c.n(40, 1500); i++ {
		var sb strings.Builder
		var parts []string
		for k := 2 + g.r.Intn(4); k > 0; k-- {
			n := g.r.Pick(names)
			parts = append(parts, n)
			sb.WriteString(c17Segments[n])
		}
		texts = append(texts, item{sb.String(), "segments"})
		texts = append(texts, item{g.tame(), "tame"})
	}
	file := filepath.Join(dir, "a.sql")
	for _, it := range texts {
		if !utf8.ValidString(it.text) {
			continue
		}
		_ = os.WriteFile(file, []byte(it.text), 0o644)
		r1 := runCLI(bin, dir, "", "lint", "--auto-fix", "a.sql")
		after1, _ := os.ReadFile(file)
		r2 := runCLI(bin, dir, "", "lint", "--auto-fix", "a.sql")
		after2, _ := os.ReadFile(file)
		recheck := runCLI(bin, dir, "", "lint", "a.sql")
		res.count("cli-fix|"+it.text, true)
		if strings.Contains(it.shape, ":") {
			res.stat("cli-fix:" + it.shape[:strings.Index(it.shape, ":")])
		} else if strings.Contains(it.shape, "-above-") {
			res.stat("cli-fix:ordered-pair")
		} else {
			res.stat("cli-fix:" + it.shape)
		}
		wit := map[string]any{"command": "gosqlx lint --auto-fix a.sql", "file": it.text, "shape": it.shape}
		if r1.exit == -9 || r2.exit == -9 {
			res.fail("cli-autofix-hangs", "lint --auto-fix did not return within 30 s", wit, nil)
			continue
		}
		if string(after2) != string(after1) {
			res.fail("cli-autofix-not-idempotent", "a second `lint --auto-fix` changes the file the first one left", wit, map[string]any{"once": string(after1), "twice": string(after2)})
		}
		left := map[string]bool{}
		for _, m := range lintRuleID.FindAllStringSubmatch(recheck.stdout, -1) {
			if fixable[m[1]] {
				left[m[1]] = true
			}
		}
		for _, id := range sortedStrings(mapKeys(left)) {
			res.fail("cli-autofix-leaves-violation:"+id, "after `lint --auto-fix` the file still violates a rule whose fix was applied", wit,
				map[string]any{"file_after": string(after1), "lint_after": truncate(recheck.stdout, 600)})
		}
		if orig := lexOf(it.text); orig.ok {
			if shape := diffShape(orig, lexOf(string(after1))); shape != "" {
				res.fail("cli-autofix-changes-tokens:"+shape, "`lint --auto-fix` changes the token sequence / comment texts of the file", wit, map[string]any{"file_after": string(after1)})
			}
		}
	}
}

func mapKeys[V any](m map[string]V) []string {
	ks := make([]string, 0, len(m))
	for k := range m {
		ks = append(ks, k)
	}
	return ks
}

func checkExactness(res *Result, text string) {
	lines := strings.Split(text, "\n")
	lineSet := func(vs []linter.Violation) map[int]bool {
		m := map[int]bool{}
		for _, v := range vs {
			m[v.Location.Line] = true
		}
		return m
	}
	// L001: a line has trailing blanks (space/tab at its end; a CR terminator does not count)
	got := lineSet(linter.New(whitespace.NewTrailingWhitespaceRule()).LintString(text, "x").Violations)
	for i, l := range lines {
		want := strings.HasSuffix(l, " ") || strings.HasSuffix(l, "\t")
		if want != got[i+1] {
			res.fail("check-inexact:L001", fmt.Sprintf("trailing-whitespace check and the line disagree (line %d: has defect=%v, reported=%v)", i+1, want, got[i+1]), map[string]any{"text": text}, nil)
		}
	}
	// L005: over-long line
	got = lineSet(linter.New(whitespace.NewLongLinesRule(40)).LintString(text, "x").Violations)
	for i, l := range lines {
		want := len(strings.TrimRight(l, "\r")) > 40 || len(l) > 40
		if got[i+1] && !want {
			res.fail("check-inexact:L005", fmt.Sprintf("long-line check reports line %d which is not over-long", i+1), map[string]any{"text": text}, nil)
		}
		if !got[i+1] && len([]rune(l)) > 41 && !strings.HasPrefix(strings.TrimSpace(l), "--") {
			res.fail("check-inexact:L005", fmt.Sprintf("long-line check misses over-long line %d", i+1), map[string]any{"text": text}, nil)
		}
	}
	// L003: more than one consecutive blank line: the report names the first line of the run
	got = lineSet(linter.New(whitespace.NewConsecutiveBlankLinesRule(1)).LintString(text, "x").Violations)
	run, start := 0, 0
	flush := func() {
		if run > 1 && !got[start] {
			res.fail("check-inexact:L003", fmt.Sprintf("blank-line check misses the run starting at line %d", start), map[string]any{"text": text}, nil)
		}
	}
	for i, l := range lines {
		if strings.TrimSpace(l) == "" {
			if run == 0 {
				start = i + 1
			}
			run++
		} else {
			flush()
			run = 0
		}
	}
	flush()
	for ln := range got {
		if ln < 1 || ln > len(lines) || strings.TrimSpace(lines[ln-1]) != "" {
			res.fail("check-inexact:L003", fmt.Sprintf("blank-line check reports line %d which is not blank", ln), map[string]any{"text": text}, nil)
		}
	}
	// L002: tab/space mix inside one line's indentation
	got = lineSet(linter.New(whitespace.NewMixedIndentationRule()).LintString(text, "x").Violations)
	for i, l := range lines {
		lead := l[:len(l)-len(strings.TrimLeft(l, " \t"))]
		if strings.Contains(lead, " ") && strings.Contains(lead, "\t") && !got[i+1] {
			res.fail("check-inexact:L002", fmt.Sprintf("mixed-indentation check misses line %d", i+1), map[string]any{"text": text}, nil)
		}
	}
}

// lintBatches: one LintFiles / LintDirectory call over several files gives, for each file, the violations that linting
// that file alone gives (rule, place, message) — read after the whole call has returned, as a caller does
func lintBatches(c *runCtx, g *textGen) {
	res := c.res
	dir, err := os.MkdirTemp("", "vx-c17-batch-")
	if err != nil {
		res.Notes = append(res.Notes, "lint batches skipped: "+err.Error())
		return
	}
	defer os.RemoveAll(dir)
	var rules []linter.Rule
	for _, fx := range c17Fixers() {
		rules = append(rules, fx.rule)
	}
	l := linter.New(rules...)
	key := func(vs []linter.Violation) string {
		var b strings.Builder
		for _, v := range vs {
			b.WriteString(fmt.Sprintf("%s|%d:%d|%s|%s\n", v.Rule, v.Location.Line, v.Location.Column, v.Message, v.Line))
		}
		return b.String()
	}
	featNames := hostileFeatureNames()
	for round := 0; round < c.n(60, 1200); round++ {
		k := 2 + g.r.Intn(6)
		var names, texts []string
		sub := filepath.Join(dir, fmt.Sprintf("r%d", round))
		_ = os.MkdirAll(sub, 0o755)
		for i := 0; i < k; i++ {
			var text string
			switch g.r.Intn(5) {
			case 0:
				text = "SELECT a FROM t\n" // clean
			case 1:
				text = "select a  \nfrom t \t\n\n\n\n\tselect b   \n  \tfrom u\n" // many violations
			case 2:
				text = "SELECT a FROM t   \n" // exactly one
			case 3:
				text = g.hostile(featNames[g.r.Intn(len(featNames))])
			default:
				text = g.tame()
			}
			name := filepath.Join(sub, fmt.Sprintf("f%02d.sql", i))
			if os.WriteFile(name, []byte(text), 0o644) != nil {
				return
			}
			names, texts = append(names, name), append(texts, text)
		}
		batch := l.LintFiles(names)
		dirRes := l.LintDirectory(sub, "*.sql")
		res.count("batch|"+strings.Join(texts, "\x00"), true)
		wit := map[string]any{"files": len(names), "texts": texts}
		if len(batch.Files) != k {
			res.fail("lint-batch:file-count", "LintFiles returns another number of file results than files given", wit, map[string]any{"got": len(batch.Files)})
			continue
		}
		total := 0
		byName := map[string]string{}
		for _, fr := range dirRes.Files {
			byName[fr.Filename] = key(fr.Violations)
		}
		for i, fr := range batch.Files {
			alone := key(l.LintFile(names[i]).Violations)
			str := key(l.LintString(texts[i], names[i]).Violations)
			total += len(fr.Violations)
			if fr.Filename != names[i] || key(fr.Violations) != alone || alone != str {
				res.fail("lint-batch:differs-from-single-file", "the violations LintFiles reports for a file are not those of linting that file alone", wit,
					map[string]any{"file_index": i, "batch": key(fr.Violations), "alone": alone})
				break
			}
			if d, ok := byName[names[i]]; !ok || d != alone {
				res.fail("lint-batch:directory-differs", "the violations LintDirectory reports for a file are not those of linting that file alone", wit, map[string]any{"file_index": i, "directory": d, "alone": alone})
				break
			}
		}
		if batch.TotalViolations != total || batch.TotalFiles != k {
			res.fail("lint-batch:totals", "the totals of a LintFiles result do not equal its file results", wit, map[string]any{"total_violations": batch.TotalViolations, "sum": total, "total_files": batch.TotalFiles})
		}
	}
}
