package main

import (
	"bytes"
	"fmt"
	"go/ast"
	"go/printer"
	"go/token"
	"path/filepath"
	"strings"
)

// CollectorCase: one case of a collector's type switch.
//
//	Records : each record is the list of argument paths (field chains from the case variable; ranging over a
//	          slice does not add a path element) of `m[<chain>] = true` / `addTable(<chain>)` / `addColumn(<c>, <c>)`
//	Guards  : source text of the innermost `if` around each record ("" when unguarded)
//	Descend : chains handed to collectFromExpression
//	NodeRec : chains handed to collectFromNode (explicit recursion into a child node)
type CollectorCase struct {
	Type    string       `json:"type"`
	Records [][][]string `json:"records"`
	Guards  []string     `json:"guards"`
	Descend [][]string   `json:"descend"`
	NodeRec [][]string   `json:"node_rec"`
}

type CollectorFacts struct {
	Name     string          `json:"name"`
	Node     []CollectorCase `json:"node"`     // collectFromNode
	Expr     []CollectorCase `json:"expr"`     // collectFromExpression
	Recurses bool            `json:"recurses"` // collectFromNode ends with `for _, c := range node.Children() { x.collectFromNode(c) }`
}

func extractCollectors(l *loaded) ([]CollectorFacts, error) {
	p := l.pkgs["pkg/gosqlx"]
	if p == nil {
		return nil, fmt.Errorf("pkg/gosqlx not loaded")
	}
	exprStr := func(e ast.Expr) string {
		var b bytes.Buffer
		_ = printer.Fprint(&b, token.NewFileSet(), e)
		return b.String()
	}
	names := []string{"tableCollector", "qualifiedTableCollector", "columnCollector", "qualifiedColumnCollector", "functionCollector"}
	facts := map[string]*CollectorFacts{}
	for _, n := range names {
		facts[n] = &CollectorFacts{Name: n}
	}
	for _, f := range p.Syntax {
		for _, d := range f.Decls {
			fd, ok := d.(*ast.FuncDecl)
			if !ok || fd.Recv == nil || fd.Body == nil {
				continue
			}
			if fd.Name.Name != "collectFromNode" && fd.Name.Name != "collectFromExpression" {
				continue
			}
			recvT := ""
			if se, ok := fd.Recv.List[0].Type.(*ast.StarExpr); ok {
				if id, ok := se.X.(*ast.Ident); ok {
					recvT = id.Name
				}
			}
			cf := facts[recvT]
			if cf == nil {
				continue
			}
			recvName := fd.Recv.List[0].Names[0].Name
			var cases []CollectorCase
			for _, st := range fd.Body.List {
				ts, ok := st.(*ast.TypeSwitchStmt)
				if !ok {
					continue
				}
				caseVar := ""
				if as, ok := ts.Assign.(*ast.AssignStmt); ok {
					caseVar = as.Lhs[0].(*ast.Ident).Name
				}
				for _, c := range ts.Body.List {
					cc := c.(*ast.CaseClause)
					for _, t := range cc.List {
						tn := ""
						if se, ok := t.(*ast.StarExpr); ok {
							if sel, ok := se.X.(*ast.SelectorExpr); ok {
								tn = sel.Sel.Name
							}
						}
						if tn == "" {
							continue
						}
						cs := CollectorCase{Type: tn}
						env := map[string][]string{caseVar: {}}
						var chain func(e ast.Expr) ([]string, bool)
						chain = func(e ast.Expr) ([]string, bool) {
							switch x := e.(type) {
							case *ast.Ident:
								pth, ok := env[x.Name]
								return append([]string{}, pth...), ok
							case *ast.SelectorExpr:
								base, ok := chain(x.X)
								if !ok {
									return nil, false
								}
								return append(base, x.Sel.Name), true
							case *ast.UnaryExpr:
								if x.Op == token.AND {
									return chain(x.X)
								}
							case *ast.ParenExpr:
								return chain(x.X)
							}
							return nil, false
						}
						var walk func(n ast.Node, guard string)
						walk = func(n ast.Node, guard string) {
							switch s := n.(type) {
							case *ast.BlockStmt:
								for _, x := range s.List {
									walk(x, guard)
								}
							case *ast.IfStmt:
								walk(s.Body, exprStr(s.Cond))
								if s.Else != nil {
									walk(s.Else, "else:"+exprStr(s.Cond))
								}
							case *ast.RangeStmt:
								if pth, ok := chain(s.X); ok {
									if id, ok := s.Value.(*ast.Ident); ok {
										env[id.Name] = pth
									}
								}
								walk(s.Body, guard)
							case *ast.AssignStmt:
								// local copy `x := x` keeps the binding; map store records
								if len(s.Lhs) == 1 && len(s.Rhs) == 1 {
									if ix, ok := s.Lhs[0].(*ast.IndexExpr); ok {
										if sel, ok := ix.X.(*ast.SelectorExpr); ok {
											if id, ok := sel.X.(*ast.Ident); ok && id.Name == recvName {
												if pth, ok := chain(ix.Index); ok {
													cs.Records = append(cs.Records, [][]string{pth})
													cs.Guards = append(cs.Guards, guard)
												} else {
													cs.Records = append(cs.Records, [][]string{{"?" + exprStr(ix.Index)}})
													cs.Guards = append(cs.Guards, guard)
												}
											}
										}
									}
									if lid, ok := s.Lhs[0].(*ast.Ident); ok {
										if pth, ok := chain(s.Rhs[0]); ok && s.Tok == token.DEFINE {
											env[lid.Name] = pth
										}
									}
								}
							case *ast.ExprStmt:
								ce, ok := s.X.(*ast.CallExpr)
								if !ok {
									return
								}
								sel, ok := ce.Fun.(*ast.SelectorExpr)
								if !ok {
									return
								}
								if id, ok := sel.X.(*ast.Ident); !ok || id.Name != recvName {
									return
								}
								var args [][]string
								for _, a := range ce.Args {
									if pth, ok := chain(a); ok {
										args = append(args, pth)
									} else {
										args = append(args, []string{"?" + exprStr(a)})
									}
								}
								switch sel.Sel.Name {
								case "collectFromExpression":
									cs.Descend = append(cs.Descend, args[0])
								case "collectFromNode":
									cs.NodeRec = append(cs.NodeRec, args[0])
								default: // addTable / addColumn
									cs.Records = append(cs.Records, args)
									cs.Guards = append(cs.Guards, guard)
								}
							}
						}
						for _, b := range cc.Body {
							walk(b, "")
						}
						cases = append(cases, cs)
					}
				}
			}
			if fd.Name.Name == "collectFromNode" {
				cf.Node = cases
				// last statement: range over node.Children() calling collectFromNode on each
				last := fd.Body.List[len(fd.Body.List)-1]
				if rs, ok := last.(*ast.RangeStmt); ok {
					if ce, ok := rs.X.(*ast.CallExpr); ok {
						if sel, ok := ce.Fun.(*ast.SelectorExpr); ok && sel.Sel.Name == "Children" && len(rs.Body.List) == 1 {
							if es, ok := rs.Body.List[0].(*ast.ExprStmt); ok {
								if c2, ok := es.X.(*ast.CallExpr); ok {
									if s2, ok := c2.Fun.(*ast.SelectorExpr); ok && s2.Sel.Name == "collectFromNode" {
										cf.Recurses = true
									}
								}
							}
						}
					}
				}
			} else {
				cf.Expr = cases
			}
		}
	}
	var out []CollectorFacts
	for _, n := range names {
		out = append(out, *facts[n])
	}
	return out, nil
}

func leanPath(p []string) string { return leanStrList(p) }

func leanPaths(ps [][]string) string {
	var xs []string
	for _, p := range ps {
		xs = append(xs, leanPath(p))
	}
	return "[" + strings.Join(xs, ", ") + "]"
}

func extractRest10(l *loaded, genDir, jsonDir string) error {
	facts, err := extractCollectors(l)
	if err != nil {
		return err
	}
	if err := writeJSON(jsonDir+"/collectors.json", facts); err != nil {
		return err
	}
	var b strings.Builder
	b.WriteString(genHeader)
	b.WriteString("namespace GoSQLXModel.Gen.Extract\n\n")
	b.WriteString("/-- one case of a collector's type switch: (node type, records (each: argument paths), guards, collectFromExpression starts) -/\n")
	b.WriteString("abbrev Case := String × List (List (List String)) × List String × List (List String)\n\n")
	emit := func(name string, cs []CollectorCase) {
		fmt.Fprintf(&b, "def %s : List Case := [", name)
		for i, c := range cs {
			if i > 0 {
				b.WriteString(",")
			}
			var recs []string
			for _, r := range c.Records {
				recs = append(recs, leanPaths(r))
			}
			fmt.Fprintf(&b, "\n  (%s, [%s], %s, %s)", leanStr(c.Type), strings.Join(recs, ", "), leanStrList(c.Guards), leanPaths(c.Descend))
		}
		b.WriteString("]\n")
	}
	for _, f := range facts {
		emit(f.Name+"_node", f.Node)
		emit(f.Name+"_expr", f.Expr)
		fmt.Fprintf(&b, "def %s_recurses : Bool := %v\n\n", f.Name, f.Recurses)
	}
	b.WriteString("end GoSQLXModel.Gen.Extract\n")
	if _, err := writeIfChanged(filepath.Join(genDir, "ExtractTables.lean"), []byte(b.String())); err != nil {
		return err
	}
	return extractRest11(l, genDir, jsonDir)
}
