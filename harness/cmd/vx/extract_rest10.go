package main

func extractRest10(l *loaded, genDir, jsonDir string) error { return nil }
