package main

import (
	"context"
	"fmt"

	"github.com/ajitpratap0/GoSQLX/pkg/gosqlx"
	"github.com/ajitpratap0/GoSQLX/pkg/sql/ast"
	"github.com/ajitpratap0/GoSQLX/pkg/sql/keywords"
	"github.com/ajitpratap0/GoSQLX/pkg/sql/parser"
	"github.com/ajitpratap0/GoSQLX/pkg/sql/tokenizer"
)

// pollutePools plays the part of earlier holders of the pooled objects: holders that configured an instance and
// returned it without using it, holders whose call failed, was cancelled or hit a limit, holders whose input was laid
// out over many lines. Whatever a later caller observes must not depend on it (C08); checks that compare entry
// points, errors or locations call it between probes so that a leak of pooled state becomes visible to them.
// a panic raised while playing an earlier holder is itself a finding (C01): it is kept and reported by every run
var pollutionPanics []string

func pollutePools(variant int) {
	defer func() {
		if r := recover(); r != nil && len(pollutionPanics) < 5 {
			pollutionPanics = append(pollutionPanics, fmt.Sprintf("variant %d: %v", variant%6, r))
		}
	}()
	switch variant % 6 {
	case 0: // configured, never used
		p := parser.GetParser()
		p.ApplyOptions(parser.WithStrictMode(), parser.WithDialect("mysql"))
		parser.PutParser(p)
		t := tokenizer.GetTokenizer()
		t.SetDialect(keywords.DialectMySQL)
		tokenizer.PutTokenizer(t)
	case 1: // configured and used on an input that fails late, on a later line
		p := parser.GetParser()
		p.ApplyOptions(parser.WithStrictMode(), parser.WithDialect("postgresql"))
		t := tokenizer.GetTokenizer()
		if toks, err := t.Tokenize([]byte("SELECT a,\n\tb\nFROM t\nWHERE (a = 1 AND (b = 2\n")); err == nil {
			_, _ = p.ParseFromModelTokensWithPositions(toks)
		}
		tokenizer.PutTokenizer(t)
		parser.PutParser(p)
	case 2: // a lexical failure far into a multi-line input
		t := tokenizer.GetTokenizer()
		_, _ = t.Tokenize([]byte("/* c\n\n*/ SELECT\n\n\n   'abc"))
		tokenizer.PutTokenizer(t)
		t = tokenizer.GetTokenizer()
		_, _ = t.TokenizeContext(context.Background(), []byte("\n\n\n\n\t\t\t`never closed"))
		tokenizer.PutTokenizer(t)
	case 3: // a cancelled call in the middle of a nested construct
		ctx := &pollCtx{Context: context.Background(), k: 9, err: context.Canceled}
		_, _ = gosqlx.ParseWithContext(ctx, "SELECT a FROM t WHERE a IN (1, 2, (SELECT b FROM u WHERE c BETWEEN 1 AND (SELECT 2)))")
	case 4: // a depth-limit rejection and a recovery run with failures
		_, _ = gosqlx.Parse("SELECT " + repeatStr("(", 150) + "1" + repeatStr(")", 150))
		_, _ = gosqlx.ParseWithRecovery("SELECT (1 + ; SELECT FROM; WITH c AS (SELECT (((1 ; SELECT 1")
	case 5: // trees with every kind of pooled node, released
		if tree, err := gosqlx.Parse("SELECT a[1], b[2:3], CASE WHEN c IS NULL THEN f(d) ELSE (SELECT 1) END, e BETWEEN 1 AND 2, g IN (1, 2), CAST(h AS INT), (i, j), ARRAY[1, 2] FROM t JOIN u ON t.k = u.k WHERE EXISTS (SELECT 1) GROUP BY a HAVING COUNT(*) > 1 ORDER BY a LIMIT 1"); err == nil {
			ast.ReleaseAST(tree)
		}
	}
}

func repeatStr(s string, n int) string {
	b := make([]byte, 0, len(s)*n)
	for i := 0; i < n; i++ {
		b = append(b, s...)
	}
	return string(b)
}
