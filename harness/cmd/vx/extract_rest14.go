package main

import (
	"fmt"
	"go/ast"
	"go/printer"
	"go/token"
	"path/filepath"
	"sort"
	"strings"
)

// extractRest14: structural facts about loops and pools.
//
//  1. Every `for` loop of pkg/sql/parser that is not a range loop or a counted loop, classified by how it is left when
//     the tokens run out (the current token stays the end marker, or the stale last token, for ever):
//     "positive" — the condition is a conjunction/disjunction of token tests without negation (no test is satisfied by
//     the end marker, so the loop is left there); "eof" — the condition tests the end marker or the token index;
//     "guarded" — an unconditional or negated loop whose body either calls a fallible parse function and returns its
//     error, or leaves the loop (break/return) in the else/negated branch of a token test. Anything else is "open":
//     a loop that can spin on the end marker. Each loop must also consume or fail: its body calls advance(), a parse*
//     / expect* method, or leaves.
//  2. PutExpression & co.: a node returned to a pool goes to the pool its Get function draws that type from.
//  3. Children() methods never take the address of a range variable (every child would alias the last element under
//     the go 1.21 loop semantics the module declares).
func extractRest14(l *loaded, genDir, jsonDir string) error {
	type loop struct {
		Where string   `json:"where"`
		Class string   `json:"class"`
		Moves bool     `json:"moves"`
		Words []string `json:"words,omitempty"` // for a loop that fails the criterion: the words its function tests for (search hints)
	}
	var loops []loop
	pp := l.pkgs["pkg/sql/parser"]
	if pp == nil {
		return fmt.Errorf("pkg/sql/parser not loaded")
	}
	src := func(n ast.Node) string { return nodeText(l.fset, n) }
	isTokenTest := func(e ast.Expr) bool {
		call, ok := e.(*ast.CallExpr)
		if !ok {
			return false
		}
		sel, ok := call.Fun.(*ast.SelectorExpr)
		if !ok {
			return false
		}
		n := sel.Sel.Name
		return strings.HasPrefix(n, "is") || strings.HasPrefix(n, "peekIs") || strings.HasPrefix(n, "match")
	}
	var positive func(e ast.Expr) bool
	positive = func(e ast.Expr) bool {
		switch x := e.(type) {
		case *ast.ParenExpr:
			return positive(x.X)
		case *ast.BinaryExpr:
			if x.Op == token.LOR || x.Op == token.LAND {
				return positive(x.X) && positive(x.Y)
			}
			return false
		case *ast.CallExpr:
			return isTokenTest(x) && !strings.Contains(src(x), "TokenTypeEOF")
		}
		return false
	}
	var negOnly func(e ast.Expr) bool // a conjunction of negated token tests: true exactly when the token is none of those expected
	negOnly = func(e ast.Expr) bool {
		switch x := e.(type) {
		case *ast.ParenExpr:
			return negOnly(x.X)
		case *ast.BinaryExpr:
			return x.Op == token.LAND && negOnly(x.X) && negOnly(x.Y)
		case *ast.UnaryExpr:
			return x.Op == token.NOT && isTokenTest(x.X)
		}
		return false
	}
	var hasPositive func(e ast.Expr) bool // a token test somewhere in the condition, not under a negation
	hasPositive = func(e ast.Expr) bool {
		switch x := e.(type) {
		case *ast.ParenExpr:
			return hasPositive(x.X)
		case *ast.BinaryExpr:
			return hasPositive(x.X) || hasPositive(x.Y)
		case *ast.CallExpr:
			return isTokenTest(x)
		}
		return false
	}
	leaves := func(b *ast.BlockStmt) bool {
		found := false
		ast.Inspect(b, func(n ast.Node) bool {
			switch x := n.(type) {
			case *ast.FuncLit, *ast.ForStmt, *ast.RangeStmt:
				return false
			case *ast.BranchStmt:
				if x.Tok == token.BREAK {
					found = true
				}
			case *ast.ReturnStmt:
				found = true
			}
			return true
		})
		return found
	}
	for _, f := range pp.Syntax {
		fname := filepath.Base(l.fset.Position(f.Pos()).Filename)
		if strings.HasSuffix(fname, "_test.go") || strings.HasPrefix(fname, "verif_") {
			continue
		}
		for _, d := range f.Decls {
			fd, ok := d.(*ast.FuncDecl)
			if !ok || fd.Body == nil {
				continue
			}
			ast.Inspect(fd.Body, func(n ast.Node) bool {
				fs, ok := n.(*ast.ForStmt)
				if !ok {
					return true
				}
				if fs.Init != nil || fs.Post != nil {
					return true // counted loop
				}
				cond := ""
				if fs.Cond != nil {
					cond = src(fs.Cond)
				}
				if fs.Cond != nil && !strings.Contains(cond, "p.") {
					return true // not a loop over the token stream
				}
				if fs.Cond == nil && !strings.Contains(src(fs.Body), "p.") {
					return true // a walk over a tree or a slice, no parser state involved
				}
				class := "open"
				switch {
				case fs.Cond != nil && positive(fs.Cond):
					class = "positive"
				case fs.Cond != nil && (strings.Contains(cond, "TokenTypeEOF") || strings.Contains(cond, "currentPos <")):
					class = "eof"
				default:
					// unconditional or negated: look for the two guarded shapes in the body
					guarded := false
					ast.Inspect(fs.Body, func(m ast.Node) bool {
						switch x := m.(type) {
						case *ast.FuncLit:
							return false
						case *ast.IfStmt:
							c := src(x.Cond)
							// a fallible call whose error leaves the function
							if strings.Contains(c, "err != nil") && leaves(x.Body) {
								guarded = true
							}
							// leaving in the else branch of a positive token test / in the then branch of a negated one
							if hasPositive(x.Cond) {
								if blk, ok := x.Else.(*ast.BlockStmt); ok && leaves(blk) && !strings.Contains(c, "!") {
									guarded = true
								}
								if strings.HasPrefix(strings.TrimSpace(c), "!") && !strings.Contains(c, "||") && leaves(x.Body) {
									guarded = true
								}
							}
							if strings.Contains(c, "TokenTypeEOF") && leaves(x.Body) {
								guarded = true
							}
							// "none of the expected tokens here": leaves
							if negOnly(x.Cond) && leaves(x.Body) {
								guarded = true
							}
						}
						return true
					})
					// a body that ends by leaving: the loop goes round only through `continue`, and every `continue` sits
					// under a positive token test
					if n := len(fs.Body.List); n > 0 {
						last := fs.Body.List[n-1]
						endsLeaving := false
						if br, ok := last.(*ast.BranchStmt); ok && br.Tok == token.BREAK {
							endsLeaving = true
						}
						if _, ok := last.(*ast.ReturnStmt); ok {
							endsLeaving = true
						}
						if endsLeaving {
							allUnderTest := true
							var walk func(n ast.Node, under bool)
							walk = func(n ast.Node, under bool) {
								switch x := n.(type) {
								case nil:
								case *ast.BlockStmt:
									for _, st := range x.List {
										walk(st, under)
									}
								case *ast.IfStmt:
									u := under || (hasPositive(x.Cond) && !strings.Contains(src(x.Cond), "!"))
									walk(x.Body, u)
									if x.Else != nil {
										walk(x.Else, under)
									}
								case *ast.BranchStmt:
									if x.Tok == token.CONTINUE && !under {
										allUnderTest = false
									}
								case *ast.SwitchStmt, *ast.TypeSwitchStmt, *ast.SelectStmt:
									ast.Inspect(x, func(m ast.Node) bool {
										if b, ok := m.(*ast.BranchStmt); ok && b.Tok == token.CONTINUE {
											allUnderTest = false
										}
										return true
									})
								}
							}
							walk(fs.Body, false)
							if allUnderTest {
								guarded = true
							}
						}
					}
					if guarded {
						class = "guarded"
					}
				}
				moves := false
				ast.Inspect(fs.Body, func(m ast.Node) bool {
					if call, ok := m.(*ast.CallExpr); ok {
						if sel, ok := call.Fun.(*ast.SelectorExpr); ok {
							n := sel.Sel.Name
							if n == "advance" || strings.HasPrefix(n, "parse") || strings.HasPrefix(n, "expect") || strings.HasPrefix(n, "consume") || strings.HasPrefix(n, "skip") || n == "synchronize" {
								moves = true
							}
						}
					}
					return true
				})
				if leaves(fs.Body) && fs.Cond == nil {
					moves = moves || true
				}
				pos := l.fset.Position(fs.Pos())
				var words []string
				if class == "open" || !moves {
					seen := map[string]bool{}
					ast.Inspect(fd.Body, func(m ast.Node) bool {
						switch x := m.(type) {
						case *ast.BasicLit:
							if x.Kind == token.STRING {
								w := strings.Trim(x.Value, "\"`")
								if len(w) >= 2 && len(w) <= 24 && w == strings.ToUpper(w) && strings.IndexFunc(w, func(r rune) bool { return !(r >= 'A' && r <= 'Z' || r == '_' || r == ' ') }) < 0 {
									seen[w] = true
								}
							}
						case *ast.SelectorExpr:
							if strings.HasPrefix(x.Sel.Name, "TokenType") {
								seen[strings.ToUpper(strings.TrimPrefix(x.Sel.Name, "TokenType"))] = true
							}
						}
						return true
					})
					for w := range seen {
						words = append(words, w)
					}
					sort.Strings(words)
				}
				loops = append(loops, loop{fmt.Sprintf("%s:%s:%d", fname, fd.Name.Name, pos.Line), class, moves, words})
				return true
			})
		}
	}
	sort.Slice(loops, func(i, j int) bool { return loops[i].Where < loops[j].Where })

	// 2. pools: type switch cases of the Put* functions of pkg/sql/ast/pool.go: which pool variable receives the node,
	// and which pool variable the Get function of that type reads
	type poolUse struct {
		Type string `json:"type"`
		Put  string `json:"put_pool"`
		Get  string `json:"get_pool"`
		In   string `json:"in"`
	}
	var pools []poolUse
	pa := l.pkgs["pkg/sql/ast"]
	if pa == nil {
		return fmt.Errorf("pkg/sql/ast not loaded")
	}
	getPool := map[string]string{} // node type -> pool variable its Get<Type>() reads
	for _, f := range pa.Syntax {
		for _, d := range f.Decls {
			fd, ok := d.(*ast.FuncDecl)
			if !ok || fd.Body == nil || fd.Recv != nil || !strings.HasPrefix(fd.Name.Name, "Get") {
				continue
			}
			ast.Inspect(fd.Body, func(n ast.Node) bool {
				ta, ok := n.(*ast.TypeAssertExpr)
				if !ok || ta.Type == nil {
					return true
				}
				call, ok := ta.X.(*ast.CallExpr)
				if !ok {
					return true
				}
				sel, ok := call.Fun.(*ast.SelectorExpr)
				if !ok || sel.Sel.Name != "Get" {
					return true
				}
				ty := strings.TrimPrefix(src(ta.Type), "*")
				getPool[ty] = src(sel.X)
				return true
			})
		}
	}
	for _, f := range pa.Syntax {
		for _, d := range f.Decls {
			fd, ok := d.(*ast.FuncDecl)
			if !ok || fd.Body == nil || fd.Recv != nil || !(strings.HasPrefix(fd.Name.Name, "Put") || strings.HasPrefix(fd.Name.Name, "put") || strings.HasPrefix(fd.Name.Name, "release")) {
				continue
			}
			// (a) Put<T>(x *T): every <pool>.Put(x) in the body
			paramType := map[string]string{}
			for _, p := range fd.Type.Params.List {
				for _, nm := range p.Names {
					paramType[nm.Name] = strings.TrimPrefix(src(p.Type), "*")
				}
			}
			ast.Inspect(fd.Body, func(n ast.Node) bool {
				switch x := n.(type) {
				case *ast.TypeSwitchStmt:
					for _, cl := range x.Body.List {
						cc := cl.(*ast.CaseClause)
						if len(cc.List) != 1 {
							continue
						}
						ty := strings.TrimPrefix(src(cc.List[0]), "*")
						for _, st := range cc.Body {
							ast.Inspect(st, func(m ast.Node) bool {
								if call, ok := m.(*ast.CallExpr); ok {
									if sel, ok := call.Fun.(*ast.SelectorExpr); ok && sel.Sel.Name == "Put" && strings.HasSuffix(src(sel.X), "Pool") {
										pools = append(pools, poolUse{ty, src(sel.X), getPool[ty], fd.Name.Name})
									}
								}
								return true
							})
						}
					}
					return false
				case *ast.CallExpr:
					if sel, ok := x.Fun.(*ast.SelectorExpr); ok && sel.Sel.Name == "Put" && strings.HasSuffix(src(sel.X), "Pool") && len(x.Args) == 1 {
						if id, ok := x.Args[0].(*ast.Ident); ok {
							if ty, ok := paramType[id.Name]; ok {
								pools = append(pools, poolUse{ty, src(sel.X), getPool[ty], fd.Name.Name})
							}
						}
					}
				}
				return true
			})
		}
	}
	sort.Slice(pools, func(i, j int) bool { return pools[i].In+pools[i].Type < pools[j].In+pools[j].Type })

	// 3. &rangeVar inside Children()
	var rangeAddr []string
	for _, f := range pa.Syntax {
		for _, d := range f.Decls {
			fd, ok := d.(*ast.FuncDecl)
			if !ok || fd.Body == nil || fd.Name.Name != "Children" {
				continue
			}
			ast.Inspect(fd.Body, func(n ast.Node) bool {
				rs, ok := n.(*ast.RangeStmt)
				if !ok {
					return true
				}
				vars := map[string]bool{}
				for _, e := range []ast.Expr{rs.Key, rs.Value} {
					if id, ok := e.(*ast.Ident); ok && id.Name != "_" {
						vars[id.Name] = true
					}
				}
				shadowed := map[string]bool{}
				ast.Inspect(rs.Body, func(m ast.Node) bool {
					switch x := m.(type) {
					case *ast.AssignStmt:
						if x.Tok == token.DEFINE {
							for i, lhs := range x.Lhs {
								if id, ok := lhs.(*ast.Ident); ok && vars[id.Name] && i < len(x.Rhs) {
									if rid, ok := x.Rhs[i].(*ast.Ident); ok && rid.Name == id.Name {
										shadowed[id.Name] = true // x := x : a fresh copy per iteration
									}
								}
							}
						}
					case *ast.UnaryExpr:
						if x.Op == token.AND {
							if id, ok := x.X.(*ast.Ident); ok && vars[id.Name] && !shadowed[id.Name] {
								recv := ""
								if fd.Recv != nil && len(fd.Recv.List) > 0 {
									recv = strings.TrimPrefix(src(fd.Recv.List[0].Type), "*")
								}
								rangeAddr = append(rangeAddr, fmt.Sprintf("%s.Children:%d:&%s", recv, l.fset.Position(x.Pos()).Line, id.Name))
							}
						}
					}
					return true
				})
				return true
			})
		}
	}
	sort.Strings(rangeAddr)
	if err := writeJSON(jsonDir+"/structure.json", map[string]any{"parser_loops": loops, "pool_puts": pools, "children_range_addr": rangeAddr}); err != nil {
		return err
	}
	var b strings.Builder
	b.WriteString(genHeader)
	b.WriteString("namespace GoSQLXModel.Gen.Structure\n\n/-- loops of pkg/sql/parser over the token stream: (where, class, consumes-or-leaves) -/\ndef parserLoops : List (String × String × Bool) := [")
	for i, e := range loops {
		if i > 0 {
			b.WriteString(",\n  ")
		}
		fmt.Fprintf(&b, "(%s, %s, %v)", leanStr(e.Where), leanStr(e.Class), e.Moves)
	}
	b.WriteString("]\n\n/-- pool returns of pkg/sql/ast: (function, node type, pool it is put into, pool its Get draws from) -/\ndef poolPuts : List (String × String × String × String) := [")
	for i, e := range pools {
		if i > 0 {
			b.WriteString(",\n  ")
		}
		fmt.Fprintf(&b, "(%s, %s, %s, %s)", leanStr(e.In), leanStr(e.Type), leanStr(e.Put), leanStr(e.Get))
	}
	b.WriteString("]\n\n/-- addresses of range variables taken inside Children() methods -/\ndef childrenRangeAddr : List String := [")
	for i, e := range rangeAddr {
		if i > 0 {
			b.WriteString(", ")
		}
		b.WriteString(leanStr(e))
	}
	b.WriteString("]\n\nend GoSQLXModel.Gen.Structure\n")
	_, err := writeIfChanged(filepath.Join(genDir, "Structure.lean"), []byte(b.String()))
	return err
}

func nodeText(fset *token.FileSet, n ast.Node) string {
	var b strings.Builder
	_ = printer.Fprint(&b, fset, n)
	return b.String()
}
