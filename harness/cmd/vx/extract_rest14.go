package main

func extractRest14(l *loaded, genDir, jsonDir string) error { return nil }
