package main

import (
	"fmt"
	"go/ast"
	"go/printer"
	"go/token"
	"path/filepath"
	"sort"
	"strings"
)

// extractRest14: structural facts about loops and pools.
//
//  1. Every `for` loop of pkg/sql/parser that is not a range loop or a counted loop, classified by how it is left when
//     the tokens run out (the current token stays the end marker, or the stale last token, for ever):
//     "positive" — the condition is a conjunction/disjunction of token tests without negation (no test is satisfied by
//     the end marker, so the loop is left there); "eof" — the condition tests the end marker or the token index;
//     "guarded" — an unconditional or negated loop whose body either calls a fallible parse function and returns its
//     error, or leaves the loop (break/return) in the else/negated branch of a token test. Anything else is "open":
//     a loop that can spin on the end marker. Each loop must also consume or fail: its body calls advance(), a parse*
//     / expect* method, or leaves.
//  2. PutExpression & co.: a node returned to a pool goes to the pool its Get function draws that type from.
//  3. Children() methods never take the address of a range variable (every child would alias the last element under
//     the go 1.21 loop semantics the module declares).
func extractRest14(l *loaded, genDir, jsonDir string) error {
	type loop struct {
		Where string   `json:"where"`
		Class string   `json:"class"`
		Moves bool     `json:"moves"`
		Words []string `json:"words,omitempty"` // for a loop that fails the criterion: the words its function tests for (search hints)
	}
	var loops []loop
	pp := l.pkgs["pkg/sql/parser"]
	if pp == nil {
		return fmt.Errorf("pkg/sql/parser not loaded")
	}
	src := func(n ast.Node) string { return nodeText(l.fset, n) }
	isTokenTest := func(e ast.Expr) bool {
		call, ok := e.(*ast.CallExpr)
		if !ok {
			return false
		}
		sel, ok := call.Fun.(*ast.SelectorExpr)
		if !ok {
			return false
		}
		n := sel.Sel.Name
		return strings.HasPrefix(n, "is") || strings.HasPrefix(n, "peekIs") || strings.HasPrefix(n, "match")
	}
	var positive func(e ast.Expr) bool
	positive = func(e ast.Expr) bool {
		switch x := e.(type) {
		case *ast.ParenExpr:
			return positive(x.X)
		case *ast.BinaryExpr:
			if x.Op == token.LOR || x.Op == token.LAND {
				return positive(x.X) && positive(x.Y)
			}
			return false
		case *ast.CallExpr:
			return isTokenTest(x) && !strings.Contains(src(x), "TokenTypeEOF")
		}
		return false
	}
	var negOnly func(e ast.Expr) bool // a conjunction of negated token tests: true exactly when the token is none of those expected
	negOnly = func(e ast.Expr) bool {
		switch x := e.(type) {
		case *ast.ParenExpr:
			return negOnly(x.X)
		case *ast.BinaryExpr:
			return x.Op == token.LAND && negOnly(x.X) && negOnly(x.Y)
		case *ast.UnaryExpr:
			return x.Op == token.NOT && isTokenTest(x.X)
		}
		return false
	}
	var hasPositive func(e ast.Expr) bool // a token test somewhere in the condition, not under a negation
	hasPositive = func(e ast.Expr) bool {
		switch x := e.(type) {
		case *ast.ParenExpr:
			return hasPositive(x.X)
		case *ast.BinaryExpr:
			return hasPositive(x.X) || hasPositive(x.Y)
		case *ast.CallExpr:
			return isTokenTest(x)
		}
		return false
	}
	leaves := func(b *ast.BlockStmt) bool {
		found := false
		ast.Inspect(b, func(n ast.Node) bool {
			switch x := n.(type) {
			case *ast.FuncLit, *ast.ForStmt, *ast.RangeStmt:
				return false
			case *ast.BranchStmt:
				if x.Tok == token.BREAK {
					found = true
				}
			case *ast.ReturnStmt:
				found = true
			}
			return true
		})
		return found
	}
	for _, f := range pp.Syntax {
		fname := filepath.Base(l.fset.Position(f.Pos()).Filename)
		if strings.HasSuffix(fname, "_test.go") || strings.HasPrefix(fname, "verif_") {
			continue
		}
		for _, d := range f.Decls {
			fd, ok := d.(*ast.FuncDecl)
			if !ok || fd.Body == nil {
				continue
			}
			ast.Inspect(fd.Body, func(n ast.Node) bool {
				fs, ok := n.(*ast.ForStmt)
				if !ok {
					return true
				}
				if fs.Init != nil || fs.Post != nil {
					return true // counted loop
				}
				cond := ""
				if fs.Cond != nil {
					cond = src(fs.Cond)
				}
				if fs.Cond != nil && !strings.Contains(cond, "p.") {
					return true // not a loop over the token stream
				}
				if fs.Cond == nil && !strings.Contains(src(fs.Body), "p.") {
					return true // a walk over a tree or a slice, no parser state involved
				}
				class := "open"
				switch {
				case fs.Cond != nil && positive(fs.Cond):
					class = "positive"
				case fs.Cond != nil && (strings.Contains(cond, "TokenTypeEOF") || strings.Contains(cond, "currentPos <")):
					class = "eof"
				default:
					// unconditional or negated: look for the two guarded shapes in the body
					guarded := false
					ast.Inspect(fs.Body, func(m ast.Node) bool {
						switch x := m.(type) {
						case *ast.FuncLit:
							return false
						case *ast.IfStmt:
							c := src(x.Cond)
							// a fallible call whose error leaves the function
							if strings.Contains(c, "err != nil") && leaves(x.Body) {
								guarded = true
							}
							// leaving in the else branch of a positive token test / in the then branch of a negated one
							if hasPositive(x.Cond) {
								if blk, ok := x.Else.(*ast.BlockStmt); ok && leaves(blk) && !strings.Contains(c, "!") {
									guarded = true
								}
								if strings.HasPrefix(strings.TrimSpace(c), "!") && !strings.Contains(c, "||") && leaves(x.Body) {
									guarded = true
								}
							}
							if strings.Contains(c, "TokenTypeEOF") && leaves(x.Body) {
								guarded = true
							}
							// "none of the expected tokens here": leaves
							if negOnly(x.Cond) && leaves(x.Body) {
								guarded = true
							}
						}
						return true
					})
					// a body that ends by leaving: the loop goes round only through `continue`, and every `continue` sits
					// under a positive token test
					if n := len(fs.Body.List); n > 0 {
						last := fs.Body.List[n-1]
						endsLeaving := false
						if br, ok := last.(*ast.BranchStmt); ok && br.Tok == token.BREAK {
							endsLeaving = true
						}
						if _, ok := last.(*ast.ReturnStmt); ok {
							endsLeaving = true
						}
						if endsLeaving {
							allUnderTest := true
							var walk func(n ast.Node, under bool)
							walk = func(n ast.Node, under bool) {
								switch x := n.(type) {
								case nil:
								case *ast.BlockStmt:
									for _, st := range x.List {
										walk(st, under)
									}
								case *ast.IfStmt:
									u := under || (hasPositive(x.Cond) && !strings.Contains(src(x.Cond), "!"))
									walk(x.Body, u)
									if x.Else != nil {
										walk(x.Else, under)
									}
								case *ast.BranchStmt:
									if x.Tok == token.CONTINUE && !under {
										allUnderTest = false
									}
								case *ast.SwitchStmt, *ast.TypeSwitchStmt, *ast.SelectStmt:
									ast.Inspect(x, func(m ast.Node) bool {
										if b, ok := m.(*ast.BranchStmt); ok && b.Tok == token.CONTINUE {
											allUnderTest = false
										}
										return true
									})
								}
							}
							walk(fs.Body, false)
							if allUnderTest {
								guarded = true
							}
						}
					}
					if guarded {
						class = "guarded"
					}
				}
				moves := false
				ast.Inspect(fs.Body, func(m ast.Node) bool {
					if call, ok := m.(*ast.CallExpr); ok {
						if sel, ok := call.Fun.(*ast.SelectorExpr); ok {
							n := sel.Sel.Name
							if n == "advance" || strings.HasPrefix(n, "parse") || strings.HasPrefix(n, "expect") || strings.HasPrefix(n, "consume") || strings.HasPrefix(n, "skip") || n == "synchronize" {
								moves = true
							}
						}
					}
					return true
				})
				if leaves(fs.Body) && fs.Cond == nil {
					moves = moves || true
				}
				pos := l.fset.Position(fs.Pos())
				var words []string
				if class == "open" || !moves {
					seen := map[string]bool{}
					ast.Inspect(fd.Body, func(m ast.Node) bool {
						switch x := m.(type) {
						case *ast.BasicLit:
							if x.Kind == token.STRING {
								w := strings.Trim(x.Value, "\"`")
								if len(w) >= 2 && len(w) <= 24 && w == strings.ToUpper(w) && strings.IndexFunc(w, func(r rune) bool { return !(r >= 'A' && r <= 'Z' || r == '_' || r == ' ') }) < 0 {
									seen[w] = true
								}
							}
						case *ast.SelectorExpr:
							if strings.HasPrefix(x.Sel.Name, "TokenType") {
								seen[strings.ToUpper(strings.TrimPrefix(x.Sel.Name, "TokenType"))] = true
							}
						}
						return true
					})
					for w := range seen {
						words = append(words, w)
					}
					sort.Strings(words)
				}
				loops = append(loops, loop{fmt.Sprintf("%s:%s:%d", fname, fd.Name.Name, pos.Line), class, moves, words})
				return true
			})
		}
	}
	sort.Slice(loops, func(i, j int) bool { return loops[i].Where < loops[j].Where })

	// 2. pools: type switch cases of the Put* functions of pkg/sql/ast/pool.go: which pool variable receives the node,
	// and which pool variable the Get function of that type reads
	type poolUse struct {
		Type string `json:"type"`
		Put  string `json:"put_pool"`
		Get  string `json:"get_pool"`
		In   string `json:"in"`
	}
	var pools []poolUse
	pa := l.pkgs["pkg/sql/ast"]
	if pa == nil {
		return fmt.Errorf("pkg/sql/ast not loaded")
	}
	getPool := map[string]string{} // node type -> pool variable its Get<Type>() reads
	for _, f := range pa.Syntax {
		for _, d := range f.Decls {
			fd, ok := d.(*ast.FuncDecl)
			if !ok || fd.Body == nil || fd.Recv != nil || !strings.HasPrefix(fd.Name.Name, "Get") {
				continue
			}
			ast.Inspect(fd.Body, func(n ast.Node) bool {
				ta, ok := n.(*ast.TypeAssertExpr)
				if !ok || ta.Type == nil {
					return true
				}
				call, ok := ta.X.(*ast.CallExpr)
				if !ok {
					return true
				}
				sel, ok := call.Fun.(*ast.SelectorExpr)
				if !ok || sel.Sel.Name != "Get" {
					return true
				}
				ty := strings.TrimPrefix(src(ta.Type), "*")
				getPool[ty] = src(sel.X)
				return true
			})
		}
	}
	for _, f := range pa.Syntax {
		for _, d := range f.Decls {
			fd, ok := d.(*ast.FuncDecl)
			if !ok || fd.Body == nil || fd.Recv != nil || !(strings.HasPrefix(fd.Name.Name, "Put") || strings.HasPrefix(fd.Name.Name, "put") || strings.HasPrefix(fd.Name.Name, "release")) {
				continue
			}
			// (a) Put<T>(x *T): every <pool>.Put(x) in the body
			paramType := map[string]string{}
			for _, p := range fd.Type.Params.List {
				for _, nm := range p.Names {
					paramType[nm.Name] = strings.TrimPrefix(src(p.Type), "*")
				}
			}
			ast.Inspect(fd.Body, func(n ast.Node) bool {
				switch x := n.(type) {
				case *ast.TypeSwitchStmt:
					for _, cl := range x.Body.List {
						cc := cl.(*ast.CaseClause)
						if len(cc.List) != 1 {
							continue
						}
						ty := strings.TrimPrefix(src(cc.List[0]), "*")
						for _, st := range cc.Body {
							ast.Inspect(st, func(m ast.Node) bool {
								if call, ok := m.(*ast.CallExpr); ok {
									if sel, ok := call.Fun.(*ast.SelectorExpr); ok && sel.Sel.Name == "Put" && strings.HasSuffix(src(sel.X), "Pool") {
										pools = append(pools, poolUse{ty, src(sel.X), getPool[ty], fd.Name.Name})
									}
								}
								return true
							})
						}
					}
					return false
				case *ast.CallExpr:
					if sel, ok := x.Fun.(*ast.SelectorExpr); ok && sel.Sel.Name == "Put" && strings.HasSuffix(src(sel.X), "Pool") && len(x.Args) == 1 {
						if id, ok := x.Args[0].(*ast.Ident); ok {
							if ty, ok := paramType[id.Name]; ok {
								pools = append(pools, poolUse{ty, src(sel.X), getPool[ty], fd.Name.Name})
							}
						}
					}
				}
				return true
			})
		}
	}
	sort.Slice(pools, func(i, j int) bool { return pools[i].In+pools[i].Type < pools[j].In+pools[j].Type })

	// 3. &rangeVar inside Children()
	var rangeAddr []string
	for _, f := range pa.Syntax {
		for _, d := range f.Decls {
			fd, ok := d.(*ast.FuncDecl)
			if !ok || fd.Body == nil || fd.Name.Name != "Children" {
				continue
			}
			ast.Inspect(fd.Body, func(n ast.Node) bool {
				rs, ok := n.(*ast.RangeStmt)
				if !ok {
					return true
				}
				vars := map[string]bool{}
				for _, e := range []ast.Expr{rs.Key, rs.Value} {
					if id, ok := e.(*ast.Ident); ok && id.Name != "_" {
						vars[id.Name] = true
					}
				}
				shadowed := map[string]bool{}
				ast.Inspect(rs.Body, func(m ast.Node) bool {
					switch x := m.(type) {
					case *ast.AssignStmt:
						if x.Tok == token.DEFINE {
							for i, lhs := range x.Lhs {
								if id, ok := lhs.(*ast.Ident); ok && vars[id.Name] && i < len(x.Rhs) {
									if rid, ok := x.Rhs[i].(*ast.Ident); ok && rid.Name == id.Name {
										shadowed[id.Name] = true // x := x : a fresh copy per iteration
									}
								}
							}
						}
					case *ast.UnaryExpr:
						if x.Op == token.AND {
							if id, ok := x.X.(*ast.Ident); ok && vars[id.Name] && !shadowed[id.Name] {
								recv := ""
								if fd.Recv != nil && len(fd.Recv.List) > 0 {
									recv = strings.TrimPrefix(src(fd.Recv.List[0].Type), "*")
								}
								rangeAddr = append(rangeAddr, fmt.Sprintf("%s.Children:%d:&%s", recv, l.fset.Position(x.Pos()).Line, id.Name))
							}
						}
					}
					return true
				})
				return true
			})
		}
	}
	sort.Strings(rangeAddr)

	// 4. recovery's test for a statement-starting keyword: the token types its switch on the current token's type lists,
	// and everything else the function reads or calls (a reading of the token's text, a table lookup, a call)
	var startTypes, startOther []string
	for _, f := range pp.Syntax {
		for _, d := range f.Decls {
			fd, ok := d.(*ast.FuncDecl)
			if !ok || fd.Body == nil || fd.Name.Name != "isStatementStartingKeyword" {
				continue
			}
			inCase := map[ast.Node]bool{}
			ast.Inspect(fd.Body, func(n ast.Node) bool {
				sw, ok := n.(*ast.SwitchStmt)
				if !ok || sw.Tag == nil || src(sw.Tag) != "p.currentToken.Type" {
					return true
				}
				for _, cl := range sw.Body.List {
					cc := cl.(*ast.CaseClause)
					for _, e := range cc.List {
						inCase[e] = true
						if sel, ok := e.(*ast.SelectorExpr); ok && strings.HasPrefix(sel.Sel.Name, "TokenType") {
							startTypes = append(startTypes, strings.TrimPrefix(sel.Sel.Name, "TokenType"))
						} else {
							startOther = append(startOther, "case:"+src(e))
						}
					}
					for _, st := range cc.Body {
						if r, ok := st.(*ast.ReturnStmt); !ok || len(r.Results) != 1 || src(r.Results[0]) != "true" {
							startOther = append(startOther, "case-body:"+nodeText(l.fset, st))
						}
					}
					if cc.List == nil {
						startOther = append(startOther, "default-clause")
					}
				}
				return true
			})
			ast.Inspect(fd.Body, func(n ast.Node) bool {
				switch x := n.(type) {
				case *ast.SelectorExpr:
					if src(x.X) == "p.currentToken" && x.Sel.Name != "Type" {
						startOther = append(startOther, "reads:"+x.Sel.Name)
					}
				case *ast.CallExpr:
					startOther = append(startOther, "calls:"+src(x.Fun))
				case *ast.IndexExpr:
					startOther = append(startOther, "looks-up:"+src(x.X))
				case *ast.ReturnStmt:
					if len(x.Results) == 1 && src(x.Results[0]) != "true" && src(x.Results[0]) != "false" {
						startOther = append(startOther, "returns:"+src(x.Results[0]))
					}
				}
				return true
			})
		}
	}
	sort.Strings(startTypes)
	sort.Strings(startOther)

	// 5. how each exported function that takes a context begins: with a poll of the context that returns its error
	// ("poll-first"), by handing the context on without looping itself ("delegates"), or otherwise
	type ctxEntry struct {
		Fn   string `json:"fn"`
		Kind string `json:"kind"`
	}
	var ctxEntries []ctxEntry
	for _, pkgName := range []string{"pkg/sql/tokenizer", "pkg/sql/parser", "pkg/gosqlx"} {
		pk := l.pkgs[pkgName]
		if pk == nil {
			continue
		}
		for _, f := range pk.Syntax {
			if strings.HasSuffix(l.fset.Position(f.Pos()).Filename, "_test.go") {
				continue
			}
			for _, d := range f.Decls {
				fd, ok := d.(*ast.FuncDecl)
				if !ok || fd.Body == nil || !fd.Name.IsExported() {
					continue
				}
				ctxName := ""
				for _, prm := range fd.Type.Params.List {
					if src(prm.Type) == "context.Context" && len(prm.Names) == 1 {
						ctxName = prm.Names[0].Name
					}
				}
				if ctxName == "" {
					continue
				}
				name := fd.Name.Name
				if fd.Recv != nil && len(fd.Recv.List) > 0 {
					name = strings.TrimPrefix(src(fd.Recv.List[0].Type), "*") + "." + name
				}
				kind := "other"
				if len(fd.Body.List) > 0 {
					if is, ok := fd.Body.List[0].(*ast.IfStmt); ok && is.Init != nil && strings.Contains(src(is.Init), ctxName+".Err()") && leaves(is.Body) {
						kind = "poll-first"
					}
				}
				if kind == "other" {
					loops, hands := false, false
					ast.Inspect(fd.Body, func(n ast.Node) bool {
						switch x := n.(type) {
						case *ast.ForStmt, *ast.RangeStmt:
							loops = true
						case *ast.CallExpr:
							for _, a := range x.Args {
								if id, ok := a.(*ast.Ident); ok && id.Name == ctxName {
									hands = true
								}
							}
						}
						return true
					})
					if hands && !loops {
						kind = "delegates"
					}
				}
				ctxEntries = append(ctxEntries, ctxEntry{strings.TrimPrefix(pkgName, "pkg/") + ":" + name, kind})
			}
		}
	}
	sort.Slice(ctxEntries, func(i, j int) bool { return ctxEntries[i].Fn < ctxEntries[j].Fn })

	// 6. the size every tokenizer run reports to the metrics: the second argument of each metrics.RecordTokenization
	// call, and whether it is the length of the function's own byte-slice parameter
	type sizeArg struct {
		Fn    string `json:"fn"`
		Arg   string `json:"arg"`
		Param bool   `json:"is_len_of_parameter"`
	}
	var sizeArgs []sizeArg
	if tkp := l.pkgs["pkg/sql/tokenizer"]; tkp != nil {
		for _, f := range tkp.Syntax {
			if strings.HasSuffix(l.fset.Position(f.Pos()).Filename, "_test.go") {
				continue
			}
			for _, d := range f.Decls {
				fd, ok := d.(*ast.FuncDecl)
				if !ok || fd.Body == nil {
					continue
				}
				params := map[string]bool{}
				for _, prm := range fd.Type.Params.List {
					if src(prm.Type) == "[]byte" {
						for _, nm := range prm.Names {
							params[nm.Name] = true
						}
					}
				}
				// a parameter that is assigned to in the body no longer is the argument
				ast.Inspect(fd.Body, func(n ast.Node) bool {
					if as, ok := n.(*ast.AssignStmt); ok {
						for _, lhs := range as.Lhs {
							if id, ok := lhs.(*ast.Ident); ok && as.Tok != token.DEFINE {
								delete(params, id.Name)
							}
						}
					}
					return true
				})
				ast.Inspect(fd.Body, func(n ast.Node) bool {
					call, ok := n.(*ast.CallExpr)
					if !ok || !strings.HasSuffix(src(call.Fun), "RecordTokenization") || len(call.Args) != 3 {
						return true
					}
					arg := src(call.Args[1])
					isParam := false
					if lc, ok := call.Args[1].(*ast.CallExpr); ok && src(lc.Fun) == "len" && len(lc.Args) == 1 {
						if id, ok := lc.Args[0].(*ast.Ident); ok && params[id.Name] {
							isParam = true
						}
					}
					sizeArgs = append(sizeArgs, sizeArg{fd.Name.Name, arg, isParam})
					return true
				})
			}
		}
	}
	sort.Slice(sizeArgs, func(i, j int) bool { return sizeArgs[i].Fn+sizeArgs[i].Arg < sizeArgs[j].Fn+sizeArgs[j].Arg })
	if err := writeJSON(jsonDir+"/structure.json", map[string]any{"parser_loops": loops, "pool_puts": pools, "children_range_addr": rangeAddr,
		"recovery_start_types": startTypes, "recovery_start_other": startOther, "ctx_entries": ctxEntries, "metrics_size_args": sizeArgs}); err != nil {
		return err
	}
	var b strings.Builder
	b.WriteString(genHeader)
	b.WriteString("namespace GoSQLXModel.Gen.Structure\n\n/-- loops of pkg/sql/parser over the token stream: (where, class, consumes-or-leaves) -/\ndef parserLoops : List (String × String × Bool) := [")
	for i, e := range loops {
		if i > 0 {
			b.WriteString(",\n  ")
		}
		fmt.Fprintf(&b, "(%s, %s, %v)", leanStr(e.Where), leanStr(e.Class), e.Moves)
	}
	b.WriteString("]\n\n/-- pool returns of pkg/sql/ast: (function, node type, pool it is put into, pool its Get draws from) -/\ndef poolPuts : List (String × String × String × String) := [")
	for i, e := range pools {
		if i > 0 {
			b.WriteString(",\n  ")
		}
		fmt.Fprintf(&b, "(%s, %s, %s, %s)", leanStr(e.In), leanStr(e.Type), leanStr(e.Put), leanStr(e.Get))
	}
	b.WriteString("]\n\n/-- addresses of range variables taken inside Children() methods -/\ndef childrenRangeAddr : List String := [")
	for i, e := range rangeAddr {
		if i > 0 {
			b.WriteString(", ")
		}
		b.WriteString(leanStr(e))
	}
	b.WriteString("]\n\n/-- token types listed by recovery's isStatementStartingKeyword (switch on the current token's type) -/\ndef recoveryStartTypes : List String := [")
	for i, e := range startTypes {
		if i > 0 {
			b.WriteString(", ")
		}
		b.WriteString(leanStr(e))
	}
	b.WriteString("]\n\n/-- whatever else that function reads, calls, looks up or returns -/\ndef recoveryStartOther : List String := [")
	for i, e := range startOther {
		if i > 0 {
			b.WriteString(", ")
		}
		b.WriteString(leanStr(e))
	}
	b.WriteString("]\n\n/-- how each exported function taking a context begins: (function, poll-first | delegates | other) -/\ndef ctxEntries : List (String × String) := [")
	for i, e := range ctxEntries {
		if i > 0 {
			b.WriteString(", ")
		}
		fmt.Fprintf(&b, "(%s, %s)", leanStr(e.Fn), leanStr(e.Kind))
	}
	b.WriteString("]\n\n/-- the size argument of every metrics.RecordTokenization call of the tokenizer: (function, argument, is the length of the function's own byte-slice parameter) -/\ndef metricsSizeArgs : List (String × String × Bool) := [")
	for i, e := range sizeArgs {
		if i > 0 {
			b.WriteString(", ")
		}
		fmt.Fprintf(&b, "(%s, %s, %v)", leanStr(e.Fn), leanStr(e.Arg), e.Param)
	}
	b.WriteString("]\n\nend GoSQLXModel.Gen.Structure\n")
	_, err := writeIfChanged(filepath.Join(genDir, "Structure.lean"), []byte(b.String()))
	return err
}

func nodeText(fset *token.FileSet, n ast.Node) string {
	var b strings.Builder
	_ = printer.Fprint(&b, fset, n)
	return b.String()
}
